package lib

// Concurrent lanes of the C19 correspondence driver (same package as config_driver_test.go,
// whose helpers are used). No assertions about conjure: counts and first examples are recorded.
//
//  TestVerifC19ReloadReaders  workers evaluate policy decisions while the main loop reloads
//                             between configurations (OnReload); every decision is compared with
//                             the decisions of the configurations in force during the call.
//  TestVerifC19StatsIngest    child process: ingest-side accounting with fresh keys every epoch
//                             while every statistics printer loops; the parent records how the
//                             child ended (a Go runtime "fatal error" cannot be recovered).

import (
	"encoding/json"
	"fmt"
	"io"
	golog "log"
	"net"
	"os"
	"os/exec"
	"runtime"
	"sort"
	"strings"
	"sync"
	"sync/atomic"
	"testing"
	"time"

	"github.com/refraction-networking/conjure/pkg/station/log"
	pb "github.com/refraction-networking/conjure/proto"
)

type c19rrCase struct {
	Cfgs    []string `json:"cfgs"` // TOML texts; configuration k is installed by flip e with e % len == k
	Subs    []string `json:"subs"` // subnet files, same indexing
	Flips   int      `json:"flips"`
	Workers int      `json:"workers"`
	NProbe  int      `json:"nprobe"`
}

type c19rrRes struct {
	Error    string   `json:"error"`
	Procs    int      `json:"procs"`
	Tables   [][]bool `json:"tables"` // per configuration: covert[0..n) ++ domain[0..n) ++ phantom[0..n) ++ [loop], evaluated on the parsed configuration itself
	Gens     [][]int  `json:"gens"`
	Calls    int64    `json:"calls"`
	Flips    int      `json:"flips"`
	Bad      int64    `json:"bad"`       // decisions that no configuration in force during the call gives
	BadFirst string   `json:"bad_first"` // kind/probe/decision/window of the first one
	BadGens  int64    `json:"bad_gens"`
	Panic    string   `json:"panic"`
}

func c19table(rc *RegConfig, n int) []bool {
	var t []bool
	for i := 0; i < n; i++ {
		t = append(t, rc.isBlocklistedCovertAddr(c19probeCovert(i)))
	}
	for i := 0; i < n; i++ {
		t = append(t, rc.isBlocklistedCovertDomain(c19probeDomain(i)))
	}
	for i := 0; i < n; i++ {
		t = append(t, rc.IsBlocklistedPhantom(c19probePhantom(i)))
	}
	t = append(t, rc.isBlocklistedCovertAddr(net.ParseIP("127.0.0.1")))
	return t
}

func c19rrRun(c c19rrCase, dir string) (r c19rrRes) {
	r.Procs = runtime.GOMAXPROCS(0)
	logger := log.New(io.Discard, "[C19] ", golog.Ldate)
	k := len(c.Cfgs)
	parse := func(i int) (*Config, string, error) {
		cp := c19place(dir, fmt.Sprintf("rr_app_%d.toml", i), c19file{Kind: "text", Text: c.Cfgs[i]}, "")
		sp := c19place(dir, fmt.Sprintf("rr_sub_%d.toml", i), c19file{Kind: "text", Text: c.Subs[i]}, "")
		os.Setenv("CJ_STATION_CONFIG", cp)
		os.Setenv("PHANTOM_SUBNET_LOCATION", sp)
		conf, err := ParseConfig()
		return conf, sp, err
	}
	confs := make([]*RegConfig, k)
	subs := make([]string, k)
	for i := 0; i < k; i++ {
		conf, sp, err := parse(i)
		if err != nil {
			r.Error = "config does not load: " + err.Error()
			return
		}
		confs[i], subs[i] = conf.RegConfig, sp
		r.Tables = append(r.Tables, c19table(conf.RegConfig, c.NProbe))
	}
	conf0, _, err := parse(0) // a second parse: the manager keeps (and OnReload overwrites) this object
	if err != nil {
		r.Error = err.Error()
		return
	}
	rm := NewRegistrationManager(conf0.RegConfig)
	if rm == nil {
		r.Error = "no manager"
		return
	}
	rm.Logger = logger
	gensOf := func() []int {
		var g []int
		for gen := range rm.GetPhantomSelector().Networks {
			g = append(g, int(gen))
		}
		sort.Ints(g)
		return g
	}
	// generations of each configuration's subnet file, observed sequentially
	for i := 0; i < k; i++ {
		os.Setenv("PHANTOM_SUBNET_LOCATION", subs[i])
		rm.OnReload(confs[i])
		r.Gens = append(r.Gens, gensOf())
	}
	os.Setenv("PHANTOM_SUBNET_LOCATION", subs[0])
	rm.OnReload(confs[0])

	var lo, hi int64 // epoch e installs configuration e % k; lo: last completely installed, hi: last started
	var calls, bad, badGens int64
	var stop int32
	var firstMu sync.Mutex
	var wg sync.WaitGroup
	n := c.NProbe
	for w := 0; w < c.Workers; w++ {
		wg.Add(1)
		go func(w int) {
			defer wg.Done()
			defer func() {
				if p := recover(); p != nil {
					firstMu.Lock()
					r.Panic = fmt.Sprint(p)
					firstMu.Unlock()
				}
			}()
			covert := make([]net.IP, n)
			phantom := make([]net.IP, n)
			domain := make([]string, n)
			for i := 0; i < n; i++ {
				covert[i], phantom[i], domain[i] = c19probeCovert(i), c19probePhantom(i), c19probeDomain(i)
			}
			loop := net.ParseIP("127.0.0.1")
			for it := w; atomic.LoadInt32(&stop) == 0; it++ {
				slot := it % (3*n + 2)
				l := atomic.LoadInt64(&lo)
				var d bool
				var g []int
				switch {
				case slot < n:
					d = rm.isBlocklistedCovertAddr(covert[slot])
				case slot < 2*n:
					d = rm.isBlocklistedCovertDomain(domain[slot-n])
				case slot < 3*n:
					d = rm.IsBlocklistedPhantom(phantom[slot-2*n])
				case slot == 3*n:
					d = rm.isBlocklistedCovertAddr(loop)
				default:
					g = gensOf()
				}
				h := atomic.LoadInt64(&hi)
				atomic.AddInt64(&calls, 1)
				ok := false
				for e := l; e <= h && !ok; e++ {
					if g != nil {
						ok = fmt.Sprint(g) == fmt.Sprint(r.Gens[int(e)%k])
					} else {
						ok = r.Tables[int(e)%k][slot] == d
					}
				}
				if !ok {
					if g != nil {
						atomic.AddInt64(&badGens, 1)
					} else if atomic.AddInt64(&bad, 1) == 1 {
						firstMu.Lock()
						r.BadFirst = fmt.Sprintf("slot=%d decision=%v window=[%d,%d] k=%d", slot, d, l, h, k)
						firstMu.Unlock()
					}
				}
			}
		}(w)
	}
	for f := 1; f <= c.Flips; f++ {
		atomic.StoreInt64(&hi, int64(f))
		os.Setenv("PHANTOM_SUBNET_LOCATION", subs[f%k])
		rm.OnReload(confs[f%k])
		atomic.StoreInt64(&lo, int64(f))
		if f%64 == 0 {
			runtime.Gosched()
		}
	}
	atomic.StoreInt32(&stop, 1)
	wg.Wait()
	r.Calls, r.Bad, r.BadGens, r.Flips = calls, bad, badGens, c.Flips
	return
}

func TestVerifC19ReloadReaders(t *testing.T) {
	raw, err := os.ReadFile(os.Getenv("VERIF_CASES"))
	if err != nil {
		t.Skip("no cases")
	}
	var cases []c19rrCase
	if err := json.Unmarshal(raw, &cases); err != nil {
		t.Fatal(err)
	}
	if runtime.GOMAXPROCS(0) < 8 {
		defer runtime.GOMAXPROCS(runtime.GOMAXPROCS(8))
	}
	dir := t.TempDir()
	oldCfg, oldSub := os.Getenv("CJ_STATION_CONFIG"), os.Getenv("PHANTOM_SUBNET_LOCATION")
	defer func() { os.Setenv("CJ_STATION_CONFIG", oldCfg); os.Setenv("PHANTOM_SUBNET_LOCATION", oldSub) }()
	devnull, _ := os.OpenFile(os.DevNull, os.O_WRONLY, 0)
	stdout := os.Stdout
	os.Stdout = devnull
	res := make([]c19rrRes, len(cases))
	for i, c := range cases {
		res[i] = c19rrRun(c, dir)
	}
	os.Stdout = stdout
	out, _ := json.Marshal(res)
	if err := os.WriteFile(os.Getenv("VERIF_OUT"), out, 0o644); err != nil {
		t.Fatal(err)
	}
}

// ---- housekeeping vs. ingest accounting, in a child process ----

type c19siCase struct {
	Cfg     string `json:"cfg"`
	Sub     string `json:"sub"`
	Workers int    `json:"workers"`
	Millis  int    `json:"millis"`
}

type c19siRes struct {
	Clean    bool   `json:"clean"` // the child exited with status 0
	ExitErr  string `json:"exit_err"`
	First    string `json:"first"`      // first "fatal error:" / "panic:" / "WARNING: DATA RACE" line of the child's output
	InPrint  bool   `json:"in_printer"` // PrintAndReset / PrintStats on the reported stack
	Prints   int    `json:"prints"`
	Accounts int64  `json:"accounts"`
}

const c19childEnv = "VERIF_C19_STATS_CHILD"

func c19statsChild(t *testing.T) {
	var c c19siCase
	if err := json.Unmarshal([]byte(os.Getenv(c19childEnv)), &c); err != nil {
		t.Fatal(err)
	}
	dir := t.TempDir()
	os.Setenv("CJ_STATION_CONFIG", c19place(dir, "app.toml", c19file{Kind: "text", Text: c.Cfg}, ""))
	os.Setenv("PHANTOM_SUBNET_LOCATION", c19place(dir, "sub.toml", c19file{Kind: "text", Text: c.Sub}, ""))
	devnull, _ := os.OpenFile(os.DevNull, os.O_WRONLY, 0)
	stdout := os.Stdout
	os.Stdout = devnull
	conf, err := ParseConfig()
	if err != nil {
		os.Stdout = stdout
		t.Fatal(err)
	}
	rm := NewRegistrationManager(conf.RegConfig)
	os.Stdout = stdout
	if rm == nil {
		t.Fatal("no manager")
	}
	logger := log.New(io.Discard, "[C19] ", golog.Ldate)
	rm.Logger = logger
	// the aggregate printer of the station, on a private Stats value (stats.go)
	s := Stats{logger: logger, generations: make(map[uint32]int64), genMutex: &sync.Mutex{}}
	s.AddStatsModule(rm.LivenessTester, false)
	s.AddStatsModule(GetProxyStats(), false)
	s.AddStatsModule(rm, false)

	var stop int32
	var accounts int64
	var wg sync.WaitGroup
	for w := 0; w < c.Workers; w++ {
		wg.Add(1)
		go func(w int) {
			defer wg.Done()
			phantom4, phantom6 := net.ParseIP("192.122.190.10"), net.ParseIP("2001:48a8:687f:1::10")
			srcs := []pb.RegistrationSource{pb.RegistrationSource_API, pb.RegistrationSource_Detector, pb.RegistrationSource_DetectorPrescan, pb.RegistrationSource_BidirectionalAPI}
			for i := uint32(w); atomic.LoadInt32(&stop) == 0; i += uint32(c.Workers) {
				src := srcs[i%uint32(len(srcs))]
				ph := phantom4
				if i%2 == 1 {
					ph = phantom6
				}
				// fresh generation / transport / library-version keys all the time: every epoch inserts
				reg := &DecoyRegistration{DecoyListVersion: 1 + i%97, RegistrationSource: &src,
					Transport: pb.TransportType(i % 7), clientLibVer: i % 50021, PhantomIp: ph}
				rm.AddRegStats(reg)
				rm.AddDupReg()
				rm.AddErrReg()
				rm.AddBlocklistedPhantomReg()
				rm.addIngestMessage()
				rm.addDroppedMessage()
				rm.addDNSResolution()
				rm.AddExpiredRegs(1, 1)
				s.AddReg(1+i%97, &src)
				s.ExpireReg(1+i%97, &src)
				atomic.AddInt64(&accounts, 1)
			}
		}(w)
	}
	end := time.Now().Add(time.Duration(c.Millis) * time.Millisecond)
	prints := 0
	for time.Now().Before(end) {
		rm.PrintAndReset(logger)
		rm.RegistrationStats.PrintAndReset(logger)
		rm.LivenessTester.PrintAndReset(logger)
		GetProxyStats().PrintAndReset(logger)
		s.PrintStats(false)
		s.PrintStats(true)
		rm.RemoveOldRegistrations()
		prints++
		time.Sleep(200 * time.Microsecond)
	}
	atomic.StoreInt32(&stop, 1)
	wg.Wait()
	fmt.Fprintf(os.Stderr, "C19CHILD prints=%d accounts=%d\n", prints, atomic.LoadInt64(&accounts))
}

func TestVerifC19StatsIngest(t *testing.T) {
	if os.Getenv(c19childEnv) != "" {
		c19statsChild(t)
		return
	}
	raw, err := os.ReadFile(os.Getenv("VERIF_CASES"))
	if err != nil {
		t.Skip("no cases")
	}
	var cases []c19siCase
	if err := json.Unmarshal(raw, &cases); err != nil {
		t.Fatal(err)
	}
	res := make([]c19siRes, len(cases))
	for i, c := range cases {
		js, _ := json.Marshal(c)
		cmd := exec.Command(os.Args[0], "-test.run=^TestVerifC19StatsIngest$", "-test.count=1", "-test.timeout=120s")
		cmd.Env = append(os.Environ(), c19childEnv+"="+string(js), "GOMAXPROCS=8")
		out, err := cmd.CombinedOutput()
		var r c19siRes
		r.Clean = err == nil
		if err != nil {
			r.ExitErr = err.Error()
		}
		text := string(out)
		for _, line := range strings.Split(text, "\n") {
			if strings.HasPrefix(line, "fatal error:") || strings.HasPrefix(line, "panic:") || strings.Contains(line, "WARNING: DATA RACE") {
				r.First = line
				break
			}
		}
		if r.First != "" {
			r.Clean = false
		}
		r.InPrint = strings.Contains(text, "PrintAndReset") || strings.Contains(text, "PrintStats")
		if j := strings.Index(text, "C19CHILD prints="); j >= 0 {
			fmt.Sscanf(text[j:], "C19CHILD prints=%d accounts=%d", &r.Prints, &r.Accounts)
		}
		res[i] = r
	}
	out, _ := json.Marshal(res)
	if err := os.WriteFile(os.Getenv("VERIF_OUT"), out, 0o644); err != nil {
		t.Fatal(err)
	}
}
