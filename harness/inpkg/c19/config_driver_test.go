package lib

// Correspondence driver for C19 (configuration loading, housekeeping, reload).
// Reads cases (file contents for start-up and for each reload), runs the real
// ParseConfig / liveness.New / NewRegistrationManager / PrintAndReset / OnReload
// and records outcome classes and policy decisions. No assertions about conjure.

import (
	"context"
	"encoding/json"
	"fmt"
	"io"
	golog "log"
	"net"
	"os"
	"path/filepath"
	"sort"
	"strings"
	"sync"
	"testing"
	"time"

	"github.com/refraction-networking/conjure/pkg/station/liveness"
	"github.com/refraction-networking/conjure/pkg/station/log"
)

type c19file struct {
	Kind string `json:"kind"` // text | unreadable | shipped (the repository's cmd/application/app_config.toml)
	Text string `json:"text"`
}

type c19step struct {
	Cfg c19file `json:"cfg"`
	Sub c19file `json:"sub"`
}

type c19case struct {
	Steps  []c19step `json:"steps"`
	NProbe int       `json:"nprobe"`
}

type c19obs struct {
	Parse         string            `json:"parse"` // ok | err | panic
	ParseMsg      string            `json:"parse_msg"`
	RegNil        bool              `json:"reg_nil"` // embedded *RegConfig nil after a successful ParseConfig
	Live          string            `json:"live"`    // ok | err   (liveness.New; err => NewRegistrationManager would log.Fatal)
	Mgr           string            `json:"mgr"`     // ok | nil | panic | skipped
	Reload        string            `json:"reload"`  // ok | panic | skipped (reload steps)
	Prints        map[string]string `json:"prints"`  // module -> ok | panic:<msg>
	Expiry        string            `json:"expiry"`
	Covert        []bool            `json:"covert"` // probe n blocked as covert address
	Loop          bool              `json:"loop"`   // 127.0.0.1 blocked as covert address
	Domain        []bool            `json:"domain"`
	Phantom       []bool            `json:"phantom"`
	Gens          []int             `json:"gens"`
	GenSig        string            `json:"gensig"`         // generations with their subnets, canonical text
	Pipe          string            `json:"pipe"`           // start-up: ok | panic:<msg> | timeout (HandleRegUpdates launched on this configuration)
	PipeCap       int               `json:"pipecap"`        // cap(ingestChan)+1 once the pipeline runs, 0 = nil channel
	PrintsRunning map[string]string `json:"prints_running"` // the printers again, with the ingest pipeline running
	NParsed       []int             `json:"nparsed"`        // parsed entries: covert block, allow, phantom, domains (of the parsed config)
	NWritten      []int             `json:"nwritten"`
}

type c19res struct {
	Obs []c19obs `json:"obs"`
}

func c19guard(f func()) (out string) {
	defer func() {
		if p := recover(); p != nil {
			out = fmt.Sprintf("panic:%v", p)
			if len(out) > 160 {
				out = out[:160]
			}
		}
	}()
	f()
	return "ok"
}

func c19probeCovert(n int) net.IP {
	if n%2 == 0 {
		return net.ParseIP(fmt.Sprintf("198.18.%d.1", n))
	}
	return net.ParseIP(fmt.Sprintf("2001:db8:%x::1", n))
}
func c19probePhantom(n int) net.IP {
	if n%2 == 0 {
		return net.ParseIP(fmt.Sprintf("198.19.%d.7", n))
	}
	return net.ParseIP(fmt.Sprintf("2001:db8:ff%x::7", n))
}
func c19probeDomain(n int) string { return fmt.Sprintf("d%d.example", n) }

func c19decisions(rc *RegConfig, o *c19obs, n int) {
	for i := 0; i < n; i++ {
		o.Covert = append(o.Covert, rc.isBlocklistedCovertAddr(c19probeCovert(i)))
		o.Domain = append(o.Domain, rc.isBlocklistedCovertDomain(c19probeDomain(i)))
		o.Phantom = append(o.Phantom, rc.IsBlocklistedPhantom(c19probePhantom(i)))
	}
	o.Loop = rc.isBlocklistedCovertAddr(net.ParseIP("127.0.0.1"))
}

func c19place(dir, name string, f c19file, shipped string) string {
	p := filepath.Join(dir, name)
	switch f.Kind {
	case "text":
		_ = os.WriteFile(p, []byte(f.Text), 0o644)
		return p
	case "shipped":
		return shipped
	default: // unreadable: a path that does not exist
		_ = os.Remove(p)
		return filepath.Join(dir, "missing", name)
	}
}

func c19prints(rm *RegistrationManager, logger *log.Logger) map[string]string {
	m := map[string]string{}
	regChan := make(chan interface{}, 4)
	zi, err := NewZMQIngest("ipc://@c19-unused", regChan, [32]byte{1, 2, 3}, nil)
	if err == nil {
		m["zmq"] = c19guard(func() { zi.PrintAndReset(logger) })
	} else {
		m["zmq"] = "ok"
	}
	m["liveness"] = c19guard(func() { rm.LivenessTester.PrintAndReset(logger) })
	m["liveness_print"] = c19guard(func() { rm.LivenessTester.PrintStats(logger) })
	m["proxy"] = c19guard(func() { GetProxyStats().PrintAndReset(logger) })
	m["manager"] = c19guard(func() { rm.PrintAndReset(logger) })
	m["regstats"] = c19guard(func() { rm.RegistrationStats.PrintAndReset(logger) })
	// the aggregate the station runs every 5 s (stats.go PrintStats), on a private Stats value
	s := Stats{logger: logger, generations: make(map[uint32]int64), genMutex: &sync.Mutex{}}
	if err == nil {
		s.AddStatsModule(zi, false)
	}
	s.AddStatsModule(rm.LivenessTester, false)
	s.AddStatsModule(GetProxyStats(), false)
	s.AddStatsModule(rm, false)
	m["all"] = c19guard(func() { s.PrintStats(false); s.PrintStats(true); s.ResetAll() })
	return m
}

// c19startPipeline launches the real HandleRegUpdates (main.go:167) and waits until it has created the job buffer.
func c19startPipeline(rm *RegistrationManager) (status string, stop func()) {
	ctx, cancel := context.WithCancel(context.Background())
	wg := new(sync.WaitGroup)
	regChan := make(chan interface{}, 4)
	res := make(chan string, 1)
	wg.Add(1)
	go func() {
		res <- c19guard(func() { rm.HandleRegUpdates(ctx, regChan, wg) })
	}()
	stop = func() {
		cancel()
		select {
		case <-res:
		case <-time.After(5 * time.Second):
		}
	}
	deadline := time.Now().Add(3 * time.Second)
	for time.Now().Before(deadline) {
		select {
		case st := <-res: // returned (or panicked) before it was cancelled
			res <- st
			if st == "ok" {
				st = "returned"
			}
			return st, stop
		default:
		}
		if rm.ingestChan != nil {
			return "ok", stop
		}
		time.Sleep(50 * time.Microsecond)
	}
	return "timeout", stop
}

func c19run(c c19case, dir, shipped string) (r c19res) {
	logger := log.New(io.Discard, "[C19] ", golog.Ldate)
	var rm *RegistrationManager
	stopPipeline := func() {}
	defer func() { stopPipeline() }()
	for i, st := range c.Steps {
		var o c19obs
		o.Prints = map[string]string{}
		os.Setenv("CJ_STATION_CONFIG", c19place(dir, "app.toml", st.Cfg, shipped))
		os.Setenv("PHANTOM_SUBNET_LOCATION", c19place(dir, "subnets.toml", st.Sub, shipped))
		var conf *Config
		var perr error
		g := c19guard(func() { conf, perr = ParseConfig() })
		switch {
		case g != "ok":
			o.Parse, o.ParseMsg = "panic", g
		case perr != nil:
			o.Parse, o.ParseMsg = "err", perr.Error()
			if len(o.ParseMsg) > 200 {
				o.ParseMsg = o.ParseMsg[:200]
			}
		default:
			o.Parse = "ok"
			o.RegNil = conf.RegConfig == nil
			if conf.RegConfig != nil {
				rc := conf.RegConfig
				o.NParsed = []int{len(rc.covertBlocklistSubnets), len(rc.covertAllowlistSubnets), len(rc.phantomBlocklist), len(rc.covertBlocklistDomains)}
				o.NWritten = []int{len(rc.CovertBlocklistSubnets), len(rc.CovertAllowlistSubnets), len(rc.PhantomBlocklist), len(rc.CovertBlocklistDomains)}
			}
		}
		if i == 0 {
			// start-up (cmd/application/main.go:45-69)
			o.Live, o.Mgr, o.Reload = "skipped", "skipped", "skipped"
			if o.Parse == "ok" {
				var lerr error
				g := c19guard(func() {
					var lc *liveness.Config
					if conf.RegConfig != nil {
						lc = conf.RegConfig.LivenessConfig()
					}
					_, lerr = liveness.New(lc)
				})
				if g != "ok" {
					o.Live = g
				} else if lerr != nil {
					o.Live = "err"
				} else {
					o.Live = "ok"
					g := c19guard(func() { rm = NewRegistrationManager(conf.RegConfig) })
					if g != "ok" {
						o.Mgr = g
						rm = nil
					} else if rm == nil {
						o.Mgr = "nil"
					} else {
						o.Mgr = "ok"
						rm.Logger = logger
					}
				}
			}
		} else {
			// SIGHUP (cmd/application/main.go:176-191): re-parse; only on success call OnReload
			o.Live, o.Mgr = "skipped", "skipped"
			o.Reload = "skipped"
			if o.Parse == "ok" && rm != nil {
				o.Reload = c19guard(func() { rm.OnReload(conf.RegConfig) })
			}
		}
		if rm != nil {
			o.Prints = c19prints(rm, logger)
			o.Expiry = c19guard(func() { rm.RemoveOldRegistrations() })
			if i == 0 {
				o.Pipe, stopPipeline = c19startPipeline(rm)
			}
			if rm.ingestChan != nil {
				o.PipeCap = cap(rm.ingestChan) + 1
			}
			o.PrintsRunning = c19prints(rm, logger)
			if g := c19guard(func() { rm.RemoveOldRegistrations() }); g != "ok" {
				o.PrintsRunning["expiry"] = g
			}
			if g := c19guard(func() { c19decisions(rm.RegConfig, &o, c.NProbe) }); g != "ok" {
				o.Prints["decisions"] = g
			}
			if rm.PhantomSelector == nil {
				o.Gens = []int{-1} // no selector at all
			} else {
				var sig []string
				for gen, sc := range rm.PhantomSelector.Networks {
					o.Gens = append(o.Gens, int(gen))
					line := fmt.Sprintf("%d:", gen)
					if sc != nil {
						for _, ws := range sc.WeightedSubnets {
							line += fmt.Sprintf("[%d %v %v]", ws.GetWeight(), ws.GetSubnets(), ws.GetRandomizeDstPort())
						}
					}
					sig = append(sig, line)
				}
				sort.Ints(o.Gens)
				sort.Strings(sig)
				o.GenSig = strings.Join(sig, ";")
			}
		} else if o.Parse == "ok" && conf.RegConfig != nil {
			// policy of the parsed configuration itself (no manager was built)
			c19decisions(conf.RegConfig, &o, c.NProbe)
		}
		r.Obs = append(r.Obs, o)
		if o.Parse == "panic" || (i == 0 && rm == nil) {
			break // the process would have died / never started
		}
	}
	return
}

func TestVerifC19Config(t *testing.T) {
	raw, err := os.ReadFile(os.Getenv("VERIF_CASES"))
	if err != nil {
		t.Skip("no cases")
	}
	var cases []c19case
	if err := json.Unmarshal(raw, &cases); err != nil {
		t.Fatal(err)
	}
	shipped := os.Getenv("VERIF_C19_SHIPPED")
	dir := t.TempDir()
	oldCfg, oldSub := os.Getenv("CJ_STATION_CONFIG"), os.Getenv("PHANTOM_SUBNET_LOCATION")
	defer func() { os.Setenv("CJ_STATION_CONFIG", oldCfg); os.Setenv("PHANTOM_SUBNET_LOCATION", oldSub) }()
	// NewRegistrationManager logs to stdout; keep the test output small
	devnull, _ := os.OpenFile(os.DevNull, os.O_WRONLY, 0)
	stdout := os.Stdout
	os.Stdout = devnull
	res := make([]c19res, len(cases))
	for i, c := range cases {
		res[i] = c19run(c, dir, shipped)
	}
	os.Stdout = stdout
	out, _ := json.Marshal(res)
	if err := os.WriteFile(os.Getenv("VERIF_OUT"), out, 0o644); err != nil {
		t.Fatal(err)
	}
}
