//go:build verif

package main

// C03 history lane: the real handleNewTCPConn on REAL loopback TCP connections (127.x.y.z and ::1
// when the sandbox has it), several connections per history plus the statistics epochs
// (connStats.PrintAndReset) in between, with a GeoIP stand-in that knows every peer's country and
// ASN.  Each history has its own connManager (own connStats); the registration manager is shared.
//
// Observed per connection, from the PEER's side of the socket: bytes received from the station, the
// instant and kind of the station's close.  From the station's side (a wrapper around the accepted
// socket that forwards everything): every Read result in the order in which it took effect, the
// deadline the handler set, Write / Close calls, the transports' answers, the instant the handler
// returned, and a panic of the handler goroutine (recovered by the wrapper that plays
// handleNewConn's role: deferred Close around the handler).
//
// Epochs of a non-"hammer" history are taken at quiescent points (every open connection is blocked
// inside Read, so no update function is half-way); the counters are snapshotted right before each
// reset and at the end.  The order of Read results and epochs in the log is the order in which they
// took effect, so the Coq state machine can be run on exactly this history.  "hammer" histories call
// PrintAndReset every few milliseconds without any synchronisation.
//
// Only records observables; contains no assertion about conjure.

import (
	"encoding/json"
	"errors"
	"fmt"
	"io"
	golog "log"
	"net"
	"os"
	"path/filepath"
	"runtime/debug"
	"sort"
	"strings"
	"sync"
	"sync/atomic"
	"syscall"
	"testing"
	"time"

	"github.com/refraction-networking/conjure/pkg/station/geoip"
	cjlib "github.com/refraction-networking/conjure/pkg/station/lib"
	"github.com/refraction-networking/conjure/pkg/station/log"
)

// ---------------------------------------------------------------- GeoIP stand-in

type c03GeoEntry struct {
	CC     string
	ASN    uint
	CCErr  bool
	ASNErr bool
}

type c03Geo struct {
	mu  sync.Mutex
	tab map[string]c03GeoEntry
}

var c03GeoDB = &c03Geo{tab: map[string]c03GeoEntry{}}

func (g *c03Geo) set(ip net.IP, e c03GeoEntry) {
	g.mu.Lock()
	g.tab[string(ip.To16())] = e
	g.mu.Unlock()
}

func (g *c03Geo) get(ip net.IP) c03GeoEntry {
	g.mu.Lock()
	defer g.mu.Unlock()
	if e, ok := g.tab[string(ip.To16())]; ok {
		return e
	}
	return c03GeoEntry{CC: "US", ASN: 64500}
}

func (g *c03Geo) CC(ip net.IP) (string, error) {
	e := g.get(ip)
	if e.CCErr {
		return "", errors.New("geoip: lookup failed")
	}
	return e.CC, nil
}

func (g *c03Geo) ASN(ip net.IP) (uint, error) {
	e := g.get(ip)
	if e.ASNErr {
		return 0, errors.New("geoip: lookup failed")
	}
	return e.ASN, nil
}

// ---------------------------------------------------------------- case / result types

type c03hConnSpec struct {
	Kind     string    `json:"kind"`
	AtMs     int       `json:"at_ms"`     // when the peer connects, relative to the start of the history
	Src      string    `json:"src"`       // loopback source address the peer dials from (127.x.y.z or ::1)
	Peer     string    `json:"peer"`      // "" = the socket's real remote address; else the IP the station sees as RemoteAddr
	PeerForm string    `json:"peer_form"` // tcp (default) | tcp4 (4-byte IP) | udp | str (a net.Addr that is neither: host:port string)
	Phantom  string    `json:"phantom"`   // v4 | v6
	Regs     []vfOther `json:"regs"`
	Parts    []c03Part `json:"parts"`
	Chunks   [][2]int  `json:"chunks"` // [ms after connecting, length]; -1 = the rest
	FinMs    int       `json:"fin_ms"` // > 0: the peer ends the connection itself at this instant
	FinRst   bool      `json:"fin_rst"`
	CC       string    `json:"cc"`
	ASN      uint      `json:"asn"`
	GeoErr   string    `json:"geo_err"`   // "cc" / "asn": that GeoIP lookup fails for this peer
	MidEpoch []int     `json:"mid_epoch"` // a statistics epoch INSIDE the handler's check window (between x->Check and Check->y) of these Reads (0 = the connection's first successful Read)
}

type c03hCase struct {
	Class  string         `json:"class"`
	Conns  []c03hConnSpec `json:"conns"`
	Epochs []int          `json:"epochs"` // ms after the start of the history
	Hammer bool           `json:"hammer"` // PrintAndReset every 2 ms, unsynchronised, while connections are open
	// configuration reloads (SIGHUP -> RegistrationManager.OnReload) between the connections of the history; a history
	// with reloads runs on a station (RegistrationManager) of its own
	Reloads []c03hReload `json:"reloads"`
}

// one reload: what the two configured GeoIP database paths are - "" (not configured), "missing" (a path to no
// file), "corrupt" (a file of garbage bytes); Nil: the configuration has no GeoIP section at all
type c03hReload struct {
	AtMs int    `json:"at_ms"`
	Nil  bool   `json:"nil"`
	ASN  string `json:"asn_db"`
	CC   string `json:"cc_db"`
}

type c03hEvent struct {
	Ev    string   `json:"ev"` // open | read | err | epoch
	Conn  int      `json:"conn"`
	N     int      `json:"n"`
	Kind  string   `json:"kind,omitempty"` // err: timeout | eof | rst | closed | other
	Calls []vfCall `json:"calls,omitempty"`
	// open
	ASN     uint   `json:"asn"`
	CC      string `json:"cc"`
	CCErr   bool   `json:"cc_err"`  // the stand-in's CC lookup fails for this peer
	ASNErr  bool   `json:"asn_err"` // ... its ASN lookup
	V4      bool   `json:"v4"`
	Tracked int    `json:"tracked"`
	NTS     int    `json:"nts"`
	// epoch
	Snap      *c03hSnap `json:"snap,omitempty"`
	Quiesced  bool      `json:"quiesced"`
	Mid       bool      `json:"mid"` // epoch forced between the two updates of connection Conn's current loop iteration
	AtMs      float64   `json:"at_ms"`
	EpochPanic string   `json:"epoch_panic,omitempty"`
	// reload
	Reload      *c03hReload `json:"reload,omitempty"`
	GeoKind     int         `json:"geo_kind"` // what regManager.GetGeoIP() holds after the reload: 0 nil interface, 1 EmptyDatabase, 2 a database (the stand-in / MaxMind)
	ReloadPanic string      `json:"reload_panic,omitempty"`
}

func c03GeoKind(g geoip.Database) int {
	if g == nil {
		return 0
	}
	if _, ok := g.(*geoip.EmptyDatabase); ok {
		return 1
	}
	return 2
}

// the real OnReload with a generated configuration, at a quiescent point of the history
func (h *c03Hist) reload(s *vfStation, r c03hReload, dir string) {
	path := func(kind, name string) string {
		switch kind {
		case "missing":
			return filepath.Join(dir, "no-such-"+name+".mmdb")
		case "corrupt":
			p := filepath.Join(dir, name+"-corrupt.mmdb")
			junk := make([]byte, 4096)
			for i := range junk {
				junk[i] = byte(i*131 + 7)
			}
			_ = os.WriteFile(p, junk, 0o644)
			return p
		}
		return ""
	}
	conf := &cjlib.RegConfig{}
	if !r.Nil {
		conf.DBConfig = &geoip.DBConfig{ASNDBPath: path(r.ASN, "asn"), CCDBPath: path(r.CC, "cc")}
	}
	limit := time.Now().Add(1500 * time.Millisecond)
	for {
		h.mu.Lock()
		q := h.quiescent()
		h.mu.Unlock()
		if q || time.Now().After(limit) {
			break
		}
		time.Sleep(300 * time.Microsecond)
	}
	ev := c03hEvent{Ev: "reload", Conn: -1, Reload: &r, AtMs: h.ms(time.Now())}
	func() {
		defer func() {
			if x := recover(); x != nil {
				ev.ReloadPanic = fmt.Sprint(x)
			}
		}()
		s.rm.OnReload(conf)
	}()
	ev.GeoKind = c03GeoKind(s.rm.GetGeoIP())
	h.mu.Lock()
	h.events = append(h.events, ev)
	h.mu.Unlock()
}

type c03hEntry struct {
	ASN uint    `json:"asn"`
	CC  string  `json:"cc"`
	C   []int64 `json:"c"`
}

type c03hSnap struct {
	V4   []int64     `json:"v4"`
	V6   []int64     `json:"v6"`
	Map4 []c03hEntry `json:"map4"`
	Map6 []c03hEntry `json:"map6"`
}

type c03hConnRes struct {
	Err        string       `json:"err"`
	StartMs    float64      `json:"start_ms"` // instant the connection was accepted, relative to the history
	Remote     string       `json:"remote"`   // what RemoteAddr() reported
	RemoteIP   string       `json:"remote_ip"`
	RemoteLen  int          `json:"remote_len"` // length of the net.IP inside the address object (0: not a TCP/UDP address)
	RealV6     bool         `json:"real_v6"`    // the TCP connection itself ran over ::1
	PhantomV4  bool         `json:"phantom_v4"`
	Tracked    int          `json:"tracked"`
	StreamLen  int          `json:"stream_len"`
	Script     [][2]int     `json:"script"`
	SetDL      [][2]float64 `json:"set_deadline"` // [call instant, deadline relative to the call] in ms after the accept
	Writes     int          `json:"writes"`       // bytes the handler wrote into the connection
	Closes     []float64    `json:"closes"`       // Close calls made by the handler itself
	Returned   float64      `json:"returned"`     // instant the handler returned (its caller closes then); -1 = never
	Panic      string       `json:"panic"`
	PanicAt    float64      `json:"panic_at"`
	PanicFn    string       `json:"panic_fn"`
	PeerGot    int          `json:"peer_got"`     // bytes the peer received from the station
	PeerClosed float64      `json:"peer_closed"`  // instant the peer saw the station's FIN / RST; -1 = still open when the watch ended
	PeerKind   string       `json:"peer_kind"`    // eof | rst | open | other:...
	Found      bool         `json:"found"`
	Reads      int          `json:"reads"`
	ReadBytes  int          `json:"read_bytes"`
	LastErr    string       `json:"last_err"`
	LastErrAt  float64      `json:"last_err_at"`
}

type c03hRes struct {
	Class  string         `json:"class"`
	Conns  []*c03hConnRes `json:"conns"`
	Events []c03hEvent    `json:"events"`
	Final  *c03hSnap      `json:"final"`
	Hung   int            `json:"hung"` // handlers that had not returned when the history was closed
	Resets int            `json:"resets"`
}

// ---------------------------------------------------------------- history state

type c03Hist struct {
	mu     sync.Mutex
	cm     *connManager
	start  time.Time
	conns  []*c03hConn
	events []c03hEvent
	res    *c03hRes
	logger *log.Logger
}

func (h *c03Hist) ms(t time.Time) float64 { return float64(t.Sub(h.start).Microseconds()) / 1000 }

type c03hConn struct {
	net.Conn
	h       *c03Hist
	id      int
	remote  net.Addr
	t0      time.Time
	res     *c03hConnRes
	started bool
	done    bool
	inRead  bool
	lastEv  int // index of this connection's last read event (-1: none)
	parked  bool // inside the check-window hook, waiting for its epoch
	nreads  int  // successful Reads so far
	mid     map[int]bool
	midDone int  // last Read number whose check-window epoch has been run
}

type c03StrAddr struct{ s string }

func (a c03StrAddr) Network() string { return "verif" }
func (a c03StrAddr) String() string  { return a.s }

func (c *c03hConn) cms(t time.Time) float64 { return float64(t.Sub(c.t0).Microseconds()) / 1000 }

func c03ErrKind(err error) string {
	var ne net.Error
	switch {
	case errors.Is(err, io.EOF):
		return "eof"
	case errors.Is(err, syscall.ECONNRESET):
		return "rst"
	case errors.Is(err, os.ErrDeadlineExceeded) || (errors.As(err, &ne) && ne.Timeout()):
		return "timeout"
	case errors.Is(err, net.ErrClosed):
		return "closed"
	}
	return "other"
}

func (c *c03hConn) Read(p []byte) (int, error) {
	c.h.mu.Lock()
	c.inRead = true
	c.h.mu.Unlock()
	n, err := c.Conn.Read(p)
	now := time.Now()
	c.h.mu.Lock()
	c.inRead = false
	if err != nil && n == 0 {
		k := c03ErrKind(err)
		c.h.events = append(c.h.events, c03hEvent{Ev: "err", Conn: c.id, Kind: k})
		c.res.LastErr, c.res.LastErrAt = k, c.cms(now)
		c.lastEv = -1
	} else {
		c.h.events = append(c.h.events, c03hEvent{Ev: "read", Conn: c.id, N: n})
		c.lastEv = len(c.h.events) - 1
		c.nreads++
		c.res.Reads++
		c.res.ReadBytes += n
	}
	c.h.mu.Unlock()
	return n, err
}

func (c *c03hConn) Write(p []byte) (int, error) {
	c.h.mu.Lock()
	c.res.Writes += len(p)
	c.h.mu.Unlock()
	return c.Conn.Write(p)
}

func (c *c03hConn) Close() error {
	c.h.mu.Lock()
	c.res.Closes = append(c.res.Closes, c.cms(time.Now()))
	c.h.mu.Unlock()
	return c.Conn.Close()
}

func (c *c03hConn) setDL(t time.Time) {
	now := time.Now()
	rel := -1.0
	if !t.IsZero() {
		rel = float64(t.Sub(now).Microseconds()) / 1000
	}
	c.h.mu.Lock()
	c.res.SetDL = append(c.res.SetDL, [2]float64{c.cms(now), rel})
	c.h.mu.Unlock()
}

func (c *c03hConn) SetDeadline(t time.Time) error     { c.setDL(t); return c.Conn.SetDeadline(t) }
func (c *c03hConn) SetReadDeadline(t time.Time) error { c.setDL(t); return c.Conn.SetReadDeadline(t) }
func (c *c03hConn) RemoteAddr() net.Addr {
	if c.remote != nil {
		return c.remote
	}
	return c.Conn.RemoteAddr()
}
func (c *c03hConn) vfLogRelayStart()      {}
func (c *c03hConn) vfLogRelayRead([]byte) {}
func (c *c03hConn) vfLogCall(v vfCall) {
	// called by the transport recorder from the handler goroutine, i.e. between the handler's x->Check
	// update and its Check->y update: a forced schedule point for an epoch inside that window
	c.h.mu.Lock()
	do := c.lastEv >= 0 && c.mid[c.nreads-1] && c.midDone < c.nreads
	if do {
		c.midDone = c.nreads
		c.parked = true
	}
	c.h.mu.Unlock()
	if do {
		c.h.epoch(c)
	}
	c.h.mu.Lock()
	if c.lastEv >= 0 {
		c.h.events[c.lastEv].Calls = append(c.h.events[c.lastEv].Calls, v)
	}
	if v.Res == "found" {
		c.res.Found = true
	}
	c.h.mu.Unlock()
}

func c03Counts(sc *statCounts) []int64 {
	l := atomic.LoadInt64
	return []int64{
		l(&sc.numCreated), l(&sc.numReading), l(&sc.numChecking), l(&sc.numIODiscarding),
		l(&sc.numFound), l(&sc.numReset), l(&sc.numTimeout), l(&sc.numClosed), l(&sc.numErr),
		l(&sc.numCreatedToDiscard), l(&sc.numCreatedToCheck), l(&sc.numCreatedToReset), l(&sc.numCreatedToTimeout),
		l(&sc.numCreatedToError), l(&sc.numCreatedToClose),
		l(&sc.numReadToCheck), l(&sc.numReadToTimeout), l(&sc.numReadToReset), l(&sc.numReadToError),
		l(&sc.numCheckToCreated), l(&sc.numCheckToRead), l(&sc.numCheckToFound), l(&sc.numCheckToError), l(&sc.numCheckToDiscard),
		l(&sc.numDiscardToReset), l(&sc.numDiscardToTimeout), l(&sc.numDiscardToError), l(&sc.numDiscardToClose),
		l(&sc.totalTransitions), l(&sc.numNewConns), l(&sc.numResolved),
	}
}

func (h *c03Hist) snap() *c03hSnap {
	cs := h.cm.connStats
	cs.m.RLock()
	defer cs.m.RUnlock()
	s := &c03hSnap{V4: c03Counts(&cs.ipv4), V6: c03Counts(&cs.ipv6), Map4: []c03hEntry{}, Map6: []c03hEntry{}}
	for asn, e := range cs.v4geoIPMap {
		if e == nil {
			s.Map4 = append(s.Map4, c03hEntry{ASN: asn, CC: "<nil>"})
			continue
		}
		s.Map4 = append(s.Map4, c03hEntry{asn, e.cc, c03Counts(&e.statCounts)})
	}
	for asn, e := range cs.v6geoIPMap {
		if e == nil {
			s.Map6 = append(s.Map6, c03hEntry{ASN: asn, CC: "<nil>"})
			continue
		}
		s.Map6 = append(s.Map6, c03hEntry{asn, e.cc, c03Counts(&e.statCounts)})
	}
	sort.Slice(s.Map4, func(i, j int) bool { return s.Map4[i].ASN < s.Map4[j].ASN })
	sort.Slice(s.Map6, func(i, j int) bool { return s.Map6[i].ASN < s.Map6[j].ASN })
	return s
}

func (h *c03Hist) quiescent() bool {
	for _, c := range h.conns {
		if c != nil && c.started && !c.done && !c.inRead && !c.parked {
			return false
		}
	}
	return true
}

// one statistics epoch at a quiescent point: snapshot, then the real PrintAndReset
func (h *c03Hist) epoch(mid *c03hConn) {
	limit := time.Now().Add(1500 * time.Millisecond)
	q := false
	for {
		h.mu.Lock()
		if h.quiescent() {
			q = true
			break
		}
		if time.Now().After(limit) {
			break
		}
		h.mu.Unlock()
		time.Sleep(300 * time.Microsecond)
	}
	ev := c03hEvent{Ev: "epoch", Conn: -1, Snap: h.snap(), Quiesced: q, AtMs: h.ms(time.Now())}
	if mid != nil {
		ev.Conn, ev.Mid = mid.id, true
		mid.parked = false
	}
	func() {
		defer func() {
			if r := recover(); r != nil {
				ev.EpochPanic = fmt.Sprint(r)
			}
		}()
		h.cm.PrintAndReset(h.logger)
	}()
	h.events = append(h.events, ev)
	h.res.Resets++
	h.mu.Unlock()
}

var c03hIPCtr uint32

func c03hPhantom(s *vfStation, fam string) net.IP {
	n := atomic.AddUint32(&s.ipCtr, 1)
	if fam == "v6" {
		return net.IP{0x20, 0x01, 0x0d, 0xb8, 0, 1, 0, 0, 0, 0, 0, 0, 0, byte(n >> 16), byte(n >> 8), byte(n)}
	}
	return net.IPv4(10, 200+byte(n>>16)%50, byte(n>>8), byte(n)).To4()
}

func c03PanicFn(stack string) string {
	// the innermost frame of the application package on the panicking goroutine's stack that is not
	// part of this driver: the function that failed
	for _, line := range strings.Split(stack, "\n") {
		if strings.HasPrefix(line, "\t") || !(strings.HasPrefix(line, "main.") || strings.Contains(line, "/cmd/application.")) {
			continue
		}
		f := line
		if j := strings.LastIndex(f, "("); j > 0 {
			f = f[:j]
		}
		if k := strings.LastIndex(f, "/"); k >= 0 {
			f = f[k+1:]
		}
		if strings.Contains(f, "c03") {
			continue
		}
		return f
	}
	return ""
}

func (h *c03Hist) runConn(s *vfStation, id int, spec c03hConnSpec, v6ok bool, wg *sync.WaitGroup) {
	defer wg.Done()
	out := h.res.Conns[id]
	out.Returned, out.PeerClosed, out.PanicAt = -1, -1, -1
	out.PeerKind = "open"
	defer func() {
		if r := recover(); r != nil {
			out.Err = "driver: " + fmt.Sprint(r)
		}
	}()
	phantom := c03hPhantom(s, spec.Phantom)
	out.PhantomV4 = phantom.To4() != nil
	if err := s.addOthers(spec.Regs, phantom); err != nil {
		out.Err = err.Error()
		return
	}
	tmp := &c03Res{}
	cs := &c03Case{Parts: spec.Parts}
	stream, err := c03Resolve(s, cs, phantom, tmp)
	if err != nil {
		out.Err = err.Error()
		return
	}
	out.StreamLen = len(stream)
	type chunk struct {
		at   time.Duration
		data []byte
	}
	var script []chunk
	off := 0
	for _, ch := range spec.Chunks {
		n := ch[1]
		if n < 0 || off+n > len(stream) {
			n = len(stream) - off
		}
		script = append(script, chunk{time.Duration(ch[0]) * time.Millisecond, stream[off : off+n]})
		out.Script = append(out.Script, [2]int{ch[0], n})
		off += n
	}
	if off < len(stream) {
		at := 0
		if len(spec.Chunks) > 0 {
			at = spec.Chunks[len(spec.Chunks)-1][0]
		}
		script = append(script, chunk{time.Duration(at) * time.Millisecond, stream[off:]})
		out.Script = append(out.Script, [2]int{at, len(stream) - off})
	}
	time.Sleep(time.Until(h.start.Add(time.Duration(spec.AtMs) * time.Millisecond)))

	// a real TCP connection over the loopback interface
	src := net.ParseIP(spec.Src)
	if src == nil {
		src = net.IPv4(127, 0, 0, 1)
	}
	v6 := src.To4() == nil
	if v6 && !v6ok {
		// no ::1 here: run over 127.0.0.1 and report the IPv6 address through RemoteAddr()
		if spec.Peer == "" {
			spec.Peer = spec.Src
		}
		src, v6 = net.IPv4(127, 0, 0, 1), false
	}
	network, laddr := "tcp4", "127.0.0.1:0"
	if v6 {
		network, laddr = "tcp6", "[::1]:0"
	}
	ln, err := net.Listen(network, laddr)
	if err != nil {
		out.Err = "listen: " + err.Error()
		return
	}
	type acc struct {
		c   net.Conn
		err error
	}
	ach := make(chan acc, 1)
	go func() { c, err := ln.Accept(); ach <- acc{c, err} }()
	d := net.Dialer{LocalAddr: &net.TCPAddr{IP: src}, Timeout: 5 * time.Second}
	peer, err := d.Dial(network, ln.Addr().String())
	if err != nil {
		ln.Close()
		out.Err = "dial: " + err.Error()
		return
	}
	a := <-ach
	ln.Close()
	if a.err != nil {
		peer.Close()
		out.Err = "accept: " + a.err.Error()
		return
	}
	defer peer.Close()
	out.RealV6 = v6
	conn := &c03hConn{Conn: a.c, h: h, id: id, res: out, lastEv: -1, mid: map[int]bool{}}
	for _, k := range spec.MidEpoch {
		conn.mid[k] = true
	}
	if spec.Peer != "" {
		conn.remote = c03Remote(spec.Peer, spec.PeerForm, 40000+id)
	}
	ra := conn.RemoteAddr()
	out.Remote = ra.String()
	var rip net.IP
	switch x := ra.(type) {
	case *net.TCPAddr:
		rip, out.RemoteLen = x.IP, len(x.IP)
	case *net.UDPAddr:
		rip, out.RemoteLen = x.IP, len(x.IP)
	default:
		host, _, _ := net.SplitHostPort(ra.String())
		rip = net.ParseIP(host)
	}
	out.RemoteIP = rip.String()
	if rip != nil {
		if spec.Peer == "" && v6 {
			// the unmodified ::1 peer: one address for all such connections of all histories, so one fixed entry
			spec.GeoErr = ""
		}
		c03GeoDB.set(rip, c03GeoEntry{CC: spec.CC, ASN: spec.ASN, CCErr: spec.GeoErr == "cc", ASNErr: spec.GeoErr == "asn"})
	}
	out.Tracked = s.rm.CountRegistrations(phantom)
	t0 := time.Now()
	conn.t0 = t0
	out.StartMs = h.ms(t0)

	h.mu.Lock()
	h.conns[id] = conn
	// what the GeoIP stand-in answers for this peer (the model derives the handler's asn / cc from it)
	oev := c03hEvent{Ev: "open", Conn: id, ASN: spec.ASN, CC: spec.CC, CCErr: spec.GeoErr == "cc", ASNErr: spec.GeoErr == "asn",
		V4: out.PhantomV4, Tracked: out.Tracked, NTS: len(s.rm.GetWrappingTransports())}
	if g := s.rm.GetGeoIP(); g != nil && rip != nil {
		if _, standin := g.(*c03Geo); !standin {
			// a reload has replaced the stand-in: the model is told what the installed database answers
			cc, e1 := g.CC(rip)
			asn, e2 := g.ASN(rip)
			oev.CC, oev.CCErr, oev.ASN, oev.ASNErr = cc, e1 != nil, asn, e2 != nil
		}
	}
	h.events = append(h.events, oev)
	conn.started = true
	h.mu.Unlock()

	done := make(chan struct{})
	go func() { // what handleNewConn does once it knows the original destination
		defer close(done)
		defer func() {
			r := recover()
			now := time.Now()
			h.mu.Lock()
			if r != nil {
				out.Panic = fmt.Sprint(r)
				out.PanicAt = conn.cms(now)
				out.PanicFn = c03PanicFn(string(debug.Stack()))
			} else {
				out.Returned = conn.cms(now)
			}
			conn.done = true
			h.mu.Unlock()
			conn.Conn.Close() // the caller's deferred Close
		}()
		h.cm.handleNewTCPConn(s.rm, conn, phantom)
	}()

	// the peer: watches what the station sends / when it closes, sends its script, ends or not
	watch := t0.Add(13500 * time.Millisecond)
	pdone := make(chan struct{})
	go func() {
		defer close(pdone)
		buf := make([]byte, 4096)
		peer.SetReadDeadline(watch)
		for {
			n, err := peer.Read(buf)
			out.PeerGot += n
			if err != nil {
				k := c03ErrKind(err)
				switch k {
				case "eof", "rst":
					out.PeerClosed, out.PeerKind = conn.cms(time.Now()), k
				case "timeout":
					out.PeerKind = "open"
				default:
					out.PeerClosed, out.PeerKind = conn.cms(time.Now()), "other:"+k
				}
				return
			}
		}
	}()
	for _, ch := range script {
		time.Sleep(time.Until(t0.Add(ch.at)))
		if len(ch.data) > 0 {
			if _, err := peer.Write(ch.data); err != nil {
				break
			}
		}
	}
	if spec.FinMs > 0 {
		time.Sleep(time.Until(t0.Add(time.Duration(spec.FinMs) * time.Millisecond)))
		if tc, ok := peer.(*net.TCPConn); ok {
			if spec.FinRst {
				tc.SetLinger(0)
				tc.Close()
			} else {
				tc.CloseWrite()
			}
		}
	}
	select {
	case <-done:
	case <-time.After(time.Until(t0.Add(15 * time.Second))):
	}
	select {
	case <-pdone:
	case <-time.After(time.Until(watch.Add(500 * time.Millisecond))):
	}
}

func c03RunHist(s *vfStation, cs c03hCase, v6ok bool, res *c03hRes, wgAll *sync.WaitGroup) {
	defer wgAll.Done()
	h := &c03Hist{cm: newConnManager(nil), res: res, conns: make([]*c03hConn, len(cs.Conns)),
		logger: log.New(io.Discard, "[STATS] ", golog.Ldate|golog.Lmicroseconds)}
	res.Class = cs.Class
	res.Conns = make([]*c03hConnRes, len(cs.Conns))
	for i := range res.Conns {
		res.Conns[i] = &c03hConnRes{}
	}
	var rdir string
	if len(cs.Reloads) > 0 {
		s2, err := vfNewStation()
		if err != nil {
			res.Conns[0].Err = "station: " + err.Error()
			return
		}
		s2.rm.GeoIP = c03GeoDB
		s = s2
		rdir, _ = os.MkdirTemp("", "c03reload")
		defer os.RemoveAll(rdir)
	}
	h.start = time.Now()
	var wg sync.WaitGroup
	if len(cs.Reloads) > 0 {
		wg.Add(1)
		go func() {
			defer wg.Done()
			for _, r := range cs.Reloads {
				time.Sleep(time.Until(h.start.Add(time.Duration(r.AtMs) * time.Millisecond)))
				h.reload(s, r, rdir)
			}
		}()
	}
	for i := range cs.Conns {
		wg.Add(1)
		go h.runConn(s, i, cs.Conns[i], v6ok, &wg)
	}
	stop := make(chan struct{})
	var ewg sync.WaitGroup
	if cs.Hammer {
		ewg.Add(1)
		go func() {
			defer ewg.Done()
			defer func() {
				if r := recover(); r != nil {
					h.mu.Lock()
					h.events = append(h.events, c03hEvent{Ev: "epoch", Conn: -1, EpochPanic: fmt.Sprint(r)})
					h.mu.Unlock()
				}
			}()
			for {
				select {
				case <-stop:
					return
				default:
				}
				h.cm.PrintAndReset(h.logger)
				h.mu.Lock()
				res.Resets++
				h.mu.Unlock()
				time.Sleep(2 * time.Millisecond)
			}
		}()
	} else {
		ewg.Add(1)
		go func() {
			defer ewg.Done()
			for _, e := range cs.Epochs {
				select {
				case <-stop:
					return
				case <-time.After(time.Until(h.start.Add(time.Duration(e) * time.Millisecond))):
				}
				h.epoch(nil)
			}
		}()
	}
	wg.Wait()
	close(stop)
	ewg.Wait()
	h.mu.Lock()
	for _, c := range h.conns {
		if c != nil && c.started && !c.done {
			res.Hung++
		}
	}
	res.Final = h.snap()
	res.Events = h.events
	h.mu.Unlock()
}

type c03hOut struct {
	V6OK    bool       `json:"v6ok"`
	TS      []string   `json:"ts"`
	Results []*c03hRes `json:"results"`
}

func TestVerifC03Hist(t *testing.T) {
	raw, err := os.ReadFile(os.Getenv("VERIF_CASES"))
	if err != nil {
		t.Skip("no cases")
	}
	var cases []c03hCase
	if err := json.Unmarshal(raw, &cases); err != nil {
		t.Fatal(err)
	}
	stdout := os.Stdout
	if dn, err := os.OpenFile(os.DevNull, os.O_WRONLY, 0); err == nil {
		os.Stdout = dn
		defer func() { os.Stdout = stdout }()
	}
	s, err := vfNewStation()
	if err != nil {
		t.Fatal(err)
	}
	s.rm.GeoIP = c03GeoDB
	v6ok := false
	if ln, err := net.Listen("tcp6", "[::1]:0"); err == nil {
		v6ok = os.Getenv("VERIF_C03_NO_V6") != "1" // (the variable forces the fallback for a sandbox without ::1)
		ln.Close()
	}
	out := c03hOut{V6OK: v6ok, TS: s.wrappingNames(), Results: make([]*c03hRes, len(cases))}
	var wg sync.WaitGroup
	for i := range cases {
		out.Results[i] = &c03hRes{}
		wg.Add(1)
		go c03RunHist(s, cases[i], v6ok, out.Results[i], &wg)
	}
	wg.Wait()
	js, _ := json.Marshal(out)
	if err := os.WriteFile(os.Getenv("VERIF_OUT"), js, 0o644); err != nil {
		t.Fatal(err)
	}
}
