//go:build verif

package main

// C03 driver: real handleNewTCPConn on scripted connections that record every Write, Close,
// SetDeadline and Read (with instants).  Each probe lasts as long as the handler's randomised
// 5-10 s deadline, so all probes of a run are started together.  Only records observables.

import (
	"crypto/rand"
	"encoding/hex"
	"encoding/json"
	"fmt"
	"io"
	"net"
	"os"
	"sync"
	"syscall"
	"testing"
	"time"

	cj "github.com/refraction-networking/conjure/pkg/station/lib"
	"github.com/refraction-networking/conjure/pkg/transports/wrapping/obfs4"
)

type c03Part struct {
	Hex   string  `json:"hex,omitempty"`
	Gen   []int64 `json:"gen,omitempty"`   // [seed, n]: LCG bytes
	Row   *int    `json:"row,omitempty"`   // static bytes of prefix id
	Fl    *c03Fl  `json:"flight,omitempty"` // (mutated) first flight of a client registered on the phantom
	bytes []byte
}

type c03Fl struct {
	Transport string `json:"transport"`
	PrefixID  int32  `json:"prefix_id"`
	Flip      int    `json:"flip"`       // bit to flip (-1: none)
	FlipEnd   int    `json:"flip_end"`   // > 0: flip the bit this many bits before the end of the flight
	Trunc     int    `json:"trunc"`      // keep only this many bytes (0: all; negative: drop from the end)
	AsPrefix  int32  `json:"as_prefix"`  // >= 0: replace the static bytes by those of this prefix id (tag stays genuine)
	Valid     bool   `json:"valid"`      // is the client's registration valid (true) or only tracked
	NoReg     bool   `json:"no_reg"`     // the client never registered on this phantom
	Key       int    `json:"key"`        // station key the client obfuscates to
	TagOf     string `json:"tag_of"`     // "min": the flight is prefix_id's static bytes + the obfuscated identifier of a *min* registration
}

type c03Case struct {
	Parts  []c03Part `json:"parts"`
	Chunks [][2]int  `json:"chunks"` // [arrival ms, length]; length -1 = the rest
	Regs   []vfOther `json:"regs"`
	Kind   string    `json:"kind"`
	FinMs  int       `json:"fin_ms"`   // > 0: the peer closes its side at this instant (after its last chunk)
	FinRst bool      `json:"fin_rst"`  // ... with a reset instead of a FIN
	Peer     string  `json:"peer"`      // IP the connection reports as its remote address ("" = 198.51.100.7); "-" = not an IP address at all (a pipe)
	PeerForm string  `json:"peer_form"` // tcp (16-byte net.IP in a *net.TCPAddr, default) | tcp4 (4-byte) | udp | str (another net.Addr, host:port string)
	Phantom  string  `json:"phantom"`   // v4 | v6 | "" (the shared rotation: every fourth probe on an IPv6 phantom)
}

type c03Read struct {
	T   float64 `json:"t"`
	N   int     `json:"n"`
	Err string  `json:"err,omitempty"`
}

type c03Res struct {
	Err        string       `json:"err"`
	Parts      []c03Part    `json:"parts"` // resolved: hex or gen only
	StreamLen  int          `json:"stream_len"`
	Script     [][2]int     `json:"script"` // resolved [ms, len]
	SetDL      [][2]float64 `json:"set_deadline"` // [call instant ms, deadline relative to the call in ms (-1: cleared)]
	Writes     int          `json:"writes"`
	WriteCalls int          `json:"write_calls"`
	Closes     []float64    `json:"closes"`
	Reads      []c03Read    `json:"reads"`
	Returned   float64      `json:"returned"` // ms; -1 if the handler did not return in time
	MaxLag     float64      `json:"max_lag"`  // worst delay between arrival of a byte and the Read that took it
	Unread     int          `json:"unread"`   // bytes that had arrived when the handler returned but were never read
	Calls      []vfCall     `json:"calls"`
	Regs       []vfRegView  `json:"regs"`
	Tracked    int          `json:"tracked"`
	TS         []string     `json:"ts"`
	Reveals    []vfReveal   `json:"reveals"`
	Marks      []vfMark     `json:"marks"`
	Panic      string       `json:"panic"`
	V6         bool         `json:"v6"`
	Remote     string       `json:"remote"`     // RemoteAddr().String() as the handler saw it
	RemoteLen  int          `json:"remote_len"` // length of the net.IP in the address object (0: neither TCP nor UDP address)
	RemoteIP   string       `json:"remote_ip"`  // hex of the IP the address denotes ("" = none)
	RemoteZone string       `json:"remote_zone"` // the Zone field of the TCP / UDP address object
	Phantom    string       `json:"phantom"`    // hex of the original destination as handed to the handler
	Status     int          `json:"status"` // used/unused state of the registration a transport returned (-1: none returned)
}

type c03Chunk struct {
	at   time.Duration
	data []byte
}

type c03Conn struct {
	mu       sync.Mutex
	start    time.Time
	script   []c03Chunk
	idx      int
	pending  []byte
	pendAt   []time.Time // arrival instant of every pending byte's chunk (one entry per chunk still pending)
	pendLen  []int
	deadline time.Time
	changed  chan struct{}
	closed   bool
	fin      time.Duration // > 0: peer FIN / RST at this instant
	finRst   bool
	res      *c03Res
	hardStop time.Time
	remote   net.Addr
}

func (c *c03Conn) ms(t time.Time) float64 { return float64(t.Sub(c.start).Microseconds()) / 1000 }

func (c *c03Conn) arrive(now time.Time) {
	for c.idx < len(c.script) && !now.Before(c.start.Add(c.script[c.idx].at)) {
		ch := c.script[c.idx]
		if len(ch.data) > 0 {
			c.pending = append(c.pending, ch.data...)
			c.pendAt = append(c.pendAt, c.start.Add(ch.at))
			c.pendLen = append(c.pendLen, len(ch.data))
		}
		c.idx++
	}
}

func (c *c03Conn) Read(p []byte) (int, error) {
	for {
		c.mu.Lock()
		now := time.Now()
		c.arrive(now)
		if c.closed {
			c.res.Reads = append(c.res.Reads, c03Read{T: c.ms(now), Err: "closed"})
			c.mu.Unlock()
			return 0, net.ErrClosed
		}
		if len(c.pending) > 0 && len(p) > 0 {
			n := copy(p, c.pending)
			c.pending = c.pending[n:]
			if lag := c.ms(now) - c.ms(c.pendAt[0]); lag > c.res.MaxLag {
				c.res.MaxLag = lag
			}
			k := n
			for k > 0 {
				if c.pendLen[0] <= k {
					k -= c.pendLen[0]
					c.pendLen = c.pendLen[1:]
					c.pendAt = c.pendAt[1:]
				} else {
					c.pendLen[0] -= k
					k = 0
				}
			}
			c.res.Reads = append(c.res.Reads, c03Read{T: c.ms(now), N: n})
			c.mu.Unlock()
			return n, nil
		}
		if !c.deadline.IsZero() && !now.Before(c.deadline) {
			c.res.Reads = append(c.res.Reads, c03Read{T: c.ms(now), Err: "timeout"})
			c.mu.Unlock()
			return 0, os.ErrDeadlineExceeded
		}
		if c.fin > 0 && c.idx >= len(c.script) && !now.Before(c.start.Add(c.fin)) {
			if c.finRst {
				c.res.Reads = append(c.res.Reads, c03Read{T: c.ms(now), Err: "rst"})
				c.mu.Unlock()
				return 0, &net.OpError{Op: "read", Net: "tcp", Err: os.NewSyscallError("read", syscall.ECONNRESET)}
			}
			c.res.Reads = append(c.res.Reads, c03Read{T: c.ms(now), Err: "eof"})
			c.mu.Unlock()
			return 0, io.EOF
		}
		if !now.Before(c.hardStop) {
			c.res.Reads = append(c.res.Reads, c03Read{T: c.ms(now), Err: "hardstop"})
			c.mu.Unlock()
			return 0, net.ErrClosed
		}
		wake := c.hardStop
		if c.idx < len(c.script) {
			if t := c.start.Add(c.script[c.idx].at); t.Before(wake) {
				wake = t
			}
		}
		if !c.deadline.IsZero() && c.deadline.Before(wake) {
			wake = c.deadline
		}
		if c.fin > 0 && c.idx >= len(c.script) {
			if t := c.start.Add(c.fin); t.Before(wake) {
				wake = t
			}
		}
		ch := c.changed
		c.mu.Unlock()
		tm := time.NewTimer(time.Until(wake))
		select {
		case <-tm.C:
		case <-ch:
			tm.Stop()
		}
	}
}

func (c *c03Conn) Write(p []byte) (int, error) {
	c.mu.Lock()
	defer c.mu.Unlock()
	c.res.Writes += len(p)
	c.res.WriteCalls++
	return len(p), nil
}

func (c *c03Conn) Close() error {
	c.mu.Lock()
	defer c.mu.Unlock()
	c.res.Closes = append(c.res.Closes, c.ms(time.Now()))
	c.closed = true
	close(c.changed)
	c.changed = make(chan struct{})
	return nil
}

func (c *c03Conn) setDL(t time.Time) {
	c.mu.Lock()
	defer c.mu.Unlock()
	now := time.Now()
	rel := -1.0
	if !t.IsZero() {
		rel = float64(t.Sub(now).Microseconds()) / 1000
	}
	c.res.SetDL = append(c.res.SetDL, [2]float64{c.ms(now), rel})
	c.deadline = t
	close(c.changed)
	c.changed = make(chan struct{})
}

func (c *c03Conn) SetDeadline(t time.Time) error      { c.setDL(t); return nil }
func (c *c03Conn) SetReadDeadline(t time.Time) error  { c.setDL(t); return nil }
func (c *c03Conn) SetWriteDeadline(t time.Time) error { return nil }
func (c *c03Conn) LocalAddr() net.Addr                { return &net.TCPAddr{IP: net.IPv4(192, 0, 2, 1), Port: 443} }
func (c *c03Conn) RemoteAddr() net.Addr {
	if c.remote != nil {
		return c.remote
	}
	return vfClientAddr
}

// the address object the accepted socket reports for its peer
func c03Remote(peer, form string, port int) net.Addr {
	if peer == "" {
		return nil
	}
	if peer == "-" {
		return c03StrAddr{"pipe"}
	}
	// "fe80::1%eth0": a scoped (link-local) peer - the address object carries the zone next to the IP
	zone := ""
	for i := 0; i < len(peer); i++ {
		if peer[i] == '%' {
			peer, zone = peer[:i], peer[i+1:]
			break
		}
	}
	ip := net.ParseIP(peer)
	switch form {
	case "tcp4":
		return &net.TCPAddr{IP: ip.To4(), Port: port}
	case "udp":
		return &net.UDPAddr{IP: ip, Port: port, Zone: zone}
	case "str":
		return c03StrAddr{net.JoinHostPort(ip.String(), fmt.Sprint(port))}
	}
	return &net.TCPAddr{IP: ip, Port: port, Zone: zone}
}
func (c *c03Conn) vfLogRelayStart()         {}
func (c *c03Conn) vfLogRelayRead(b []byte) {}
func (c *c03Conn) vfLogCall(v vfCall) {
	c.mu.Lock()
	c.res.Calls = append(c.res.Calls, v)
	c.mu.Unlock()
}

func c03Resolve(s *vfStation, cs *c03Case, phantom net.IP, res *c03Res) ([]byte, error) {
	table := s.table()
	static := func(id int) []byte {
		for _, r := range table {
			if r.ID == id {
				b, _ := hex.DecodeString(r.Static)
				return b
			}
		}
		return nil
	}
	var stream []byte
	for i := range cs.Parts {
		p := &cs.Parts[i]
		switch {
		case p.Fl != nil:
			f := p.Fl
			secret := make([]byte, 32)
			rand.Read(secret)
			writes, params, err := vfFlight(s, f.Transport, f.PrefixID, 0, false, secret, f.Key)
			if err != nil {
				return nil, err
			}
			if !f.NoReg {
				if _, err := s.newReg(vfTT(f.Transport), params, secret, phantom, "127.0.0.1:9", f.Valid); err != nil {
					return nil, err
				}
			}
			var fl []byte
			for _, w := range writes {
				fl = append(fl, w...)
			}
			if f.TagOf == "min" {
				// a holder of a min registration's secret wraps its identifier as a prefix flight
				msec := make([]byte, 32)
				rand.Read(msec)
				mw, mparams, err := vfFlight(s, "min", 0, 0, false, msec, 0)
				if err != nil {
					return nil, err
				}
				if _, err := s.newReg(vfTT("min"), mparams, msec, phantom, "127.0.0.1:9", true); err != nil {
					return nil, err
				}
				tag, err := s.prefixT.TagObfuscator.Obfuscate(mw[0], s.pubs[f.Key%len(s.pubs)][:])
				if err != nil {
					return nil, err
				}
				fl = append(append([]byte{}, static(int(f.PrefixID))...), tag...)
			}
			if f.AsPrefix >= 0 && f.Transport == "prefix" {
				own := static(int(f.PrefixID))
				fl = append(append([]byte{}, static(int(f.AsPrefix))...), fl[len(own):]...)
			}
			if f.Flip >= 0 && f.Flip/8 < len(fl) {
				fl[f.Flip/8] ^= 1 << uint(f.Flip%8)
			}
			if f.FlipEnd > 0 && f.FlipEnd <= 8*len(fl) {
				b := 8*len(fl) - f.FlipEnd
				fl[b/8] ^= 1 << uint(b%8)
			}
			if f.Trunc > 0 && f.Trunc < len(fl) {
				fl = fl[:f.Trunc]
			} else if f.Trunc < 0 && -f.Trunc < len(fl) {
				fl = fl[:len(fl)+f.Trunc]
			}
			p.bytes = fl
		case p.Row != nil:
			p.bytes = static(*p.Row)
		case p.Gen != nil:
			p.bytes = vfLCG(p.Gen[0], int(p.Gen[1]))
		default:
			p.bytes, _ = hex.DecodeString(p.Hex)
		}
		if p.Gen != nil {
			res.Parts = append(res.Parts, c03Part{Gen: p.Gen})
		} else {
			res.Parts = append(res.Parts, c03Part{Hex: hex.EncodeToString(p.bytes)})
		}
		stream = append(stream, p.bytes...)
	}
	return stream, nil
}

func c03Run(s *vfStation, cs c03Case, wg *sync.WaitGroup, out *c03Res) {
	defer wg.Done()
	defer func() {
		if r := recover(); r != nil {
			out.Panic = fmt.Sprint(r)
		}
	}()
	phantom := s.freshPhantom()
	if cs.Phantom != "" {
		phantom = c03hPhantom(s, cs.Phantom)
	}
	out.V6 = phantom.To4() == nil
	out.Phantom = hex.EncodeToString(phantom)
	if err := s.addOthers(cs.Regs, phantom); err != nil {
		out.Err = err.Error()
		return
	}
	stream, err := c03Resolve(s, &cs, phantom, out)
	if err != nil {
		out.Err = err.Error()
		return
	}
	out.StreamLen = len(stream)
	conn := &c03Conn{changed: make(chan struct{}), res: out, fin: time.Duration(cs.FinMs) * time.Millisecond, finRst: cs.FinRst,
		remote: c03Remote(cs.Peer, cs.PeerForm, 40123)}
	ra := conn.RemoteAddr()
	out.Remote = ra.String()
	var rip net.IP
	switch x := ra.(type) {
	case *net.TCPAddr:
		rip, out.RemoteLen, out.RemoteZone = x.IP, len(x.IP), x.Zone
	case *net.UDPAddr:
		rip, out.RemoteLen, out.RemoteZone = x.IP, len(x.IP), x.Zone
	default:
		if host, _, err := net.SplitHostPort(ra.String()); err == nil {
			rip = net.ParseIP(host)
		}
	}
	out.RemoteIP = hex.EncodeToString(rip)
	off := 0
	for _, ch := range cs.Chunks {
		n := ch[1]
		if n < 0 || off+n > len(stream) {
			n = len(stream) - off
		}
		conn.script = append(conn.script, c03Chunk{time.Duration(ch[0]) * time.Millisecond, stream[off : off+n]})
		out.Script = append(out.Script, [2]int{ch[0], n})
		off += n
	}
	if off < len(stream) { // whatever the chunk list did not cover arrives with the last chunk
		at := 0
		if len(cs.Chunks) > 0 {
			at = cs.Chunks[len(cs.Chunks)-1][0]
		}
		conn.script = append(conn.script, c03Chunk{time.Duration(at) * time.Millisecond, stream[off:]})
		out.Script = append(out.Script, [2]int{at, len(stream) - off})
	}
	out.Regs = s.regView(phantom)
	out.Tracked = s.rm.CountRegistrations(phantom)
	out.TS = s.wrappingNames()
	out.Reveals = s.reveals(stream, phantom)
	out.Marks = s.marks(phantom, stream)
	out.Returned = -1
	conn.start = time.Now()
	conn.hardStop = conn.start.Add(13 * time.Second)
	done := make(chan struct{})
	go func() {
		defer close(done)
		defer func() {
			if r := recover(); r != nil {
				conn.mu.Lock()
				out.Panic = fmt.Sprint(r)
				conn.mu.Unlock()
			}
		}()
		s.cm.handleNewTCPConn(s.rm, conn, phantom)
	}()
	select {
	case <-done:
		now := time.Now()
		conn.mu.Lock()
		out.Returned = conn.ms(now)
		conn.arrive(now)
		out.Unread = len(conn.pending)
		conn.mu.Unlock()
	case <-time.After(15 * time.Second):
		conn.mu.Lock()
		out.Unread = len(conn.pending)
		conn.mu.Unlock()
	}
	out.Status = -1
	conn.mu.Lock()
	calls := append([]vfCall{}, out.Calls...)
	conn.mu.Unlock()
	for _, cl := range calls {
		if cl.Res == "found" && cl.RegID != "" {
			id, _ := hex.DecodeString(cl.RegID)
			if reg, ok := s.rm.GetRegistrations(phantom)[string(id)]; ok {
				if d, ok := reg.(*cj.DecoyRegistration); ok {
					out.Status = s.rm.VerifRegStatus(d)
				}
			}
		}
	}
}

type c03Out struct {
	Table   []vfPrefixRow  `json:"table"`
	Obfs4   map[string]int `json:"obfs4"`
	Results []*c03Res     `json:"results"`
}

func TestVerifC03(t *testing.T) {
	raw, err := os.ReadFile(os.Getenv("VERIF_CASES"))
	if err != nil {
		t.Skip("no cases")
	}
	var cases []c03Case
	if err := json.Unmarshal(raw, &cases); err != nil {
		t.Fatal(err)
	}
	stdout := os.Stdout
	if dn, err := os.OpenFile(os.DevNull, os.O_WRONLY, 0); err == nil {
		os.Stdout = dn
		defer func() { os.Stdout = stdout }()
	}
	s, err := vfNewStation()
	if err != nil {
		t.Fatal(err)
	}
	s.rm.GeoIP = c03GeoDB
	out := c03Out{Table: s.table(), Results: make([]*c03Res, len(cases)), Obfs4: map[string]int{}}
	out.Obfs4["min_handshake"], out.Obfs4["mark_start"], out.Obfs4["max_handshake"], out.Obfs4["mark_len"], out.Obfs4["mac_len"] = obfs4.VerifConsts()
	var wg sync.WaitGroup
	for i := range cases {
		out.Results[i] = &c03Res{}
		wg.Add(1)
		go c03Run(s, cases[i], &wg, out.Results[i])
	}
	wg.Wait()
	// results are only read after every handler goroutine that can still touch them has had its
	// chance: handlers that did not return are abandoned (reported as returned = -1)
	js, _ := json.Marshal(out)
	if err := os.WriteFile(os.Getenv("VERIF_OUT"), js, 0o644); err != nil {
		t.Fatal(err)
	}
}
