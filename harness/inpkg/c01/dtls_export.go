//go:build verif

package dtls

import pb "github.com/refraction-networking/conjure/proto"

// Export shim for the C01 correspondence driver (exists only in the go test
// -overlay of the verification harness): install session parameters without the
// STUN round trip Prepare performs.
func VerifSetSessionParams(t *ClientTransport, p *pb.DTLSTransportParams) { t.sessionParams = p }
