package lib

// Correspondence driver for C01: what the station derives from a registration
// and what the client-side entry points of this repository derive from the same
// shared secret.  Records observables only; no assertions about conjure.

import (
	"context"
	"encoding/hex"
	"encoding/json"
	"fmt"
	"io"
	"net"
	"os"
	"sync"
	"testing"
	"time"

	v0 "github.com/refraction-networking/conjure/internal/compatability/v0"
	v1 "github.com/refraction-networking/conjure/internal/compatability/v1"
	"github.com/refraction-networking/conjure/pkg/core"
	"github.com/refraction-networking/conjure/pkg/phantoms"
	"github.com/refraction-networking/conjure/pkg/transports"
	"github.com/refraction-networking/conjure/pkg/transports/connecting/dtls"
	"github.com/refraction-networking/conjure/pkg/transports/wrapping/min"
	"github.com/refraction-networking/conjure/pkg/transports/wrapping/obfs4"
	"github.com/refraction-networking/conjure/pkg/transports/wrapping/prefix"
	pb "github.com/refraction-networking/conjure/proto"
	"golang.org/x/crypto/curve25519"
	"google.golang.org/protobuf/proto"
	"google.golang.org/protobuf/types/known/anypb"
)

type c01Group struct {
	W       *uint32  `json:"w"`
	Nets    []string `json:"nets"`
	NetsNil bool     `json:"nets_nil"`
	RP      *bool    `json:"rp"`
}
type c01Cfg struct {
	Groups []c01Group `json:"groups"`
}
type c01Params struct {
	Kind   string `json:"kind"` // absent | default | explicit
	Rand   *bool  `json:"rand"`
	Prefix *int32 `json:"prefix"`
}
type c01Dual struct {
	V4Support bool `json:"v4sup"`
	V6Support bool `json:"v6sup"`
	Enable4   bool `json:"en4"`
	Enable6   bool `json:"en6"`
	Client6   bool `json:"client6"` // registrant address family
}
type c01ConcItem struct {
	Secret string `json:"secret"`
	LV     uint32 `json:"lv"`
	V6     bool   `json:"v6"`
}
type c01Conc struct {
	Workers int           `json:"workers"`
	Rounds  int           `json:"rounds"`
	Items   []c01ConcItem `json:"items"`
}
type c01Case struct {
	// Gens: the selector holds these generations (instead of generation 7 = Cfg); Gen is the one registered for
	Gens      map[string]*c01Cfg `json:"gens"`
	Gen       uint32             `json:"gen"`
	Conc      *c01Conc           `json:"conc"`
	Dual      *c01Dual           `json:"dual"`
	Secret    string             `json:"secret"`
	ClientGen bool               `json:"client_gen"`
	LV        uint32             `json:"lv"`
	Cfg       *c01Cfg            `json:"cfg"`
	V6        bool               `json:"v6"`
	Transport string             `json:"transport"`
	Params    c01Params          `json:"params"`
}
type c01Side struct {
	Out    string `json:"out"` // ok | err | panic
	Err    string `json:"err"`
	Seed   string `json:"seed"`
	Reader string `json:"reader"` // the 64 bytes of the transport reader that follow the seed
	IP     string `json:"ip"`
	IPErr  string `json:"iperr"`
	RP     bool   `json:"rp"`
	HasRP  bool   `json:"has_rp"`
	Port   int    `json:"port"`
	PErr   string `json:"perr"`
	Tag    string `json:"tag"`
	Priv   string `json:"priv"`
	Pub    string `json:"pub"`
	Node   string `json:"node"`
	Wire   string `json:"wire"` // absent | rand=<b>,prefix=<id>
	SetErr string `json:"seterr"`
}
type c01Res struct {
	Secret  string  `json:"secret"`
	Station c01Side `json:"station"`
	Client  c01Side `json:"client"`
	// dual-stack message through parseRegMessage: the registrations it yields, in order (V6 per entry),
	// and the single-family derivation of the IPv6 twin for the same secret
	DualRegs []c01Side `json:"dual_regs,omitempty"`
	DualV6   []bool    `json:"dual_v6,omitempty"`
	DualErr  string    `json:"dual_err,omitempty"`
	Twin     *c01Res   `json:"twin,omitempty"`
	// registrations built by concurrent workers on one manager vs the serial derivation
	ConcRuns  int    `json:"conc_runs,omitempty"`
	ConcDiffs int    `json:"conc_diffs,omitempty"`
	ConcDiff  string `json:"conc_diff,omitempty"`
}

type c01Conn struct{ w []byte }

func (c *c01Conn) Read(b []byte) (int, error)         { return 0, io.EOF }
func (c *c01Conn) Write(b []byte) (int, error)        { c.w = append(c.w, b...); return len(b), nil }
func (c *c01Conn) Close() error                       { return nil }
func (c *c01Conn) LocalAddr() net.Addr                { return &net.TCPAddr{} }
func (c *c01Conn) RemoteAddr() net.Addr               { return &net.TCPAddr{} }
func (c *c01Conn) SetDeadline(t time.Time) error      { return nil }
func (c *c01Conn) SetReadDeadline(t time.Time) error  { return nil }
func (c *c01Conn) SetWriteDeadline(t time.Time) error { return nil }

func c01List(c *c01Cfg) []*pb.PhantomSubnets {
	out := make([]*pb.PhantomSubnets, 0, len(c.Groups))
	for _, g := range c.Groups {
		ps := &pb.PhantomSubnets{Weight: g.W, RandomizeDstPort: g.RP}
		if !g.NetsNil {
			ps.Subnets = append([]string{}, g.Nets...)
		}
		out = append(out, ps)
	}
	return out
}

var c01TT = map[string]pb.TransportType{"min": pb.TransportType_Min, "obfs4": pb.TransportType_Obfs4,
	"prefix": pb.TransportType_Prefix, "dtls": pb.TransportType_DTLS}

type c01Client interface {
	GetDstPort(seed []byte) (uint16, error)
	PrepareKeys(pubkey [32]byte, sharedSecret []byte, dRand io.Reader) error
	GetParams() (proto.Message, error)
}

func c01Run(rm *RegistrationManager, stationPriv, stationPub [32]byte, cs c01Case) (res c01Res) {
	defer func() {
		if e := recover(); e != nil {
			res.Station.Out = "panic"
			res.Station.Err = fmt.Sprint(e)
		}
	}()
	tt := c01TT[cs.Transport]
	secret, _ := hex.DecodeString(cs.Secret)
	var clientKeys *core.SharedKeys
	if cs.ClientGen {
		ck, err := core.GenerateClientSharedKeys(stationPub)
		if err != nil {
			res.Client.Err = err.Error()
			return
		}
		clientKeys = ck
		secret = ck.SharedSecret
	}
	res.Secret = hex.EncodeToString(secret)

	// ---- station key schedule, observed on its own
	sk, err := core.GenSharedKeys(uint(cs.LV), secret, tt)
	if err != nil {
		res.Station.Out = "err"
		res.Station.Err = "keys: " + err.Error()
		return
	}
	res.Station.Seed = hex.EncodeToString(sk.ConjureSeed)
	rd := make([]byte, 64)
	if _, err := io.ReadFull(sk.TransportReader, rd); err == nil {
		res.Station.Reader = hex.EncodeToString(rd)
	}

	// ---- client transport and the parameters it registers with
	var ct c01Client
	var wire proto.Message
	cl := &res.Client
	b := func(p *bool) bool { return p != nil && *p }
	switch cs.Transport {
	case "min":
		t := &min.ClientTransport{}
		switch cs.Params.Kind {
		case "default":
			if err := t.SetParams(nil); err != nil {
				cl.SetErr = err.Error()
			}
		case "explicit":
			if err := t.SetParams(&pb.GenericTransportParams{RandomizeDstPort: cs.Params.Rand}); err != nil {
				cl.SetErr = err.Error()
			}
		}
		if cs.Params.Kind != "absent" {
			_ = t.Prepare(context.Background(), nil)
			wire, _ = t.GetParams()
		}
		ct = t
	case "obfs4":
		t := &obfs4.ClientTransport{}
		switch cs.Params.Kind {
		case "default":
			if err := t.SetParams(nil); err != nil {
				cl.SetErr = err.Error()
			}
		case "explicit":
			if err := t.SetParams(&pb.GenericTransportParams{RandomizeDstPort: cs.Params.Rand}); err != nil {
				cl.SetErr = err.Error()
			}
		}
		if cs.Params.Kind != "absent" {
			_ = t.Prepare(context.Background(), nil)
			wire, _ = t.GetParams()
		}
		ct = t
	case "prefix":
		t := &prefix.ClientTransport{}
		switch cs.Params.Kind {
		case "default":
			if err := t.SetParams(nil); err != nil {
				cl.SetErr = err.Error()
			}
		case "explicit":
			if err := t.SetParams(&pb.PrefixTransportParams{PrefixId: cs.Params.Prefix, RandomizeDstPort: cs.Params.Rand}); err != nil {
				cl.SetErr = err.Error()
			}
		}
		if cs.Params.Kind != "absent" && cl.SetErr == "" {
			_ = t.Prepare(context.Background(), nil)
			if m, err := t.GetParams(); err == nil {
				wire = m
			}
		} else if cs.Params.Kind == "explicit" {
			// the client refused the parameters; a non-conforming client could still send them
			wire = &pb.PrefixTransportParams{PrefixId: cs.Params.Prefix, RandomizeDstPort: cs.Params.Rand}
		}
		ct = t
	case "dtls":
		t := &dtls.ClientTransport{}
		switch cs.Params.Kind {
		case "default":
			_ = t.SetParams(nil)
			dtls.VerifSetSessionParams(t, &pb.DTLSTransportParams{})
		case "explicit":
			p := &pb.DTLSTransportParams{RandomizeDstPort: cs.Params.Rand,
				SrcAddr4: &pb.Addr{IP: []byte{192, 0, 2, 7}, Port: proto.Uint32(40000)}}
			dtls.VerifSetSessionParams(t, p)
		}
		if cs.Params.Kind != "absent" {
			wire, _ = t.GetParams()
		}
		ct = t
	}
	var wireAny *anypb.Any
	cl.Wire = "absent"
	if wire != nil && !isNilMsg(wire) {
		wireAny, err = anypb.New(wire)
		if err != nil {
			cl.SetErr += " anypb:" + err.Error()
			wireAny = nil
		} else {
			switch m := wire.(type) {
			case *pb.GenericTransportParams:
				cl.Wire = fmt.Sprintf("rand=%v,prefix=0", m.GetRandomizeDstPort())
			case *pb.PrefixTransportParams:
				cl.Wire = fmt.Sprintf("rand=%v,prefix=%d", m.GetRandomizeDstPort(), m.GetPrefixId())
			case *pb.DTLSTransportParams:
				cl.Wire = fmt.Sprintf("rand=%v,prefix=0", m.GetRandomizeDstPort())
			}
		}
	}
	_ = b

	// ---- station: the registration as the ingest pipeline builds it
	gen := uint32(7)
	sel := &phantoms.PhantomIPSelector{Networks: map[uint]*phantoms.SubnetConfig{}}
	one := uint32(1)
	sel.Networks[9] = &phantoms.SubnetConfig{WeightedSubnets: []*pb.PhantomSubnets{{Weight: &one, Subnets: []string{"10.0.0.0/8", "fd00::/8"}}}}
	if cs.Cfg != nil {
		sel.Networks[7] = &phantoms.SubnetConfig{WeightedSubnets: c01List(cs.Cfg)}
	}
	if cs.Gens != nil {
		delete(sel.Networks, 7)
		for g, c := range cs.Gens {
			var id uint
			fmt.Sscanf(g, "%d", &id)
			sel.Networks[id] = &phantoms.SubnetConfig{WeightedSubnets: c01List(c)}
		}
		gen = cs.Gen
	}
	rm.PhantomSelector = sel
	lv := cs.LV
	covert := "192.0.2.1:443"
	t4, t6 := !cs.V6, cs.V6
	c2s := &pb.ClientToStation{ClientLibVersion: &lv, Transport: &tt, CovertAddress: &covert,
		DecoyListGeneration: &gen, TransportParams: wireAny, V4Support: &t4, V6Support: &t6}
	src := pb.RegistrationSource_API
	c2sw := &pb.C2SWrapper{SharedSecret: secret, RegistrationPayload: c2s, RegistrationSource: &src,
		RegistrationAddress: []byte{198, 51, 100, 9}}
	if cs.V6 {
		c2sw.RegistrationAddress = net.ParseIP("2001:db8::9")
	}
	st := &res.Station
	reg, err := rm.NewRegistrationC2SWrapper(c2sw, cs.V6)
	if err != nil || reg == nil {
		st.Out = "err"
		st.Err = fmt.Sprint(err)
	} else {
		st.Out = "ok"
		st.IP = hex.EncodeToString(reg.PhantomIp)
		st.Port = int(reg.PhantomPort)
		id := (*reg.TransportPtr).GetIdentifier(reg)
		st.Tag = hex.EncodeToString([]byte(id))
		if ph, err := sel.Select(sk.ConjureSeed, uint(gen), uint(cs.LV), cs.V6); err == nil && ph != nil {
			st.RP = ph.SupportRandomPort()
			st.HasRP = true
		}
		if k, ok := reg.TransportKeys().(obfs4.Obfs4Keys); ok {
			st.Priv = hex.EncodeToString(k.PrivateKey[:])
			st.Pub = hex.EncodeToString(k.PublicKey[:])
			st.Node = hex.EncodeToString(k.NodeID[:])
		}
	}

	// ---- client: the entry points of this repository
	seed := sk.ConjureSeed
	var reader io.Reader
	if clientKeys != nil {
		cl.Seed = hex.EncodeToString(clientKeys.ConjureSeed)
		if cs.LV >= 4 {
			seed = clientKeys.ConjureSeed
			reader = clientKeys.Reader
		}
	}
	if cs.Cfg != nil {
		list := &pb.PhantomSubnetsList{WeightedSubnets: c01List(cs.Cfg)}
		func() {
			defer func() {
				if e := recover(); e != nil {
					cl.IPErr = "panic: " + fmt.Sprint(e)
				}
			}()
			switch {
			case cs.LV >= 2:
				f := phantoms.V4Only
				if cs.V6 {
					f = phantoms.V6Only
				}
				p, err := phantoms.SelectPhantom(seed, list, f, true)
				if err != nil {
					cl.IPErr = err.Error()
				} else {
					cl.IP = hex.EncodeToString(*p.IP())
					cl.RP = p.SupportRandomPort()
					cl.HasRP = true
				}
			case cs.LV == 1:
				f := v1.V4Only
				if cs.V6 {
					f = v1.V6Only
				}
				p, err := v1.SelectPhantom(seed, list, f, true)
				if err != nil {
					cl.IPErr = err.Error()
				} else {
					cl.IP = hex.EncodeToString(*p)
				}
			default:
				f := v0.V4Only
				if cs.V6 {
					f = v0.V6Only
				}
				p, err := v0.SelectPhantom(seed, list, f, true)
				if err != nil {
					cl.IPErr = err.Error()
				} else {
					cl.IP = hex.EncodeToString(*p)
				}
			}
		}()
	} else {
		cl.IPErr = "no such generation in the ClientConf"
	}
	func() {
		defer func() {
			if e := recover(); e != nil {
				cl.PErr = "panic: " + fmt.Sprint(e)
			}
		}()
		port, err := ct.GetDstPort(seed)
		if err != nil {
			cl.PErr = err.Error()
		} else {
			cl.Port = int(port)
		}
	}()
	func() {
		defer func() {
			if e := recover(); e != nil {
				cl.Err = "panic: " + fmt.Sprint(e)
			}
		}()
		if reader == nil && cs.Transport == "obfs4" {
			return // no client-side reader for this secret in the tree (structured secret or an old client)
		}
		if err := ct.PrepareKeys(stationPub, secret, reader); err != nil {
			cl.Err = err.Error()
			return
		}
		switch t := ct.(type) {
		case *min.ClientTransport:
			c := &c01Conn{}
			if _, err := t.WrapConn(c); err == nil {
				cl.Tag = hex.EncodeToString(c.w)
			}
		case *prefix.ClientTransport:
			c := &c01Conn{}
			if _, err := t.WrapConn(c); err == nil && len(c.w) >= 64 {
				tag, err := transports.CTRObfuscator{}.TryReveal(c.w[len(c.w)-64:], stationPriv)
				if err == nil {
					cl.Tag = hex.EncodeToString(tag)
				}
			}
		case *obfs4.ClientTransport:
			k := obfs4.VerifClientKeys(t)
			cl.Priv = hex.EncodeToString(k.PrivateKey[:])
			cl.Pub = hex.EncodeToString(k.PublicKey[:])
			cl.Node = hex.EncodeToString(k.NodeID[:])
		}
	}()
	if reader != nil {
		rd := make([]byte, 64)
		if cs.Transport == "obfs4" {
			rd = rd[:12] // 52 bytes went into the keys
		}
		if _, err := io.ReadFull(reader, rd); err == nil {
			cl.Reader = hex.EncodeToString(rd)
		}
	}
	return
}

// the wire parameters of a case, rebuilt from what the client transport registered with
func c01Wire(transport, wire string) *anypb.Any {
	if wire == "" || wire == "absent" {
		return nil
	}
	var rnd bool
	var pid int32
	fmt.Sscanf(wire, "rand=%t,prefix=%d", &rnd, &pid)
	var m proto.Message
	switch transport {
	case "prefix":
		m = &pb.PrefixTransportParams{PrefixId: &pid, RandomizeDstPort: &rnd}
	case "dtls":
		m = &pb.DTLSTransportParams{RandomizeDstPort: &rnd, SrcAddr4: &pb.Addr{IP: []byte{192, 0, 2, 7}, Port: proto.Uint32(40000)}}
	default:
		m = &pb.GenericTransportParams{RandomizeDstPort: &rnd}
	}
	a, err := anypb.New(m)
	if err != nil {
		return nil
	}
	return a
}

// one message with both address families through the real parseRegMessage; every registration it
// yields is read in the order the station would use them
func c01DualRun(rm *RegistrationManager, stationPriv, stationPub [32]byte, cs c01Case) (res c01Res) {
	c4 := cs
	c4.Dual = nil
	c4.V6 = false
	res = c01Run(rm, stationPriv, stationPub, c4)
	c6 := c4
	c6.V6 = true
	c6.ClientGen = false
	c6.Secret = res.Secret
	tw := c01Run(rm, stationPriv, stationPub, c6)
	res.Twin = &tw
	defer func() {
		if e := recover(); e != nil {
			res.DualErr = "panic: " + fmt.Sprint(e)
		}
	}()
	secret, _ := hex.DecodeString(res.Secret)
	tt := c01TT[cs.Transport]
	gen := uint32(7)
	lv := cs.LV
	covert := "192.0.2.1:443"
	c2s := &pb.ClientToStation{ClientLibVersion: &lv, Transport: &tt, CovertAddress: &covert,
		DecoyListGeneration: &gen, TransportParams: c01Wire(cs.Transport, res.Client.Wire),
		V4Support: &cs.Dual.V4Support, V6Support: &cs.Dual.V6Support}
	src := pb.RegistrationSource_API
	c2sw := &pb.C2SWrapper{SharedSecret: secret, RegistrationPayload: c2s, RegistrationSource: &src,
		RegistrationAddress: []byte{198, 51, 100, 9}}
	if cs.Dual.Client6 {
		c2sw.RegistrationAddress = net.ParseIP("2001:db8::9")
	}
	msg, err := proto.Marshal(c2sw)
	if err != nil {
		res.DualErr = err.Error()
		return
	}
	o4, o6 := rm.EnableIPv4, rm.EnableIPv6
	rm.EnableIPv4, rm.EnableIPv6 = cs.Dual.Enable4, cs.Dual.Enable6
	regs, err := rm.parseRegMessage(msg)
	rm.EnableIPv4, rm.EnableIPv6 = o4, o6
	if err != nil {
		res.DualErr = err.Error()
		return
	}
	for _, reg := range regs {
		var st c01Side
		st.Out = "ok"
		st.IP = hex.EncodeToString(reg.PhantomIp)
		st.Port = int(reg.PhantomPort)
		st.Tag = hex.EncodeToString([]byte((*reg.TransportPtr).GetIdentifier(reg)))
		if k, ok := reg.TransportKeys().(obfs4.Obfs4Keys); ok {
			st.Priv = hex.EncodeToString(k.PrivateKey[:])
			st.Pub = hex.EncodeToString(k.PublicKey[:])
			st.Node = hex.EncodeToString(k.NodeID[:])
		}
		res.DualRegs = append(res.DualRegs, st)
		res.DualV6 = append(res.DualV6, reg.PhantomIp.To4() == nil)
	}
	return
}

// the same registrations (min transport, no params) built serially and then by concurrent workers on ONE manager
func c01ConcRun(rm *RegistrationManager, cs c01Case) (res c01Res) {
	sel := &phantoms.PhantomIPSelector{Networks: map[uint]*phantoms.SubnetConfig{}}
	if cs.Cfg != nil {
		sel.Networks[7] = &phantoms.SubnetConfig{WeightedSubnets: c01List(cs.Cfg)}
	}
	rm.PhantomSelector = sel
	tt := pb.TransportType_Min
	gen := uint32(7)
	covert := "192.0.2.1:443"
	src := pb.RegistrationSource_API
	build := func(it c01ConcItem) string {
		defer func() { _ = recover() }()
		secret, _ := hex.DecodeString(it.Secret)
		lv := it.LV
		t4, t6 := !it.V6, it.V6
		c2s := &pb.ClientToStation{ClientLibVersion: &lv, Transport: &tt, CovertAddress: &covert,
			DecoyListGeneration: &gen, V4Support: &t4, V6Support: &t6}
		c2sw := &pb.C2SWrapper{SharedSecret: secret, RegistrationPayload: c2s, RegistrationSource: &src,
			RegistrationAddress: []byte{198, 51, 100, 9}}
		reg, err := rm.NewRegistrationC2SWrapper(c2sw, it.V6)
		if err != nil || reg == nil {
			return "err"
		}
		return fmt.Sprintf("%x:%d", []byte(reg.PhantomIp), reg.PhantomPort)
	}
	serial := make([]string, len(cs.Conc.Items))
	for i, it := range cs.Conc.Items {
		serial[i] = build(it)
	}
	var mu sync.Mutex
	var wg sync.WaitGroup
	start := make(chan struct{})
	for w := 0; w < cs.Conc.Workers; w++ {
		wg.Add(1)
		go func(w int) {
			defer wg.Done()
			<-start
			for k := 0; k < cs.Conc.Rounds; k++ {
				for j := range cs.Conc.Items {
					i := (j + w) % len(cs.Conc.Items)
					got := build(cs.Conc.Items[i])
					mu.Lock()
					res.ConcRuns++
					if got != serial[i] {
						res.ConcDiffs++
						if res.ConcDiff == "" {
							res.ConcDiff = fmt.Sprintf("secret %s libver %d v6 %v: serial %s, concurrent %s",
								cs.Conc.Items[i].Secret, cs.Conc.Items[i].LV, cs.Conc.Items[i].V6, serial[i], got)
						}
					}
					mu.Unlock()
				}
			}
		}(w)
	}
	close(start)
	wg.Wait()
	return
}

func isNilMsg(m proto.Message) bool {
	switch v := m.(type) {
	case *pb.GenericTransportParams:
		return v == nil
	case *pb.PrefixTransportParams:
		return v == nil
	case *pb.DTLSTransportParams:
		return v == nil
	}
	return m == nil
}

func TestVerifC01Derive(t *testing.T) {
	raw, err := os.ReadFile(os.Getenv("VERIF_CASES"))
	if err != nil {
		t.Skip("no cases")
	}
	var cases []c01Case
	if err := json.Unmarshal(raw, &cases); err != nil {
		t.Fatal(err)
	}
	os.Setenv("PHANTOM_SUBNET_LOCATION", "test/phantom_subnets.toml")
	var priv, pub [32]byte
	for i := range priv {
		priv[i] = byte(7*i + 3)
	}
	priv[0] &= 248
	priv[31] &= 127
	priv[31] |= 64
	curve25519.ScalarBaseMult(&pub, &priv)
	rm := NewRegistrationManager(&RegConfig{})
	if rm == nil {
		t.Fatal("no registration manager")
	}
	pt, err := prefix.Default([][32]byte{priv})
	if err != nil {
		t.Fatal(err)
	}
	for tt, tr := range map[pb.TransportType]Transport{pb.TransportType_Min: min.Transport{}, pb.TransportType_Obfs4: obfs4.Transport{},
		pb.TransportType_Prefix: pt, pb.TransportType_DTLS: &dtls.Transport{}} {
		if err := rm.AddTransport(tt, tr); err != nil {
			t.Fatal(err)
		}
	}
	res := make([]c01Res, len(cases))
	for i, c := range cases {
		if c.Conc != nil {
			res[i] = c01ConcRun(rm, c)
		} else if c.Dual != nil {
			res[i] = c01DualRun(rm, priv, pub, c)
		} else {
			res[i] = c01Run(rm, priv, pub, c)
		}
	}
	out, _ := json.Marshal(res)
	if err := os.WriteFile(os.Getenv("VERIF_OUT"), out, 0o644); err != nil {
		t.Fatal(err)
	}
}
