//go:build verif

package obfs4

// Export shim for the C01 correspondence driver (exists only in the go test
// -overlay of the verification harness): the key material a client transport
// derived in PrepareKeys.
func VerifClientKeys(t *ClientTransport) Obfs4Keys { return t.keys }
