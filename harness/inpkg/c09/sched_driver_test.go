//go:build verif

package lib

// C09 driver (in-package, injected with -overlay; nothing is written into the
// repository).  Three modes:
//
//	sched    the real ingestRegistration / RemoveOldRegistrations / GetRegistrations /
//	         MarkActive / OnReload are run as logical threads; every thread parks at the
//	         verifhook.Yield points (and inside the injected liveness tester) and a
//	         controller releases one thread at a time following the schedule of the case.
//	         After every step the projected state of the registration table is recorded.
//	distrib  the real HandleRegUpdates: shutdown with an idle / a busy input, overload
//	         with every worker parked in the liveness tester.
//	stress   free-running goroutines (used under -race).
//
// The driver records observables only; it contains no assertions about conjure.

import (
	"context"
	"encoding/json"
	"fmt"
	"io"
	golog "log"
	"net"
	"net/http"
	"net/http/httptest"
	"os"
	"os/exec"
	"reflect"
	"runtime"
	"sort"
	"strings"
	"sync"
	"sync/atomic"
	"testing"
	"time"

	"github.com/refraction-networking/conjure/internal/verifhook"
	"github.com/refraction-networking/conjure/pkg/core"
	"github.com/refraction-networking/conjure/pkg/phantoms"
	"github.com/refraction-networking/conjure/pkg/station/geoip"
	"github.com/refraction-networking/conjure/pkg/station/log"
	pb "github.com/refraction-networking/conjure/proto"
	"google.golang.org/protobuf/proto"
)

type c9Reg struct {
	Key        int    `json:"key"`
	Secret     int    `json:"secret"`
	Phantom    string `json:"phantom"`
	Port       int    `json:"port"`
	Covert     string `json:"covert"`
	Source     string `json:"source"` // detector | api | prescan
	Prescanned bool   `json:"prescanned"`
	Live       bool   `json:"live"`
	Transport  int    `json:"transport"`
}

type c9Policy struct {
	CovertBlock  []string `json:"covert_block"`
	CovertAllow  []string `json:"covert_allow"`
	PhantomBlock []string `json:"phantom_block"`
	Domains      []string `json:"covert_domains"`
}

type c9Thread struct {
	Kind string `json:"kind"` // worker | sweeper | handler | reload
	Reg  int    `json:"reg"`
	To   int    `json:"to"`
}

type c9Step struct {
	T     int   `json:"t"` // thread index, or -1 for the ageing operation
	AgeK  int   `json:"age_key"`
	AgeNs int64 `json:"age_ns"`
}

type c9Case struct {
	Mode     string     `json:"mode"`
	Regs     []c9Reg    `json:"regs"`
	Policies []c9Policy `json:"policies"`
	Threads  []c9Thread `json:"threads"`
	Schedule []c9Step   `json:"schedule"`
	Share    bool       `json:"share"`
	// distrib
	Scenario string `json:"scenario"` // idle | busy | overload ; locktrace: writer kind track | dup | activate
	Workers  int    `json:"workers"`
	Messages int    `json:"messages"`
	Trials   int    `json:"trials"`
	// startup
	Startup []c9Startup `json:"startup"`
	// stress
	Goroutines int  `json:"goroutines"`
	Rounds     int  `json:"rounds"`
	Ageing     bool `json:"ageing"`
	Reloads    bool `json:"reloads"`
	Stats      bool `json:"stats"`
}

type c9Entry struct {
	Key      int    `json:"key"`
	Obj      int    `json:"obj"` // index of the registration object in the table, -1 = not tracked
	Valid    bool   `json:"valid"`
	RegCount int    `json:"regcount"`
	Covert   string `json:"covert"`
	Timeout  bool   `json:"timeout"`
	Used     bool   `json:"used"`
}

type c9StepObs struct {
	T       int       `json:"t"`
	Point   string    `json:"point"` // where the thread parked after the step; end | disabled | hang | panic:...
	Snap    []c9Entry `json:"snap"`
	Found   []int     `json:"found"` // handler lookup: objects returned
	FoundCv []string  `json:"found_covert"`
	Removed int       `json:"removed"` // sweeper: key that left the table in this step, -1 none
}

type c9Event struct {
	Step   int    `json:"step"`
	Kind   string `json:"kind"` // announce | update
	Obj    int    `json:"obj"`
	Covert string `json:"covert"`
}

type c9Stats struct {
	Active  int64 `json:"active"`
	Dup     int64 `json:"dup"`
	Err     int64 `json:"err"`
	Blocked int64 `json:"blocked"`
	New     int64 `json:"new"`
}

type c9Result struct {
	Steps    []c9StepObs `json:"steps"`
	Events   []c9Event   `json:"events"`
	Shares   int         `json:"shares"`
	Launched int         `json:"share_launch"`
	Stats    c9Stats     `json:"stats"`
	Error    string      `json:"error"`
	Skipped  bool        `json:"skipped"`
	// distrib
	Returned     []bool  `json:"returned"`
	AfterCancel  []int64 `json:"after_cancel"`
	ReturnMs     []int64 `json:"return_ms"`
	Received     int64   `json:"received"`
	Dropped      int64   `json:"dropped"`
	Taken        int64   `json:"taken"`
	Buffered     int     `json:"buffered"`
	Cap          int     `json:"cap"`
	SendBlocked  bool    `json:"send_blocked"`
	TotalDropped int64   `json:"total_dropped"`
	// stress
	AnnPerKey   map[string]int `json:"ann_per_key"`
	ValidKeys   []int          `json:"valid_keys"`
	TrackedKeys []int          `json:"tracked_keys"`
	MapsInSync  bool           `json:"maps_in_sync"`
	Panics      []string       `json:"panics"`
	StressKind  string         `json:"stress_kind"`
	Adds        int64          `json:"adds"`
	// startup (child process)
	ChildOK    bool           `json:"child_ok"`
	ChildDone  bool           `json:"child_done"`
	ChildLast  int            `json:"child_last"`
	ChildPanic string         `json:"child_panic"`
	StartupRes []c9StartupRes `json:"startup_res"`
	// locktrace / watchdog
	Deadlock     bool   `json:"deadlock"`
	DepthAtScan  int    `json:"depth_at_scan"`
	WriterQueued bool   `json:"writer_queued"`
	WriterRan    bool   `json:"writer_ran"`
	Progress     string `json:"progress"`
	Stacks       string `json:"stacks"`
}

// ---------------------------------------------------------------- fixtures

type c9Tester struct {
	f func(addr string, port uint16) (bool, error)
}

func (t *c9Tester) PhantomIsLive(addr string, port uint16) (bool, error) { return t.f(addr, port) }
func (t *c9Tester) PrintAndReset(*log.Logger)                            {}
func (t *c9Tester) PrintStats(*log.Logger)                               {}
func (t *c9Tester) Reset()                                               {}

func c9Secret(i int) []byte {
	s := make([]byte, 32)
	for j := range s {
		s[j] = byte(i*37 + j*11 + 5)
	}
	s[0], s[1] = byte(i), byte(i>>8)
	return s
}

func c9Conf(p c9Policy, share bool, endpoint string) *RegConfig {
	c := &RegConfig{
		EnableIPv4: true, EnableIPv6: true,
		CovertBlocklistSubnets: p.CovertBlock,
		CovertAllowlistSubnets: p.CovertAllow,
		PhantomBlocklist:       p.PhantomBlock,
		CovertBlocklistDomains: p.Domains,
		EnableShareOverAPI:     share,
		PreshareEndpoint:       endpoint,
	}
	c.ParseBlocklists()
	return c
}

func c9Manager(conf *RegConfig, tester *c9Tester) *RegistrationManager {
	logger := log.New(io.Discard, "[C09] ", golog.Ldate)
	rm := &RegistrationManager{
		RegConfig:         conf,
		RegistrationStats: newRegistrationStats(),
		Logger:            logger,
		registeredDecoys:  NewRegisteredDecoys(),
		LivenessTester:    tester,
		GeoIP:             &geoip.EmptyDatabase{},
	}
	_ = rm.AddTransport(pb.TransportType(0), &mockTransport{})
	return rm
}

func c9MakeReg(r c9Reg) *DecoyRegistration {
	src := pb.RegistrationSource_API
	switch r.Source {
	case "detector":
		src = pb.RegistrationSource_Detector
	case "prescan":
		src = pb.RegistrationSource_DetectorPrescan
	}
	f := false
	v := uint32(4)
	gen := uint32(1)
	tt := pb.TransportType(r.Transport)
	c2s := &pb.ClientToStation{V4Support: &f, V6Support: &f, ClientLibVersion: &v, DecoyListGeneration: &gen,
		CovertAddress: proto.String(r.Covert), Transport: &tt}
	ps := r.Prescanned
	return &DecoyRegistration{
		originalC2S:        c2s,
		PhantomIp:          net.ParseIP(r.Phantom),
		PhantomPort:        uint16(r.Port),
		PhantomProto:       pb.IPProto_Tcp,
		registrationAddr:   net.ParseIP("198.51.100.7"),
		Keys:               &core.ConjureSharedKeys{SharedSecret: c9Secret(r.Secret)},
		Covert:             r.Covert,
		Flags:              &pb.RegistrationFlags{Prescanned: &ps},
		Transport:          tt,
		RegistrationTime:   time.Now(),
		RegistrationSource: &src,
		DecoyListVersion:   gen,
		clientLibVer:       v,
	}
}

// ---------------------------------------------------------------- controller

type c9Thr struct {
	goCh   chan struct{}
	parked chan string
	done   bool
}

type c9Ctl struct {
	thr []*c9Thr
	cur int32
	wg  sync.WaitGroup // goroutines of this scenario still alive
}

func (c *c9Ctl) park(point string) {
	t := c.thr[atomic.LoadInt32(&c.cur)]
	t.parked <- point
	<-t.goCh
}

func (c *c9Ctl) spawn(i int, body func()) {
	t := c.thr[i]
	c.wg.Add(1)
	go func() {
		defer c.wg.Done()
		<-t.goCh
		defer func() {
			if r := recover(); r != nil {
				t.parked <- fmt.Sprintf("panic:%v", r)
				return
			}
			t.parked <- "end"
		}()
		body()
	}()
}

// step releases thread i until it parks again.
func (c *c9Ctl) step(i int) string {
	t := c.thr[i]
	if t.done {
		return "disabled"
	}
	atomic.StoreInt32(&c.cur, int32(i))
	t.goCh <- struct{}{}
	select {
	case p := <-t.parked:
		if p == "end" || len(p) >= 5 && p[:5] == "panic" {
			t.done = true
		}
		return p
	case <-time.After(5 * time.Second):
		t.done = true
		return "hang"
	}
}

// ---------------------------------------------------------------- sched mode

type c9World struct {
	rm   *RegistrationManager
	regs []*DecoyRegistration
	spec []c9Reg
	idx  map[*DecoyRegistration]int
}

func (w *c9World) keyRep(k int) (int, bool) {
	for i, r := range w.spec {
		if r.Key == k && r.Transport == 0 {
			return i, true
		}
	}
	return 0, false
}

func (w *c9World) findTimeout(phantom, ident string) *DecoyTimeout {
	for _, t := range w.rm.registeredDecoys.decoysTimeouts {
		if t.decoy == phantom && t.identifier == ident {
			return t
		}
	}
	return nil
}

func (w *c9World) keys() []int {
	seen := map[int]bool{}
	var ks []int
	for _, r := range w.spec {
		if !seen[r.Key] {
			seen[r.Key] = true
			ks = append(ks, r.Key)
		}
	}
	sort.Ints(ks)
	return ks
}

func (w *c9World) snapshot() []c9Entry {
	rd := w.rm.registeredDecoys
	rd.m.RLock()
	defer rd.m.RUnlock()
	var out []c9Entry
	for _, k := range w.keys() {
		e := c9Entry{Key: k, Obj: -1}
		if ri, ok := w.keyRep(k); ok {
			d := w.regs[ri]
			ident := (&mockTransport{}).GetIdentifier(d)
			ph := d.PhantomIp.String()
			if o, ok := rd.decoys[ph][ident]; ok {
				if oi, ok := w.idx[o]; ok {
					e.Obj = oi
				} else {
					e.Obj = -2
				}
				e.Valid, e.RegCount, e.Covert = o.Valid, int(o.regCount), o.Covert
			}
			if t := w.findTimeout(ph, ident); t != nil {
				e.Timeout, e.Used = true, t.status == regStatusUsed
			}
		}
		out = append(out, e)
	}
	return out
}

func c9RunSched(c c9Case) (res c9Result) {
	var shares int32
	var launched int32
	srv := httptest.NewServer(http.HandlerFunc(func(wr http.ResponseWriter, r *http.Request) {
		_, _ = io.Copy(io.Discard, r.Body)
		atomic.AddInt32(&shares, 1)
	}))
	defer srv.Close()

	ctl := &c9Ctl{}
	liveOf := map[int]bool{}
	tester := &c9Tester{}
	confs := make([]*RegConfig, len(c.Policies))
	for i, p := range c.Policies {
		confs[i] = c9Conf(p, c.Share, srv.URL)
	}
	if len(confs) == 0 {
		confs = []*RegConfig{c9Conf(c9Policy{}, c.Share, srv.URL)}
	}
	rm := c9Manager(confs[0], tester)
	w := &c9World{rm: rm, spec: c.Regs, idx: map[*DecoyRegistration]int{}}
	for i, r := range c.Regs {
		d := c9MakeReg(r)
		w.regs = append(w.regs, d)
		w.idx[d] = i
	}
	stepNo := 0
	recording := true
	var evmu sync.Mutex
	var draining int32
	// A publication to the detector is itself a schedule point when it happens outside the
	// registration lock: other threads can then run between "valid" and "announced".  (With the
	// lock held nobody else can touch the table, so there is nothing to interleave and parking
	// would only block the others.)  Only one thread runs at a time here, so a write-locked mutex
	// means the publishing thread holds it.
	publishGate := func() {
		// park only when the mutex is entirely free: a publisher that still holds a read lock must
		// not be stopped either (writers would queue behind it and every later step would hang)
		if atomic.LoadInt32(&draining) == 0 && c9ReaderCount(&rm.registeredDecoys.m) == 0 {
			ctl.park("publish")
		}
	}
	rm.registeredDecoys.registerForDetector = func(d *DecoyRegistration) {
		publishGate()
		evmu.Lock()
		defer evmu.Unlock()
		if !recording {
			return
		}
		oi, ok := w.idx[d]
		if !ok {
			oi = -2
		}
		res.Events = append(res.Events, c9Event{Step: stepNo, Kind: "announce", Obj: oi, Covert: d.Covert})
	}
	rm.registeredDecoys.updateInDetector = func(d *DecoyRegistration) {
		publishGate()
		evmu.Lock()
		defer evmu.Unlock()
		if !recording {
			return
		}
		oi, ok := w.idx[d]
		if !ok {
			oi = -2
		}
		res.Events = append(res.Events, c9Event{Step: stepNo, Kind: "update", Obj: oi, Covert: d.Covert})
	}

	ctl.thr = make([]*c9Thr, len(c.Threads))
	for i := range c.Threads {
		ctl.thr[i] = &c9Thr{goCh: make(chan struct{}), parked: make(chan string, 1)}
	}
	workerOfThread := map[int]int{}
	for i, th := range c.Threads {
		if th.Kind == "worker" {
			workerOfThread[i] = th.Reg
			liveOf[i] = c.Regs[th.Reg].Live
		}
	}
	tester.f = func(addr string, port uint16) (bool, error) {
		ctl.park("probe")
		if liveOf[int(atomic.LoadInt32(&ctl.cur))] {
			return true, fmt.Errorf("live (scripted)")
		}
		return false, fmt.Errorf("not live (scripted)")
	}
	verifhook.Set(func(point string, subject any) {
		if point == "sweep:scan" {
			return // inside the sweeper's read lock: only the lock-trace probe stops there
		}
		cur := int(atomic.LoadInt32(&ctl.cur))
		if d, ok := subject.(*DecoyRegistration); ok && d != nil {
			if ri, ok := workerOfThread[cur]; !ok || w.regs[ri] != d {
				return // not a thread of this scenario
			}
		}
		ctl.park(point)
	})
	defer verifhook.Set(nil)

	lastPoint := make([]string, len(c.Threads))
	var lastFound [][]int
	var lastFoundCv [][]string
	lastFound = make([][]int, len(c.Threads))
	lastFoundCv = make([][]string, len(c.Threads))
	for i, th := range c.Threads {
		i, th := i, th
		switch th.Kind {
		case "worker":
			d := w.regs[th.Reg]
			ctl.spawn(i, func() { rm.ingestRegistration(d) })
		case "sweeper":
			n := th.To // number of sweeps run one after the other by this thread (0 = 1)
			ctl.spawn(i, func() {
				rm.RemoveOldRegistrations()
				for j := 1; j < n; j++ {
					ctl.park("sweep:idle")
					rm.RemoveOldRegistrations()
				}
			})
		case "handler":
			d := w.regs[th.Reg]
			ctl.spawn(i, func() {
				regs := rm.GetRegistrations(d.PhantomIp)
				var found []int
				var mine *DecoyRegistration
				myIdent := (&mockTransport{}).GetIdentifier(d)
				for id, r := range regs {
					o := r.(*DecoyRegistration)
					oi, ok := w.idx[o]
					if !ok {
						oi = -2
					}
					found = append(found, oi)
					if id == myIdent {
						mine = o
					}
				}
				sort.Ints(found)
				cv := make([]string, len(found))
				for j, oi := range found {
					if oi >= 0 {
						cv[j] = w.regs[oi].Covert
					}
				}
				lastFound[i], lastFoundCv[i] = found, cv
				if mine != nil {
					ctl.park("handler:found")
					rm.MarkActive(mine)
				}
			})
		case "reload":
			ctl.spawn(i, func() { rm.OnReload(confs[th.To]) })
		}
	}

	for _, st := range c.Schedule {
		obs := c9StepObs{T: st.T, Removed: -1}
		if st.T < 0 {
			if ri, ok := w.keyRep(st.AgeK); ok {
				d := w.regs[ri]
				rd := rm.registeredDecoys
				rd.m.Lock()
				if t := w.findTimeout(d.PhantomIp.String(), (&mockTransport{}).GetIdentifier(d)); t != nil {
					t.registrationTime = t.registrationTime.Add(-time.Duration(st.AgeNs))
				}
				rd.m.Unlock()
			}
			obs.Point = "age"
		} else if st.T >= len(c.Threads) {
			obs.Point = "disabled"
		} else {
			before := w.snapshot()
			lastFound[st.T], lastFoundCv[st.T] = nil, nil
			obs.Point = ctl.step(st.T)
			prev := lastPoint[st.T]
			lastPoint[st.T] = obs.Point
			if c.Threads[st.T].Kind == "handler" {
				obs.Found, obs.FoundCv = lastFound[st.T], lastFoundCv[st.T]
			}
			if c.Threads[st.T].Kind == "sweeper" {
				after := w.snapshot()
				for j := range before {
					if before[j].Obj != -1 && after[j].Obj == -1 {
						obs.Removed = before[j].Key
					}
				}
			}
			if c.Threads[st.T].Kind == "worker" && obs.Point == "end" && c.Share &&
				c.Regs[c.Threads[st.T].Reg].Source == "detector" &&
				(prev == "ingest:after-covert" || prev == "probe" && !c.Regs[c.Threads[st.T].Reg].Live) {
				launched++ // only used to decide how long to wait for the asynchronous posts
			}
		}
		obs.Snap = w.snapshot()
		evmu.Lock()
		stepNo++
		evmu.Unlock()
		res.Steps = append(res.Steps, obs)
		if obs.Point == "hang" {
			res.Error = "thread did not reach its next schedule point within 5s"
			break
		}
	}
	// shares are posted by goroutines: wait until the count is stable
	if c.Share {
		deadline := time.Now().Add(1500 * time.Millisecond)
		last, stable := int32(-1), 0
		for time.Now().Before(deadline) {
			n := atomic.LoadInt32(&shares)
			if n == last {
				stable++
			} else {
				stable, last = 0, n
			}
			if stable >= 8 && (n >= launched || stable >= 40) {
				break
			}
			time.Sleep(2 * time.Millisecond)
		}
	}
	res.Shares = int(atomic.LoadInt32(&shares))
	res.Launched = int(launched)
	res.Stats = c9Stats{
		Active:  atomic.LoadInt64(&rm.activeRegistrations),
		Dup:     atomic.LoadInt64(&rm.newDupRegistrations),
		Err:     atomic.LoadInt64(&rm.newErrRegistrations),
		Blocked: atomic.LoadInt64(&rm.newBlocklistedPhantomReg),
		New:     atomic.LoadInt64(&rm.newRegistrations),
	}
	// let parked goroutines go (they run to completion unobserved) so nothing leaks into the next case
	evmu.Lock()
	recording = false
	evmu.Unlock()
	atomic.StoreInt32(&draining, 1)
	verifhook.Set(nil)
	tester.f = func(string, uint16) (bool, error) { return true, fmt.Errorf("drained") }
	for _, t := range ctl.thr {
		if !t.done {
			select {
			case t.goCh <- struct{}{}:
			case <-time.After(20 * time.Millisecond):
			}
		}
	}
	// ... and wait for them: a straggler must not reach the hook of the next scenario
	drained := make(chan struct{})
	go func() { ctl.wg.Wait(); close(drained) }()
	select {
	case <-drained:
	case <-time.After(3 * time.Second):
		if res.Error == "" {
			res.Error = "goroutines of the scenario did not finish after the schedule"
		}
	}
	return res
}

// ---------------------------------------------------------------- distrib mode

func c9Wire(i int) []byte {
	t := true
	f := false
	v := uint32(4)
	gen := uint32(1)
	tt := pb.TransportType(0)
	c2s := &pb.ClientToStation{V4Support: &t, V6Support: &f, ClientLibVersion: &v, DecoyListGeneration: &gen,
		CovertAddress: proto.String("192.0.2.9:443"), Transport: &tt}
	src := pb.RegistrationSource_API
	wr := &pb.C2SWrapper{SharedSecret: c9Secret(i + 1000), RegistrationPayload: c2s, RegistrationSource: &src,
		RegistrationAddress: net.ParseIP("198.51.100.7").To4()}
	b, _ := proto.Marshal(wr)
	return b
}

func c9RunDistrib(c c9Case) (res c9Result) {
	os.Setenv("PHANTOM_SUBNET_LOCATION", "./test/phantom_subnets.toml")
	trials := c.Trials
	if trials == 0 {
		trials = 1
	}
	for tr := 0; tr < trials; tr++ {
		conf := &RegConfig{EnableIPv4: true, EnableIPv6: true, IngestWorkerCount: c.Workers}
		rm := NewRegistrationManager(conf)
		if rm == nil {
			res.Error = "NewRegistrationManager returned nil"
			return
		}
		_ = rm.AddTransport(pb.TransportType(0), &mockTransport{})
		var taken int64
		release := make(chan struct{})
		rm.LivenessTester = &c9Tester{f: func(string, uint16) (bool, error) {
			atomic.AddInt64(&taken, 1)
			if c.Scenario == "overload" {
				<-release
			}
			return true, fmt.Errorf("live (scripted)")
		}}
		rm.registeredDecoys.registerForDetector = func(*DecoyRegistration) {}
		rm.registeredDecoys.updateInDetector = func(*DecoyRegistration) {}
		rm.Logger = log.New(io.Discard, "[C09] ", golog.Ldate)

		ctx, cancel := context.WithCancel(context.Background())
		wg := new(sync.WaitGroup)
		regChan := make(chan interface{})
		wg.Add(1)
		returned := make(chan struct{})
		go rm.HandleRegUpdates(ctx, regChan, wg)
		go func() { wg.Wait(); close(returned) }()
		time.Sleep(40 * time.Millisecond) // let the workers start and reach their select

		switch c.Scenario {
		case "idle":
			t0 := time.Now()
			cancel()
			select {
			case <-returned:
				res.Returned = append(res.Returned, true)
			case <-time.After(4 * time.Second):
				res.Returned = append(res.Returned, false)
			}
			res.ReturnMs = append(res.ReturnMs, time.Since(t0).Milliseconds())
			res.AfterCancel = append(res.AfterCancel, 0)
		case "busy":
			// a few messages first, so that the pipeline is warm
			for i := 0; i < 3; i++ {
				regChan <- c9Wire(tr*100 + i)
			}
			for atomic.LoadInt64(&rm.totalIngestMessages) < 3 {
				time.Sleep(time.Millisecond)
			}
			time.Sleep(5 * time.Millisecond)
			c0 := atomic.LoadInt64(&rm.totalIngestMessages)
			t0 := time.Now()
			cancel()
			// registrations keep arriving after the stop request
			stop := make(chan struct{})
			fed := make(chan struct{})
			go func() {
				defer close(fed)
				for i := 0; ; i++ {
					select {
					case regChan <- c9Wire(tr*100 + 10 + i%50):
					case <-stop:
						return
					}
				}
			}()
			select {
			case <-returned:
				res.Returned = append(res.Returned, true)
			case <-time.After(4 * time.Second):
				res.Returned = append(res.Returned, false)
			}
			res.ReturnMs = append(res.ReturnMs, time.Since(t0).Milliseconds())
			close(stop)
			<-fed
			res.AfterCancel = append(res.AfterCancel, atomic.LoadInt64(&rm.totalIngestMessages)-c0)
		case "overload":
			res.Cap = cap(rm.ingestChan)
			for i := 0; i < c.Messages; i++ {
				select {
				case regChan <- c9Wire(tr*1000 + i):
				case <-time.After(4 * time.Second):
					res.SendBlocked = true
				}
				if res.SendBlocked {
					break
				}
				// pace: wait until the message is accounted for and idle workers have picked up
				dl := time.Now().Add(2 * time.Second)
				for time.Now().Before(dl) {
					tk := atomic.LoadInt64(&taken)
					acc := tk + int64(len(rm.ingestChan)) + atomic.LoadInt64(&rm.totalDroppedMessages)
					if acc == int64(i+1) && (len(rm.ingestChan) == 0 || tk >= int64(c.Workers)) {
						break
					}
					time.Sleep(200 * time.Microsecond)
				}
			}
			res.Received = atomic.LoadInt64(&rm.totalIngestMessages)
			res.Dropped = atomic.LoadInt64(&rm.newDroppedMessages)
			res.TotalDropped = atomic.LoadInt64(&rm.totalDroppedMessages)
			res.Taken = atomic.LoadInt64(&taken)
			res.Buffered = len(rm.ingestChan)
			close(release)
			t0 := time.Now()
			cancel()
			select {
			case <-returned:
				res.Returned = append(res.Returned, true)
			case <-time.After(4 * time.Second):
				res.Returned = append(res.Returned, false)
			}
			res.ReturnMs = append(res.ReturnMs, time.Since(t0).Milliseconds())
		}
		if c.Scenario != "overload" {
			close(release)
		}
		cancel()
		// un-wedge a distributor that is still blocked on its input (pinned behaviour) so that the
		// goroutines of this trial do not accumulate
		select {
		case <-returned:
		default:
			close(regChan)
			select {
			case <-returned:
			case <-time.After(2 * time.Second):
			}
		}
	}
	return res
}


// ---------------------------------------------------------------- locktrace mode

// readerCount of a sync.RWMutex: number of read locks held (pending writer: shifted by -1<<30).
func c9ReaderCount(m *sync.RWMutex) int64 {
	f := reflect.ValueOf(m).Elem().FieldByName("readerCount")
	if f.Kind() == reflect.Struct {
		f = f.FieldByName("v")
	}
	return f.Int()
}

func c9Stacks() string {
	buf := make([]byte, 1<<20)
	n := runtime.Stack(buf, true)
	out := string(buf[:n])
	// keep the goroutines that sit in the registration table's lock
	var keep []string
	for _, g := range strings.Split(out, "\n\n") {
		if strings.Contains(g, "RegisteredDecoys") && (strings.Contains(g, "RWMutex") || strings.Contains(g, "sync.")) {
			lines := strings.Split(g, "\n")
			if len(lines) > 14 {
				lines = lines[:14]
			}
			keep = append(keep, strings.Join(lines, "\n"))
		}
	}
	s := strings.Join(keep, "\n\n")
	if len(s) > 6000 {
		s = s[:6000]
	}
	return s
}

// The sweeper is held inside its read section (at the "sweep:scan" point, read lock taken) until a
// writer is queued for the lock; then it is released.  A read section that takes the read lock
// once completes and lets the writer in; one that takes it again queues behind the writer for good.
func c9RunLocktrace(c c9Case) (res c9Result) {
	tester := &c9Tester{f: func(string, uint16) (bool, error) { return false, fmt.Errorf("not live (scripted)") }}
	rm := c9Manager(c9Conf(c9Policy{}, false, ""), tester)
	rm.registeredDecoys.registerForDetector = func(*DecoyRegistration) {}
	rm.registeredDecoys.updateInDetector = func(*DecoyRegistration) {}
	var regs []*DecoyRegistration
	for _, r := range c.Regs {
		d := c9MakeReg(r)
		regs = append(regs, d)
	}
	// everything but the last registration is ingested beforehand
	for _, d := range regs[:len(regs)-1] {
		rm.ingestRegistration(d)
	}
	atScan := make(chan struct{})
	goOn := make(chan struct{})
	var once sync.Once
	verifhook.Set(func(point string, subject any) {
		if point == "sweep:scan" {
			once.Do(func() {
				close(atScan)
				<-goOn
			})
		}
	})
	defer verifhook.Set(nil)
	sweepDone := make(chan struct{})
	go func() { defer close(sweepDone); rm.RemoveOldRegistrations() }()
	select {
	case <-atScan:
	case <-time.After(4 * time.Second):
		res.Error = "sweeper did not reach its scan point"
		return
	}
	m := &rm.registeredDecoys.m
	res.DepthAtScan = int(c9ReaderCount(m))
	writerDone := make(chan struct{})
	go func() {
		defer close(writerDone)
		switch c.Scenario {
		case "activate":
			rm.MarkActive(regs[0])
		case "dup":
			rm.ingestRegistration(c9MakeReg(c.Regs[0]))
		default:
			rm.ingestRegistration(regs[len(regs)-1])
		}
	}()
	// wait until the writer is queued behind the sweeper's read lock
	dl := time.Now().Add(4 * time.Second)
waitWriter:
	for time.Now().Before(dl) {
		if c9ReaderCount(m) < 0 {
			res.WriterQueued = true
			break
		}
		select {
		case <-writerDone:
			// the "writer" went through while the sweeper holds its read lock: it is not exclusive
			res.WriterRan = true
			break waitWriter
		default:
		}
		time.Sleep(200 * time.Microsecond)
	}
	close(goOn)
	deadline := time.After(4 * time.Second)
	for _, ch := range []chan struct{}{sweepDone, writerDone} {
		select {
		case <-ch:
		case <-deadline:
			res.Deadlock = true
		}
		if res.Deadlock {
			break
		}
	}
	if res.Deadlock {
		res.Stacks = c9Stacks()
		res.Progress = "sweeper and writer did not finish within 4 s of the sweeper being released"
	}
	return res
}


// ---------------------------------------------------------------- startup mode (stop request during start-up)

type c9Startup struct {
	Workers int    `json:"workers"`
	Timing  string `json:"timing"` // before | after | yield
	Yields  int    `json:"yields"`
	Busy    bool   `json:"busy"`
	Trials  int    `json:"trials"`
}

type c9StartupRes struct {
	Returned  int `json:"returned"`
	MaxAlive  int `json:"max_alive"` // ingest workers still alive when HandleRegUpdates had returned
	NotReturn int `json:"not_returned"`
}

func c9CountWorkers() int {
	buf := make([]byte, 4<<20)
	n := runtime.Stack(buf, true)
	return strings.Count(string(buf[:n]), ").startIngestThread(")
}

// Runs in a child process: a worker that panics after HandleRegUpdates has returned takes the
// process down, which the parent observes.
func TestVerifC09StartupChild(t *testing.T) {
	raw := os.Getenv("VERIF_C09_CHILD")
	if raw == "" {
		t.Skip("not a child")
	}
	var scs []c9Startup
	if err := json.Unmarshal([]byte(raw), &scs); err != nil {
		t.Fatal(err)
	}
	os.Setenv("PHANTOM_SUBNET_LOCATION", "./test/phantom_subnets.toml")
	out := make([]c9StartupRes, len(scs))
	for i, sc := range scs {
		fmt.Printf("\nC9SCENARIO %d\n", i)
		os.Stdout.Sync()
		for tr := 0; tr < sc.Trials; tr++ {
			rm := NewRegistrationManager(&RegConfig{EnableIPv4: true, EnableIPv6: true, IngestWorkerCount: sc.Workers})
			if rm == nil {
				t.Fatal("no manager")
			}
			_ = rm.AddTransport(pb.TransportType(0), &mockTransport{})
			rm.LivenessTester = &c9Tester{f: func(string, uint16) (bool, error) { return true, fmt.Errorf("live (scripted)") }}
			rm.registeredDecoys.registerForDetector = func(*DecoyRegistration) {}
			rm.registeredDecoys.updateInDetector = func(*DecoyRegistration) {}
			rm.Logger = log.New(io.Discard, "[C09] ", golog.Ldate)
			ctx, cancel := context.WithCancel(context.Background())
			regChan := make(chan interface{}, 64)
			if sc.Busy {
				for j := 0; j < 64; j++ {
					regChan <- c9Wire(tr*64 + j)
				}
			}
			wg := new(sync.WaitGroup)
			wg.Add(1)
			returned := make(chan struct{})
			start := func() {
				go rm.HandleRegUpdates(ctx, regChan, wg)
				go func() { wg.Wait(); close(returned) }()
			}
			switch sc.Timing {
			case "before":
				cancel()
				start()
			case "after":
				start()
				cancel()
			default:
				start()
				for j := 0; j < sc.Yields; j++ {
					runtime.Gosched()
				}
				cancel()
			}
			select {
			case <-returned:
				out[i].Returned++
				if a := c9CountWorkers(); a > out[i].MaxAlive {
					out[i].MaxAlive = a
				}
			case <-time.After(4 * time.Second):
				out[i].NotReturn++
			}
			cancel()
			time.Sleep(15 * time.Millisecond) // a worker that starts late gets to run
		}
	}
	time.Sleep(50 * time.Millisecond)
	js, _ := json.Marshal(out)
	fmt.Printf("\nC9DONE %s\n", js)
}

func c9RunStartup(c c9Case) (res c9Result) {
	js, _ := json.Marshal(c.Startup)
	cmd := exec.Command(os.Args[0], "-test.run=^TestVerifC09StartupChild$", "-test.count=1", "-test.timeout=120s")
	cmd.Env = append(os.Environ(), "VERIF_C09_CHILD="+string(js))
	outb, err := cmd.CombinedOutput()
	out := string(outb)
	res.ChildOK = err == nil
	last := -1
	for _, ln := range strings.Split(out, "\n") {
		if strings.HasPrefix(ln, "C9SCENARIO ") {
			fmt.Sscanf(ln, "C9SCENARIO %d", &last)
		}
		if strings.HasPrefix(ln, "C9DONE ") {
			res.ChildDone = true
			_ = json.Unmarshal([]byte(strings.TrimPrefix(ln, "C9DONE ")), &res.StartupRes)
		}
	}
	res.ChildLast = last
	if i := strings.Index(out, "panic:"); i >= 0 {
		res.ChildPanic = out[i:]
		if len(res.ChildPanic) > 1800 {
			res.ChildPanic = res.ChildPanic[:1800]
		}
	} else if !res.ChildDone {
		tail := out
		if len(tail) > 1200 {
			tail = tail[len(tail)-1200:]
		}
		res.Error = "child ended without a result: " + tail
	}
	return res
}

// ---------------------------------------------------------------- stress mode

func c9RunStress(c c9Case) (res c9Result) {
	res.AnnPerKey = map[string]int{}
	res.StressKind = "plain"
	if c.Ageing {
		res.StressKind = "ageing"
	}
	confs := make([]*RegConfig, len(c.Policies))
	for i, p := range c.Policies {
		confs[i] = c9Conf(p, false, "")
	}
	tester := &c9Tester{f: func(addr string, port uint16) (bool, error) {
		time.Sleep(time.Duration(port%7) * 50 * time.Microsecond)
		return false, fmt.Errorf("not live (scripted)")
	}}
	rm := c9Manager(confs[0], tester)
	var mu sync.Mutex
	keyOfObj := map[*DecoyRegistration]int{}
	rm.registeredDecoys.registerForDetector = func(d *DecoyRegistration) {
		mu.Lock()
		defer mu.Unlock()
		res.AnnPerKey[fmt.Sprint(keyOfObj[d])]++
	}
	rm.registeredDecoys.updateInDetector = func(*DecoyRegistration) {}
	var pmu sync.Mutex
	guard := func(f func()) {
		defer func() {
			if r := recover(); r != nil {
				pmu.Lock()
				res.Panics = append(res.Panics, fmt.Sprint(r))
				pmu.Unlock()
			}
		}()
		f()
	}
	stop := make(chan struct{})
	var bg sync.WaitGroup
	var nSweeps, nIngests, nLookups int64
	// sweeper
	bg.Add(1)
	go func() {
		defer bg.Done()
		for {
			select {
			case <-stop:
				return
			default:
			}
			guard(func() { rm.RemoveOldRegistrations() })
			atomic.AddInt64(&nSweeps, 1)
			time.Sleep(100 * time.Microsecond)
		}
	}()
	// ageing
	if c.Ageing {
		bg.Add(1)
		go func() {
			defer bg.Done()
			for {
				select {
				case <-stop:
					return
				default:
				}
				rd := rm.registeredDecoys
				rd.m.Lock()
				n := 0
				for _, t := range rd.decoysTimeouts {
					if n%2 == 0 {
						t.registrationTime = t.registrationTime.Add(-7 * time.Hour)
					}
					n++
				}
				rd.m.Unlock()
				time.Sleep(300 * time.Microsecond)
			}
		}()
	}
	// handlers
	for h := 0; h < 2; h++ {
		bg.Add(1)
		go func() {
			defer bg.Done()
			for {
				select {
				case <-stop:
					return
				default:
				}
				for _, r := range c.Regs {
					guard(func() {
						for _, g := range rm.GetRegistrations(net.ParseIP(r.Phantom)) {
							d := g.(*DecoyRegistration)
							_ = len(d.Covert)
							rm.MarkActive(d)
						}
					})
					atomic.AddInt64(&nLookups, 1)
				}
				time.Sleep(50 * time.Microsecond)
			}
		}()
	}
	// the periodic stats printers, while registrations with fresh generation / library version keys are validated
	if c.Stats {
		bg.Add(1)
		go func() {
			defer bg.Done()
			lg := log.New(io.Discard, "[C09] ", golog.Ldate)
			for {
				select {
				case <-stop:
					return
				default:
				}
				guard(func() { rm.PrintAndReset(lg); rm.RegistrationStats.PrintAndReset(lg) })
				time.Sleep(150 * time.Microsecond)
			}
		}()
	}
	// reloads, with a goroutine that parses registrations (phantom selection, GeoIP lookups) meanwhile
	if c.Reloads && len(confs) > 1 {
		os.Setenv("PHANTOM_SUBNET_LOCATION", "./test/phantom_subnets.toml")
		if sel, err := phantoms.NewPhantomIPSelector(); err == nil {
			rm.PhantomSelector = sel
			bg.Add(1)
			go func() {
				defer bg.Done()
				for i := 0; ; i++ {
					select {
					case <-stop:
						return
					default:
					}
					guard(func() { _, _ = rm.parseRegMessage(c9Wire(i % 64)) })
					time.Sleep(100 * time.Microsecond)
				}
			}()
		}
		bg.Add(1)
		go func() {
			defer bg.Done()
			for i := 0; ; i++ {
				select {
				case <-stop:
					return
				default:
				}
				guard(func() { rm.OnReload(confs[i%len(confs)]) })
				time.Sleep(200 * time.Microsecond)
			}
		}()
	}
	// workers: every round ingests each registration of the case from Goroutines goroutines
	finished := make(chan struct{})
	go func() {
		defer close(finished)
		for round := 0; round < c.Rounds; round++ {
			var wg sync.WaitGroup
			for g := 0; g < c.Goroutines; g++ {
				for _, r := range c.Regs {
					r := r
					d := c9MakeReg(r)
					if c.Stats {
						// new keys for the per-generation / per-version stats maps in every round
						d.DecoyListVersion = uint32(round*1000 + g*10 + 1)
						d.clientLibVer = uint32(round*100 + g)
					}
					mu.Lock()
					keyOfObj[d] = r.Key
					mu.Unlock()
					wg.Add(1)
					go func() {
						defer wg.Done()
						guard(func() { rm.ingestRegistration(d) })
						atomic.AddInt64(&nIngests, 1)
					}()
				}
			}
			wg.Wait()
		}
		close(stop)
		bg.Wait()
	}()
	// watchdog: no progress of any kind for 4 s = the pipeline is wedged; report it and move on
	// (the goroutines are left behind, the manager is not used again)
	last, lastAt := int64(-1), time.Now()
watch:
	for {
		select {
		case <-finished:
			break watch
		case <-time.After(100 * time.Millisecond):
		}
		p := atomic.LoadInt64(&nSweeps) + atomic.LoadInt64(&nIngests) + atomic.LoadInt64(&nLookups)
		if p != last {
			last, lastAt = p, time.Now()
		} else if time.Since(lastAt) > 4*time.Second {
			res.Deadlock = true
			res.Progress = fmt.Sprintf("no progress for 4s: %d sweeps, %d/%d ingests, %d lookups completed", atomic.LoadInt64(&nSweeps),
				atomic.LoadInt64(&nIngests), c.Rounds*c.Goroutines*len(c.Regs), atomic.LoadInt64(&nLookups))
			res.Stacks = c9Stacks()
			return res
		}
	}
	rd := rm.registeredDecoys
	rd.m.RLock()
	n := 0
	for _, m := range rd.decoys {
		n += len(m)
		for _, d := range m {
			mu.Lock()
			k := keyOfObj[d]
			mu.Unlock()
			res.TrackedKeys = append(res.TrackedKeys, k)
			if d.Valid {
				res.ValidKeys = append(res.ValidKeys, k)
			}
		}
	}
	res.MapsInSync = n == len(rd.decoysTimeouts)
	rd.m.RUnlock()
	res.Adds = atomic.LoadInt64(&rm.newRegistrations)
	sort.Ints(res.TrackedKeys)
	sort.Ints(res.ValidKeys)
	return res
}

// ---------------------------------------------------------------- entry point

func TestVerifC09(t *testing.T) {
	raw, err := os.ReadFile(os.Getenv("VERIF_CASES"))
	if err != nil {
		t.Skip("no cases")
	}
	var cases []c9Case
	if err := json.Unmarshal(raw, &cases); err != nil {
		t.Fatal(err)
	}
	res := make([]c9Result, len(cases))
	hangs := 0
	for i, c := range cases {
		func() {
			defer func() {
				if r := recover(); r != nil {
					res[i].Error = fmt.Sprintf("driver panic: %v", r)
				}
			}()
			switch c.Mode {
			case "sched":
				if hangs >= 2 {
					res[i].Error = "skipped: two earlier scenarios already hung"
					res[i].Skipped = true
					return
				}
				res[i] = c9RunSched(c)
				if res[i].Error != "" {
					hangs++
				}
			case "distrib":
				res[i] = c9RunDistrib(c)
			case "stress":
				res[i] = c9RunStress(c)
			case "locktrace":
				res[i] = c9RunLocktrace(c)
			case "startup":
				res[i] = c9RunStartup(c)
			}
		}()
	}
	out, _ := json.Marshal(res)
	if err := os.WriteFile(os.Getenv("VERIF_OUT"), out, 0o644); err != nil {
		t.Fatal(err)
	}
}
