//go:build verif

package lib

// C09 driver, reload lane (same package and overlay set as sched_driver_test.go, whose fixtures
// are used).  A configuration reload is one of the operations of the concurrent history:
//
//	rser   ingest workers run the real ingestRegistration on fresh registrations of a few probe
//	       shapes while the main goroutine reloads (the real OnReload) round-robin between the
//	       configurations of the case.  Every ingest's outcome (valid / announced / visible to
//	       a connection lookup) is tallied per probe; before the run each probe is ingested alone
//	       under every configuration ("solo").  Every Lineup-th reload is a forced line-up: the
//	       driver takes policyLock for writing, waits until the workers queue at their next read
//	       section, starts OnReload (which queues as the next writer) and releases: the queued
//	       read sections run, then the reload, then the workers' following read sections.
//
// No assertions about conjure: counts, solo tables and first examples are recorded.

import (
	"encoding/binary"
	"encoding/json"
	"fmt"
	"net"
	"os"
	"reflect"
	"runtime"
	"sync"
	"sync/atomic"
	"testing"
	"time"

	"github.com/refraction-networking/conjure/pkg/core"
	"github.com/refraction-networking/conjure/pkg/phantoms"
	pb "github.com/refraction-networking/conjure/proto"
	"google.golang.org/protobuf/proto"
)

type c9rProbe struct {
	Covert  string `json:"covert"`  // as the client sends it
	Phantom string `json:"phantom"` // base address; the low 32 bits vary per ingest
	Source  string `json:"source"`  // detector | api | prescan
}

type c9rCase struct {
	Mode    string     `json:"mode"`
	Tag     string     `json:"tag"`
	Confs   []c9Policy `json:"confs"` // Confs[0] is in force at the start; reload i installs Confs[(i+1) % len]
	Probes  []c9rProbe `json:"probes"`
	Workers int        `json:"workers"`
	Reloads int        `json:"reloads"`
	Lineup  int        `json:"lineup"`
}

type c9rProbeRes struct {
	Solo          []bool   `json:"solo"`       // per configuration: accepted when ingested alone
	SoloParts     [][]bool `json:"solo_parts"` // per configuration: [phantom blocklisted, covert domain blocklisted, covert address blocklisted]
	SoloCoherent  bool     `json:"solo_coherent"`
	Accepted      int64    `json:"accepted"`
	Rejected      int64    `json:"rejected"`
	Incoherent    int64    `json:"incoherent"` // valid, announced-once and visible do not agree
	FirstAccepted string   `json:"first_accepted"`
	FirstRejected string   `json:"first_rejected"`
	FirstIncoh    string   `json:"first_incoherent"`
}

type c9rRes struct {
	Error        string        `json:"error"`
	Probes       []c9rProbeRes `json:"probes"`
	Ingests      int64         `json:"ingests"`
	Reloads      int           `json:"reloads"`
	Lineups      int           `json:"lineups"`
	LineupQueued int64         `json:"lineup_queued"` // read sections that were queued behind the driver's write lock, in total
	LineupWriter int           `json:"lineup_writer"` // line-ups in which OnReload was queued as the next writer at release
	Ms           int64         `json:"ms"`
	Procs        int           `json:"procs"`
	Panics       []string      `json:"panics"`
}

func c9rMakeReg(p c9rProbe, n uint64) *DecoyRegistration {
	src := pb.RegistrationSource_API
	switch p.Source {
	case "detector":
		src = pb.RegistrationSource_Detector
	case "prescan":
		src = pb.RegistrationSource_DetectorPrescan
	}
	f := false
	v := uint32(4)
	gen := uint32(1)
	tt := pb.TransportType(0)
	c2s := &pb.ClientToStation{V4Support: &f, V6Support: &f, ClientLibVersion: &v, DecoyListGeneration: &gen,
		CovertAddress: proto.String(p.Covert), Transport: &tt}
	ps := true
	secret := make([]byte, 32)
	binary.BigEndian.PutUint64(secret[0:8], n)
	binary.BigEndian.PutUint64(secret[8:16], n*0x9e3779b97f4a7c15+1)
	binary.BigEndian.PutUint64(secret[16:24], ^n)
	ip := net.ParseIP(p.Phantom).To16()
	ph := make(net.IP, 16)
	copy(ph, ip)
	binary.BigEndian.PutUint32(ph[12:16], uint32(n))
	return &DecoyRegistration{
		originalC2S:        c2s,
		PhantomIp:          ph,
		PhantomPort:        443,
		PhantomProto:       pb.IPProto_Tcp,
		registrationAddr:   net.ParseIP("198.51.100.7"),
		Keys:               &core.ConjureSharedKeys{SharedSecret: secret},
		Covert:             p.Covert,
		Flags:              &pb.RegistrationFlags{Prescanned: &ps},
		Transport:          tt,
		RegistrationTime:   time.Now(),
		RegistrationSource: &src,
		DecoyListVersion:   gen,
		clientLibVer:       v,
	}
}

// pending readers of an RWMutex whose write lock the caller holds
func c9rPendingReaders(m *sync.RWMutex) int64 {
	return c9ReaderCount(m) + (1 << 30)
}

// goroutines waiting for the inner mutex of an RWMutex (i.e. queued writers)
func c9rQueuedWriters(m *sync.RWMutex) int64 {
	w := reflect.ValueOf(m).Elem().FieldByName("w")
	if !w.IsValid() {
		return -1
	}
	st := w.FieldByName("state")
	if !st.IsValid() {
		return -1
	}
	return st.Int() >> 3
}

type c9rWorld struct {
	rm    *RegistrationManager
	annMu sync.Mutex
	ann   map[*DecoyRegistration]int
}

func c9rNewWorld(conf *RegConfig) *c9rWorld {
	tester := &c9Tester{f: func(string, uint16) (bool, error) { return false, fmt.Errorf("not live (scripted)") }}
	w := &c9rWorld{rm: c9Manager(conf, tester), ann: map[*DecoyRegistration]int{}}
	w.rm.registeredDecoys.registerForDetector = func(d *DecoyRegistration) {
		w.annMu.Lock()
		w.ann[d]++
		w.annMu.Unlock()
	}
	w.rm.registeredDecoys.updateInDetector = func(*DecoyRegistration) {}
	return w
}

// what became of one ingested registration: marked valid, announcements to the detector, handed to a lookup
func (w *c9rWorld) outcome(d *DecoyRegistration) (valid bool, ann int, visible bool) {
	rd := w.rm.registeredDecoys
	rd.m.RLock()
	valid = d.Valid
	rd.m.RUnlock()
	w.annMu.Lock()
	ann = w.ann[d]
	delete(w.ann, d)
	w.annMu.Unlock()
	for _, g := range w.rm.GetRegistrations(d.PhantomIp) {
		if g.(*DecoyRegistration) == d {
			visible = true
		}
	}
	return
}

func c9RunRser(c c9rCase) (res c9rRes) {
	t0 := time.Now()
	res.Procs = runtime.GOMAXPROCS(0)
	if len(c.Confs) < 2 || len(c.Probes) == 0 {
		res.Error = "case needs two configurations and a probe"
		return
	}
	os.Setenv("PHANTOM_SUBNET_LOCATION", "./test/phantom_subnets.toml")
	mk := func(i int) *RegConfig { return c9Conf(c.Confs[i], false, "") }
	res.Probes = make([]c9rProbeRes, len(c.Probes))
	// solo: every probe ingested alone under every configuration, through the same code
	var ctr uint64
	for pi, p := range c.Probes {
		pr := &res.Probes[pi]
		pr.SoloCoherent = true
		for ci := range c.Confs {
			conf := mk(ci)
			w := c9rNewWorld(conf)
			d := c9rMakeReg(p, atomic.AddUint64(&ctr, 1))
			ph := conf.IsBlocklistedPhantom(d.PhantomIp)
			host, _, _ := net.SplitHostPort(p.Covert)
			dom := conf.isBlocklistedCovertDomain(host)
			ad := false
			if a := net.ParseIP(host); a != nil {
				ad = conf.isBlocklistedCovertAddr(a)
			}
			w.rm.ingestRegistration(d)
			v, a, vis := w.outcome(d)
			if v != (a == 1) || v != vis {
				pr.SoloCoherent = false
			}
			pr.Solo = append(pr.Solo, v)
			pr.SoloParts = append(pr.SoloParts, []bool{ph, dom, ad})
		}
	}

	w := c9rNewWorld(mk(0))
	rm := w.rm
	if sel, err := phantoms.NewPhantomIPSelector(); err == nil {
		rm.PhantomSelector = sel
	}
	var started, completed int64
	var stop int32
	var pmu sync.Mutex
	guard := func(f func()) {
		defer func() {
			if r := recover(); r != nil {
				pmu.Lock()
				if len(res.Panics) < 5 {
					res.Panics = append(res.Panics, fmt.Sprint(r))
				}
				pmu.Unlock()
			}
		}()
		f()
	}
	var tmu sync.Mutex
	var wg sync.WaitGroup
	nw := c.Workers
	if nw <= 0 {
		nw = 4
	}
	for g := 0; g < nw; g++ {
		wg.Add(1)
		go func() {
			defer wg.Done()
			for atomic.LoadInt32(&stop) == 0 {
				for pi, p := range c.Probes {
					d := c9rMakeReg(p, atomic.AddUint64(&ctr, 1))
					lo := atomic.LoadInt64(&completed)
					guard(func() { rm.ingestRegistration(d) })
					hi := atomic.LoadInt64(&started)
					v, a, vis := w.outcome(d)
					atomic.AddInt64(&res.Ingests, 1)
					where := fmt.Sprintf("reloads in force during the ingest: [%d,%d] (reload e installs configuration e %% %d)", lo, hi, len(c.Confs))
					tmu.Lock()
					pr := &res.Probes[pi]
					if v != (a == 1) || v != vis {
						pr.Incoherent++
						if pr.FirstIncoh == "" {
							pr.FirstIncoh = fmt.Sprintf("valid=%v announced=%d visible=%v; %s", v, a, vis, where)
						}
					}
					if v {
						pr.Accepted++
						if pr.FirstAccepted == "" {
							pr.FirstAccepted = where
						}
					} else {
						pr.Rejected++
						if pr.FirstRejected == "" {
							pr.FirstRejected = where
						}
					}
					tmu.Unlock()
				}
			}
		}()
	}

	pl := &rm.RegConfig.policyLock
	confs := make([]*RegConfig, 0, c.Reloads)
	for i := 0; i < c.Reloads; i++ {
		confs = append(confs, mk((i+1)%len(c.Confs)))
	}
	reload := func(i int) {
		atomic.AddInt64(&started, 1)
		guard(func() { rm.OnReload(confs[i]) })
		atomic.AddInt64(&completed, 1)
	}
	for i := 0; i < c.Reloads; i++ {
		if time.Since(t0) > 20*time.Second {
			break
		}
		if c.Lineup > 0 && i%c.Lineup == 0 {
			pl.Lock()
			dl := time.Now().Add(400 * time.Microsecond)
			for c9rPendingReaders(pl) < int64(nw) && time.Now().Before(dl) {
				runtime.Gosched()
			}
			done := make(chan struct{})
			go func() { reload(i); close(done) }()
			dl = time.Now().Add(20 * time.Millisecond)
			for c9rQueuedWriters(pl) < 1 && time.Now().Before(dl) {
				runtime.Gosched()
			}
			if c9rQueuedWriters(pl) >= 1 {
				res.LineupWriter++
			}
			res.LineupQueued += c9rPendingReaders(pl)
			res.Lineups++
			pl.Unlock()
			select {
			case <-done:
			case <-time.After(5 * time.Second):
				res.Error = "OnReload did not return within 5 s (line-up)"
				atomic.StoreInt32(&stop, 1)
				return
			}
		} else {
			reload(i)
		}
		res.Reloads++
	}
	atomic.StoreInt32(&stop, 1)
	fin := make(chan struct{})
	go func() { wg.Wait(); close(fin) }()
	select {
	case <-fin:
	case <-time.After(5 * time.Second):
		res.Error = "ingest workers did not finish within 5 s of the last reload"
	}
	res.Ms = time.Since(t0).Milliseconds()
	return
}

func TestVerifC09Reload(t *testing.T) {
	raw, err := os.ReadFile(os.Getenv("VERIF_CASES"))
	if err != nil {
		t.Skip("no cases")
	}
	var cases []c9rCase
	if err := json.Unmarshal(raw, &cases); err != nil {
		t.Fatal(err)
	}
	if runtime.GOMAXPROCS(0) < 4 {
		runtime.GOMAXPROCS(4)
	}
	res := make([]c9rRes, len(cases))
	for i, c := range cases {
		func() {
			defer func() {
				if r := recover(); r != nil {
					res[i].Error = fmt.Sprintf("driver panic: %v", r)
				}
			}()
			res[i] = c9RunRser(c)
		}()
	}
	out, _ := json.Marshal(res)
	if err := os.WriteFile(os.Getenv("VERIF_OUT"), out, 0o644); err != nil {
		t.Fatal(err)
	}
}
