package lib

// C07, lifecycle lane. "Known ClientConf generation" means known to the configuration IN FORCE: the phantom subnet
// file the station loaded at start-up or at its last SUCCESSFUL reload. A case is a history over ONE real
// RegistrationManager: NewRegistrationManager with PHANTOM_SUBNET_LOCATION pointing at a temp TOML, then
// registration messages (real parseRegMessage + ingestRegistration, as the ingest worker does) interleaved with
// reloads: the file is rewritten (generations removed / added / changed, or a text that does not load) and the real
// RegistrationManager.OnReload runs with a freshly parsed RegConfig, as the SIGHUP handler does.
// The oracle values of phantom selection are NOT read from the manager under test: they come from a reference
// selector loaded (by the real phantoms.NewPhantomIPSelector) from the file the case says is in force at that step.
// Contains no assertions about conjure. Uses the helpers of c07_driver_test.go.

import (
	"encoding/hex"
	"encoding/json"
	"fmt"
	"io"
	"net"
	"net/http"
	"net/http/httptest"
	"os"
	"path/filepath"
	"runtime"
	"strings"
	"testing"
	"time"

	"github.com/refraction-networking/conjure/pkg/core"
	"github.com/refraction-networking/conjure/pkg/phantoms"
	"github.com/refraction-networking/conjure/pkg/station/log"
	pb "github.com/refraction-networking/conjure/proto"
)

type vc07FStep struct {
	Kind string   `json:"kind"` // msg | reload
	Msg  *vc07Msg `json:"msg"`
	Ref  int      `json:"ref"`  // msg: index of the file in force (reference selection)
	File int      `json:"file"` // reload: index of the file the operator installs before SIGHUP
}

type vc07FCase struct {
	Cfg   vc07Cfg     `json:"cfg"`
	Live  bool        `json:"live"`
	Files []string    `json:"files"` // texts; files[0] is the start-up file
	Steps []vc07FStep `json:"steps"`
}

type vc07FRes struct {
	Loadable []bool        `json:"loadable"` // per file: does phantoms.NewPhantomIPSelector load it
	Gens     [][]uint      `json:"gens"`     // per file: generations the reference selector holds
	Steps    []vc07StepRes `json:"steps"`
}

func vc07RefOracles(rm *RegistrationManager, ref *phantoms.PhantomIPSelector, m *vc07Msg, r *vc07StepRes) {
	p := m.Payload
	if p == nil {
		return
	}
	var secret []byte
	if m.Secret != nil {
		secret, _ = hex.DecodeString(*m.Secret)
	}
	var lv, gen uint32
	var tt int32
	if p.LibVer != nil {
		lv = *p.LibVer
	}
	if p.Gen != nil {
		gen = *p.Gen
	}
	if p.Transport != nil {
		tt = *p.Transport
	}
	if keys, kerr := core.GenSharedKeys(uint(lv), secret, pb.TransportType(tt)); kerr == nil && ref != nil {
		if a, err := ref.Select(keys.ConjureSeed, uint(gen), uint(lv), false); err == nil && a != nil {
			r.Sel4 = vc07Sel{true, hex.EncodeToString(*a.IP()), a.SupportRandomPort()}
		}
		if a, err := ref.Select(keys.ConjureSeed, uint(gen), uint(lv), true); err == nil && a != nil {
			r.Sel6 = vc07Sel{true, hex.EncodeToString(*a.IP()), a.SupportRandomPort()}
		}
	}
	r.Port4, r.Port6 = -1, -1
	cov := ""
	if p.Covert != nil {
		cov = *p.Covert
	}
	lit, _ := rm.ParseOrResolveBlocklisted(cov)
	r.CovertOk, r.CovertLit = lit != "", hex.EncodeToString([]byte(lit))
}

func vc07ProbeHex(a string) string {
	if ip := net.ParseIP(a); ip != nil {
		return hex.EncodeToString(ip)
	}
	return "text:" + a
}

func TestVerifC07Life(t *testing.T) {
	raw, err := os.ReadFile(os.Getenv("VERIF_CASES"))
	if err != nil {
		t.Skip("no cases")
	}
	var cases []vc07FCase
	if err := json.Unmarshal(raw, &cases); err != nil {
		t.Fatal(err)
	}
	dir, err := os.MkdirTemp("", "vc07life")
	if err != nil {
		t.Fatal(err)
	}
	defer os.RemoveAll(dir)
	oldEnv := os.Getenv("PHANTOM_SUBNET_LOCATION")
	defer os.Setenv("PHANTOM_SUBNET_LOCATION", oldEnv)
	rec := &vc07Rec{}
	srv := httptest.NewServer(http.HandlerFunc(rec.handler))
	defer srv.Close()
	discard := log.New(io.Discard, "", 0)
	baseline := runtime.NumGoroutine()
	vc07RealParams = false

	mkconf := func(cs *vc07FCase) *RegConfig {
		conf := &RegConfig{
			EnableIPv4: cs.Cfg.V4, EnableIPv6: cs.Cfg.V6, EnableShareOverAPI: cs.Cfg.Share, PreshareEndpoint: srv.URL,
			PhantomBlocklist: cs.Cfg.PBlock, CovertBlocklistSubnets: cs.Cfg.Covert.Block,
			CovertAllowlistSubnets: cs.Cfg.Covert.Allow, CovertBlocklistDomains: cs.Cfg.Covert.Domains,
		}
		func() {
			defer func() { _ = recover() }()
			conf.ParseBlocklists()
		}()
		return conf
	}

	res := make([]vc07FRes, len(cases))
	pblocks := make([][][2]string, len(cases))
	for ci := range cases {
		cs := &cases[ci]
		// reference selectors: one per file, loaded by the real loader from a path of their own
		refs := make([]*phantoms.PhantomIPSelector, len(cs.Files))
		res[ci].Loadable = make([]bool, len(cs.Files))
		res[ci].Gens = make([][]uint, len(cs.Files))
		refPath := filepath.Join(dir, fmt.Sprintf("ref_%d.toml", ci))
		for fi, text := range cs.Files {
			_ = os.WriteFile(refPath, []byte(text), 0o644)
			os.Setenv("PHANTOM_SUBNET_LOCATION", refPath)
			res[ci].Gens[fi] = []uint{}
			if s, err := phantoms.NewPhantomIPSelector(); err == nil && s != nil {
				refs[fi] = s
				res[ci].Loadable[fi] = true
				for g := range s.Networks {
					res[ci].Gens[fi] = append(res[ci].Gens[fi], g)
				}
			}
		}
		_ = os.Remove(refPath)

		path := filepath.Join(dir, fmt.Sprintf("phantom_subnets_%d.toml", ci))
		out := make([]vc07StepRes, len(cs.Steps))
		for i := range out {
			out[i].Events, out[i].Visible = []vc07Event{}, []vc07Vis{}
		}
		res[ci].Steps = out
		pblocks[ci] = [][2]string{}
		var rm *RegistrationManager
		if len(cs.Files) > 0 {
			_ = os.WriteFile(path, []byte(cs.Files[0]), 0o644)
			os.Setenv("PHANTOM_SUBNET_LOCATION", path)
			conf := mkconf(cs)
			func() {
				defer func() { _ = recover() }()
				rm = NewRegistrationManager(conf) // real constructor: real selector from the start-up file
			}()
			if rm != nil {
				for _, n := range conf.phantomBlocklist {
					pblocks[ci] = append(pblocks[ci], [2]string{hex.EncodeToString(n.IP), hex.EncodeToString(n.Mask)})
				}
			}
		}
		if rm == nil {
			for i := range out {
				out[i].Panic = "no registration manager"
			}
			continue
		}
		rm.Logger = discard
		rm.LivenessTester = &vc07Live{rec: rec, live: cs.Live}
		rm.GeoIP = &vc07Geo{fail: cs.Cfg.GeoFail}
		rm.registeredDecoys.registerForDetector = func(d *DecoyRegistration) {
			rec.add(vc07Event{Kind: "announce", Reg: vc07View(d)})
		}
		rm.registeredDecoys.updateInDetector = func(d *DecoyRegistration) {}
		for _, id := range cs.Cfg.Transports {
			_ = rm.AddTransport(pb.TransportType(id), &vc07Transport{id: id})
		}
		rec.take()
		for si, st := range cs.Steps {
			r := &out[si]
			func() {
				defer func() {
					if rc := recover(); rc != nil {
						r.Panic = fmt.Sprint(rc)
					}
				}()
				switch {
				case st.Kind == "reload" && st.File >= 0 && st.File < len(cs.Files):
					// the operator rewrites the file, then SIGHUP: a freshly parsed RegConfig goes to OnReload
					_ = os.WriteFile(path, []byte(cs.Files[st.File]), 0o644)
					os.Setenv("PHANTOM_SUBNET_LOCATION", path)
					rm.OnReload(mkconf(cs))
					rm.GeoIP = &vc07Geo{fail: cs.Cfg.GeoFail} // GeoIP stays scripted (external to the property)
				case st.Kind == "msg" && st.Msg != nil:
					var ref *phantoms.PhantomIPSelector
					if st.Ref >= 0 && st.Ref < len(refs) {
						ref = refs[st.Ref]
					}
					vc07RefOracles(rm, ref, st.Msg, r)
					newRegs, err := rm.parseRegMessage(vc07BuildMsg(st.Msg))
					if err != nil {
						r.Err = true
						return
					}
					for _, reg := range newRegs {
						if reg == nil {
							continue
						}
						r.NDrafts++
						rm.ingestRegistration(reg)
					}
				}
			}()
			r.Events = rec.take()
			for i := range r.Events {
				if r.Events[i].Kind == "probe" {
					r.Events[i].A = vc07ProbeHex(r.Events[i].A)
				}
			}
			func() {
				defer func() {
					if rc := recover(); rc != nil && r.Panic == "" {
						r.Panic = "visible: " + fmt.Sprint(rc)
					}
				}()
				r.Visible = vc07Visible(rm)
			}()
			if r.Visible == nil {
				r.Visible = []vc07Vis{}
			}
		}
	}
	deadline := time.Now().Add(40 * time.Second)
	final := 0
	for time.Now().Before(deadline) {
		time.Sleep(150 * time.Millisecond)
		if tr, ok := http.DefaultTransport.(*http.Transport); ok {
			tr.CloseIdleConnections()
		}
		rec.mu.Lock()
		idle := rec.last.IsZero() || time.Since(rec.last) > 400*time.Millisecond
		rec.mu.Unlock()
		final = runtime.NumGoroutine()
		if idle && final <= baseline+2 {
			break
		}
	}
	time.Sleep(200 * time.Millisecond)
	rec.mu.Lock()
	shares := rec.shares
	rec.mu.Unlock()
	if shares == nil {
		shares = []vc07Share{}
	}
	for i := range shares {
		shares[i].Mask = strings.TrimPrefix(shares[i].Mask, "m")
	}
	outb, _ := json.Marshal(map[string]interface{}{"results": res, "shares": shares, "pblocks": pblocks,
		"goroutines": []int{baseline, final}})
	if err := os.WriteFile(os.Getenv("VERIF_OUT"), outb, 0o644); err != nil {
		t.Fatal(err)
	}
}
