package lib

// C07, liveness-stack lane. Same recording driver as c07_driver_test.go (whose helpers it uses), but the
// liveness verdict reaches ingestRegistration through the REAL tester stack: the RegistrationManager is built by
// NewRegistrationManager with a liveness.Config, so rm.LivenessTester is whatever liveness.New returns for it
// (UncachedLivenessTester, or CachedLivenessTester over map / LRU caches for live and non-live verdicts).
// Only the network probe underneath is scripted (what the phantom would answer right now, and with which error),
// and the clock of the caches is moved explicitly. A case is a HISTORY: registration messages / hand-built
// registrations, clock advances, ClearExpired sweeps, all sharing one tester and one registration table.
// Contains no assertions about conjure.

import (
	"encoding/hex"
	"encoding/json"
	"errors"
	"fmt"
	"io"
	"net"
	"net/http"
	"net/http/httptest"
	"os"
	"runtime"
	"strconv"
	"strings"
	"sync/atomic"
	"testing"
	"time"

	"github.com/refraction-networking/conjure/pkg/core"
	"github.com/refraction-networking/conjure/pkg/station/liveness"
	"github.com/refraction-networking/conjure/pkg/station/log"
	pb "github.com/refraction-networking/conjure/proto"
)

type vc07LiveCfg struct {
	DL string `json:"dl"` // cache_expiration_time ("" = no live cache)
	CL int    `json:"cl"` // cache_capacity (0 = map, else LRU)
	DN string `json:"dn"` // cache_expiration_nonlive
	CN int    `json:"cn"` // cache_capacity_nonlive
}

type vc07LStep struct {
	Kind string   `json:"kind"` // msg | raw | adv | clear
	Msg  *vc07Msg `json:"msg"`
	Raw  *vc07Raw `json:"raw"`
	PL   bool     `json:"pl"` // what the network probe would say now
	PE   int      `json:"pe"` // error class it would return: 0 nil, 1 wraps ErrCachedPhantom, 2 NotLive, 3 ErrLiveHost, 4 other
	D    int64    `json:"d"`  // adv: hours
}

type vc07LCase struct {
	Cfg   vc07Cfg     `json:"cfg"`
	LV    vc07LiveCfg `json:"lv"`
	Steps []vc07LStep `json:"steps"`
}

type vc07LStepRes struct {
	vc07StepRes
	TStats  [4]int64 `json:"tstats"`  // tester counters after the step: pass, fail, cached-live, cached-non-live
	LStats  [3]int64 `json:"lstats"`  // station counters moved by the step: liveness pass, fail, cached
	KindL   string   `json:"kl"`
	KindN   string   `json:"kn"`
	LenL    int      `json:"ll"`
	LenN    int      `json:"ln"`
	Verdict []string `json:"verdicts"` // (live, error class) of every PhantomIsLive call made by the step, as "1/3"
}

type vc07LRes struct {
	Tester string         `json:"tester"`
	Steps  []vc07LStepRes `json:"steps"`
}

var vc07ErrNet = errors.New("dial tcp: connect: connection refused")

func vc07ErrOf(class int) error {
	switch class {
	case 0:
		return nil
	case 1:
		return fmt.Errorf("upstream tester: %w", liveness.ErrCachedPhantom)
	case 2:
		return liveness.NotLive
	case 3:
		return liveness.ErrLiveHost
	default:
		return vc07ErrNet
	}
}

func vc07ClassOf(err error) int {
	switch {
	case err == nil:
		return 0
	case errors.Is(err, liveness.ErrCachedPhantom):
		return 1
	case errors.Is(err, liveness.NotLive):
		return 2
	case errors.Is(err, liveness.ErrLiveHost):
		return 3
	default:
		return 4
	}
}

// vc07Watch wraps the real tester only to RECORD what it answers (the answer is passed through untouched).
type vc07Watch struct {
	liveness.Tester
	seen *[]string
}

func (w *vc07Watch) PhantomIsLive(addr string, port uint16) (bool, error) {
	live, err := w.Tester.PhantomIsLive(addr, port)
	b := 0
	if live {
		b = 1
	}
	*w.seen = append(*w.seen, fmt.Sprintf("%d/%d", b, vc07ClassOf(err)))
	return live, err
}

func vc07LibLiveStats() [3]int64 {
	s := Stat()
	return [3]int64{atomic.LoadInt64(&s.newLivenessPass), atomic.LoadInt64(&s.newLivenessFail), atomic.LoadInt64(&s.newLivenessCached)}
}

// oracle values of the external functions for a message (driver-defined selector and transports)
func vc07MsgOracles(rm *RegistrationManager, m *vc07Msg, r *vc07StepRes) {
	p := m.Payload
	if p == nil {
		return
	}
	var secret []byte
	if m.Secret != nil {
		secret, _ = hex.DecodeString(*m.Secret)
	}
	var lv, gen uint32
	var tt int32
	if p.LibVer != nil {
		lv = *p.LibVer
	}
	if p.Gen != nil {
		gen = *p.Gen
	}
	if p.Transport != nil {
		tt = *p.Transport
	}
	if keys, kerr := core.GenSharedKeys(uint(lv), secret, pb.TransportType(tt)); kerr == nil {
		if a, err := rm.PhantomSelector.Select(keys.ConjureSeed, uint(gen), uint(lv), false); err == nil && a != nil {
			r.Sel4 = vc07Sel{true, hex.EncodeToString(*a.IP()), a.SupportRandomPort()}
		}
		if a, err := rm.PhantomSelector.Select(keys.ConjureSeed, uint(gen), uint(lv), true); err == nil && a != nil {
			r.Sel6 = vc07Sel{true, hex.EncodeToString(*a.IP()), a.SupportRandomPort()}
		}
	}
	r.Port4, r.Port6 = -1, -1
	cov := ""
	if p.Covert != nil {
		cov = *p.Covert
	}
	lit, _ := rm.ParseOrResolveBlocklisted(cov)
	r.CovertOk, r.CovertLit = lit != "", hex.EncodeToString([]byte(lit))
}

func TestVerifC07Live(t *testing.T) {
	raw, err := os.ReadFile(os.Getenv("VERIF_CASES"))
	if err != nil {
		t.Skip("no cases")
	}
	var cases []vc07LCase
	if err := json.Unmarshal(raw, &cases); err != nil {
		t.Fatal(err)
	}
	os.Setenv("PHANTOM_SUBNET_LOCATION", "./test/phantom_subnets.toml")
	rec := &vc07Rec{}
	srv := httptest.NewServer(http.HandlerFunc(rec.handler))
	defer srv.Close()
	sel := vc07Selector()
	discard := log.New(io.Discard, "", 0)
	baseline := runtime.NumGoroutine()
	vc07RealParams = false

	res := make([]vc07LRes, len(cases))
	pblocks := make([][][2]string, len(cases))
	for ci, cs := range cases {
		conf := &RegConfig{
			Config:     &liveness.Config{CacheDuration: cs.LV.DL, CacheCapacity: cs.LV.CL, CacheDurationNonLive: cs.LV.DN, CacheCapacityNonLive: cs.LV.CN},
			EnableIPv4: cs.Cfg.V4, EnableIPv6: cs.Cfg.V6, EnableShareOverAPI: cs.Cfg.Share, PreshareEndpoint: srv.URL,
			PhantomBlocklist: cs.Cfg.PBlock, CovertBlocklistSubnets: cs.Cfg.Covert.Block,
			CovertAllowlistSubnets: cs.Cfg.Covert.Allow, CovertBlocklistDomains: cs.Cfg.Covert.Domains,
		}
		var rm *RegistrationManager
		func() {
			defer func() { _ = recover() }()
			conf.ParseBlocklists()
			rm = NewRegistrationManager(conf) // the real constructor: liveness.New(conf.LivenessConfig())
		}()
		out := make([]vc07LStepRes, len(cs.Steps))
		for i := range out {
			out[i].Events, out[i].Visible, out[i].Verdict = []vc07Event{}, []vc07Vis{}, []string{}
		}
		res[ci].Steps = out
		pblocks[ci] = [][2]string{}
		if rm == nil || rm.LivenessTester == nil {
			for i := range out {
				out[i].Panic = "no registration manager"
			}
			continue
		}
		for _, n := range conf.phantomBlocklist {
			pblocks[ci] = append(pblocks[ci], [2]string{hex.EncodeToString(n.IP), hex.EncodeToString(n.Mask)})
		}
		rm.Logger = discard
		rm.PhantomSelector = sel
		rm.GeoIP = &vc07Geo{fail: cs.Cfg.GeoFail}
		var cur vc07LStep
		real := rm.LivenessTester
		res[ci].Tester = liveness.VerifC07SetProber(real, func(address string) (bool, error) {
			host, port, _ := net.SplitHostPort(address)
			pn, _ := strconv.Atoi(port)
			rec.add(vc07Event{Kind: "probe", A: host, Port: pn})
			return cur.PL, vc07ErrOf(cur.PE)
		})
		var seen []string
		rm.LivenessTester = &vc07Watch{Tester: real, seen: &seen}
		rm.registeredDecoys.registerForDetector = func(d *DecoyRegistration) {
			rec.add(vc07Event{Kind: "announce", Reg: vc07View(d)})
		}
		rm.registeredDecoys.updateInDetector = func(d *DecoyRegistration) {}
		for _, id := range cs.Cfg.Transports {
			_ = rm.AddTransport(pb.TransportType(id), &vc07Transport{id: id})
		}
		rec.take()
		for si, st := range cs.Steps {
			r := &out[si]
			cur = st
			seen = nil
			before := vc07LibLiveStats()
			func() {
				defer func() {
					if rc := recover(); rc != nil {
						r.Panic = fmt.Sprint(rc)
					}
				}()
				switch {
				case st.Kind == "adv":
					liveness.VerifC07Advance(real, time.Duration(st.D)*time.Hour)
				case st.Kind == "clear":
					liveness.VerifC07ClearExpired(real)
				case st.Kind == "msg" && st.Msg != nil:
					vc07MsgOracles(rm, st.Msg, &r.vc07StepRes)
					newRegs, err := rm.parseRegMessage(vc07BuildMsg(st.Msg))
					if err != nil {
						r.Err = true
						return
					}
					for _, reg := range newRegs {
						if reg == nil {
							continue
						}
						r.NDrafts++
						rm.ingestRegistration(reg)
					}
				case st.Kind == "raw" && st.Raw != nil:
					x := st.Raw
					lit, _ := rm.ParseOrResolveBlocklisted(x.Covert)
					r.CovertOk, r.CovertLit = lit != "", hex.EncodeToString([]byte(lit))
					reg := &DecoyRegistration{PhantomPort: uint16(x.Port), Covert: x.Covert, Transport: pb.TransportType(x.Transport),
						RegistrationTime: time.Now()}
					if x.Keys {
						secret, _ := hex.DecodeString(x.Secret)
						k, _ := core.GenSharedKeys(3, secret, pb.TransportType(x.Transport))
						reg.Keys = &k
					}
					if x.Phantom != nil {
						b, _ := hex.DecodeString(*x.Phantom)
						if b == nil {
							b = []byte{}
						}
						reg.PhantomIp = net.IP(b)
					}
					if x.Prescanned != nil {
						reg.Flags = &pb.RegistrationFlags{Prescanned: x.Prescanned}
					}
					if x.Source != nil {
						s := pb.RegistrationSource(*x.Source)
						reg.RegistrationSource = &s
					}
					ra, _ := hex.DecodeString(x.RegAddr)
					reg.registrationAddr = net.IP(ra)
					if tp, ok := rm.registeredDecoys.transports[reg.Transport]; ok {
						reg.TransportPtr = &tp
					}
					r.NDrafts = 1
					rm.ingestRegistration(reg)
				}
			}()
			after := vc07LibLiveStats()
			for i := range after {
				r.LStats[i] = after[i] - before[i]
			}
			r.TStats = liveness.VerifC07TesterStats(real)
			r.KindL, r.LenL, r.KindN, r.LenN = liveness.VerifC07Caches(real)
			r.Verdict = append([]string{}, seen...)
			r.Events = rec.take()
			for i := range r.Events {
				if r.Events[i].Kind == "probe" {
					if ip := net.ParseIP(r.Events[i].A); ip != nil {
						r.Events[i].A = hex.EncodeToString(ip)
					} else {
						r.Events[i].A = "text:" + r.Events[i].A
					}
				}
			}
			func() {
				defer func() {
					if rc := recover(); rc != nil && r.Panic == "" {
						r.Panic = "visible: " + fmt.Sprint(rc)
					}
				}()
				r.Visible = vc07Visible(rm)
			}()
			if r.Visible == nil {
				r.Visible = []vc07Vis{}
			}
		}
	}
	// shares are posted from goroutines: wait for quiescence as the admission lane does
	deadline := time.Now().Add(40 * time.Second)
	final := 0
	for time.Now().Before(deadline) {
		time.Sleep(150 * time.Millisecond)
		if tr, ok := http.DefaultTransport.(*http.Transport); ok {
			tr.CloseIdleConnections()
		}
		rec.mu.Lock()
		idle := rec.last.IsZero() || time.Since(rec.last) > 400*time.Millisecond
		rec.mu.Unlock()
		final = runtime.NumGoroutine()
		if idle && final <= baseline+2 {
			break
		}
	}
	time.Sleep(200 * time.Millisecond)
	rec.mu.Lock()
	shares := rec.shares
	rec.mu.Unlock()
	if shares == nil {
		shares = []vc07Share{}
	}
	for i := range shares {
		shares[i].Mask = strings.TrimPrefix(shares[i].Mask, "m")
	}
	out, _ := json.Marshal(map[string]interface{}{"results": res, "shares": shares, "pblocks": pblocks,
		"goroutines": []int{baseline, final}})
	if err := os.WriteFile(os.Getenv("VERIF_OUT"), out, 0o644); err != nil {
		t.Fatal(err)
	}
}
