package lib

// Correspondence driver for C07 (admission of a registration). Reads cases,
// records what the implementation does; contains no assertions about conjure.
//
// Every case is a fresh RegistrationManager with an injected liveness tester,
// a recorder in place of registerForDetector, a local HTTP endpoint as the
// peer-station API, a driver-defined transport and phantom selector, and a
// sequence of steps: a C2SWrapper through parseRegMessage + ingestRegistration
// (the loop of startIngestThread), or a hand-built registration through
// ingestRegistration.

import (
	"bytes"
	"encoding/hex"
	"encoding/json"
	"fmt"
	"io"
	"net"
	"net/http"
	"net/http/httptest"
	"os"
	"runtime"
	"sort"
	"strings"
	"sync"
	"testing"
	"time"

	"github.com/refraction-networking/conjure/pkg/core"
	"github.com/refraction-networking/conjure/pkg/phantoms"
	"github.com/refraction-networking/conjure/pkg/station/log"
	"github.com/refraction-networking/conjure/pkg/transports"
	"github.com/refraction-networking/conjure/pkg/transports/wrapping/min"
	"github.com/refraction-networking/conjure/pkg/transports/wrapping/prefix"
	pb "github.com/refraction-networking/conjure/proto"
	"google.golang.org/protobuf/proto"
	"google.golang.org/protobuf/types/known/anypb"
)

// ---------------------------------------------------------------- injected parts

type vc07Transport struct{ id int }

func (t *vc07Transport) Name() string      { return fmt.Sprintf("vc07-%d", t.id) }
func (t *vc07Transport) LogPrefix() string { return "VC07" }
func (t *vc07Transport) GetIdentifier(r transports.Registration) string {
	return fmt.Sprintf("t%d:%s", t.id, hex.EncodeToString(r.SharedSecret()))
}
func (t *vc07Transport) GetProto() pb.IPProto { return pb.IPProto_Tcp }

func vc07Token(data *anypb.Any) (int, bool) {
	if data == nil {
		return 0, false
	}
	var n int
	if _, err := fmt.Sscanf(data.GetTypeUrl(), "tok/%d", &n); err != nil {
		return 1000, true
	}
	return n, true
}

// ParseParams: tokens >= 100 are malformed parameters
func (t *vc07Transport) ParseParams(libVersion uint, data *anypb.Any) (any, error) {
	n, ok := vc07Token(data)
	if !ok {
		return nil, nil
	}
	if n >= 100 {
		return nil, fmt.Errorf("bad params")
	}
	return n, nil
}
func (t *vc07Transport) ParamStrings(p any) []string { return nil }

// GetDstPort: 1000 + token, tokens 50..99 cannot be mapped to a port
func (t *vc07Transport) GetDstPort(libVersion uint, seed []byte, parameters any) (uint16, error) {
	n, ok := parameters.(int)
	if !ok {
		return 1000, nil
	}
	if n >= 50 {
		return 0, fmt.Errorf("no port")
	}
	return uint16(1000 + n), nil
}

type vc07Event struct {
	Seq  int          `json:"seq"`
	Kind string       `json:"kind"` // probe | announce
	A    string       `json:"a"`
	Port int          `json:"port"`
	Reg  *vc07RegView `json:"reg,omitempty"`
}

type vc07RegView struct {
	Phantom   string `json:"phantom"` // hex raw
	Port      int    `json:"port"`
	Secret    string `json:"secret"`
	Transport int    `json:"transport"`
	Covert    string `json:"covert"` // hex
	RegAddr   string `json:"regaddr"`
}

type vc07Rec struct {
	mu     sync.Mutex
	seq    int
	events []vc07Event
	shares []vc07Share
	last   time.Time
}

func (r *vc07Rec) add(e vc07Event) {
	r.mu.Lock()
	defer r.mu.Unlock()
	r.seq++
	e.Seq = r.seq
	r.events = append(r.events, e)
}

func (r *vc07Rec) take() []vc07Event {
	r.mu.Lock()
	defer r.mu.Unlock()
	e := r.events
	r.events = nil
	if e == nil {
		e = []vc07Event{}
	}
	return e
}

type vc07Live struct {
	rec  *vc07Rec
	live bool
}

func (l *vc07Live) PhantomIsLive(addr string, port uint16) (bool, error) {
	l.rec.add(vc07Event{Kind: "probe", A: addr, Port: int(port)})
	if l.live {
		return true, fmt.Errorf("scripted: live")
	}
	return false, fmt.Errorf("scripted: not live")
}
func (l *vc07Live) PrintAndReset(*log.Logger) {}
func (l *vc07Live) PrintStats(*log.Logger)    {}
func (l *vc07Live) Reset()                    {}

type vc07Geo struct{ fail bool }

func (g *vc07Geo) ASN(ip net.IP) (uint, error) {
	if g.fail {
		return 0, fmt.Errorf("scripted geoip failure")
	}
	return 64500, nil
}
func (g *vc07Geo) CC(ip net.IP) (string, error) {
	if g.fail {
		return "", fmt.Errorf("scripted geoip failure")
	}
	return "ZZ", nil
}

type vc07Share struct {
	Seq        int    `json:"seq"`
	Secret     string `json:"secret"`
	Source     int    `json:"source"`
	HasSource  bool   `json:"has_source"`
	RegAddr    string `json:"regaddr"`
	HasPayload bool   `json:"has_payload"`
	Prescanned bool   `json:"prescanned"`
	V4         bool   `json:"v4"`
	V6         bool   `json:"v6"`
	Gen        int    `json:"gen"`
	LibVer     int    `json:"libver"`
	Transport  int    `json:"transport"`
	Covert     string `json:"covert"`
	HasParams  bool   `json:"has_params"`
	Params     int    `json:"params"`
	Mask       string `json:"mask"`
	HasRR      bool   `json:"has_rr"`
	BadBody    bool   `json:"bad_body"`
}

func (r *vc07Rec) handler(w http.ResponseWriter, req *http.Request) {
	body, _ := io.ReadAll(req.Body)
	var s vc07Share
	m := &pb.C2SWrapper{}
	if err := proto.Unmarshal(body, m); err != nil {
		s.BadBody = true
	} else {
		s.Secret = hex.EncodeToString(m.GetSharedSecret())
		s.HasSource = m.RegistrationSource != nil
		s.Source = int(m.GetRegistrationSource())
		s.RegAddr = hex.EncodeToString(m.GetRegistrationAddress())
		s.HasRR = m.RegistrationResponse != nil
		if p := m.GetRegistrationPayload(); p != nil {
			s.HasPayload = true
			s.Prescanned = p.GetFlags().GetPrescanned()
			s.V4, s.V6 = p.GetV4Support(), p.GetV6Support()
			s.Gen, s.LibVer, s.Transport = int(p.GetDecoyListGeneration()), int(p.GetClientLibVersion()), int(p.GetTransport())
			s.Covert = hex.EncodeToString([]byte(p.GetCovertAddress()))
			if n, ok := vc07Token(p.GetTransportParams()); ok {
				s.HasParams, s.Params = true, n
			}
			s.Mask = p.GetMaskedDecoyServerName()
		}
	}
	r.mu.Lock()
	r.seq++
	s.Seq = r.seq
	r.shares = append(r.shares, s)
	r.last = time.Now()
	r.mu.Unlock()
	w.WriteHeader(200)
}

// ---------------------------------------------------------------- case format

type vc07Cfg struct {
	V4         bool       `json:"v4"`
	V6         bool       `json:"v6"`
	Transports []int      `json:"transports"`
	PBlock     []string   `json:"pblock"`
	Share      bool       `json:"share"`
	Covert     vc07Policy `json:"covert"`
	GeoFail    bool       `json:"geo_fail"`
	Real       bool       `json:"real"` // the shipped test selector (test/phantom_subnets.toml) and the real min / prefix transports
}

type vc07Policy struct {
	Block   []string `json:"block"`
	Allow   []string `json:"allow"`
	Domains []string `json:"domains"`
}

type vc07Flags struct {
	Prescanned *bool `json:"prescanned"`
}

type vc07Payload struct {
	V4          *bool      `json:"v4"`
	V6          *bool      `json:"v6"`
	Gen         *uint32    `json:"gen"`
	LibVer      *uint32    `json:"libver"`
	Transport   *int32     `json:"transport"`
	Covert      *string    `json:"covert"`
	Flags       *vc07Flags `json:"flags"`
	Params      *int       `json:"params"`
	NoOverrides *bool      `json:"no_overrides"`
	Tag         int        `json:"tag"`
}

type vc07RR struct {
	Port   *uint32 `json:"port"`
	V4     *uint32 `json:"v4"`
	V6     *string `json:"v6"` // hex
	Params *int    `json:"params"`
}

type vc07Msg struct {
	Secret  *string      `json:"secret"` // hex
	Payload *vc07Payload `json:"payload"`
	Source  *int32       `json:"source"`
	RegAddr *string      `json:"regaddr"` // hex
	RR      *vc07RR      `json:"rr"`
}

type vc07Raw struct {
	Keys       bool    `json:"keys"`
	Secret     string  `json:"secret"`
	Phantom    *string `json:"phantom"` // hex raw, null = nil
	Port       int     `json:"port"`
	Transport  int32   `json:"transport"`
	Covert     string  `json:"covert"`
	Prescanned *bool   `json:"prescanned"` // null = nil Flags
	Source     *int32  `json:"source"`
	RegAddr    string  `json:"regaddr"`
}

type vc07Step struct {
	Kind string   `json:"kind"` // msg | raw
	Msg  *vc07Msg `json:"msg"`
	Raw  *vc07Raw `json:"raw"` // null with kind raw = nil registration
}

type vc07Case struct {
	Cfg   vc07Cfg    `json:"cfg"`
	Live  bool       `json:"live"`
	Steps []vc07Step `json:"steps"`
}

type vc07Sel struct {
	Ok   bool   `json:"ok"`
	IP   string `json:"ip"` // hex raw
	Rand bool   `json:"rand"`
}

type vc07Vis struct {
	Phantom   string `json:"phantom"`
	Transport int    `json:"transport"`
	Secret    string `json:"secret"`
	Covert    string `json:"covert"`
}

type vc07StepRes struct {
	Panic     string      `json:"panic,omitempty"`
	Err       bool        `json:"err"`
	NDrafts   int         `json:"ndrafts"`
	Events    []vc07Event `json:"events"`
	Visible   []vc07Vis   `json:"visible"`
	Sel4      vc07Sel     `json:"sel4"`
	Sel6      vc07Sel     `json:"sel6"`
	Pok       bool        `json:"pok"`
	Port4     int         `json:"port4"`
	Port6     int         `json:"port6"`
	CovertOk  bool        `json:"covert_ok"`
	CovertLit string      `json:"covert_lit"` // hex
}

func vc07Selector() *phantoms.PhantomIPSelector {
	t, f := true, false
	w := uint32(1)
	mk := func(r *bool, subnets ...string) *phantoms.SubnetConfig {
		return &phantoms.SubnetConfig{WeightedSubnets: []*pb.PhantomSubnets{{Weight: &w, Subnets: subnets, RandomizeDstPort: r}}}
	}
	return &phantoms.PhantomIPSelector{Networks: map[uint]*phantoms.SubnetConfig{
		1: mk(&f, "192.122.190.0/24", "2001:48a8:687f:1::/64"), // both families, fixed port
		2: mk(&t, "192.122.190.0/24", "2001:48a8:687f:1::/64"), // both families, randomised port
		3: mk(&f, "192.122.190.0/24"),                          // IPv4 only
		4: mk(&f, "2001:48a8:687f:1::/64"),                     // IPv6 only
	}}
}

var vc07RealParams bool

// real mode: token 1..49 = GenericTransportParams{randomize}, anything else present = an Any of another type
func vc07Any(tok int) *anypb.Any {
	if !vc07RealParams {
		return &anypb.Any{TypeUrl: fmt.Sprintf("tok/%d", tok)}
	}
	if tok < 50 {
		t := true
		a, _ := anypb.New(&pb.GenericTransportParams{RandomizeDstPort: &t})
		return a
	}
	a, _ := anypb.New(&pb.RegistrationFlags{})
	return a
}

func vc07BuildMsg(m *vc07Msg) []byte {
	w := &pb.C2SWrapper{}
	if m.Secret != nil {
		w.SharedSecret, _ = hex.DecodeString(*m.Secret)
		if w.SharedSecret == nil {
			w.SharedSecret = []byte{}
		}
	}
	if m.Source != nil {
		s := pb.RegistrationSource(*m.Source)
		w.RegistrationSource = &s
	}
	if m.RegAddr != nil {
		w.RegistrationAddress, _ = hex.DecodeString(*m.RegAddr)
		if w.RegistrationAddress == nil {
			w.RegistrationAddress = []byte{}
		}
	}
	if p := m.Payload; p != nil {
		c := &pb.ClientToStation{V4Support: p.V4, V6Support: p.V6, DecoyListGeneration: p.Gen, ClientLibVersion: p.LibVer,
			CovertAddress: p.Covert, DisableRegistrarOverrides: p.NoOverrides}
		if p.Transport != nil {
			t := pb.TransportType(*p.Transport)
			c.Transport = &t
		}
		if p.Flags != nil {
			c.Flags = &pb.RegistrationFlags{Prescanned: p.Flags.Prescanned}
		}
		if p.Params != nil {
			c.TransportParams = vc07Any(*p.Params)
		}
		mask := fmt.Sprintf("m%d", p.Tag)
		c.MaskedDecoyServerName = &mask
		w.RegistrationPayload = c
	}
	if r := m.RR; r != nil {
		rr := &pb.RegistrationResponse{DstPort: r.Port, Ipv4Addr: r.V4}
		if r.V6 != nil {
			rr.Ipv6Addr, _ = hex.DecodeString(*r.V6)
			if rr.Ipv6Addr == nil {
				rr.Ipv6Addr = []byte{}
			}
		}
		if r.Params != nil {
			rr.TransportParams = vc07Any(*r.Params)
		}
		w.RegistrationResponse = rr
	}
	b, _ := proto.Marshal(w)
	return b
}

func vc07View(d *DecoyRegistration) *vc07RegView {
	v := &vc07RegView{Phantom: hex.EncodeToString(d.PhantomIp), Port: int(d.PhantomPort), Transport: int(d.Transport),
		Covert: hex.EncodeToString([]byte(d.Covert)), RegAddr: hex.EncodeToString(d.registrationAddr)}
	if d.Keys != nil {
		v.Secret = hex.EncodeToString(d.Keys.SharedSecret)
	}
	return v
}

func vc07Visible(rm *RegistrationManager) []vc07Vis {
	rm.registeredDecoys.m.RLock()
	var keys []string
	for k := range rm.registeredDecoys.decoys {
		keys = append(keys, k)
	}
	rm.registeredDecoys.m.RUnlock()
	sort.Strings(keys)
	out := []vc07Vis{}
	for _, k := range keys {
		ip := net.ParseIP(k)
		if ip == nil {
			continue
		}
		regs := rm.GetRegistrations(ip)
		var ids []string
		for id := range regs {
			ids = append(ids, id)
		}
		sort.Strings(ids)
		for _, id := range ids {
			d, ok := regs[id].(*DecoyRegistration)
			if !ok {
				continue
			}
			v := vc07Vis{Phantom: hex.EncodeToString(d.PhantomIp), Transport: int(d.Transport), Covert: hex.EncodeToString([]byte(d.Covert))}
			if d.Keys != nil {
				v.Secret = hex.EncodeToString(d.Keys.SharedSecret)
			}
			out = append(out, v)
		}
	}
	return out
}

func TestVerifC07Ingest(t *testing.T) {
	raw, err := os.ReadFile(os.Getenv("VERIF_CASES"))
	if err != nil {
		t.Skip("no cases")
	}
	var cases []vc07Case
	if err := json.Unmarshal(raw, &cases); err != nil {
		t.Fatal(err)
	}
	os.Setenv("PHANTOM_SUBNET_LOCATION", "./test/phantom_subnets.toml")
	rec := &vc07Rec{}
	srv := httptest.NewServer(http.HandlerFunc(rec.handler))
	defer srv.Close()
	sel := vc07Selector()
	discard := log.New(io.Discard, "", 0)
	baseline := runtime.NumGoroutine()

	res := make([][]vc07StepRes, len(cases))
	pblocks := make([][][2]string, len(cases))
	for ci, cs := range cases {
		conf := &RegConfig{
			EnableIPv4: cs.Cfg.V4, EnableIPv6: cs.Cfg.V6, EnableShareOverAPI: cs.Cfg.Share, PreshareEndpoint: srv.URL,
			PhantomBlocklist: cs.Cfg.PBlock, CovertBlocklistSubnets: cs.Cfg.Covert.Block,
			CovertAllowlistSubnets: cs.Cfg.Covert.Allow, CovertBlocklistDomains: cs.Cfg.Covert.Domains,
		}
		var rm *RegistrationManager
		func() {
			defer func() { _ = recover() }()
			conf.ParseBlocklists()
			rm = NewRegistrationManager(conf)
		}()
		out := make([]vc07StepRes, len(cs.Steps))
		if rm == nil {
			for i := range out {
				out[i].Panic = "no registration manager"
				out[i].Events, out[i].Visible = []vc07Event{}, []vc07Vis{}
			}
			res[ci] = out
			continue
		}
		pblocks[ci] = [][2]string{}
		for _, n := range conf.phantomBlocklist {
			pblocks[ci] = append(pblocks[ci], [2]string{hex.EncodeToString(n.IP), hex.EncodeToString(n.Mask)})
		}
		rm.Logger = discard
		vc07RealParams = cs.Cfg.Real
		if !cs.Cfg.Real {
			rm.PhantomSelector = sel
		}
		rm.LivenessTester = &vc07Live{rec: rec, live: cs.Live}
		rm.GeoIP = &vc07Geo{fail: cs.Cfg.GeoFail}
		rm.registeredDecoys.registerForDetector = func(d *DecoyRegistration) {
			rec.add(vc07Event{Kind: "announce", Reg: vc07View(d)})
		}
		rm.registeredDecoys.updateInDetector = func(d *DecoyRegistration) {}
		for _, id := range cs.Cfg.Transports {
			if cs.Cfg.Real {
				switch pb.TransportType(id) {
				case pb.TransportType_Min:
					_ = rm.AddTransport(pb.TransportType_Min, min.Transport{})
				case pb.TransportType_Prefix:
					_ = rm.AddTransport(pb.TransportType_Prefix, prefix.DefaultSet())
				}
				continue
			}
			_ = rm.AddTransport(pb.TransportType(id), &vc07Transport{id: id})
		}
		rec.take()
		for si, st := range cs.Steps {
			r := &out[si]
			func() {
				defer func() {
					if rc := recover(); rc != nil {
						r.Panic = fmt.Sprint(rc)
					}
				}()
				switch {
				case st.Kind == "msg" && st.Msg != nil:
					m := st.Msg
					// oracle values of the external functions for this message
					if p := m.Payload; p != nil {
						var secret []byte
						if m.Secret != nil {
							secret, _ = hex.DecodeString(*m.Secret)
						}
						var lv, gen uint32
						var tt int32
						if p.LibVer != nil {
							lv = *p.LibVer
						}
						if p.Gen != nil {
							gen = *p.Gen
						}
						if p.Transport != nil {
							tt = *p.Transport
						}
						keys, kerr := core.GenSharedKeys(uint(lv), secret, pb.TransportType(tt))
						if kerr == nil {
							if a, err := rm.PhantomSelector.Select(keys.ConjureSeed, uint(gen), uint(lv), false); err == nil && a != nil {
								r.Sel4 = vc07Sel{true, hex.EncodeToString(*a.IP()), a.SupportRandomPort()}
							}
							if a, err := rm.PhantomSelector.Select(keys.ConjureSeed, uint(gen), uint(lv), true); err == nil && a != nil {
								r.Sel6 = vc07Sel{true, hex.EncodeToString(*a.IP()), a.SupportRandomPort()}
							}
						}
						r.Port4, r.Port6 = -1, -1
						if cs.Cfg.Real && kerr == nil {
							// effective parameters (registrar override unless the client disabled overrides)
							var eff *anypb.Any
							if p.Params != nil {
								eff = vc07Any(*p.Params)
							}
							if m.RR != nil && m.RR.Params != nil && !(p.NoOverrides != nil && *p.NoOverrides) {
								eff = vc07Any(*m.RR.Params)
							}
							if tp, ok := rm.registeredDecoys.transports[pb.TransportType(tt)]; ok {
								if parsed, err := tp.ParseParams(uint(lv), eff); err == nil {
									r.Pok = true
									if r.Sel4.Ok {
										if pt, err := rm.getPhantomDstPort(pb.TransportType(tt), parsed, keys.ConjureSeed, uint(lv), r.Sel4.Rand); err == nil {
											r.Port4 = int(pt)
										}
									}
									if r.Sel6.Ok {
										if pt, err := rm.getPhantomDstPort(pb.TransportType(tt), parsed, keys.ConjureSeed, uint(lv), r.Sel6.Rand); err == nil {
											r.Port6 = int(pt)
										}
									}
								}
							}
						}
						cov := ""
						if p.Covert != nil {
							cov = *p.Covert
						}
						lit, _ := rm.ParseOrResolveBlocklisted(cov)
						r.CovertOk, r.CovertLit = lit != "", hex.EncodeToString([]byte(lit))
					}
					// the loop of startIngestThread
					newRegs, err := rm.parseRegMessage(vc07BuildMsg(m))
					if err != nil {
						r.Err = true
						return
					}
					for _, reg := range newRegs {
						if reg == nil {
							continue
						}
						r.NDrafts++
						rm.ingestRegistration(reg)
					}
				case st.Kind == "raw" && st.Raw == nil:
					rm.ingestRegistration(nil)
				case st.Kind == "raw":
					x := st.Raw
					lit, _ := rm.ParseOrResolveBlocklisted(x.Covert)
					r.CovertOk, r.CovertLit = lit != "", hex.EncodeToString([]byte(lit))
					reg := &DecoyRegistration{PhantomPort: uint16(x.Port), Covert: x.Covert, Transport: pb.TransportType(x.Transport),
						RegistrationTime: time.Now()}
					if x.Keys {
						secret, _ := hex.DecodeString(x.Secret)
						k, _ := core.GenSharedKeys(3, secret, pb.TransportType(x.Transport))
						reg.Keys = &k
					}
					if x.Phantom != nil {
						b, _ := hex.DecodeString(*x.Phantom)
						if b == nil {
							b = []byte{}
						}
						reg.PhantomIp = net.IP(b)
					}
					if x.Prescanned != nil {
						reg.Flags = &pb.RegistrationFlags{Prescanned: x.Prescanned}
					}
					if x.Source != nil {
						s := pb.RegistrationSource(*x.Source)
						reg.RegistrationSource = &s
					}
					ra, _ := hex.DecodeString(x.RegAddr)
					reg.registrationAddr = net.IP(ra)
					if tp, ok := rm.registeredDecoys.transports[reg.Transport]; ok {
						reg.TransportPtr = &tp
					}
					r.NDrafts = 1
					rm.ingestRegistration(reg)
				}
			}()
			r.Events = rec.take()
			for i := range r.Events {
				if r.Events[i].Kind == "probe" {
					// the probe receives the phantom as text; report the raw address
					if ip := net.ParseIP(r.Events[i].A); ip != nil {
						r.Events[i].A = hex.EncodeToString(ip)
					} else {
						r.Events[i].A = "text:" + r.Events[i].A
					}
				}
			}
			func() {
				defer func() {
					if rc := recover(); rc != nil && r.Panic == "" {
						r.Panic = "visible: " + fmt.Sprint(rc)
					}
				}()
				r.Visible = vc07Visible(rm)
			}()
			if r.Visible == nil {
				r.Visible = []vc07Vis{}
			}
		}
		res[ci] = out
	}
	// the shares are posted from goroutines: wait until none has arrived for a while and the
	// goroutines that post them are gone (idle HTTP connections closed so that their loops exit)
	deadline := time.Now().Add(40 * time.Second)
	final := 0
	for time.Now().Before(deadline) {
		time.Sleep(150 * time.Millisecond)
		if tr, ok := http.DefaultTransport.(*http.Transport); ok {
			tr.CloseIdleConnections()
		}
		rec.mu.Lock()
		idle := rec.last.IsZero() || time.Since(rec.last) > 400*time.Millisecond
		rec.mu.Unlock()
		final = runtime.NumGoroutine()
		if idle && final <= baseline+2 {
			break
		}
	}
	time.Sleep(200 * time.Millisecond)
	rec.mu.Lock()
	shares := rec.shares
	rec.mu.Unlock()
	if shares == nil {
		shares = []vc07Share{}
	}
	for i := range shares {
		shares[i].Mask = strings.TrimPrefix(shares[i].Mask, "m")
	}
	out, _ := json.Marshal(map[string]interface{}{"results": res, "shares": shares, "pblocks": pblocks,
		"goroutines": []int{baseline, final}})
	if err := os.WriteFile(os.Getenv("VERIF_OUT"), out, 0o644); err != nil {
		t.Fatal(err)
	}
	_ = bytes.MinRead
}
