//go:build verif

package liveness

// Export shim for C07's liveness-stack lane (added to the package through `go test -overlay`,
// never written into the repository). It lets a driver in package lib
//   - put a scripted network probe under the REAL testers that liveness.New builds,
//   - move the clock of the REAL caches (every stored cachedTime is shifted back, which is what
//     the caches see when time passes: they only ever compute time.Since(cachedTime)),
//   - read the kind / length of the two caches and the tester's own counters.
// It contains no logic of its own about verdicts.

import (
	"sync/atomic"
	"time"
)

// VerifC07SetProber replaces the network probe of a tester built by New. Returns "cached",
// "uncached" or "" for a tester type it does not know.
func VerifC07SetProber(t Tester, f func(address string) (bool, error)) string {
	switch x := t.(type) {
	case *CachedLivenessTester:
		x.phantomIsLive = f
		return "cached"
	case *UncachedLivenessTester:
		x.phantomIsLive = f
		return "uncached"
	}
	return ""
}

func verifC07Shift(c cache, d time.Duration) {
	switch t := c.(type) {
	case *mapCache:
		if t == nil {
			return
		}
		t.m.Lock()
		for _, e := range t.ipCache {
			e.cachedTime = e.cachedTime.Add(-d)
		}
		t.m.Unlock()
	case *lruCache:
		if t == nil {
			return
		}
		t.m.Lock()
		for _, e := range t.ipCache {
			e.cachedTime = e.cachedTime.Add(-d)
		}
		t.m.Unlock()
	}
}

// VerifC07Advance lets d pass for both caches of a cached tester.
func VerifC07Advance(t Tester, d time.Duration) {
	if x, ok := t.(*CachedLivenessTester); ok {
		verifC07Shift(x.ipCacheLive, d)
		verifC07Shift(x.ipCacheNonLive, d)
	}
}

// VerifC07ClearExpired runs the tester's own ClearExpiredCache.
func VerifC07ClearExpired(t Tester) {
	if x, ok := t.(*CachedLivenessTester); ok {
		x.ClearExpiredCache()
	}
}

func verifC07Kind(c cache) (string, int) {
	switch t := c.(type) {
	case nil:
		return "nil", 0
	case *mapCache:
		if t == nil {
			return "nil", 0
		}
		return "map", t.Len()
	case *lruCache:
		if t == nil {
			return "nil", 0
		}
		return "lru", t.Len()
	}
	return "other", 0
}

// VerifC07Caches reports kind ("nil" | "map" | "lru") and length of the live and the non-live cache.
func VerifC07Caches(t Tester) (kl string, ll int, kn string, ln int) {
	if x, ok := t.(*CachedLivenessTester); ok {
		kl, ll = verifC07Kind(x.ipCacheLive)
		kn, ln = verifC07Kind(x.ipCacheNonLive)
		return
	}
	return "nil", 0, "nil", 0
}

// VerifC07TesterStats reads the tester's counters: pass, fail, cached-live, cached-non-live.
func VerifC07TesterStats(t Tester) [4]int64 {
	var s *stats
	switch x := t.(type) {
	case *CachedLivenessTester:
		s = x.stats
	case *UncachedLivenessTester:
		s = x.stats
	}
	if s == nil {
		return [4]int64{}
	}
	return [4]int64{atomic.LoadInt64(&s.newLivenessPass), atomic.LoadInt64(&s.newLivenessFail),
		atomic.LoadInt64(&s.newLivenessCachedLive), atomic.LoadInt64(&s.newLivenessCachedNonLive)}
}
