//go:build faketime

package main

// With the `faketime` build tag the Go runtime reads the time from the variable
// runtime.faketime instead of the OS clock; nothing moves it while the driver
// computes.  The driver advances it directly (no sleeping: a cgo binary such as
// this package's test - zmq - never lets the runtime's own sleeper advance it).
// Needs -ldflags=-checklinkname=0.

import _ "unsafe"

//go:linkname c08runtimeFaketime runtime.faketime
var c08runtimeFaketime int64

const c08clockIsFake = true

func c08clockAdvance(ns int64) { c08runtimeFaketime += ns }
