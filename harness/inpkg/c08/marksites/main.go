// marksites: the call sites that decide whether a registration "has carried a connection".
//
// Walks the non-test Go files of the station's packages (go/parser, standard library only) and lists, per
// top-level function, the calls of WrapConnection / Connect (a registration is found for a connection),
// Proxy (a tunnel is relayed for a registration) and MarkActive (the registration is marked used), in source
// order, with the text of the registration argument and whether the call is deferred or inside a function
// literal.  driver/props/c08.py builds the table of tunnel sites from it on every run.
//
//	go run main.go <repo root> <package dir> [<package dir> ...]
package main

import (
	"bytes"
	"encoding/json"
	"fmt"
	"go/ast"
	"go/parser"
	"go/printer"
	"go/token"
	"os"
	"path/filepath"
	"sort"
	"strings"
)

type call struct {
	Name     string `json:"name"`
	Line     int    `json:"line"`
	Pos      int    `json:"pos"`
	Arg      string `json:"arg"`      // the registration argument (first argument of Proxy / MarkActive), source text
	Recv     string `json:"recv"`     // receiver / package expression, source text
	Deferred bool   `json:"deferred"` // the call is a defer statement
	InLit    bool   `json:"in_lit"`   // inside a function literal of the enclosing function
	InGo     bool   `json:"in_go"`    // the call is a go statement
}

type fn struct {
	File  string `json:"file"`
	Func  string `json:"func"`
	Calls []call `json:"calls"`
}

var names = map[string]bool{"WrapConnection": true, "Connect": true, "Proxy": true, "MarkActive": true, "markActive": true}

func src(fset *token.FileSet, n ast.Node) string {
	var b bytes.Buffer
	_ = printer.Fprint(&b, fset, n)
	return b.String()
}

func main() {
	if len(os.Args) < 3 {
		fmt.Fprintln(os.Stderr, "usage: marksites <repo> <pkgdir>...")
		os.Exit(2)
	}
	root := os.Args[1]
	var out []fn
	for _, dir := range os.Args[2:] {
		ents, err := os.ReadDir(filepath.Join(root, dir))
		if err != nil {
			fmt.Fprintln(os.Stderr, err)
			os.Exit(1)
		}
		for _, e := range ents {
			if e.IsDir() || !strings.HasSuffix(e.Name(), ".go") || strings.HasSuffix(e.Name(), "_test.go") {
				continue
			}
			fset := token.NewFileSet()
			f, err := parser.ParseFile(fset, filepath.Join(root, dir, e.Name()), nil, 0)
			if err != nil {
				fmt.Fprintln(os.Stderr, err)
				os.Exit(1)
			}
			for _, d := range f.Decls {
				fd, ok := d.(*ast.FuncDecl)
				if !ok || fd.Body == nil {
					continue
				}
				name := fd.Name.Name
				if fd.Recv != nil && len(fd.Recv.List) > 0 {
					name = strings.TrimPrefix(src(fset, fd.Recv.List[0].Type), "*") + "." + name
				}
				r := fn{File: filepath.Join(dir, e.Name()), Func: name}
				var walk func(n ast.Node, inLit bool)
				record := func(ce *ast.CallExpr, deferred, isGo, inLit bool) {
					var nm, recv string
					switch fun := ce.Fun.(type) {
					case *ast.SelectorExpr:
						nm, recv = fun.Sel.Name, src(fset, fun.X)
					case *ast.Ident:
						nm = fun.Name
					}
					if !names[nm] {
						return
					}
					c := call{Name: nm, Line: fset.Position(ce.Pos()).Line, Pos: int(ce.Pos()), Recv: recv, Deferred: deferred, InLit: inLit, InGo: isGo}
					if len(ce.Args) > 0 && (nm == "Proxy" || nm == "MarkActive" || nm == "markActive") {
						c.Arg = src(fset, ce.Args[0])
					}
					r.Calls = append(r.Calls, c)
				}
				walk = func(n ast.Node, inLit bool) {
					ast.Inspect(n, func(x ast.Node) bool {
						switch v := x.(type) {
						case *ast.DeferStmt:
							record(v.Call, true, false, inLit)
							for _, a := range v.Call.Args {
								walk(a, inLit)
							}
							if lit, ok := v.Call.Fun.(*ast.FuncLit); ok {
								walk(lit.Body, true)
							}
							return false
						case *ast.GoStmt:
							record(v.Call, false, true, inLit)
							for _, a := range v.Call.Args {
								walk(a, inLit)
							}
							if lit, ok := v.Call.Fun.(*ast.FuncLit); ok {
								walk(lit.Body, true)
							}
							return false
						case *ast.FuncLit:
							walk(v.Body, true)
							return false
						case *ast.CallExpr:
							record(v, false, false, inLit)
						}
						return true
					})
				}
				walk(fd.Body, false)
				if len(r.Calls) > 0 {
					sort.SliceStable(r.Calls, func(i, j int) bool { return r.Calls[i].Pos < r.Calls[j].Pos })
					out = append(out, r)
				}
			}
		}
	}
	js, _ := json.MarshalIndent(out, "", " ")
	fmt.Println(string(js))
}
