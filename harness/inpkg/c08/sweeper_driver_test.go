package main

// C08: the sweeper goroutine of cmd/application/main.go, cut out verbatim by
// driver/props/c08.py into verifC08StartSweeper, run on the fake clock: the
// driver moves the clock along a script, yields so that the ticker loop can run,
// and records which registrations the RegistrationManager still tracks.
// Contains no assertions about conjure.

import (
	"context"
	"crypto/sha256"
	"encoding/json"
	"fmt"
	"net"
	"os"
	"runtime"
	"sync"
	"sync/atomic"
	"testing"
	"time"

	"github.com/refraction-networking/conjure/pkg/core"
	cj "github.com/refraction-networking/conjure/pkg/station/lib"
	"github.com/refraction-networking/conjure/pkg/transports/wrapping/min"
	pb "github.com/refraction-networking/conjure/proto"
)

type c08swStep struct {
	To     int64 `json:"to"`     // move the clock to this many ns after the start
	Track  int   `json:"track"`  // then track this many new registrations
	Cancel bool  `json:"cancel"` // then cancel the context
}

type c08swObs struct {
	At      int64 `json:"at"`
	Present []int `json:"present"` // ids of the registrations still tracked (after the loop had its chance to run)
	Stopped bool  `json:"stopped"` // the goroutine has returned (wg released)
}

type c08swRes struct {
	Obs   []c08swObs `json:"obs"`
	Panic string     `json:"panic"`
}

func c08swReg(i int) *cj.DecoyRegistration {
	h := sha256.Sum256([]byte(fmt.Sprintf("verif-c08-sweeper-%d", i)))
	keys, _ := core.GenSharedKeys(4, h[:], pb.TransportType_Min)
	src := pb.RegistrationSource_API
	return &cj.DecoyRegistration{
		PhantomIp:          net.IPv4(192, 0, 2, byte(1+i%200)).To4(),
		PhantomPort:        443,
		Keys:               &keys,
		Transport:          pb.TransportType_Min,
		RegistrationSource: &src,
	}
}

func c08swYield() {
	for i := 0; i < 300; i++ {
		runtime.Gosched()
	}
}

func c08swRun(steps []c08swStep) (res c08swRes) {
	defer func() {
		if r := recover(); r != nil {
			res.Panic = fmt.Sprint(r)
		}
	}()
	regManager := cj.NewRegistrationManager(&cj.RegConfig{})
	if regManager == nil {
		res.Panic = "NewRegistrationManager returned nil"
		return
	}
	_ = regManager.AddTransport(pb.TransportType_Min, min.Transport{})
	ctx, cancel := context.WithCancel(context.Background())
	defer cancel()
	wg := new(sync.WaitGroup)
	var stopped int32
	verifC08StartSweeper(ctx, wg, regManager)
	go func() { wg.Wait(); atomic.StoreInt32(&stopped, 1) }()
	c08swYield() // the loop creates its ticker now, at clock 0
	var regs []*cj.DecoyRegistration
	now := int64(0)
	for _, st := range steps {
		if st.To > now {
			c08clockAdvance(st.To - now)
			now = st.To
		}
		c08swYield()
		for i := 0; i < st.Track; i++ {
			d := c08swReg(len(regs))
			_ = regManager.TrackRegistration(d)
			regs = append(regs, d)
		}
		if st.Cancel {
			cancel()
			c08swYield()
		}
		ob := c08swObs{At: now, Present: []int{}, Stopped: atomic.LoadInt32(&stopped) == 1}
		for i, d := range regs {
			if regManager.RegistrationExists(d) {
				ob.Present = append(ob.Present, i)
			}
		}
		res.Obs = append(res.Obs, ob)
	}
	return res
}

func TestVerifC08Sweeper(t *testing.T) {
	raw, err := os.ReadFile(os.Getenv("VERIF_CASES"))
	if err != nil {
		t.Skip("no cases")
	}
	var cases [][]c08swStep
	if err := json.Unmarshal(raw, &cases); err != nil {
		t.Fatal(err)
	}
	if !c08clockIsFake {
		t.Fatal("faketime build tag is not in effect")
	}
	t0 := time.Now()
	c08swYield()
	if time.Since(t0) != 0 {
		t.Fatalf("fake clock moved by itself (%v)", time.Since(t0))
	}
	res := make([]c08swRes, len(cases))
	for i, c := range cases {
		res[i] = c08swRun(c)
	}
	out, _ := json.Marshal(res)
	if err := os.WriteFile(os.Getenv("VERIF_OUT"), out, 0o644); err != nil {
		t.Fatal(err)
	}
}
