package lib

// Export shim for the C08 connection-lane driver in cmd/application (exists only in the go test
// -overlay as pkg/station/lib/zz_verif_c08_export.go; never in /repo).  Read-only views of the
// registry, the two detector publication hooks, and the timestamp shift that stands in for a
// clock step.  Contains no assertions about conjure.

import (
	"sync/atomic"
	"time"
)

// VerifC08Hooks replaces the two functions that publish New / Update messages to the detector.
func (regManager *RegistrationManager) VerifC08Hooks(onNew, onUpdate func(*DecoyRegistration)) {
	r := regManager.registeredDecoys
	r.m.Lock()
	defer r.m.Unlock()
	r.registerForDetector = onNew
	r.updateInDetector = onUpdate
}

// VerifC08Rec is what the registry holds for one registration.
type VerifC08Rec struct {
	Exists   bool
	Valid    bool
	RegCount int
	Status   int // -1 no timeout record, 0 unused, 1 used
	Tracked  *DecoyRegistration
}

func (regManager *RegistrationManager) VerifC08Look(d *DecoyRegistration) (rec VerifC08Rec) {
	r := regManager.registeredDecoys
	r.m.RLock()
	defer r.m.RUnlock()
	rec.Status = -1
	t, ok := r.transports[d.Transport]
	if !ok {
		return
	}
	if reg := r.registrationExists(d); reg != nil {
		rec.Exists, rec.Valid, rec.RegCount, rec.Tracked = true, reg.Valid, int(reg.regCount), reg
	}
	id := t.GetIdentifier(d)
	addr := d.PhantomIp.String()
	for _, to := range r.decoysTimeouts {
		if to.decoy == addr && to.identifier == id {
			rec.Status = int(to.status)
		}
	}
	return
}

// VerifC08Identifier is the identifier the registration's transport stores it under ("" if the
// transport is not enabled).
func (regManager *RegistrationManager) VerifC08Identifier(d *DecoyRegistration) string {
	r := regManager.registeredDecoys
	r.m.RLock()
	defer r.m.RUnlock()
	t, ok := r.transports[d.Transport]
	if !ok {
		return ""
	}
	return t.GetIdentifier(d)
}

// VerifC08Totals: TotalRegistrations, len(decoysTimeouts), len(decoys).
func (regManager *RegistrationManager) VerifC08Totals() (int, int, int) {
	r := regManager.registeredDecoys
	r.m.RLock()
	defer r.m.RUnlock()
	return r.totalRegistrations(), len(r.decoysTimeouts), len(r.decoys)
}

// VerifC08Shift moves every timeout record `by` into the past: `by` of time passes for the registry.
func (regManager *RegistrationManager) VerifC08Shift(by time.Duration) {
	r := regManager.registeredDecoys
	r.m.Lock()
	defer r.m.Unlock()
	for _, to := range r.decoysTimeouts {
		to.registrationTime = to.registrationTime.Add(-by)
	}
}

func (regManager *RegistrationManager) VerifC08Lifetimes() (time.Duration, time.Duration) {
	r := regManager.registeredDecoys
	return r.timeoutUnused, r.timeoutActive
}

// VerifC08Gauges: the manager's and the global active-registration gauges.
func (regManager *RegistrationManager) VerifC08Gauges() (int64, int64) {
	return atomic.LoadInt64(&regManager.RegistrationStats.activeRegistrations), atomic.LoadInt64(&Stat().activeRegistrations)
}
