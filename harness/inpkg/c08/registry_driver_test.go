package lib

// Correspondence driver for C08 (registration expiry).  Replays operation
// histories on the real RegisteredDecoys through the RegistrationManager
// entry points that the station uses, and records projected observables after
// every operation.  Contains no assertions about conjure.
//
// Time: built with the `faketime` tag (VERIF_C08_MODE=fake) the Go runtime's clock is
// frozen and only moves when the driver advances it (clock_fake_test.go), so every
// age is exact to the nanosecond.  Without the tag (VERIF_C08_MODE=shift) ages are
// realised by shifting DecoyTimeout.registrationTime in whole seconds, with half a
// second of slack around a sweep.

import (
	"crypto/sha256"
	"encoding/binary"
	"encoding/json"
	"fmt"
	"io"
	"net"
	"os"
	"sort"
	"sync/atomic"
	"testing"
	"time"

	"github.com/refraction-networking/conjure/pkg/core"
	"github.com/refraction-networking/conjure/pkg/station/log"
	"github.com/refraction-networking/conjure/pkg/transports/connecting/dtls"
	"github.com/refraction-networking/conjure/pkg/transports/wrapping/min"
	"github.com/refraction-networking/conjure/pkg/transports/wrapping/obfs4"
	"github.com/refraction-networking/conjure/pkg/transports/wrapping/prefix"
	pb "github.com/refraction-networking/conjure/proto"
)

type c08op struct {
	Op string `json:"op"` // track tracknx validate validate_stale active advance sweep lookup count
	S  int    `json:"s"`  // secret id
	T  int    `json:"t"`  // transport: 0 min 1 obfs4 2 prefix 3 dtls 4 (not enabled)
	P  int    `json:"p"`  // phantom id (even: IPv4, odd: IPv6)
	D  int64  `json:"d"`  // advance: seconds
	NS int64  `json:"ns"` // advance: additional nanoseconds (fake clock only)
}

type c08case struct {
	Ops      []c08op  `json:"ops"`
	Keys     [][3]int `json:"keys"`     // alphabet of (secret, transport, phantom) observed after every op
	Phantoms []int    `json:"phantoms"` // alphabet of phantoms
}

type c08obs struct {
	Err       bool     `json:"err"`        // the operation returned an error
	Ret       int      `json:"ret"`        // tracknx: 1 if it reported "already tracked"; count: the count
	Panic     string   `json:"panic"`      // recovered panic, if any
	Tracked   [][5]int `json:"tracked"`    // (s,t,p,valid,regCount) for every alphabet key for which RegistrationExists
	NewNotif  [][3]int `json:"new_notif"`  // registerForDetector calls made during the operation
	UpdNotif  [][3]int `json:"upd_notif"`  // updateInDetector calls made during the operation
	ExpValid  int64    `json:"exp_valid"`  // decrease of RegistrationStats.activeRegistrations during the operation
	StatDelta int64    `json:"stat_delta"` // decrease of Stat().activeRegistrations during the operation
	Matched   [][3]int `json:"matched"`    // (s,t,p) returned by GetRegistrations over the alphabet phantoms
	Counts    []int    `json:"counts"`     // CountRegistrations per alphabet phantom
	Total     int      `json:"total"`      // TotalRegistrations
	NTimeouts int      `json:"ntimeouts"`
	NPhantoms int      `json:"nphantoms"` // len(decoys): phantoms with an (inner) map
	UnknownID int      `json:"unknown_id"`
}

type c08res struct {
	Obs           []c08obs `json:"obs"`
	TimeoutUnused int64    `json:"timeout_unused_ns"`
	TimeoutActive int64    `json:"timeout_active_ns"`
	IDCollision   bool     `json:"id_collision"` // identifiers of the alphabet are not pairwise distinct (assumption check)
	Slow          bool     `json:"slow"`         // the case could not be run within the timing slack
	Tries         int      `json:"tries"`
}

var c08tt = []pb.TransportType{pb.TransportType_Min, pb.TransportType_Obfs4, pb.TransportType_Prefix, pb.TransportType_DTLS, pb.TransportType_Webrtc}

// secret ids >= 100 share their first 8 bytes (the logging id) pairwise: 100/101, 102/103, ...
func c08secret(s int) []byte {
	var b [8]byte
	binary.BigEndian.PutUint64(b[:], uint64(s))
	h := sha256.Sum256(append([]byte("verif-c08-secret"), b[:]...))
	if s >= 100 {
		binary.BigEndian.PutUint64(b[:], uint64(s/2*2))
		g := sha256.Sum256(append([]byte("verif-c08-prefix"), b[:]...))
		copy(h[:8], g[:8])
	}
	return h[:]
}

func c08phantom(p int) net.IP {
	if p%2 == 0 {
		return net.IPv4(192, 0, 2, byte(10+p)).To4()
	}
	return net.ParseIP(fmt.Sprintf("2001:db8::%x", 0x100+p))
}

func c08reg(s, t, p int) *DecoyRegistration {
	tt := c08tt[t]
	keys, _ := core.GenSharedKeys(4, c08secret(s), tt)
	src := pb.RegistrationSource_API
	return &DecoyRegistration{
		PhantomIp:          c08phantom(p),
		PhantomPort:        443,
		Keys:               &keys,
		Transport:          tt,
		RegistrationSource: &src,
		Covert:             "192.0.2.1:443",
	}
}

type c08notif struct{ newR, updR []*DecoyRegistration }

func c08manager(n *c08notif) *RegistrationManager {
	rd := NewRegisteredDecoys()
	rd.registerForDetector = func(d *DecoyRegistration) { n.newR = append(n.newR, d) }
	rd.updateInDetector = func(d *DecoyRegistration) { n.updR = append(n.updR, d) }
	rm := &RegistrationManager{
		RegConfig:         &RegConfig{},
		RegistrationStats: newRegistrationStats(),
		Logger:            log.New(io.Discard, "", 0),
		registeredDecoys:  rd,
	}
	_ = rm.AddTransport(pb.TransportType_Min, min.Transport{})
	_ = rm.AddTransport(pb.TransportType_Obfs4, obfs4.Transport{})
	_ = rm.AddTransport(pb.TransportType_Prefix, prefix.Transport{})
	_ = rm.AddTransport(pb.TransportType_DTLS, dtls.Transport{})
	return rm
}

const c08slack = 500 * time.Millisecond

func c08shift(rd *RegisteredDecoys, d time.Duration) {
	rd.m.Lock()
	for _, to := range rd.decoysTimeouts {
		to.registrationTime = to.registrationTime.Add(-d)
	}
	rd.m.Unlock()
}

func c08key(d *DecoyRegistration, c c08case) [3]int {
	for _, k := range c.Keys {
		if c08tt[k[1]] == d.Transport && d.PhantomIp.Equal(c08phantom(k[2])) && string(d.Keys.SharedSecret) == string(c08secret(k[0])) {
			return k
		}
	}
	return [3]int{-1, -1, -1}
}

func c08run(c c08case, fake bool) (res c08res) {
	var notif c08notif
	rm := c08manager(&notif)
	rd := rm.registeredDecoys
	res.TimeoutUnused = int64(rd.timeoutUnused)
	res.TimeoutActive = int64(rd.timeoutActive)

	// identifier -> (s,t) for the alphabet, per phantom string
	type st struct{ s, t int }
	ids := map[string]st{}
	for _, k := range c.Keys {
		if k[1] >= 4 {
			continue
		}
		tr := rd.transports[c08tt[k[1]]]
		id := tr.GetIdentifier(c08reg(k[0], k[1], k[2]))
		if prev, ok := ids[id]; ok && (prev.s != k[0] || prev.t != k[1]) {
			res.IDCollision = true
		}
		if id == "" {
			res.IDCollision = true
		}
		ids[id] = st{k[0], k[1]}
	}

	start := time.Now()
	for _, o := range c.Ops {
		var ob c08obs
		notif = c08notif{}
		act0 := atomic.LoadInt64(&rm.RegistrationStats.activeRegistrations)
		stat0 := atomic.LoadInt64(&Stat().activeRegistrations)
		func() {
			defer func() {
				if r := recover(); r != nil {
					ob.Panic = fmt.Sprint(r)
				}
			}()
			switch o.Op {
			case "track":
				ob.Err = rm.TrackRegistration(c08reg(o.S, o.T, o.P)) != nil
			case "tracknx":
				ex, err := rm.TrackRegIfNotExists(c08reg(o.S, o.T, o.P))
				ob.Err = err != nil
				if ex {
					ob.Ret = 1
				}
			case "validate":
				// the ingest that tracked the registration validates that same object
				d := c08reg(o.S, o.T, o.P)
				if tracked := rd.RegistrationExists(d); tracked != nil {
					d = tracked
				}
				rm.AddRegistration(d)
			case "validate_stale":
				// an ingest whose own object is not (or no longer) the tracked one
				rm.AddRegistration(c08reg(o.S, o.T, o.P))
			case "active":
				// the station passes the registration object its lookup returned
				d := c08reg(o.S, o.T, o.P)
				if tracked := rd.RegistrationExists(d); tracked != nil {
					d = tracked
				}
				rm.MarkActive(d)
			case "advance":
				if fake {
					c08clockAdvance(o.D*int64(time.Second) + o.NS)
				} else {
					c08shift(rd, time.Duration(o.D)*time.Second)
				}
			case "sweep":
				if fake {
					rm.RemoveOldRegistrations()
				} else {
					c08shift(rd, -c08slack)
					rm.RemoveOldRegistrations()
					c08shift(rd, c08slack)
				}
			case "lookup":
				ob.Ret = len(rm.GetRegistrations(c08phantom(o.P)))
			case "count":
				ob.Ret = rm.CountRegistrations(c08phantom(o.P))
			}
		}()
		func() {
			defer func() {
				if r := recover(); r != nil {
					ob.Panic += " observe:" + fmt.Sprint(r)
				}
			}()
			ob.ExpValid = act0 - atomic.LoadInt64(&rm.RegistrationStats.activeRegistrations)
			ob.StatDelta = stat0 - atomic.LoadInt64(&Stat().activeRegistrations)
			ob.NewNotif = [][3]int{}
			ob.UpdNotif = [][3]int{}
			for _, d := range notif.newR {
				ob.NewNotif = append(ob.NewNotif, c08key(d, c))
			}
			for _, d := range notif.updR {
				ob.UpdNotif = append(ob.UpdNotif, c08key(d, c))
			}
			ob.Tracked = [][5]int{}
			ob.Matched = [][3]int{}
			ob.Counts = []int{}
			for _, k := range c.Keys {
				if r := rm.registeredDecoys.RegistrationExists(c08reg(k[0], k[1], k[2])); r != nil {
					v := 0
					if r.Valid {
						v = 1
					}
					ob.Tracked = append(ob.Tracked, [5]int{k[0], k[1], k[2], v, int(r.regCount)})
				}
			}
			for _, p := range c.Phantoms {
				for id := range rm.GetRegistrations(c08phantom(p)) {
					if x, ok := ids[id]; ok {
						ob.Matched = append(ob.Matched, [3]int{x.s, x.t, p})
					} else {
						ob.UnknownID++
					}
				}
				ob.Counts = append(ob.Counts, rm.CountRegistrations(c08phantom(p)))
			}
			sort.Slice(ob.Matched, func(i, j int) bool {
				a, b := ob.Matched[i], ob.Matched[j]
				if a[0] != b[0] {
					return a[0] < b[0]
				}
				if a[1] != b[1] {
					return a[1] < b[1]
				}
				return a[2] < b[2]
			})
			ob.Total = rd.TotalRegistrations()
			rd.m.RLock()
			ob.NTimeouts = len(rd.decoysTimeouts)
			ob.NPhantoms = len(rd.decoys)
			rd.m.RUnlock()
		}()
		res.Obs = append(res.Obs, ob)
	}
	// real time that leaked into the ages; must stay well inside the slack
	res.Slow = !fake && time.Since(start) > c08slack/2
	return res
}

func TestVerifC08Registry(t *testing.T) {
	raw, err := os.ReadFile(os.Getenv("VERIF_CASES"))
	if err != nil {
		t.Skip("no cases")
	}
	var cases []c08case
	if err := json.Unmarshal(raw, &cases); err != nil {
		t.Fatal(err)
	}
	fake := os.Getenv("VERIF_C08_MODE") == "fake"
	if fake {
		// self-test of the fake clock: frozen while we compute, exact when advanced
		if !c08clockIsFake {
			t.Fatal("faketime build tag is not in effect")
		}
		t0 := time.Now()
		x := 0
		for i := 0; i < 2000000; i++ {
			x += i
		}
		if time.Since(t0) != 0 || x < 0 {
			t.Fatalf("fake clock moved by itself (%v)", time.Since(t0))
		}
		c08clockAdvance(12345)
		if time.Since(t0) != 12345 {
			t.Fatalf("fake clock advanced by %v instead of 12345ns", time.Since(t0))
		}
	}
	res := make([]c08res, len(cases))
	for i, c := range cases {
		for try := 1; try <= 6; try++ {
			res[i] = c08run(c, fake)
			res[i].Tries = try
			if !res[i].Slow {
				break
			}
		}
	}
	out, _ := json.Marshal(res)
	if err := os.WriteFile(os.Getenv("VERIF_OUT"), out, 0o644); err != nil {
		t.Fatal(err)
	}
}
