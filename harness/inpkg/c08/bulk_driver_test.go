package lib

// C08, bulk lane (scale): a large population of registrations is tracked and validated through the
// real RegistrationManager on the fake clock, some are marked active, time passes, a second (young)
// batch is tracked, time passes again, and ONE RemoveOldRegistrations() runs.  Records, per
// registration, whether it is still tracked / still matches a lookup on its phantom / still has a
// timeout record.  Contains no assertions about conjure.

import (
	"encoding/json"
	"os"
	"testing"
	"time"
)

type c08bulkCase struct {
	N     int   `json:"n"`     // first batch: secrets 0..n-1, transport min, phantom i % nph
	NPh   int   `json:"nph"`   // number of phantoms
	Used  []int `json:"used"`  // members of the first batch that carry a connection (MarkActive)
	Adv1  int64 `json:"adv1"`  // ns between the first batch and the young batch
	Young int   `json:"young"` // second batch: secrets n..n+young-1
	Adv2  int64 `json:"adv2"`  // ns between the young batch and the sweep
}

type c08bulkRes struct {
	Before     [3]int `json:"before"`      // TotalRegistrations, len(decoysTimeouts), number matching - before the sweep
	Tracked    []int  `json:"tracked"`     // ids for which RegistrationExists after the sweep
	Matching   []int  `json:"matching"`    // ids returned by GetRegistrations(phantom) after the sweep
	HasTimeout []int  `json:"has_timeout"` // ids with a timeout record after the sweep
	Total      int    `json:"total"`       // TotalRegistrations after the sweep
	NTimeouts  int    `json:"ntimeouts"`   // len(decoysTimeouts) after the sweep
	SweepMs    int64  `json:"sweep_ms"`    // real duration of the sweep (information)
	Panic      string `json:"panic"`
}

func c08bulkObserve(rm *RegistrationManager, regs []*DecoyRegistration, nph int) (tr, ma, to []int) {
	rd := rm.registeredDecoys
	tr, ma, to = []int{}, []int{}, []int{}
	byPh := make([]map[string]bool, nph)
	for p := 0; p < nph; p++ {
		byPh[p] = map[string]bool{}
		for id := range rm.GetRegistrations(c08phantom(p)) {
			byPh[p][id] = true
		}
	}
	rd.m.RLock()
	have := make(map[string]bool, len(rd.decoysTimeouts))
	for _, t := range rd.decoysTimeouts {
		have[t.decoy+"\x00"+t.identifier] = true
	}
	rd.m.RUnlock()
	tp := rd.transports[c08tt[0]]
	for i, d := range regs {
		if rd.RegistrationExists(d) != nil {
			tr = append(tr, i)
		}
		id := tp.GetIdentifier(d)
		if byPh[i%nph][id] {
			ma = append(ma, i)
		}
		if have[d.PhantomIp.String()+"\x00"+id] {
			to = append(to, i)
		}
	}
	return
}

func c08bulkRun(c c08bulkCase) (res c08bulkRes) {
	defer func() {
		if r := recover(); r != nil {
			res.Panic = "panic"
		}
	}()
	var notif c08notif
	rm := c08manager(&notif)
	rd := rm.registeredDecoys
	rd.registerForDetector = func(*DecoyRegistration) {}
	rd.updateInDetector = func(*DecoyRegistration) {}
	regs := make([]*DecoyRegistration, 0, c.N+c.Young)
	add := func(from, n int) {
		for i := from; i < from+n; i++ {
			d := c08reg(i, 0, i%c.NPh)
			_ = rm.TrackRegistration(d)
			rm.AddRegistration(d)
			regs = append(regs, d)
		}
	}
	add(0, c.N)
	for _, u := range c.Used {
		rm.MarkActive(regs[u])
	}
	c08clockAdvance(c.Adv1)
	add(c.N, c.Young)
	c08clockAdvance(c.Adv2)
	_, m0, _ := c08bulkObserve(rm, regs, c.NPh)
	rd.m.RLock()
	nto := len(rd.decoysTimeouts)
	rd.m.RUnlock()
	res.Before = [3]int{rd.TotalRegistrations(), nto, len(m0)}
	rm.RemoveOldRegistrations()
	res.Tracked, res.Matching, res.HasTimeout = c08bulkObserve(rm, regs, c.NPh)
	res.Total = rd.TotalRegistrations()
	rd.m.RLock()
	res.NTimeouts = len(rd.decoysTimeouts)
	rd.m.RUnlock()
	return res
}

func TestVerifC08Bulk(t *testing.T) {
	raw, err := os.ReadFile(os.Getenv("VERIF_CASES"))
	if err != nil {
		t.Skip("no cases")
	}
	var cases []c08bulkCase
	if err := json.Unmarshal(raw, &cases); err != nil {
		t.Fatal(err)
	}
	if !c08clockIsFake {
		t.Fatal("faketime build tag is not in effect")
	}
	t0 := time.Now()
	res := make([]c08bulkRes, len(cases))
	for i, c := range cases {
		res[i] = c08bulkRun(c)
	}
	if time.Since(t0) < 0 {
		t.Fatal("clock")
	}
	out, _ := json.Marshal(res)
	if err := os.WriteFile(os.Getenv("VERIF_OUT"), out, 0o644); err != nil {
		t.Fatal(err)
	}
}
