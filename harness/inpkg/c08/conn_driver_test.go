package main

// C08 connection lane: the `connect` events of a history come from the REAL connection handler.
//
// One RegistrationManager (NewRegistrationManager, real min and prefix transports) and one
// connManager per case.  A history is replayed event by event:
//   track / validate / validate_stale   registrations built the way ingest builds them (NewRegistration),
//                                        covert address = a loopback echo server of this driver
//   connect c (s,t,p)   a TCP peer dials a loopback listener, the accepted *net.TCPConn is handed to the real
//                       handleNewTCPConn with the registration's phantom address as original destination;
//                       the peer runs the real client transport (first flight) and sends a payload.
//                       "recognised" = the payload came back from the covert (the tunnel carries data).
//                       The connection then STAYS OPEN.
//   close c             the peer closes; the driver waits for the handler invocation to return
//   advance d           every timeout record is shifted d seconds into the past (real clock)
//   sweep               the real RemoveOldRegistrations
// After every event the registry is observed through the manager's entry points and the read-only
// shim (pkg/station/lib/zz_verif_c08_export.go, overlay).  Contains no assertions about conjure.

import (
	"context"
	"crypto/rand"
	"crypto/sha256"
	"encoding/binary"
	"encoding/json"
	"fmt"
	"io"
	"net"
	"os"
	"sort"
	"sync"
	"sync/atomic"
	"testing"
	"time"

	"github.com/refraction-networking/conjure/internal/conjurepath"
	"github.com/refraction-networking/conjure/pkg/core"
	cj "github.com/refraction-networking/conjure/pkg/station/lib"
	"github.com/refraction-networking/conjure/pkg/transports/wrapping/min"
	"github.com/refraction-networking/conjure/pkg/transports/wrapping/prefix"
	pb "github.com/refraction-networking/conjure/proto"
	"golang.org/x/crypto/curve25519"
	"google.golang.org/protobuf/proto"
	"google.golang.org/protobuf/types/known/anypb"
)

type c08cOp struct {
	Op string `json:"op"` // track validate validate_stale connect close advance sweep
	S  int    `json:"s"`
	T  int    `json:"t"` // 0 min, 2 prefix
	P  int    `json:"p"`
	C  int    `json:"c"` // connection id
	D  int64  `json:"d"` // advance: seconds
}

type c08cCase struct {
	Ops      []c08cOp `json:"ops"`
	Keys     [][3]int `json:"keys"`
	Phantoms []int    `json:"phantoms"`
}

type c08cObs struct {
	Err        bool     `json:"err"`
	Ret        int      `json:"ret"`
	Panic      string   `json:"panic"`
	Tracked    [][5]int `json:"tracked"`
	NewNotif   [][3]int `json:"new_notif"`
	UpdNotif   [][3]int `json:"upd_notif"`
	ExpValid   int64    `json:"exp_valid"`
	StatDelta  int64    `json:"stat_delta"`
	Matched    [][3]int `json:"matched"`
	Counts     []int    `json:"counts"`
	Total      int      `json:"total"`
	NTimeouts  int      `json:"ntimeouts"`
	NPhantoms  int      `json:"nphantoms"`
	UnknownID  int      `json:"unknown_id"`
	Recognised bool     `json:"recognised"` // connect: the payload came back through the tunnel
	Used       [][3]int `json:"used"`       // alphabet keys whose timeout record is marked used
	Open       int      `json:"open"`       // handler invocations that have not returned
	Note       string   `json:"note"`       // driver-side trouble (dial failed, handler did not return, ...)
}

type c08cRes struct {
	Obs           []c08cObs `json:"obs"`
	TimeoutUnused int64     `json:"timeout_unused_ns"`
	TimeoutActive int64     `json:"timeout_active_ns"`
	IDCollision   bool      `json:"id_collision"`
	Slow          bool      `json:"slow"`
	RealMs        int64     `json:"real_ms"`
	Err           string    `json:"err"`
}

type c08cGeo struct{}

func (c08cGeo) CC(net.IP) (string, error) { return "US", nil }
func (c08cGeo) ASN(net.IP) (uint, error)  { return 64500, nil }

func c08cSecret(s int) []byte {
	var b [8]byte
	binary.BigEndian.PutUint64(b[:], uint64(s))
	h := sha256.Sum256(append([]byte("verif-c08-conn-secret"), b[:]...))
	return h[:]
}

func c08cPhantom(p int) net.IP {
	if p%2 == 0 {
		return net.IPv4(192, 0, 2, byte(10+p)).To4()
	}
	return net.ParseIP(fmt.Sprintf("2001:db8::%x", 0x100+p))
}

func c08cTT(t int) pb.TransportType {
	if t == 2 {
		return pb.TransportType_Prefix
	}
	return pb.TransportType_Min
}

// the sweeps of concurrently running cases are serialised: the global Stat() gauge moves only there
var c08cSweepMu sync.Mutex

type c08cTunnel struct {
	cli  net.Conn
	done chan struct{} // the handler invocation returned
}

type c08cStation struct {
	rm      *cj.RegistrationManager
	cm      *connManager
	priv    [32]byte
	pub     [32]byte
	covert  string
	mu      sync.Mutex
	newR    []*cj.DecoyRegistration
	updR    []*cj.DecoyRegistration
	tunnels map[int]*c08cTunnel
	open    int32
	accepted *int32 // connections the covert echo server of this case has accepted
	ln      net.Listener // where the peers dial (stands for the station's port 41245)
}

func c08cNewStation(covert string) (*c08cStation, error) {
	s := &c08cStation{covert: covert, tunnels: map[int]*c08cTunnel{}}
	if _, err := rand.Read(s.priv[:]); err != nil {
		return nil, err
	}
	s.priv[0] &= 248
	s.priv[31] &= 127
	s.priv[31] |= 64
	curve25519.ScalarBaseMult(&s.pub, &s.priv)
	s.rm = cj.NewRegistrationManager(&cj.RegConfig{})
	if s.rm == nil {
		return nil, fmt.Errorf("NewRegistrationManager returned nil")
	}
	s.rm.GeoIP = c08cGeo{}
	s.rm.VerifC08Hooks(
		func(d *cj.DecoyRegistration) { s.mu.Lock(); s.newR = append(s.newR, d); s.mu.Unlock() },
		func(d *cj.DecoyRegistration) { s.mu.Lock(); s.updR = append(s.updR, d); s.mu.Unlock() })
	pt, err := prefix.Default([][32]byte{s.priv})
	if err != nil {
		return nil, err
	}
	if err := s.rm.AddTransport(pb.TransportType_Min, min.Transport{}); err != nil {
		return nil, err
	}
	if err := s.rm.AddTransport(pb.TransportType_Prefix, pt); err != nil {
		return nil, err
	}
	s.cm = newConnManager(nil)
	s.ln, err = net.Listen("tcp", "127.0.0.1:0")
	if err != nil {
		return nil, err
	}
	return s, nil
}

// the client side of a transport: parameters it registers with, and the wrapper that writes its first flight
func (s *c08cStation) client(t int, secret []byte) (proto.Message, func(net.Conn) (net.Conn, error), error) {
	tt := c08cTT(t)
	ckeys, err := core.GenSharedKeys(uint(core.CurrentClientLibraryVersion()), secret, tt)
	if err != nil {
		return nil, nil, err
	}
	if t == 2 {
		ct := &prefix.ClientTransport{}
		if err := ct.SetParams(&prefix.ClientParams{PrefixID: 0, RandomizeDstPort: false, FlushPolicy: 0}); err != nil {
			return nil, nil, err
		}
		ct.Prepare(context.Background(), nil)
		params, _ := ct.GetParams()
		if err := ct.PrepareKeys(s.pub, secret, ckeys.TransportReader); err != nil {
			return nil, nil, err
		}
		return params, ct.WrapConn, nil
	}
	ct := &min.ClientTransport{}
	ct.SetParams(&pb.GenericTransportParams{RandomizeDstPort: proto.Bool(false)})
	ct.Prepare(context.Background(), nil)
	params, _ := ct.GetParams()
	ct.PrepareKeys(s.pub, secret, ckeys.TransportReader)
	return params, ct.WrapConn, nil
}

// a registration object the way ingest builds it, on the given phantom
func (s *c08cStation) reg(k [3]int) (*cj.DecoyRegistration, error) {
	tt := c08cTT(k[1])
	secret := c08cSecret(k[0])
	libver := uint(core.CurrentClientLibraryVersion())
	keys, err := core.GenSharedKeys(libver, secret, tt)
	if err != nil {
		return nil, err
	}
	params, _, err := s.client(k[1], secret)
	if err != nil {
		return nil, err
	}
	v := uint32(libver)
	gen := uint32(1)
	src := pb.RegistrationSource_API
	c2s := &pb.ClientToStation{ClientLibVersion: &v, Transport: &tt, CovertAddress: &s.covert, DecoyListGeneration: &gen}
	if params != nil {
		p, err := anypb.New(params)
		if err != nil {
			return nil, err
		}
		c2s.TransportParams = p
	}
	d, err := s.rm.NewRegistration(c2s, &keys, false, &src)
	if err != nil {
		return nil, err
	}
	d.PhantomIp = c08cPhantom(k[2])
	return d, nil
}

const (
	c08cPayloadLen = 24
	c08cEchoWait   = 2 * time.Second         // how long a peer waits for its payload to come back ...
	c08cEchoMax    = 12 * time.Second        // ... at most, while there is evidence that the handler did match
	c08cReturnWait = 8 * time.Second         // how long the driver waits for a handler invocation to return
)

// connect: a TCP peer, the real handler on the accepted connection, the real client transport's flight
func (s *c08cStation) connect(o c08cOp, ob *c08cObs) {
	k := [3]int{o.S, o.T, o.P}
	_, wrap, err := s.client(o.T, c08cSecret(o.S))
	if err != nil {
		ob.Note = "client transport: " + err.Error()
		return
	}
	type acc struct {
		c   net.Conn
		err error
	}
	ach := make(chan acc, 1)
	go func() { c, err := s.ln.Accept(); ach <- acc{c, err} }()
	cli, err := net.DialTimeout("tcp", s.ln.Addr().String(), 5*time.Second)
	if err != nil {
		ob.Note = "dial: " + err.Error()
		return
	}
	a := <-ach
	if a.err != nil {
		cli.Close()
		ob.Note = "accept: " + a.err.Error()
		return
	}
	tun := &c08cTunnel{cli: cli, done: make(chan struct{})}
	atomic.AddInt32(&s.open, 1)
	go func() {
		defer close(tun.done)
		defer atomic.AddInt32(&s.open, -1)
		defer a.c.Close() // what handleNewConn defers
		defer func() { recover() }()
		s.cm.handleNewTCPConn(s.rm, a.c, c08cPhantom(k[2]))
	}()
	s.tunnels[o.C] = tun
	w, err := wrap(cli)
	if err != nil {
		ob.Note = "client wrap: " + err.Error()
		return
	}
	payload := make([]byte, c08cPayloadLen)
	rand.Read(payload)
	if _, err := w.Write(payload); err != nil {
		ob.Note = "client write: " + err.Error()
		return
	}
	// The peer waits for its payload to come back.  How long: c08cEchoWait, and - on a loaded machine - for as long as
	// there is evidence that the handler did match (the covert was dialled, or the registration's record or the Update
	// hook show the mark), up to c08cEchoMax.  The evidence only decides how long to wait, never the outcome.
	got := make([]byte, c08cPayloadLen)
	n := 0
	accepted0 := atomic.LoadInt32(s.accepted)
	probe, _ := s.reg(k)
	t0 := time.Now()
	for n < c08cPayloadLen {
		w.SetReadDeadline(time.Now().Add(c08cEchoWait / 4))
		m, err := w.Read(got[n:])
		n += m
		if err == nil {
			continue
		}
		if ne, ok := err.(net.Error); !ok || !ne.Timeout() {
			break
		}
		el := time.Since(t0)
		if el < c08cEchoWait {
			continue
		}
		s.mu.Lock()
		marked := len(s.updR) > 0
		s.mu.Unlock()
		if probe != nil && s.rm.VerifC08Look(probe).Status == 1 {
			marked = true
		}
		if el < c08cEchoMax && (marked || atomic.LoadInt32(s.accepted) > accepted0) {
			continue
		}
		break
	}
	w.SetReadDeadline(time.Time{})
	ob.Recognised = n == c08cPayloadLen && string(got) == string(payload)
	if !ob.Recognised {
		// nothing came back: this peer gives up; the handler sees the close and returns
		s.closeConn(o.C, ob)
	}
}

func (s *c08cStation) closeConn(c int, ob *c08cObs) {
	tun := s.tunnels[c]
	if tun == nil {
		return
	}
	delete(s.tunnels, c)
	tun.cli.Close()
	select {
	case <-tun.done:
	case <-time.After(c08cReturnWait):
		ob.Note += " handler did not return after the peer closed"
	}
}

func c08cEchoServer(accepted *int32) (net.Listener, error) {
	ln, err := net.Listen("tcp", "127.0.0.1:0")
	if err != nil {
		return nil, err
	}
	go func() {
		for {
			c, err := ln.Accept()
			if err != nil {
				return
			}
			atomic.AddInt32(accepted, 1)
			go func(c net.Conn) {
				defer c.Close()
				_, _ = io.Copy(c, c)
			}(c)
		}
	}()
	return ln, nil
}

func c08cRun(c c08cCase) (res c08cRes) {
	start := time.Now()
	var accepted int32
	echo, err := c08cEchoServer(&accepted)
	if err != nil {
		res.Err = "echo server: " + err.Error()
		return
	}
	defer echo.Close()
	covert := echo.Addr().String()
	defer func() {
		if r := recover(); r != nil {
			res.Err = fmt.Sprintf("panic: %v", r)
		}
		res.RealMs = time.Since(start).Milliseconds()
		res.Slow = time.Since(start) > 30*time.Second // the generator keeps ages 45 s away from a limit
	}()
	s, err := c08cNewStation(covert)
	if s != nil {
		s.accepted = &accepted
	}
	if err != nil {
		res.Err = "station: " + err.Error()
		return
	}
	defer s.ln.Close()
	defer func() {
		for id := range s.tunnels {
			var ob c08cObs
			s.closeConn(id, &ob)
		}
	}()
	tu, ta := s.rm.VerifC08Lifetimes()
	res.TimeoutUnused, res.TimeoutActive = int64(tu), int64(ta)

	// identifier -> (s,t) of the alphabet
	type st struct{ s, t int }
	ids := map[string]st{}
	probes := map[[3]int]*cj.DecoyRegistration{}
	for _, k := range c.Keys {
		d, err := s.reg(k)
		if err != nil {
			res.Err = "probe: " + err.Error()
			return
		}
		probes[k] = d
		id := s.rm.VerifC08Identifier(d)
		if prev, ok := ids[id]; (ok && (prev.s != k[0] || prev.t != k[1])) || id == "" {
			res.IDCollision = true
		}
		ids[id] = st{k[0], k[1]}
	}
	keyOf := func(d *cj.DecoyRegistration) [3]int {
		id := s.rm.VerifC08Identifier(d)
		for _, k := range c.Keys {
			if x, ok := ids[id]; ok && x.s == k[0] && x.t == k[1] && d.PhantomIp.Equal(c08cPhantom(k[2])) {
				return k
			}
		}
		return [3]int{-1, -1, -1}
	}

	for _, o := range c.Ops {
		var ob c08cObs
		s.mu.Lock()
		s.newR, s.updR = nil, nil
		s.mu.Unlock()
		k := [3]int{o.S, o.T, o.P}
		swept := o.Op == "sweep"
		if swept {
			c08cSweepMu.Lock()
		}
		act0, stat0 := s.rm.VerifC08Gauges()
		func() {
			defer func() {
				if r := recover(); r != nil {
					ob.Panic = fmt.Sprint(r)
				}
			}()
			switch o.Op {
			case "track":
				d, err := s.reg(k)
				if err != nil {
					ob.Note = err.Error()
					return
				}
				ob.Err = s.rm.TrackRegistration(d) != nil
			case "validate":
				d, err := s.reg(k)
				if err != nil {
					ob.Note = err.Error()
					return
				}
				if rec := s.rm.VerifC08Look(d); rec.Tracked != nil {
					d = rec.Tracked
				}
				s.rm.AddRegistration(d)
			case "validate_stale":
				d, err := s.reg(k)
				if err != nil {
					ob.Note = err.Error()
					return
				}
				s.rm.AddRegistration(d)
			case "connect":
				s.connect(o, &ob)
			case "close":
				s.closeConn(o.C, &ob)
			case "advance":
				s.rm.VerifC08Shift(time.Duration(o.D) * time.Second)
			case "sweep":
				s.rm.RemoveOldRegistrations()
			case "lookup":
				ob.Ret = len(s.rm.GetRegistrations(c08cPhantom(o.P)))
			case "count":
				ob.Ret = s.rm.CountRegistrations(c08cPhantom(o.P))
			}
		}()
		act1, stat1 := s.rm.VerifC08Gauges()
		if swept {
			c08cSweepMu.Unlock()
		}
		ob.ExpValid = act0 - act1
		if swept {
			// the global gauge is shared by the cases that run concurrently: it is read only around a sweep
			// (sweeps are serialised and nothing else in this driver moves it)
			ob.StatDelta = stat0 - stat1
		}
		ob.NewNotif, ob.UpdNotif = [][3]int{}, [][3]int{}
		s.mu.Lock()
		for _, d := range s.newR {
			ob.NewNotif = append(ob.NewNotif, keyOf(d))
		}
		for _, d := range s.updR {
			ob.UpdNotif = append(ob.UpdNotif, keyOf(d))
		}
		s.mu.Unlock()
		ob.Tracked, ob.Matched, ob.Used, ob.Counts = [][5]int{}, [][3]int{}, [][3]int{}, []int{}
		for _, k := range c.Keys {
			rec := s.rm.VerifC08Look(probes[k])
			if rec.Exists {
				v := 0
				if rec.Valid {
					v = 1
				}
				ob.Tracked = append(ob.Tracked, [5]int{k[0], k[1], k[2], v, rec.RegCount})
			}
			if rec.Status == 1 {
				ob.Used = append(ob.Used, k)
			}
		}
		for _, p := range c.Phantoms {
			for id := range s.rm.GetRegistrations(c08cPhantom(p)) {
				if x, ok := ids[id]; ok {
					ob.Matched = append(ob.Matched, [3]int{x.s, x.t, p})
				} else {
					ob.UnknownID++
				}
			}
			ob.Counts = append(ob.Counts, s.rm.CountRegistrations(c08cPhantom(p)))
		}
		sort.Slice(ob.Matched, func(i, j int) bool {
			a, b := ob.Matched[i], ob.Matched[j]
			if a[0] != b[0] {
				return a[0] < b[0]
			}
			if a[1] != b[1] {
				return a[1] < b[1]
			}
			return a[2] < b[2]
		})
		ob.Total, ob.NTimeouts, ob.NPhantoms = s.rm.VerifC08Totals()
		ob.Open = int(atomic.LoadInt32(&s.open))
		res.Obs = append(res.Obs, ob)
	}
	return res
}

func TestVerifC08Conn(t *testing.T) {
	raw, err := os.ReadFile(os.Getenv("VERIF_CASES"))
	if err != nil {
		t.Skip("no cases")
	}
	var cases []c08cCase
	if err := json.Unmarshal(raw, &cases); err != nil {
		t.Fatal(err)
	}
	os.Setenv("PHANTOM_SUBNET_LOCATION", conjurepath.Root+"/internal/test_assets/phantom_subnets.toml")
	stdout := os.Stdout
	if dn, err := os.OpenFile(os.DevNull, os.O_WRONLY, 0); err == nil {
		os.Stdout = dn // the handler logs every connection to os.Stdout
		defer func() { os.Stdout = stdout }()
	}
	res := make([]c08cRes, len(cases))
	var wg sync.WaitGroup
	sem := make(chan struct{}, 12)
	for i := range cases {
		wg.Add(1)
		sem <- struct{}{}
		go func(i int) {
			defer wg.Done()
			for try := 0; try < 3; try++ {
				res[i] = c08cRun(cases[i])
				if !res[i].Slow {
					break
				}
			}
			<-sem
		}(i)
	}
	wg.Wait()
	out, _ := json.Marshal(res)
	if err := os.WriteFile(os.Getenv("VERIF_OUT"), out, 0o644); err != nil {
		t.Fatal(err)
	}
}
