//go:build !faketime

package main

const c08clockIsFake = false

func c08clockAdvance(ns int64) { panic("fake clock not built in") }
