package lib

// Correspondence driver for C05 (relay fidelity and teardown).
//
// It runs the real halfPipe / Proxy on scripted, fault-injecting net.Conn
// values and records observables.  It contains no assertions about conjure.
//
// Modes
//   half   one halfPipe (direction "up" or "down") on two scripted conns
//   pair   two halfPipes (up + down) on the same two scripted conns, joined by
//          a WaitGroup exactly as Proxy does
//   proxy  the real Proxy(): scripted client conn, real loopback TCP covert
//   free   like pair but without the scheduler (goroutines run freely; used
//          with -race and for goroutine accounting)
//
// In half/pair mode every I/O call made by the code under test is gated by a
// controller that grants calls in the order given by the case's schedule
// (thread ids U, D = the two directions, Uc, Dc = their asynchronous source
// closers).  A schedule entry naming a thread that is not currently able to
// make a call is skipped, exactly as in the Coq model (C05/Model.v, `step`).

import (
	"encoding/hex"
	"encoding/json"
	"errors"
	"fmt"
	"io"
	"net"
	"os"
	"runtime"
	"strings"
	"sync"
	"sync/atomic"
	"syscall"
	"testing"
	"time"

	"github.com/refraction-networking/conjure/pkg/core"
	"github.com/refraction-networking/conjure/pkg/station/log"
	pb "github.com/refraction-networking/conjure/proto"
)

type c05Read struct {
	D string `json:"d"`
	E string `json:"e"`
}
type c05Write struct {
	N int    `json:"n"`
	E string `json:"e"`
}
type c05Thread struct {
	Reads  []c05Read  `json:"reads"`
	Writes []c05Write `json:"writes"`
	Dls    []string   `json:"dls"`
	CDst   string     `json:"cdst"`
	CSrc   string     `json:"csrc"`
	// the asynchronous Close(src) never returns (until the driver releases it after the measurements)
	CSrcBlocks bool `json:"csrc_blocks"`
}
type c05Case struct {
	Mode  string     `json:"mode"`
	Dir   string     `json:"dir"` // half mode: "up" | "down"
	Up    *c05Thread `json:"up"`
	Down  *c05Thread `json:"down"`
	Sched []string   `json:"sched"`
	// proxy mode
	Covert *c05Covert `json:"covert"`
}
type c05Covert struct {
	Send      []string `json:"send"`       // hex chunks the covert server writes
	CloseMode string   `json:"close_mode"` // "fin" | "rst" | "wait" (wait for the peer to close)
	ReadMax   int      `json:"read_max"`   // stop reading (and close) after this many bytes; <0 = unlimited
	NoListen  bool     `json:"no_listen"`  // dial must fail
}
type c05Counts struct {
	NR    int  `json:"nr"`    // Read calls made
	NW    int  `json:"nw"`    // Write calls made
	ND    int  `json:"nd"`    // SetDeadline calls made
	RI    int  `json:"ri"`    // read-script entries handed out (what the connection did, not what conjure did)
	WFail bool `json:"wfail"` // some Write returned an error or accepted fewer bytes than offered
}
type c05Res struct {
	Hang      bool      `json:"hang"`
	Panic     string    `json:"panic"`
	RecvA     string    `json:"recvA"` // bytes accepted by writes on A (client side conn)
	RecvB     string    `json:"recvB"` // bytes accepted by writes on B (covert side conn)
	BytesUp   int64     `json:"bytesUp"`
	BytesDown int64     `json:"bytesDown"`
	ClientErr string    `json:"clientErr"`
	CovertErr string    `json:"covertErr"`
	NCloseA   int       `json:"ncloseA"`
	NCloseB   int       `json:"ncloseB"`
	Up        c05Counts `json:"up"`
	Down      c05Counts `json:"down"`
	WgZero    bool      `json:"wgZero"`
	GLeak     int       `json:"gleak"`      // goroutines alive beyond the baseline and beyond closers blocked inside Close
	Blocked   int       `json:"blocked"`    // goroutines alive beyond the baseline once everything has returned
	GLeakAfter int      `json:"gleakAfter"` // ... and after the blocked Close calls were released
	Gauge0    int64     `json:"gauge0"`
	GaugeMid  int64     `json:"gaugeMid"`
	Gauge1    int64     `json:"gauge1"`
	Returned  bool      `json:"returned"`
	DialErr   string    `json:"dialErr"`
	CovertGot string    `json:"covertGot"` // proxy mode: bytes the covert server received
	// process-wide proxy statistics deltas
	DComplUp   int64 `json:"dComplUp"`
	DComplDown int64 `json:"dComplDown"`
	DSessions  int64 `json:"dSessions"`
}

var c05Other = []syscall.Errno{syscall.EINVAL, syscall.ENOBUFS, syscall.ENETUNREACH, syscall.ENOTCONN}

// c05MkErr builds errors of the shapes the network stack produces (OpError
// carrying both endpoints around a SyscallError / sentinel).
func c05MkErr(kind, op string) error {
	if kind == "" {
		return nil
	}
	src := &net.TCPAddr{IP: net.IPv4(192, 0, 2, 77), Port: 443}
	dst := &net.TCPAddr{IP: net.IPv4(203, 0, 113, 9), Port: 51234}
	wrap := func(e error) error { return &net.OpError{Op: op, Net: "tcp", Source: src, Addr: dst, Err: e} }
	sys := func(e syscall.Errno) error { return wrap(os.NewSyscallError(op, e)) }
	switch kind {
	case "eof":
		return io.EOF
	case "reset":
		return sys(syscall.ECONNRESET)
	case "pipe":
		return sys(syscall.EPIPE)
	case "timeout":
		return wrap(os.ErrDeadlineExceeded)
	case "closed":
		return wrap(net.ErrClosed)
	case "refused":
		return sys(syscall.ECONNREFUSED)
	case "aborted":
		return sys(syscall.ECONNABORTED)
	case "unreach":
		return sys(syscall.EHOSTUNREACH)
	}
	if strings.HasPrefix(kind, "other") {
		var i int
		fmt.Sscanf(kind, "other%d", &i)
		return sys(c05Other[i%len(c05Other)])
	}
	return errors.New("verif-unknown-kind-" + kind)
}

// c05ErrClass projects a statistics error string back to the kind alphabet.
func c05ErrClass(s string) string {
	switch s {
	case "":
		return ""
	case "rst":
		return "reset"
	case "timeout":
		return "timeout"
	case "refused":
		return "refused"
	case "aborted":
		return "aborted"
	case "unreachable":
		return "unreach"
	}
	if strings.Contains(s, io.ErrShortWrite.Error()) {
		return "short"
	}
	for i, e := range c05Other {
		if strings.Contains(s, e.Error()) {
			return fmt.Sprintf("other%d", i)
		}
	}
	return "unknown:" + s
}

// ---------------------------------------------------------------- controller

type c05Ctl struct {
	mu       sync.Mutex
	free     bool // no gating
	pending  map[string]chan struct{}
	pendOp   map[string]string
	finished map[string]bool
	notify   chan struct{}
}

func newC05Ctl(free bool) *c05Ctl {
	return &c05Ctl{free: free, pending: map[string]chan struct{}{}, pendOp: map[string]string{},
		finished: map[string]bool{}, notify: make(chan struct{}, 1024)}
}

func (c *c05Ctl) poke() {
	select {
	case c.notify <- struct{}{}:
	default:
	}
}

// enter blocks the calling thread until the controller grants its call.
func (c *c05Ctl) enter(tid, op string) {
	c.mu.Lock()
	if c.free {
		c.mu.Unlock()
		return
	}
	ch := make(chan struct{})
	c.pending[tid] = ch
	c.pendOp[tid] = op
	c.mu.Unlock()
	c.poke()
	<-ch
}

func (c *c05Ctl) finish(tid string) {
	c.mu.Lock()
	c.finished[tid] = true
	c.mu.Unlock()
	c.poke()
}

func (c *c05Ctl) release() { // abandon gating (after a hang): let everything run
	c.mu.Lock()
	c.free = true
	for t, ch := range c.pending {
		close(ch)
		delete(c.pending, t)
	}
	c.mu.Unlock()
}

// state returns "pending:<op>", "finished" or "" (running) for a thread.
func (c *c05Ctl) state(tid string) string {
	c.mu.Lock()
	defer c.mu.Unlock()
	if _, ok := c.pending[tid]; ok {
		return "pending:" + c.pendOp[tid]
	}
	if c.finished[tid] {
		return "finished"
	}
	return ""
}

func (c *c05Ctl) waitQuiescent(tid string, d time.Duration) (string, bool) {
	deadline := time.After(d)
	for {
		if s := c.state(tid); s != "" {
			return s, true
		}
		select {
		case <-c.notify:
		case <-time.After(2 * time.Millisecond):
		case <-deadline:
			return "", false
		}
	}
}

func (c *c05Ctl) grant(tid string) {
	c.mu.Lock()
	ch := c.pending[tid]
	delete(c.pending, tid)
	delete(c.pendOp, tid)
	c.mu.Unlock()
	if ch != nil {
		close(ch)
	}
}

// ---------------------------------------------------------------- scripted conns

type c05Core struct {
	mu     sync.Mutex
	name   string
	closed bool
	recv   []byte
	nclose int
}

type c05ThreadState struct {
	release chan struct{}
	entered chan struct{} // closed when the blocking Close(src) has marked the connection closing
	wfail  bool
	tid    string
	scr    *c05Thread
	ri     int
	wi     int
	di     int
	nr     int
	nw     int
	nd     int
	mu     sync.Mutex
	closed chan struct{}
}

// c05View is the net.Conn handed to halfPipe: one underlying connection as
// seen by one direction (so that calls can be attributed to a thread).
type c05View struct {
	core  *c05Core
	th    *c05ThreadState
	isSrc bool
	ctl   *c05Ctl
	addr  net.Addr
}

func (v *c05View) Read(b []byte) (int, error) {
	v.ctl.enter(v.th.tid, "read")
	v.core.mu.Lock()
	defer v.core.mu.Unlock()
	v.th.nr++
	if v.core.closed {
		return 0, c05MkErr("closed", "read")
	}
	if v.th.ri >= len(v.th.scr.Reads) {
		// the peer went silent: the deadline set by SetDeadline fires
		return 0, c05MkErr("timeout", "read")
	}
	r := v.th.scr.Reads[v.th.ri]
	v.th.ri++
	d, _ := hex.DecodeString(r.D)
	n := copy(b, d)
	return n, c05MkErr(r.E, "read")
}

func (v *c05View) Write(b []byte) (int, error) {
	v.ctl.enter(v.th.tid, "write")
	v.core.mu.Lock()
	defer v.core.mu.Unlock()
	v.th.nw++
	if v.core.closed {
		v.th.wfail = true
		return 0, c05MkErr("closed", "write")
	}
	n := len(b)
	var err error
	if v.th.wi < len(v.th.scr.Writes) {
		w := v.th.scr.Writes[v.th.wi]
		v.th.wi++
		if w.N < n {
			n = w.N
		}
		err = c05MkErr(w.E, "write")
	}
	if err != nil || n < len(b) {
		v.th.wfail = true
	}
	v.core.recv = append(v.core.recv, b[:n]...)
	return n, err
}

func (v *c05View) SetDeadline(t time.Time) error {
	v.ctl.enter(v.th.tid, "dl")
	v.core.mu.Lock()
	defer v.core.mu.Unlock()
	v.th.nd++
	if v.core.closed {
		return c05MkErr("closed", "set")
	}
	if v.th.di < len(v.th.scr.Dls) {
		k := v.th.scr.Dls[v.th.di]
		v.th.di++
		return c05MkErr(k, "set")
	}
	return nil
}

func (v *c05View) Close() error {
	tid := v.th.tid
	if v.isSrc {
		tid += "c" // the asynchronous source closer
	}
	v.ctl.enter(tid, "close")
	v.core.mu.Lock()
	defer v.core.mu.Unlock()
	v.core.nclose++
	if v.isSrc && v.th.scr.CSrcBlocks {
		// the connection is closing from now on, but this Close call does not return
		v.core.closed = true
		close(v.th.entered)
		v.core.mu.Unlock()
		<-v.th.release
		v.core.mu.Lock()
		return nil
	}
	if v.core.closed {
		return c05MkErr("closed", "close")
	}
	v.core.closed = true
	if v.isSrc {
		return c05MkErr(v.th.scr.CSrc, "close")
	}
	return c05MkErr(v.th.scr.CDst, "close")
}

func (v *c05View) LocalAddr() net.Addr                { return &net.TCPAddr{IP: net.IPv4(192, 0, 2, 77), Port: 443} }
func (v *c05View) RemoteAddr() net.Addr               { return &net.TCPAddr{IP: net.IPv4(203, 0, 113, 9), Port: 51234} }
func (v *c05View) SetReadDeadline(t time.Time) error  { return nil }
func (v *c05View) SetWriteDeadline(t time.Time) error { return nil }

func c05Goroutines() int {
	return runtime.NumGoroutine()
}

func c05WaitGoroutines(base int, d time.Duration) int {
	end := time.Now().Add(d)
	for {
		n := c05Goroutines()
		if n <= base || time.Now().After(end) {
			return n - base
		}
		time.Sleep(time.Millisecond)
	}
}

type c05Discard struct{}

func (c05Discard) Write(p []byte) (int, error) { return len(p), nil }

type c05Buf struct {
	mu sync.Mutex
	b  []byte
}

func (w *c05Buf) Write(p []byte) (int, error) {
	w.mu.Lock()
	defer w.mu.Unlock()
	w.b = append(w.b, p...)
	return len(p), nil
}
func (w *c05Buf) String() string {
	w.mu.Lock()
	defer w.mu.Unlock()
	return string(w.b)
}

// ---------------------------------------------------------------- half / pair / free

func c05RunScripted(c c05Case) (res c05Res) {
	free := c.Mode == "free"
	ctl := newC05Ctl(free)
	A := &c05Core{name: "A"}
	B := &c05Core{name: "B"}
	logger := log.New(c05Discard{}, "", 0)
	stats := &tunnelStats{proxyStats: getProxyStats()}
	ps := getProxyStats()
	cu0, cd0, s0 := atomic.LoadInt64(&ps.completeBytesUp), atomic.LoadInt64(&ps.completeBytesDown), atomic.LoadInt64(&ps.completedSessions)
	var wg sync.WaitGroup
	var up, down *c05ThreadState
	runUp := c.Up != nil && (c.Mode != "half" || c.Dir == "up")
	runDown := c.Down != nil && (c.Mode != "half" || c.Dir == "down")
	base := c05Goroutines()
	var pmu sync.Mutex
	start := func(th *c05ThreadState, src, dst *c05Core, tag string) {
		wg.Add(1)
		sv := &c05View{core: src, th: th, isSrc: true, ctl: ctl}
		dv := &c05View{core: dst, th: th, isSrc: false, ctl: ctl}
		go func() {
			defer ctl.finish(th.tid)
			defer func() {
				if r := recover(); r != nil {
					pmu.Lock()
					res.Panic = fmt.Sprint(r)
					pmu.Unlock()
				}
			}()
			halfPipe(sv, dv, &wg, logger, tag, stats)
		}()
	}
	tids := []string{}
	if runUp {
		up = &c05ThreadState{tid: "U", scr: c.Up, release: make(chan struct{}), entered: make(chan struct{})}
		tids = append(tids, "U")
	}
	if runDown {
		down = &c05ThreadState{tid: "D", scr: c.Down, release: make(chan struct{}), entered: make(chan struct{})}
		tids = append(tids, "D")
	}
	if runUp {
		start(up, A, B, "Up 0123456789abcdef")
	}
	if runDown {
		start(down, B, A, "Down 0123456789abcdef")
	}
	wgDone := make(chan struct{})
	go func() { wg.Wait(); close(wgDone) }()

	const step = 10 * time.Second
	hang := false
	closerSpawned := func(main string) bool {
		s := ctl.state(main)
		return s == "pending:close" || s == "finished"
	}
	closerGone := map[string]bool{}
	closerBlocked := 0
	blocks := func(t string) bool {
		if t == "Uc" {
			return up != nil && up.scr.CSrcBlocks
		}
		return down != nil && down.scr.CSrcBlocks
	}
	// settle waits until the number of live goroutines is what the thread states imply, i.e. every
	// goroutine that has been let past its last call has really ended (its writes to the shared
	// statistics are done) before the next call is granted.
	expected := func() int {
		exp := base
		alive := 0
		for _, m := range tids {
			if ctl.state(m) != "finished" {
				alive++
			}
			if closerSpawned(m) && !closerGone[m+"c"] {
				exp++
			}
		}
		exp += alive + closerBlocked
		if alive > 0 {
			exp++ // the WaitGroup waiter
		}
		return exp
	}
	settle := func() {
		end := time.Now().Add(3 * time.Second)
		for c05Goroutines() > expected() && time.Now().Before(end) {
			time.Sleep(20 * time.Microsecond)
		}
	}
	// one scheduler step for thread id t; returns false on a hang
	doStep := func(t string) bool {
		main := strings.TrimSuffix(t, "c")
		if (main == "U" && !runUp) || (main == "D" && !runDown) {
			return true
		}
		if _, ok := ctl.waitQuiescent(main, step); !ok {
			return false
		}
		if t != main { // closer
			if !closerSpawned(main) || closerGone[t] {
				return true
			}
			// The closer goroutine exists from the moment the direction reached its teardown (the go
			// statement has run), even if it has not been scheduled yet: the goroutine count tells.
			deadline := time.Now().Add(step)
			low := 0
			for ctl.state(t) == "" {
				if c05Goroutines() < expected() {
					low++
				} else {
					low = 0
				}
				if low >= 20 {
					// no source closer was ever started.  Not a hang; the connection stays unclosed.
					closerGone[t] = true
					ctl.finish(t)
					return true
				}
				if time.Now().After(deadline) {
					return false
				}
				time.Sleep(100 * time.Microsecond)
			}
			ctl.grant(t)
			ctl.finish(t)
			closerGone[t] = true
			if blocks(t) {
				closerBlocked++ // stays inside Close
				th := up
				if t == "Dc" {
					th = down
				}
				select {
				case <-th.entered:
				case <-time.After(step):
					return false
				}
			}
			settle()
			return true
		}
		if ctl.state(main) == "finished" {
			return true
		}
		ctl.grant(main)
		// run this thread until it is again waiting for a grant (or has returned)
		if _, ok := ctl.waitQuiescent(main, step); !ok {
			return false
		}
		settle()
		return true
	}
	if !free {
		for _, t := range c.Sched {
			if !doStep(t) {
				hang = true
				break
			}
		}
		// completion: round robin until everything has finished
		all := []string{}
		for _, t := range tids {
			all = append(all, t)
		}
		for _, t := range tids {
			all = append(all, t+"c")
		}
		for rounds := 0; !hang && rounds < 100000; rounds++ {
			done := true
			for _, t := range all {
				if ctl.state(t) != "finished" {
					done = false
				}
			}
			if done {
				break
			}
			for _, t := range all {
				if !doStep(t) {
					hang = true
					break
				}
			}
		}
	}
	select {
	case <-wgDone:
		res.WgZero = true
	case <-time.After(step):
		hang = true
	}
	if hang {
		ctl.release()
		select {
		case <-wgDone:
		case <-time.After(step):
		}
	}
	res.Hang = hang
	nblk := 0
	if up != nil && up.scr.CSrcBlocks {
		nblk++
	}
	if down != nil && down.scr.CSrcBlocks {
		nblk++
	}
	// what is left once both directions have returned: exactly the closers inside a blocking Close
	res.GLeak = c05WaitGoroutines(base+nblk, 2*time.Second)
	res.Blocked = c05Goroutines() - base
	if up != nil {
		close(up.release)
	}
	if down != nil {
		close(down.release)
	}
	res.GLeakAfter = c05WaitGoroutines(base, 2*time.Second)
	A.mu.Lock()
	B.mu.Lock()
	res.RecvA = hex.EncodeToString(A.recv)
	res.RecvB = hex.EncodeToString(B.recv)
	res.NCloseA, res.NCloseB = A.nclose, B.nclose
	if up != nil {
		res.Up = c05Counts{up.nr, up.nw, up.nd, up.ri, up.wfail}
	}
	if down != nil {
		res.Down = c05Counts{down.nr, down.nw, down.nd, down.ri, down.wfail}
	}
	B.mu.Unlock()
	A.mu.Unlock()
	res.BytesUp = atomic.LoadInt64(&stats.BytesUp)
	res.BytesDown = atomic.LoadInt64(&stats.BytesDown)
	if !hang {
		// read the error strings the way Proxy does: through the tunnel summary
		sb := &c05Buf{}
		stats.Print(log.New(sb, "", 0))
		var ts struct{ ClientConnErr, CovertConnErr string }
		txt := sb.String()
		if i := strings.Index(txt, "{"); i >= 0 {
			json.Unmarshal([]byte(strings.TrimSpace(txt[i:])), &ts)
		}
		res.ClientErr = c05ErrClass(ts.ClientConnErr)
		res.CovertErr = c05ErrClass(ts.CovertConnErr)
	}
	res.DComplUp = atomic.LoadInt64(&ps.completeBytesUp) - cu0
	res.DComplDown = atomic.LoadInt64(&ps.completeBytesDown) - cd0
	res.DSessions = atomic.LoadInt64(&ps.completedSessions) - s0
	return res
}

// ---------------------------------------------------------------- real Proxy()

// c05FreeConn is a free-running scripted client connection for Proxy():
// reads follow the script, then block until Close or the deadline.
type c05FreeConn struct {
	mu       sync.Mutex
	scr      *c05Thread
	ri, wi   int
	recv     []byte
	nclose   int
	closed   bool
	closedCh chan struct{}
	deadline time.Time
	nr, nw   int
	mid      int64
}

func (f *c05FreeConn) Read(b []byte) (int, error) {
	f.mu.Lock()
	f.nr++
	if f.nr == 1 {
		f.mid = atomic.LoadInt64(&getProxyStats().sessionsProxying)
	}
	if f.closed {
		f.mu.Unlock()
		return 0, c05MkErr("closed", "read")
	}
	if f.ri < len(f.scr.Reads) {
		r := f.scr.Reads[f.ri]
		f.ri++
		f.mu.Unlock()
		d, _ := hex.DecodeString(r.D)
		n := copy(b, d)
		return n, c05MkErr(r.E, "read")
	}
	f.mu.Unlock()
	// silent peer: wait for Close (deadlines are 30 s / 2 min — far beyond a test run)
	select {
	case <-f.closedCh:
		return 0, c05MkErr("closed", "read")
	case <-time.After(20 * time.Second):
		return 0, c05MkErr("timeout", "read")
	}
}

func (f *c05FreeConn) Write(b []byte) (int, error) {
	f.mu.Lock()
	defer f.mu.Unlock()
	f.nw++
	if f.closed {
		return 0, c05MkErr("closed", "write")
	}
	n := len(b)
	var err error
	if f.wi < len(f.scr.Writes) {
		w := f.scr.Writes[f.wi]
		f.wi++
		if w.N < n {
			n = w.N
		}
		err = c05MkErr(w.E, "write")
	}
	f.recv = append(f.recv, b[:n]...)
	return n, err
}

func (f *c05FreeConn) Close() error {
	f.mu.Lock()
	defer f.mu.Unlock()
	f.nclose++
	if f.closed {
		return c05MkErr("closed", "close")
	}
	f.closed = true
	close(f.closedCh)
	return c05MkErr(f.scr.CSrc, "close")
}
func (f *c05FreeConn) SetDeadline(t time.Time) error      { return nil }
func (f *c05FreeConn) SetReadDeadline(t time.Time) error  { return nil }
func (f *c05FreeConn) SetWriteDeadline(t time.Time) error { return nil }
func (f *c05FreeConn) LocalAddr() net.Addr                { return &net.TCPAddr{IP: net.IPv4(192, 0, 2, 77), Port: 443} }
func (f *c05FreeConn) RemoteAddr() net.Addr               { return &net.TCPAddr{IP: net.IPv4(203, 0, 113, 9), Port: 51234} }

func c05RunProxy(c c05Case) (res c05Res) {
	cov := c.Covert
	if cov == nil {
		cov = &c05Covert{CloseMode: "wait", ReadMax: -1}
	}
	ps := getProxyStats()
	var covertGot []byte
	var cmu sync.Mutex
	srvDone := make(chan struct{})
	addr := "127.0.0.1:1" // nothing listens on port 1
	var ln net.Listener
	base := c05Goroutines()
	if !cov.NoListen {
		var err error
		ln, err = net.Listen("tcp", "127.0.0.1:0")
		if err != nil {
			res.Panic = "listen: " + err.Error()
			return
		}
		addr = ln.Addr().String()
		go func() {
			defer close(srvDone)
			conn, err := ln.Accept()
			if err != nil {
				return
			}
			defer conn.Close()
			for _, h := range cov.Send {
				d, _ := hex.DecodeString(h)
				conn.Write(d)
			}
			buf := make([]byte, 4096)
			for {
				if cov.ReadMax >= 0 {
					cmu.Lock()
					n := len(covertGot)
					cmu.Unlock()
					if n >= cov.ReadMax {
						break
					}
				}
				conn.SetReadDeadline(time.Now().Add(10 * time.Second))
				n, err := conn.Read(buf)
				cmu.Lock()
				covertGot = append(covertGot, buf[:n]...)
				cmu.Unlock()
				if err != nil {
					break
				}
			}
			if cov.CloseMode == "rst" {
				conn.(*net.TCPConn).SetLinger(0)
			}
		}()
	} else {
		close(srvDone)
	}
	var tr Transport = &mockTransport{}
	reg := &DecoyRegistration{
		PhantomIp:          net.ParseIP("192.0.2.77"),
		PhantomPort:        443,
		Covert:             addr,
		Keys:               &core.ConjureSharedKeys{SharedSecret: []byte("0123456789abcdef0123456789abcdef")},
		Flags:              &pb.RegistrationFlags{},
		TransportPtr:       &tr,
		RegistrationSource: pb.RegistrationSource_API.Enum(),
	}
	client := &c05FreeConn{scr: c.Up, closedCh: make(chan struct{}), mid: -1}
	lbuf := &c05Buf{}
	logger := log.New(lbuf, "", 0)
	res.Gauge0 = atomic.LoadInt64(&ps.sessionsProxying)
	ret := make(chan string, 1)
	go func() {
		defer func() {
			if r := recover(); r != nil {
				ret <- fmt.Sprint(r)
				return
			}
			ret <- ""
		}()
		Proxy(reg, client, logger)
	}()
	select {
	case p := <-ret:
		res.Returned = true
		res.Panic = p
	case <-time.After(15 * time.Second):
		res.Hang = true
	}
	res.Gauge1 = atomic.LoadInt64(&ps.sessionsProxying)
	// the tunnel summary tells whether the dial itself failed (then nothing is relayed)
	if txt := lbuf.String(); strings.Contains(txt, "proxy closed ") {
		var ts struct{ CovertDialErr string }
		js := txt[strings.Index(txt, "proxy closed ")+len("proxy closed "):]
		if i := strings.IndexByte(js, '\n'); i >= 0 {
			js = js[:i]
		}
		if json.Unmarshal([]byte(js), &ts) == nil {
			res.DialErr = ts.CovertDialErr
		}
	}
	if ln != nil {
		ln.Close()
	}
	select {
	case <-srvDone:
	case <-time.After(12 * time.Second):
	}
	// the handler that calls Proxy closes the client connection afterwards (deferred in handleNewConn)
	client.mu.Lock()
	res.NCloseA = client.nclose
	res.RecvA = hex.EncodeToString(client.recv)
	res.Up = c05Counts{client.nr, client.nw, 0, client.ri, false}
	res.GaugeMid = client.mid
	client.mu.Unlock()
	cmu.Lock()
	res.CovertGot = hex.EncodeToString(covertGot)
	cmu.Unlock()
	// base+0: the server goroutine has ended; allow the asynchronous closers to finish
	res.GLeak = c05WaitGoroutines(base, 3*time.Second)
	return res
}

func TestVerifC05(t *testing.T) {
	raw, err := os.ReadFile(os.Getenv("VERIF_CASES"))
	if err != nil {
		t.Skip("no cases")
	}
	var cases []c05Case
	if err := json.Unmarshal(raw, &cases); err != nil {
		t.Fatal(err)
	}
	Stat() // start the statistics tickers before any goroutine baseline is taken
	getProxyStats()
	time.Sleep(20 * time.Millisecond)
	res := make([]c05Res, len(cases))
	hangs := 0
	for i, c := range cases {
		if hangs >= 4 {
			// the code under test hangs systematically: do not spend the timeout on every case
			res[i] = c05Res{Hang: true, Panic: ""}
			continue
		}
		switch c.Mode {
		case "proxy":
			res[i] = c05RunProxy(c)
		default:
			res[i] = c05RunScripted(c)
		}
		if res[i].Hang {
			hangs++
		}
	}
	out, _ := json.Marshal(res)
	if err := os.WriteFile(os.Getenv("VERIF_OUT"), out, 0o644); err != nil {
		t.Fatal(err)
	}
}
