package lib

// C05 real-TCP lane: the real Proxy() with *net.TCPConn on BOTH sides (loopback listener pairs),
// driven with the faults real sockets produce: peer half-close, full close, RST, and a peer that
// stops reading so that the relay's Write blocks on a full window.  All cases run in parallel.
// No assertions about conjure: it records whether / when Proxy returned, what each peer saw, the
// bytes relayed, and (for the lane as a whole) the goroutine delta and the session gauge.

import (
	"encoding/json"
	"errors"
	"io"
	"net"
	"os"
	"sync"
	"sync/atomic"
	"syscall"
	"testing"
	"time"

	"github.com/refraction-networking/conjure/pkg/core"
	"github.com/refraction-networking/conjure/pkg/station/log"
	pb "github.com/refraction-networking/conjure/proto"
)

type c05Peer struct {
	Send    int    `json:"send"`     // bytes this peer writes (pattern), possibly blocking
	Read    string `json:"read"`     // drain | none
	End     string `json:"end"`      // closewrite | close | rst | wait
	DelayMs int    `json:"delay_ms"` // before the end action (after the send has been handed to the kernel or has blocked)
}
type c05TCPCase struct {
	Name    string  `json:"name"`
	Client  c05Peer `json:"client"`
	Covert  c05Peer `json:"covert"`
	BoundMs int     `json:"bound_ms"`
}
type c05PeerObs struct {
	Got       int    `json:"got"`       // bytes read
	GotOK     bool   `json:"gotOK"`     // they continue the other side's pattern from its start
	Sent      int    `json:"sent"`      // bytes the kernel accepted
	SawClose  string `json:"sawClose"`  // how this peer's read side ended: eof | reset | other:<..> | "" (never within the bound)
	WriteDead bool   `json:"writeDead"` // a write after the relay ended failed (the station's socket is fully closed)
}
type c05TCPRes struct {
	Name       string     `json:"name"`
	Returned   bool       `json:"returned"`
	ReturnedMs int64      `json:"returnedMs"`
	Panic      string     `json:"panic"`
	Client     c05PeerObs `json:"client"`
	Covert     c05PeerObs `json:"covert"`
	ClientKind string     `json:"clientKind"` // dynamic type of the connection Proxy was given
	DialErr    string     `json:"dialErr"`
}
type c05TCPOut struct {
	Cases      []c05TCPRes `json:"cases"`
	Gauge0     int64       `json:"gauge0"`
	Gauge1     int64       `json:"gauge1"`
	GLeak      int         `json:"gleak"`      // goroutines alive beyond the baseline after every case ended (after the linger bound)
	GLeakEarly int         `json:"gleakEarly"` // ... 1 s after the last Proxy returned (closers may still sit in a lingering Close)
}

func c05Pat(off, n int) []byte {
	b := make([]byte, n)
	for i := range b {
		b[i] = byte((off+i)*7 + 3)
	}
	return b
}

func c05SmallBuf(c net.Conn) {
	if t, ok := c.(*net.TCPConn); ok {
		t.SetReadBuffer(4096)
		t.SetWriteBuffer(4096)
	}
}

// runPeer plays one remote endpoint; done is closed when the relay has ended (Proxy returned or the bound passed)
func c05RunPeer(c *net.TCPConn, p c05Peer, relayEnded <-chan struct{}, obs *c05PeerObs, wg *sync.WaitGroup) {
	defer wg.Done()
	var mu sync.Mutex
	readDone := make(chan struct{})
	reader := func() {
		defer close(readDone)
		buf := make([]byte, 32*1024)
		ok := true
		for {
			n, err := c.Read(buf)
			mu.Lock()
			for i := 0; i < n; i++ {
				if buf[i] != byte((obs.Got+i)*7+3) {
					ok = false
				}
			}
			obs.Got += n
			obs.GotOK = ok
			mu.Unlock()
			if err != nil {
				mu.Lock()
				switch {
				case errors.Is(err, io.EOF):
					obs.SawClose = "eof"
				case errors.Is(err, syscall.ECONNRESET):
					obs.SawClose = "reset"
				case errors.Is(err, os.ErrDeadlineExceeded):
					obs.SawClose = ""
				case errors.Is(err, net.ErrClosed):
					obs.SawClose = "self-closed"
				default:
					obs.SawClose = "other:" + err.Error()
				}
				mu.Unlock()
				return
			}
		}
	}
	obs.GotOK = true
	if p.Read == "drain" {
		go reader()
	}
	// writer
	sendDone := make(chan struct{})
	go func() {
		defer close(sendDone)
		off := 0
		for off < p.Send {
			n := p.Send - off
			if n > 16384 {
				n = 16384
			}
			c.SetWriteDeadline(time.Now().Add(20 * time.Second))
			w, err := c.Write(c05Pat(off, n))
			off += w
			mu.Lock()
			obs.Sent = off
			mu.Unlock()
			if err != nil {
				return
			}
		}
	}()
	// the end action comes after the send finished or has been stuck for the delay
	select {
	case <-sendDone:
	case <-time.After(400 * time.Millisecond):
	}
	time.Sleep(time.Duration(p.DelayMs) * time.Millisecond)
	switch p.End {
	case "closewrite":
		c.CloseWrite()
	case "close":
		c.Close()
	case "rst":
		c.SetLinger(0)
		c.Close()
	}
	<-relayEnded
	if p.End == "close" || p.End == "rst" {
		mu.Lock()
		if obs.SawClose == "" {
			obs.SawClose = "self-closed"
		}
		mu.Unlock()
		return
	}
	// what does this peer see now?  read whatever is buffered until EOF / reset (3 s)
	if p.Read != "drain" {
		c.SetReadDeadline(time.Now().Add(3 * time.Second))
		reader()
	} else {
		select {
		case <-readDone:
		case <-time.After(3 * time.Second):
			c.SetReadDeadline(time.Now())
			<-readDone
		}
	}
	// and is the station's socket gone for writing too?
	if p.End != "closewrite" {
		c.SetWriteDeadline(time.Now().Add(time.Second))
		for i := 0; i < 3; i++ {
			if _, err := c.Write([]byte{1}); err != nil {
				mu.Lock()
				obs.WriteDead = true
				mu.Unlock()
				break
			}
			time.Sleep(50 * time.Millisecond)
		}
	}
	c.Close()
}

func c05RunTCPCase(c c05TCPCase) (res c05TCPRes) {
	res.Name = c.Name
	l1, err := net.Listen("tcp", "127.0.0.1:0")
	if err != nil {
		res.Panic = "listen: " + err.Error()
		return
	}
	defer l1.Close()
	l2, err := net.Listen("tcp", "127.0.0.1:0")
	if err != nil {
		res.Panic = "listen: " + err.Error()
		return
	}
	defer l2.Close()
	relayEnded := make(chan struct{})
	var pw sync.WaitGroup
	// client peer dials the "station"
	cp, err := net.Dial("tcp", l1.Addr().String())
	if err != nil {
		res.Panic = "dial: " + err.Error()
		return
	}
	c05SmallBuf(cp)
	stationClient, err := l1.Accept()
	if err != nil {
		res.Panic = "accept: " + err.Error()
		return
	}
	c05SmallBuf(stationClient)
	if _, ok := stationClient.(*net.TCPConn); ok {
		res.ClientKind = "tcp"
	} else {
		res.ClientKind = "other"
	}
	pw.Add(1)
	go c05RunPeer(cp.(*net.TCPConn), c.Client, relayEnded, &res.Client, &pw)
	// covert peer: accepts what Proxy dials
	pw.Add(1)
	go func() {
		l2.(*net.TCPListener).SetDeadline(time.Now().Add(10 * time.Second))
		cc, err := l2.Accept()
		if err != nil {
			pw.Done()
			return
		}
		c05SmallBuf(cc)
		c05RunPeer(cc.(*net.TCPConn), c.Covert, relayEnded, &res.Covert, &pw)
	}()
	var tr Transport = &mockTransport{}
	reg := &DecoyRegistration{
		PhantomIp: net.ParseIP("192.0.2.77"), PhantomPort: 443, Covert: l2.Addr().String(),
		Keys:  &core.ConjureSharedKeys{SharedSecret: []byte("0123456789abcdef0123456789abcdef")},
		Flags: &pb.RegistrationFlags{}, TransportPtr: &tr, RegistrationSource: pb.RegistrationSource_API.Enum(),
	}
	lbuf := &c05Buf{}
	logger := log.New(lbuf, "", 0)
	ret := make(chan string, 1)
	t0 := time.Now()
	go func() {
		defer func() {
			if r := recover(); r != nil {
				ret <- "panic"
				return
			}
			ret <- ""
		}()
		Proxy(reg, stationClient, logger)
		stationClient.Close() // the handler's deferred Close
	}()
	bound := time.Duration(c.BoundMs) * time.Millisecond
	select {
	case p := <-ret:
		res.Returned = true
		res.Panic = p
		res.ReturnedMs = time.Since(t0).Milliseconds()
	case <-time.After(bound):
		res.ReturnedMs = -1
	}
	close(relayEnded)
	pw.Wait()
	if !res.Returned {
		// do not leave the relay running into the other cases' measurements
		stationClient.Close()
		select {
		case <-ret:
		case <-time.After(5 * time.Second):
		}
	}
	return res
}

func TestVerifC05TCP(t *testing.T) {
	raw, err := os.ReadFile(os.Getenv("VERIF_CASES"))
	if err != nil {
		t.Skip("no cases")
	}
	var cases []c05TCPCase
	if err := json.Unmarshal(raw, &cases); err != nil {
		t.Fatal(err)
	}
	Stat()
	ps := getProxyStats()
	time.Sleep(20 * time.Millisecond)
	var out c05TCPOut
	out.Cases = make([]c05TCPRes, len(cases))
	base := c05Goroutines()
	out.Gauge0 = atomic.LoadInt64(&ps.sessionsProxying)
	var wg sync.WaitGroup
	for i, c := range cases {
		wg.Add(1)
		go func(i int, c c05TCPCase) {
			defer wg.Done()
			out.Cases[i] = c05RunTCPCase(c)
		}(i, c)
	}
	wg.Wait()
	out.Gauge1 = atomic.LoadInt64(&ps.sessionsProxying)
	out.GLeakEarly = c05WaitGoroutines(base, time.Second)
	// source closers may sit in Close for the linger bound (10 s) when unsent data is pending
	out.GLeak = c05WaitGoroutines(base, 13*time.Second)
	b, _ := json.Marshal(out)
	if err := os.WriteFile(os.Getenv("VERIF_OUT"), b, 0o644); err != nil {
		t.Fatal(err)
	}
}
