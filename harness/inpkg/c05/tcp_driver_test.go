package lib

// C05 real-TCP lane: the real Proxy() with *net.TCPConn on BOTH sides (loopback listener pairs),
// driven with the faults real sockets produce: peer half-close, full close, RST, and a peer that
// stops reading so that the relay's Write blocks on a full window.  All cases run in parallel.
// No assertions about conjure: it records whether / when Proxy returned, what each peer saw, the
// bytes relayed, and (for the lane as a whole) the goroutine delta and the session gauge.
//
// Fourth wave: (1) a SLOW-BUT-COMPLETE reader (throttled at the peer, never in the relay) with volumes far above
// the socket buffers, so that data the relay has written and counted is still in the station's kernel send queue
// when the tunnel is torn down: recorded at the peer are byte count, SHA-256, how the stream ended (EOF / reset) and
// when; from the tunnel its summary line (BytesUp / BytesDown / error strings).  (2) PROBE cases: the driver keeps a
// duplicate descriptor of both station-side sockets (the client one through SyscallConn, the covert one - dialled
// inside Proxy - by looking the descriptor up by its address pair) and reads, after Proxy returned, what the
// shutdown calls left on the socket itself: SO_LINGER (on/off and seconds), the TCP state (did the station send a FIN
// although a descriptor is still open = shutdown(SHUT_WR)), whether reads were shut down, whether the station's own
// descriptor is closed.

import (
	"crypto/sha256"
	"encoding/hex"
	"encoding/json"
	"errors"
	"io"
	"net"
	"os"
	"sync"
	"sync/atomic"
	"syscall"
	"strings"
	"testing"
	"time"
	"unsafe"

	"github.com/refraction-networking/conjure/pkg/core"
	"github.com/refraction-networking/conjure/pkg/station/log"
	pb "github.com/refraction-networking/conjure/proto"
)

type c05Peer struct {
	Send    int    `json:"send"`     // bytes this peer writes (pattern), possibly blocking
	Read    string `json:"read"`     // drain | slow (throttled: chunk_kb per read, pause_us after each) | none
	ChunkKB int    `json:"chunk_kb"`
	PauseUs int    `json:"pause_us"`
	RcvBuf  int    `json:"rcvbuf"`   // > 0: fixed SO_RCVBUF of this peer (no autotuning)
	SendAll bool   `json:"send_all"` // the end action waits until the kernel has accepted all of `send`
	End     string `json:"end"`      // closewrite | close | rst | wait
	DelayMs int    `json:"delay_ms"` // before the end action (after the send has been handed to the kernel or has blocked)
}
type c05TCPCase struct {
	Name    string  `json:"name"`
	Client  c05Peer `json:"client"`
	Covert  c05Peer `json:"covert"`
	BoundMs int     `json:"bound_ms"`
	BigBuf  bool    `json:"big_buf"` // leave the kernel's default (autotuned) socket buffers
	Probe   bool    `json:"probe"`   // keep duplicate descriptors of the station's sockets and read their options afterwards
}

// what the station's shutdown calls left on one of its sockets (read through a duplicate descriptor)
type c05SockProbe struct {
	Found      bool   `json:"found"`
	LingerOn   int32  `json:"lingerOn"`
	LingerSecs int32  `json:"lingerSecs"`
	State      int    `json:"state"` // tcp_info.tcpi_state (1 ESTABLISHED, 4 FIN_WAIT1, 5 FIN_WAIT2, 8 CLOSE_WAIT, 9 LAST_ACK ...)
	Peek       string `json:"peek"`  // eof | again | data | err:<..>   (MSG_PEEK|MSG_DONTWAIT)
	OrigClosed bool   `json:"origClosed"`
	Err        string `json:"err"`
}
type c05PeerObs struct {
	Got       int    `json:"got"`       // bytes read
	GotOK     bool   `json:"gotOK"`     // they continue the other side's pattern from its start
	Sent      int    `json:"sent"`      // bytes the kernel accepted
	SawClose  string `json:"sawClose"`  // how this peer's read side ended: eof | reset | other:<..> | "" (never within the bound)
	WriteDead bool   `json:"writeDead"` // a write after the relay ended failed (the station's socket is fully closed)
	Hash      string `json:"hash"`      // SHA-256 of the bytes read
	SentHash  string `json:"sentHash"`  // SHA-256 of the bytes the kernel accepted
	EndMs     int64  `json:"endMs"`     // when the read side ended (ms since the case began), -1 never
	ActMs     int64  `json:"actMs"`     // when this peer made its end action
}
type c05TCPRes struct {
	Name       string     `json:"name"`
	Returned   bool       `json:"returned"`
	ReturnedMs int64      `json:"returnedMs"`
	Panic      string     `json:"panic"`
	Client     c05PeerObs `json:"client"`
	Covert     c05PeerObs `json:"covert"`
	ClientKind string     `json:"clientKind"` // dynamic type of the connection Proxy was given
	DialErr    string     `json:"dialErr"`
	// the tunnel's own summary line ("proxy closed {...}")
	Summary   bool          `json:"summary"`
	BytesUp   int64         `json:"bytesUp"`
	BytesDown int64         `json:"bytesDown"`
	ClientErr string        `json:"clientErr"`
	CovertErr string        `json:"covertErr"`
	ProbeA    *c05SockProbe `json:"probeA"` // station's client-side socket
	ProbeB    *c05SockProbe `json:"probeB"` // station's covert-side socket
}
type c05TCPOut struct {
	Cases      []c05TCPRes `json:"cases"`
	Gauge0     int64       `json:"gauge0"`
	Gauge1     int64       `json:"gauge1"`
	GLeak      int         `json:"gleak"`      // goroutines alive beyond the baseline after every case ended (after the linger bound)
	GLeakEarly int         `json:"gleakEarly"` // ... 1 s after the last Proxy returned (closers may still sit in a lingering Close)
}

func c05Pat(off, n int) []byte {
	b := make([]byte, n)
	for i := range b {
		b[i] = byte((off+i)*7 + 3)
	}
	return b
}

func c05SmallBuf(c net.Conn) {
	if t, ok := c.(*net.TCPConn); ok {
		t.SetReadBuffer(4096)
		t.SetWriteBuffer(4096)
	}
}

// ---- duplicate descriptors of the station's sockets

func c05DupOf(c *net.TCPConn) int {
	rc, err := c.SyscallConn()
	if err != nil {
		return -1
	}
	d := -1
	rc.Control(func(fd uintptr) {
		nd, _, e := syscall.Syscall(syscall.SYS_FCNTL, fd, syscall.F_DUPFD_CLOEXEC, 0)
		if e == 0 {
			d = int(nd)
		}
	})
	return d
}

func c05Ports(fd int) (local, peer int, ok bool) {
	pa, err := syscall.Getpeername(fd)
	if err != nil {
		return 0, 0, false
	}
	la, err := syscall.Getsockname(fd)
	if err != nil {
		return 0, 0, false
	}
	p4, ok1 := pa.(*syscall.SockaddrInet4)
	l4, ok2 := la.(*syscall.SockaddrInet4)
	if !ok1 || !ok2 {
		return 0, 0, false
	}
	return l4.Port, p4.Port, true
}

// the socket Proxy dialled: local port = the port the covert peer sees, peer port = the covert listener's
func c05FindSock(localPort, peerPort int) (orig, dup int) {
	for fd := 3; fd < 8192; fd++ {
		l, p, ok := c05Ports(fd)
		if !ok || l != localPort || p != peerPort {
			continue
		}
		nd, _, e := syscall.Syscall(syscall.SYS_FCNTL, uintptr(fd), syscall.F_DUPFD_CLOEXEC, 0)
		if e != 0 {
			continue
		}
		if l2, p2, ok := c05Ports(int(nd)); ok && l2 == localPort && p2 == peerPort {
			return fd, int(nd)
		}
		syscall.Close(int(nd))
	}
	return -1, -1
}

func c05Ino(fd int) (uint64, bool) {
	var st syscall.Stat_t
	if err := syscall.Fstat(fd, &st); err != nil {
		return 0, false
	}
	return st.Ino, true
}

func c05ProbeRead(d int, origClosed bool) *c05SockProbe {
	pr := &c05SockProbe{}
	if d < 0 {
		pr.Err = "no descriptor"
		return pr
	}
	pr.Found = true
	pr.OrigClosed = origClosed
	var l syscall.Linger
	lsz := uint32(unsafe.Sizeof(l))
	if _, _, e := syscall.Syscall6(syscall.SYS_GETSOCKOPT, uintptr(d), uintptr(syscall.SOL_SOCKET), uintptr(syscall.SO_LINGER),
		uintptr(unsafe.Pointer(&l)), uintptr(unsafe.Pointer(&lsz)), 0); e != 0 {
		pr.Err = "SO_LINGER: " + e.Error()
		return pr
	}
	pr.LingerOn, pr.LingerSecs = l.Onoff, l.Linger
	var ti syscall.TCPInfo
	sz := uint32(unsafe.Sizeof(ti))
	if _, _, e := syscall.Syscall6(syscall.SYS_GETSOCKOPT, uintptr(d), uintptr(syscall.IPPROTO_TCP), uintptr(syscall.TCP_INFO),
		uintptr(unsafe.Pointer(&ti)), uintptr(unsafe.Pointer(&sz)), 0); e != 0 {
		pr.Err = "TCP_INFO: " + e.Error()
		return pr
	}
	pr.State = int(ti.State)
	var b [1]byte
	n, _, err := syscall.Recvfrom(d, b[:], syscall.MSG_PEEK|syscall.MSG_DONTWAIT)
	switch {
	case err == nil && n == 0:
		pr.Peek = "eof"
	case err == nil:
		pr.Peek = "data"
	case errors.Is(err, syscall.EAGAIN):
		pr.Peek = "again"
	default:
		pr.Peek = "err:" + err.Error()
	}
	return pr
}

// runPeer plays one remote endpoint; start is closed when the peers may make their end action, relayEnded when the
// relay has ended (Proxy returned or the bound passed)
func c05RunPeer(c *net.TCPConn, p c05Peer, t0 time.Time, start, relayEnded <-chan struct{}, obs *c05PeerObs, wg *sync.WaitGroup) {
	defer wg.Done()
	var mu sync.Mutex
	readDone := make(chan struct{})
	obs.EndMs, obs.ActMs = -1, -1
	reader := func() {
		defer close(readDone)
		sz := 32 * 1024
		if p.Read == "slow" && p.ChunkKB > 0 {
			sz = p.ChunkKB * 1024
		}
		buf := make([]byte, sz)
		h := sha256.New()
		ok := true
		for {
			n, err := c.Read(buf)
			mu.Lock()
			for i := 0; i < n; i++ {
				if buf[i] != byte((obs.Got+i)*7+3) {
					ok = false
				}
			}
			h.Write(buf[:n])
			obs.Got += n
			obs.GotOK = ok
			mu.Unlock()
			if err != nil {
				mu.Lock()
				switch {
				case errors.Is(err, io.EOF):
					obs.SawClose = "eof"
				case errors.Is(err, syscall.ECONNRESET):
					obs.SawClose = "reset"
				case errors.Is(err, os.ErrDeadlineExceeded):
					obs.SawClose = ""
				case errors.Is(err, net.ErrClosed):
					obs.SawClose = "self-closed"
				default:
					obs.SawClose = "other:" + err.Error()
				}
				obs.Hash = hex.EncodeToString(h.Sum(nil))
				if obs.SawClose != "" {
					obs.EndMs = time.Since(t0).Milliseconds()
				}
				mu.Unlock()
				return
			}
			if p.Read == "slow" && p.PauseUs > 0 {
				// the throttle: this peer is slower than the sender
				time.Sleep(time.Duration(p.PauseUs) * time.Microsecond)
			}
		}
	}
	obs.GotOK = true
	reads := p.Read == "drain" || p.Read == "slow"
	if reads {
		go reader()
	}
	// writer
	sendDone := make(chan struct{})
	go func() {
		defer close(sendDone)
		off := 0
		for off < p.Send {
			n := p.Send - off
			if n > 16384 {
				n = 16384
			}
			c.SetWriteDeadline(time.Now().Add(20 * time.Second))
			w, err := c.Write(c05Pat(off, n))
			off += w
			mu.Lock()
			obs.Sent = off
			mu.Unlock()
			if err != nil {
				return
			}
		}
	}()
	// the end action comes after the send finished or has been stuck for the delay
	wait := 400 * time.Millisecond
	if p.SendAll {
		wait = 25 * time.Second // a sender of the slow lane ends only after the kernel took everything
	}
	select {
	case <-sendDone:
	case <-time.After(wait):
	}
	<-start
	time.Sleep(time.Duration(p.DelayMs) * time.Millisecond)
	mu.Lock()
	obs.ActMs = time.Since(t0).Milliseconds()
	sh := sha256.Sum256(c05Pat(0, obs.Sent))
	obs.SentHash = hex.EncodeToString(sh[:])
	mu.Unlock()
	switch p.End {
	case "closewrite":
		c.CloseWrite()
	case "close":
		c.Close()
	case "rst":
		c.SetLinger(0)
		c.Close()
	}
	<-relayEnded
	if p.End == "close" || p.End == "rst" {
		mu.Lock()
		if obs.SawClose == "" {
			obs.SawClose = "self-closed"
		}
		mu.Unlock()
		return
	}
	// what does this peer see now?  read whatever is buffered until EOF / reset (3 s; the slow reader may take its time)
	if !reads {
		c.SetReadDeadline(time.Now().Add(3 * time.Second))
		reader()
	} else {
		patience := 3 * time.Second
		if p.Read == "slow" {
			patience = 25 * time.Second
		}
		select {
		case <-readDone:
		case <-time.After(patience):
			c.SetReadDeadline(time.Now())
			<-readDone
		}
	}
	// and is the station's socket gone for writing too?
	if p.End != "closewrite" {
		c.SetWriteDeadline(time.Now().Add(time.Second))
		for i := 0; i < 3; i++ {
			if _, err := c.Write([]byte{1}); err != nil {
				mu.Lock()
				obs.WriteDead = true
				mu.Unlock()
				break
			}
			time.Sleep(50 * time.Millisecond)
		}
	}
	c.Close()
}

func c05PeerBufs(c net.Conn, big bool, p c05Peer) {
	if !big {
		c05SmallBuf(c)
	}
	if t, ok := c.(*net.TCPConn); ok && p.RcvBuf > 0 {
		t.SetReadBuffer(p.RcvBuf)
	}
}

func c05RunTCPCase(c c05TCPCase) (res c05TCPRes) {
	res.Name = c.Name
	l1, err := net.Listen("tcp", "127.0.0.1:0")
	if err != nil {
		res.Panic = "listen: " + err.Error()
		return
	}
	defer l1.Close()
	l2, err := net.Listen("tcp", "127.0.0.1:0")
	if err != nil {
		res.Panic = "listen: " + err.Error()
		return
	}
	defer l2.Close()
	relayEnded := make(chan struct{})
	start := make(chan struct{})
	var pw sync.WaitGroup
	// client peer dials the "station"
	cp, err := net.Dial("tcp", l1.Addr().String())
	if err != nil {
		res.Panic = "dial: " + err.Error()
		return
	}
	c05PeerBufs(cp, c.BigBuf, c.Client)
	stationClient, err := l1.Accept()
	if err != nil {
		res.Panic = "accept: " + err.Error()
		return
	}
	if !c.BigBuf {
		c05SmallBuf(stationClient)
	}
	if _, ok := stationClient.(*net.TCPConn); ok {
		res.ClientKind = "tcp"
	} else {
		res.ClientKind = "other"
	}
	t0 := time.Now()
	dupA, dupB, origB := -1, -1, -1
	if c.Probe {
		dupA = c05DupOf(stationClient.(*net.TCPConn))
	}
	pw.Add(1)
	go c05RunPeer(cp.(*net.TCPConn), c.Client, t0, start, relayEnded, &res.Client, &pw)
	// covert peer: accepts what Proxy dials
	accepted := make(chan int, 1) // the port the covert peer sees the station coming from (0: no connection)
	pw.Add(1)
	go func() {
		l2.(*net.TCPListener).SetDeadline(time.Now().Add(10 * time.Second))
		cc, err := l2.Accept()
		if err != nil {
			accepted <- 0
			pw.Done()
			return
		}
		c05PeerBufs(cc, c.BigBuf, c.Covert)
		accepted <- cc.RemoteAddr().(*net.TCPAddr).Port
		c05RunPeer(cc.(*net.TCPConn), c.Covert, t0, start, relayEnded, &res.Covert, &pw)
	}()
	var tr Transport = &mockTransport{}
	reg := &DecoyRegistration{
		PhantomIp: net.ParseIP("192.0.2.77"), PhantomPort: 443, Covert: l2.Addr().String(),
		Keys:  &core.ConjureSharedKeys{SharedSecret: []byte("0123456789abcdef0123456789abcdef")},
		Flags: &pb.RegistrationFlags{}, TransportPtr: &tr, RegistrationSource: pb.RegistrationSource_API.Enum(),
	}
	lbuf := &c05Buf{}
	logger := log.New(lbuf, "", 0)
	ret := make(chan string, 1)
	go func() {
		defer func() {
			if r := recover(); r != nil {
				ret <- "panic"
				return
			}
			ret <- ""
		}()
		Proxy(reg, stationClient, logger)
		if !c.Probe {
			stationClient.Close() // the handler's deferred Close
		}
	}()
	if c.Probe {
		// the tunnel is up and idle (the peers wait for `start`): find the socket Proxy dialled
		select {
		case port := <-accepted:
			if port != 0 {
				origB, dupB = c05FindSock(port, l2.Addr().(*net.TCPAddr).Port)
			}
		case <-time.After(10 * time.Second):
		}
	}
	close(start)
	bound := time.Duration(c.BoundMs) * time.Millisecond
	select {
	case p := <-ret:
		res.Returned = true
		res.Panic = p
		res.ReturnedMs = time.Since(t0).Milliseconds()
	case <-time.After(bound):
		res.ReturnedMs = -1
	}
	if c.Probe {
		// what did the station's shutdown calls leave on its two sockets?  (its own descriptors are closed or not;
		// the sockets live on through the duplicates, so nothing has been sent or discarded yet)
		closedA := false
		if rc, err := stationClient.(*net.TCPConn).SyscallConn(); err != nil {
			closedA = true
		} else if err := rc.Control(func(uintptr) {}); err != nil {
			closedA = true
		}
		res.ProbeA = c05ProbeRead(dupA, closedA)
		closedB := true
		if dupB >= 0 && origB >= 0 {
			i1, ok1 := c05Ino(dupB)
			i2, ok2 := c05Ino(origB)
			closedB = !(ok1 && ok2 && i1 == i2)
		}
		res.ProbeB = c05ProbeRead(dupB, closedB)
		if res.Returned {
			stationClient.Close() // the handler's deferred Close
		}
		if dupA >= 0 {
			syscall.Close(dupA)
		}
		if dupB >= 0 {
			syscall.Close(dupB)
		}
	}
	close(relayEnded)
	pw.Wait()
	if !res.Returned {
		// do not leave the relay running into the other cases' measurements
		stationClient.Close()
		select {
		case <-ret:
		case <-time.After(5 * time.Second):
		}
	}
	// the tunnel's own account of what it forwarded
	if txt := lbuf.String(); strings.Contains(txt, "proxy closed ") {
		var ts struct {
			BytesUp, BytesDown                      int64
			CovertDialErr, CovertConnErr, ClientConnErr string
		}
		js := txt[strings.Index(txt, "proxy closed ")+len("proxy closed "):]
		if i := strings.IndexByte(js, '\n'); i >= 0 {
			js = js[:i]
		}
		if json.Unmarshal([]byte(js), &ts) == nil {
			res.Summary = true
			res.BytesUp, res.BytesDown = ts.BytesUp, ts.BytesDown
			res.ClientErr, res.CovertErr, res.DialErr = ts.ClientConnErr, ts.CovertConnErr, ts.CovertDialErr
		}
	}
	return res
}

func TestVerifC05TCP(t *testing.T) {
	raw, err := os.ReadFile(os.Getenv("VERIF_CASES"))
	if err != nil {
		t.Skip("no cases")
	}
	var cases []c05TCPCase
	if err := json.Unmarshal(raw, &cases); err != nil {
		t.Fatal(err)
	}
	Stat()
	ps := getProxyStats()
	time.Sleep(20 * time.Millisecond)
	var out c05TCPOut
	out.Cases = make([]c05TCPRes, len(cases))
	base := c05Goroutines()
	out.Gauge0 = atomic.LoadInt64(&ps.sessionsProxying)
	var wg sync.WaitGroup
	for i, c := range cases {
		wg.Add(1)
		go func(i int, c c05TCPCase) {
			defer wg.Done()
			out.Cases[i] = c05RunTCPCase(c)
		}(i, c)
	}
	wg.Wait()
	out.Gauge1 = atomic.LoadInt64(&ps.sessionsProxying)
	out.GLeakEarly = c05WaitGoroutines(base, time.Second)
	// source closers may sit in Close for the linger bound (10 s) when unsent data is pending
	out.GLeak = c05WaitGoroutines(base, 13*time.Second)
	b, _ := json.Marshal(out)
	if err := os.WriteFile(os.Getenv("VERIF_OUT"), b, 0o644); err != nil {
		t.Fatal(err)
	}
}
