package lib

// C05 sequence lane: several tunnels ONE AFTER THE OTHER through the real Proxy() in one process.
// The earlier tunnels end through the early-exit paths (net.Dial fails, the PROXY header cannot be written, a direction
// leaves through a failing SetDeadline at call index 0..3), the later ones are ordinary tunnels carrying data both
// ways.  Whatever the process keeps between tunnels (package-level state: statistics singletons, pools, ...) must not
// change what a later tunnel forwards.  Optionally the sequence runs on one P with the collector off, so that a later
// tunnel deterministically meets whatever an earlier one left in per-P caches.
// No assertions about conjure: per tunnel it records whether Proxy returned, what each side received, the summary
// line's counters, Close calls, gauge, goroutines and the deltas of the process-wide ProxyStats.

import (
	"encoding/hex"
	"encoding/json"
	"fmt"
	"net"
	"os"
	"runtime"
	"runtime/debug"
	"strings"
	"sync"
	"sync/atomic"
	"testing"
	"time"

	"github.com/refraction-networking/conjure/pkg/core"
	"github.com/refraction-networking/conjure/pkg/station/log"
	pb "github.com/refraction-networking/conjure/proto"
)

type c05SeqTunnel struct {
	Kind     string   `json:"kind"` // normal | dialfail | hdrfail | dlfail
	DlFailAt int      `json:"dl_fail_at"`
	Up       []string `json:"up"`   // hex chunks the client hands to the relay
	Down     []string `json:"down"` // hex chunks the covert destination sends
}
type c05SeqCase struct {
	Name    string         `json:"name"`
	Pin     bool           `json:"pin"`
	Tunnels []c05SeqTunnel `json:"tunnels"`
}
type c05SeqStats struct {
	Sessions, NewUp, NewDown, ComplUp, ComplDown, ZeroUp, ZeroDown, Completed int64
}
type c05SeqObs struct {
	Returned  bool        `json:"returned"`
	Panic     string      `json:"panic"`
	Summary   bool        `json:"summary"`
	DialErr   string      `json:"dialErr"`
	BytesUp   int64       `json:"bytesUp"`
	BytesDown int64       `json:"bytesDown"`
	CovertGot string      `json:"covertGot"`
	ClientGot string      `json:"clientGot"`
	NClose    int         `json:"nclose"` // Close calls on the client connection made by Proxy
	NDl       int         `json:"ndl"`
	Gauge0    int64       `json:"gauge0"`
	Gauge1    int64       `json:"gauge1"`
	GLeak     int         `json:"gleak"`
	Delta     c05SeqStats `json:"delta"`
}
type c05SeqRes struct {
	Name    string      `json:"name"`
	Tunnels []c05SeqObs `json:"tunnels"`
}

type c05NoAddr struct{}

func (c05NoAddr) Network() string { return "tcp" }
func (c05NoAddr) String() string  { return "" }

// scripted client connection: hands out the chunks (never more than the buffer holds, never consuming on an empty
// buffer), then stays silent until it is closed
type c05SeqConn struct {
	mu       sync.Mutex
	chunks   [][]byte
	recv     []byte
	dlFailAt int // -1: never
	ndl      int
	nclose   int
	closed   bool
	closedCh chan struct{}
	noAddr   bool
}

func (f *c05SeqConn) Read(b []byte) (int, error) {
	f.mu.Lock()
	if f.closed {
		f.mu.Unlock()
		return 0, c05MkErr("closed", "read")
	}
	if len(b) == 0 {
		f.mu.Unlock()
		return 0, nil
	}
	if len(f.chunks) > 0 {
		n := copy(b, f.chunks[0])
		if n == len(f.chunks[0]) {
			f.chunks = f.chunks[1:]
		} else {
			f.chunks[0] = f.chunks[0][n:]
		}
		f.mu.Unlock()
		return n, nil
	}
	f.mu.Unlock()
	select {
	case <-f.closedCh:
		return 0, c05MkErr("closed", "read")
	case <-time.After(20 * time.Second):
		return 0, c05MkErr("timeout", "read")
	}
}
func (f *c05SeqConn) Write(b []byte) (int, error) {
	f.mu.Lock()
	defer f.mu.Unlock()
	if f.closed {
		return 0, c05MkErr("closed", "write")
	}
	f.recv = append(f.recv, b...)
	return len(b), nil
}
func (f *c05SeqConn) Close() error {
	f.mu.Lock()
	defer f.mu.Unlock()
	f.nclose++
	if f.closed {
		return c05MkErr("closed", "close")
	}
	f.closed = true
	close(f.closedCh)
	return nil
}
func (f *c05SeqConn) SetDeadline(t time.Time) error {
	f.mu.Lock()
	defer f.mu.Unlock()
	i := f.ndl
	f.ndl++
	if f.closed {
		return c05MkErr("closed", "set")
	}
	if i == f.dlFailAt {
		return c05MkErr("other3", "set")
	}
	return nil
}
func (f *c05SeqConn) SetReadDeadline(t time.Time) error  { return nil }
func (f *c05SeqConn) SetWriteDeadline(t time.Time) error { return nil }
func (f *c05SeqConn) LocalAddr() net.Addr                { return &net.TCPAddr{IP: net.IPv4(192, 0, 2, 77), Port: 443} }
func (f *c05SeqConn) RemoteAddr() net.Addr {
	if f.noAddr {
		return c05NoAddr{}
	}
	return &net.TCPAddr{IP: net.IPv4(203, 0, 113, 9), Port: 51234}
}

func c05SeqSnapshot() c05SeqStats {
	ps := getProxyStats()
	return c05SeqStats{
		atomic.LoadInt64(&ps.sessionsProxying), atomic.LoadInt64(&ps.newBytesUp), atomic.LoadInt64(&ps.newBytesDown),
		atomic.LoadInt64(&ps.completeBytesUp), atomic.LoadInt64(&ps.completeBytesDown),
		atomic.LoadInt64(&ps.zeroByteTunnelsUp), atomic.LoadInt64(&ps.zeroByteTunnelsDown), atomic.LoadInt64(&ps.completedSessions),
	}
}

func c05SeqTunnelRun(tn c05SeqTunnel, base int) (o c05SeqObs) {
	var up, down [][]byte
	upLen := 0
	for _, h := range tn.Up {
		d, _ := hex.DecodeString(h)
		up = append(up, d)
		upLen += len(d)
	}
	for _, h := range tn.Down {
		d, _ := hex.DecodeString(h)
		down = append(down, d)
	}
	addr := "127.0.0.1:1" // nothing listens there
	var ln net.Listener
	var covertGot []byte
	var cmu sync.Mutex
	srvDone := make(chan struct{})
	if tn.Kind != "dialfail" {
		var err error
		ln, err = net.Listen("tcp", "127.0.0.1:0")
		if err != nil {
			o.Panic = "listen: " + err.Error()
			return
		}
		addr = ln.Addr().String()
		go func() {
			defer close(srvDone)
			ln.(*net.TCPListener).SetDeadline(time.Now().Add(10 * time.Second))
			conn, err := ln.Accept()
			if err != nil {
				return
			}
			defer conn.Close()
			for _, d := range down {
				conn.Write(d)
			}
			// the destination ends its stream once it has everything the client sent (or the relay goes away)
			buf := make([]byte, 4096)
			for {
				cmu.Lock()
				n := len(covertGot)
				cmu.Unlock()
				if n >= upLen && tn.Kind == "normal" {
					break
				}
				patience := 10 * time.Second
				if tn.Kind != "normal" {
					patience = 1500 * time.Millisecond // a failing SetDeadline index that is never reached: end the tunnel
				}
				conn.SetReadDeadline(time.Now().Add(patience))
				k, err := conn.Read(buf)
				cmu.Lock()
				covertGot = append(covertGot, buf[:k]...)
				cmu.Unlock()
				if err != nil {
					break
				}
			}
		}()
	} else {
		close(srvDone)
	}
	var tr Transport = &mockTransport{}
	flags := &pb.RegistrationFlags{}
	if tn.Kind == "hdrfail" {
		yes := true
		flags.ProxyHeader = &yes
	}
	reg := &DecoyRegistration{
		PhantomIp: net.ParseIP("192.0.2.77"), PhantomPort: 443, Covert: addr,
		Keys:  &core.ConjureSharedKeys{SharedSecret: []byte("0123456789abcdef0123456789abcdef")},
		Flags: flags, TransportPtr: &tr, RegistrationSource: pb.RegistrationSource_API.Enum(),
	}
	client := &c05SeqConn{chunks: up, dlFailAt: -1, closedCh: make(chan struct{}), noAddr: tn.Kind == "hdrfail"}
	if tn.Kind == "dlfail" {
		client.dlFailAt = tn.DlFailAt
	}
	lbuf := &c05Buf{}
	logger := log.New(lbuf, "", 0)
	s0 := c05SeqSnapshot()
	o.Gauge0 = s0.Sessions
	ret := make(chan string, 1)
	go func() {
		defer func() {
			if r := recover(); r != nil {
				ret <- fmt.Sprint(r)
				return
			}
			ret <- ""
		}()
		Proxy(reg, client, logger)
	}()
	select {
	case p := <-ret:
		o.Returned = true
		o.Panic = p
	case <-time.After(15 * time.Second):
	}
	client.mu.Lock()
	o.NClose = client.nclose
	o.NDl = client.ndl
	client.mu.Unlock()
	if !o.Returned {
		client.Close()
		select {
		case <-ret:
		case <-time.After(3 * time.Second):
		}
	}
	if ln != nil {
		ln.Close()
	}
	select {
	case <-srvDone:
	case <-time.After(12 * time.Second):
	}
	client.Close() // the handler's deferred Close
	s1 := c05SeqSnapshot()
	o.Gauge1 = s1.Sessions
	o.Delta = c05SeqStats{s1.Sessions - s0.Sessions, s1.NewUp - s0.NewUp, s1.NewDown - s0.NewDown, s1.ComplUp - s0.ComplUp,
		s1.ComplDown - s0.ComplDown, s1.ZeroUp - s0.ZeroUp, s1.ZeroDown - s0.ZeroDown, s1.Completed - s0.Completed}
	if txt := lbuf.String(); strings.Contains(txt, "proxy closed ") {
		var ts struct {
			BytesUp, BytesDown int64
			CovertDialErr      string
		}
		js := txt[strings.Index(txt, "proxy closed ")+len("proxy closed "):]
		if i := strings.IndexByte(js, '\n'); i >= 0 {
			js = js[:i]
		}
		if json.Unmarshal([]byte(js), &ts) == nil {
			o.Summary = true
			o.BytesUp, o.BytesDown, o.DialErr = ts.BytesUp, ts.BytesDown, ts.CovertDialErr
		}
	}
	client.mu.Lock()
	o.ClientGot = hex.EncodeToString(client.recv)
	client.mu.Unlock()
	cmu.Lock()
	o.CovertGot = hex.EncodeToString(covertGot)
	cmu.Unlock()
	o.GLeak = c05WaitGoroutines(base, 3*time.Second)
	return o
}

func TestVerifC05Seq(t *testing.T) {
	raw, err := os.ReadFile(os.Getenv("VERIF_CASES"))
	if err != nil {
		t.Skip("no cases")
	}
	var cases []c05SeqCase
	if err := json.Unmarshal(raw, &cases); err != nil {
		t.Fatal(err)
	}
	Stat()
	getProxyStats()
	time.Sleep(20 * time.Millisecond)
	out := make([]c05SeqRes, len(cases))
	hangs := 0
	for i, c := range cases {
		out[i].Name = c.Name
		procs, gc := 0, 0
		if c.Pin {
			procs = runtime.GOMAXPROCS(1)
			gc = debug.SetGCPercent(-1)
		}
		base := c05Goroutines()
		for _, tn := range c.Tunnels {
			if hangs >= 3 {
				out[i].Tunnels = append(out[i].Tunnels, c05SeqObs{})
				continue
			}
			o := c05SeqTunnelRun(tn, base)
			if !o.Returned {
				hangs++
			}
			out[i].Tunnels = append(out[i].Tunnels, o)
		}
		if c.Pin {
			runtime.GOMAXPROCS(procs)
			debug.SetGCPercent(gc)
		}
	}
	b, _ := json.Marshal(out)
	if err := os.WriteFile(os.Getenv("VERIF_OUT"), b, 0o644); err != nil {
		t.Fatal(err)
	}
}
