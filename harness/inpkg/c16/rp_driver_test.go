package dtls

// C16 real-pair lane: the package's own Server / Client (DTLS + SCTP + heartbeat + SCTPConn, built by
// wrapSCTP -> openSCTP / acceptSCTP) over net.Pipe.  Message sizes and read-buffer sizes are given relative
// to the REAL association's maximum message size, which the driver reads from the writer's association.
// Records observables only; the oracle is in driver/props/c16.py.

import (
	"encoding/hex"
	"errors"
	"fmt"
	"io"
	"net"
	"sync"
	"time"
)

type rpSize struct {
	Rel bool `json:"rel"` // size = association maximum + N
	N   int  `json:"n"`
}
type rpMsg struct {
	Rel  bool  `json:"rel"`
	N    int   `json:"n"`
	Seed int64 `json:"seed"`
}
type rpCase struct {
	Dir    int      `json:"dir"` // 0: dialer writes, acceptor reads; 1: acceptor writes, dialer reads
	Msgs   []rpMsg  `json:"msgs"`
	Rsizes []rpSize `json:"rsizes"` // pattern of read-buffer sizes, repeated
}
type rpWrite struct {
	N int `json:"n"`
	E int `json:"e"`
}
type rpRead struct {
	Size int    `json:"size"`
	D    string `json:"d"`
	E    int    `json:"e"`
	Err  string `json:"err,omitempty"`
}
type rpRes struct {
	Wmax        int       `json:"wmax"`  // MaxMessageSize() of the writer's association
	Rmax        int       `json:"rmax"`  // MaxMessageSize() of the reader's association
	Rbufs       []int     `json:"rbufs"` // receive-buffer sizes of the reader's layers (SCTPConn, heartbeat server)
	Msgs        []int     `json:"msgs"`  // resolved message sizes
	Writes      []rpWrite `json:"writes"`
	Reads       []rpRead  `json:"reads"`
	BeforeClose int       `json:"before_close"` // reads completed before the driver closed the writer's end
	Note        string    `json:"note,omitempty"`
}

func rpClass(err error) int {
	if err == nil {
		return vNone
	}
	if errors.Is(err, io.ErrShortBuffer) || errors.Is(err, ErrInsufficientBuffer) {
		return vShort
	}
	if errors.Is(err, io.EOF) {
		return vEOS
	}
	return vclass(err)
}

func rpPair() (srv, cli net.Conn, err error) {
	secret := []byte("verif-c16-real-pair-secret-00001")
	a, b := net.Pipe()
	type res struct {
		c   net.Conn
		err error
	}
	ch := make(chan res, 1)
	go func() {
		c, err := Server(a, &Config{PSK: secret, SCTP: ServerAccept})
		ch <- res{c, err}
	}()
	cli, err = Client(b, &Config{PSK: secret, SCTP: ClientOpen})
	if err != nil {
		a.Close()
		b.Close()
		return nil, nil, fmt.Errorf("client: %v", err)
	}
	select {
	case r := <-ch:
		if r.err != nil {
			cli.Close()
			return nil, nil, fmt.Errorf("server: %v", r.err)
		}
		return r.c, cli, nil
	case <-time.After(15 * time.Second):
		cli.Close()
		a.Close()
		return nil, nil, fmt.Errorf("server: no result after 15 s")
	}
}

func runRpCase(c rpCase) (res rpRes) {
	defer func() {
		if r := recover(); r != nil {
			res.Note = fmt.Sprint("driver panic: ", r)
		}
	}()
	srv, cli, err := rpPair()
	if err != nil {
		res.Note = "setup: " + err.Error()
		return
	}
	defer srv.Close()
	defer cli.Close()
	w, r := cli, srv
	if c.Dir == 1 {
		w, r = srv, cli
	}
	wm, ok1 := vAssocMax(w)
	rm, ok2 := vAssocMax(r)
	rb, ok3 := vRecvBufSizes(r)
	if !ok1 || !ok2 || !ok3 {
		res.Note = "setup: the shim cannot find the association / the receive buffers (adapt shim_driver_test.go)"
		return
	}
	res.Wmax, res.Rmax, res.Rbufs = wm, rm, rb
	size := func(rel bool, n int) int {
		if rel {
			return wm + n
		}
		return n
	}
	var msgs [][]byte
	for _, m := range c.Msgs {
		n := size(m.Rel, m.N)
		res.Msgs = append(res.Msgs, n)
		msgs = append(msgs, vlcg(m.Seed, n))
	}
	var pat []int
	for _, s := range c.Rsizes {
		pat = append(pat, size(s.Rel, s.N))
	}

	wdone := make(chan []rpWrite, 1)
	go func() {
		var ws []rpWrite
		defer func() {
			if p := recover(); p != nil {
				ws = append(ws, rpWrite{E: vPanic})
			}
			wdone <- ws
		}()
		for _, m := range msgs {
			n, err := w.Write(m)
			ws = append(ws, rpWrite{N: n, E: rpClass(err)})
		}
	}()

	var mu sync.Mutex
	var reads []rpRead
	got := 0
	rdone := make(chan struct{})
	go func() {
		defer close(rdone)
		defer func() {
			if p := recover(); p != nil {
				mu.Lock()
				reads = append(reads, rpRead{E: vPanic, Err: fmt.Sprint(p)})
				mu.Unlock()
			}
		}()
		for i := 0; ; i++ {
			b := make([]byte, pat[i%len(pat)])
			n, err := r.Read(b)
			o := rpRead{Size: len(b), D: hex.EncodeToString(b[:n]), E: rpClass(err)}
			if err != nil {
				o.Err = err.Error()
			}
			mu.Lock()
			reads = append(reads, o)
			got += n
			mu.Unlock()
			if err != nil {
				return
			}
		}
	}()

	total := 0
	select {
	case ws := <-wdone:
		res.Writes = ws
		for _, x := range ws {
			total += x.N
		}
	case <-time.After(20 * time.Second):
		res.Note = "writer still inside Write after 20 s"
	}
	deadline := time.Now().Add(10 * time.Second)
	finished := false
	for res.Note == "" {
		mu.Lock()
		g, k := got, len(reads)
		mu.Unlock()
		select {
		case <-rdone:
			finished = true
		default:
		}
		if g >= total || finished {
			mu.Lock()
			res.BeforeClose = len(reads)
			mu.Unlock()
			_ = k
			break
		}
		if time.Now().After(deadline) {
			res.Note = fmt.Sprintf("reader has %d of %d written bytes after 10 s", g, total)
			mu.Lock()
			res.BeforeClose = len(reads)
			mu.Unlock()
			break
		}
		time.Sleep(2 * time.Millisecond)
	}
	w.Close()
	select {
	case <-rdone:
	case <-time.After(3 * time.Second):
		r.Close()
		select {
		case <-rdone:
		case <-time.After(3 * time.Second):
		}
	}
	mu.Lock()
	res.Reads = append([]rpRead(nil), reads...)
	mu.Unlock()
	return
}
