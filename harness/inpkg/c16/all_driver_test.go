package dtls

// One test binary run for all deterministic C16 drivers: {"read": [...], "fc": [...], ...} in, the same keys out.

import (
	"encoding/json"
	"os"
	"testing"
)

func TestVerifC16All(t *testing.T) {
	raw, err := os.ReadFile(os.Getenv("VERIF_CASES"))
	if err != nil {
		t.Skip("no cases")
		return
	}
	var in struct {
		Read []readCase     `json:"read"`
		Fc   []fcCase       `json:"fc"`
		Hbq  []hbqCase      `json:"hbq"`
		Reg  []regCase      `json:"reg"`
		Mat  []matCase      `json:"mat"`
		Win  []winCase      `json:"win"`
		Hbb  []int          `json:"hbb"`
		Mw   []mwCase       `json:"mw"`
		Mws  []mwStressCase `json:"mws"`
		Mr   []mrCase       `json:"mr"`
		Mrs  []mrStressCase `json:"mrs"`
		Rp   []rpCase       `json:"rp"`
	}
	if err := json.Unmarshal(raw, &in); err != nil {
		t.Fatal(err)
	}
	out := map[string]interface{}{}
	if in.Read != nil {
		r := make([]readRes, len(in.Read))
		for i, c := range in.Read {
			r[i] = runReadCase(c)
		}
		out["read"] = r
	}
	if in.Fc != nil {
		r := make([]fcRes, len(in.Fc))
		for i, c := range in.Fc {
			r[i] = runFcCase(c)
		}
		out["fc"] = r
	}
	if in.Hbq != nil {
		r := make([]hbqRes, len(in.Hbq))
		for i, c := range in.Hbq {
			r[i] = runHbqCase(c)
		}
		out["hbq"] = r
	}
	if in.Reg != nil {
		r := make([]regRes, len(in.Reg))
		for i, c := range in.Reg {
			r[i] = runRegCase(c)
		}
		out["reg"] = r
	}
	if in.Mat != nil {
		r := make([]matRes, len(in.Mat))
		for i, c := range in.Mat {
			r[i] = runMatCase(c)
		}
		out["mat"] = r
	}
	if in.Win != nil {
		r := make([]winRes, len(in.Win))
		for i, c := range in.Win {
			r[i] = runWinCase(c)
		}
		out["win"] = r
	}
	if in.Mw != nil {
		r := make([]mwRes, len(in.Mw))
		for i, c := range in.Mw {
			r[i] = runMwCase(c)
		}
		out["mw"] = r
	}
	if in.Mws != nil {
		r := make([]mwStressRes, len(in.Mws))
		for i, c := range in.Mws {
			r[i] = runMwStress(c)
		}
		out["mws"] = r
	}
	if in.Mr != nil {
		r := make([]mrRes, len(in.Mr))
		for i, c := range in.Mr {
			r[i] = runMrCase(c)
		}
		out["mr"] = r
	}
	if in.Mrs != nil {
		r := make([]mrStressRes, len(in.Mrs))
		for i, c := range in.Mrs {
			r[i] = runMrStress(c)
		}
		out["mrs"] = r
	}
	if in.Rp != nil {
		r := make([]rpRes, len(in.Rp))
		for i, c := range in.Rp {
			r[i] = runRpCase(c)
		}
		out["rp"] = r
	}
	if in.Hbb != nil {
		out["hbb"] = []hbbRes{runHbBypass(20, 150)}
	}
	vwriteOut(t, out)
}
