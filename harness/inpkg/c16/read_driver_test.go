package dtls

// C16 (i)/(ii): SCTPConn.Read over the real heartbeat layers over a scripted stream.

import (
	"encoding/hex"
	"fmt"
	"testing"
	"time"
)

type readCase struct {
	Server bool   `json:"server"`
	Mx     int    `json:"mx"`
	Hb     string `json:"hb"`
	Script []vmsg `json:"script"`
	Sizes  []int  `json:"sizes"`
}
type readObs struct {
	D string `json:"d"`
	E int    `json:"e"`
}
type readRes struct {
	Reads []readObs `json:"reads"`
	Note  string    `json:"note,omitempty"`
}

func runReadCase(c readCase) (res readRes) {
	defer func() {
		if r := recover(); r != nil {
			res.Reads = append(res.Reads, readObs{E: vPanic})
			res.Note = fmt.Sprint(r)
		}
	}()
	st := newVstream(c.Script)
	hb, _ := hex.DecodeString(c.Hb)
	var under msgStream
	if c.Server {
		h, err := heartbeatServer(st, &heartbeatConfig{Interval: time.Hour, Heartbeat: hb}, c.Mx)
		if err != nil {
			res.Note = err.Error()
			return
		}
		under = h
	} else {
		h, err := heartbeatClient(st, &heartbeatConfig{Interval: time.Hour, Heartbeat: hb})
		if err != nil {
			res.Note = err.Error()
			return
		}
		under = h
	}
	conn := newSCTPConn(under, vconn{}, uint64(c.Mx))
	defer conn.Close()
	for _, n := range c.Sizes {
		b := make([]byte, n)
		type rr struct {
			n   int
			err error
			p   interface{}
		}
		ch := make(chan rr, 1)
		go func() {
			defer func() {
				if r := recover(); r != nil {
					ch <- rr{p: r}
				}
			}()
			k, err := conn.Read(b)
			ch <- rr{n: k, err: err}
		}()
		select {
		case r := <-ch:
			if r.p != nil {
				res.Reads = append(res.Reads, readObs{E: vPanic})
				res.Note = fmt.Sprint(r.p)
				return
			}
			res.Reads = append(res.Reads, readObs{D: hex.EncodeToString(b[:r.n]), E: vclass(r.err)})
		case <-time.After(10 * time.Second):
			res.Reads = append(res.Reads, readObs{E: vHang})
			return
		}
	}
	return
}

func TestVerifC16Read(t *testing.T) {
	var cases []readCase
	if !vreadCases(t, &cases) {
		return
	}
	res := make([]readRes, len(cases))
	for i, c := range cases {
		res[i] = runReadCase(c)
	}
	vwriteOut(t, res)
}
