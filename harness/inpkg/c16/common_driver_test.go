package dtls

// Shared pieces of the C16 correspondence drivers: a scripted message stream
// implementing msgStream, a stub net.Conn, error classes, case-file plumbing.
// Contains no assertions about conjure; it only records observables.

import (
	"encoding/hex"
	"encoding/json"
	"errors"
	"fmt"
	"net"
	"os"
	"runtime"
	"strconv"
	"strings"
	"sync"
	"testing"
	"time"
)

// vSlack stretches the at-rest / hang deadlines of the schedule lanes: VERIF_C16_SLACK=4 turns 15 s into 60 s.
// Used when a case that timed out in the shared run is re-measured alone (c16.py: remeasure).
func vSlack(d time.Duration) time.Duration {
	if k, err := strconv.Atoi(os.Getenv("VERIF_C16_SLACK")); err == nil && k > 1 {
		return d * time.Duration(k)
	}
	return d
}

// error classes shared with coq/C16/Model.v
const (
	vNone    = -1
	vEOS     = 1
	vClosed  = 2
	vShort   = 3
	vLimit   = 4 // "write limit exceeded"
	vWClosed = 5 // "closed" from a blocked Write
	vTimeout = 6 // read deadline of the scripted stream
	vOther   = 99
	vHang    = 98
	vPanic   = 97
)

type verr struct{ code int }

func (e verr) Error() string { return fmt.Sprintf("scripted error %d", e.code) }

func vclass(err error) int {
	if err == nil {
		return vNone
	}
	var ve verr
	if errors.As(err, &ve) {
		return ve.code
	}
	if errors.Is(err, net.ErrClosed) {
		return vClosed
	}
	if errors.Is(err, ErrInsufficientBuffer) {
		return vShort
	}
	switch err.Error() {
	case "write limit exceeded":
		return vLimit
	case "closed":
		return vWClosed
	}
	return vOther
}

type vmsg struct {
	D    string `json:"d"`    // hex, or empty when Seed/N describe LCG bytes
	Seed int64  `json:"seed"` // lcg seed (when N > 0)
	N    int    `json:"n"`
	E    int    `json:"e"` // error class delivered with the message, -1 = none
}

func vlcg(seed int64, n int) []byte {
	x := seed
	out := make([]byte, n)
	for i := 0; i < n; i++ {
		x = (x*1103515245 + 12345) % 2147483648
		out[i] = byte((x / 65536) % 256)
	}
	return out
}

func (m vmsg) bytes() []byte {
	if m.N > 0 {
		return vlcg(m.Seed, m.N)
	}
	b, _ := hex.DecodeString(m.D)
	return b
}

// vstream is the scripted msgStream.
type vstream struct {
	mu     sync.Mutex
	script []vmsg
	pos    int
	// when live is set, Read blocks at the end of the script until more is fed or the stream is closed
	live bool
	// when stepped is set, every Read needs a permit (one per HRecv op of the schedule)
	stepped     bool
	permits     chan struct{}
	readEntered int
	// when deadlines is set, a live Read returns a timeout error at the read deadline
	deadlines bool
	rddl      time.Time
	wake   chan struct{}
	closed chan struct{}
	once   sync.Once

	buffered  uint64
	maxSeen   uint64
	threshold uint64
	onLow     func()
	written   [][]byte
	gateWrite bool          // Write blocks until release is signalled
	entered   chan struct{} // signalled when a gated Write has entered
	release   chan struct{}
	baCalls   int
}

func newVstream(script []vmsg) *vstream {
	return &vstream{script: script, closed: make(chan struct{}), wake: make(chan struct{}, 1),
		entered: make(chan struct{}, 16), release: make(chan struct{}), permits: make(chan struct{}, 1024)}
}

func (s *vstream) feed(m vmsg) {
	s.mu.Lock()
	s.script = append(s.script, m)
	s.mu.Unlock()
	select {
	case s.wake <- struct{}{}:
	default:
	}
}

func (s *vstream) Read(b []byte) (int, error) {
	s.mu.Lock()
	s.readEntered++
	stepped := s.stepped
	s.mu.Unlock()
	if stepped {
		select {
		case <-s.permits:
		case <-s.closed:
			return 0, verr{vEOS}
		}
	}
	for {
		s.mu.Lock()
		if s.pos < len(s.script) {
			m := s.script[s.pos]
			s.pos++
			s.mu.Unlock()
			d := m.bytes()
			if len(d) > len(b) {
				return 0, verr{vShort}
			}
			var err error
			if m.E >= 0 {
				err = verr{m.E}
			}
			return copy(b, d), err
		}
		live := s.live
		var tmo <-chan time.Time
		if s.deadlines && !s.rddl.IsZero() {
			tmo = time.After(time.Until(s.rddl))
		}
		s.mu.Unlock()
		if !live {
			return 0, verr{vEOS}
		}
		select {
		case <-s.closed:
			return 0, verr{vEOS}
		case <-tmo:
			return 0, verr{vTimeout}
		case <-s.wake:
		}
	}
}

func (s *vstream) Write(b []byte) (int, error) {
	s.mu.Lock()
	gate := s.gateWrite
	s.mu.Unlock()
	if gate {
		s.entered <- struct{}{}
		<-s.release
	}
	s.mu.Lock()
	defer s.mu.Unlock()
	s.buffered += uint64(len(b))
	if s.buffered > s.maxSeen {
		s.maxSeen = s.buffered
	}
	s.written = append(s.written, append([]byte(nil), b...))
	return len(b), nil
}

// drain releases d buffered bytes the way pion/sctp's Stream.onBufferReleased does:
// the low-threshold callback fires when the amount crosses the threshold downwards.
func (s *vstream) drain(d uint64) {
	s.mu.Lock()
	from := s.buffered
	if d > s.buffered {
		d = s.buffered
	}
	s.buffered -= d
	fire := s.onLow != nil && from > s.threshold && s.buffered <= s.threshold
	f := s.onLow
	s.mu.Unlock()
	if fire {
		f()
	}
}

func (s *vstream) Close() error {
	s.once.Do(func() { close(s.closed) })
	return nil
}
func (s *vstream) BufferedAmount() uint64 {
	s.mu.Lock()
	defer s.mu.Unlock()
	s.baCalls++
	return s.buffered
}
func (s *vstream) SetReadDeadline(t time.Time) error {
	s.mu.Lock()
	s.rddl = t
	s.mu.Unlock()
	return nil
}

// foreign adds bytes to the buffered amount without going through SCTPConn.Write
// (what hbClient.sendLoop does with its heartbeats).
func (s *vstream) foreign(n uint64) {
	s.mu.Lock()
	s.buffered += n
	if s.buffered > s.maxSeen {
		s.maxSeen = s.buffered
	}
	s.mu.Unlock()
}
func (s *vstream) SetBufferedAmountLowThreshold(th uint64) {
	s.mu.Lock()
	s.threshold = th
	s.mu.Unlock()
}
func (s *vstream) OnBufferedAmountLow(f func()) {
	s.mu.Lock()
	s.onLow = f
	s.mu.Unlock()
}

// vconn is a do-nothing net.Conn for the conn field of SCTPConn.
type vconn struct{ tag string }

func (vconn) Read([]byte) (int, error)         { return 0, verr{vEOS} }
func (vconn) Write(b []byte) (int, error)      { return len(b), nil }
func (vconn) Close() error                     { return nil }
func (vconn) LocalAddr() net.Addr              { return &net.UDPAddr{} }
func (vconn) RemoteAddr() net.Addr             { return &net.UDPAddr{} }
func (vconn) SetDeadline(time.Time) error      { return nil }
func (vconn) SetReadDeadline(time.Time) error  { return nil }
func (vconn) SetWriteDeadline(time.Time) error { return nil }

// goroutineState looks for a goroutine whose stack contains every string of has
// and none of hasNot; it returns "" if there is none, "blocked" if it is parked
// in a select / channel operation, and "running" otherwise.
func goroutineState(has []string, hasNot []string) string {
	buf := make([]byte, 4<<20)
	n := runtime.Stack(buf, true)
	res := ""
outer:
	for _, g := range strings.Split(string(buf[:n]), "\n\n") {
		for _, h := range has {
			if !strings.Contains(g, h) {
				continue outer
			}
		}
		for _, h := range hasNot {
			if strings.Contains(g, h) {
				continue outer
			}
		}
		head := g
		if i := strings.IndexByte(g, '\n'); i >= 0 {
			head = g[:i]
		}
		if strings.Contains(head, "[select") || strings.Contains(head, "[chan receive") || strings.Contains(head, "[chan send") {
			return "blocked"
		}
		res = "running"
	}
	return res
}

func goroutineBlockedIn(fn string, states ...string) bool {
	buf := make([]byte, 1<<20)
	n := runtime.Stack(buf, true)
	for _, g := range strings.Split(string(buf[:n]), "\n\n") {
		if !strings.Contains(g, fn) {
			continue
		}
		head := g
		if i := strings.IndexByte(g, '\n'); i >= 0 {
			head = g[:i]
		}
		for _, st := range states {
			if strings.Contains(head, "["+st) {
				return true
			}
		}
	}
	return false
}

func vreadCases(t *testing.T, into interface{}) bool {
	raw, err := os.ReadFile(os.Getenv("VERIF_CASES"))
	if err != nil {
		t.Skip("no cases")
		return false
	}
	if err := json.Unmarshal(raw, into); err != nil {
		t.Fatal(err)
	}
	return true
}

func vwriteOut(t *testing.T, res interface{}) {
	out, _ := json.Marshal(res)
	if err := os.WriteFile(os.Getenv("VERIF_OUT"), out, 0o644); err != nil {
		t.Fatal(err)
	}
}
