package dtls

// C16 (i) under concurrency: SCTPConn.Read called from k goroutines on ONE connection.
//
// Deterministic lane: the scripted stream's Read is a schedule point (a permit per message, as in
// the heartbeat-queue lane); the driver starts Reads and grants messages one action at a time and
// waits in between until every reader is at rest (returned, parked on the read mutex, or waiting
// in the stream), reading goroutine states from runtime.Stack.  Observables: what every Read
// returned, grouped by the driver action after which it returned.  Free-running lane: k readers
// against a feeder (byte conservation; -race in the thorough tier).  No assertions here.

import (
	"encoding/hex"
	"math/rand"
	"runtime"
	"sort"
	"strconv"
	"strings"
	"sync"
	"testing"
	"time"
)

type mrCase struct {
	K      int     `json:"k"`
	Mx     int     `json:"mx"`
	Script []vmsg  `json:"script"`
	Sizes  [][]int `json:"sizes"`  // per reader: buffer sizes of its successive Reads
	Policy string  `json:"policy"` // all-first | grant-first | random
	Seed   int64   `json:"seed"`
}
type mrRead struct {
	R    int    `json:"r"`
	Size int    `json:"size"`
	D    string `json:"d"`
	E    int    `json:"e"`
}
type mrPhase struct {
	Op       string   `json:"op"` // S (start reader T) | G (the stream delivers its next message)
	T        int      `json:"t"`
	Rets     []mrRead `json:"rets"`
	Parked   []bool   `json:"parked"`
	AtStream int      `json:"at_stream"` // the reader waiting inside stream.Read, -1 if none
}
type mrRes struct {
	Phases []mrPhase `json:"phases"`
	Note   string    `json:"note,omitempty"`
}

type mrDone struct {
	r    int
	size int
	n    int
	err  error
	b    []byte
	p    interface{}
}

func runMrCase(c mrCase) (res mrRes) {
	st := newVstream(c.Script)
	st.stepped = true
	conn := newSCTPConn(st, vconn{}, uint64(c.Mx))
	rng := rand.New(rand.NewSource(c.Seed))
	done := make(chan mrDone, 1024)
	goidOf := make([]int64, c.K)
	live := make([]bool, c.K)
	next := make([]int, c.K)
	var wg sync.WaitGroup
	defer func() {
		conn.Close() // closes the stream: readers waiting for a message see the end of the stream
		fin := make(chan struct{})
		go func() { wg.Wait(); close(fin) }()
		select {
		case <-fin:
		case <-time.After(vSlack(3 * time.Second)):
			res.Note += " readers left behind"
		}
	}()
	start := func(t int) {
		size := c.Sizes[t][next[t]]
		next[t]++
		reg := make(chan int64, 1)
		wg.Add(1)
		go func() {
			defer wg.Done()
			reg <- mwGoid()
			d := mrDone{r: t, size: size, b: make([]byte, size)}
			func() {
				defer func() {
					if r := recover(); r != nil {
						d.p = r
					}
				}()
				d.n, d.err = conn.Read(d.b)
			}()
			done <- d
		}()
		goidOf[t] = <-reg
		live[t] = true
	}
	atStream := -1
	settle := func(ph *mrPhase) bool {
		deadline := time.Now().Add(vSlack(15 * time.Second))
		parked := make([]bool, c.K)
		for {
		drainCh:
			for {
				select {
				case d := <-done:
					live[d.r] = false
					if d.p != nil {
						ph.Rets = append(ph.Rets, mrRead{R: d.r, Size: d.size, E: vPanic})
					} else {
						n := d.n
						if n < 0 || n > len(d.b) {
							n = 0
						}
						ph.Rets = append(ph.Rets, mrRead{R: d.r, Size: d.size, D: hex.EncodeToString(d.b[:n]), E: vclass(d.err)})
					}
				default:
					break drainCh
				}
			}
			buf := make([]byte, 1<<20)
			buf = buf[:runtimeStackAll(buf)]
			rest := true
			atStream = -1
			for t := 0; t < c.K; t++ {
				parked[t] = false
				if !live[t] {
					continue
				}
				state, inStream := mrState(string(buf), goidOf[t])
				switch {
				case inStream && strings.HasPrefix(state, "select"):
					atStream = t
				case !inStream && mwParkedState(state):
					parked[t] = true
				default:
					rest = false
				}
			}
			if rest {
				break
			}
			if time.Now().After(deadline) {
				res.Note += " readers neither parked nor finished"
				return false
			}
			time.Sleep(20 * time.Microsecond)
		}
		sort.SliceStable(ph.Rets, func(i, j int) bool { return ph.Rets[i].R < ph.Rets[j].R })
		ph.Parked = append([]bool(nil), parked...)
		ph.AtStream = atStream
		return true
	}
	for step := 0; step < 2000; step++ {
		var starts []int
		anyLive := false
		for t := 0; t < c.K; t++ {
			if live[t] {
				anyLive = true
			} else if next[t] < len(c.Sizes[t]) {
				starts = append(starts, t)
			}
		}
		canGrant := atStream >= 0
		if len(starts) == 0 && !canGrant {
			if anyLive {
				res.Note += " readers held although nobody is in the stream"
			}
			return
		}
		doStart := len(starts) > 0
		switch c.Policy {
		case "grant-first":
			doStart = !canGrant
		case "random":
			if doStart && canGrant {
				doStart = rng.Intn(2) == 0
			}
		}
		var ph mrPhase
		if doStart {
			t := starts[0]
			if c.Policy == "random" {
				t = starts[rng.Intn(len(starts))]
			}
			ph = mrPhase{Op: "S", T: t}
			start(t)
		} else {
			ph = mrPhase{Op: "G", T: atStream}
			st.permits <- struct{}{}
			// the reader in the stream leaves it: wait until it has taken the permit
			deadline := time.Now().Add(vSlack(10 * time.Second))
			for len(st.permits) > 0 && time.Now().Before(deadline) {
				time.Sleep(10 * time.Microsecond)
			}
		}
		ok := settle(&ph)
		res.Phases = append(res.Phases, ph)
		if !ok {
			return
		}
	}
	res.Note += " step limit"
	return
}

func runtimeStackAll(buf []byte) int { return runtime.Stack(buf, true) }

// mrState: wait state of goroutine id and whether it is inside the scripted stream
func mrState(dump string, id int64) (string, bool) {
	for _, g := range strings.Split(dump, "\n\n") {
		head := g
		if i := strings.IndexByte(g, '\n'); i >= 0 {
			head = g[:i]
		}
		f := strings.Fields(head)
		if len(f) < 3 || f[0] != "goroutine" || f[1] != strconv.FormatInt(id, 10) {
			continue
		}
		st := head[strings.IndexByte(head, '[')+1:]
		if i := strings.IndexAny(st, ",]"); i >= 0 {
			st = st[:i]
		}
		return st, strings.Contains(g, "dtls.(*vstream).Read(")
	}
	return "gone", false
}

func TestVerifC16Mr(t *testing.T) {
	var cases []mrCase
	if !vreadCases(t, &cases) {
		return
	}
	res := make([]mrRes, len(cases))
	for i, c := range cases {
		res[i] = runMrCase(c)
	}
	vwriteOut(t, res)
}

// ---------------------------------------------------------------- free-running readers

type mrStressCase struct {
	K     int   `json:"k"`
	Mx    int   `json:"mx"`
	Msgs  int   `json:"msgs"`
	Seed  int64 `json:"seed"`
	MaxRd int   `json:"max_rd"`
}
type mrStressRes struct {
	Fed      int    `json:"fed"`      // bytes fed to the stream
	Got      int    `json:"got"`      // bytes returned by all Reads together
	FedSum   uint64 `json:"fed_sum"`  // order-independent checksum of the bytes fed
	GotSum   uint64 `json:"got_sum"`  // ... of the bytes returned
	Errors   int    `json:"errors"`   // Reads that returned an error
	Overlong int    `json:"overlong"` // Reads that returned more than their buffer
	Hung     bool   `json:"hung"`
	Panics   int    `json:"panics"`
}

func mrMix(b byte) uint64 { x := uint64(b) + 1; return x * x * 2654435761 }

func runMrStress(c mrStressCase) (res mrStressRes) {
	st := newVstream(nil)
	st.live = true
	conn := newSCTPConn(st, vconn{}, uint64(c.Mx))
	rng := rand.New(rand.NewSource(c.Seed))
	var mu sync.Mutex
	var wg sync.WaitGroup
	for r := 0; r < c.K; r++ {
		wg.Add(1)
		go func(r int) {
			defer wg.Done()
			lr := rand.New(rand.NewSource(c.Seed*977 + int64(r)))
			for {
				b := make([]byte, 1+lr.Intn(c.MaxRd))
				var n int
				var err error
				panicked := false
				func() {
					defer func() {
						if r := recover(); r != nil {
							panicked = true
						}
					}()
					n, err = conn.Read(b)
				}()
				if panicked {
					mu.Lock()
					res.Panics++
					mu.Unlock()
					return
				}
				mu.Lock()
				if n > len(b) {
					res.Overlong++
					n = len(b)
				}
				if n > 0 {
					res.Got += n
					for _, x := range b[:n] {
						res.GotSum += mrMix(x)
					}
				}
				if err != nil {
					res.Errors++
				}
				mu.Unlock()
				if err != nil {
					return
				}
			}
		}(r)
	}
	for i := 0; i < c.Msgs; i++ {
		n := 1 + rng.Intn(c.Mx)
		d := make([]byte, n)
		rng.Read(d)
		res.Fed += n
		for _, x := range d {
			res.FedSum += mrMix(x)
		}
		st.feed(vmsg{D: hex.EncodeToString(d), E: -1})
	}
	// wait until everything fed has been handed out, then end the stream
	deadline := time.Now().Add(vSlack(10 * time.Second))
	for time.Now().Before(deadline) {
		mu.Lock()
		g, dead := res.Got, res.Panics
		mu.Unlock()
		if g >= res.Fed || dead > 0 {
			break
		}
		time.Sleep(200 * time.Microsecond)
	}
	conn.Close()
	fin := make(chan struct{})
	go func() { wg.Wait(); close(fin) }()
	select {
	case <-fin:
	case <-time.After(vSlack(5 * time.Second)):
		res.Hung = true
	}
	return
}

func TestVerifC16MrStress(t *testing.T) {
	var cases []mrStressCase
	if !vreadCases(t, &cases) {
		return
	}
	res := make([]mrStressRes, len(cases))
	for i, c := range cases {
		res[i] = runMrStress(c)
	}
	vwriteOut(t, res)
}
