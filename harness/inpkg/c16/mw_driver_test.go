package dtls

// C16 (vi): SCTPConn.Write called from k goroutines on ONE connection.
//
// The stream stand-in (mwstream) turns BufferedAmount() and Write() into schedule points: a call
// ARRIVES at the stream and is held there; the driver RELEASES it later (answers BufferedAmount with
// the amount buffered at that moment / performs the Write).  Between two driver actions the driver
// waits until every writer goroutine is at rest -- held at the stream, returned, or parked inside
// SCTPConn.Write (goroutine states from runtime.Stack, no sleeps, no timing assumptions) -- and
// records which calls arrived.  Which writer gets there is decided by the code under test (its
// mutex), which call is released next by the case's policy.  No assertions about conjure here: the
// event log, the per-writer "parked" flags and the largest buffered amount are the observables.
//
// Touches no unexported field of pkg/dtls (the token length goes through the shim).

import (
	"math/rand"
	"runtime"
	"sort"
	"strconv"
	"strings"
	"sync"
	"testing"
	"time"
)

type mwCall struct {
	goid   int64
	kind   byte // 'B' BufferedAmount, 'W' Write
	n      uint64
	resume chan uint64
}

type mwstream struct {
	mu        sync.Mutex
	buffered  uint64
	maxSeen   uint64
	threshold uint64
	onLow     func()
	free      bool // no schedule points any more (clean-up)
	calls     chan *mwCall
	closed    chan struct{}
	once      sync.Once
}

func newMwstream() *mwstream {
	return &mwstream{calls: make(chan *mwCall, 4096), closed: make(chan struct{})}
}

func mwGoid() int64 {
	var b [64]byte
	n := runtime.Stack(b[:], false)
	f := strings.Fields(string(b[:n]))
	if len(f) < 2 {
		return -1
	}
	id, _ := strconv.ParseInt(f[1], 10, 64)
	return id
}

func (s *mwstream) BufferedAmount() uint64 {
	s.mu.Lock()
	free, cur := s.free, s.buffered
	s.mu.Unlock()
	if free {
		return cur
	}
	c := &mwCall{goid: mwGoid(), kind: 'B', resume: make(chan uint64, 1)}
	s.calls <- c
	return <-c.resume
}

func (s *mwstream) Write(b []byte) (int, error) {
	s.mu.Lock()
	free := s.free
	if free {
		s.add(uint64(len(b)))
	}
	s.mu.Unlock()
	if free {
		return len(b), nil
	}
	c := &mwCall{goid: mwGoid(), kind: 'W', n: uint64(len(b)), resume: make(chan uint64, 1)}
	s.calls <- c
	<-c.resume // the driver has accounted for the bytes when it released the call
	return len(b), nil
}

// add: mu held
func (s *mwstream) add(n uint64) {
	s.buffered += n
	if s.buffered > s.maxSeen {
		s.maxSeen = s.buffered
	}
}

// drain releases d buffered bytes as pion/sctp's onBufferReleased does; reports whether the low-threshold callback fired
func (s *mwstream) drain(d uint64) (uint64, bool) {
	s.mu.Lock()
	from := s.buffered
	if d > s.buffered {
		d = s.buffered
	}
	s.buffered -= d
	fire := s.onLow != nil && from > s.threshold && s.buffered <= s.threshold
	f := s.onLow
	s.mu.Unlock()
	if fire {
		f()
	}
	return d, fire
}

func (s *mwstream) Read(b []byte) (int, error)      { <-s.closed; return 0, verr{vEOS} }
func (s *mwstream) Close() error                    { s.once.Do(func() { close(s.closed) }); return nil }
func (s *mwstream) SetReadDeadline(time.Time) error { return nil }
func (s *mwstream) SetBufferedAmountLowThreshold(th uint64) {
	s.mu.Lock()
	s.threshold = th
	s.mu.Unlock()
}
func (s *mwstream) OnBufferedAmountLow(f func()) {
	s.mu.Lock()
	s.onLow = f
	s.mu.Unlock()
}

// goroutine id -> (wait state, inside the stream stand-in?)
type mwG struct {
	state  string
	inStub bool
}

func mwSnapshot() map[int64]mwG {
	buf := make([]byte, 1<<20)
	for {
		n := runtime.Stack(buf, true)
		if n < len(buf) {
			buf = buf[:n]
			break
		}
		buf = make([]byte, 2*len(buf))
	}
	out := map[int64]mwG{}
	for _, g := range strings.Split(string(buf), "\n\n") {
		if !strings.HasPrefix(g, "goroutine ") {
			continue
		}
		head := g
		if i := strings.IndexByte(g, '\n'); i >= 0 {
			head = g[:i]
		}
		f := strings.Fields(head)
		if len(f) < 3 {
			continue
		}
		id, err := strconv.ParseInt(f[1], 10, 64)
		if err != nil {
			continue
		}
		st := head[strings.IndexByte(head, '[')+1:]
		if i := strings.IndexAny(st, ",]"); i >= 0 {
			st = st[:i]
		}
		out[id] = mwG{state: st, inStub: strings.Contains(g, "dtls.(*mwstream)")}
	}
	return out
}

func mwParkedState(st string) bool {
	for _, p := range []string{"select", "sync.Mutex.Lock", "semacquire", "chan receive", "chan send", "sync.Cond.Wait", "sync.RWMutex"} {
		if strings.HasPrefix(st, p) {
			return true
		}
	}
	return false
}

type mwCase struct {
	K         int        `json:"k"`
	Sizes     [][]uint64 `json:"sizes"`  // per writer: the lengths of its successive Writes
	Policy    string     `json:"policy"` // ba-first | w-first | random
	Seed      int64      `json:"seed"`
	Drains    []uint64   `json:"drains"`     // what the network releases, in order
	DrainMode string     `json:"drain_mode"` // never | stuck (only when every writer is held back) | every (after each stream.Write) | random
	Foreign   int        `json:"foreign"`    // random policy: number of 32-byte writes past SCTPConn
	Close     bool       `json:"close"`      // random policy: Close may come at any moment
}
type mwEvent struct {
	E      string `json:"e"` // S start | aB, aW arrivals | B, W releases | R return | D drain | X foreign | C close | Q at rest
	T      int    `json:"t"`
	N      uint64 `json:"n"`
	K      int    `json:"k"`
	Err    int    `json:"err"`
	Fired  bool   `json:"fired,omitempty"`
	Parked []bool `json:"parked,omitempty"`
	Buf    uint64 `json:"buf"`
	Token  bool   `json:"token"`
}
type mwRes struct {
	Events  []mwEvent `json:"events"`
	MaxSeen uint64    `json:"maxseen"`
	Note    string    `json:"note,omitempty"`
}

type mwDone struct {
	t   int
	n   int
	err error
	p   interface{}
}

func runMwCase(c mwCase) (res mwRes) {
	st := newMwstream()
	conn := newSCTPConn(st, vconn{}, 65535)
	rng := rand.New(rand.NewSource(c.Seed))
	done := make(chan mwDone, 4096)
	goidOf := make([]int64, c.K)
	writerOf := map[int64]int{}
	live := make([]bool, c.K)
	next := make([]int, c.K)
	pending := make([]*mwCall, c.K)
	closedConn := false
	drainIdx := 0
	foreignLeft := c.Foreign
	var wg sync.WaitGroup

	defer func() {
		st.mu.Lock()
		st.free = true
		res.MaxSeen = st.maxSeen
		st.mu.Unlock()
		conn.Close()
		for t := range pending {
			if pending[t] != nil {
				pending[t].resume <- 0
				pending[t] = nil
			}
		}
		fin := make(chan struct{})
		go func() { wg.Wait(); close(fin) }()
		for {
			select {
			case cl := <-st.calls:
				cl.resume <- 0
				continue
			case <-fin:
			case <-time.After(vSlack(3 * time.Second)):
				res.Note += " writers left behind"
			}
			break
		}
	}()

	log := func(e mwEvent) { res.Events = append(res.Events, e) }

	start := func(t int) {
		n := c.Sizes[t][next[t]]
		next[t]++
		log(mwEvent{E: "S", T: t, N: n})
		reg := make(chan int64, 1)
		wg.Add(1)
		go func() {
			defer wg.Done()
			reg <- mwGoid()
			d := mwDone{t: t}
			func() {
				defer func() {
					if r := recover(); r != nil {
						d.p = r
					}
				}()
				d.n, d.err = conn.Write(make([]byte, n))
			}()
			done <- d
		}()
		goidOf[t] = <-reg
		writerOf[goidOf[t]] = t
		live[t] = true
	}

	// settle: wait until every writer with a Write in progress is at rest; log what arrived
	settle := func() bool {
		deadline := time.Now().Add(vSlack(15 * time.Second))
		var rets []mwDone
		var arrs []*mwCall
		parked := make([]bool, c.K)
		for {
			// first take what has been sent so far, THEN look at the goroutines: a writer counted as returned
			// has released the mutex before the snapshot, so whoever it woke up is not seen as parked any more
		drainCh:
			for {
				select {
				case d := <-done:
					rets = append(rets, d)
					live[d.t] = false
				case cl := <-st.calls:
					t, ok := writerOf[cl.goid]
					if !ok || !live[t] || pending[t] != nil {
						// a call from somewhere else: answer it on the spot
						st.mu.Lock()
						v := st.buffered
						if cl.kind == 'W' {
							st.add(cl.n)
						}
						st.mu.Unlock()
						cl.resume <- v
						res.Note += " call from an unknown goroutine"
						continue
					}
					pending[t] = cl
					arrs = append(arrs, cl)
				default:
					break drainCh
				}
			}
			snap := mwSnapshot()
			rest := true
			for t := 0; t < c.K; t++ {
				parked[t] = false
				if !live[t] || pending[t] != nil {
					continue
				}
				g, ok := snap[goidOf[t]]
				if ok && !g.inStub && mwParkedState(g.state) {
					parked[t] = true
					continue
				}
				rest = false
			}
			if rest {
				break
			}
			if time.Now().After(deadline) {
				res.Note += " writers neither parked nor finished"
				return false
			}
			time.Sleep(20 * time.Microsecond)
		}
		sort.Slice(rets, func(i, j int) bool { return rets[i].t < rets[j].t })
		for _, d := range rets {
			if d.p != nil {
				log(mwEvent{E: "R", T: d.t, Err: vPanic})
			} else {
				log(mwEvent{E: "R", T: d.t, K: d.n, Err: vclass(d.err)})
			}
		}
		sort.Slice(arrs, func(i, j int) bool { return writerOf[arrs[i].goid] < writerOf[arrs[j].goid] })
		for _, cl := range arrs {
			if cl.kind == 'B' {
				log(mwEvent{E: "aB", T: writerOf[cl.goid]})
			} else {
				log(mwEvent{E: "aW", T: writerOf[cl.goid], N: cl.n})
			}
		}
		st.mu.Lock()
		b := st.buffered
		st.mu.Unlock()
		log(mwEvent{E: "Q", Parked: append([]bool(nil), parked...), Buf: b, Token: vTokenLen(conn) > 0})
		return true
	}

	release := func(t int) {
		cl := pending[t]
		pending[t] = nil
		st.mu.Lock()
		v := st.buffered
		if cl.kind == 'W' {
			st.add(cl.n)
		}
		st.mu.Unlock()
		if cl.kind == 'B' {
			log(mwEvent{E: "B", T: t, N: v})
		} else {
			log(mwEvent{E: "W", T: t, N: cl.n})
		}
		cl.resume <- v
	}
	drain := func() {
		d, fired := st.drain(c.Drains[drainIdx])
		drainIdx++
		log(mwEvent{E: "D", N: d, Fired: fired})
	}

	for step := 0; step < 4000; step++ {
		if !settle() {
			return
		}
		var starts, relB, relW []int
		anyLive := false
		for t := 0; t < c.K; t++ {
			if live[t] {
				anyLive = true
			}
			if !live[t] && next[t] < len(c.Sizes[t]) && !closedConn {
				starts = append(starts, t)
			}
			if pending[t] != nil && pending[t].kind == 'B' {
				relB = append(relB, t)
			}
			if pending[t] != nil && pending[t].kind == 'W' {
				relW = append(relW, t)
			}
		}
		drainsLeft := drainIdx < len(c.Drains)
		if len(starts)+len(relB)+len(relW) == 0 {
			if !anyLive {
				return // every Write has returned
			}
			// every writer in progress is held back
			if drainsLeft && c.DrainMode != "never" {
				drain()
			} else if !closedConn {
				log(mwEvent{E: "C"})
				conn.Close()
				closedConn = true
			} else {
				res.Note += " writers stuck after Close"
				return
			}
			continue
		}
		switch c.Policy {
		case "ba-first", "w-first":
			first, second := relB, relW
			if c.Policy == "w-first" {
				first, second = relW, relB
			}
			switch {
			case len(starts) > 0:
				start(starts[0])
			case len(first) > 0:
				release(first[0])
				if c.Policy == "w-first" && c.DrainMode == "every" && drainsLeft {
					drain()
				}
			default:
				release(second[0])
				if c.Policy == "ba-first" && c.DrainMode == "every" && drainsLeft {
					drain()
				}
			}
		default: // random
			type act struct {
				kind byte
				t    int
			}
			var acts []act
			for _, t := range starts {
				acts = append(acts, act{'S', t})
			}
			for _, t := range relB {
				acts = append(acts, act{'B', t}, act{'B', t})
			}
			for _, t := range relW {
				acts = append(acts, act{'W', t}, act{'W', t})
			}
			if drainsLeft && (c.DrainMode == "random" || c.DrainMode == "every") {
				acts = append(acts, act{'D', 0})
			}
			if foreignLeft > 0 {
				acts = append(acts, act{'X', 0})
			}
			if c.Close && !closedConn && rng.Intn(40) == 0 {
				acts = append(acts, act{'C', 0})
			}
			a := acts[rng.Intn(len(acts))]
			switch a.kind {
			case 'S':
				start(a.t)
			case 'B', 'W':
				release(a.t)
			case 'D':
				drain()
			case 'X':
				foreignLeft--
				st.mu.Lock()
				st.add(32)
				st.mu.Unlock()
				log(mwEvent{E: "X", N: 32})
			case 'C':
				log(mwEvent{E: "C"})
				conn.Close()
				closedConn = true
			}
		}
	}
	res.Note += " step limit"
	return
}

func TestVerifC16Mw(t *testing.T) {
	var cases []mwCase
	if !vreadCases(t, &cases) {
		return
	}
	res := make([]mwRes, len(cases))
	for i, c := range cases {
		res[i] = runMwCase(c)
	}
	vwriteOut(t, res)
}

// ---------------------------------------------------------------- free-running writers (stress; -race in the thorough tier)

type mwfree struct {
	mu        sync.Mutex
	buffered  uint64
	maxSeen   uint64
	written   uint64
	threshold uint64
	onLow     func()
	fired     int
	closed    chan struct{}
	once      sync.Once
}

func (s *mwfree) BufferedAmount() uint64 {
	s.mu.Lock()
	v := s.buffered
	s.mu.Unlock()
	runtime.Gosched() // a real stream takes its own lock here: let the others run
	return v
}
func (s *mwfree) Write(b []byte) (int, error) {
	s.mu.Lock()
	s.buffered += uint64(len(b))
	s.written += uint64(len(b))
	if s.buffered > s.maxSeen {
		s.maxSeen = s.buffered
	}
	s.mu.Unlock()
	return len(b), nil
}
func (s *mwfree) drain(d uint64) {
	s.mu.Lock()
	from := s.buffered
	if d > s.buffered {
		d = s.buffered
	}
	s.buffered -= d
	fire := s.onLow != nil && from > s.threshold && s.buffered <= s.threshold
	if fire {
		s.fired++
	}
	f := s.onLow
	s.mu.Unlock()
	if fire {
		f()
	}
}
func (s *mwfree) Read(b []byte) (int, error)      { <-s.closed; return 0, verr{vEOS} }
func (s *mwfree) Close() error                    { s.once.Do(func() { close(s.closed) }); return nil }
func (s *mwfree) SetReadDeadline(time.Time) error { return nil }
func (s *mwfree) SetBufferedAmountLowThreshold(th uint64) {
	s.mu.Lock()
	s.threshold = th
	s.mu.Unlock()
}
func (s *mwfree) OnBufferedAmountLow(f func()) {
	s.mu.Lock()
	s.onLow = f
	s.mu.Unlock()
}

type mwStressCase struct {
	K        int    `json:"k"`
	Msgs     int    `json:"msgs"`
	Seed     int64  `json:"seed"`
	Drain    string `json:"drain"` // never | slow | fast
	MaxSize  int    `json:"max_size"`
	BudgetMs int    `json:"budget_ms"`
}
type mwStressRes struct {
	MaxSeen  uint64 `json:"maxseen"`
	Written  uint64 `json:"written"`
	Returned int    `json:"returned"` // Writes that returned without error
	Refused  int    `json:"refused"`  // Writes that returned an error
	Fired    int    `json:"fired"`
	Hung     bool   `json:"hung"`
	Short    int    `json:"short"` // Writes that returned a length other than the buffer's
	Panics   int    `json:"panics"`
}

func runMwStress(c mwStressCase) (res mwStressRes) {
	st := &mwfree{closed: make(chan struct{})}
	conn := newSCTPConn(st, vconn{}, 65535)
	var wg sync.WaitGroup
	var mu sync.Mutex
	stop := make(chan struct{})
	for w := 0; w < c.K; w++ {
		wg.Add(1)
		go func(w int) {
			defer wg.Done()
			rng := rand.New(rand.NewSource(c.Seed*131 + int64(w)))
			for i := 0; i < c.Msgs; i++ {
				n := 1 + rng.Intn(c.MaxSize)
				if rng.Intn(4) == 0 {
					n = c.MaxSize
				}
				var k int
				var err error
				panicked := false
				func() {
					defer func() {
						if r := recover(); r != nil {
							panicked = true
						}
					}()
					k, err = conn.Write(make([]byte, n))
				}()
				if panicked {
					mu.Lock()
					res.Panics++
					mu.Unlock()
					return
				}
				mu.Lock()
				if err != nil {
					res.Refused++
				} else {
					res.Returned++
					if k != n {
						res.Short++
					}
				}
				mu.Unlock()
				if err != nil {
					return
				}
			}
		}(w)
	}
	var dg sync.WaitGroup
	if c.Drain != "never" {
		dg.Add(1)
		go func() {
			defer dg.Done()
			rng := rand.New(rand.NewSource(c.Seed))
			for {
				select {
				case <-stop:
					return
				default:
				}
				if c.Drain == "fast" {
					st.drain(uint64(1 + rng.Intn(300000)))
					runtime.Gosched()
				} else {
					st.drain(uint64(1 + rng.Intn(70000)))
					time.Sleep(time.Duration(50+rng.Intn(200)) * time.Microsecond)
				}
			}
		}()
	}
	fin := make(chan struct{})
	go func() { wg.Wait(); close(fin) }()
	budget := time.After(time.Duration(c.BudgetMs) * time.Millisecond)
	last, lastAt := uint64(0), time.Now()
wait:
	for {
		select {
		case <-fin:
			break wait
		case <-budget:
			break wait
		case <-time.After(2 * time.Millisecond):
			st.mu.Lock()
			w := st.written
			st.mu.Unlock()
			if w != last {
				last, lastAt = w, time.Now()
			} else if c.Drain == "never" && time.Since(lastAt) > 40*time.Millisecond {
				break wait // nothing moves any more: every writer is held back
			}
		}
	}
	conn.Close()
	select {
	case <-fin:
	case <-time.After(vSlack(5 * time.Second)):
		res.Hung = true
	}
	close(stop)
	dg.Wait()
	st.mu.Lock()
	res.MaxSeen, res.Written, res.Fired = st.maxSeen, st.written, st.fired
	st.mu.Unlock()
	return
}

func TestVerifC16MwStress(t *testing.T) {
	var cases []mwStressCase
	if !vreadCases(t, &cases) {
		return
	}
	res := make([]mwStressRes, len(cases))
	for i, c := range cases {
		res[i] = runMwStress(c)
	}
	vwriteOut(t, res)
}
