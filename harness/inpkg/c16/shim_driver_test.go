package dtls

// The ONLY place where the C16 drivers touch unexported struct fields of pkg/dtls by name.
// Everything else goes through the package's own constructors (NewListener, heartbeatServer,
// heartbeatClient, newSCTPConn), its methods, and the drivers' own scripted stream.
// If a field is renamed, this file stops compiling and the check reports
// "in-package driver no longer compiles against the tree under test" -- which says nothing about
// conjure's behaviour: adapt the accessor below.

import (
	"crypto/tls"
	"net"
	"reflect"
	"sync"
	"time"
	"unsafe"

	"github.com/pion/sctp"
)

// vListenerCounts: len(connToCert), len(connMap), each under its own mutex.
func vListenerCounts(l *Listener) (ncerts, nchans int) {
	l.connToCertMutex.Lock()
	ncerts = len(l.connToCert)
	l.connToCertMutex.Unlock()
	l.connMapMutex.Lock()
	nchans = len(l.connMap)
	l.connMapMutex.Unlock()
	return
}

// vTokenLen: whether the one-slot flow-control token of SCTPConn is present.
func vTokenLen(c *SCTPConn) int { return len(c.write) }

// vRecvBufSizes: the sizes of the receive buffers of a connection returned by Server / Client with SCTP
// (the SCTPConn's intermediate read buffer = bypass threshold, and the heartbeat server's read buffer
// when the connection is an accepting one).
func vRecvBufSizes(c net.Conn) ([]int, bool) {
	s, ok := c.(*SCTPConn)
	if !ok {
		return nil, false
	}
	out := []int{int(s.maxMessageSize)}
	if h, ok := s.stream.(*hbConn); ok {
		out = append(out, h.maxMessageSize)
	}
	return out, true
}

// vAssocMax: MaxMessageSize() of the real pion association under a connection returned by Server / Client
// with SCTP.  pkg/dtls keeps only the stream; the stream's association is reached by reflection.
func vAssocMax(c net.Conn) (int, bool) {
	s, ok := c.(*SCTPConn)
	if !ok {
		return 0, false
	}
	var under msgStream = s.stream
	for i := 0; i < 4; i++ {
		switch h := under.(type) {
		case *hbConn:
			under = h.stream
			continue
		case *hbClient:
			under = h.msgStream
			continue
		}
		break
	}
	st, ok := under.(*sctp.Stream)
	if !ok || st == nil {
		return 0, false
	}
	f := reflect.ValueOf(st).Elem().FieldByName("association")
	if !f.IsValid() || f.Kind() != reflect.Ptr {
		return 0, false
	}
	a := *(**sctp.Association)(unsafe.Pointer(f.UnsafeAddr()))
	if a == nil {
		return 0, false
	}
	return int(a.MaxMessageSize()), true
}

// certPair's two fields.
func vCertPair(client, server *tls.Certificate) *certPair {
	return &certPair{clientCert: client, serverCert: server}
}
func vPairClient(p *certPair) *tls.Certificate { return p.clientCert }
func vPairServer(p *certPair) *tls.Certificate { return p.serverCert }

// ---- no field names below: a Listener built by the package's own constructor over an inner
// listener that never delivers a connection (the scripted registry driver plays acceptLoop's part)

type vinner struct {
	closed chan struct{}
	once   sync.Once
}

func (v *vinner) Accept() (net.Conn, error) {
	<-v.closed
	time.Sleep(time.Millisecond)
	return nil, verr{vEOS}
}
func (v *vinner) Close() error   { v.once.Do(func() { close(v.closed) }); return nil }
func (v *vinner) Addr() net.Addr { return &net.UDPAddr{} }

func vNewListener() (*Listener, error) {
	return NewListener(&vinner{closed: make(chan struct{})}, &Config{LogAuthFail: func(*net.IP) {}, LogOther: func(*net.IP) {}})
}
