package dtls

// C16 (iv)/(v): the listener registry under scripted schedules (real acceptDTLSConn
// goroutines and hand-stepped threads calling the real registry methods), real
// Listener + Dial over loopback UDP, and the derivation of key material.

import (
	"context"
	"crypto/ecdsa"
	"crypto/sha256"
	"crypto/x509"
	"encoding/hex"
	"fmt"
	"io"
	"net"
	"runtime"
	"strings"
	"sync"
	"sync/atomic"
	"testing"
	"time"

	"github.com/pion/dtls/v2"
	"github.com/pion/dtls/v2/pkg/protocol/handshake"
	"golang.org/x/crypto/hkdf"
)

// ---------------------------------------------------------------- registry, scripted

type regOp struct {
	Op string `json:"op"`
	T  int    `json:"t"` // thread index (acceptor or connection)
}
type regCase struct {
	Secrets []string `json:"secrets"` // hex
	Asec    []int    `json:"asec"`    // acceptor -> secret index
	Areal   []bool   `json:"areal"`   // acceptor runs the real acceptDTLSConn in a goroutine
	Csec    []int    `json:"csec"`    // connection thread -> secret index
	Ops     []regOp  `json:"ops"`
}
type regObs struct {
	R      int `json:"r"`      // op-specific result code
	NCerts int `json:"ncerts"` // len(connToCert) after the op
	NChans int `json:"nchans"` // len(connMap)
}
type regRes struct {
	Steps []regObs `json:"steps"`
	Ares  []int    `json:"ares"` // per acceptor: -1 none yet, 100+c got connection c, 1 dup, 2 chan dup, 3 cancelled, 9 other error
	Apc   []int    `json:"apc"`  // per acceptor: 0 not started .. 5 returned (manual), real: 0 / 2 (in flight) / 5
	// connections that were handed to a channel, reached no acceptor, and were never closed by the listener's code
	Unclosed []int `json:"unclosed"`
	Note  string   `json:"note,omitempty"`
}

type tagConn struct {
	vconn
	idx    int
	closed *int32
}

func (t *tagConn) Close() error {
	atomic.StoreInt32(t.closed, 1)
	return nil
}

func classifyAcceptErr(err error) int {
	if err == nil {
		return 0
	}
	s := err.Error()
	switch {
	case strings.Contains(s, "error registering cert"):
		return 1
	case strings.Contains(s, "error registering channel"):
		return 2
	case err == context.Canceled || err == context.DeadlineExceeded || strings.Contains(s, "context canceled"):
		return 3
	}
	return 9
}

func runRegCase(c regCase) (res regRes) {
	defer func() {
		if r := recover(); r != nil {
			res.Note = fmt.Sprint("panic: ", r)
		}
	}()
	l, lerr := vNewListener()
	if lerr != nil {
		res.Note = lerr.Error()
		return
	}
	defer l.Close()
	nsec := len(c.Secrets)
	secrets := make([][]byte, nsec)
	ids := make([][handshake.RandomBytesLength]byte, nsec)
	cpairs := make([]*certPair, nsec)
	for i, s := range c.Secrets {
		secrets[i], _ = hex.DecodeString(s)
		ids[i], _ = clientHelloRandomFromSeed(secrets[i])
		cc, sc, err := certsFromSeed(secrets[i])
		if err != nil {
			res.Note = err.Error()
			return
		}
		cpairs[i] = vCertPair(cc, sc)
	}
	na, nc := len(c.Asec), len(c.Csec)
	res.Ares = make([]int, na)
	res.Apc = make([]int, na)
	for i := range res.Ares {
		res.Ares[i] = -1
	}
	type racc struct {
		cancel context.CancelFunc
		done   chan struct{}
		conn   net.Conn
		err    error
	}
	reals := make([]*racc, na)
	mchan := make([]<-chan net.Conn, na) // manual acceptors: their registered channel
	mcancel := make([]bool, na)
	cheld := make([]chan<- net.Conn, nc)
	cpc := make([]int, nc) // 0 C0, 1 C1, 2 C2, 3 C3, 4 sent, 5 fail, 6 drop
	cclosed := make([]int32, nc)
	cserver := make([]int, nc)
	for i := range cserver {
		cserver[i] = -1
	}
	snapshot := func(o *regObs) {
		o.NCerts, o.NChans = vListenerCounts(l)
	}
	collect := func(a int) {
		r := reals[a]
		select {
		case <-r.done:
			if r.err != nil {
				res.Ares[a] = classifyAcceptErr(r.err)
			} else if tc, ok := r.conn.(*tagConn); ok {
				res.Ares[a] = 100 + tc.idx
			} else {
				res.Ares[a] = 9
			}
			res.Apc[a] = 5
		default:
		}
	}
	// quiesce: every real acceptor goroutine is parked in acceptDTLSConn's select or has ended
	quiesce := func() bool {
		deadline := time.Now().Add(10 * time.Second)
		for anyRunning("dtls.verifAcceptWrapper(") {
			if time.Now().After(deadline) {
				return false
			}
			time.Sleep(50 * time.Microsecond)
		}
		for a := 0; a < na; a++ {
			if reals[a] != nil && res.Apc[a] != 5 {
				collect(a)
			}
		}
		return true
	}
	for _, op := range c.Ops {
		var o regObs
		a := op.T
		switch op.Op {
		case "start": // real acceptor: launch acceptDTLSConn
			if c.Areal[a] && reals[a] == nil {
				ctx, cancel := context.WithCancel(context.Background())
				r := &racc{cancel: cancel, done: make(chan struct{})}
				reals[a] = r
				res.Apc[a] = 2
				started := make(chan struct{})
				go verifAcceptWrapper(func() {
					close(started)
					r.conn, r.err = l.acceptDTLSConn(ctx, &Config{PSK: secrets[c.Asec[a]]})
					close(r.done)
				})
				<-started
				if !quiesce() {
					res.Note = "real acceptor neither parked nor returned"
					return
				}
			}
		case "cancel":
			if c.Areal[a] {
				if reals[a] != nil && res.Apc[a] != 5 {
					reals[a].cancel()
					select {
					case <-reals[a].done:
					case <-time.After(10 * time.Second):
						res.Note = "cancelled accept did not return"
						return
					}
					quiesce()
				}
			} else {
				mcancel[a] = true
			}
		case "astep": // manual acceptor: next mutex-protected section, in acceptDTLSConn's order
			if !c.Areal[a] {
				id := ids[c.Asec[a]]
				switch res.Apc[a] {
				case 0:
					if err := l.registerCert(id, vPairClient(cpairs[c.Asec[a]]), vPairServer(cpairs[c.Asec[a]])); err != nil {
						res.Ares[a], res.Apc[a] = 1, 5
					} else {
						res.Apc[a] = 1
					}
				case 1:
					ch, err := l.registerChannel(id)
					if err != nil {
						res.Ares[a], res.Apc[a] = 2, 4
					} else {
						mchan[a], res.Apc[a] = ch, 2
					}
				case 3:
					l.removeChannel(id)
					res.Apc[a] = 4
				case 4:
					l.removeCert(id)
					res.Apc[a] = 5
				}
				o.R = res.Apc[a]
			}
		case "arecv": // manual acceptor in the select: a connection is ready
			if !c.Areal[a] && res.Apc[a] == 2 {
				select {
				case conn := <-mchan[a]:
					res.Ares[a], res.Apc[a] = 100+conn.(*tagConn).idx, 3
				default:
				}
				o.R = res.Apc[a]
			}
		case "acancelled": // manual acceptor in the select: ctx.Done() is ready
			if !c.Areal[a] && res.Apc[a] == 2 && mcancel[a] {
				res.Ares[a], res.Apc[a] = 3, 3
				o.R = res.Apc[a]
			}
		case "cstep": // connection thread: hello lookup, verifyConnection's lookups, chFromID
			id := ids[c.Csec[a]]
			switch cpc[a] {
			case 0:
				cert, err := l.getCertificateFromClientHello(&dtls.ClientHelloInfo{CipherSuites: []dtls.CipherSuiteID{1}, RandomBytes: id})
				if err == nil && cert != nil {
					if k, ok := cert.PrivateKey.(*ecdsa.PrivateKey); ok {
						for i := range cpairs {
							if vPairServer(cpairs[i]).PrivateKey.(*ecdsa.PrivateKey).D.Cmp(k.D) == 0 {
								cserver[a] = i
							}
						}
					}
				}
				cpc[a] = 1
				o.R = cserver[a]
			case 1:
				// what the handshake checks: the client accepts the server certificate (same key as the one it
				// derives) and verifyConnection finds the client's certificate under the hello-random
				ok := false
				if cserver[a] >= 0 &&
					verifyCert(vPairServer(cpairs[cserver[a]]).Certificate[0], vPairServer(cpairs[c.Csec[a]]).Certificate[0]) == nil {
					if certs, err := l.getCert(id); err == nil &&
						verifyCert(vPairClient(cpairs[c.Csec[a]]).Certificate[0], vPairClient(certs).Certificate[0]) == nil {
						ok = true
					}
				}
				if ok {
					cpc[a], o.R = 2, 1
				} else {
					cpc[a], o.R = 5, 0
				}
			case 2:
				ch, err := l.chFromID(id)
				if err != nil {
					cpc[a], o.R = 6, 0
				} else {
					cheld[a], cpc[a], o.R = ch, 3, 1
				}
			}
		case "csend":
			if cpc[a] == 3 {
				select {
				case cheld[a] <- &tagConn{idx: a, closed: &cclosed[a]}:
					cpc[a], o.R = 4, 1
				default:
				}
				// a real acceptor waiting on that channel returns now
				if !quiesce() {
					res.Note = "acceptors did not settle after a send"
					return
				}
			}
		case "ctimeout":
			if cpc[a] == 3 {
				cpc[a] = 6
			}
		}
		snapshot(&o)
		res.Steps = append(res.Steps, o)
	}
	defer func() {
		got := map[int]bool{}
		for _, x := range res.Ares {
			if x >= 100 {
				got[x-100] = true
			}
		}
		for ci := 0; ci < nc; ci++ {
			if cpc[ci] == 4 && !got[ci] && atomic.LoadInt32(&cclosed[ci]) == 0 {
				res.Unclosed = append(res.Unclosed, ci)
			}
		}
	}()
	for a := 0; a < na; a++ {
		if c.Areal[a] && reals[a] != nil {
			collect(a)
			if res.Apc[a] != 5 {
				reals[a].cancel() // clean up; not part of the observation
				<-reals[a].done
			}
		}
	}
	return
}

//go:noinline
func verifAcceptWrapper(f func()) { f() }

// anyRunning reports whether a goroutine whose stack contains fn is not parked.
func anyRunning(fn string) bool {
	buf := make([]byte, 4<<20)
	n := runtime.Stack(buf, true)
	for _, g := range strings.Split(string(buf[:n]), "\n\n") {
		if !strings.Contains(g, fn) {
			continue
		}
		head := g
		if i := strings.IndexByte(g, '\n'); i >= 0 {
			head = g[:i]
		}
		if !(strings.Contains(head, "[select") || strings.Contains(head, "[chan receive") || strings.Contains(head, "[chan send")) {
			return true
		}
	}
	return false
}

func TestVerifC16Registry(t *testing.T) {
	var cases []regCase
	if !vreadCases(t, &cases) {
		return
	}
	res := make([]regRes, len(cases))
	for i, c := range cases {
		res[i] = runRegCase(c)
	}
	vwriteOut(t, res)
}

// ---------------------------------------------------------------- key material

type matCase struct {
	Secret string `json:"secret"`
	Other  string `json:"other"` // a second secret for the cross checks
}
type matCert struct {
	D      string `json:"d"`
	Serial string `json:"serial"`
	CN     string `json:"cn"`
	PubOK  bool   `json:"pubok"` // the certificate's public key is D*G
}
type matRes struct {
	Hello       string  `json:"hello"`
	Client      matCert `json:"client"`
	Server      matCert `json:"server"`
	StreamHello string  `json:"stream_hello"` // HKDF computed by the driver itself
	StreamCerts string  `json:"stream_certs"`
	Again       bool    `json:"again"`       // a second derivation gives the same hello-random, keys, serials, names
	SelfVerify  bool    `json:"self_verify"` // certificates of two derivations from the same secret verify against each other
	CrossVerify bool    `json:"cross_verify"`// a certificate derived from Other verifies against this secret's
	OtherHello  string  `json:"other_hello"`
	Err         string  `json:"err,omitempty"`
}

func matOf(c *x509.Certificate, k *ecdsa.PrivateKey) matCert {
	x, y := k.Curve.ScalarBaseMult(k.D.Bytes())
	pub, ok := c.PublicKey.(*ecdsa.PublicKey)
	return matCert{D: k.D.Text(16), Serial: c.SerialNumber.Text(16), CN: c.Subject.CommonName,
		PubOK: ok && pub.X.Cmp(x) == 0 && pub.Y.Cmp(y) == 0 && len(c.DNSNames) == 1 && c.DNSNames[0] == c.Subject.CommonName}
}

func runMatCase(c matCase) (res matRes) {
	defer func() {
		if r := recover(); r != nil {
			res.Err = fmt.Sprint("panic: ", r)
		}
	}()
	s, _ := hex.DecodeString(c.Secret)
	o, _ := hex.DecodeString(c.Other)
	h1, err := clientHelloRandomFromSeed(s)
	if err != nil {
		res.Err = err.Error()
		return
	}
	cc, sc, err := certsFromSeed(s)
	if err != nil {
		res.Err = err.Error()
		return
	}
	res.Hello = hex.EncodeToString(h1[:])
	pc, _ := x509.ParseCertificate(cc.Certificate[0])
	ps, _ := x509.ParseCertificate(sc.Certificate[0])
	res.Client = matOf(pc, cc.PrivateKey.(*ecdsa.PrivateKey))
	res.Server = matOf(ps, sc.PrivateKey.(*ecdsa.PrivateKey))
	// the HKDF streams, computed here without conjure's code
	b1 := make([]byte, 32)
	io.ReadFull(hkdf.New(sha256.New, s, []byte("clientHelloRandomFromSeed"), nil), b1)
	b2 := make([]byte, 130)
	io.ReadFull(hkdf.New(sha256.New, s, []byte("certsFromSeed"), nil), b2)
	res.StreamHello, res.StreamCerts = hex.EncodeToString(b1), hex.EncodeToString(b2)
	// the other end derives again
	h2, _ := clientHelloRandomFromSeed(s)
	cc2, sc2, err := certsFromSeed(s)
	if err == nil {
		pc2, _ := x509.ParseCertificate(cc2.Certificate[0])
		ps2, _ := x509.ParseCertificate(sc2.Certificate[0])
		res.Again = h1 == h2 && matOf(pc2, cc2.PrivateKey.(*ecdsa.PrivateKey)) == res.Client &&
			matOf(ps2, sc2.PrivateKey.(*ecdsa.PrivateKey)) == res.Server
		res.SelfVerify = verifyCert(cc2.Certificate[0], cc.Certificate[0]) == nil && verifyCert(sc2.Certificate[0], sc.Certificate[0]) == nil &&
			verifyCert(cc.Certificate[0], cc2.Certificate[0]) == nil
	}
	oc, os, err := certsFromSeed(o)
	if err == nil {
		res.CrossVerify = verifyCert(oc.Certificate[0], cc.Certificate[0]) == nil || verifyCert(os.Certificate[0], sc.Certificate[0]) == nil ||
			verifyCert(cc.Certificate[0], oc.Certificate[0]) == nil
	}
	oh, _ := clientHelloRandomFromSeed(o)
	res.OtherHello = hex.EncodeToString(oh[:])
	return
}

func TestVerifC16Material(t *testing.T) {
	var cases []matCase
	if !vreadCases(t, &cases) {
		return
	}
	res := make([]matRes, len(cases))
	for i, c := range cases {
		res[i] = runMatCase(c)
	}
	vwriteOut(t, res)
}

// ---------------------------------------------------------------- real Listener + Dial over loopback

type lbAcc struct {
	Sec      int `json:"sec"`
	CancelMs int `json:"cancel_ms"` // < 0: never cancelled
	Dup      bool `json:"dup"`      // started only after an accept with the same secret is registered
}
type lbDial struct {
	Sec     int `json:"sec"`
	DelayMs int `json:"delay_ms"`
}
type lbCase struct {
	Secrets []string `json:"secrets"`
	Accs    []lbAcc  `json:"accs"`
	Dials   []lbDial `json:"dials"`
	BudgetMs int     `json:"budget_ms"` // how long an accept may wait after the dialers started
	DialMs   int     `json:"dial_ms"`   // context of a dial
}
type lbAccRes struct {
	Err     int    `json:"err"`  // 0 ok, 1 dup, 3 cancelled/deadline, 9 other
	ErrText string `json:"errtext,omitempty"`
	Tag     string `json:"tag"` // what the accepted connection's peer sent: "<secret index>/<dial index>"
	ElapsedMs float64 `json:"elapsed_ms"`
}
type lbDialRes struct {
	Ok   bool   `json:"ok"`
	Echo string `json:"echo"` // "<acceptor's secret index>/<acceptor index>"
	ErrText string `json:"errtext,omitempty"`
}
type lbRes struct {
	Accs        []lbAccRes  `json:"accs"`
	Dials       []lbDialRes `json:"dials"`
	NCertsAfter int         `json:"ncerts_after"`
	NChansAfter int         `json:"nchans_after"`
	NCertsMid   int         `json:"ncerts_mid"` // after all first accepts have registered
	Note        string      `json:"note,omitempty"`
}

func runLbCase(c lbCase) (res lbRes) {
	secrets := make([][]byte, len(c.Secrets))
	for i, s := range c.Secrets {
		secrets[i], _ = hex.DecodeString(s)
	}
	l, err := Listen("udp", &net.UDPAddr{IP: net.IPv4(127, 0, 0, 1), Port: 0}, &Config{LogAuthFail: func(*net.IP) {}, LogOther: func(*net.IP) {}})
	if err != nil {
		res.Note = "listen: " + err.Error()
		return
	}
	defer l.Close()
	addr := l.Addr().(*net.UDPAddr)
	res.Accs = make([]lbAccRes, len(c.Accs))
	res.Dials = make([]lbDialRes, len(c.Dials))
	var wg sync.WaitGroup
	phase3 := make(chan struct{})
	runAcc := func(i int) {
		defer wg.Done()
		a := c.Accs[i]
		ctx, cancel := context.WithCancel(context.Background())
		defer cancel()
		var cancelledAt atomic.Int64
		go func() {
			// the clock of an accept starts when the dialers start
			select {
			case <-phase3:
			case <-ctx.Done():
				return
			}
			budget := 10 * time.Second
			if c.BudgetMs > 0 {
				budget = time.Duration(c.BudgetMs) * time.Millisecond
			}
			if a.CancelMs >= 0 {
				budget = time.Duration(a.CancelMs) * time.Millisecond
			}
			select {
			case <-time.After(budget):
				cancelledAt.Store(time.Now().UnixNano())
				cancel()
			case <-ctx.Done():
			}
		}()
		conn, err := l.AcceptWithContext(ctx, &Config{PSK: secrets[a.Sec], SCTP: ServerAccept})
		if at := cancelledAt.Load(); at != 0 {
			res.Accs[i].ElapsedMs = float64(time.Now().UnixNano()-at) / 1e6 // latency of the cancellation
		}
		if err != nil {
			res.Accs[i].Err = classifyAcceptErr(err)
			if res.Accs[i].Err == 9 && (strings.Contains(err.Error(), "deadline") || strings.Contains(err.Error(), "timeout") || ctx.Err() != nil) {
				res.Accs[i].Err = 3
			}
			res.Accs[i].ErrText = err.Error()
			return
		}
		defer conn.Close()
		conn.SetDeadline(time.Now().Add(5 * time.Second))
		buf := make([]byte, 64)
		n, err := conn.Read(buf)
		if err != nil {
			res.Accs[i].ErrText = "read: " + err.Error()
			return
		}
		res.Accs[i].Tag = string(buf[:n])
		conn.Write([]byte(fmt.Sprintf("%d/%d", a.Sec, i)))
		time.Sleep(20 * time.Millisecond)
	}
	// phase 1: the first accept of every secret; wait until all are registered
	first := 0
	for i, a := range c.Accs {
		if !a.Dup {
			first++
			wg.Add(1)
			go runAcc(i)
		}
	}
	deadline := time.Now().Add(60 * time.Second)
	registered := 0
	for time.Now().Before(deadline) {
		_, registered = vListenerCounts(l)
		if registered >= first {
			break
		}
		time.Sleep(200 * time.Microsecond)
	}
	if registered < first {
		res.Note = fmt.Sprintf("setup: only %d of %d accepts registered within 60 s", registered, first)
	}
	res.NCertsMid, _ = vListenerCounts(l)
	// phase 2: duplicate accepts, while the first ones are still waiting (they must be refused at once)
	var dwg sync.WaitGroup
	for i, a := range c.Accs {
		if a.Dup {
			wg.Add(1)
			dwg.Add(1)
			go func(i int) {
				defer dwg.Done()
				runAcc(i)
			}(i)
		}
	}
	dupDone := make(chan struct{})
	go func() { dwg.Wait(); close(dupDone) }()
	select {
	case <-dupDone:
	case <-time.After(2 * time.Second):
	}
	// phase 3: dialers, concurrently
	close(phase3)
	for i := range c.Dials {
		wg.Add(1)
		go func(i int) {
			defer wg.Done()
			d := c.Dials[i]
			time.Sleep(time.Duration(d.DelayMs) * time.Millisecond)
			dialBudget := 4 * time.Second
			if c.DialMs > 0 {
				dialBudget = time.Duration(c.DialMs) * time.Millisecond
			}
			ctx, cancel := context.WithTimeout(context.Background(), dialBudget)
			defer cancel()
			conn, err := DialWithContext(ctx, addr, &Config{PSK: secrets[d.Sec], SCTP: ClientOpen})
			if err != nil {
				res.Dials[i].ErrText = err.Error()
				return
			}
			defer conn.Close()
			conn.SetDeadline(time.Now().Add(4 * time.Second))
			if _, err := conn.Write([]byte(fmt.Sprintf("%d/%d", d.Sec, i))); err != nil {
				res.Dials[i].ErrText = "write: " + err.Error()
				return
			}
			buf := make([]byte, 64)
			n, err := conn.Read(buf)
			if err != nil {
				res.Dials[i].ErrText = "read: " + err.Error()
				return
			}
			res.Dials[i].Ok, res.Dials[i].Echo = true, string(buf[:n])
		}(i)
	}
	wg.Wait()
	res.NCertsAfter, res.NChansAfter = vListenerCounts(l)
	return
}

func TestVerifC16Loopback(t *testing.T) {
	var cases []lbCase
	if !vreadCases(t, &cases) {
		return
	}
	res := make([]lbRes, len(cases))
	for i, c := range cases {
		res[i] = runLbCase(c)
	}
	vwriteOut(t, res)
}
