package dtls

// C16 (ii)/(iii): the heartbeat server's queue under controlled schedules, the
// watchdog under real (short) intervals, and SCTPConn.Write flow control.

import (
	"encoding/hex"
	"fmt"
	"sync"
	"testing"
	"time"
)

// ---------------------------------------------------------------- flow control

type fcOp struct {
	Op string `json:"op"` // W n | D n | X n | G | C
	N  uint64 `json:"n"`
}
type fcCase struct {
	Ops []fcOp `json:"ops"`
}
type fcObs struct {
	Buffered uint64 `json:"buffered"`
	Token    int    `json:"token"`
	Writer   int    `json:"writer"` // 0 idle, 1 blocked in the flow-control select, 2 inside stream.Write
	Ret      bool   `json:"ret"`    // a Write returned during this op
	RetN     int    `json:"retn"`
	RetE     int    `json:"rete"`
}
type fcRes struct {
	Steps   []fcObs `json:"steps"`
	MaxSeen uint64  `json:"maxseen"`
	Note    string  `json:"note,omitempty"`
}

type wret struct {
	n   int
	err error
	p   interface{}
}

func runFcCase(c fcCase) (res fcRes) {
	st := newVstream(nil)
	st.gateWrite = true
	conn := newSCTPConn(st, vconn{}, 65535)
	var done chan wret
	writer := 0
	defer func() {
		close(st.release)
		conn.Close()
		if writer != 0 && done != nil {
			select {
			case <-done:
			case <-time.After(2 * time.Second):
			}
		}
		deadline := time.Now().Add(2 * time.Second)
		for goroutineState([]string{"dtls.(*SCTPConn).Write("}, nil) != "" && time.Now().Before(deadline) {
			time.Sleep(50 * time.Microsecond)
		}
	}()
	// settle waits until the writer goroutine is parked (or has returned)
	settle := func(o *fcObs) bool {
		deadline := time.Now().Add(10 * time.Second)
		for writer != 0 {
			select {
			case r := <-done:
				if r.p != nil {
					res.Note = fmt.Sprint("panic: ", r.p)
					o.Ret, o.RetE = true, vPanic
				} else {
					o.Ret, o.RetN, o.RetE = true, r.n, vclass(r.err)
				}
				writer = 0
				return true
			case <-st.entered:
				writer = 2
				return true
			default:
			}
			if writer == 2 {
				return true
			}
			if goroutineState([]string{"dtls.(*SCTPConn).Write("}, []string{"dtls.(*vstream).Write("}) == "blocked" {
				writer = 1
				return true
			}
			if time.Now().After(deadline) {
				res.Note = "writer neither parked nor finished"
				return false
			}
			time.Sleep(50 * time.Microsecond)
		}
		return true
	}
	for _, op := range c.Ops {
		var o fcObs
		switch op.Op {
		case "W":
			if writer == 0 {
				done = make(chan wret, 1)
				writer = 3 // started, state unknown yet
				started := make(chan struct{})
				go func(n uint64, ch chan wret) {
					close(started)
					defer func() {
						if r := recover(); r != nil {
							ch <- wret{p: r}
						}
					}()
					k, err := conn.Write(make([]byte, n))
					ch <- wret{n: k, err: err}
				}(op.N, done)
				<-started
			}
		case "D":
			st.drain(op.N)
		case "X":
			st.foreign(op.N)
		case "G":
			if writer == 2 {
				st.release <- struct{}{}
				writer = 3
			}
		case "C":
			conn.Close()
		}
		if writer == 1 {
			writer = 3 // may have been woken up by this op
		}
		if !settle(&o) {
			o.RetE = vHang
			res.Steps = append(res.Steps, o)
			return
		}
		st.mu.Lock()
		o.Buffered = st.buffered
		st.mu.Unlock()
		o.Token = vTokenLen(conn)
		o.Writer = writer
		res.Steps = append(res.Steps, o)
	}
	st.mu.Lock()
	res.MaxSeen = st.maxSeen
	st.mu.Unlock()
	return
}

func TestVerifC16Fc(t *testing.T) {
	var cases []fcCase
	if !vreadCases(t, &cases) {
		return
	}
	res := make([]fcRes, len(cases))
	for i, c := range cases {
		res[i] = runFcCase(c)
	}
	vwriteOut(t, res)
}

// ---------------------------------------------------------------- hbConn queue under a schedule

type hbqCase struct {
	Mx     int    `json:"mx"`
	Hb     string `json:"hb"`
	Script []vmsg `json:"script"`
	Ops    string `json:"ops"` // 'r' = let recvLoop read one message, 'R' = the reader's Read, 'T' = wait for the interval to elapse
	// heartbeat interval; 0 = one hour (no timer fires). Cases with 'T' use a short one: everything before the
	// 'T' has to happen within it.
	IntervalMs int `json:"interval_ms"`
}
type hbqObs struct {
	Kind int    `json:"kind"` // 0 none, 1 blocked, 2 got, 3 ErrClosed
	D    string `json:"d"`
	E    int    `json:"e"`
}
type hbqRes struct {
	Out     []hbqObs `json:"out"`
	Note    string   `json:"note,omitempty"`
}

func runHbqCase(c hbqCase) (res hbqRes) {
	st := newVstream(c.Script)
	st.stepped = true
	hb, _ := hex.DecodeString(c.Hb)
	// recvLoop and hbLoop start here; the interval is long, so neither timer fires
	interval := time.Hour
	if c.IntervalMs > 0 {
		interval = time.Duration(c.IntervalMs) * time.Millisecond
	}
	h, err := heartbeatServer(st, &heartbeatConfig{Interval: interval, Heartbeat: hb}, c.Mx)
	if err != nil {
		res.Note = err.Error()
		return
	}
	type rr struct {
		n   int
		err error
		b   []byte
	}
	var pending chan rr
	defer func() {
		// leave no goroutine of this case behind: the next case looks at goroutine states
		h.Close()
		if pending != nil {
			select {
			case <-pending:
			case <-time.After(2 * time.Second):
			}
		}
		deadline := time.Now().Add(2 * time.Second)
		for goroutineState([]string{"dtls.(*hbConn).recvLoop("}, nil) != "" && time.Now().Before(deadline) {
			time.Sleep(50 * time.Microsecond)
		}
	}()
	granted := 0
	isClosed := func() bool {
		select {
		case <-st.closed:
			return true
		default:
			return false
		}
	}
	// loopParked: recvLoop has come back for read number granted+1 (and waits for its permit), or has ended
	loopParked := func() bool {
		deadline := time.Now().Add(10 * time.Second)
		for {
			st.mu.Lock()
			entered := st.readEntered
			st.mu.Unlock()
			if entered >= granted+1 && goroutineState([]string{"dtls.(*hbConn).recvLoop("}, nil) == "blocked" {
				return true
			}
			// blocked pushing into the full queue (not inside the stream's Read)
			if entered == granted && goroutineState([]string{"dtls.(*hbConn).recvLoop("}, []string{"dtls.(*vstream).Read("}) == "blocked" {
				return true
			}
			if isClosed() && goroutineState([]string{"dtls.(*hbConn).recvLoop("}, nil) == "" {
				return true
			}
			if time.Now().After(deadline) {
				return false
			}
			time.Sleep(50 * time.Microsecond)
		}
	}
	if !loopParked() {
		res.Note = "recvLoop did not park"
		return
	}
	for _, op := range c.Ops {
		var o hbqObs
		switch op {
		case 'T':
			deadline := time.Now().Add(4*interval + 2*time.Second)
			for !(isClosed() && goroutineState([]string{"dtls.(*hbConn).recvLoop("}, nil) == "") && time.Now().Before(deadline) {
				time.Sleep(time.Millisecond)
			}
		case 'r':
			st.mu.Lock()
			held := st.readEntered == granted
			st.mu.Unlock()
			if !isClosed() && !held {
				st.permits <- struct{}{}
				granted++
			}
			if !loopParked() {
				res.Note = "recvLoop did not park"
				return
			}
		case 'R':
			if pending == nil {
				pending = make(chan rr, 1)
				started := make(chan struct{})
				go func(ch chan rr) {
					close(started)
					b := make([]byte, c.Mx)
					n, err := h.Read(b)
					ch <- rr{n, err, b}
				}(pending)
				<-started
			}
			deadline := time.Now().Add(10 * time.Second)
		wait:
			for {
				select {
				case r := <-pending:
					pending = nil
					if r.err != nil && vclass(r.err) == vClosed && r.n == 0 {
						o.Kind = 3
					} else {
						o.Kind, o.D, o.E = 2, hex.EncodeToString(r.b[:r.n]), vclass(r.err)
					}
					break wait
				default:
				}
				if goroutineState([]string{"dtls.(*hbConn).Read("}, nil) == "blocked" {
					o.Kind = 1
					break wait
				}
				if time.Now().After(deadline) {
					o.Kind, o.E = 2, vHang
					break wait
				}
				time.Sleep(50 * time.Microsecond)
			}
			if !loopParked() {
				res.Note = "recvLoop did not park after a Read"
				return
			}
		}
		res.Out = append(res.Out, o)
	}
	return
}

func TestVerifC16Hbq(t *testing.T) {
	var cases []hbqCase
	if !vreadCases(t, &cases) {
		return
	}
	res := make([]hbqRes, len(cases))
	for i, c := range cases {
		res[i] = runHbqCase(c)
	}
	vwriteOut(t, res)
}

// ---------------------------------------------------------------- watchdog (real timers, measured)

type wdCase struct {
	IntervalMs int   `json:"interval_ms"`
	HbAt       []int `json:"hb_at"`     // heartbeat arrival times, in quarters of the interval
	DataAt     []int `json:"data_at"`   // data message arrival times, in quarters
	Quarters   int   `json:"quarters"`  // observation length
	Deadlines  bool  `json:"deadlines"` // the scripted stream honours SetReadDeadline
}
type wdRes struct {
	ClosedAtMs float64 `json:"closed_at_ms"` // -1: still open at the end of the observation
	Surfaced   int     `json:"surfaced"`     // heartbeats returned by Read
	DataRead   int     `json:"data_read"`
}

func runWdCase(c wdCase) (res wdRes) {
	st := newVstream(nil)
	st.live = true
	st.deadlines = c.Deadlines
	hbPayload := []byte("6v3jyM521GkBo1lsMyVLcRyzdZ7FKEM3")
	q := time.Duration(c.IntervalMs) * time.Millisecond / 4
	start := time.Now()
	h, _ := heartbeatServer(st, &heartbeatConfig{Interval: time.Duration(c.IntervalMs) * time.Millisecond}, 1024)
	defer h.Close()
	var wg sync.WaitGroup
	var mu sync.Mutex
	stop := make(chan struct{})
	// reader: counts what surfaces
	wg.Add(1)
	go func() {
		defer wg.Done()
		b := make([]byte, 1024)
		for {
			n, err := h.Read(b)
			mu.Lock()
			if n > 0 {
				if string(b[:n]) == string(hbPayload) {
					res.Surfaced++
				} else {
					res.DataRead++
				}
			}
			mu.Unlock()
			if err != nil {
				return
			}
		}
	}()
	type ev struct {
		at   int
		data bool
	}
	var evs []ev
	for _, a := range c.HbAt {
		evs = append(evs, ev{a, false})
	}
	for _, a := range c.DataAt {
		evs = append(evs, ev{a, true})
	}
	wg.Add(1)
	go func() {
		defer wg.Done()
		for t := 0; t <= c.Quarters; t++ {
			target := start.Add(time.Duration(t) * q)
			select {
			case <-stop:
				return
			case <-time.After(time.Until(target)):
			}
			for _, e := range evs {
				if e.at == t {
					if e.data {
						st.feed(vmsg{D: hex.EncodeToString([]byte(fmt.Sprintf("data-%d", t))), E: -1})
					} else {
						st.feed(vmsg{D: hex.EncodeToString(hbPayload), E: -1})
					}
				}
			}
		}
	}()
	select {
	case <-st.closed:
		res.ClosedAtMs = float64(time.Since(start).Microseconds()) / 1000
	case <-time.After(time.Duration(c.Quarters)*q + q/2):
		res.ClosedAtMs = -1
	}
	close(stop)
	h.Close()
	wg.Wait()
	return
}

func TestVerifC16Watchdog(t *testing.T) {
	var cases []wdCase
	if !vreadCases(t, &cases) {
		return
	}
	res := make([]wdRes, len(cases))
	var wg sync.WaitGroup
	for i := range cases {
		wg.Add(1)
		go func(i int) {
			defer wg.Done()
			res[i] = runWdCase(cases[i])
		}(i)
	}
	wg.Wait()
	vwriteOut(t, res)
}

// ---------------------------------------------------------------- the window between Read's two selects (search, not a proof)

// Read finds the queue empty, recvLoop then queues the last message (it came with an error) and closes, and
// Read enters its blocking select with both cases ready.  No schedule reaches that window deterministically
// without a hook inside Read, so it is searched for: the reader is woken with message A and calls Read again
// while recvLoop pushes B (with an error) and closes.  A hit = net.ErrClosed reported while B is still queued.
type winCase struct {
	Iters int `json:"iters"`
}
type winRes struct {
	Hits     int `json:"hits"`     // closed reported, and a later Read still returned a message
	Complete int `json:"complete"` // both messages and the error arrived in order
	Other    int `json:"other"`
}

func runWinCase(c winCase) (res winRes) {
	for i := 0; i < c.Iters; i++ {
		st := newVstream(nil)
		st.live = true
		h, _ := heartbeatServer(st, &heartbeatConfig{Interval: time.Hour}, 64)
		done := make(chan int, 1)
		go func() {
			b := make([]byte, 64)
			got := 0
			for {
				k, err := h.Read(b)
				if k > 0 {
					got++
				}
				if err != nil {
					if vclass(err) == vClosed {
						if k2, _ := h.Read(b); k2 > 0 {
							done <- -1
							return
						}
					}
					if got == 2 && vclass(err) == 30 {
						done <- 2
					} else {
						done <- got
					}
					return
				}
			}
		}()
		st.feed(vmsg{D: "41", E: -1})
		st.feed(vmsg{D: "42", E: 30})
		select {
		case r := <-done:
			switch r {
			case -1:
				res.Hits++
			case 2:
				res.Complete++
			default:
				res.Other++
			}
		case <-time.After(5 * time.Second):
			res.Other++
		}
		h.Close()
	}
	return
}

func TestVerifC16ReadWindow(t *testing.T) {
	var cases []winCase
	if !vreadCases(t, &cases) {
		return
	}
	res := make([]winRes, len(cases))
	for i, c := range cases {
		res[i] = runWinCase(c)
	}
	vwriteOut(t, res)
}

// ---------------------------------------------------------------- observation: client heartbeats and the flow-control bound

// SCTPConn over the real heartbeatClient: its sendLoop writes the heartbeat straight to the stream, past
// SCTPConn.Write's flow control.  The writer drives the buffered amount to the bound through the stale token,
// nothing is drained, and the heartbeats keep adding 32 bytes each.
type hbbRes struct {
	MaxSeen    uint64 `json:"maxseen"`
	Heartbeats int    `json:"heartbeats"`
	WriterSum  uint64 `json:"writer_sum"`
}

func runHbBypass(intervalMs int, waitMs int) (res hbbRes) {
	st := newVstream(nil)
	hc, _ := heartbeatClient(st, &heartbeatConfig{Interval: time.Duration(intervalMs) * time.Millisecond})
	conn := newSCTPConn(hc, vconn{}, 65535)
	defer conn.Close()
	w := func(n int) {
		k, _ := conn.Write(make([]byte, n))
		res.WriterSum += uint64(k)
	}
	w(131072)
	w(131000)
	st.drain(140000) // crosses the threshold downwards: token posted, nobody waits
	w(131072)
	w(131072) // has to wait, takes the stale token
	time.Sleep(time.Duration(waitMs) * time.Millisecond)
	st.mu.Lock()
	res.MaxSeen = st.maxSeen
	for _, b := range st.written {
		if len(b) == 32 {
			res.Heartbeats++
		}
	}
	st.mu.Unlock()
	return
}

func TestVerifC16HbBypass(t *testing.T) {
	vwriteOut(t, []hbbRes{runHbBypass(20, 150)})
}
