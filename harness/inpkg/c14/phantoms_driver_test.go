package phantoms

// Correspondence driver for C14 (phantom selection).  Reads cases, runs the
// selectors of this package, records what they return.  Contains no assertions
// about conjure: the containment facts it reports are computed with
// net.ParseCIDR / IPNet.Contains directly from the configuration strings.

import (
	"encoding/hex"
	"encoding/json"
	"fmt"
	"net"
	"os"
	"sync"
	"testing"

	pb "github.com/refraction-networking/conjure/proto"
)

type c14Group struct {
	W    *uint32  `json:"w"`
	Nets []string `json:"nets"`
	// NetsNil distinguishes a nil Subnets slice from an empty one
	NetsNil bool  `json:"nets_nil"`
	RP      *bool `json:"rp"`
}
type c14Cfg struct {
	Groups []c14Group `json:"groups"`
	// Nil: SubnetConfig.WeightedSubnets == nil
	Nil bool `json:"nil"`
}
type c14Item struct {
	Seed string `json:"seed"`
	LV   uint   `json:"lv"`
	V6   bool   `json:"v6"`
	// history ops only: "select" (default) or "selphantom" with Filter / Weighted
	Op       string `json:"op"`
	Filter   string `json:"filter"`
	Weighted bool   `json:"weighted"`
}

// multi: several selector objects, each with several generations, created in order; steps run on them in order
type c14Step struct {
	Sel      int    `json:"sel"`
	Gen      uint   `json:"gen"`
	Op       string `json:"op"` // select | selphantom | list
	Seed     string `json:"seed"`
	LV       uint   `json:"lv"`
	V6       bool   `json:"v6"`
	Filter   string `json:"filter"`
	Weighted bool   `json:"weighted"`
}
type c14Case struct {
	Selectors []map[string]*c14Cfg `json:"selectors"`
	Steps     []c14Step            `json:"steps"`
	Op        string               `json:"op"`
	Seed      string               `json:"seed"`
	Cfg       *c14Cfg              `json:"cfg"`
	LV        uint                 `json:"lv"`
	V6        bool                 `json:"v6"`
	Filter    string               `json:"filter"`
	Weighted  bool                 `json:"weighted"`
	Items     []c14Item            `json:"items"`
	Workers   int                  `json:"workers"`
	Rounds    int                  `json:"rounds"`
	// api: a history over the selector's exported API on one selector object
	Init map[string]*c14Cfg `json:"init"`
	Aops []c14Aop           `json:"aops"`
}

// one call of the selector's API: add (AddGeneration, IGen may be -1) | update | remove | select
type c14Aop struct {
	K    string  `json:"k"`
	IGen int     `json:"igen"`
	Gen  uint    `json:"gen"`
	Cfg  *c14Cfg `json:"cfg"`
	Nil  bool    `json:"nil"` // add / update with a nil *SubnetConfig
	Seed string  `json:"seed"`
	LV   uint    `json:"lv"`
	V6   bool    `json:"v6"`
}
type c14Res struct {
	Out     string   `json:"out"`
	IP      string   `json:"ip"`
	RP      bool     `json:"rp"`
	Is4     bool     `json:"is4"`
	Err     string   `json:"err"`
	Contain [][2]int `json:"contain"`
	// hist: the ops on one shared selector (First), each on a fresh selector (Serial), on the shared one again (Again)
	First      []c14Res `json:"first,omitempty"`
	Again      []c14Res `json:"again,omitempty"`
	CfgChanged string   `json:"cfg_changed,omitempty"`
	// list: SupportRandomPort of every network GetUnweightedSubnetList returns, in order ("T"/"F")
	Flags string `json:"flags,omitempty"`
	// api: index returned by AddGeneration; for a select the result on a selector that was created with nothing but
	// the configuration last written for that generation (Fresh), and whether anything was written at all (Known)
	Idx   uint    `json:"idx"`
	Fresh *c14Res `json:"fresh,omitempty"`
	Known bool    `json:"known"`
	// conc
	Serial []c14Res `json:"serial,omitempty"`
	Diffs  int      `json:"diffs"`
	Diff   string   `json:"diff,omitempty"`
	Runs   int      `json:"runs"`
}

func c14Groups(c *c14Cfg) []*pb.PhantomSubnets {
	if c.Nil {
		return nil
	}
	out := make([]*pb.PhantomSubnets, 0, len(c.Groups))
	for _, g := range c.Groups {
		g := g
		ps := &pb.PhantomSubnets{Weight: g.W, RandomizeDstPort: g.RP}
		if !g.NetsNil {
			ps.Subnets = append([]string{}, g.Nets...)
		}
		out = append(out, ps)
	}
	return out
}

func c14Contain(c *c14Cfg, ip net.IP) [][2]int {
	out := [][2]int{}
	if c == nil {
		return out
	}
	for gi, g := range c.Groups {
		for ni, s := range g.Nets {
			_, n, err := net.ParseCIDR(s)
			if err == nil && n != nil && n.Contains(ip) {
				out = append(out, [2]int{gi, ni})
			}
		}
	}
	return out
}

func c14Record(c *c14Cfg, p *PhantomIP, err error) c14Res {
	var r c14Res
	if err != nil {
		r.Out = "err"
		r.Err = err.Error()
		return r
	}
	if p == nil || p.IP() == nil {
		r.Out = "err"
		r.Err = "nil result without error"
		return r
	}
	r.Out = "ok"
	r.IP = hex.EncodeToString(*p.IP())
	r.RP = p.SupportRandomPort()
	r.Is4 = p.IP().To4() != nil
	r.Contain = c14Contain(c, *p.IP())
	return r
}

// generation 7 is the one asked for; another generation is always configured next to it
func c14Selector(c *c14Cfg, seed []byte) *PhantomIPSelector {
	one := uint32(1)
	sel := &PhantomIPSelector{Networks: map[uint]*SubnetConfig{
		9: {WeightedSubnets: []*pb.PhantomSubnets{{Weight: &one, Subnets: []string{"10.0.0.0/8", "fd00::/8"}}}},
	}}
	if c != nil {
		sel.Networks[7] = &SubnetConfig{WeightedSubnets: c14Groups(c)}
	} else if len(seed) > 0 && seed[0]&1 == 1 {
		sel.RemoveGeneration(7) // leaves an explicit nil entry
	}
	return sel
}

func c14SelectOn(sel *PhantomIPSelector, c *c14Cfg, seed []byte, lv uint, v6 bool) (r c14Res) {
	defer func() {
		if e := recover(); e != nil {
			r = c14Res{Out: "panic", Err: fmt.Sprint(e)}
		}
	}()
	p, err := sel.Select(seed, 7, lv, v6)
	return c14Record(c, p, err)
}

func c14Select(c *c14Cfg, seed []byte, lv uint, v6 bool) (r c14Res) {
	return c14SelectOn(c14Selector(c, seed), c, seed, lv, v6)
}

func c14SelPhantomOn(list *pb.PhantomSubnetsList, c *c14Cfg, seed []byte, filter string, weighted bool) (r c14Res) {
	defer func() {
		if e := recover(); e != nil {
			r = c14Res{Out: "panic", Err: fmt.Sprint(e)}
		}
	}()
	var tr SubnetFilter
	switch filter {
	case "v4":
		tr = V4Only
	case "v6":
		tr = V6Only
	}
	p, err := SelectPhantom(seed, list, tr, weighted)
	return c14Record(c, p, err)
}

// the configuration of a selector's generation 7, as the code holds it now
func c14Dump(sel *PhantomIPSelector) string {
	sc := sel.Networks[7]
	if sc == nil {
		return "nil"
	}
	out := ""
	for _, g := range sc.WeightedSubnets {
		if g == nil {
			out += "<nil>;"
			continue
		}
		out += fmt.Sprintf("w=%d rp=%v nil=%v %v;", g.GetWeight(), g.GetRandomizeDstPort(), g.Subnets == nil, g.Subnets)
	}
	return out
}

// a history of selections on ONE selector object (and one PhantomSubnetsList sharing its groups)
func c14Hist(cs c14Case) c14Res {
	var r c14Res
	r.Out = "hist"
	sel := c14Selector(cs.Cfg, nil)
	var list *pb.PhantomSubnetsList
	if cs.Cfg != nil {
		list = &pb.PhantomSubnetsList{WeightedSubnets: sel.Networks[7].WeightedSubnets}
	}
	before := c14Dump(sel)
	run := func(it c14Item, s *PhantomIPSelector, l *pb.PhantomSubnetsList) c14Res {
		seed, _ := hex.DecodeString(it.Seed)
		if it.Op == "selphantom" {
			return c14SelPhantomOn(l, cs.Cfg, seed, it.Filter, it.Weighted)
		}
		return c14SelectOn(s, cs.Cfg, seed, it.LV, it.V6)
	}
	for i, it := range cs.Items {
		r.First = append(r.First, run(it, sel, list))
		if now := c14Dump(sel); now != before && r.CfgChanged == "" {
			r.CfgChanged = fmt.Sprintf("after op %d (%s libver %d weighted %v): before [%s] after [%s]", i, it.Op, it.LV, it.Weighted, before, now)
		}
	}
	for _, it := range cs.Items {
		fresh := c14Selector(cs.Cfg, nil)
		var fl *pb.PhantomSubnetsList
		if cs.Cfg != nil {
			fl = &pb.PhantomSubnetsList{WeightedSubnets: fresh.Networks[7].WeightedSubnets}
		}
		r.Serial = append(r.Serial, run(it, fresh, fl))
	}
	for _, it := range cs.Items {
		r.Again = append(r.Again, run(it, sel, list))
	}
	return r
}

func c14SelPhantom(c *c14Cfg, seed []byte, filter string, weighted bool) (r c14Res) {
	var list *pb.PhantomSubnetsList
	if c != nil {
		list = &pb.PhantomSubnetsList{WeightedSubnets: c14Groups(c)}
	}
	return c14SelPhantomOn(list, c, seed, filter, weighted)
}

// steps over several selector objects / generations in ONE process, in the given order; every selector is
// created only when the first step that uses it is reached (a configuration loaded later in the process)
func c14Multi(cs c14Case) c14Res {
	var r c14Res
	r.Out = "multi"
	sels := make([]*PhantomIPSelector, len(cs.Selectors))
	get := func(i int) *PhantomIPSelector {
		if sels[i] == nil {
			sel := &PhantomIPSelector{Networks: map[uint]*SubnetConfig{}}
			for g, c := range cs.Selectors[i] {
				var id uint
				fmt.Sscanf(g, "%d", &id)
				sel.Networks[id] = &SubnetConfig{WeightedSubnets: c14Groups(c)}
			}
			sels[i] = sel
		}
		return sels[i]
	}
	for _, st := range cs.Steps {
		sel := get(st.Sel)
		cfg := cs.Selectors[st.Sel][fmt.Sprint(st.Gen)]
		seed, _ := hex.DecodeString(st.Seed)
		var one c14Res
		func() {
			defer func() {
				if e := recover(); e != nil {
					one = c14Res{Out: "panic", Err: fmt.Sprint(e)}
				}
			}()
			switch st.Op {
			case "selphantom":
				one = c14SelPhantomOn(&pb.PhantomSubnetsList{WeightedSubnets: sel.Networks[st.Gen].WeightedSubnets}, cfg, seed, st.Filter, st.Weighted)
			case "list":
				nets, err := GetUnweightedSubnetList(&pb.PhantomSubnetsList{WeightedSubnets: sel.Networks[st.Gen].WeightedSubnets})
				if err != nil {
					one = c14Res{Out: "err", Err: err.Error()}
				} else {
					one = c14Res{Out: "ok"}
					for _, n := range nets {
						if n.SupportRandomPort() {
							one.Flags += "T"
						} else {
							one.Flags += "F"
						}
					}
				}
			default:
				p, err := sel.Select(seed, st.Gen, st.LV, st.V6)
				one = c14Record(cfg, p, err)
			}
		}()
		r.First = append(r.First, one)
	}
	return r
}

// a history over AddGeneration / UpdateGeneration / RemoveGeneration / Select on ONE selector object.  The driver
// keeps a record of what was last written for every generation (by the index AddGeneration returned) -- book-keeping
// for the containment facts and for the fresh-selector comparison, no assertion.
func c14Api(cs c14Case) c14Res {
	var r c14Res
	r.Out = "api"
	sel := &PhantomIPSelector{Networks: map[uint]*SubnetConfig{}}
	view := map[uint]*c14Cfg{}
	for g, c := range cs.Init {
		var id uint
		fmt.Sscanf(g, "%d", &id)
		sel.Networks[id] = &SubnetConfig{WeightedSubnets: c14Groups(c)}
		view[id] = c
	}
	mk := func(o c14Aop) (*SubnetConfig, *c14Cfg) {
		if o.Nil || o.Cfg == nil {
			return nil, nil
		}
		return &SubnetConfig{WeightedSubnets: c14Groups(o.Cfg)}, o.Cfg
	}
	for _, o := range cs.Aops {
		var one c14Res
		func() {
			defer func() {
				if e := recover(); e != nil {
					one = c14Res{Out: "panic", Err: fmt.Sprint(e)}
				}
			}()
			switch o.K {
			case "add":
				sc, c := mk(o)
				one = c14Res{Out: "idx", Idx: sel.AddGeneration(o.IGen, sc)}
				view[one.Idx] = c
			case "update":
				sc, c := mk(o)
				sel.UpdateGeneration(o.Gen, sc)
				view[o.Gen] = c
				one = c14Res{Out: "done"}
			case "remove":
				sel.RemoveGeneration(o.Gen)
				view[o.Gen] = nil
				one = c14Res{Out: "done"}
			default:
				seed, _ := hex.DecodeString(o.Seed)
				cfg := view[o.Gen]
				p, err := sel.Select(seed, o.Gen, o.LV, o.V6)
				one = c14Record(cfg, p, err)
				_, one.Known = view[o.Gen]
				fresh := &PhantomIPSelector{Networks: map[uint]*SubnetConfig{}}
				if cfg != nil {
					fresh.Networks[o.Gen] = &SubnetConfig{WeightedSubnets: c14Groups(cfg)}
				}
				fp, ferr := fresh.Select(seed, o.Gen, o.LV, o.V6)
				fr := c14Record(cfg, fp, ferr)
				one.Fresh = &fr
			}
		}()
		r.First = append(r.First, one)
	}
	return r
}

func c14Same(a, b c14Res) bool {
	return a.Out == b.Out && a.IP == b.IP && a.RP == b.RP
}

// serial results first, then the same selections from `workers` goroutines at once
func c14Conc(cs c14Case) c14Res {
	var r c14Res
	seeds := make([][]byte, len(cs.Items))
	for i, it := range cs.Items {
		seeds[i], _ = hex.DecodeString(it.Seed)
		r.Serial = append(r.Serial, c14Select(cs.Cfg, seeds[i], it.LV, it.V6))
	}
	// one selector object shared by the repeats and by all goroutines
	shared := c14Selector(cs.Cfg, nil)
	// repeat serially: repetition must not change anything either
	for i, it := range cs.Items {
		again := c14SelectOn(shared, cs.Cfg, seeds[i], it.LV, it.V6)
		r.Runs++
		if !c14Same(again, r.Serial[i]) {
			r.Diffs++
			if r.Diff == "" {
				r.Diff = fmt.Sprintf("repeat item %d: serial %+v, repeated %+v", i, r.Serial[i], again)
			}
		}
	}
	var mu sync.Mutex
	var wg sync.WaitGroup
	start := make(chan struct{})
	for w := 0; w < cs.Workers; w++ {
		wg.Add(1)
		go func(w int) {
			defer wg.Done()
			<-start
			for k := 0; k < cs.Rounds; k++ {
				for j := range cs.Items {
					i := (j + w) % len(cs.Items)
					it := cs.Items[i]
					got := c14SelectOn(shared, cs.Cfg, seeds[i], it.LV, it.V6)
					mu.Lock()
					r.Runs++
					if !c14Same(got, r.Serial[i]) {
						r.Diffs++
						if r.Diff == "" {
							r.Diff = fmt.Sprintf("item %d (seed %s libver %d v6 %v): serial %s/%s/%v, concurrent %s/%s/%v",
								i, it.Seed, it.LV, it.V6, r.Serial[i].Out, r.Serial[i].IP, r.Serial[i].RP, got.Out, got.IP, got.RP)
						}
					}
					mu.Unlock()
				}
			}
		}(w)
	}
	close(start)
	wg.Wait()
	r.Out = "conc"
	return r
}

func TestVerifC14Phantoms(t *testing.T) {
	raw, err := os.ReadFile(os.Getenv("VERIF_CASES"))
	if err != nil {
		t.Skip("no cases")
	}
	var cases []c14Case
	if err := json.Unmarshal(raw, &cases); err != nil {
		t.Fatal(err)
	}
	res := make([]c14Res, len(cases))
	for i, c := range cases {
		seed, _ := hex.DecodeString(c.Seed)
		switch c.Op {
		case "select":
			res[i] = c14Select(c.Cfg, seed, c.LV, c.V6)
		case "selphantom":
			res[i] = c14SelPhantom(c.Cfg, seed, c.Filter, c.Weighted)
		case "conc":
			res[i] = c14Conc(c)
		case "hist":
			res[i] = c14Hist(c)
		case "multi":
			res[i] = c14Multi(c)
		case "api":
			res[i] = c14Api(c)
		}
	}
	out, _ := json.Marshal(res)
	if err := os.WriteFile(os.Getenv("VERIF_OUT"), out, 0o644); err != nil {
		t.Fatal(err)
	}
}
