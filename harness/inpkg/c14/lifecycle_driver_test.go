package lib

// C14 driver, lifecycle part (station side): stands up the REAL RegistrationManager
// (NewRegistrationManager) on a temporary phantom subnet file, then reloads it
// (RegistrationManager.OnReload) through a sequence of files -- generations added, changed,
// retired, files that do not load -- and after every step runs selections for every
// generation through the station's own entry points: GetPhantomSelector().Select and
// NewRegistration (phantom address + destination port).  Every selection is also run on a
// manager stood up freshly on the file of the last successful load.  Records observables
// only; contains no assertions about conjure (the containment facts are computed with
// net.ParseCIDR / IPNet.Contains from the configuration strings).

import (
	"encoding/hex"
	"encoding/json"
	"fmt"
	"io"
	golog "log"
	"net"
	"os"
	"path/filepath"
	"runtime"
	"sort"
	"sync"
	"sync/atomic"
	"testing"

	"github.com/refraction-networking/conjure/pkg/core"
	"github.com/refraction-networking/conjure/pkg/phantoms"
	"github.com/refraction-networking/conjure/pkg/station/log"
	"github.com/refraction-networking/conjure/pkg/transports/wrapping/min"
	pb "github.com/refraction-networking/conjure/proto"
	"google.golang.org/protobuf/types/known/anypb"
)

type c14lGroup struct {
	Nets []string `json:"nets"`
	RP   *bool    `json:"rp"`
}
type c14lFile struct {
	Kind string `json:"kind"` // text | missing
	Text string `json:"text"`
	// the structured content of a loadable file: generation -> groups (for the containment facts only)
	Gens map[string][]c14lGroup `json:"gens"`
}
type c14lSel struct {
	Seed string `json:"seed"`
	Gen  uint   `json:"gen"`
	LV   uint   `json:"lv"`
	V6   bool   `json:"v6"`
}
type c14lCase struct {
	Op    string      `json:"op"` // life | lifeconc
	Files []c14lFile  `json:"files"`
	Sels  [][]c14lSel `json:"sels"`
	// lifeconc: Workers goroutines run the selections of Sels[0] while the manager is reloaded Reloads times,
	// alternating between Files[1] and Files[0]
	Workers int `json:"workers"`
	Rounds  int `json:"rounds"`
	Reloads int `json:"reloads"`
}
type c14lRes struct {
	Out     string   `json:"out"` // ok | err | panic
	IP      string   `json:"ip"`
	RP      bool     `json:"rp"`
	Is4     bool     `json:"is4"`
	Err     string   `json:"err"`
	Port    int      `json:"port"` // NewRegistration only
	Contain [][2]int `json:"contain"`
}
type c14lObs struct {
	Held     c14lRes `json:"held"`     // GetPhantomSelector().Select on the running manager
	Reg      c14lRes `json:"reg"`      // NewRegistration on the running manager
	Fresh    c14lRes `json:"fresh"`    // Select on a manager stood up on the file in force
	FreshReg c14lRes `json:"freshreg"` // NewRegistration on that fresh manager
}
type c14lStep struct {
	Stage   string    `json:"stage"`   // ok | nil-manager | panic:<msg>
	LoadOK  bool      `json:"load_ok"` // phantoms.SubnetsFromTomlFile on this step's file, called by the driver
	InForce int       `json:"inforce"` // index of the file of the last successful load (-1: none)
	Gens    []int     `json:"gens"`    // generations the held selector answers for (non-nil entries)
	Sel     []c14lObs `json:"sel"`
}

// lifeconc: per worker, the run-length-encoded sequence of what its selections returned, each entry as the set of
// files (bit k = Files[k]) under which a freshly loaded selector gives that very answer
type c14lSeg struct {
	Mask uint64 `json:"mask"`
	N    int    `json:"n"`
	Sel  int    `json:"sel"` // first selection of the segment
	Ans  string `json:"ans"`
}
type c14lOut struct {
	Steps []c14lStep `json:"steps"`
	// lifeconc
	Workers [][]c14lSeg `json:"workers,omitempty"`
	Fresh   [][]string  `json:"fresh,omitempty"` // Fresh[k][i]: answer of a selector loaded from Files[k] for selection i
	Reloads int         `json:"reloads"`
	Ops     int64       `json:"ops"`
	Stage   string      `json:"stage,omitempty"`
}

func c14lKey(r c14lRes) string { return fmt.Sprintf("%s/%s/%v", r.Out, r.IP, r.RP) }

func c14lSelectOn(sel *phantoms.PhantomIPSelector, s c14lSel) (r c14lRes) {
	defer func() {
		if e := recover(); e != nil {
			r = c14lRes{Out: "panic", Err: fmt.Sprint(e)}
		}
	}()
	seed, _ := hex.DecodeString(s.Seed)
	p, err := sel.Select(seed, s.Gen, s.LV, s.V6)
	if err != nil || p == nil {
		return c14lRecord(nil, nil, false, err)
	}
	return c14lRecord(nil, p.IP(), p.SupportRandomPort(), nil)
}

// selections through GetPhantomSelector().Select from several goroutines while OnReload takes the manager through
// Files[1], Files[2], ... in order (every file loads)
func c14lConcRun(c c14lCase, dir string, logger *log.Logger) (out c14lOut) {
	var paths []string
	sels := c.Sels[0]
	for k, f := range c.Files {
		paths = append(paths, c14lPlace(dir, fmt.Sprintf("conc_%d.toml", k), f))
		fs, err := phantoms.SubnetsFromTomlFile(paths[k])
		if err != nil {
			out.Stage = fmt.Sprintf("setup: file %d: %v", k, err)
			return out
		}
		row := make([]string, len(sels))
		for i, s := range sels {
			row[i] = c14lKey(c14lSelectOn(fs, s))
		}
		out.Fresh = append(out.Fresh, row)
	}
	rm, stage := c14lManager(paths[0], logger)
	out.Stage = stage
	if rm == nil {
		return out
	}
	mask := func(i int, ans string) (m uint64) {
		for k := range out.Fresh {
			if out.Fresh[k][i] == ans {
				m |= 1 << uint(k)
			}
		}
		return m
	}
	var ops int64
	var done int32
	out.Workers = make([][]c14lSeg, c.Workers)
	var wg sync.WaitGroup
	for w := 0; w < c.Workers; w++ {
		wg.Add(1)
		go func(w int) {
			defer wg.Done()
			var segs []c14lSeg
			for round := 0; round < c.Rounds || atomic.LoadInt32(&done) == 0; round++ {
				for j := range sels {
					i := (j + w) % len(sels)
					ans := c14lKey(c14lSelect(rm, nil, sels[i]))
					m := mask(i, ans)
					if n := len(segs); n > 0 && segs[n-1].Mask == m && m != 0 {
						segs[n-1].N++
					} else if len(segs) < 20000 {
						segs = append(segs, c14lSeg{Mask: m, N: 1, Sel: i, Ans: ans})
					}
					atomic.AddInt64(&ops, 1)
				}
			}
			out.Workers[w] = segs
		}(w)
	}
	stage = c14lGuard(func() {
		for k := 1; k < len(paths); k++ {
			// let the workers get some selections in under the current configuration
			start := atomic.LoadInt64(&ops)
			for spin := 0; atomic.LoadInt64(&ops) < start+int64(3*len(sels)) && spin < 5000000; spin++ {
				runtime.Gosched()
			}
			os.Setenv("PHANTOM_SUBNET_LOCATION", paths[k])
			conf := &RegConfig{}
			_ = conf.ParseBlocklists()
			rm.OnReload(conf)
			out.Reloads++
		}
		start := atomic.LoadInt64(&ops)
		for spin := 0; atomic.LoadInt64(&ops) < start+int64(3*len(sels)) && spin < 5000000; spin++ {
			runtime.Gosched()
		}
	})
	atomic.StoreInt32(&done, 1)
	wg.Wait()
	out.Stage = stage
	out.Ops = atomic.LoadInt64(&ops)
	return out
}

func c14lGuard(f func()) (out string) {
	defer func() {
		if p := recover(); p != nil {
			out = fmt.Sprintf("panic:%v", p)
			if len(out) > 200 {
				out = out[:200]
			}
		}
	}()
	f()
	return "ok"
}

func c14lContain(groups []c14lGroup, ip net.IP) [][2]int {
	out := [][2]int{}
	for gi, g := range groups {
		for ni, s := range g.Nets {
			_, n, err := net.ParseCIDR(s)
			if err == nil && n != nil && n.Contains(ip) {
				out = append(out, [2]int{gi, ni})
			}
		}
	}
	return out
}

func c14lRecord(groups []c14lGroup, ip *net.IP, rp bool, err error) c14lRes {
	var r c14lRes
	if err != nil {
		r.Out, r.Err = "err", err.Error()
		return r
	}
	if ip == nil || *ip == nil {
		r.Out, r.Err = "err", "nil result without error"
		return r
	}
	r.Out = "ok"
	r.IP = hex.EncodeToString(*ip)
	r.RP = rp
	r.Is4 = ip.To4() != nil
	r.Contain = c14lContain(groups, *ip)
	return r
}

func c14lSelect(rm *RegistrationManager, groups []c14lGroup, s c14lSel) (r c14lRes) {
	defer func() {
		if e := recover(); e != nil {
			r = c14lRes{Out: "panic", Err: fmt.Sprint(e)}
		}
	}()
	seed, _ := hex.DecodeString(s.Seed)
	p, err := rm.GetPhantomSelector().Select(seed, s.Gen, s.LV, s.V6)
	if err != nil || p == nil {
		return c14lRecord(groups, nil, false, err)
	}
	return c14lRecord(groups, p.IP(), p.SupportRandomPort(), nil)
}

// the ingest path: NewRegistration with the min transport asking for a randomised destination port
func c14lRegister(rm *RegistrationManager, groups []c14lGroup, s c14lSel) (r c14lRes) {
	defer func() {
		if e := recover(); e != nil {
			r = c14lRes{Out: "panic", Err: fmt.Sprint(e)}
		}
	}()
	seed, _ := hex.DecodeString(s.Seed)
	tt := pb.TransportType_Min
	lv, gen := uint32(s.LV), uint32(s.Gen)
	covert := "192.0.2.1:443"
	yes := true
	params, _ := anypb.New(&pb.GenericTransportParams{RandomizeDstPort: &yes})
	c2s := &pb.ClientToStation{ClientLibVersion: &lv, Transport: &tt, CovertAddress: &covert, DecoyListGeneration: &gen, TransportParams: params}
	src := pb.RegistrationSource_API
	keys := &core.ConjureSharedKeys{ConjureSeed: seed}
	reg, err := rm.NewRegistration(c2s, keys, s.V6, &src)
	if err != nil || reg == nil {
		return c14lRecord(groups, nil, false, err)
	}
	ip := reg.PhantomIp
	r = c14lRecord(groups, &ip, false, nil)
	r.Port = int(reg.PhantomPort)
	return r
}

func c14lManager(path string, logger *log.Logger) (rm *RegistrationManager, stage string) {
	os.Setenv("PHANTOM_SUBNET_LOCATION", path)
	stage = c14lGuard(func() {
		conf := &RegConfig{}
		_ = conf.ParseBlocklists()
		rm = NewRegistrationManager(conf)
	})
	if stage != "ok" {
		return nil, stage
	}
	if rm == nil {
		return nil, "nil-manager"
	}
	rm.Logger = logger
	_ = rm.AddTransport(pb.TransportType_Min, min.Transport{})
	return rm, "ok"
}

func c14lPlace(dir, name string, f c14lFile) string {
	p := filepath.Join(dir, name)
	if f.Kind == "text" {
		_ = os.WriteFile(p, []byte(f.Text), 0o644)
		return p
	}
	_ = os.Remove(p)
	return filepath.Join(dir, "missing", name)
}

func c14lRun(c c14lCase, dir string, logger *log.Logger) (out c14lOut) {
	var rm, fresh *RegistrationManager
	inforce := -1
	for i, f := range c.Files {
		st := c14lStep{InForce: -1}
		path := c14lPlace(dir, fmt.Sprintf("subnets_%d.toml", i), f)
		if i == 0 {
			rm, st.Stage = c14lManager(path, logger)
		} else {
			os.Setenv("PHANTOM_SUBNET_LOCATION", path)
			st.Stage = c14lGuard(func() {
				conf := &RegConfig{}
				_ = conf.ParseBlocklists()
				rm.OnReload(conf)
			})
		}
		if _, err := phantoms.SubnetsFromTomlFile(path); err == nil {
			st.LoadOK = true
			inforce = i
			fresh, _ = c14lManager(c14lPlace(dir, fmt.Sprintf("fresh_%d.toml", i), f), logger)
		}
		st.InForce = inforce
		if rm == nil || st.Stage != "ok" {
			out.Steps = append(out.Steps, st)
			break
		}
		if sel := rm.GetPhantomSelector(); sel != nil {
			for g, sc := range sel.Networks {
				if sc != nil {
					st.Gens = append(st.Gens, int(g))
				}
			}
			sort.Ints(st.Gens)
		}
		if i < len(c.Sels) {
			for _, s := range c.Sels[i] {
				var groups []c14lGroup
				if inforce >= 0 {
					groups = c.Files[inforce].Gens[fmt.Sprint(s.Gen)]
				}
				o := c14lObs{Held: c14lSelect(rm, groups, s), Reg: c14lRegister(rm, groups, s)}
				if fresh != nil {
					o.Fresh = c14lSelect(fresh, groups, s)
					o.FreshReg = c14lRegister(fresh, groups, s)
				}
				st.Sel = append(st.Sel, o)
			}
		}
		out.Steps = append(out.Steps, st)
	}
	return out
}

func TestVerifC14Lifecycle(t *testing.T) {
	raw, err := os.ReadFile(os.Getenv("VERIF_CASES"))
	if err != nil {
		t.Skip("no cases")
	}
	var cases []c14lCase
	if err := json.Unmarshal(raw, &cases); err != nil {
		t.Fatal(err)
	}
	old := os.Getenv("PHANTOM_SUBNET_LOCATION")
	defer os.Setenv("PHANTOM_SUBNET_LOCATION", old)
	logger := log.New(io.Discard, "[C14] ", golog.Ldate)
	devnull, _ := os.OpenFile(os.DevNull, os.O_WRONLY, 0)
	stdout := os.Stdout
	os.Stdout = devnull
	golog.SetOutput(io.Discard)
	res := make([]c14lOut, len(cases))
	for i, c := range cases {
		if c.Op == "lifeconc" {
			res[i] = c14lConcRun(c, t.TempDir(), logger)
		} else {
			res[i] = c14lRun(c, t.TempDir(), logger)
		}
	}
	os.Stdout = stdout
	out, _ := json.Marshal(res)
	if err := os.WriteFile(os.Getenv("VERIF_OUT"), out, 0o644); err != nil {
		t.Fatal(err)
	}
}
