package regprocessor

// C14 driver, lifecycle part (registrar side): a REAL RegProcessor (NewRegProcessorNoAuth on
// a loopback port; if the socket cannot be bound, a RegProcessor whose first ReloadSubnets
// is the initial load) taken through the same sequence of phantom subnet files by
// RegProcessor.ReloadSubnets; after every step selections for every generation through the
// selector the processor holds (under its read lock, as processBdReq takes it) and through
// processBdReq itself (phantom addresses + destination port of the registration response).
// Every selection is also run on a selector loaded freshly from the file of the last
// successful load.  Records observables only.

import (
	"encoding/binary"
	"encoding/hex"
	"encoding/json"
	"fmt"
	"io"
	golog "log"
	"net"
	"os"
	"path/filepath"
	"runtime"
	"sort"
	"sync"
	"sync/atomic"
	"testing"
	"time"

	"github.com/refraction-networking/conjure/pkg/core"
	"github.com/refraction-networking/conjure/pkg/metrics"
	"github.com/refraction-networking/conjure/pkg/phantoms"
	"github.com/refraction-networking/conjure/pkg/transports/wrapping/min"
	pb "github.com/refraction-networking/conjure/proto"
	log "github.com/sirupsen/logrus"
	"google.golang.org/protobuf/types/known/anypb"
)

type c14rGroup struct {
	Nets []string `json:"nets"`
	RP   *bool    `json:"rp"`
}
type c14rFile struct {
	Kind string                 `json:"kind"`
	Text string                 `json:"text"`
	Gens map[string][]c14rGroup `json:"gens"`
}
type c14rSel struct {
	Seed string `json:"seed"`
	Gen  uint   `json:"gen"`
	LV   uint   `json:"lv"`
	V6   bool   `json:"v6"`
}
type c14rCase struct {
	Op      string      `json:"op"`
	Files   []c14rFile  `json:"files"`
	Sels    [][]c14rSel `json:"sels"`
	Workers int         `json:"workers"`
	Rounds  int         `json:"rounds"`
	Reloads int         `json:"reloads"`
}
type c14rRes struct {
	Out     string   `json:"out"`
	IP      string   `json:"ip"`
	RP      bool     `json:"rp"`
	Is4     bool     `json:"is4"`
	Err     string   `json:"err"`
	Port    int      `json:"port"`
	Seed    string   `json:"seed,omitempty"` // processBdReq: the seed derived from the shared secret
	Contain [][2]int `json:"contain"`
}
type c14rObs struct {
	Held    c14rRes `json:"held"`    // the held selector's Select under the read lock
	Fresh   c14rRes `json:"fresh"`   // Select on a selector loaded from the file in force
	Bd      c14rRes `json:"bd"`      // processBdReq (one family), address + DstPort
	BdFresh c14rRes `json:"bdfresh"` // the fresh selector on the seed processBdReq derives
}
type c14rStep struct {
	Stage   string    `json:"stage"` // ok | ctor-failed:<err> | panic:<msg>
	Reload  string    `json:"reload"`
	LoadOK  bool      `json:"load_ok"`
	InForce int       `json:"inforce"`
	Gens    []int     `json:"gens"`
	Ctor    string    `json:"ctor"`
	Sel     []c14rObs `json:"sel"`
}
type c14rSeg struct {
	Mask uint64 `json:"mask"`
	N    int    `json:"n"`
	Sel  int    `json:"sel"`
	Ans  string `json:"ans"`
}
type c14rOut struct {
	Steps   []c14rStep  `json:"steps"`
	Workers [][]c14rSeg `json:"workers,omitempty"`
	Fresh   [][]string  `json:"fresh,omitempty"` // Fresh[k][i]: the (IPv4, IPv6) pair a selector loaded from Files[k] gives
	Reloads int         `json:"reloads"`
	Ops     int64       `json:"ops"`
	Stage   string      `json:"stage,omitempty"`
}

// processBdReq for BOTH families at once: "ok/<v4>/<v6>" or "err"
func c14rPair(p *RegProcessor, s c14rSel) (out string) {
	defer func() {
		if e := recover(); e != nil {
			out = fmt.Sprintf("panic:%v", e)
		}
	}()
	tt := pb.TransportType_Min
	lv, gen := uint32(s.LV), uint32(s.Gen)
	yes := true
	c2s := &pb.ClientToStation{ClientLibVersion: &lv, Transport: &tt, DecoyListGeneration: &gen, V4Support: &yes, V6Support: &yes,
		DisableRegistrarOverrides: &yes}
	rr, err := p.processBdReq(&pb.C2SWrapper{SharedSecret: c14rSecret(s), RegistrationPayload: c2s})
	if err != nil || rr == nil {
		return "err"
	}
	ip4 := make(net.IP, 4)
	binary.BigEndian.PutUint32(ip4, rr.GetIpv4Addr())
	return fmt.Sprintf("ok/%x/%x", []byte(ip4), rr.GetIpv6Addr())
}

func c14rFreshPair(sel *phantoms.PhantomIPSelector, s c14rSel) string {
	keys, err := core.GenSharedKeys(s.LV, c14rSecret(s), pb.TransportType_Min)
	if err != nil {
		return "err"
	}
	a := c14rSelectOn(sel, nil, keys.ConjureSeed, c14rSel{Gen: s.Gen, LV: s.LV, V6: false})
	b := c14rSelectOn(sel, nil, keys.ConjureSeed, c14rSel{Gen: s.Gen, LV: s.LV, V6: true})
	if a.Out != "ok" || b.Out != "ok" {
		return "err"
	}
	return fmt.Sprintf("ok/%s/%s", a.IP, b.IP)
}

// requests for both families from several goroutines while ReloadSubnets takes the processor through Files[1..] in order
func c14rConcRun(c c14rCase, dir string, m *metrics.Metrics) (out c14rOut) {
	var paths []string
	sels := c.Sels[0]
	for k, f := range c.Files {
		paths = append(paths, c14rPlace(dir, fmt.Sprintf("conc_%d.toml", k), f))
		fs, err := phantoms.SubnetsFromTomlFile(paths[k])
		if err != nil {
			out.Stage = fmt.Sprintf("setup: file %d: %v", k, err)
			return out
		}
		row := make([]string, len(sels))
		for i, s := range sels {
			row[i] = c14rFreshPair(fs, s)
		}
		out.Fresh = append(out.Fresh, row)
	}
	os.Setenv("PHANTOM_SUBNET_LOCATION", paths[0])
	p, err := NewRegProcessorNoAuth("127.0.0.1", 0, m, false, nil, nil, 0, 0)
	if err != nil {
		out.Stage = fmt.Sprintf("setup: %v", err)
		return out
	}
	defer p.sock.Close()
	_ = p.AddTransport(pb.TransportType_Min, min.Transport{})
	mask := func(i int, ans string) (mk uint64) {
		for k := range out.Fresh {
			if out.Fresh[k][i] == ans {
				mk |= 1 << uint(k)
			}
		}
		return mk
	}
	var ops int64
	var done int32
	out.Workers = make([][]c14rSeg, c.Workers)
	var wg sync.WaitGroup
	for w := 0; w < c.Workers; w++ {
		wg.Add(1)
		go func(w int) {
			defer wg.Done()
			var segs []c14rSeg
			for round := 0; round < c.Rounds || atomic.LoadInt32(&done) == 0; round++ {
				for j := range sels {
					i := (j + w) % len(sels)
					ans := c14rPair(p, sels[i])
					mk := mask(i, ans)
					if n := len(segs); n > 0 && segs[n-1].Mask == mk && mk != 0 {
						segs[n-1].N++
					} else if len(segs) < 20000 {
						segs = append(segs, c14rSeg{Mask: mk, N: 1, Sel: i, Ans: ans})
					}
					atomic.AddInt64(&ops, 1)
				}
			}
			out.Workers[w] = segs
		}(w)
	}
	out.Stage = c14rGuard(func() {
		for k := 1; k < len(paths); k++ {
			start := atomic.LoadInt64(&ops)
			for spin := 0; atomic.LoadInt64(&ops) < start+int64(3*len(sels)) && spin < 5000000; spin++ {
				runtime.Gosched()
			}
			os.Setenv("PHANTOM_SUBNET_LOCATION", paths[k])
			_ = p.ReloadSubnets()
			out.Reloads++
		}
		start := atomic.LoadInt64(&ops)
		for spin := 0; atomic.LoadInt64(&ops) < start+int64(3*len(sels)) && spin < 5000000; spin++ {
			runtime.Gosched()
		}
	})
	atomic.StoreInt32(&done, 1)
	wg.Wait()
	out.Ops = atomic.LoadInt64(&ops)
	return out
}

func c14rGuard(f func()) (out string) {
	defer func() {
		if p := recover(); p != nil {
			out = fmt.Sprintf("panic:%v", p)
			if len(out) > 200 {
				out = out[:200]
			}
		}
	}()
	f()
	return "ok"
}

func c14rContain(groups []c14rGroup, ip net.IP) [][2]int {
	out := [][2]int{}
	for gi, g := range groups {
		for ni, s := range g.Nets {
			_, n, err := net.ParseCIDR(s)
			if err == nil && n != nil && n.Contains(ip) {
				out = append(out, [2]int{gi, ni})
			}
		}
	}
	return out
}

func c14rRecord(groups []c14rGroup, ip *net.IP, rp bool, err error) c14rRes {
	var r c14rRes
	if err != nil {
		r.Out, r.Err = "err", err.Error()
		return r
	}
	if ip == nil || *ip == nil {
		r.Out, r.Err = "err", "nil result without error"
		return r
	}
	r.Out = "ok"
	r.IP = hex.EncodeToString(*ip)
	r.RP = rp
	r.Is4 = ip.To4() != nil
	r.Contain = c14rContain(groups, *ip)
	return r
}

type c14rSelector interface {
	Select([]byte, uint, uint, bool) (*phantoms.PhantomIP, error)
}

func c14rSelectOn(sel c14rSelector, groups []c14rGroup, seed []byte, s c14rSel) (r c14rRes) {
	defer func() {
		if e := recover(); e != nil {
			r = c14rRes{Out: "panic", Err: fmt.Sprint(e)}
		}
	}()
	p, err := sel.Select(seed, s.Gen, s.LV, s.V6)
	if err != nil || p == nil {
		return c14rRecord(groups, nil, false, err)
	}
	return c14rRecord(groups, p.IP(), p.SupportRandomPort(), nil)
}

func c14rHeld(p *RegProcessor, groups []c14rGroup, s c14rSel) c14rRes {
	seed, _ := hex.DecodeString(s.Seed)
	p.selectorMutex.RLock()
	defer p.selectorMutex.RUnlock()
	return c14rSelectOn(p.ipSelector, groups, seed, s)
}

func c14rSecret(s c14rSel) []byte {
	seed, _ := hex.DecodeString(s.Seed)
	secret := make([]byte, 32)
	for i := range secret {
		if len(seed) > 0 {
			secret[i] = seed[i%len(seed)]
		}
	}
	return secret
}

func c14rBd(p *RegProcessor, groups []c14rGroup, s c14rSel) (r c14rRes, derived []byte) {
	defer func() {
		if e := recover(); e != nil {
			r = c14rRes{Out: "panic", Err: fmt.Sprint(e)}
		}
	}()
	tt := pb.TransportType_Min
	lv, gen := uint32(s.LV), uint32(s.Gen)
	v4, v6 := !s.V6, s.V6
	yes := true
	params, _ := anypb.New(&pb.GenericTransportParams{RandomizeDstPort: &yes})
	noOverride := true
	c2s := &pb.ClientToStation{ClientLibVersion: &lv, Transport: &tt, DecoyListGeneration: &gen, V4Support: &v4, V6Support: &v6,
		TransportParams: params, DisableRegistrarOverrides: &noOverride}
	secret := c14rSecret(s)
	keys, err := core.GenSharedKeys(uint(s.LV), secret, tt)
	if err == nil {
		derived = keys.ConjureSeed
	}
	rr, err := p.processBdReq(&pb.C2SWrapper{SharedSecret: secret, RegistrationPayload: c2s})
	if err != nil || rr == nil {
		r = c14rRecord(groups, nil, false, err)
		r.Seed = hex.EncodeToString(derived)
		return r, derived
	}
	var ip net.IP
	if s.V6 {
		ip = net.IP(rr.GetIpv6Addr())
	} else if rr.Ipv4Addr != nil {
		ip = make(net.IP, 4)
		binary.BigEndian.PutUint32(ip, rr.GetIpv4Addr())
	}
	r = c14rRecord(groups, &ip, false, nil)
	r.Port = int(rr.GetDstPort())
	r.Seed = hex.EncodeToString(derived)
	return r, derived
}

func c14rPlace(dir, name string, f c14rFile) string {
	p := filepath.Join(dir, name)
	if f.Kind == "text" {
		_ = os.WriteFile(p, []byte(f.Text), 0o644)
		return p
	}
	_ = os.Remove(p)
	return filepath.Join(dir, "missing", name)
}

func c14rRun(c c14rCase, dir string, m *metrics.Metrics) (out c14rOut) {
	var p *RegProcessor
	defer func() {
		if p != nil && p.sock != nil {
			_ = p.sock.Close()
		}
	}()
	var fresh *phantoms.PhantomIPSelector
	inforce := -1
	for i, f := range c.Files {
		st := c14rStep{InForce: -1}
		path := c14rPlace(dir, fmt.Sprintf("subnets_%d.toml", i), f)
		os.Setenv("PHANTOM_SUBNET_LOCATION", path)
		if i == 0 {
			st.Stage = c14rGuard(func() {
				var err error
				p, err = NewRegProcessorNoAuth("127.0.0.1", 0, m, false, nil, nil, 0, 0)
				st.Ctor = "NewRegProcessorNoAuth"
				if err != nil && (err == ErrZmqSocket) {
					// no socket in this sandbox: the same load-and-assign through ReloadSubnets
					st.Ctor = "literal+ReloadSubnets"
					p = &RegProcessor{metrics: m}
					if err = p.ReloadSubnets(); err != nil {
						p = nil
					}
				}
				if err != nil {
					st.Reload = err.Error()
					p = nil
				}
			})
			if p == nil && st.Stage == "ok" {
				st.Stage = "ctor-failed:" + st.Reload
			}
			if p != nil {
				_ = p.AddTransport(pb.TransportType_Min, min.Transport{})
			}
		} else {
			st.Stage = c14rGuard(func() {
				if err := p.ReloadSubnets(); err != nil {
					st.Reload = err.Error()
				}
			})
		}
		if sel, err := phantoms.SubnetsFromTomlFile(path); err == nil {
			st.LoadOK = true
			inforce = i
			_ = sel
			fresh, _ = phantoms.SubnetsFromTomlFile(c14rPlace(dir, fmt.Sprintf("fresh_%d.toml", i), f))
		}
		st.InForce = inforce
		if p == nil || st.Stage != "ok" {
			out.Steps = append(out.Steps, st)
			break
		}
		if sel, ok := p.ipSelector.(*phantoms.PhantomIPSelector); ok && sel != nil {
			for g, sc := range sel.Networks {
				if sc != nil {
					st.Gens = append(st.Gens, int(g))
				}
			}
			sort.Ints(st.Gens)
		}
		if i < len(c.Sels) {
			for _, s := range c.Sels[i] {
				var groups []c14rGroup
				if inforce >= 0 {
					groups = c.Files[inforce].Gens[fmt.Sprint(s.Gen)]
				}
				seed, _ := hex.DecodeString(s.Seed)
				o := c14rObs{Held: c14rHeld(p, groups, s)}
				var derived []byte
				o.Bd, derived = c14rBd(p, groups, s)
				if fresh != nil {
					o.Fresh = c14rSelectOn(fresh, groups, seed, s)
					if derived != nil {
						o.BdFresh = c14rSelectOn(fresh, groups, derived, s)
					}
				}
				st.Sel = append(st.Sel, o)
			}
		}
		out.Steps = append(out.Steps, st)
	}
	return out
}

func TestVerifC14Registrar(t *testing.T) {
	raw, err := os.ReadFile(os.Getenv("VERIF_CASES"))
	if err != nil {
		t.Skip("no cases")
	}
	var cases []c14rCase
	if err := json.Unmarshal(raw, &cases); err != nil {
		t.Fatal(err)
	}
	old := os.Getenv("PHANTOM_SUBNET_LOCATION")
	defer os.Setenv("PHANTOM_SUBNET_LOCATION", old)
	log.SetOutput(io.Discard)
	golog.SetOutput(io.Discard)
	quiet := log.New()
	quiet.SetOutput(io.Discard)
	m := metrics.NewMetrics(log.NewEntry(quiet), time.Hour)
	res := make([]c14rOut, len(cases))
	for i, c := range cases {
		if c.Op == "lifeconc" {
			res[i] = c14rConcRun(c, t.TempDir(), m)
		} else {
			res[i] = c14rRun(c, t.TempDir(), m)
		}
	}
	out, _ := json.Marshal(res)
	if err := os.WriteFile(os.Getenv("VERIF_OUT"), out, 0o644); err != nil {
		t.Fatal(err)
	}
}
