//go:build verif

package lib

import "time"

// Export shim for the C03/C04 handler drivers (exists only in the go test -overlay; never in /repo).
// It lets a driver in cmd/application (a) replace the two functions that publish New/Update
// messages to the detector (so no Redis is needed and the publications can be counted) and
// (b) read the used/unused status that MarkActive records for a registration.

// VerifSetDetectorHooks replaces the detector publication functions of the registry.
func (regManager *RegistrationManager) VerifSetDetectorHooks(onNew, onUpdate func(*DecoyRegistration)) {
	r := regManager.registeredDecoys
	r.m.Lock()
	defer r.m.Unlock()
	r.registerForDetector = onNew
	r.updateInDetector = onUpdate
}

// VerifRegStatus returns -1 if no timeout entry exists for the registration, 0 if it is tracked
// as unused and 1 if it has been marked used.
func (regManager *RegistrationManager) VerifRegStatus(d *DecoyRegistration) int {
	r := regManager.registeredDecoys
	r.m.RLock()
	defer r.m.RUnlock()
	t, ok := r.transports[d.Transport]
	if !ok {
		return -1
	}
	id := t.GetIdentifier(d)
	addr := d.PhantomIp.String()
	for _, to := range r.decoysTimeouts {
		if to.decoy == addr && to.identifier == id {
			return int(to.status)
		}
	}
	return -1
}

// VerifAgeRegistration moves the registration's timeout record `by` into the past (as if it had been
// tracked that much earlier), so that a driver can let a lifetime elapse without waiting for it.
func (regManager *RegistrationManager) VerifAgeRegistration(d *DecoyRegistration, by time.Duration) bool {
	r := regManager.registeredDecoys
	r.m.Lock()
	defer r.m.Unlock()
	t, ok := r.transports[d.Transport]
	if !ok {
		return false
	}
	id := t.GetIdentifier(d)
	addr := d.PhantomIp.String()
	for _, to := range r.decoysTimeouts {
		if to.decoy == addr && to.identifier == id {
			to.registrationTime = to.registrationTime.Add(-by)
			return true
		}
	}
	return false
}
