//go:build verif

package main

// Shared plumbing of the C03 / C04 handler drivers (injected with go test -overlay; nothing is
// written into /repo).  Contains no assertions about conjure: it builds a registration manager
// with the real wrapping transports, each behind a recorder that logs every WrapConnection call,
// and helpers that dump the registry view and the crypto oracle values the Coq model takes as
// inputs (revealed identifiers, obfs4 marks).

import (
	"bytes"
	"context"
	"crypto/rand"
	"encoding/hex"
	"errors"
	"fmt"
	"io"
	"net"
	"os"
	"sort"
	"sync"
	"sync/atomic"
	"time"

	"github.com/refraction-networking/conjure/internal/conjurepath"
	"github.com/refraction-networking/conjure/pkg/core"
	cj "github.com/refraction-networking/conjure/pkg/station/lib"
	"github.com/refraction-networking/conjure/pkg/transports"
	"github.com/refraction-networking/conjure/pkg/transports/wrapping/min"
	"github.com/refraction-networking/conjure/pkg/transports/wrapping/obfs4"
	"github.com/refraction-networking/conjure/pkg/transports/wrapping/prefix"
	pb "github.com/refraction-networking/conjure/proto"
	"golang.org/x/crypto/curve25519"
	"google.golang.org/protobuf/proto"
	"google.golang.org/protobuf/types/known/anypb"
)

type vfGeo struct{}

func (vfGeo) CC(net.IP) (string, error) { return "US", nil }
func (vfGeo) ASN(net.IP) (uint, error)  { return 64500, nil }

// ---------------------------------------------------------------- recorder around a transport

type vfCall struct {
	T        string `json:"t"`
	N        int    `json:"n"`   // data.Len() when WrapConnection was called
	Res      string `json:"res"` // again | not | found | err_prefix | err_transport | err_other
	Consumed int    `json:"consumed"`
	RegID    string `json:"reg_id,omitempty"` // identifier under which the returned registration is stored
}

type vfCallLogger interface{ vfLogCall(vfCall) }

// optional: the connection a transport returned is handed to the relay; its first Read that returns
// data is what PrefixConn (io.MultiReader(buffered bytes, live connection)) serves first
type vfRelayLogger interface {
	vfLogRelayRead(b []byte)
	vfLogRelayStart() // the relay makes its first Read or Write call on the connection
}

type vfRelayConn struct {
	net.Conn
	owner   vfRelayLogger
	seen    int32
	started int32
}

func (r *vfRelayConn) start() {
	if atomic.CompareAndSwapInt32(&r.started, 0, 1) {
		r.owner.vfLogRelayStart()
	}
}

func (r *vfRelayConn) Write(p []byte) (int, error) {
	r.start()
	return r.Conn.Write(p)
}

func (r *vfRelayConn) Read(p []byte) (int, error) {
	r.start()
	n, err := r.Conn.Read(p)
	if n > 0 && atomic.CompareAndSwapInt32(&r.seen, 0, 1) {
		r.owner.vfLogRelayRead(p[:n])
	}
	return n, err
}

type vfRecT struct {
	cj.WrappingTransport
	name string
}

func vfClassify(err error) string {
	switch {
	case err == nil:
		return "found"
	case errors.Is(err, transports.ErrTryAgain):
		return "again"
	case errors.Is(err, transports.ErrNotTransport):
		return "not"
	case errors.Is(err, prefix.ErrIncorrectPrefix):
		return "err_prefix"
	case errors.Is(err, prefix.ErrIncorrectTransport):
		return "err_transport"
	}
	return "err_other"
}

func (r vfRecT) WrapConnection(data *bytes.Buffer, c net.Conn, ip net.IP, rm transports.RegManager) (transports.Registration, net.Conn, error) {
	n := data.Len()
	reg, w, err := r.WrappingTransport.WrapConnection(data, c, ip, rm)
	if lc, ok := c.(vfCallLogger); ok {
		v := vfCall{T: r.name, N: n, Res: vfClassify(err), Consumed: n - data.Len()}
		if _, isDecoy := reg.(*cj.DecoyRegistration); err == nil && !isDecoy {
			// the handler's `!ok` type-assertion branch would be taken: outside the model
			v.Res = "found_foreign"
		}
		if err == nil && reg != nil {
			for id, x := range rm.GetRegistrations(ip) {
				if x == reg {
					v.RegID = hex.EncodeToString([]byte(id))
				}
			}
		}
		lc.vfLogCall(v)
	}
	if rl, ok := c.(vfRelayLogger); ok && err == nil && w != nil {
		w = &vfRelayConn{Conn: w, owner: rl}
	}
	return reg, w, err
}

// ---------------------------------------------------------------- station set-up

type vfStation struct {
	rm      *cj.RegistrationManager
	cm      *connManager
	priv    [32]byte // first station key (kept for the callers that need one)
	pub     [32]byte
	privs   [][32]byte // all station keys, in the order the prefix transport tries them
	pubs    [][32]byte
	seq     int64 // order of MarkActive hooks and relay I/O calls
	prefixT *prefix.Transport
	mu      sync.Mutex
	updates map[*cj.DecoyRegistration]int
	firstUpdate map[*cj.DecoyRegistration]int64
	news    map[*cj.DecoyRegistration]int
	ipCtr   uint32
}

func vfNewStation() (*vfStation, error) {
	os.Setenv("PHANTOM_SUBNET_LOCATION", conjurepath.Root+"/internal/test_assets/phantom_subnets.toml")
	s := &vfStation{firstUpdate: map[*cj.DecoyRegistration]int64{}, updates: map[*cj.DecoyRegistration]int{}, news: map[*cj.DecoyRegistration]int{}}
	if _, err := rand.Read(s.priv[:]); err != nil {
		return nil, err
	}
	s.priv[0] &= 248
	s.priv[31] &= 127
	s.priv[31] |= 64
	curve25519.ScalarBaseMult(&s.pub, &s.priv)
	s.privs, s.pubs = [][32]byte{s.priv}, [][32]byte{s.pub}
	for i := 0; i < 2; i++ { // key rotation: the station holds several private keys
		var k, pk [32]byte
		if _, err := rand.Read(k[:]); err != nil {
			return nil, err
		}
		k[0] &= 248
		k[31] &= 127
		k[31] |= 64
		curve25519.ScalarBaseMult(&pk, &k)
		s.privs, s.pubs = append(s.privs, k), append(s.pubs, pk)
	}
	s.rm = cj.NewRegistrationManager(&cj.RegConfig{})
	if s.rm == nil {
		return nil, fmt.Errorf("NewRegistrationManager returned nil")
	}
	s.rm.GeoIP = vfGeo{}
	s.rm.VerifSetDetectorHooks(
		func(d *cj.DecoyRegistration) { s.mu.Lock(); s.news[d]++; s.mu.Unlock() },
		func(d *cj.DecoyRegistration) {
			n := atomic.AddInt64(&s.seq, 1)
			s.mu.Lock()
			s.updates[d]++
			if _, ok := s.firstUpdate[d]; !ok {
				s.firstUpdate[d] = n
			}
			s.mu.Unlock()
		})
	pt, err := prefix.Default(s.privs)
	if err != nil {
		return nil, err
	}
	s.prefixT = pt
	for _, e := range []struct {
		i pb.TransportType
		t cj.WrappingTransport
		n string
	}{{pb.TransportType_Min, min.Transport{}, "min"}, {pb.TransportType_Obfs4, obfs4.Transport{}, "obfs4"}, {pb.TransportType_Prefix, pt, "prefix"}} {
		if err := s.rm.AddTransport(e.i, vfRecT{e.t, e.n}); err != nil {
			return nil, err
		}
	}
	s.cm = newConnManager(nil)
	return s, nil
}

func (s *vfStation) firstUpdateSeq(d *cj.DecoyRegistration) int64 {
	s.mu.Lock()
	defer s.mu.Unlock()
	return s.firstUpdate[d]
}

func (s *vfStation) updatesOf(d *cj.DecoyRegistration) int {
	s.mu.Lock()
	defer s.mu.Unlock()
	return s.updates[d]
}

// a fresh phantom address per case, so that cases do not see each other's registrations
// (every fourth one is an IPv6 address: the handler and the registry are family-independent but
// for their statistics, and the model has no notion of family)
func (s *vfStation) freshPhantom() net.IP {
	n := atomic.AddUint32(&s.ipCtr, 1)
	if n%4 == 3 {
		return net.IP{0x20, 0x01, 0x0d, 0xb8, 0, 0, 0, 0, 0, 0, 0, 0, 0, byte(n >> 16), byte(n >> 8), byte(n)}
	}
	return net.IPv4(10, byte(n>>16), byte(n>>8), byte(n)).To4()
}

func vfTT(name string) pb.TransportType {
	switch name {
	case "min":
		return pb.TransportType_Min
	case "obfs4":
		return pb.TransportType_Obfs4
	case "prefix":
		return pb.TransportType_Prefix
	}
	return pb.TransportType_Null
}

// newReg builds a registration the way ingest does (NewRegistration), moves it to the given
// phantom and tracks it, valid or not.
func (s *vfStation) newReg(tt pb.TransportType, params proto.Message, secret []byte, phantom net.IP, covert string, valid bool) (*cj.DecoyRegistration, error) {
	libver := uint(core.CurrentClientLibraryVersion())
	keys, err := core.GenSharedKeys(libver, secret, tt)
	if err != nil {
		return nil, err
	}
	v := uint32(libver)
	gen := uint32(1)
	src := pb.RegistrationSource_API
	c2s := &pb.ClientToStation{ClientLibVersion: &v, Transport: &tt, CovertAddress: &covert, DecoyListGeneration: &gen}
	if params != nil {
		p, err := anypb.New(params)
		if err != nil {
			return nil, err
		}
		c2s.TransportParams = p
	}
	reg, err := s.rm.NewRegistration(c2s, &keys, false, &src)
	if err != nil {
		return nil, err
	}
	reg.PhantomIp = phantom
	if valid {
		s.rm.AddRegistration(reg)
	} else if err := s.rm.TrackRegistration(reg); err != nil {
		return nil, err
	}
	return reg, nil
}

type vfOther struct {
	Transport string `json:"transport"`
	PrefixID  int32  `json:"prefix_id"`
	Valid     bool   `json:"valid"`
	NoParams  bool   `json:"no_params"`
}

func (s *vfStation) addOthers(others []vfOther, phantom net.IP) error {
	for _, o := range others {
		sec := make([]byte, 32)
		rand.Read(sec)
		var p proto.Message
		if !o.NoParams {
			if o.Transport == "prefix" {
				p = &pb.PrefixTransportParams{PrefixId: proto.Int32(o.PrefixID), RandomizeDstPort: proto.Bool(false)}
			} else {
				p = &pb.GenericTransportParams{RandomizeDstPort: proto.Bool(false)}
			}
		}
		if _, err := s.newReg(vfTT(o.Transport), p, sec, phantom, "127.0.0.1:9", o.Valid); err != nil {
			return err
		}
	}
	return nil
}

// ---------------------------------------------------------------- views handed to the model

type vfRegView struct {
	ID  string `json:"id"`
	TT  int    `json:"tt"`
	PID *int32 `json:"pid"` // prefix id if the registration carries PrefixTransportParams
}

type vfPrefixRow struct {
	ID     int    `json:"id"`
	Static string `json:"static"`
	Offset int    `json:"offset"`
	MinLen int    `json:"minlen"`
	MaxLen int    `json:"maxlen"`
	Flush  int32  `json:"flush"`
	Port   int    `json:"port"`
}

func (s *vfStation) table() []vfPrefixRow {
	var rows []vfPrefixRow
	for id, p := range s.prefixT.SupportedPrefixes {
		rows = append(rows, vfPrefixRow{int(id), hex.EncodeToString(p.StaticMatch), p.Offset, p.MinLen, p.MaxLen, p.Flush, int(p.DefaultDstPort)})
	}
	sort.Slice(rows, func(i, j int) bool { return rows[i].ID < rows[j].ID })
	return rows
}

func (s *vfStation) regView(phantom net.IP) []vfRegView {
	var out []vfRegView
	for id, r := range s.rm.GetRegistrations(phantom) {
		v := vfRegView{ID: hex.EncodeToString([]byte(id)), TT: int(r.TransportType())}
		if pp, ok := r.TransportParams().(*pb.PrefixTransportParams); ok && pp != nil {
			x := pp.GetPrefixId()
			v.PID = &x
		}
		out = append(out, v)
	}
	sort.Slice(out, func(i, j int) bool { return out[i].ID < out[j].ID })
	return out
}

type vfReveal struct {
	Off int      `json:"off"`
	IDs []string `json:"ids"`
}

// reveals evaluates the real TryReveal on the 64-byte window at every table offset of the stream.
// Only revealed identifiers that are registered on the phantom are reported: the model does nothing
// with a revealed identifier but look it up in that registry.
func (s *vfStation) reveals(stream []byte, phantom net.IP) []vfReveal {
	known := s.rm.GetRegistrations(phantom)
	seen := map[int]bool{}
	var out []vfReveal
	for _, row := range s.table() {
		if seen[row.Offset] || len(stream) < row.Offset+64 {
			continue
		}
		seen[row.Offset] = true
		rv := vfReveal{Off: row.Offset, IDs: []string{}}
		for _, k := range s.prefixT.Privkeys {
			id, err := s.prefixT.TagObfuscator.TryReveal(stream[row.Offset:row.Offset+64], k)
			if err != nil || id == nil {
				continue
			}
			if _, ok := known[string(id)]; ok {
				rv.IDs = append(rv.IDs, hex.EncodeToString(id))
			}
		}
		if len(rv.IDs) > 0 {
			out = append(out, rv)
		}
	}
	return out
}

type vfMark struct {
	ID   string `json:"id"`
	Mark string `json:"mark"`
}

// marks evaluates the station's mark derivation for every registration whose identifier has the
// obfs4 length, on the first 32 bytes of the stream.
func (s *vfStation) marks(phantom net.IP, stream []byte) []vfMark {
	out := []vfMark{}
	if len(stream) < 32 {
		return out
	}
	for id, r := range s.rm.GetRegistrations(phantom) {
		if len(id) != 52 {
			continue
		}
		out = append(out, vfMark{hex.EncodeToString([]byte(id)), hex.EncodeToString(obfs4.VerifMark(r, stream[:32]))})
	}
	sort.Slice(out, func(i, j int) bool { return out[i].ID < out[j].ID })
	return out
}

func (s *vfStation) wrappingNames() []string {
	var out []string
	for _, t := range s.rm.GetWrappingTransports() {
		if r, ok := t.(vfRecT); ok {
			out = append(out, r.name)
		} else {
			out = append(out, t.Name())
		}
	}
	sort.Strings(out)
	return out
}

// ---------------------------------------------------------------- byte helpers shared with Coq

func vfLCG(seed int64, n int) []byte {
	x := uint64(seed)
	out := make([]byte, n)
	for i := range out {
		x = (x*1103515245 + 12345) % 2147483648
		out[i] = byte((x / 65536) % 256)
	}
	return out
}

func vfHash(b []byte) uint64 {
	h := uint64(7)
	for _, x := range b {
		h = h*1000003 + uint64(x) + 1
	}
	return h
}

type vfBytes struct {
	Len  int    `json:"len"`
	Hash string `json:"hash"`
	Hex  string `json:"hex,omitempty"`
}

func vfSpec(b []byte) vfBytes {
	v := vfBytes{Len: len(b), Hash: fmt.Sprintf("%d", vfHash(b))}
	if len(b) <= 1500 {
		v.Hex = hex.EncodeToString(b)
	}
	return v
}

// ---------------------------------------------------------------- client transports

// recording conn: captures what a client transport writes as its first flight
type vfRecConn struct {
	net.Conn
	writes [][]byte
}

func (r *vfRecConn) Write(b []byte) (int, error) {
	r.writes = append(r.writes, append([]byte{}, b...))
	return len(b), nil
}
func (r *vfRecConn) SetDeadline(time.Time) error      { return nil }
func (r *vfRecConn) SetReadDeadline(time.Time) error  { return nil }
func (r *vfRecConn) SetWriteDeadline(time.Time) error { return nil }
func (r *vfRecConn) Close() error                     { return nil }
func (r *vfRecConn) LocalAddr() net.Addr              { return vfClientAddr }
func (r *vfRecConn) RemoteAddr() net.Addr             { return vfClientAddr }

func (r *vfRecConn) Read([]byte) (int, error) { return 0, io.EOF }

// vfFlight runs the real client transport against a recording connection and returns the bytes it
// writes as its first flight (one entry per Write) together with the parameters it registers with.
func vfFlight(s *vfStation, transport string, prefixID, flush int32, randPort bool, secret []byte, key int) (writes [][]byte, params proto.Message, err error) {
	pub := s.pubs[key%len(s.pubs)]
	tt := vfTT(transport)
	ckeys, err := core.GenSharedKeys(uint(core.CurrentClientLibraryVersion()), secret, tt)
	if err != nil {
		return nil, nil, err
	}
	rec := &vfRecConn{}
	switch transport {
	case "min":
		ct := &min.ClientTransport{}
		ct.SetParams(&pb.GenericTransportParams{RandomizeDstPort: proto.Bool(randPort)})
		ct.Prepare(context.Background(), nil)
		params, _ = ct.GetParams()
		ct.PrepareKeys(pub, secret, ckeys.TransportReader)
		_, err = ct.WrapConn(rec)
	case "prefix":
		ct := &prefix.ClientTransport{}
		if err = ct.SetParams(&prefix.ClientParams{PrefixID: prefixID, RandomizeDstPort: randPort, FlushPolicy: flush}); err != nil {
			return
		}
		ct.Prepare(context.Background(), nil)
		params, _ = ct.GetParams()
		ct.PrepareKeys(pub, secret, ckeys.TransportReader)
		_, err = ct.WrapConn(rec)
	case "obfs4":
		ct := &obfs4.ClientTransport{}
		ct.SetParams(&pb.GenericTransportParams{RandomizeDstPort: proto.Bool(randPort)})
		ct.Prepare(context.Background(), nil)
		params, _ = ct.GetParams()
		if err = ct.PrepareKeys(pub, secret, ckeys.TransportReader); err != nil {
			return
		}
		ct.WrapConn(rec) // fails after writing the handshake: nobody answers
		if len(rec.writes) == 0 {
			err = fmt.Errorf("obfs4 client wrote nothing")
		}
	default:
		err = fmt.Errorf("unknown transport %q", transport)
	}
	return rec.writes, params, err
}

var vfClientAddr = &net.TCPAddr{IP: net.IPv4(198, 51, 100, 7), Port: 40123}
