//go:build verif

package main

// C04 driver: real handleNewTCPConn + real client transports through an in-memory pipe whose
// writer re-segments the client's first flight (+ early data); the covert side is a loopback
// echo server.  Only records observables.

import (
	"context"
	"crypto/rand"
	"encoding/hex"
	"encoding/json"
	"fmt"
	"io"
	"net"
	"os"
	"sort"
	"sync"
	"sync/atomic"
	"testing"
	"time"

	"github.com/refraction-networking/conjure/pkg/core"
	cj "github.com/refraction-networking/conjure/pkg/station/lib"
	"github.com/refraction-networking/conjure/pkg/transports/wrapping/min"
	"github.com/refraction-networking/conjure/pkg/transports/wrapping/obfs4"
	"github.com/refraction-networking/conjure/pkg/transports/wrapping/prefix"
	pb "github.com/refraction-networking/conjure/proto"
	"google.golang.org/protobuf/proto"
)

type c04Case struct {
	Transport string    `json:"transport"`
	PrefixID  int32     `json:"prefix_id"`
	Flush     int32     `json:"flush"`
	RandPort  bool      `json:"rand_port"`
	Cuts      []int     `json:"cuts"`    // >= 0: offset in flight++data; < 0: from the end of the flight
	Natural   bool      `json:"natural"` // keep the client's own write boundaries
	DataLen   int       `json:"data_len"`
	DataSeed  int64     `json:"data_seed"`
	LateLen   int       `json:"late_len"`
	LateSeed  int64     `json:"late_seed"`
	DelayMs   int       `json:"delay_ms"`
	Key       int       `json:"key"`    // which station key the client obfuscates its tag to
	Sweep     bool      `json:"sweep"`  // while the tunnel is open: let 11 minutes elapse for this registration and run the expiry sweep
	BannerLen int       `json:"banner_len"` // the covert speaks first: it sends this many bytes on accept
	BannerSeed int64    `json:"banner_seed"`
	Others    []vfOther `json:"others"`
	PadLen    int       `json:"pad_len"` // obfs4, > 0: a hand-built valid client handshake with exactly this padding length (no data follows)
	Peer      string    `json:"peer"`    // the address the accepted socket reports for the client: "" / v4 / v4mapped / v6 / zoned (link-local IPv6 with a zone)
}

// the *net.TCPAddr an accepted socket would report for a client of that kind
func c04Peer(kind string) net.Addr {
	switch kind {
	case "v4mapped":
		return &net.TCPAddr{IP: net.ParseIP("::ffff:198.51.100.9"), Port: 40124}
	case "v6":
		return &net.TCPAddr{IP: net.ParseIP("2001:db8:77::9"), Port: 40125}
	case "zoned":
		return &net.TCPAddr{IP: net.ParseIP("fe80::1c2:3ff:fe04:5"), Port: 40126, Zone: "eth0"}
	case "v4short":
		return &net.TCPAddr{IP: net.IPv4(198, 51, 100, 8).To4(), Port: 40127}
	}
	return vfClientAddr
}

type c04Res struct {
	Err      string      `json:"err"`
	Flight   string      `json:"flight"`
	Natural  []int       `json:"natural"`
	Segs     []int       `json:"segs"`
	Found    bool        `json:"found"`
	FoundT   string      `json:"found_t"`
	FoundID  string      `json:"found_id"`
	Status   int         `json:"status"`
	Updates  int         `json:"updates"`
	Echo     vfBytes     `json:"echo"`
	EchoConn int         `json:"echo_conns"`
	Reply    vfBytes     `json:"reply"`
	Reads    []int       `json:"reads"`
	Calls    []vfCall    `json:"calls"`
	Regs     []vfRegView `json:"regs"`
	OwnID    string      `json:"own_id"`
	Tracked  int         `json:"tracked"`
	TS       []string    `json:"ts"`
	Reveals  []vfReveal  `json:"reveals"`
	Marks    []vfMark    `json:"marks"`
	Returned bool        `json:"returned"`
	StatusOpen  int      `json:"status_open"`  // used/unused state while the tunnel was still open (client had its answers, had not closed)
	UpdatesOpen int      `json:"updates_open"` // Update publications by then
	MarkFirst   bool     `json:"mark_first"`   // the MarkActive publication happened before the relay's first Read/Write on the connection
	Swept       int      `json:"swept"`        // -1 no sweep; 1 the registration was gone after the sweep under the open tunnel; 0 it survived
	V6       bool        `json:"v6"`
	RelayFirst *vfBytes  `json:"relay_first"`
	HsReply  int         `json:"hs_reply"`  // hand-built obfs4 flight: bytes the station answered with (its server handshake)
	FlightLen int        `json:"flight_len"`
	EarlyAnswered bool   `json:"early_answered"` // banner / echo of the early data arrived before the client sent anything more
	Ms       int64       `json:"ms"`
}

// server side of the pipe: a real remote address, a log of the handler's reads and of the
// WrapConnection calls made while it classifies this connection
type c04Conn struct {
	net.Conn
	mu    sync.Mutex
	reads []int
	calls []vfCall
	done  bool // a transport answered "found": the relay owns the connection from here on
	seq        *int64
	relayStart int64
	relayFirst *vfBytes // first non-empty Read the relay made on the connection it was handed
	peer       net.Addr
}

func (c *c04Conn) RemoteAddr() net.Addr { return c.peer }
func (c *c04Conn) Read(p []byte) (int, error) {
	n, err := c.Conn.Read(p)
	c.mu.Lock()
	if !c.done && err == nil {
		c.reads = append(c.reads, n)
	}
	c.mu.Unlock()
	return n, err
}
func (c *c04Conn) vfLogRelayStart() {
	n := atomic.AddInt64(c.seq, 1)
	c.mu.Lock()
	c.relayStart = n
	c.mu.Unlock()
}
func (c *c04Conn) vfLogRelayRead(b []byte) {
	c.mu.Lock()
	v := vfSpec(b)
	c.relayFirst = &v
	c.mu.Unlock()
}
func (c *c04Conn) vfLogCall(v vfCall) {
	c.mu.Lock()
	if !c.done {
		c.calls = append(c.calls, v)
	}
	if v.Res == "found" {
		c.done = true
	}
	c.mu.Unlock()
}

// client side writer that splits the byte stream at absolute offsets, whatever the Write sizes
type c04SegConn struct {
	net.Conn
	mu      sync.Mutex
	cuts    []int // absolute offsets, resolved at the first Write
	rawCuts []int
	first   []byte
	sent    int
	segs    []int
	delay   time.Duration
}

func (s *c04SegConn) Write(b []byte) (int, error) {
	s.mu.Lock()
	defer s.mu.Unlock()
	if s.first == nil {
		s.first = append([]byte{}, b...)
		s.cuts = c04Resolve(s.rawCuts, len(b), len(b))
	}
	total := 0
	for len(b) > 0 {
		n := len(b)
		for _, c := range s.cuts {
			if c > s.sent && c < s.sent+n {
				n = c - s.sent
				break
			}
		}
		w, err := s.Conn.Write(b[:n])
		total += w
		s.sent += w
		s.segs = append(s.segs, w)
		if err != nil {
			return total, err
		}
		b = b[n:]
		if len(b) > 0 && s.delay > 0 {
			time.Sleep(s.delay)
		}
	}
	return total, nil
}

func c04Resolve(raw []int, flightLen, streamLen int) []int {
	m := map[int]bool{}
	for _, c := range raw {
		if c < 0 {
			c = flightLen + c
		}
		if c > 0 && c < streamLen {
			m[c] = true
		}
	}
	out := []int{}
	for c := range m {
		out = append(out, c)
	}
	sort.Ints(out)
	return out
}

func c04Echo(banner []byte) (net.Listener, chan []byte, chan int) {
	ln, err := net.Listen("tcp", "127.0.0.1:0")
	if err != nil {
		return nil, nil, nil
	}
	got := make(chan []byte, 1)
	conns := make(chan int, 1)
	go func() {
		var all []byte
		n := 0
		ln.(*net.TCPListener).SetDeadline(time.Now().Add(16 * time.Second))
		c, err := ln.Accept()
		if err == nil {
			n++
			c.SetDeadline(time.Now().Add(20 * time.Second))
			if len(banner) > 0 {
				c.Write(banner)
			}
			buf := make([]byte, 32768)
			for {
				k, err := c.Read(buf)
				if k > 0 {
					all = append(all, buf[:k]...)
					if _, werr := c.Write(buf[:k]); werr != nil {
						break
					}
				}
				if err != nil {
					break
				}
			}
			c.Close()
			// a second connection would mean the relay dialled twice
			ln.(*net.TCPListener).SetDeadline(time.Now().Add(50 * time.Millisecond))
			if c2, err := ln.Accept(); err == nil {
				n++
				c2.Close()
			}
		}
		ln.Close()
		got <- all
		conns <- n
	}()
	return ln, got, conns
}

func c04Run(s *vfStation, c c04Case) (res c04Res) {
	t0 := time.Now()
	defer func() {
		if r := recover(); r != nil {
			res.Err = fmt.Sprintf("panic: %v", r)
		}
		res.Ms = time.Since(t0).Milliseconds()
	}()
	phantom := s.freshPhantom()
	res.V6 = phantom.To4() == nil
	banner := vfLCG(c.BannerSeed, c.BannerLen)
	ln, echoGot, echoConns := c04Echo(banner)
	if ln == nil {
		res.Err = "listen failed"
		return
	}
	covert := ln.Addr().String()
	secret := make([]byte, 32)
	rand.Read(secret)
	tt := vfTT(c.Transport)
	libver := uint(core.CurrentClientLibraryVersion())
	ckeys, err := core.GenSharedKeys(libver, secret, tt)
	if err != nil {
		res.Err = "client keys: " + err.Error()
		return
	}

	var params proto.Message
	var wrapFn func(net.Conn) (net.Conn, error)
	switch c.Transport {
	case "min":
		ct := &min.ClientTransport{}
		ct.SetParams(&pb.GenericTransportParams{RandomizeDstPort: proto.Bool(c.RandPort)})
		ct.Prepare(context.Background(), nil)
		params, _ = ct.GetParams()
		ct.PrepareKeys(s.pubs[c.Key%len(s.pubs)], secret, ckeys.TransportReader)
		wrapFn = ct.WrapConn
	case "prefix":
		ct := &prefix.ClientTransport{}
		if err := ct.SetParams(&prefix.ClientParams{PrefixID: c.PrefixID, RandomizeDstPort: c.RandPort, FlushPolicy: c.Flush}); err != nil {
			res.Err = "setparams: " + err.Error()
			return
		}
		ct.Prepare(context.Background(), nil)
		params, _ = ct.GetParams()
		ct.PrepareKeys(s.pubs[c.Key%len(s.pubs)], secret, ckeys.TransportReader)
		wrapFn = ct.WrapConn
	case "obfs4":
		ct := &obfs4.ClientTransport{}
		ct.SetParams(&pb.GenericTransportParams{RandomizeDstPort: proto.Bool(c.RandPort)})
		ct.Prepare(context.Background(), nil)
		params, _ = ct.GetParams()
		if err := ct.PrepareKeys(s.pubs[c.Key%len(s.pubs)], secret, ckeys.TransportReader); err != nil {
			res.Err = "preparekeys: " + err.Error()
			return
		}
		wrapFn = ct.WrapConn
	default:
		res.Err = "unknown transport"
		return
	}

	if err := s.addOthers(c.Others, phantom); err != nil {
		res.Err = "others: " + err.Error()
		return
	}
	reg, err := s.newReg(tt, params, secret, phantom, covert, true)
	if err != nil {
		res.Err = "newReg: " + err.Error()
		return
	}
	if t, ok := s.rm.GetWrappingTransports()[tt]; ok {
		res.OwnID = hex.EncodeToString([]byte(t.GetIdentifier(reg)))
	}
	res.Regs = s.regView(phantom)
	res.Tracked = s.rm.CountRegistrations(phantom)
	res.TS = s.wrappingNames()

	cli, srv := net.Pipe()
	sc := &c04Conn{Conn: srv, seq: &s.seq, peer: c04Peer(c.Peer)}
	cli.SetDeadline(time.Now().Add(c04Wait() + time.Duration(c.DelayMs*12)*time.Millisecond))
	hdone := make(chan struct{})
	go func() {
		defer close(hdone)
		defer func() { recover() }()
		s.cm.handleNewTCPConn(s.rm, sc, phantom)
	}()

	data := vfLCG(c.DataSeed, c.DataLen)
	late := vfLCG(c.LateSeed, c.LateLen)
	want := len(banner) + len(data) + len(late)
	var reply []byte
	var flight []byte
	delay := time.Duration(c.DelayMs) * time.Millisecond

	if c.Transport == "obfs4" && c.PadLen > 0 {
		// a hand-built valid handshake of a chosen padding length; the client then only reads
		flight = obfs4.VerifClientFlight(reg, c.PadLen)
		if flight == nil {
			res.Err = "hand-built flight: no keys"
		}
		var n32 int32
		rdone := make(chan struct{})
		go func() {
			defer close(rdone)
			tmp := make([]byte, 32768)
			for {
				k, err := cli.Read(tmp)
				atomic.AddInt32(&n32, int32(k))
				if err != nil {
					return
				}
			}
		}()
		prev := 0
		for _, b := range append(c04Resolve(c.Cuts, len(flight), len(flight)), len(flight)) {
			if b > prev {
				if _, err := cli.Write(flight[prev:b]); err != nil {
					res.Err += " client write: " + err.Error()
					break
				}
				res.Segs = append(res.Segs, b-prev)
				prev = b
				if delay > 0 && b < len(flight) {
					time.Sleep(delay)
				}
			}
		}
		// The client stays until the station has answered with its server handshake, the registration is
		// marked used and the relay has made its first call on the connection.  (No data follows a
		// hand-built flight, so nothing else makes the client outlive the hand-over; if it closes
		// earlier, halfPipe's SetDeadline fails on the closed net.Pipe and the relay never touches the
		// connection - the order "marked used before the relay starts" would then have nothing to compare.)
		_, _, smin := obfs4.VerifPadRange()
		for lim := time.Now().Add(c04Wait()); time.Now().Before(lim); time.Sleep(3 * time.Millisecond) {
			sc.mu.Lock()
			started := sc.relayStart > 0
			sc.mu.Unlock()
			if started && int(atomic.LoadInt32(&n32)) >= smin && s.rm.VerifRegStatus(reg) == 1 && s.updatesOf(reg) >= 1 {
				break
			}
		}
		res.HsReply = int(atomic.LoadInt32(&n32))
		if res.HsReply < smin {
			atomic.AddInt32(&c04Failed, 1)
		}
		res.Natural = []int{len(flight)}
		res.EarlyAnswered = true
	} else if c.Transport == "obfs4" {
		seg := &c04SegConn{Conn: cli, rawCuts: c.Cuts, delay: delay}
		oc, err := wrapFn(seg)
		flight = seg.first
		res.Segs = seg.segs
		if err != nil {
			res.Err = "client handshake: " + err.Error()
		} else {
			oc.SetDeadline(time.Now().Add(c04Wait()))
			if len(banner) > 0 {
				buf := make([]byte, len(banner))
				k, err := io.ReadFull(oc, buf)
				reply = append(reply, buf[:k]...)
				if err != nil {
					res.Err += " client read (banner): " + err.Error()
				}
			}
			for _, part := range [][]byte{data, late} {
				if len(part) == 0 {
					continue
				}
				if _, err := oc.Write(part); err != nil {
					res.Err += " client write: " + err.Error()
					break
				}
				buf := make([]byte, len(part))
				k, err := io.ReadFull(oc, buf)
				reply = append(reply, buf[:k]...)
				if err != nil {
					res.Err += " client read: " + err.Error()
					break
				}
			}
		}
		res.Natural = []int{len(flight)}
		res.EarlyAnswered = res.Err == ""
	} else {
		rec := &vfRecConn{}
		if _, err := wrapFn(rec); err != nil {
			res.Err = "client wrap: " + err.Error()
		}
		for _, w := range rec.writes {
			flight = append(flight, w...)
			res.Natural = append(res.Natural, len(w))
		}
		stream := append(append([]byte{}, flight...), data...)
		var bounds []int
		if c.Natural {
			off := 0
			for _, w := range rec.writes {
				off += len(w)
				bounds = append(bounds, off)
			}
			bounds = c04Resolve(bounds, len(flight), len(stream))
		} else {
			bounds = c04Resolve(c.Cuts, len(flight), len(stream))
		}
		// the client reads the reply as it comes; `got` is signalled whenever more has arrived
		var rmu sync.Mutex
		var rbuf []byte
		got := make(chan struct{}, 1)
		rdone := make(chan struct{})
		go func() {
			defer close(rdone)
			tmp := make([]byte, 32768)
			for {
				k, err := cli.Read(tmp)
				rmu.Lock()
				rbuf = append(rbuf, tmp[:k]...)
				full := len(rbuf) >= want
				rmu.Unlock()
				select {
				case got <- struct{}{}:
				default:
				}
				if err != nil || full {
					return
				}
			}
		}()
		have := func() int { rmu.Lock(); defer rmu.Unlock(); return len(rbuf) }
		prev := 0
		werr := error(nil)
		for _, b := range append(bounds, len(stream)) {
			if b > prev {
				if _, werr = cli.Write(stream[prev:b]); werr != nil {
					break
				}
				res.Segs = append(res.Segs, b-prev)
				prev = b
				if delay > 0 && b < len(stream) {
					time.Sleep(delay)
				}
			}
		}
		// a request/response client: it waits for the answer to what it has sent (banner and echo
		// of the early data) before it sends anything else on the live connection
		first := len(banner) + len(data)
		res.EarlyAnswered = true
		if werr == nil && first > 0 {
			limit := time.After(c04Wait())
			waiting := true
			for waiting && have() < first {
				select {
				case <-got:
				case <-rdone:
					waiting = false
				case <-limit:
					waiting = false
				}
			}
			res.EarlyAnswered = have() >= first
		}
		if werr == nil && len(late) > 0 {
			_, werr = cli.Write(late)
		}
		if werr != nil {
			res.Err = "client write: " + werr.Error()
			cli.SetDeadline(time.Now())
		}
		<-rdone
		reply = rbuf
	}
	res.Flight = hex.EncodeToString(flight)
	res.FlightLen = len(flight)
	// the tunnel is still open: the client has its answers and has not closed yet
	res.StatusOpen = s.rm.VerifRegStatus(reg)
	res.UpdatesOpen = s.updatesOf(reg)
	res.Swept = -1
	if c.Sweep {
		// 11 minutes pass for this registration (more than the 10-minute lifetime of an unused one,
		// far less than the 6 hours of a used one) and the station's periodic sweep runs
		s.rm.VerifAgeRegistration(reg, 11*time.Minute)
		s.rm.RemoveOldRegistrations()
		res.Swept = 0
		if s.rm.VerifRegStatus(reg) < 0 {
			res.Swept = 1
		}
	}
	cli.Close()
	sc.mu.Lock()
	recognised := sc.done
	sc.mu.Unlock()
	if !recognised {
		// nothing will be relayed: do not wait for the handler's 5-10 s deadline nor for the covert side
		ln.Close()
	}
	select {
	case <-hdone:
		res.Returned = true
	case <-time.After(map[bool]time.Duration{true: 16 * time.Second, false: 11 * time.Second}[recognised]):
	}
	select {
	case e := <-echoGot:
		res.Echo = vfSpec(e)
		res.EchoConn = <-echoConns
	case <-time.After(18 * time.Second):
		res.Err += " echo server did not finish"
	}
	res.Reply = vfSpec(reply)
	if len(reply) != want {
		atomic.AddInt32(&c04Failed, 1)
	}
	res.Status = s.rm.VerifRegStatus(reg)
	res.Updates = s.updatesOf(reg)
	sc.mu.Lock()
	res.Reads = append([]int{}, sc.reads...)
	res.Calls = append([]vfCall{}, sc.calls...)
	res.RelayFirst = sc.relayFirst
	if fu := s.firstUpdateSeq(reg); fu > 0 && sc.relayStart > 0 {
		res.MarkFirst = fu < sc.relayStart
	}
	sc.mu.Unlock()
	for _, cl := range res.Calls {
		if cl.Res == "found" {
			res.Found = true
			res.FoundT = cl.T
			res.FoundID = cl.RegID
		}
	}
	stream := append(append([]byte{}, flight...), data...)
	res.Reveals = s.reveals(stream, phantom)
	res.Marks = s.marks(phantom, stream)
	return
}

// how long the client waits for the covert's reply; a recognised connection answers within
// milliseconds, an unrecognised one is held by the handler until its 5-10 s deadline
const c04ClientWait = 4 * time.Second

// once many connections of a run have failed the tree is broken anyway: the remaining ones get a
// short wait so that the run ends in minutes, not in (cases x deadline)
var c04Failed int32

func c04Wait() time.Duration {
	if atomic.LoadInt32(&c04Failed) > 150 {
		return 400 * time.Millisecond
	}
	return c04ClientWait
}

type c04Out struct {
	Table   []vfPrefixRow  `json:"table"`
	Obfs4   map[string]int `json:"obfs4"`
	Results []c04Res       `json:"results"`
}

func TestVerifC04(t *testing.T) {
	raw, err := os.ReadFile(os.Getenv("VERIF_CASES"))
	if err != nil {
		t.Skip("no cases")
	}
	var cases []c04Case
	if err := json.Unmarshal(raw, &cases); err != nil {
		t.Fatal(err)
	}
	stdout := os.Stdout
	if dn, err := os.OpenFile(os.DevNull, os.O_WRONLY, 0); err == nil {
		os.Stdout = dn // the handler logs every connection to os.Stdout
		defer func() { os.Stdout = stdout }()
	}
	s, err := vfNewStation()
	if err != nil {
		t.Fatal(err)
	}
	out := c04Out{Table: s.table(), Results: make([]c04Res, len(cases)), Obfs4: map[string]int{}}
	a, b, c, d, e := obfs4.VerifConsts()
	out.Obfs4["min_handshake"], out.Obfs4["mark_start"], out.Obfs4["max_handshake"], out.Obfs4["mark_len"], out.Obfs4["mac_len"] = a, b, c, d, e
	out.Obfs4["min_pad"], out.Obfs4["max_pad"], out.Obfs4["server_min"] = obfs4.VerifPadRange()
	var wg sync.WaitGroup
	sem := make(chan struct{}, 48)
	for i := range cases {
		wg.Add(1)
		sem <- struct{}{}
		go func(i int) {
			defer wg.Done()
			out.Results[i] = c04Run(s, cases[i])
			<-sem
		}(i)
	}
	wg.Wait()
	_ = cj.Stat
	js, _ := json.Marshal(out)
	if err := os.WriteFile(os.Getenv("VERIF_OUT"), js, 0o644); err != nil {
		t.Fatal(err)
	}
}
