//go:build verif

package obfs4

import (
	"bytes"
	"crypto/hmac"
	"crypto/rand"
	"crypto/sha256"
	"strconv"
	"time"

	"github.com/refraction-networking/conjure/pkg/transports"
	"github.com/refraction-networking/obfs4/common/ntor"
)

// VerifMark (overlay only) evaluates the station's own mark derivation for a registration and a
// 32-byte representative, so that the handler drivers can pass it to the model as an oracle value.
func VerifMark(r transports.Registration, rep []byte) []byte {
	if r == nil {
		return nil
	}
	if r.TransportKeys() == nil {
		keys, err := generateObfs4Keys(r.TransportReader())
		if err != nil {
			return nil
		}
		if err := r.SetTransportKeys(keys); err != nil {
			return nil
		}
	}
	k, ok := r.TransportKeys().(Obfs4Keys)
	if !ok {
		return nil
	}
	var representative ntor.Representative
	copy(representative[:ntor.RepresentativeLength], rep)
	return generateMark(k.NodeID, k.PublicKey, &representative)
}

// VerifConsts reports the handshake length constants WrapConnection uses.
func VerifConsts() (minHandshake, markStart, maxHandshake, markLen, macLen int) {
	return ClientMinHandshakeLength, ntor.RepresentativeLength + ClientMinPadLength, MaxHandshakeLength, MarkLength, MacLength
}

// VerifClientFlight (overlay only) hand-builds a valid obfs4 client handshake for the registration
// with exactly padLen bytes of padding (the obfs4 client draws the length uniformly from
// [ClientMinPadLength, ClientMaxPadLength]; its extremes are practically never drawn):
//   X' | P_C | M_C | MAC(X' | P_C | M_C | E),  M_C = HMAC(B|NODEID, X'),  E = epoch hour.
func VerifClientFlight(r transports.Registration, padLen int) []byte {
	if VerifMark(r, make([]byte, ntor.RepresentativeLength)) == nil {
		return nil
	}
	k := r.TransportKeys().(Obfs4Keys)
	kp, err := ntor.NewKeypair(true)
	if err != nil {
		return nil
	}
	mac := hmac.New(sha256.New, append(k.PublicKey.Bytes()[:], k.NodeID.Bytes()[:]...))
	rep := kp.Representative().Bytes()[:]
	mac.Write(rep)
	mark := mac.Sum(nil)[:MarkLength]
	pad := make([]byte, padLen)
	_, _ = rand.Read(pad)
	var b bytes.Buffer
	b.Write(rep)
	b.Write(pad)
	b.Write(mark)
	mac.Reset()
	mac.Write(b.Bytes())
	mac.Write([]byte(strconv.FormatInt(time.Now().Unix()/3600, 10)))
	b.Write(mac.Sum(nil)[:MacLength])
	return b.Bytes()
}

// VerifPadRange reports the legal client padding lengths and the shortest server handshake.
func VerifPadRange() (minPad, maxPad, serverMin int) {
	return ClientMinPadLength, ClientMaxPadLength, ServerMinHandshakeLength
}
