package liveness

// Correspondence driver for C18 (liveness caches). Reads histories, runs them on
// the real testers built by liveness.New with a scripted probe function, and
// records what the implementation does. Contains no assertions about conjure.
//
// Time: with the `faketime` build tag (VERIF_C18_MODE=fake) the runtime clock
// only moves when the driver sleeps, so `Adv d` is time.Sleep(d ns) and ages are
// exact. Without it (VERIF_C18_MODE=shift) `Adv d` shifts every stored
// cachedTime back by d units of one hour.

import (
	"encoding/json"
	"errors"
	"fmt"
	"os"
	"runtime"
	"sync"
	"sync/atomic"
	"testing"
	"time"

	"github.com/BurntSushi/toml"
)

type c18op struct {
	K  string `json:"k"`  // "q" query, "a" advance, "c" clear expired
	A  int    `json:"a"`  // address index (query)
	PL bool   `json:"pl"` // what the probe would say
	PE int    `json:"pe"` // error class the probe would return
	D  int64  `json:"d"`  // advance
	P  uint16 `json:"p"`  // destination port of the query (0 = 443); the caches are keyed by address only
}

type c18case struct {
	DL  string  `json:"dl"`
	CL  int     `json:"cl"`
	DN  string  `json:"dn"`
	CN  int     `json:"cn"`
	Ops []c18op `json:"ops"`
	// Toml, when non-empty, is the text of a station configuration file: the liveness
	// configuration is then what the TOML decoder makes of it (DL/CL/DN/CN are ignored).
	Toml string `json:"toml"`
}

// The shapes of lib.RegConfig (embeds *liveness.Config) and lib.Config (embeds *RegConfig
// next to its own keys); decoded with the library lib.ParseConfig uses.
type C18RegConfig struct {
	*Config
	EnableIPv4 bool `toml:"enable_v4"`
}

type C18StationConfig struct {
	*C18RegConfig
	LogLevel string `toml:"log_level"`
}

func c18config(c c18case) (*Config, error) {
	if c.Toml == "" {
		return &Config{CacheDuration: c.DL, CacheCapacity: c.CL, CacheDurationNonLive: c.DN, CacheCapacityNonLive: c.CN}, nil
	}
	var sc C18StationConfig
	if _, err := toml.Decode(c.Toml, &sc); err != nil {
		return nil, err
	}
	if sc.C18RegConfig == nil {
		sc.C18RegConfig = &C18RegConfig{}
	}
	// as lib.NewRegistrationManager: liveness.New(conf.LivenessConfig()) -- the promoted method of the
	// embedded pointer as decoded (nil when no liveness key is present => defaultConfig)
	return sc.C18RegConfig.LivenessConfig(), nil
}

type c18step struct {
	Live  bool `json:"live"`
	Err   int  `json:"err"`   // 0 nil, 1 ErrCachedPhantom, 2 NotLive, 3 ErrLiveHost, 4 other
	Calls int  `json:"calls"` // probe-function calls during this operation
	LenL  int  `json:"ll"`
	LenN  int  `json:"ln"`
}

type c18res struct {
	InitErr bool      `json:"init_err"`
	Panic   string    `json:"panic"`
	Tester  string    `json:"tester"` // cached | uncached
	KindL   string    `json:"kl"`     // nil | map | lru
	KindN   string    `json:"kn"`
	SizeL   int       `json:"sl"` // lruSize
	SizeN   int       `json:"sn"`
	Steps   []c18step `json:"steps"`
}

var c18errOther = errors.New("dial tcp: connection refused")

func c18errOf(class int) error {
	switch class {
	case 0:
		return nil
	case 2:
		return NotLive
	case 3:
		return ErrLiveHost
	default:
		return c18errOther
	}
}

func c18classOf(err error) int {
	switch {
	case err == nil:
		return 0
	case errors.Is(err, ErrCachedPhantom):
		return 1
	case errors.Is(err, NotLive):
		return 2
	case errors.Is(err, ErrLiveHost):
		return 3
	default:
		return 4
	}
}

func c18kind(c cache) (string, int) {
	switch t := c.(type) {
	case nil:
		return "nil", 0
	case *mapCache:
		if t == nil {
			return "nil", 0
		}
		return "map", 0
	case *lruCache:
		if t == nil {
			return "nil", 0
		}
		return "lru", t.lruSize
	default:
		return fmt.Sprintf("%T", c), 0
	}
}

func c18len(c cache) int {
	if k, _ := c18kind(c); k == "nil" {
		return 0
	}
	return c.Len()
}

func c18shift(c cache, d time.Duration) {
	switch t := c.(type) {
	case *mapCache:
		if t == nil {
			return
		}
		t.m.Lock()
		for _, e := range t.ipCache {
			e.cachedTime = e.cachedTime.Add(-d)
		}
		t.m.Unlock()
	case *lruCache:
		if t == nil {
			return
		}
		t.m.Lock()
		for _, e := range t.ipCache {
			e.cachedTime = e.cachedTime.Add(-d)
		}
		t.m.Unlock()
	}
}

var c18addrs = []string{"192.0.2.1", "192.0.2.2", "2001:db8::3", "192.0.2.4", "192.0.2.5", "192.0.2.6", "192.0.2.7", "192.0.2.8"}

func c18run(c c18case, fake bool) (r c18res) {
	defer func() {
		if p := recover(); p != nil {
			r.Panic = fmt.Sprint(p)
		}
	}()
	conf, err := c18config(c)
	if err != nil {
		r.InitErr = true
		r.Panic = "toml: " + err.Error()
		return
	}
	lt, err := New(conf)
	if err != nil {
		r.InitErr = true
		return
	}
	calls := 0
	var cur c18op
	probe := func(address string) (bool, error) {
		calls++
		return cur.PL, c18errOf(cur.PE)
	}
	var clt *CachedLivenessTester
	switch t := lt.(type) {
	case *CachedLivenessTester:
		t.phantomIsLive = probe
		clt = t
		r.Tester = "cached"
		r.KindL, r.SizeL = c18kind(t.ipCacheLive)
		r.KindN, r.SizeN = c18kind(t.ipCacheNonLive)
	case *UncachedLivenessTester:
		t.phantomIsLive = probe
		r.Tester = "uncached"
		r.KindL, r.KindN = "nil", "nil"
	default:
		r.Tester = fmt.Sprintf("%T", lt)
	}
	for _, o := range c.Ops {
		var st c18step
		before := calls
		cur = o
		switch o.K {
		case "q":
			port := o.P
			if port == 0 {
				port = 443
			}
			live, err := lt.PhantomIsLive(c18addrs[o.A], port)
			st.Live = live
			st.Err = c18classOf(err)
		case "a":
			if fake {
				time.Sleep(time.Duration(o.D))
			} else if clt != nil {
				c18shift(clt.ipCacheLive, time.Duration(o.D)*time.Hour)
				c18shift(clt.ipCacheNonLive, time.Duration(o.D)*time.Hour)
			}
		case "c":
			if clt != nil {
				clt.ClearExpiredCache()
			}
		}
		st.Calls = calls - before
		if clt != nil {
			st.LenL = c18len(clt.ipCacheLive)
			st.LenN = c18len(clt.ipCacheNonLive)
		}
		r.Steps = append(r.Steps, st)
	}
	return
}

func TestVerifC18Seq(t *testing.T) {
	raw, err := os.ReadFile(os.Getenv("VERIF_CASES"))
	if err != nil {
		t.Skip("no cases")
	}
	var cases []c18case
	if err := json.Unmarshal(raw, &cases); err != nil {
		t.Fatal(err)
	}
	fake := os.Getenv("VERIF_C18_MODE") == "fake"
	if fake {
		// self-test of the fake clock: it must not move unless we sleep
		t0 := time.Now()
		x := 0
		for i := 0; i < 2000000; i++ {
			x += i
		}
		if time.Since(t0) != 0 || x < 0 {
			t.Fatalf("faketime build tag is not in effect (clock moved %v)", time.Since(t0))
		}
	}
	res := make([]c18res, len(cases))
	for i, c := range cases {
		res[i] = c18run(c, fake)
	}
	out, _ := json.Marshal(res)
	if err := os.WriteFile(os.Getenv("VERIF_OUT"), out, 0o644); err != nil {
		t.Fatal(err)
	}
}

// ---- concurrent queries (quick tier without, thorough tier with -race) ----

type c18conc struct {
	DL       string `json:"dl"`
	CL       int    `json:"cl"`
	DN       string `json:"dn"`
	CN       int    `json:"cn"`
	G        int    `json:"g"`        // goroutines
	N        int    `json:"n"`        // queries per goroutine
	Addrs    int    `json:"addrs"`    // address universe (shared by all goroutines unless Distinct)
	Distinct bool   `json:"distinct"` // every goroutine queries its own, all different, addresses (Add-heavy)
	Rounds   int    `json:"rounds"`   // fresh tester per round; the worst round is reported
	Seed     int64  `json:"seed"`
	Clearer  bool   `json:"clearer"` // a goroutine calling ClearExpiredCache concurrently
}

type c18concRes struct {
	Panic        string `json:"panic"`
	InitErr      bool   `json:"init_err"`
	Procs        int    `json:"procs"`
	MaxLenL      int    `json:"maxl"` // maximum Len() sampled while the workers ran
	MaxLenN      int    `json:"maxn"`
	FinalLenL    int    `json:"finl"` // Len() after all workers returned (maximum over the rounds)
	FinalLenN    int    `json:"finn"`
	Leaked       int    `json:"leaked"`        // after quiescence: verdict-map keys that the recency list does not hold
	LeakedServed int    `json:"leaked_served"` // ... of which a query was answered from the cache without a probe
	LeakRound    int    `json:"leak_round"`
	LeakKey      string `json:"leak_key"`
	Wrong        int    `json:"wrong"` // served verdicts that no measurement of that address ever produced
	Queries      int    `json:"queries"`
	Probes       int64  `json:"probes"`
}

func c18leaked(c cache) []string {
	lc, ok := c.(*lruCache)
	if !ok || lc == nil {
		return nil
	}
	var out []string
	lc.m.RLock()
	for k := range lc.ipCache {
		if !lc.lru.Contains(k) {
			out = append(out, k)
		}
	}
	lc.m.RUnlock()
	return out
}

func c18runConc(c c18conc) (r c18concRes) {
	r.Procs = runtime.GOMAXPROCS(0)
	r.LeakRound = -1
	rounds := c.Rounds
	if rounds <= 0 {
		rounds = 1
	}
	for round := 0; round < rounds; round++ {
		one := c18concRound(c, round)
		if one.InitErr {
			r.InitErr = true
			return
		}
		if one.Panic != "" && r.Panic == "" {
			r.Panic = one.Panic
		}
		if one.MaxLenL > r.MaxLenL {
			r.MaxLenL = one.MaxLenL
		}
		if one.MaxLenN > r.MaxLenN {
			r.MaxLenN = one.MaxLenN
		}
		if one.FinalLenL > r.FinalLenL {
			r.FinalLenL = one.FinalLenL
		}
		if one.FinalLenN > r.FinalLenN {
			r.FinalLenN = one.FinalLenN
		}
		if one.Leaked > 0 && r.LeakRound < 0 {
			r.LeakRound, r.LeakKey = round, one.LeakKey
		}
		r.Leaked += one.Leaked
		r.LeakedServed += one.LeakedServed
		r.Wrong += one.Wrong
		r.Queries += one.Queries
		r.Probes += one.Probes
	}
	return
}

func c18concRound(c c18conc, round int) (r c18concRes) {
	lt, err := New(&Config{CacheDuration: c.DL, CacheCapacity: c.CL, CacheDurationNonLive: c.DN, CacheCapacityNonLive: c.CN})
	if err != nil {
		r.InitErr = true
		return
	}
	clt, ok := lt.(*CachedLivenessTester)
	if !ok {
		return
	}
	nAddrs := c.Addrs
	if c.Distinct {
		nAddrs = c.G * c.N
	}
	addrs := make([]string, nAddrs)
	verdict := make(map[string]bool, nAddrs)
	for i := range addrs {
		addrs[i] = fmt.Sprintf("198.51.%d.%d", i/250, i%250+1)
		verdict[addrs[i]+":443"] = (i%3 != 0) // fixed per address: every measurement of an address agrees
	}
	var probes int64
	clt.phantomIsLive = func(address string) (bool, error) {
		atomic.AddInt64(&probes, 1)
		return verdict[address], nil
	}
	var wg sync.WaitGroup
	var wrong int64
	var pmu sync.Mutex
	stop := make(chan struct{})
	var maxL, maxN int64
	var aux sync.WaitGroup
	aux.Add(1)
	go func() {
		defer aux.Done()
		for {
			select {
			case <-stop:
				return
			default:
			}
			l, n := int64(c18len(clt.ipCacheLive)), int64(c18len(clt.ipCacheNonLive))
			if l > atomic.LoadInt64(&maxL) {
				atomic.StoreInt64(&maxL, l)
			}
			if n > atomic.LoadInt64(&maxN) {
				atomic.StoreInt64(&maxN, n)
			}
			runtime.Gosched()
		}
	}()
	if c.Clearer {
		aux.Add(1)
		go func() {
			defer aux.Done()
			for {
				select {
				case <-stop:
					return
				default:
					clt.ClearExpiredCache()
					runtime.Gosched()
				}
			}
		}()
	}
	for g := 0; g < c.G; g++ {
		wg.Add(1)
		go func(g int) {
			defer wg.Done()
			defer func() {
				if p := recover(); p != nil {
					pmu.Lock()
					r.Panic = fmt.Sprint(p)
					pmu.Unlock()
				}
			}()
			x := uint64(c.Seed)*2654435761 + uint64(g)*40503 + uint64(round)*7919 + 1
			for i := 0; i < c.N; i++ {
				var a string
				if c.Distinct {
					a = addrs[g*c.N+i]
				} else {
					x = x*6364136223846793005 + 1442695040888963407
					a = addrs[int((x>>33)%uint64(len(addrs)))]
				}
				live, _ := clt.PhantomIsLive(a, 443)
				if live != verdict[a+":443"] {
					atomic.AddInt64(&wrong, 1)
				}
			}
		}(g)
	}
	wg.Wait()
	close(stop)
	aux.Wait() // quiescence: nothing is in flight any more
	r.MaxLenL, r.MaxLenN = int(atomic.LoadInt64(&maxL)), int(atomic.LoadInt64(&maxN))
	r.FinalLenL, r.FinalLenN = c18len(clt.ipCacheLive), c18len(clt.ipCacheNonLive)
	r.Wrong = int(wrong)
	r.Queries = c.G * c.N
	// evicted entries must be gone: every verdict still stored must be tracked by the recency list ...
	leaked := append(c18leaked(clt.ipCacheLive), c18leaked(clt.ipCacheNonLive)...)
	r.Leaked = len(leaked)
	if len(leaked) > 0 {
		r.LeakKey = leaked[0]
	}
	// ... and must not be answered from the cache
	for _, k := range leaked {
		before := atomic.LoadInt64(&probes)
		_, err := clt.PhantomIsLive(k, 443)
		if errors.Is(err, ErrCachedPhantom) && atomic.LoadInt64(&probes) == before {
			r.LeakedServed++
		}
	}
	r.Probes = atomic.LoadInt64(&probes)
	return
}

func TestVerifC18Conc(t *testing.T) {
	raw, err := os.ReadFile(os.Getenv("VERIF_CASES"))
	if err != nil {
		t.Skip("no cases")
	}
	var cases []c18conc
	if err := json.Unmarshal(raw, &cases); err != nil {
		t.Fatal(err)
	}
	// the interleavings inside Add / Lookup need real parallelism
	if runtime.GOMAXPROCS(0) < 8 {
		defer runtime.GOMAXPROCS(runtime.GOMAXPROCS(8))
	}
	res := make([]c18concRes, len(cases))
	for i, c := range cases {
		res[i] = c18runConc(c)
	}
	out, _ := json.Marshal(res)
	if err := os.WriteFile(os.Getenv("VERIF_OUT"), out, 0o644); err != nil {
		t.Fatal(err)
	}
}

// ---- order of the atomic sections (no hook: the driver holds the verdict-map lock) ----
//
// While lruCache.m is write-locked by the driver, an operation that starts with its
// map section blocks before it has touched the recency list. Observed per operation:
// did the recency list change while the operation was blocked on the map lock?

type c18section struct {
	Op          string `json:"op"`           // add | lookup | clear
	ListChanged bool   `json:"list_changed"` // recency list differs from before although the map lock was never released
	MapChanged  bool   `json:"map_changed"`
	Returned    bool   `json:"returned"` // the operation finished although the map lock was held
	AfterInMap  bool   `json:"after_in_map"`
	AfterInList bool   `json:"after_in_list"`
}

func c18keys(lc *lruCache) string { return fmt.Sprint(lc.lru.Keys()) }

func TestVerifC18Sections(t *testing.T) {
	if os.Getenv("VERIF_OUT") == "" {
		t.Skip("no output file")
	}
	var res []c18section
	for _, op := range []string{"add", "lookup", "clear"} {
		lc := newLRUCache(time.Hour, 2)
		lc.Add("a", &cacheElement{cachedTime: time.Now()})
		lc.Add("b", &cacheElement{cachedTime: time.Now().Add(-2 * time.Hour)}) // b is overdue
		key := map[string]string{"add": "k", "lookup": "a", "clear": "b"}[op]
		lc.m.Lock()
		beforeList, beforeMap := c18keys(lc), len(lc.ipCache)
		done := make(chan struct{})
		go func() {
			defer close(done)
			switch op {
			case "add":
				lc.Add("k", &cacheElement{cachedTime: time.Now()})
			case "lookup":
				lc.Lookup("a") // fresh: refreshes recency (a is the oldest entry of the list)
			case "clear":
				lc.ClearExpired()
			}
		}()
		var s c18section
		s.Op = op
		select {
		case <-done:
			s.Returned = true
		case <-time.After(150 * time.Millisecond):
		}
		s.ListChanged = c18keys(lc) != beforeList
		s.MapChanged = len(lc.ipCache) != beforeMap
		lc.m.Unlock()
		select {
		case <-done:
		case <-time.After(5 * time.Second):
		}
		lc.m.RLock()
		_, s.AfterInMap = lc.ipCache[key]
		lc.m.RUnlock()
		s.AfterInList = lc.lru.Contains(key)
		res = append(res, s)
	}
	out, _ := json.Marshal(res)
	if err := os.WriteFile(os.Getenv("VERIF_OUT"), out, 0o644); err != nil {
		t.Fatal(err)
	}
}
