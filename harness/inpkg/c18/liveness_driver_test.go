package liveness

// Correspondence driver for C18 (liveness caches). Reads histories, runs them on
// the real testers built by liveness.New with a scripted probe function, and
// records what the implementation does. Contains no assertions about conjure.
//
// Time: with the `faketime` build tag (VERIF_C18_MODE=fake) the runtime clock
// only moves when the driver sleeps, so `Adv d` is time.Sleep(d ns) and ages are
// exact. Without it (VERIF_C18_MODE=shift) `Adv d` shifts every stored
// cachedTime back by d units of one hour.

import (
	"encoding/json"
	"errors"
	"fmt"
	"os"
	"sync"
	"sync/atomic"
	"testing"
	"time"
)

type c18op struct {
	K  string `json:"k"`  // "q" query, "a" advance, "c" clear expired
	A  int    `json:"a"`  // address index (query)
	PL bool   `json:"pl"` // what the probe would say
	PE int    `json:"pe"` // error class the probe would return
	D  int64  `json:"d"`  // advance
	P  uint16 `json:"p"`  // destination port of the query (0 = 443); the caches are keyed by address only
}

type c18case struct {
	DL  string  `json:"dl"`
	CL  int     `json:"cl"`
	DN  string  `json:"dn"`
	CN  int     `json:"cn"`
	Ops []c18op `json:"ops"`
}

type c18step struct {
	Live  bool `json:"live"`
	Err   int  `json:"err"`   // 0 nil, 1 ErrCachedPhantom, 2 NotLive, 3 ErrLiveHost, 4 other
	Calls int  `json:"calls"` // probe-function calls during this operation
	LenL  int  `json:"ll"`
	LenN  int  `json:"ln"`
}

type c18res struct {
	InitErr bool      `json:"init_err"`
	Panic   string    `json:"panic"`
	Tester  string    `json:"tester"` // cached | uncached
	KindL   string    `json:"kl"`     // nil | map | lru
	KindN   string    `json:"kn"`
	SizeL   int       `json:"sl"` // lruSize
	SizeN   int       `json:"sn"`
	Steps   []c18step `json:"steps"`
}

var c18errOther = errors.New("dial tcp: connection refused")

func c18errOf(class int) error {
	switch class {
	case 0:
		return nil
	case 2:
		return NotLive
	case 3:
		return ErrLiveHost
	default:
		return c18errOther
	}
}

func c18classOf(err error) int {
	switch {
	case err == nil:
		return 0
	case errors.Is(err, ErrCachedPhantom):
		return 1
	case errors.Is(err, NotLive):
		return 2
	case errors.Is(err, ErrLiveHost):
		return 3
	default:
		return 4
	}
}

func c18kind(c cache) (string, int) {
	switch t := c.(type) {
	case nil:
		return "nil", 0
	case *mapCache:
		if t == nil {
			return "nil", 0
		}
		return "map", 0
	case *lruCache:
		if t == nil {
			return "nil", 0
		}
		return "lru", t.lruSize
	default:
		return fmt.Sprintf("%T", c), 0
	}
}

func c18len(c cache) int {
	if k, _ := c18kind(c); k == "nil" {
		return 0
	}
	return c.Len()
}

func c18shift(c cache, d time.Duration) {
	switch t := c.(type) {
	case *mapCache:
		if t == nil {
			return
		}
		t.m.Lock()
		for _, e := range t.ipCache {
			e.cachedTime = e.cachedTime.Add(-d)
		}
		t.m.Unlock()
	case *lruCache:
		if t == nil {
			return
		}
		t.m.Lock()
		for _, e := range t.ipCache {
			e.cachedTime = e.cachedTime.Add(-d)
		}
		t.m.Unlock()
	}
}

var c18addrs = []string{"192.0.2.1", "192.0.2.2", "2001:db8::3", "192.0.2.4", "192.0.2.5", "192.0.2.6", "192.0.2.7", "192.0.2.8"}

func c18run(c c18case, fake bool) (r c18res) {
	defer func() {
		if p := recover(); p != nil {
			r.Panic = fmt.Sprint(p)
		}
	}()
	lt, err := New(&Config{CacheDuration: c.DL, CacheCapacity: c.CL, CacheDurationNonLive: c.DN, CacheCapacityNonLive: c.CN})
	if err != nil {
		r.InitErr = true
		return
	}
	calls := 0
	var cur c18op
	probe := func(address string) (bool, error) {
		calls++
		return cur.PL, c18errOf(cur.PE)
	}
	var clt *CachedLivenessTester
	switch t := lt.(type) {
	case *CachedLivenessTester:
		t.phantomIsLive = probe
		clt = t
		r.Tester = "cached"
		r.KindL, r.SizeL = c18kind(t.ipCacheLive)
		r.KindN, r.SizeN = c18kind(t.ipCacheNonLive)
	case *UncachedLivenessTester:
		t.phantomIsLive = probe
		r.Tester = "uncached"
		r.KindL, r.KindN = "nil", "nil"
	default:
		r.Tester = fmt.Sprintf("%T", lt)
	}
	for _, o := range c.Ops {
		var st c18step
		before := calls
		cur = o
		switch o.K {
		case "q":
			port := o.P
			if port == 0 {
				port = 443
			}
			live, err := lt.PhantomIsLive(c18addrs[o.A], port)
			st.Live = live
			st.Err = c18classOf(err)
		case "a":
			if fake {
				time.Sleep(time.Duration(o.D))
			} else if clt != nil {
				c18shift(clt.ipCacheLive, time.Duration(o.D)*time.Hour)
				c18shift(clt.ipCacheNonLive, time.Duration(o.D)*time.Hour)
			}
		case "c":
			if clt != nil {
				clt.ClearExpiredCache()
			}
		}
		st.Calls = calls - before
		if clt != nil {
			st.LenL = c18len(clt.ipCacheLive)
			st.LenN = c18len(clt.ipCacheNonLive)
		}
		r.Steps = append(r.Steps, st)
	}
	return
}

func TestVerifC18Seq(t *testing.T) {
	raw, err := os.ReadFile(os.Getenv("VERIF_CASES"))
	if err != nil {
		t.Skip("no cases")
	}
	var cases []c18case
	if err := json.Unmarshal(raw, &cases); err != nil {
		t.Fatal(err)
	}
	fake := os.Getenv("VERIF_C18_MODE") == "fake"
	if fake {
		// self-test of the fake clock: it must not move unless we sleep
		t0 := time.Now()
		x := 0
		for i := 0; i < 2000000; i++ {
			x += i
		}
		if time.Since(t0) != 0 || x < 0 {
			t.Fatalf("faketime build tag is not in effect (clock moved %v)", time.Since(t0))
		}
	}
	res := make([]c18res, len(cases))
	for i, c := range cases {
		res[i] = c18run(c, fake)
	}
	out, _ := json.Marshal(res)
	if err := os.WriteFile(os.Getenv("VERIF_OUT"), out, 0o644); err != nil {
		t.Fatal(err)
	}
}

// ---- concurrent queries (run with -race) ----

type c18conc struct {
	DL      string `json:"dl"`
	CL      int    `json:"cl"`
	DN      string `json:"dn"`
	CN      int    `json:"cn"`
	G       int    `json:"g"`       // goroutines
	N       int    `json:"n"`       // queries per goroutine
	Addrs   int    `json:"addrs"`   // address universe
	Seed    int64  `json:"seed"`
	Clearer bool   `json:"clearer"` // a goroutine calling ClearExpiredCache concurrently
}

type c18concRes struct {
	Panic     string `json:"panic"`
	InitErr   bool   `json:"init_err"`
	MaxLenL   int    `json:"maxl"` // maximum Len() sampled while the workers ran
	MaxLenN   int    `json:"maxn"`
	FinalLenL int    `json:"finl"` // Len() after all workers returned
	FinalLenN int    `json:"finn"`
	Wrong     int    `json:"wrong"` // served verdicts that no measurement of that address ever produced
	Queries   int    `json:"queries"`
	Probes    int64  `json:"probes"`
}

func c18runConc(c c18conc) (r c18concRes) {
	lt, err := New(&Config{CacheDuration: c.DL, CacheCapacity: c.CL, CacheDurationNonLive: c.DN, CacheCapacityNonLive: c.CN})
	if err != nil {
		r.InitErr = true
		return
	}
	clt, ok := lt.(*CachedLivenessTester)
	if !ok {
		return
	}
	addrs := make([]string, c.Addrs)
	verdict := map[string]bool{}
	for i := range addrs {
		addrs[i] = fmt.Sprintf("198.51.100.%d", i)
		verdict[addrs[i]+":443"] = (i%3 != 0) // fixed per address: every measurement of an address agrees
	}
	var probes int64
	clt.phantomIsLive = func(address string) (bool, error) {
		atomic.AddInt64(&probes, 1)
		return verdict[address], nil
	}
	var wg sync.WaitGroup
	var wrong int64
	var pmu sync.Mutex
	stop := make(chan struct{})
	var maxL, maxN int64
	sampler := func() {
		for {
			select {
			case <-stop:
				return
			default:
			}
			l, n := int64(c18len(clt.ipCacheLive)), int64(c18len(clt.ipCacheNonLive))
			if l > atomic.LoadInt64(&maxL) {
				atomic.StoreInt64(&maxL, l)
			}
			if n > atomic.LoadInt64(&maxN) {
				atomic.StoreInt64(&maxN, n)
			}
		}
	}
	go sampler()
	if c.Clearer {
		go func() {
			for {
				select {
				case <-stop:
					return
				default:
					clt.ClearExpiredCache()
				}
			}
		}()
	}
	for g := 0; g < c.G; g++ {
		wg.Add(1)
		go func(g int) {
			defer wg.Done()
			defer func() {
				if p := recover(); p != nil {
					pmu.Lock()
					r.Panic = fmt.Sprint(p)
					pmu.Unlock()
				}
			}()
			x := uint64(c.Seed)*2654435761 + uint64(g)*40503 + 1
			for i := 0; i < c.N; i++ {
				x = x*6364136223846793005 + 1442695040888963407
				a := addrs[int((x>>33)%uint64(len(addrs)))]
				live, _ := clt.PhantomIsLive(a, 443)
				if live != verdict[a+":443"] {
					atomic.AddInt64(&wrong, 1)
				}
			}
		}(g)
	}
	wg.Wait()
	close(stop)
	r.MaxLenL, r.MaxLenN = int(atomic.LoadInt64(&maxL)), int(atomic.LoadInt64(&maxN))
	r.FinalLenL, r.FinalLenN = c18len(clt.ipCacheLive), c18len(clt.ipCacheNonLive)
	r.Wrong = int(wrong)
	r.Queries = c.G * c.N
	r.Probes = atomic.LoadInt64(&probes)
	return
}

func TestVerifC18Conc(t *testing.T) {
	raw, err := os.ReadFile(os.Getenv("VERIF_CASES"))
	if err != nil {
		t.Skip("no cases")
	}
	var cases []c18conc
	if err := json.Unmarshal(raw, &cases); err != nil {
		t.Fatal(err)
	}
	res := make([]c18concRes, len(cases))
	for i, c := range cases {
		res[i] = c18runConc(c)
	}
	out, _ := json.Marshal(res)
	if err := os.WriteFile(os.Getenv("VERIF_OUT"), out, 0o644); err != nil {
		t.Fatal(err)
	}
}
