package main

// C13 driver for cmd/registration-server/main.go: the REAL main() runs inside the test process
// (API registrar, optionally the DNS registrar too; ZMQ auth NULL; loopback ports), the reload is
// triggered the way an operator does it: publish a ClientConf and a phantom-subnets file, send
// SIGHUP.  The files the handler reads can be FIFOs, which holds the real handler exactly where it
// reads them (ClientConf: before anything was changed; subnets: inside ReloadSubnets), and
// registrations are sent through the real HTTP front end in each gap and afterwards.
// Only observables are recorded (HTTP status, phantoms, ClientConf generation handed back, the order
// in which the handler opened the files); no assertions about conjure.

import (
	"bytes"
	"context"
	"crypto/rand"
	"encoding/binary"
	"encoding/json"
	"fmt"
	"io"
	"net"
	"net/http"
	"os"
	"path/filepath"
	"sync"
	"sync/atomic"
	"syscall"
	"testing"
	"time"

	"github.com/refraction-networking/conjure/pkg/core"
	"github.com/refraction-networking/conjure/pkg/registrars/dns-registrar/encryption"
	"github.com/refraction-networking/conjure/pkg/registrars/dns-registrar/requester"
	pb "github.com/refraction-networking/conjure/proto"
	"google.golang.org/protobuf/proto"
)

type c13mProbe struct {
	Gen int  `json:"gen"`
	V4  bool `json:"v4"`
	V6  bool `json:"v6"`
	DNS bool `json:"dns"` // through the DNS registrar (real requester over UDP) instead of the HTTP API
}

type c13mRound struct {
	CC      int         `json:"cc"`       // generation of the ClientConf published in this round
	CCBad   bool        `json:"cc_bad"`   // the ClientConf file does not parse
	Set     int         `json:"set"`      // id of the subnet set published in this round
	Gens    []int       `json:"gens"`     // client generations the subnets file contains
	SubBad  bool        `json:"sub_bad"`  // the subnets file does not load
	SubBadKind string   `json:"sub_bad_kind"` // syntax (TOML syntax error) | stage2 (parses as TOML, generation key is not a number) | missing | isdir
	HoldCC  bool        `json:"hold_cc"`  // ClientConf is read through a FIFO
	HoldSub bool        `json:"hold_sub"` // the subnets file is read through a FIFO
	Probes  []c13mProbe `json:"probes"`
	Stress  int         `json:"stress"` // number of free-running clients during the reload (no holds)
	StressN int         `json:"stress_n"`
}

type c13mCase struct {
	InitCC   int         `json:"init_cc"`
	InitSet  int         `json:"init_set"`
	InitGens []int       `json:"init_gens"`
	DNS      bool        `json:"dns"`
	Rounds   []c13mRound `json:"rounds"`
}

type c13mObs struct {
	DNS    bool   `json:"dns"`
	Gen    int    `json:"gen"`
	V4     bool   `json:"v4"`
	V6     bool   `json:"v6"`
	Status int    `json:"status"` // HTTP status; 0: no answer
	Err    string `json:"err"`
	V4Set  int    `json:"v4set"`
	V4Gen  int    `json:"v4gen"`
	V6Set  int    `json:"v6set"`
	V6Gen  int    `json:"v6gen"`
	CC     int    `json:"cc"`   // generation of the ClientConf in the response, -1: none
	Late   bool   `json:"late"` // not answered while the handler was held; answered after the release
}

type c13mRoundObs struct {
	Opens   []string  `json:"opens"` // order in which the handler opened the held files
	AtCC    []c13mObs `json:"at_cc"`
	AtSub   []c13mObs `json:"at_sub"`
	After   []c13mObs `json:"after"`
	Settled bool      `json:"settled"`
	Final   c13mObs   `json:"final"` // generation-0 dual-stack probe once the reload has taken effect (or the bound passed)
	NStress int       `json:"nstress"`
	Bad     []c13mObs `json:"bad"` // stress: answers that are not a 200 with both phantoms from one set
	NBad    int       `json:"nbad"`
	WallMs  int64     `json:"wall_ms"`
}

type c13mRes struct {
	Aborted string         `json:"aborted"` // the registrar stopped answering: the remaining rounds were not run
	Started bool           `json:"started"`
	Err     string         `json:"err"`
	Init    c13mObs        `json:"init"`
	Rounds  []c13mRoundObs `json:"rounds"`
}

func c13mFreePort(network string) int {
	if network == "udp" {
		c, err := net.ListenPacket("udp", "127.0.0.1:0")
		if err != nil {
			return 0
		}
		defer c.Close()
		return c.LocalAddr().(*net.UDPAddr).Port
	}
	l, err := net.Listen("tcp", "127.0.0.1:0")
	if err != nil {
		return 0
	}
	defer l.Close()
	return l.Addr().(*net.TCPAddr).Port
}

func c13mSubnets(set int, gens []int) []byte {
	s := "[Networks]\n"
	for _, g := range gens {
		s += fmt.Sprintf("  [Networks.%d]\n    Generation = %d\n    [[Networks.%d.WeightedSubnets]]\n      Weight = 1\n      RandomizeDstPort = true\n      Subnets = [\"10.%d.%d.0/24\", \"fd00:%x:%x::/48\"]\n", g, g, g, set, g, set, g)
	}
	return []byte(s)
}

func c13mClientConf(gen int) []byte {
	b, _ := proto.Marshal(&pb.ClientConf{Generation: proto.Uint32(uint32(gen))})
	return b
}

func c13mReplace(path string, data []byte) {
	_ = os.WriteFile(path+".tmp", data, 0o644)
	_ = os.Rename(path+".tmp", path)
}

var c13mClient = &http.Client{Timeout: 3 * time.Second, Transport: &http.Transport{MaxIdleConnsPerHost: 32}}
var c13mSeq atomic.Int64
var c13mDead atomic.Bool // a registration got no HTTP answer at all

var c13mDNSTarget string
var c13mDNSPub []byte

func c13mFill(o *c13mObs, rr *pb.RegistrationResponse) {
	if rr.Ipv4Addr != nil {
		b := make([]byte, 4)
		binary.BigEndian.PutUint32(b, rr.GetIpv4Addr())
		o.V4Set, o.V4Gen = int(b[1]), int(b[2])
	}
	if a := rr.GetIpv6Addr(); len(a) == 16 {
		o.V6Set, o.V6Gen = int(a[3]), int(a[5])
	}
	if rr.GetClientConf() != nil {
		o.CC = int(rr.GetClientConf().GetGeneration())
	}
}

// one bidirectional registration through the DNS registrar: the repository's own requester over UDP.
// Status 200 stands for success=true in the DnsResponse, 500 for success=false; CC is 1 when the
// response says clientconf_outdated.
func c13mRegisterDNS(pr c13mProbe) c13mObs {
	o := c13mObs{DNS: true, Gen: pr.Gen, V4: pr.V4, V6: pr.V6, V4Set: -1, V4Gen: -1, V6Set: -1, V6Gen: -1, CC: -1}
	tr := pb.TransportType_Min
	src := pb.RegistrationSource_BidirectionalDNS
	secret := make([]byte, 32)
	_, _ = rand.Read(secret)
	body, _ := proto.Marshal(&pb.C2SWrapper{
		SharedSecret:       secret,
		RegistrationSource: &src,
		RegistrationPayload: &pb.ClientToStation{
			Transport:           &tr,
			DecoyListGeneration: proto.Uint32(uint32(pr.Gen)),
			CovertAddress:       proto.String("1.2.3.4:1234"),
			V4Support:           proto.Bool(pr.V4),
			V6Support:           proto.Bool(pr.V6),
			ClientLibVersion:    proto.Uint32(core.CurrentClientLibraryVersion()),
		},
	})
	rq, err := requester.NewRequester(&requester.Config{TransportMethod: requester.UDP, Target: c13mDNSTarget,
		BaseDomain: "verif.example.com", Pubkey: c13mDNSPub})
	if err != nil {
		o.Err = "requester"
		return o
	}
	type ans struct {
		b   []byte
		err error
	}
	ch := make(chan ans, 1)
	go func() { b, err := rq.RequestAndRecv(body); ch <- ans{b, err} }()
	var a ans
	select {
	case a = <-ch:
		_ = rq.Close()
	case <-time.After(3 * time.Second):
		_ = rq.Close()
		o.Err = "post"
		c13mDead.Store(true)
		return o
	}
	if a.err != nil {
		o.Err = "recv"
		return o
	}
	dr := &pb.DnsResponse{}
	if err := proto.Unmarshal(a.b, dr); err != nil {
		o.Err = "decode"
		return o
	}
	o.Status = 500
	if dr.GetSuccess() {
		o.Status = 200
	}
	if dr.GetClientconfOutdated() {
		o.CC = 1
	}
	if dr.GetBidirectionalResponse() != nil {
		c13mFill(&o, dr.GetBidirectionalResponse())
		if dr.GetClientconfOutdated() {
			o.CC = 1
		} else {
			o.CC = -1
		}
	}
	return o
}

func c13mRegister(url string, pr c13mProbe) c13mObs {
	if pr.DNS {
		return c13mRegisterDNS(pr)
	}
	o := c13mObs{Gen: pr.Gen, V4: pr.V4, V6: pr.V6, V4Set: -1, V4Gen: -1, V6Set: -1, V6Gen: -1, CC: -1}
	tr := pb.TransportType_Min
	secret := make([]byte, 32)
	_, _ = rand.Read(secret)
	binary.BigEndian.PutUint64(secret, uint64(c13mSeq.Add(1)))
	body, _ := proto.Marshal(&pb.C2SWrapper{
		SharedSecret: secret,
		RegistrationPayload: &pb.ClientToStation{
			Transport:           &tr,
			DecoyListGeneration: proto.Uint32(uint32(pr.Gen)),
			CovertAddress:       proto.String("1.2.3.4:1234"),
			V4Support:           proto.Bool(pr.V4),
			V6Support:           proto.Bool(pr.V6),
			ClientLibVersion:    proto.Uint32(core.CurrentClientLibraryVersion()),
		},
	})
	resp, err := c13mClient.Post(url, "application/octet-stream", bytes.NewReader(body))
	if err != nil {
		o.Err = "post"
		c13mDead.Store(true)
		return o
	}
	defer resp.Body.Close()
	raw, err := io.ReadAll(resp.Body)
	o.Status = resp.StatusCode
	if err != nil || resp.StatusCode != http.StatusOK {
		return o
	}
	rr := &pb.RegistrationResponse{}
	if err := proto.Unmarshal(raw, rr); err != nil {
		o.Err = "decode"
		return o
	}
	c13mFill(&o, rr)
	return o
}

// a FIFO the handler is about to read: returns a write descriptor once the reader has it open
func c13mAwaitReader(fifo string, limit time.Duration) int {
	t0 := time.Now()
	for time.Since(t0) < limit {
		fd, err := syscall.Open(fifo, syscall.O_WRONLY|syscall.O_NONBLOCK, 0)
		if err == nil {
			return fd
		}
		time.Sleep(200 * time.Microsecond)
	}
	return -1
}

func c13mFeed(fd int, data []byte) {
	_ = syscall.SetNonblock(fd, false)
	for len(data) > 0 {
		n, err := syscall.Write(fd, data)
		if err != nil {
			break
		}
		data = data[n:]
	}
	_ = syscall.Close(fd)
}

// probes while the handler is held; if a probe is not answered in a short while the handler is released
// (an implementation may hold the selector lock while it reads the file: the request is then required
// to be answered once the file has been read)
func c13mProbeHeld(url string, probes []c13mProbe, release func()) []c13mObs {
	var out []c13mObs
	released := false
	for _, pr := range probes {
		ch := make(chan c13mObs, 1)
		go func(pr c13mProbe) { ch <- c13mRegister(url, pr) }(pr)
		if released {
			o := <-ch
			o.Late = true
			out = append(out, o)
			continue
		}
		select {
		case o := <-ch:
			out = append(out, o)
		case <-time.After(400 * time.Millisecond):
			release()
			released = true
			o := <-ch
			o.Late = true
			out = append(out, o)
		}
	}
	return out
}

func c13mOK(o c13mObs) bool {
	if o.Status != 200 {
		return false
	}
	if o.V4 && o.V6 && (o.V4Set != o.V6Set || o.V4Gen != o.V6Gen) {
		return false
	}
	return (!o.V4 || o.V4Set >= 0) && (!o.V6 || o.V6Set >= 0)
}

func TestVerifC13Main(t *testing.T) {
	raw, err := os.ReadFile(os.Getenv("VERIF_CASES"))
	if err != nil {
		t.Skip("no cases")
	}
	var cases []c13mCase
	if err := json.Unmarshal(raw, &cases); err != nil || len(cases) == 0 {
		t.Fatal("cases")
	}
	c := cases[0] // main() can be started once per process
	res := c13mRes{}
	flush := func() {
		out, _ := json.Marshal([]c13mRes{res})
		tmp := os.Getenv("VERIF_OUT") + ".tmp"
		_ = os.WriteFile(tmp, out, 0o644)
		_ = os.Rename(tmp, os.Getenv("VERIF_OUT"))
	}
	defer flush()

	dir := t.TempDir()
	subFile := filepath.Join(dir, "phantom_subnets.toml")
	subFifo := filepath.Join(dir, "phantom_subnets.fifo")
	ccFile := filepath.Join(dir, "ClientConf")
	ccFifo := filepath.Join(dir, "ClientConf.fifo")
	keyPath := filepath.Join(dir, "privkey")
	cfgPath := filepath.Join(dir, "reg_config.toml")
	_ = syscall.Mkfifo(subFifo, 0o600)
	_ = syscall.Mkfifo(ccFifo, 0o600)
	_ = os.WriteFile(keyPath, bytes.Repeat([]byte{7}, 64), 0o600)
	apiPort, zmqPort, dnsPort := c13mFreePort("tcp"), c13mFreePort("tcp"), c13mFreePort("udp")
	c13mDNSTarget = fmt.Sprintf("127.0.0.1:%d", dnsPort)
	c13mDNSPub = encryption.PubkeyFromPrivkey(bytes.Repeat([]byte{7}, 32))
	writeCfg := func(ccPath string) {
		c13mReplace(cfgPath, []byte(fmt.Sprintf(`
api_port = %d
zmq_port = %d
zmq_bind_addr = "127.0.0.1"
zmq_auth_type = "NULL"
zmq_privkey_path = %q
clientconf_path = %q
dns_listen_addr = "127.0.0.1:%d"
domain = "verif.example.com"
dns_private_key_path = %q
log_level = "panic"
log_metrics_interval = 3600
enforce_subnet_overrides = false
`, apiPort, zmqPort, keyPath, ccPath, dnsPort, keyPath)))
	}
	writeCfg(ccFile)
	c13mReplace(ccFile, c13mClientConf(c.InitCC))
	c13mReplace(subFile, c13mSubnets(c.InitSet, c.InitGens))
	os.Setenv("PHANTOM_SUBNET_LOCATION", subFile)
	os.Setenv("LOG_CLIENT_IP", "false")

	args := []string{"registration-server", "-config", cfgPath}
	if !c.DNS {
		args = append(args, "-api-only")
	}
	os.Args = args
	null, _ := os.OpenFile(os.DevNull, os.O_WRONLY, 0)
	stdout := os.Stdout
	os.Stdout = null // parseClientConf prints to stdout
	defer func() { os.Stdout = stdout }()
	go main()

	url := fmt.Sprintf("http://127.0.0.1:%d/register-bidirectional", apiPort)
	for i := 0; i < 2000 && !res.Started; i++ {
		cn, err := net.Dial("tcp", fmt.Sprintf("127.0.0.1:%d", apiPort))
		if err == nil {
			cn.Close()
			res.Started = true
		} else {
			time.Sleep(5 * time.Millisecond)
		}
	}
	if !res.Started {
		res.Err = "API registrar did not start"
		return
	}
	state := c13mProbe{Gen: 0, V4: true, V6: true}
	res.Init = c13mRegister(url, state)
	flush()

	curCC := c.InitCC
	for ri, rd := range c.Rounds {
		if c13mDead.Load() {
			res.Aborted = fmt.Sprintf("a registration got no answer in round %d; rounds %d.. not run", ri-1, ri)
			break
		}
		t0 := time.Now()
		ro := c13mRoundObs{}
		ccData := c13mClientConf(rd.CC)
		if rd.CCBad {
			ccData = []byte{0xff, 0xff, 0xff, 0xff, 0x01}
		}
		subData := c13mSubnets(rd.Set, rd.Gens)
		if rd.SubBad {
			subData = []byte("[Networks\n not toml = = =\n")
			if rd.SubBadKind == "stage2" {
				subData = []byte("[Networks]\n  [Networks.abc]\n    Generation = 1\n    [[Networks.abc.WeightedSubnets]]\n      Weight = 1\n      Subnets = [\"10.9.9.0/24\", \"fd00:9:9::/48\"]\n")
			}
		}
		noFile := rd.SubBad && (rd.SubBadKind == "missing" || rd.SubBadKind == "isdir")
		if noFile {
			rd.HoldSub = false
		}
		// the operator publishes the subnets file first, then the ClientConf, then signals
		if rd.HoldSub {
			os.Setenv("PHANTOM_SUBNET_LOCATION", subFifo)
		} else if noFile {
			if rd.SubBadKind == "isdir" {
				os.Setenv("PHANTOM_SUBNET_LOCATION", dir)
			} else {
				os.Setenv("PHANTOM_SUBNET_LOCATION", filepath.Join(dir, "no_such_subnets.toml"))
			}
		} else {
			c13mReplace(subFile, subData)
			os.Setenv("PHANTOM_SUBNET_LOCATION", subFile)
		}
		if rd.HoldCC {
			writeCfg(ccFifo)
		} else {
			c13mReplace(ccFile, ccData)
			writeCfg(ccFile)
		}

		var stressWG sync.WaitGroup
		var stressStop atomic.Bool
		var nstress, nbad atomic.Int32
		var badMu sync.Mutex
		for s := 0; s < rd.Stress; s++ {
			stressWG.Add(1)
			go func(s int) {
				defer stressWG.Done()
				for n := 0; !stressStop.Load() && !c13mDead.Load() && n < rd.StressN; n++ {
					pr := rd.Probes[(s+n)%len(rd.Probes)]
					o := c13mRegister(url, pr)
					nstress.Add(1)
					if !c13mOK(o) {
						nbad.Add(1)
						badMu.Lock()
						if len(ro.Bad) < 5 {
							ro.Bad = append(ro.Bad, o)
						}
						badMu.Unlock()
					}
				}
			}(s)
		}
		if rd.Stress > 0 {
			time.Sleep(2 * time.Millisecond)
		}

		_ = syscall.Kill(os.Getpid(), syscall.SIGHUP)

		if rd.HoldCC {
			fd := c13mAwaitReader(ccFifo, 3*time.Second)
			if fd >= 0 {
				ro.Opens = append(ro.Opens, "cc")
				var once sync.Once
				release := func() { once.Do(func() { c13mFeed(fd, ccData) }) }
				ro.AtCC = c13mProbeHeld(url, rd.Probes, release)
				release()
			} else {
				ro.Opens = append(ro.Opens, "cc:never")
			}
		}
		if rd.HoldSub && !rd.CCBad {
			fd := c13mAwaitReader(subFifo, 3*time.Second)
			if fd >= 0 {
				ro.Opens = append(ro.Opens, "sub")
				var once sync.Once
				release := func() { once.Do(func() { c13mFeed(fd, subData) }) }
				ro.AtSub = c13mProbeHeld(url, rd.Probes, release)
				release()
			} else {
				ro.Opens = append(ro.Opens, "sub:never")
			}
		}
		// wait until the reload has taken effect (expected state), bounded
		wantSet, wantCC := rd.Set, rd.CC
		deadline := time.Now().Add(2 * time.Second)
		for {
			o := c13mRegister(url, state)
			ro.Final = o
			if rd.CCBad || rd.SubBad {
				// the reload is aborted: nothing to wait for but the handler itself; keep looking for a while
				// whether anything changes all the same
				for t1 := time.Now(); time.Since(t1) < 60*time.Millisecond && !c13mDead.Load(); {
					time.Sleep(3 * time.Millisecond)
					ro.Final = c13mRegister(url, state)
				}
				ro.Settled = true
				break
			}
			if o.Status == 200 && o.CC == wantCC && o.V4Set == wantSet {
				ro.Settled = true
				break
			}
			if time.Now().After(deadline) || c13mDead.Load() {
				break
			}
			time.Sleep(500 * time.Microsecond)
		}
		if c.DNS && !rd.CCBad && !rd.SubBad && ro.Settled && rd.CC > curCC {
			// the DNS registrar is told last: wait until it reports generation cc-1 as outdated
			for time.Now().Before(deadline) && !c13mDead.Load() {
				if o := c13mRegisterDNS(c13mProbe{Gen: rd.CC - 1, V4: true}); o.CC == 1 {
					break
				}
				time.Sleep(500 * time.Microsecond)
			}
		}
		if !rd.CCBad && !rd.SubBad {
			curCC = rd.CC
		}
		stressStop.Store(true)
		stressWG.Wait()
		for _, pr := range rd.Probes {
			ro.After = append(ro.After, c13mRegister(url, pr))
		}
		ro.NStress = int(nstress.Load())
		ro.NBad = int(nbad.Load())
		ro.WallMs = time.Since(t0).Milliseconds()
		res.Rounds = append(res.Rounds, ro)
		flush() // the server runs in this process: if it crashes, what was observed so far survives
	}
	_ = context.Background
}
