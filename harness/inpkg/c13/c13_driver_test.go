package regprocessor

// Correspondence / schedule driver for C13 (registrar keeps answering while its
// phantom-subnet configuration is reloaded).  It only records observables:
//   depth  : the RWMutex reader count seen inside every ipSelector.Select call of one
//            RegisterBidirectional call (the observed lock-depth trace) and after it returned
//   sched  : a scripted interleaving of k requests and m ReloadSubnets calls, the fake
//            selector being the scheduling point "inside the v4 / v6 selection"; records
//            completion within a bound, which selector version served each family, and a
//            goroutine dump on a stall
//   stress : unscripted concurrent requests and reloads
// No assertions about conjure are made here.

import (
	"encoding/binary"
	"encoding/json"
	"errors"
	"fmt"
	"io"
	"net"
	"os"
	"path/filepath"
	"reflect"
	"runtime"
	"strings"
	"sync"
	"sync/atomic"
	"testing"
	"time"
	"unsafe"

	zmq "github.com/pebbe/zmq4"
	"github.com/refraction-networking/conjure/pkg/metrics"
	"github.com/refraction-networking/conjure/pkg/phantoms"
	"github.com/refraction-networking/conjure/pkg/transports/wrapping/min"
	pb "github.com/refraction-networking/conjure/proto"
	log "github.com/sirupsen/logrus"
	"google.golang.org/protobuf/proto"
)

type c13Req struct {
	V4   bool `json:"v4"`
	V6   bool `json:"v6"`
	Err4 bool `json:"err4"`
	Err6 bool `json:"err6"`
	// Tr: 0 Min (registered), 1 a transport that is not registered (error after the selections)
	Tr int `json:"tr"`
	// Miss (real lane): the client's generation is in none of the subnets files, the REAL selector
	// answers "generation number not recognized" at the request's first selection
	Miss bool `json:"miss"`
}

type c13Act struct {
	Op string `json:"op"` // req | rel | reload ; real lane also: write (I = set id) | rewrap
	I  int    `json:"i"`
}

type c13MOp struct {
	T  int    `json:"t"`
	Op string `json:"op"` // RLock | RUnlock | Lock | Unlock
}

type c13Case struct {
	N    int      `json:"n"`
	MOps []c13MOp `json:"mops"`
	Kind    string    `json:"kind"`
	Reqs    []c13Req  `json:"reqs"`
	Reloads int       `json:"reloads"`
	Bad     []int     `json:"bad"` // reloads whose subnet file does not exist
	Script  []c13Act  `json:"script"`
	Iters   int       `json:"iters"`
	BoundMs int       `json:"bound_ms"`
	// real lane: the subnets file is rewritten at ONE path (true) or every set gets a path of its own
	SamePath bool `json:"samepath"`
}

type c13ReqObs struct {
	Done  bool   `json:"done"`
	Err   string `json:"err"`
	V4ver int    `json:"v4ver"` // -1: no v4 address in the response
	V6ver int    `json:"v6ver"`
	Sent  bool   `json:"sent"`
	// real lane: index of the script action after which the request was seen finished (-1: only at the end),
	// the round it was launched in, and whether it ran on a wrapped (pausable) selector throughout
	DoneAt int `json:"done_at"`
	Round  int `json:"round"`
}

type c13MObs struct {
	Code    int    `json:"code"` // 0 issued, 1 busy, 2 refused by the thread (unlock of a lock it does not hold)
	Blocked []bool `json:"blocked"`
}

type c13Res struct {
	MObs []c13MObs `json:"mobs"`
	Sels        [][2]int    `json:"sels"`  // depth: (v6?, reader count seen inside Select)
	Final       int         `json:"final"` // reader count after the call returned
	Panic       string      `json:"panic"`
	Completed   bool        `json:"completed"`
	Reqs        []c13ReqObs `json:"reqs"`
	ReloadsDone []bool      `json:"reloads_done"`
	ReloadErrs  int         `json:"reload_errs"`
	FinalVer    int         `json:"final_ver"`
	Mixed       int         `json:"mixed"`
	NReq        int         `json:"nreq"`
	Dump        string      `json:"dump"`
	WallMs      int64       `json:"wall_ms"`
	// real lane
	RoundInit  []int    `json:"round_init"`  // subnet set installed at the start of every round (probed when quiescent)
	Unsettled  int      `json:"unsettled"`   // actions after which the system did not reach a stable state in time
	ReloadErrL []bool   `json:"reload_errl"` // per reload: returned an error
	SelLog     [][4]int `json:"sel_log"`     // (request, v6?, object id of the selector read, set it answered from / -1)
	Objects    int      `json:"objects"`     // distinct selector objects the rounds were started on
	NRel       int      `json:"nrel"`        // realstress: reloads performed
	ReqErrs    int      `json:"req_errs"`    // realstress: requests that returned an error
}

func c13ReaderCount(m *sync.RWMutex) int32 {
	f := reflect.ValueOf(m).Elem().FieldByName("readerCount").FieldByName("v")
	return atomic.LoadInt32((*int32)(unsafe.Pointer(f.UnsafeAddr())))
}

const c13MaxReaders = 1 << 30

// readers (holding or queued) irrespective of a pending writer
func c13Readers(m *sync.RWMutex) int32 {
	r := c13ReaderCount(m)
	if r < 0 {
		r += c13MaxReaders
	}
	return r
}

type c13Sender struct {
	mu   sync.Mutex
	msgs [][]byte
}

func (s *c13Sender) SendBytes(b []byte, _ zmq.Flag) (int, error) {
	s.mu.Lock()
	s.msgs = append(s.msgs, append([]byte(nil), b...))
	s.mu.Unlock()
	return len(b), nil
}
func (s *c13Sender) Close() error { return nil }

type c13Fake struct {
	p       *RegProcessor
	reqs    []c13Req
	gates   []chan struct{}
	arrived []atomic.Int32
	free    chan struct{}
	mu      sync.Mutex
	sels    [][2]int
}

func (f *c13Fake) Select(seed []byte, gen uint, libver uint, v6 bool) (*phantoms.PhantomIP, error) {
	d := int(c13ReaderCount(&f.p.selectorMutex))
	b := 0
	if v6 {
		b = 1
	}
	f.mu.Lock()
	f.sels = append(f.sels, [2]int{b, d})
	f.mu.Unlock()
	i := int(gen)
	if i < len(f.gates) {
		f.arrived[i].Add(1)
		select {
		case <-f.gates[i]:
		case <-f.free:
		}
		if (v6 && f.reqs[i].Err6) || (!v6 && f.reqs[i].Err4) {
			return nil, errors.New("verif: selector error")
		}
	}
	if v6 {
		ip := net.ParseIP("fd00::1")
		ip[15] = byte(i + 1)
		return phantoms.IP(ip, true), nil
	}
	return phantoms.IP(net.IPv4(10, 0, 0, byte(i+1)), true), nil
}

func c13Processor(reqs []c13Req) (*RegProcessor, *c13Fake, *c13Sender) {
	lg := log.New()
	lg.SetOutput(io.Discard)
	snd := &c13Sender{}
	p := &RegProcessor{
		sock:    snd,
		metrics: metrics.NewMetrics(log.NewEntry(lg), time.Hour),
	}
	_ = p.AddTransport(pb.TransportType_Min, min.Transport{})
	f := &c13Fake{p: p, reqs: reqs, free: make(chan struct{})}
	f.gates = make([]chan struct{}, len(reqs))
	f.arrived = make([]atomic.Int32, len(reqs))
	for i := range f.gates {
		f.gates[i] = make(chan struct{}, 8)
	}
	p.ipSelector = f
	return p, f, snd
}

func c13Wrapper(i int, r c13Req) *pb.C2SWrapper {
	tt := pb.TransportType_Min
	if r.Tr == 1 {
		tt = pb.TransportType_Obfs4
	}
	secret := make([]byte, 32)
	for j := range secret {
		secret[j] = byte(7*i + j + 1)
	}
	covert := "1.2.3.4:443"
	return &pb.C2SWrapper{
		SharedSecret: secret,
		RegistrationPayload: &pb.ClientToStation{
			Transport:           &tt,
			DecoyListGeneration: proto.Uint32(uint32(i)),
			CovertAddress:       &covert,
			V4Support:           proto.Bool(r.V4),
			V6Support:           proto.Bool(r.V6),
			ClientLibVersion:    proto.Uint32(4),
		},
	}
}

func c13Observe(resp *pb.RegistrationResponse, err error) c13ReqObs {
	o := c13ReqObs{Done: true, V4ver: -1, V6ver: -1}
	if err != nil {
		o.Err = "err"
		return o
	}
	if resp.Ipv4Addr != nil {
		b := make([]byte, 4)
		binary.BigEndian.PutUint32(b, resp.GetIpv4Addr())
		o.V4ver = int(b[1])
	}
	if len(resp.GetIpv6Addr()) == 16 {
		o.V6ver = int(resp.GetIpv6Addr()[3])
	}
	return o
}

func c13WriteSubnets(dir string, j int) string {
	var sb strings.Builder
	sb.WriteString("[Networks]\n")
	for g := 0; g < 16; g++ {
		fmt.Fprintf(&sb, "  [Networks.%d]\n    Generation = %d\n    [[Networks.%d.WeightedSubnets]]\n      Weight = 1\n      RandomizeDstPort = true\n      Subnets = [\"10.%d.0.0/16\", \"fd00:%x::/32\"]\n", g, g, g, j, j)
	}
	path := filepath.Join(dir, fmt.Sprintf("subnets_%d.toml", j))
	_ = os.WriteFile(path, []byte(sb.String()), 0o644)
	return path
}

func c13Dump(p *RegProcessor) string {
	buf := make([]byte, 1<<20)
	n := runtime.Stack(buf, true)
	me := fmt.Sprintf("(*RegProcessor).%%s(%p", p)
	var keep []string
	for _, g := range strings.Split(string(buf[:n]), "\n\n") {
		if strings.Contains(g, fmt.Sprintf(me, "processBdReq")) || strings.Contains(g, fmt.Sprintf(me, "ReloadSubnets")) ||
			strings.Contains(g, fmt.Sprintf(me, "RegisterBidirectional")) {
			lines := strings.Split(g, "\n")
			if len(lines) > 14 {
				lines = lines[:14]
			}
			keep = append(keep, strings.Join(lines, "\n"))
		}
	}
	s := strings.Join(keep, "\n\n")
	if len(s) > 6000 {
		s = s[:6000]
	}
	return s
}

var c13Stalls int

func c13Bound(c c13Case) time.Duration {
	b := time.Duration(c.BoundMs) * time.Millisecond
	if b == 0 {
		b = 3 * time.Second
	}
	if c13Stalls >= 1 && b > 2*time.Second {
		b = 2 * time.Second // something already stalled in this process
	}
	if c13Stalls >= 3 && b > 300*time.Millisecond {
		b = 300 * time.Millisecond // several stalls already recorded: keep the run short
	}
	if c13Stalls >= 12 && b > 60*time.Millisecond {
		b = 60 * time.Millisecond
	}
	return b
}

func c13Depth(c c13Case) (res c13Res) {
	p, f, _ := c13Processor(c.Reqs)
	close(f.free)
	done := make(chan c13ReqObs, 1)
	go func() {
		defer func() {
			if r := recover(); r != nil {
				done <- c13ReqObs{Done: true, Err: "panic: " + fmt.Sprint(r)}
			}
		}()
		resp, err := p.RegisterBidirectional(c13Wrapper(0, c.Reqs[0]), pb.RegistrationSource_BidirectionalAPI, net.ParseIP("192.0.2.1").To4())
		done <- c13Observe(resp, err)
	}()
	select {
	case o := <-done:
		res.Completed = true
		if strings.HasPrefix(o.Err, "panic") {
			res.Panic = o.Err
		}
		res.Reqs = []c13ReqObs{o}
	case <-time.After(c13Bound(c)):
		res.Dump = c13Dump(p)
		c13Stalls++
	}
	f.mu.Lock()
	res.Sels = append([][2]int{}, f.sels...)
	f.mu.Unlock()
	res.Final = int(c13ReaderCount(&p.selectorMutex))
	return
}

func c13Poll(limit time.Duration, cond func() bool) {
	t0 := time.Now()
	for !cond() && time.Since(t0) < limit {
		time.Sleep(30 * time.Microsecond)
	}
}

func c13Sched(c c13Case, dir string) (res c13Res) {
	p, f, snd := c13Processor(c.Reqs)
	k := len(c.Reqs)
	obs := make([]c13ReqObs, k)
	reqDone := make([]atomic.Bool, k)
	relDone := make([]atomic.Bool, c.Reloads)
	var relErrs atomic.Int32
	var wg sync.WaitGroup
	started := make([]bool, k)
	rstarted := make([]bool, c.Reloads)
	files := make([]string, c.Reloads)
	for j := range files {
		files[j] = c13WriteSubnets(dir, j+1)
	}
	for _, j := range c.Bad {
		if j < len(files) {
			files[j] = filepath.Join(dir, "no_such_subnets.toml")
		}
	}
	launchReq := func(i int) {
		if i >= k || started[i] {
			return
		}
		started[i] = true
		before := c13Readers(&p.selectorMutex)
		wg.Add(1)
		go func() {
			defer wg.Done()
			defer func() {
				if r := recover(); r != nil {
					obs[i] = c13ReqObs{Done: true, Err: "panic: " + fmt.Sprint(r), V4ver: -1, V6ver: -1}
					reqDone[i].Store(true)
				}
			}()
			resp, err := p.RegisterBidirectional(c13Wrapper(i, c.Reqs[i]), pb.RegistrationSource_BidirectionalAPI, net.ParseIP("192.0.2.1").To4())
			obs[i] = c13Observe(resp, err)
			reqDone[i].Store(true)
		}()
		c13Poll(20*time.Millisecond, func() bool {
			return f.arrived[i].Load() > 0 || reqDone[i].Load() ||
				(c13ReaderCount(&p.selectorMutex) < 0 && c13Readers(&p.selectorMutex) > before)
		})
	}
	release := func(i int) {
		if i >= k {
			return
		}
		a := f.arrived[i].Load()
		before := c13Readers(&p.selectorMutex)
		select {
		case f.gates[i] <- struct{}{}:
		default:
		}
		if !started[i] {
			return
		}
		c13Poll(20*time.Millisecond, func() bool {
			return f.arrived[i].Load() > a || reqDone[i].Load() ||
				(c13ReaderCount(&p.selectorMutex) < 0 && c13Readers(&p.selectorMutex) > before)
		})
	}
	launchReload := func(j int) {
		if j >= c.Reloads || rstarted[j] {
			return
		}
		rstarted[j] = true
		os.Setenv("PHANTOM_SUBNET_LOCATION", files[j])
		wg.Add(1)
		go func() {
			defer wg.Done()
			defer func() {
				if r := recover(); r != nil {
					relErrs.Add(1)
					relDone[j].Store(true)
				}
			}()
			if err := p.ReloadSubnets(); err != nil {
				relErrs.Add(1)
			}
			relDone[j].Store(true)
		}()
		c13Poll(20*time.Millisecond, func() bool {
			return relDone[j].Load() || c13ReaderCount(&p.selectorMutex) < 0
		})
	}
	t0 := time.Now()
	for _, a := range c.Script {
		switch a.Op {
		case "req":
			launchReq(a.I)
		case "rel":
			release(a.I)
		case "reload":
			launchReload(a.I)
		}
	}
	// everything not yet started is started now, then all gates are opened
	for j := 0; j < c.Reloads; j++ {
		launchReload(j)
	}
	for i := 0; i < k; i++ {
		launchReq(i)
	}
	close(f.free)
	all := make(chan struct{})
	go func() { wg.Wait(); close(all) }()
	select {
	case <-all:
		res.Completed = true
	case <-time.After(c13Bound(c)):
		res.Dump = c13Dump(p)
		c13Stalls++
	}
	res.WallMs = time.Since(t0).Milliseconds()
	res.Reqs = make([]c13ReqObs, k)
	for i := range obs {
		if reqDone[i].Load() {
			res.Reqs[i] = obs[i]
		} else {
			res.Reqs[i] = c13ReqObs{V4ver: -1, V6ver: -1}
		}
	}
	snd.mu.Lock()
	nsent := len(snd.msgs)
	snd.mu.Unlock()
	_ = nsent
	res.ReloadsDone = make([]bool, c.Reloads)
	for j := range res.ReloadsDone {
		res.ReloadsDone[j] = relDone[j].Load()
	}
	res.ReloadErrs = int(relErrs.Load())
	res.FinalVer = -1
	if res.Completed {
		res.Final = int(c13ReaderCount(&p.selectorMutex))
		// which selector is installed now: ask it (nobody else is running any more)
		if ph, err := p.ipSelector.Select(make([]byte, 32), 0, 4, false); err == nil && ph != nil && ph.To4() != nil {
			res.FinalVer = int(ph.To4()[1])
		}
	}
	return
}

func c13Stress(c c13Case, dir string) (res c13Res) {
	k := len(c.Reqs)
	p, f, _ := c13Processor(nil)
	f.reqs = nil
	close(f.free)
	files := make([]string, c.Reloads)
	for j := range files {
		files[j] = c13WriteSubnets(dir, j+1)
	}
	if len(files) > 0 {
		os.Setenv("PHANTOM_SUBNET_LOCATION", files[0])
	}
	var wg sync.WaitGroup
	var mixed, nreq, relErrs atomic.Int32
	for i := 0; i < k; i++ {
		wg.Add(1)
		go func(i int) {
			defer wg.Done()
			for n := 0; n < c.Iters; n++ {
				resp, err := p.RegisterBidirectional(c13Wrapper(i%16, c.Reqs[i]), pb.RegistrationSource_BidirectionalAPI, net.ParseIP("192.0.2.1").To4())
				o := c13Observe(resp, err)
				nreq.Add(1)
				if o.V4ver >= 0 && o.V6ver >= 0 && o.V4ver != o.V6ver {
					mixed.Add(1)
				}
				if n%7 == 0 {
					runtime.Gosched()
				}
			}
		}(i)
	}
	for j := 0; j < c.Reloads; j++ {
		wg.Add(1)
		go func(j int) {
			defer wg.Done()
			for n := 0; n < c.Iters/4+1; n++ {
				if err := p.ReloadSubnets(); err != nil {
					relErrs.Add(1)
				}
				time.Sleep(time.Duration(50+37*j) * time.Microsecond)
			}
		}(j)
	}
	all := make(chan struct{})
	go func() { wg.Wait(); close(all) }()
	t0 := time.Now()
	select {
	case <-all:
		res.Completed = true
	case <-time.After(c13Bound(c)):
		res.Dump = c13Dump(p)
		c13Stalls++
	}
	res.WallMs = time.Since(t0).Milliseconds()
	res.Mixed = int(mixed.Load())
	res.NReq = int(nreq.Load())
	res.ReloadErrs = int(relErrs.Load())
	if res.Completed {
		res.Final = int(c13ReaderCount(&p.selectorMutex))
	}
	return
}

// one execution of a script of lock calls on a fresh sync.RWMutex
func c13RwmOnce(c c13Case) []c13MObs {
	var mu sync.RWMutex
	type msg struct {
		op  string
		ack chan int
	}
	chans := make([]chan msg, c.N)
	inCall := make([]atomic.Bool, c.N)
	for i := range chans {
		chans[i] = make(chan msg)
		go func(i int) {
			rdepth, whold := 0, false
			for m := range chans[i] {
				switch m.op {
				case "RUnlock":
					if rdepth == 0 {
						m.ack <- 2
						continue
					}
				case "Unlock":
					if !whold {
						m.ack <- 2
						continue
					}
				}
				inCall[i].Store(true)
				m.ack <- 0
				switch m.op {
				case "RLock":
					mu.RLock()
					rdepth++
				case "RUnlock":
					mu.RUnlock()
					rdepth--
				case "Lock":
					mu.Lock()
					whold = true
				case "Unlock":
					mu.Unlock()
					whold = false
				}
				inCall[i].Store(false)
			}
		}(i)
	}
	snapshot := func() []bool {
		b := make([]bool, c.N)
		for i := range b {
			b[i] = inCall[i].Load()
		}
		return b
	}
	settle := func() []bool {
		// wait until the set of threads inside a call has been stable for a while
		last := snapshot()
		stable := time.Now()
		t0 := time.Now()
		for time.Since(t0) < 60*time.Millisecond && time.Since(stable) < 4*time.Millisecond {
			time.Sleep(100 * time.Microsecond)
			cur := snapshot()
			same := true
			any := false
			for i := range cur {
				if cur[i] != last[i] {
					same = false
				}
				any = any || cur[i]
			}
			if !same {
				last, stable = cur, time.Now()
			}
			if !any {
				break
			}
		}
		return last
	}
	var out []c13MObs
	for _, o := range c.MOps {
		if o.T >= c.N {
			continue
		}
		if inCall[o.T].Load() {
			out = append(out, c13MObs{Code: 1, Blocked: settle()})
			continue
		}
		ack := make(chan int, 1)
		chans[o.T] <- msg{o.Op, ack}
		code := <-ack
		out = append(out, c13MObs{Code: code, Blocked: settle()})
	}
	// threads blocked for good stay behind; the others are released
	for i := range chans {
		if !inCall[i].Load() {
			close(chans[i])
		}
	}
	return out
}

// The behaviour of the mutex on a script is deterministic; a goroutine that is merely slow can make
// one execution look different.  The script is executed until two executions agree on the whole
// observation (at most five times); otherwise the case is reported as unstable and not compared.
func c13Rwm(c c13Case) (res c13Res) {
	var seen [][]c13MObs
	for n := 0; n < 5; n++ {
		cur := c13RwmOnce(c)
		cj, _ := json.Marshal(cur)
		for _, old := range seen {
			oj, _ := json.Marshal(old)
			if string(oj) == string(cj) {
				res.Completed = true
				res.MObs = cur
				return
			}
		}
		seen = append(seen, cur)
	}
	res.Completed = false
	return
}

func TestVerifC13(t *testing.T) {
	raw, err := os.ReadFile(os.Getenv("VERIF_CASES"))
	if err != nil {
		t.Skip("no cases")
	}
	var cases []c13Case
	if err := json.Unmarshal(raw, &cases); err != nil {
		t.Fatal(err)
	}
	dir := t.TempDir()
	old := os.Getenv("PHANTOM_SUBNET_LOCATION")
	defer os.Setenv("PHANTOM_SUBNET_LOCATION", old)
	res := make([]c13Res, len(cases))
	for i, c := range cases {
		switch c.Kind {
		case "depth":
			res[i] = c13Depth(c)
		case "sched":
			res[i] = c13Sched(c, dir)
		case "stress":
			res[i] = c13Stress(c, dir)
		case "rwm":
			res[i] = c13Rwm(c)
		case "real":
			sub, _ := os.MkdirTemp(dir, "real")
			res[i] = c13RealSched(c, sub)
		case "realstress":
			sub, _ := os.MkdirTemp(dir, "rstress")
			res[i] = c13RealStress(c, sub)
		}
	}
	out, _ := json.Marshal(res)
	if err := os.WriteFile(os.Getenv("VERIF_OUT"), out, 0o644); err != nil {
		t.Fatal(err)
	}
}
