package regprocessor

// C13 driver, "real selector" lanes (kinds real | realstress).
//
// The processor starts on the selector that phantoms.GetPhantomSubnetSelector() loads from a real
// subnets file (what NewRegProcessor does) and every later selector is the one the REAL
// ReloadSubnets installed from the file as it was (re)written by the script.  To obtain a
// scheduling point before each address selection of a request, the installed selector is wrapped,
// when nothing is running (start of a "round"), into a forwarding ipSelector: it waits for the
// script's release and then calls the wrapped REAL *PhantomIPSelector.  A reload replaces the
// wrapper by the bare real selector (requests admitted after the swap run without pauses); the
// next round wraps whatever ReloadSubnets left installed.
//
// After every script action the driver waits until the system is stable: every request that was
// launched and has not returned is waiting at a pause or queued on the selector mutex, every reload
// that has not returned is the pending writer or queued behind it (read from sync.RWMutex's
// counters).  No sleeps are involved unless that state is not reached.
// Only observables are recorded; no assertions about conjure.

import (
	"fmt"
	"io"
	"net"
	"os"
	"path/filepath"
	"reflect"
	"runtime"
	"sync"
	"sync/atomic"
	"time"
	"unsafe"

	"github.com/refraction-networking/conjure/pkg/metrics"
	"github.com/refraction-networking/conjure/pkg/phantoms"
	"github.com/refraction-networking/conjure/pkg/transports/wrapping/min"
	pb "github.com/refraction-networking/conjure/proto"
	log "github.com/sirupsen/logrus"
)

func c13I32(v reflect.Value) int32 {
	return atomic.LoadInt32((*int32)(unsafe.Pointer(v.UnsafeAddr())))
}

// readerCount, readerWait of the RWMutex and the state word of its inner writer mutex
func c13MuState(m *sync.RWMutex) (rc, rw, ws int32) {
	v := reflect.ValueOf(m).Elem()
	rc = c13I32(v.FieldByName("readerCount").FieldByName("v"))
	rw = c13I32(v.FieldByName("readerWait").FieldByName("v"))
	ws = c13I32(v.FieldByName("w").FieldByName("state"))
	return
}

var c13Unsettled int // over the whole run: once the system has repeatedly not settled, do not wait long for it

type c13Real struct {
	p         *RegProcessor
	k         int
	gates     []chan struct{}
	arrived   []atomic.Int32
	deposited []int32 // tokens handed out by the script (driver goroutine only)
	reqStart  atomic.Int32
	reqDone   atomic.Int32
	relStart  atomic.Int32
	relDone   atomic.Int32
	mu        sync.Mutex
	selLog    [][4]int
	objs      []ipSelector
	cur       *c13Wrap
}

type c13Wrap struct {
	ctl   *c13Real
	inner ipSelector
	free  chan struct{}
}

func c13SetOf(ph *phantoms.PhantomIP, v6 bool) int {
	if ph == nil {
		return -1
	}
	if v6 {
		ip := ph.IP()
		if ip == nil || len(*ip) != 16 {
			return -1
		}
		return int((*ip)[3])
	}
	if ph.To4() == nil {
		return -1
	}
	return int(ph.To4()[1])
}

func (r *c13Real) objID(s ipSelector) int {
	for i, o := range r.objs {
		if o == s {
			return i
		}
	}
	r.objs = append(r.objs, s)
	return len(r.objs) - 1
}

func (w *c13Wrap) Select(seed []byte, gen uint, libver uint, v6 bool) (*phantoms.PhantomIP, error) {
	i := int(gen)
	if i >= 100 {
		i -= 100
	}
	if i < w.ctl.k {
		w.ctl.arrived[i].Add(1)
		select {
		case <-w.ctl.gates[i]:
		case <-w.free:
		}
	}
	ph, err := w.inner.Select(seed, gen, libver, v6)
	b := 0
	if v6 {
		b = 1
	}
	w.ctl.mu.Lock()
	if len(w.ctl.selLog) < 64 {
		w.ctl.selLog = append(w.ctl.selLog, [4]int{i, b, w.ctl.objID(w.inner), c13SetOf(ph, v6)})
	}
	w.ctl.mu.Unlock()
	return ph, err
}

// every launched goroutine is parked: at a pause, on the mutex, or finished
func (r *c13Real) stable() bool {
	rc, rw, ws := c13MuState(&r.p.selectorMutex)
	reqOut := r.reqStart.Load() - r.reqDone.Load()
	relOut := r.relStart.Load() - r.relDone.Load()
	var atPause int32
	for i := 0; i < r.k; i++ {
		if r.arrived[i].Load() > r.deposited[i] {
			atPause++
		}
	}
	if rc >= 0 {
		// no writer has announced itself
		return ws == 0 && relOut == 0 && reqOut == atPause && rc == atPause
	}
	if rw <= 0 || ws&1 == 0 {
		return false // a writer is entering / holding / leaving: transient
	}
	holders := rw
	queued := rc + c13MaxReaders - holders
	waiters := ws >> 3
	return relOut == 1+waiters && reqOut == atPause+queued && holders == atPause
}

func (r *c13Real) settle(res *c13Res) {
	limit := 400 * time.Millisecond
	if res.Unsettled > 0 || c13Unsettled >= 4 {
		limit = 25 * time.Millisecond
	}
	if c13Unsettled >= 40 {
		limit = 5 * time.Millisecond
	}
	t0 := time.Now()
	n := 0
	for {
		if r.stable() {
			// stable twice in a row (a goroutine between two counters would show up)
			runtime.Gosched()
			if r.stable() {
				return
			}
		}
		if time.Since(t0) > limit {
			res.Unsettled++
			c13Unsettled++
			return
		}
		n++
		if n < 200 {
			runtime.Gosched()
		} else {
			time.Sleep(20 * time.Microsecond)
		}
	}
}

func c13SubnetsText(j int) string {
	s := "[Networks]\n"
	for g := 0; g < 16; g++ {
		s += fmt.Sprintf("  [Networks.%d]\n    Generation = %d\n    [[Networks.%d.WeightedSubnets]]\n      Weight = 1\n      RandomizeDstPort = true\n      Subnets = [\"10.%d.0.0/16\", \"fd00:%x::/32\"]\n", g, g, g, j, j)
	}
	return s
}

type c13Files struct {
	dir  string
	same bool
	n    int
}

// the operator publishes subnet set j (j < 0: a file that does not parse)
func (f *c13Files) write(j int) {
	text := "[Networks\n  this is not toml = = =\n"
	if j >= 0 {
		text = c13SubnetsText(j)
	}
	f.n++
	path := filepath.Join(f.dir, "phantom_subnets.toml")
	if !f.same {
		path = filepath.Join(f.dir, fmt.Sprintf("phantom_subnets_%d.toml", f.n))
	}
	tmp := path + ".tmp"
	_ = os.WriteFile(tmp, []byte(text), 0o644)
	_ = os.Rename(tmp, path)
	os.Setenv("PHANTOM_SUBNET_LOCATION", path)
}

func c13RealProcessor() (*RegProcessor, error) {
	lg := log.New()
	lg.SetOutput(io.Discard)
	p := &RegProcessor{
		sock:    &c13Sender{},
		metrics: metrics.NewMetrics(log.NewEntry(lg), time.Hour),
	}
	_ = p.AddTransport(pb.TransportType_Min, min.Transport{})
	// as NewRegProcessor / NewRegProcessorNoAuth do
	sel, err := phantoms.GetPhantomSubnetSelector()
	if err != nil {
		return nil, err
	}
	p.ipSelector = sel
	return p, nil
}

func c13RealWrapper(i int, rq c13Req) *pb.C2SWrapper {
	w := c13Wrapper(i, rq)
	if rq.Miss {
		g := uint32(100 + i)
		w.RegistrationPayload.DecoyListGeneration = &g
	}
	return w
}

func c13ProbeSet(s ipSelector) int {
	ph, err := s.Select(make([]byte, 32), 0, 4, false)
	if err != nil {
		return -1
	}
	return c13SetOf(ph, false)
}

func c13RealSched(c c13Case, dir string) (res c13Res) {
	k := len(c.Reqs)
	nrel := 0
	for _, a := range c.Script {
		if a.Op == "reload" && a.I >= nrel {
			nrel = a.I + 1
		}
	}
	if c.Reloads > nrel {
		nrel = c.Reloads
	}
	files := &c13Files{dir: dir, same: c.SamePath}
	files.write(0)
	p, err := c13RealProcessor()
	if err != nil {
		res.Panic = "initial subnets file did not load: " + err.Error()
		return
	}
	r := &c13Real{p: p, k: k}
	r.gates = make([]chan struct{}, k)
	r.arrived = make([]atomic.Int32, k)
	r.deposited = make([]int32, k)
	for i := range r.gates {
		r.gates[i] = make(chan struct{}, 16)
	}
	obs := make([]c13ReqObs, k)
	reqDone := make([]atomic.Bool, k)
	seenDone := make([]bool, k)
	doneAt := make([]int, k)
	round := make([]int, k)
	started := make([]bool, k)
	relDone := make([]atomic.Bool, nrel)
	relErr := make([]atomic.Bool, nrel)
	rstarted := make([]bool, nrel)
	var wg sync.WaitGroup
	curRound := -1
	stalled := false

	waitAll := func() bool {
		all := make(chan struct{})
		go func() { wg.Wait(); close(all) }()
		select {
		case <-all:
			return true
		case <-time.After(c13Bound(c)):
			return false
		}
	}
	rewrap := func() {
		if r.cur != nil {
			close(r.cur.free)
		}
		if !waitAll() {
			stalled = true
			return
		}
		for i := range r.gates {
			for len(r.gates[i]) > 0 {
				<-r.gates[i]
			}
			r.deposited[i] = r.arrived[i].Load()
		}
		inner := p.ipSelector
		if w, ok := inner.(*c13Wrap); ok {
			inner = w.inner
		}
		curRound++
		res.RoundInit = append(res.RoundInit, c13ProbeSet(inner))
		r.mu.Lock()
		r.objID(inner)
		r.mu.Unlock()
		r.cur = &c13Wrap{ctl: r, inner: inner, free: make(chan struct{})}
		p.ipSelector = r.cur
	}
	launchReq := func(i int) {
		if i >= k || started[i] {
			return
		}
		started[i] = true
		round[i] = curRound
		r.reqStart.Add(1)
		wg.Add(1)
		go func() {
			defer wg.Done()
			defer func() {
				if rec := recover(); rec != nil {
					obs[i] = c13ReqObs{Done: true, Err: "panic: " + fmt.Sprint(rec), V4ver: -1, V6ver: -1}
					reqDone[i].Store(true)
					r.reqDone.Add(1)
				}
			}()
			resp, err := p.RegisterBidirectional(c13RealWrapper(i, c.Reqs[i]), pb.RegistrationSource_BidirectionalAPI, net.ParseIP("192.0.2.1").To4())
			obs[i] = c13Observe(resp, err)
			reqDone[i].Store(true)
			r.reqDone.Add(1)
		}()
	}
	launchReload := func(j int) {
		if j >= nrel || rstarted[j] {
			return
		}
		rstarted[j] = true
		r.relStart.Add(1)
		wg.Add(1)
		go func() {
			defer wg.Done()
			defer func() {
				if rec := recover(); rec != nil {
					relErr[j].Store(true)
					relDone[j].Store(true)
					r.relDone.Add(1)
				}
			}()
			if err := p.ReloadSubnets(); err != nil {
				relErr[j].Store(true)
			}
			relDone[j].Store(true)
			r.relDone.Add(1)
		}()
	}
	note := func(ai int) {
		for i := 0; i < k; i++ {
			if !seenDone[i] && reqDone[i].Load() {
				seenDone[i] = true
				doneAt[i] = ai
			}
		}
	}
	for i := range doneAt {
		doneAt[i] = -1
	}

	t0 := time.Now()
	rewrap()
	for ai, a := range c.Script {
		if stalled {
			break
		}
		switch a.Op {
		case "req":
			launchReq(a.I)
		case "rel":
			if a.I < k {
				r.deposited[a.I]++
				select {
				case r.gates[a.I] <- struct{}{}:
				default:
				}
			}
		case "reload":
			launchReload(a.I)
		case "write":
			files.write(a.I)
		case "rewrap":
			rewrap()
		}
		if !stalled {
			r.settle(&res)
		}
		note(ai)
	}
	if !stalled {
		for j := 0; j < nrel; j++ {
			launchReload(j)
		}
		for i := 0; i < k; i++ {
			launchReq(i)
		}
		if r.cur != nil {
			close(r.cur.free)
			r.cur = nil
		}
		if waitAll() {
			res.Completed = true
		}
	}
	if !res.Completed {
		res.Dump = c13Dump(p)
		c13Stalls++
	}
	res.WallMs = time.Since(t0).Milliseconds()
	res.Reqs = make([]c13ReqObs, k)
	for i := range obs {
		if reqDone[i].Load() {
			res.Reqs[i] = obs[i]
		} else {
			res.Reqs[i] = c13ReqObs{V4ver: -1, V6ver: -1}
		}
		res.Reqs[i].DoneAt = doneAt[i]
		res.Reqs[i].Round = round[i]
	}
	res.ReloadsDone = make([]bool, nrel)
	res.ReloadErrL = make([]bool, nrel)
	for j := range res.ReloadsDone {
		res.ReloadsDone[j] = relDone[j].Load()
		res.ReloadErrL[j] = relErr[j].Load()
		if res.ReloadErrL[j] {
			res.ReloadErrs++
		}
	}
	res.FinalVer = -1
	if res.Completed {
		res.Final = int(c13ReaderCount(&p.selectorMutex))
		inner := p.ipSelector
		if w, ok := inner.(*c13Wrap); ok {
			inner = w.inner
		}
		res.FinalVer = c13ProbeSet(inner)
	}
	r.mu.Lock()
	res.SelLog = append([][4]int{}, r.selLog...)
	res.Objects = len(r.objs)
	r.mu.Unlock()
	return
}

// unscripted: k request loops x m reload loops on the real selector while the operator keeps
// publishing new subnet sets (same path: atomic replace; or a new path every time)
func c13RealStress(c c13Case, dir string) (res c13Res) {
	k := len(c.Reqs)
	files := &c13Files{dir: dir, same: c.SamePath}
	files.write(0)
	p, err := c13RealProcessor()
	if err != nil {
		res.Panic = "initial subnets file did not load: " + err.Error()
		return
	}
	var wg sync.WaitGroup
	var mixed, nreq, relErrs, reqErrs, maxSet, nrel atomic.Int32
	var stop atomic.Bool
	for i := 0; i < k; i++ {
		wg.Add(1)
		go func(i int) {
			defer wg.Done()
			for n := 0; n < c.Iters; n++ {
				resp, err := p.RegisterBidirectional(c13Wrapper(i%16, c.Reqs[i]), pb.RegistrationSource_BidirectionalAPI, net.ParseIP("192.0.2.1").To4())
				o := c13Observe(resp, err)
				nreq.Add(1)
				if o.Err != "" {
					reqErrs.Add(1)
				}
				if o.V4ver >= 0 && o.V6ver >= 0 && o.V4ver != o.V6ver {
					mixed.Add(1)
				}
				for _, v := range []int{o.V4ver, o.V6ver} {
					for {
						m := maxSet.Load()
						if int32(v) <= m || maxSet.CompareAndSwap(m, int32(v)) {
							break
						}
					}
				}
				if n%5 == 0 {
					runtime.Gosched()
				}
			}
		}(i)
	}
	var wgr sync.WaitGroup
	for j := 0; j < c.Reloads; j++ {
		wgr.Add(1)
		go func(j int) {
			defer wgr.Done()
			for !stop.Load() {
				if err := p.ReloadSubnets(); err != nil {
					relErrs.Add(1)
				}
				nrel.Add(1)
				time.Sleep(time.Duration(20+17*j) * time.Microsecond)
			}
		}(j)
	}
	wgr.Add(1)
	go func() {
		defer wgr.Done()
		for j := 1; !stop.Load(); j++ {
			files.write(j % 200)
			time.Sleep(60 * time.Microsecond)
		}
	}()
	all := make(chan struct{})
	go func() { wg.Wait(); stop.Store(true); wgr.Wait(); close(all) }()
	t0 := time.Now()
	select {
	case <-all:
		res.Completed = true
	case <-time.After(c13Bound(c)):
		stop.Store(true)
		res.Dump = c13Dump(p)
		c13Stalls++
	}
	res.WallMs = time.Since(t0).Milliseconds()
	res.Mixed = int(mixed.Load())
	res.NReq = int(nreq.Load())
	res.ReloadErrs = int(relErrs.Load())
	res.ReqErrs = int(reqErrs.Load())
	res.NRel = int(nrel.Load())
	res.FinalVer = int(maxSet.Load())
	if res.Completed {
		res.Final = int(c13ReaderCount(&p.selectorMutex))
	}
	return
}
