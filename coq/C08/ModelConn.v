(* C08 model, part 2: the station's connection handler above the table.

   cmd/application/conns.go handleNewTCPConn: a client connection arrives at a phantom address; the wrapping
   transports look the first flight up in getRegistrations(phantom); when one finds a registration the handler
   calls regManager.MarkActive(reg) AT THAT MOMENT, then relays (cj.Proxy) until the tunnel closes and returns
   without touching the registry again.  A connection that no transport recognises (no tracked, validated
   registration carries its identifier) has no effect on the registry.

   "connect" is therefore not an abstract operation on the table: it is an event of the handler with a position
   in time (the match), followed - arbitrarily later - by the close of its tunnel.  Definitions only. *)
From CJ Require Export Common.Base C08.Model.

Inductive hev :=
| HReg (o : rop)                 (* a registry operation: ingest, clock, sweep, look-up *)
| HConnect (c : N) (k : regkey)  (* connection c arrives at k's phantom; its first flight carries k's identifier *)
| HClose (c : N).                (* the tunnel of connection c ends (cj.Proxy returns) *)

(* the registry plus the tunnels that are open *)
Record hst := { h_reg : st; h_open : list (N * regkey) }.
Definition hinit : hst := {| h_reg := init; h_open := [] |}.

Definition close_conn (c : N) (l : list (N * regkey)) : list (N * regkey) :=
  filter (fun ck => negb (fst ck =? c)) l.

(* the handler as it is: the used mark is set when the transport matches *)
Definition hstep (x : hst) (e : hev) : hst :=
  match e with
  | HReg o => {| h_reg := step (h_reg x) o; h_open := h_open x |}
  | HConnect c k =>
      if matches (h_reg x) k
      then {| h_reg := mark_active (h_reg x) k; h_open := (c, k) :: h_open x |}
      else x
  | HClose c => {| h_reg := h_reg x; h_open := close_conn c (h_open x) |}
  end.

Definition hrun (h : list hev) : hst := fold_left hstep h hinit.

(* the registry operations a handler history amounts to, given the registry it starts from *)
Definition hops (s : st) (e : hev) : list rop :=
  match e with
  | HReg o => [o]
  | HConnect _ k => if matches s k then [MarkActive k] else []
  | HClose _ => []
  end.

Fixpoint htrace_from (s : st) (h : list hev) : list rop :=
  match h with
  | [] => []
  | e :: r => hops s e ++ htrace_from (fold_left step (hops s e) s) r
  end.
Definition htrace (h : list hev) : list rop := htrace_from init h.

(* time that passes during a handler history *)
Definition helapsed (h : list hev) : N :=
  fold_right (fun e n => match e with HReg (Advance d) => d + n | _ => n end) 0 h.

Definition is_close (e : hev) : bool := match e with HClose _ => true | _ => false end.

(* ------------------------------------------------ the specification at this level *)
(* The life of ONE registration as a function of the handler history alone (no table): its age and whether it
   "has carried a connection", and whether it has been validated.  A connection counts from the moment it is
   matched - it is matched iff the registration is alive and validated then - and the end of its tunnel changes
   nothing. *)
Definition hlife := (life * bool)%type.

Definition carry (l : life) : life := match l with Some (a, _) => Some (a, true) | None => None end.

Definition hgstep (k : regkey) (lv : hlife) (e : hev) : hlife :=
  match e with
  | HReg o => gvstep k lv o
  | HConnect _ k' => if regkey_eqb k k' && snd lv then (carry (fst lv), snd lv) else lv
  | HClose _ => lv
  end.

Definition hghost (h : list hev) (k : regkey) : hlife := fold_left (hgstep k) h (None, false).
Definition hage (h : list hev) (k : regkey) : option N :=
  match fst (hghost h k) with Some (a, _) => Some a | None => None end.
Definition hcarried (h : list hev) (k : regkey) : bool :=
  match fst (hghost h k) with Some (_, u) => u | None => false end.
Definition hvalidated (h : list hev) (k : regkey) : bool := snd (hghost h k).

(* ------------------------------------------------ the variant that marks at close time *)
(* The same handler with the MarkActive call placed after cj.Proxy returns: the registration stays "unused"
   for as long as its tunnel is open.  Refuted in C08/LateMark.v. *)
Definition mark_all (s : st) (l : list (N * regkey)) : st := fold_left (fun s ck => mark_active s (snd ck)) l s.

Definition hstep_late (x : hst) (e : hev) : hst :=
  match e with
  | HReg o => {| h_reg := step (h_reg x) o; h_open := h_open x |}
  | HConnect c k =>
      if matches (h_reg x) k then {| h_reg := h_reg x; h_open := (c, k) :: h_open x |} else x
  | HClose c =>
      {| h_reg := mark_all (h_reg x) (filter (fun ck => fst ck =? c) (h_open x));
         h_open := close_conn c (h_open x) |}
  end.

Definition hrun_late (h : list hev) : hst := fold_left hstep_late h hinit.
