(* C08 lemmas, part 7: the connection handler above the table (C08/ModelConn.v).
   - a handler history amounts to a registry history (htrace): every theorem about [run] carries over;
   - the handler-level specification [hghost] (a connection counts from the moment it is matched) is refined;
   - the end of a tunnel changes nothing: the registry after a history does not depend on where its closes are;
   - a registration that matched a connection is kept until registration time + 6 h, whatever the tunnel's
     duration, and not longer. *)
From CJ Require Import Common.Base C08.Model C08.Proofs C08.Invariant C08.Sweep C08.History C08.Counters C08.ModelConn.
From Coq Require Import Lia ZifyN ZifyNat ZifyBool.

Lemma hrun_snoc h e : hrun (h ++ [e]) = hstep (hrun h) e.
Proof. unfold hrun. rewrite fold_left_app. reflexivity. Qed.

Lemma hghost_snoc h e k : hghost (h ++ [e]) k = hgstep k (hghost h k) e.
Proof. unfold hghost. rewrite fold_left_app. reflexivity. Qed.

Lemma hghost_app h1 h2 k : hghost (h1 ++ h2) k = fold_left (hgstep k) h2 (hghost h1 k).
Proof. unfold hghost. rewrite fold_left_app. reflexivity. Qed.

(* ------------------------------------------------------------ the trace *)
Lemma htrace_from_app s h1 h2 :
  htrace_from s (h1 ++ h2) = htrace_from s h1 ++ htrace_from (fold_left step (htrace_from s h1) s) h2.
Proof.
  revert s; induction h1 as [|e h1 IH]; intros s; [reflexivity|].
  cbn [app htrace_from]. rewrite IH, <- app_assoc, fold_left_app. reflexivity.
Qed.

Lemma hstep_reg x e : h_reg (hstep x e) = fold_left step (hops (h_reg x) e) (h_reg x).
Proof. destruct e; cbn [hstep hops]; [reflexivity | destruct (matches (h_reg x) k); reflexivity | reflexivity]. Qed.

Lemma hreg_fold h : forall x, h_reg (fold_left hstep h x) = fold_left step (htrace_from (h_reg x) h) (h_reg x).
Proof.
  induction h as [|e h IH]; intros x; [reflexivity|].
  cbn [fold_left htrace_from]. rewrite IH, fold_left_app, hstep_reg. reflexivity.
Qed.

Lemma hrun_trace h : h_reg (hrun h) = run (htrace h).
Proof. unfold hrun, htrace, run. apply (hreg_fold h hinit). Qed.

Lemma htrace_snoc h e : htrace (h ++ [e]) = htrace h ++ hops (run (htrace h)) e.
Proof. unfold htrace. rewrite htrace_from_app. cbn [htrace_from]. rewrite app_nil_r. reflexivity. Qed.

(* the registry after a handler history depends on the registry it starts from only *)
Lemma hreg_indep h x y : h_reg x = h_reg y -> h_reg (fold_left hstep h x) = h_reg (fold_left hstep h y).
Proof. intros E. rewrite !hreg_fold, E. reflexivity. Qed.

(* ------------------------------------------------------------ the end of a tunnel changes nothing *)
Lemma close_irrelevant h1 c h2 : h_reg (hrun (h1 ++ HClose c :: h2)) = h_reg (hrun (h1 ++ h2)).
Proof. unfold hrun. rewrite !fold_left_app. cbn [fold_left]. apply hreg_indep. reflexivity. Qed.

Lemma closes_irrelevant_from h : forall x,
  h_reg (fold_left hstep h x) = h_reg (fold_left hstep (filter (fun e => negb (is_close e)) h) x).
Proof.
  induction h as [|e h IH]; intros x; [reflexivity|]. cbn [fold_left filter].
  destruct e; cbn [is_close negb fold_left]; try apply IH.
  rewrite <- IH. apply hreg_indep. reflexivity.
Qed.

Lemma closes_irrelevant h : h_reg (hrun h) = h_reg (hrun (filter (fun e => negb (is_close e)) h)).
Proof. apply closes_irrelevant_from. Qed.

Lemma hghost_close_irrelevant h1 c h2 k : hghost (h1 ++ HClose c :: h2) k = hghost (h1 ++ h2) k.
Proof. rewrite !hghost_app. reflexivity. Qed.

(* ------------------------------------------------------------ refinement of the handler-level specification *)
Lemma gvalid_alive h k : gvalid h k = true -> exists a u, ghost h k = Some (a, u).
Proof.
  intros V. rewrite <- valid_ghost in V. apply valid_tracked in V. rewrite tracked_ghost in V.
  destruct (ghost h k) as [[a u]|]; [eauto | discriminate].
Qed.

Lemma gvalid_dead h k : ghost h k = None -> gvalid h k = false.
Proof.
  intros G. destruct (gvalid h k) eqn:V; [|reflexivity].
  apply gvalid_alive in V as (a & u & V). congruence.
Qed.

Lemma hghost_trace h k : hghost h k = (ghost (htrace h) k, gvalid (htrace h) k).
Proof.
  induction h as [|e h IH] using rev_ind; [reflexivity|].
  rewrite hghost_snoc, IH, htrace_snoc. set (t := htrace h). destruct e; cbn [hgstep hops].
  - rewrite ghost_snoc, gvalid_snoc. unfold gvstep. reflexivity.
  - rewrite (matches_ghost t k0). cbn [fst snd].
    destruct (gvalid t k0) eqn:V0.
    + rewrite ghost_snoc, gvalid_snoc. unfold gvstep. cbn [fst snd gstep].
      destruct (regkey_eqb k k0) eqn:E.
      * apply regkey_eqb_eq in E; subst k0. rewrite V0. cbn [andb].
        destruct (gvalid_alive t k V0) as (a & u & ->). reflexivity.
      * cbn [andb]. destruct (ghost t k) as [[a u]|] eqn:G; [reflexivity|].
        rewrite (gvalid_dead t k G). reflexivity.
    + rewrite app_nil_r. destruct (regkey_eqb k k0) eqn:E; [|reflexivity].
      apply regkey_eqb_eq in E; subst k0. rewrite V0. reflexivity.
  - rewrite app_nil_r. reflexivity.
Qed.

Lemma conn_refines_spec h k :
  tracked (h_reg (hrun h)) k = is_some (fst (hghost h k)) /\ matches (h_reg (hrun h)) k = snd (hghost h k).
Proof. rewrite hrun_trace, hghost_trace. cbn [fst snd]. split; [apply tracked_ghost | apply matches_ghost]. Qed.

(* a registration that has been validated is alive *)
Lemma hvalid_alive h k : snd (hghost h k) = true -> exists a u, fst (hghost h k) = Some (a, u).
Proof. rewrite hghost_trace. cbn [fst snd]. apply gvalid_alive. Qed.

(* ------------------------------------------------------------ time *)
Lemma helapsed_app h1 h2 : helapsed (h1 ++ h2) = helapsed h1 + helapsed h2.
Proof.
  unfold helapsed. induction h1 as [|e h1 IH]; [reflexivity|]. cbn [app fold_right].
  destruct e as [o| |]; [destruct o|..]; rewrite ?IH; lia.
Qed.

(* one event on a running life: the age grows by the time of the event, unless a sweep ends the life *)
Ltac fin w := repeat split; [auto | right; exists w; rewrite N.add_0_r; auto | discriminate | discriminate].

Lemma hgstep_some k a u v e :
  exists l' v', hgstep k ((Some (a, u) : life), v) e = (l', v') /\
    (v = true -> l' <> None -> v' = true) /\
    (l' = None \/ exists u', l' = Some (a + helapsed [e], u') /\ (u = true -> u' = true)) /\
    (l' = None -> e = HReg Sweep /\ kept a u = false).
Proof.
  destruct e as [o|c k0|c]; cbn [hgstep fst snd].
  - unfold gvstep. cbn [fst snd]. destruct o; cbn [gstep helapsed fold_right].
    + destruct (starts (Track k0) k); (eexists; eexists; split; [reflexivity|]); fin u.
    + destruct (starts (TrackNX k0) k); (eexists; eexists; split; [reflexivity|]); fin u.
    + destruct (starts (Validate k0) k); (eexists; eexists; split; [reflexivity|]);
        (repeat split; [intros ->; destruct (regkey_eqb k k0); reflexivity | right; exists u; rewrite N.add_0_r; auto | discriminate | discriminate]).
    + destruct (starts (ValidateStale k0) k); (eexists; eexists; split; [reflexivity|]); fin u.
    + destruct (regkey_eqb k k0); (eexists; eexists; split; [reflexivity|]);
        (repeat split; [auto | right; eexists; rewrite N.add_0_r; split; [reflexivity | auto] | discriminate | discriminate]).
    + eexists; eexists; split; [reflexivity|].
      repeat split; [auto | right; exists u; rewrite N.add_0_r; auto | discriminate | discriminate].
    + destruct (kept a u) eqn:K; (eexists; eexists; split; [reflexivity|]).
      * repeat split; [auto | right; exists u; rewrite N.add_0_r; auto | discriminate].
      * repeat split; [congruence | left; reflexivity].
    + eexists; eexists; split; [reflexivity|].
      repeat split; [auto | right; exists u; rewrite N.add_0_r; auto | discriminate | discriminate].
    + eexists; eexists; split; [reflexivity|].
      repeat split; [auto | right; exists u; rewrite N.add_0_r; auto | discriminate | discriminate].
  - cbn [helapsed fold_right]. destruct (regkey_eqb k k0 && v); cbn [carry fst snd];
      (eexists; eexists; split; [reflexivity|]);
      (repeat split; [auto | right; eexists; rewrite N.add_0_r; split; [reflexivity | auto] | discriminate | discriminate]).
  - cbn [helapsed fold_right]. eexists; eexists; split; [reflexivity|].
    repeat split; [auto | right; exists u; rewrite N.add_0_r; auto | discriminate | discriminate].
Qed.

(* a running life goes on while it is within 10 min (6 h once it has carried a connection); its validation stays *)
Lemma hghost_stays h2 : forall h0 k a0 u0 v0, hghost h0 k = ((Some (a0, u0) : life), v0) ->
  (a0 + helapsed h2 <= ten_min \/ (u0 = true /\ a0 + helapsed h2 <= six_h)) ->
  exists u v, hghost (h0 ++ h2) k = ((Some (a0 + helapsed h2, u) : life), v) /\ (u0 = true -> u = true) /\ (v0 = true -> v = true).
Proof.
  induction h2 as [|x h2 IH] using rev_ind; intros h0 k a0 u0 v0 G B.
  - exists u0, v0. rewrite app_nil_r. cbn [helapsed fold_right]. rewrite N.add_0_r. auto.
  - rewrite helapsed_app in B. rewrite app_assoc, hghost_snoc, helapsed_app.
    destruct (IH h0 k a0 u0 v0 G) as (u & v & -> & Hu & Hv);
      [destruct B as [B|[B1 B2]]; [left; lia | right; split; [exact B1 | lia]]|].
    destruct (hgstep_some k (a0 + helapsed h2) u v x) as (l' & v' & -> & V & [->|(u' & -> & U)] & N).
    + exfalso. destruct (N eq_refl) as [-> K]. cbn [helapsed fold_right] in B.
      assert (K' : kept (a0 + helapsed h2) u = true).
      { apply kept_spec. destruct B as [B|[B1 B2]]; [left; lia | right; split; [apply Hu; exact B1 | lia]]. }
      congruence.
    + exists u', v'. split; [rewrite N.add_assoc; reflexivity|]. split; [auto|].
      intros V0. apply V; [apply Hv; exact V0 | discriminate].
Qed.

(* ------------------------------------------------------------ never early, whatever the tunnel's duration *)
Lemma hage_spec h k a : hage h k = Some a <-> exists u, fst (hghost h k) = Some (a, u).
Proof.
  unfold hage. destruct (fst (hghost h k)) as [[a' u']|]; split.
  - intros [= ->]. eauto.
  - intros [u [= -> _]]. reflexivity.
  - discriminate.
  - intros [u H]. discriminate.
Qed.

Lemma connect_marks h c k a :
  matches (h_reg (hrun h)) k = true -> hage h k = Some a ->
  hghost (h ++ [HConnect c k]) k = ((Some (a, true) : life), true).
Proof.
  intros M A. destruct (conn_refines_spec h k) as [_ M']. rewrite M in M'.
  apply hage_spec in A as [u A]. rewrite hghost_snoc. destruct (hghost h k) as [l v]. cbn [fst snd] in *. subst l v.
  cbn [hgstep fst snd]. rewrite regkey_eqb_refl. reflexivity.
Qed.

Lemma open_tunnel_kept h c k h2 a :
  matches (h_reg (hrun h)) k = true -> hage h k = Some a -> a + helapsed h2 <= six_h ->
  tracked (h_reg (hrun (h ++ HConnect c k :: h2))) k = true /\
  matches (h_reg (hrun (h ++ HConnect c k :: h2))) k = true /\
  hcarried (h ++ HConnect c k :: h2) k = true /\
  hage (h ++ HConnect c k :: h2) k = Some (a + helapsed h2).
Proof.
  intros M A B. pose proof (connect_marks h c k a M A) as G.
  destruct (hghost_stays h2 (h ++ [HConnect c k]) k a true true G) as (u & v & G2 & U & V);
    [right; split; [reflexivity | exact B]|].
  replace (h ++ HConnect c k :: h2) with ((h ++ [HConnect c k]) ++ h2) by (rewrite <- app_assoc; reflexivity).
  destruct (conn_refines_spec ((h ++ [HConnect c k]) ++ h2) k) as [T M2].
  unfold hcarried, hage. rewrite T, M2, G2. cbn [fst snd is_some]. rewrite (U eq_refl), (V eq_refl). auto.
Qed.

(* ------------------------------------------------------------ ... and not longer: the clock is the registration's *)
Lemma hgstep_none k v e : (forall o, e = HReg o -> starts o k = false) ->
  fst (hgstep k ((None : life), v) e) = None.
Proof.
  intros S. destruct e as [o|c k0|c]; cbn [hgstep fst snd].
  - unfold gvstep. cbn [fst snd]. specialize (S o eq_refl).
    destruct o; cbn [gstep]; try reflexivity; try (rewrite S; reflexivity).
    destruct (regkey_eqb k k0); reflexivity.
  - destruct (regkey_eqb k k0 && v); reflexivity.
  - reflexivity.
Qed.

Lemma hghost_age_exact h2 : forall h0 k a0 u0 v0, hghost h0 k = ((Some (a0, u0) : life), v0) ->
  (forall o, In (HReg o) h2 -> starts o k = false) ->
  forall a u, fst (hghost (h0 ++ h2) k) = Some (a, u) -> a = a0 + helapsed h2.
Proof.
  induction h2 as [|x h2 IH] using rev_ind; intros h0 k a0 u0 v0 G S a u.
  - rewrite app_nil_r, G. cbn. intros [= <- _]. lia.
  - rewrite app_assoc, hghost_snoc, helapsed_app.
    assert (S2 : forall o, In (HReg o) h2 -> starts o k = false) by (intros o H; apply S, in_or_app; left; exact H).
    destruct (hghost (h0 ++ h2) k) as [[[a1 u1]|] v1] eqn:G1.
    + pose proof (IH h0 k a0 u0 v0 G S2 a1 u1) as E. rewrite G1 in E. specialize (E eq_refl). subst a1.
      destruct (hgstep_some k (a0 + helapsed h2) u1 v1 x) as (l' & v' & -> & _ & [->|(u' & -> & _)] & _); cbn [fst].
      * discriminate.
      * intros [= <- _]. cbn [helapsed fold_right]. lia.
    + rewrite hgstep_none; [discriminate|]. intros o ->. apply S, in_or_app. right. left. reflexivity.
Qed.

Lemma six_h_ge_ten_min : ten_min <= six_h.
Proof. unfold ten_min, six_h. lia. Qed.

Lemma matched_exact h c k h2 a :
  matches (h_reg (hrun h)) k = true -> hage h k = Some a ->
  (forall o, In (HReg o) h2 -> starts o k = false) ->
  (tracked (h_reg (hrun (h ++ HConnect c k :: h2 ++ [HReg Sweep]))) k = true <-> a + helapsed h2 <= six_h).
Proof.
  intros M A S. split.
  - intros T. pose proof (connect_marks h c k a M A) as G.
    replace (h ++ HConnect c k :: h2 ++ [HReg Sweep]) with (((h ++ [HConnect c k]) ++ h2) ++ [HReg Sweep]) in T
      by (rewrite <- !app_assoc; reflexivity).
    destruct (conn_refines_spec (((h ++ [HConnect c k]) ++ h2) ++ [HReg Sweep]) k) as [T' _]. rewrite T in T'.
    rewrite hghost_snoc in T'.
    destruct (hghost ((h ++ [HConnect c k]) ++ h2) k) as [[[a1 u1]|] v1] eqn:G1.
    + pose proof (hghost_age_exact h2 (h ++ [HConnect c k]) k a true true G S a1 u1) as E.
      rewrite G1 in E. specialize (E eq_refl). subst a1.
      cbn [hgstep] in T'. unfold gvstep in T'. cbn [fst snd gstep] in T'.
      destruct (kept (a + helapsed h2) u1) eqn:K; [|discriminate].
      apply kept_spec in K. pose proof six_h_ge_ten_min. destruct K as [K|[_ K]]; lia.
    + rewrite hgstep_none in T'; [discriminate|]. intros o [= <-]. reflexivity.
  - intros B.
    destruct (open_tunnel_kept h c k (h2 ++ [HReg Sweep]) a M A) as [T _].
    + rewrite helapsed_app. cbn [helapsed fold_right]. lia.
    + exact T.
Qed.

(* ------------------------------------------------------------ sweep_exact and never late at the handler level *)
Lemma conn_sweep_exact h k :
  tracked (h_reg (hrun (h ++ [HReg Sweep]))) k = true <->
  exists a, hage h k = Some a /\ (a <= ten_min \/ (hcarried h k = true /\ a <= six_h)).
Proof.
  destruct (conn_refines_spec (h ++ [HReg Sweep]) k) as [-> _]. rewrite hghost_snoc.
  unfold hage, hcarried. destruct (hghost h k) as [[[a u]|] v]; cbn [hgstep fst snd]; unfold gvstep; cbn [fst snd gstep].
  - destruct (kept a u) eqn:E; cbn [fst is_some].
    + split; [intros _; exists a; split; [reflexivity | apply kept_spec; exact E] | reflexivity].
    + split; [discriminate|]. intros [a' [[= <-] H]]. apply kept_spec in H. congruence.
  - split; [discriminate | intros [a [H _]]; discriminate].
Qed.

(* the only way to "have carried a connection": a connection that the handler matched, during this life *)
Definition handler_only (h : list hev) : Prop := forall k, ~ In (HReg (MarkActive k)) h.

Lemma carried_has_match h k : handler_only h -> hcarried h k = true ->
  exists h1 c h2 a1, h = h1 ++ HConnect c k :: h2 /\ matches (h_reg (hrun h1)) k = true /\
                     hage h1 k = Some a1 /\ hage h k = Some (a1 + helapsed h2).
Proof.
  induction h as [|x h IH] using rev_ind; intros HO C; [discriminate|].
  assert (HO' : handler_only h) by (intros k' H; apply (HO k'), in_or_app; left; exact H).
  unfold hcarried in C. rewrite hghost_snoc in C.
  destruct (hghost h k) as [[[a u]|] v] eqn:G.
  2: { (* no life before x: a life that starts is not yet carried *)
    exfalso. destruct x as [o|c k0|c]; cbn [hgstep fst snd] in C.
    - unfold gvstep in C. cbn [fst snd] in C.
      destruct o; cbn [gstep] in C; try discriminate; try (destruct (starts _ k); discriminate).
      destruct (regkey_eqb k k0); discriminate.
    - destruct (regkey_eqb k k0 && v); discriminate.
    - discriminate. }
  (* extension of an earlier match *)
  assert (EXT : u = true -> forall u', fst (hgstep k ((Some (a, u) : life), v) x) = Some (a + helapsed [x], u') ->
                exists h1 c h2 a1, h ++ [x] = h1 ++ HConnect c k :: h2 /\ matches (h_reg (hrun h1)) k = true /\
                                   hage h1 k = Some a1 /\ hage (h ++ [x]) k = Some (a1 + helapsed h2)).
  { intros -> u' E. destruct IH as (h1 & c & h2 & a1 & -> & M & A1 & A); [exact HO' | unfold hcarried; rewrite G; reflexivity|].
    exists h1, c, (h2 ++ [x]), a1. split; [rewrite <- app_assoc; reflexivity|]. split; [exact M|]. split; [exact A1|].
    unfold hage in A |- *. rewrite hghost_snoc, G, E. rewrite G in A. cbn [fst] in A. injection A as ->.
    rewrite helapsed_app, N.add_assoc. reflexivity. }
  destruct (hgstep_some k a u v x) as (l' & v' & E & _ & [->|(u' & -> & U)] & _); rewrite E in C; cbn [fst] in C; [discriminate|].
  subst u'. destruct u.
  - apply (EXT eq_refl true). rewrite E. reflexivity.
  - (* the mark is set by x itself: x is a connection for k that is matched *)
    destruct x as [o|c k0|c]; cbn [hgstep fst snd] in E.
    + exfalso. unfold gvstep in E. cbn [fst snd] in E.
      destruct o; cbn [gstep] in E; try (destruct (starts _ k)); try congruence.
      * destruct (regkey_eqb k k0) eqn:Ek; [|congruence]. apply regkey_eqb_eq in Ek; subst k0.
        apply (HO k), in_or_app. right. left. reflexivity.
      * destruct (kept a false); congruence.
    + destruct (regkey_eqb k k0 && v) eqn:Ek; [|congruence].
      apply andb_true_iff in Ek as [Ek ->]. apply regkey_eqb_eq in Ek; subst k0.
      exists h, c, [], a. split; [reflexivity|]. split; [|split].
      * destruct (conn_refines_spec h k) as [_ ->]. rewrite G. reflexivity.
      * unfold hage. rewrite G. reflexivity.
      * unfold hage. rewrite hghost_snoc, G. cbn [hgstep fst snd]. rewrite regkey_eqb_refl. cbn [andb carry fst helapsed fold_right].
        rewrite N.add_0_r. reflexivity.
    + congruence.
Qed.

Lemma conn_never_late h k : handler_only h ->
  tracked (h_reg (hrun (h ++ [HReg Sweep]))) k = true ->
  exists a, hage h k = Some a /\
    (a <= ten_min \/
     (a <= six_h /\ exists h1 c h2 a1, h = h1 ++ HConnect c k :: h2 /\ matches (h_reg (hrun h1)) k = true /\
                                       hage h1 k = Some a1 /\ a = a1 + helapsed h2)).
Proof.
  intros HO T. apply conn_sweep_exact in T as (a & A & [L|[C L]]); exists a; (split; [exact A|]); [left; exact L|].
  right. split; [exact L|]. destruct (carried_has_match h k HO C) as (h1 & c & h2 & a1 & -> & M & A1 & A2).
  exists h1, c, h2, a1. repeat split; try assumption. rewrite A in A2. congruence.
Qed.
