(* C08 non-vacuity: concrete histories that meet the hypotheses of the theorems
   in Props.v non-trivially (both sides of every iff are inhabited, the
   premises of every implication are satisfiable). *)
From CJ Require Import Common.Base C08.Model C08.Proofs C08.Invariant C08.Sweep C08.History C08.Bounded C08.Props.

Definition sec (n : N) : N := n * 1000000000.
Definition kA := {| k_secret := 7; k_tr := Min; k_ph := 0 |}.
Definition kB := {| k_secret := 7; k_tr := Prefix; k_ph := 0 |}.   (* same secret, other transport *)
Definition kC := {| k_secret := 7; k_tr := Min; k_ph := 1 |}.      (* same secret, other family *)
Definition kD := {| k_secret := 9; k_tr := Obfs4; k_ph := 0 |}.
Definition kX := {| k_secret := 7; k_tr := Other; k_ph := 0 |}.    (* transport not enabled *)

(* the history of candidate #3, with a connection on the second family *)
Definition h1 : list rop :=
  [Track kA; Validate kA; Track kB; Validate kC; MarkActive kC; Validate kD; Advance (sec 660)].

(* sweep_exact: the right-hand side holds for kC (used, 11 min) and fails for kA, kB, kD (unused, 11 min) *)
Example ex_kept : tracked (run (h1 ++ [Sweep])) kC = true /\ age h1 kC = Some (sec 660) /\ used h1 kC = true.
Proof. vm_compute. auto. Qed.
Example ex_swept : tracked (run h1) kA = true /\ tracked (run (h1 ++ [Sweep])) kA = false /\
                   tracked (run (h1 ++ [Sweep])) kB = false /\ tracked (run (h1 ++ [Sweep])) kD = false /\
                   age h1 kA = Some (sec 660) /\ used h1 kA = false.
Proof. vm_compute. repeat split. Qed.
Example ex_boundary_kept : tracked (run [Track kA; Advance ten_min; Sweep]) kA = true /\
                           tracked (run [Track kA; Advance (ten_min + 1); Sweep]) kA = false /\
                           tracked (run [Track kA; MarkActive kA; Advance six_h; Sweep]) kA = true /\
                           tracked (run [Track kA; MarkActive kA; Advance (six_h + 1); Sweep]) kA = false.
Proof. vm_compute. repeat split. Qed.

(* expired_not_matched / matches_iff_valid / forgotten_entirely: kA matched before the sweep, not after; no residue *)
Example ex_match : matches (run h1) kA = true /\ matches (run h1) kB = false /\ valid (run h1) kB = false /\
                   matches (run (h1 ++ [Sweep])) kA = false /\ residue (run h1) kA = true /\
                   residue (run (h1 ++ [Sweep])) kA = false /\ matches (run (h1 ++ [Sweep])) kC = true.
Proof. vm_compute. repeat split. Qed.

(* counts: 4 entries in both maps on 2 phantoms before, 1 on 1 phantom after the sweep *)
Example ex_counts : ntracked (run h1) = 4%nat /\ ntimeouts (run h1) = 4%nat /\ nphantoms (run h1) = 2%nat /\
                    ntracked (run (h1 ++ [Sweep])) = 1%nat /\ ntimeouts (run (h1 ++ [Sweep])) = 1%nat /\
                    nphantoms (run (h1 ++ [Sweep])) = 1%nat /\ count (run (h1 ++ [Sweep])) 0 = 0%nat.
Proof. vm_compute. repeat split. Qed.

(* bounded / bounded_by_rate: the bounds are attained and the window really excludes old operations *)
Example ex_bounded : length (filter is_start h1) = 5%nat /\ length (starts_within six_h h1) = 5%nat /\
                     ntracked (run h1) = 4%nat /\
                     length (starts_within six_h (h1 ++ [Sweep; Advance six_h; Track kA])) = 1%nat /\
                     ntracked (run ((h1 ++ [Sweep; Advance six_h; Track kA]) ++ [Sweep])) = 1%nat.
Proof. vm_compute. repeat split. Qed.

(* never_early / never_early_used / never_late: premises are met by h1's pieces *)
Example ex_never_early : tracked (run []) kA = false /\ starts (Track kA) kA = true /\
                         elapsed [Advance (sec 599); Sweep] <= ten_min /\
                         tracked (run ([] ++ Track kA :: [Advance (sec 599); Sweep])) kA = true.
Proof. vm_compute. repeat split; discriminate. Qed.
Example ex_never_late : exists hh1 o hh2, h1 = hh1 ++ o :: hh2 /\ starts o kC = true /\ tracked (run hh1) kC = false /\
                        In (MarkActive kC) hh2 /\ elapsed hh2 <= six_h /\ ~ elapsed hh2 <= ten_min.
Proof.
  exists [Track kA; Validate kA; Track kB], (Validate kC), [MarkActive kC; Validate kD; Advance (sec 660)].
  vm_compute. split; [reflexivity|]. split; [reflexivity|]. split; [reflexivity|]. split; [left; reflexivity|].
  split; [discriminate | intros H; apply H; reflexivity].
Qed.

(* a duplicate does not refresh the age; a registration re-made after expiry starts a new life *)
Example ex_duplicate : age [Track kA; Advance (sec 400); Track kA; TrackNX kA; Validate kA; Advance (sec 100)] kA = Some (sec 500) /\
                       age [Track kA; Advance (sec 700); Sweep; Track kA; Advance (sec 5)] kA = Some (sec 5).
Proof. vm_compute. auto. Qed.

(* an expired registration that receives a connection before the next sweep lives on as used *)
Example ex_late_connection : tracked (run [Validate kA; Advance (sec 700); MarkActive kA; Sweep]) kA = true.
Proof. vm_compute. reflexivity. Qed.

(* a transport that is not enabled is never tracked and its activation touches nothing *)
Example ex_disabled : tracked (run [Track kX; Validate kX]) kX = false /\ ntracked (run [Track kX; Validate kX]) = 0%nat /\
                      used [Validate kA; MarkActive kX] kA = false /\
                      tracked (run [Validate kA; MarkActive kX; Advance (sec 601); Sweep]) kA = false.
Proof. vm_compute. repeat split. Qed.

(* sweep_order_irrelevant: a collection order different from the model's own *)
Example ex_order : get_expired (run h1) = [tkey_of kD; tkey_of kB; tkey_of kA] /\
                   collects (run h1) [tkey_of kA; tkey_of kD; tkey_of kB].
Proof.
  split; [vm_compute; reflexivity|]. split.
  - repeat constructor; cbn; intuition discriminate.
  - intros key. assert (E : get_expired (run h1) = [tkey_of kD; tkey_of kB; tkey_of kA]) by (vm_compute; reflexivity).
    rewrite E. cbn. tauto.
Qed.

(* AddRegistration with an object that is not the tracked one: validates nothing, refreshes nothing;
   on an untracked registration it tracks and validates *)
Example ex_stale : valid (run [Track kA; ValidateStale kA]) kA = false /\ valid (run [ValidateStale kA]) kA = true /\
                   valid (run [Track kA; Validate kA; ValidateStale kA]) kA = true /\
                   age [Track kA; Advance (sec 5); ValidateStale kA] kA = Some (sec 5).
Proof. vm_compute. auto. Qed.

(* further observables: regCount counts the times a registration was seen in its current life, a
   registration is announced once per life, a connection on a live registration is an update *)
Example ex_counters :
  regcount (xrun [Track kA; TrackNX kA; Validate kA; Track kA]) kA = 3 /\
  regcount (xrun [Track kA; Track kA; Advance (sec 601); Sweep; Validate kA]) kA = 1 /\
  emits (run [Track kA]) (Validate kA) = [EvNew kA] /\
  emits (run [Track kA; Validate kA]) (Validate kA) = [] /\
  emits (run [Track kA; Validate kA; Advance (sec 601); Sweep]) (Validate kA) = [EvNew kA] /\
  emits (run [Track kA]) (MarkActive kA) = [EvUpdate kA] /\
  emits (run []) (MarkActive kA) = [] /\
  emits (run h1) Sweep = [EvExpired 3 2].
Proof. vm_compute. repeat split. Qed.

(* the boundary instant: kept at exactly the limit, gone one nanosecond later *)
Example ex_boundary_ns :
  age [Track kA; Advance ten_min] kA = Some ten_min /\
  tracked (run ([Track kA; Advance ten_min] ++ [Sweep])) kA = true /\
  tracked (run ([Track kA; Advance ten_min; Advance 1] ++ [Sweep])) kA = false.
Proof. vm_compute. repeat split. Qed.
