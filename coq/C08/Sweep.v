(* C08 lemmas, part 3: removeRegistration / removeOldRegistrations. *)
From CJ Require Import Common.Base C08.Model C08.Proofs C08.Invariant.
From Coq Require Import Lia ZifyN ZifyNat ZifyBool.

Definition memb (key : tkey) (ks : list tkey) : bool := existsb (tkey_eqb key) ks.

Lemma memb_in key ks : memb key ks = true <-> In key ks.
Proof.
  unfold memb. rewrite existsb_exists. split.
  - intros [x [H1 H2]]. apply tkey_eqb_eq in H2; subst; exact H1.
  - intros H. exists key. split; [exact H | apply tkey_eqb_eq; reflexivity].
Qed.

(* one removal of an index that is present *)
Lemma remove_one s key : Inv s -> is_some (aget tkey_eqb key (timeouts s)) = true ->
  let s' := remove_registration s key in
  Inv s' /\ now s' = now s /\
  (forall k', aget tkey_eqb k' (timeouts s') = if tkey_eqb k' key then None else aget tkey_eqb k' (timeouts s)) /\
  (forall ph id, get2 (decoys s') ph id = if tkey_eqb (ph, id) key then None else get2 (decoys s) ph id).
Proof.
  intros I H. unfold remove_registration.
  destruct (aget tkey_eqb key (timeouts s)) as [t|] eqn:E; [|discriminate].
  destruct (inv_rec s I key t E) as (Hk & Hb & He).
  assert (G : is_some (get2 (decoys s) (t_ph t) (t_id t)) = true).
  { rewrite (inv_bij s I), Hk, E. reflexivity. }
  destruct (get2 (decoys s) (t_ph t) (t_id t)) as [v|] eqn:G2; [|discriminate]. cbv zeta.
  assert (T : forall k', aget tkey_eqb k' (adel tkey_eqb key (timeouts s)) =
                         if tkey_eqb k' key then None else aget tkey_eqb k' (timeouts s)).
  { intros k'. destruct (tkey_eqb k' key) eqn:Ek.
    - apply tkey_eqb_eq in Ek; subst k'. apply aget_adel_same.
    - apply (aget_adel_other tkey_eqb tkey_eqb_eq). intros ->. rewrite (eqb_refl tkey_eqb tkey_eqb_eq) in Ek. discriminate. }
  assert (D : forall ph id, get2 (del2 (decoys s) (t_ph t) (t_id t)) ph id =
                            if tkey_eqb (ph, id) key then None else get2 (decoys s) ph id).
  { intros ph id. destruct (tkey_eqb (ph, id) key) eqn:Ek.
    - apply tkey_eqb_eq in Ek. rewrite <- Hk in Ek. inversion Ek; subst ph id. apply get2_del2_same.
    - apply get2_del2_other. rewrite Hk. intros Heq. rewrite Heq, (eqb_refl tkey_eqb tkey_eqb_eq) in Ek. discriminate. }
  split; [|split; [reflexivity | split; [exact T | exact D]]].
  constructor; cbn [decoys timeouts now panicked].
  - apply wf_del2, (inv_wf s I).
  - apply (nodup_adel tkey_eqb tkey_eqb_eq), (inv_nodup s I).
  - intros key' t'. rewrite T. destruct (tkey_eqb key' key); [discriminate | apply (inv_rec s I)].
  - intros ph id. rewrite T, D. destruct (tkey_eqb (ph, id) key); [reflexivity | apply (inv_bij s I)].
  - apply (inv_nopanic s I).
Qed.

(* removing a duplicate-free list of present indices, in any order *)
Lemma remove_all ks : forall s, Inv s -> NoDup ks ->
  (forall key, In key ks -> is_some (aget tkey_eqb key (timeouts s)) = true) ->
  let s' := fold_left remove_registration ks s in
  Inv s' /\ now s' = now s /\
  (forall k', aget tkey_eqb k' (timeouts s') = if memb k' ks then None else aget tkey_eqb k' (timeouts s)) /\
  (forall ph id, get2 (decoys s') ph id = if memb (ph, id) ks then None else get2 (decoys s) ph id).
Proof.
  induction ks as [|key r IH]; intros s I ND Hin; cbn [fold_left].
  - split; [exact I|]. split; [reflexivity|]. split; intros; reflexivity.
  - inversion ND as [|? ? Hnotin ND']; subst.
    destruct (remove_one s key I (Hin key (or_introl eq_refl))) as (I1 & N1 & T1 & D1).
    assert (Hin' : forall k', In k' r -> is_some (aget tkey_eqb k' (timeouts (remove_registration s key))) = true).
    { intros k' Hk'. rewrite T1. destruct (tkey_eqb k' key) eqn:Ek.
      - apply tkey_eqb_eq in Ek; subst; contradiction.
      - apply Hin; right; exact Hk'. }
    destruct (IH (remove_registration s key) I1 ND' Hin') as (I2 & N2 & T2 & D2).
    split; [exact I2|]. split; [congruence|]. split.
    + intros k'. rewrite T2, T1. unfold memb; cbn [existsb]. fold (memb k' r).
      destruct (tkey_eqb k' key), (memb k' r); reflexivity.
    + intros ph id. rewrite D2, D1. unfold memb; cbn [existsb]. fold (memb (ph, id) r).
      destruct (tkey_eqb (ph, id) key), (memb (ph, id) r); reflexivity.
Qed.

Lemma in_get_expired s key : Inv s ->
  (In key (get_expired s) <-> exists t, aget tkey_eqb key (timeouts s) = Some t /\ rec_expired (now s) t = true).
Proof.
  intros I. unfold get_expired. rewrite in_map_iff. split.
  - intros [[key' t] [H1 H2]]. cbn in H1; subst key'. apply filter_In in H2 as [H2 H3]. cbn in H3.
    exists t. split; [|exact H3]. apply (in_nodup_aget tkey_eqb tkey_eqb_eq); [apply (inv_nodup s I) | exact H2].
  - intros [t [H1 H2]]. exists (key, t). split; [reflexivity|]. apply filter_In. split; [|exact H2].
    apply (aget_in tkey_eqb tkey_eqb_eq). exact H1.
Qed.

Lemma nodup_get_expired s : Inv s -> NoDup (get_expired s).
Proof. intros I. unfold get_expired. apply (nodup_keys_filter (K:=tkey)), (inv_nodup s I). Qed.

Lemma collects_get_expired s : Inv s -> collects s (get_expired s).
Proof. intros I. split; [apply nodup_get_expired; exact I | tauto]. Qed.

Lemma sweep_in_spec s order : Inv s -> collects s order ->
  let s' := sweep_in order s in
  Inv s' /\ now s' = now s /\
  (forall key, aget tkey_eqb key (timeouts s') =
     match aget tkey_eqb key (timeouts s) with
     | Some t => if rec_expired (now s) t then None else Some t
     | None => None
     end) /\
  (forall ph id, get2 (decoys s') ph id =
     match aget tkey_eqb (ph, id) (timeouts s) with
     | Some t => if rec_expired (now s) t then None else get2 (decoys s) ph id
     | None => get2 (decoys s) ph id
     end).
Proof.
  intros I [ND Hc]. unfold sweep_in.
  assert (M : forall key, memb key order = match aget tkey_eqb key (timeouts s) with
                                           | Some t => rec_expired (now s) t | None => false end).
  { intros key. apply Bool.eq_true_iff_eq. rewrite memb_in, Hc, (in_get_expired s key I). split.
    - intros [t [-> H]]. exact H.
    - destruct (aget tkey_eqb key (timeouts s)) as [t|]; [|discriminate]. intros H. exists t. auto. }
  assert (P : forall key, In key order -> is_some (aget tkey_eqb key (timeouts s)) = true).
  { intros key H. apply Hc, (in_get_expired s key I) in H as [t [-> _]]. reflexivity. }
  destruct (remove_all order s I ND P) as (I' & N' & T' & D').
  split; [exact I'|]. split; [exact N'|]. split.
  - intros key. rewrite T', M. destruct (aget tkey_eqb key (timeouts s)) as [t|]; [|reflexivity].
    destruct (rec_expired (now s) t); reflexivity.
  - intros ph id. rewrite D', M. destruct (aget tkey_eqb (ph, id) (timeouts s)) as [t|]; [|reflexivity].
    destruct (rec_expired (now s) t); reflexivity.
Qed.

(* the code's two-armed expiry test is the negation of the property's rule *)
Lemma rec_expired_kept nw t : rec_expired nw t = negb (kept (nw - t_born t) (t_used t)).
Proof.
  unfold rec_expired, kept, timeout_unused, timeout_active, ten_min, six_h.
  generalize (nw - t_born t); intros a.
  destruct (t_used t); cbn [negb andb orb]; [lia|].
  destruct (600 * 1000000000 <? a) eqn:E; lia.
Qed.

Lemma inv_sweep_in s order : Inv s -> collects s order -> Inv (sweep_in order s).
Proof. intros I C. apply (sweep_in_spec s order I C). Qed.

Lemma view_sweep_in s order k : Inv s -> collects s order ->
  view (sweep_in order s) k =
  match view s k with Some (a, u) => if kept a u then Some (a, u) else None | None => None end.
Proof.
  intros I C. destruct (sweep_in_spec s order I C) as (_ & N' & T' & _).
  unfold view. rewrite N', T'. destruct (enabled (k_tr k)); [|reflexivity].
  destruct (aget tkey_eqb (tkey_of k) (timeouts s)) as [t|]; [|reflexivity].
  rewrite rec_expired_kept. destruct (kept (now s - t_born t) (t_used t)); reflexivity.
Qed.

(* valid flags of the survivors are untouched *)
Lemma valid_sweep_in s order k : Inv s -> collects s order ->
  tracked (sweep_in order s) k = true -> valid (sweep_in order s) k = valid s k.
Proof.
  intros I C. destruct (sweep_in_spec s order I C) as (_ & _ & _ & D').
  unfold tracked, valid, registration_exists. destruct (enabled (k_tr k)); [|discriminate].
  rewrite D'. destruct (aget tkey_eqb (k_ph k, ident_of k) (timeouts s)) as [t|]; [|reflexivity].
  destruct (rec_expired (now s) t); [discriminate | reflexivity].
Qed.
