(* C08 property theorems: statements + `exact lemma` only.
   run h      : the model of RegisteredDecoys after the history h (C08/Model.v)
   ghost h k  : the life of registration k as a function of the history alone
                (age since the first Track of the current life, used flag)          *)
From CJ Require Import Common.Base C08.Model C08.Proofs C08.Invariant C08.Sweep C08.History C08.Bounded C08.Counters C08.Stats C08.ModelConn C08.Conn C08.Capped.

(* The table agrees with the per-registration specification after every history. *)
Theorem C08_refines_spec :
  forall h k, tracked (run h) k = is_some (ghost h k).
Proof. exact tracked_ghost. Qed.
Print Assumptions C08_refines_spec.

(* After a sweep a registration is tracked iff it is at most 10 min old, or has
   carried a connection and is at most 6 h old (Appendix A form). *)
Theorem C08_sweep_exact :
  forall h k, tracked (run (h ++ [Sweep])) k = true <->
    exists a, age (h ++ [Sweep]) k = Some a /\ (a <= ten_min \/ (used h k = true /\ a <= six_h)).
Proof. exact sweep_exact. Qed.
Print Assumptions C08_sweep_exact.

(* The same with age and used both taken before the sweep. *)
Theorem C08_sweep_exact_pre :
  forall h k, tracked (run (h ++ [Sweep])) k = true <->
    exists a, age h k = Some a /\ (a <= ten_min \/ (used h k = true /\ a <= six_h)).
Proof. exact sweep_exact_pre. Qed.
Print Assumptions C08_sweep_exact_pre.

(* The boundary instant.  The property text says "younger than"; the code compares with ">":
   a registration whose age is EXACTLY 10 min (6 h if used) survives the sweep, one nanosecond
   older and it is removed.  (Checked against the implementation with the fake clock on every run.) *)
Theorem C08_boundary_instant :
  forall h k,
    (age h k = Some ten_min -> tracked (run (h ++ [Sweep])) k = true) /\
    (age h k = Some six_h -> used h k = true -> tracked (run (h ++ [Sweep])) k = true) /\
    (forall a, age h k = Some a -> used h k = false -> ten_min < a -> tracked (run (h ++ [Sweep])) k = false) /\
    (forall a, age h k = Some a -> six_h < a -> tracked (run (h ++ [Sweep])) k = false).
Proof. exact boundary_instant. Qed.
Print Assumptions C08_boundary_instant.

(* The code's two-armed expiry test is exactly the negation of that rule. *)
Theorem C08_expiry_rule :
  forall nw t, rec_expired nw t = negb (kept (nw - t_born t) (t_used t)).
Proof. exact rec_expired_kept. Qed.
Print Assumptions C08_expiry_rule.

(* An untracked (expired and swept, or never registered) registration matches no connection. *)
Theorem C08_expired_not_matched :
  forall h k, tracked (run h) k = false -> matches (run h) k = false.
Proof. exact expired_not_matched_run. Qed.
Print Assumptions C08_expired_not_matched.

(* A lookup returns exactly the tracked registrations that have been validated. *)
Theorem C08_matches_iff_valid :
  forall h k, matches (run h) k = valid (run h) k /\ (valid (run h) k = true -> tracked (run h) k = true).
Proof. exact matches_iff_valid_run. Qed.
Print Assumptions C08_matches_iff_valid.

(* An untracked registration leaves nothing behind in either map. *)
Theorem C08_forgotten_entirely :
  forall h k, tracked (run h) k = false -> residue (run h) k = false.
Proof. exact forgotten_entirely_run. Qed.
Print Assumptions C08_forgotten_entirely.

(* The two maps always have the same number of entries, and no phantom keeps an empty map. *)
Theorem C08_no_residue_counts :
  forall h, ntimeouts (run h) = ntracked (run h) /\ (nphantoms (run h) <= ntracked (run h))%nat /\
            forall ph, count (run h) ph = 0%nat -> aget N.eqb ph (decoys (run h)) = None.
Proof. exact no_residue_counts_run. Qed.
Print Assumptions C08_no_residue_counts.

(* Tracked state never exceeds the number of registering operations ... *)
Theorem C08_bounded :
  forall h, (ntracked (run h) <= length (filter is_start h))%nat.
Proof. exact bounded. Qed.
Print Assumptions C08_bounded.

(* ... and after a sweep it is bounded by the registering operations of the last 6 hours. *)
Theorem C08_bounded_by_rate :
  forall h, (ntracked (run (h ++ [Sweep])) <= length (starts_within six_h h))%nat.
Proof. exact bounded_by_rate. Qed.
Print Assumptions C08_bounded_by_rate.

(* (every element of that window is a registering operation followed by at most the limit) *)
Theorem C08_window_sound :
  forall lim h key, In key (starts_within lim h) ->
    exists h1 o h2, h = h1 ++ o :: h2 /\ starts o (key_regkey key) = true /\ elapsed h2 <= lim.
Proof. exact starts_within_sound. Qed.
Print Assumptions C08_window_sound.

(* Never early: a new registration survives every sweep of its first 10 minutes ... *)
Theorem C08_never_early :
  forall h1 o h2 k, tracked (run h1) k = false -> starts o k = true -> elapsed h2 <= ten_min ->
    tracked (run (h1 ++ o :: h2)) k = true.
Proof. exact never_early. Qed.
Print Assumptions C08_never_early.

(* ... and every sweep of its first 6 hours once it has carried a connection. *)
Theorem C08_never_early_used :
  forall h1 o h2 h3 k, tracked (run h1) k = false -> starts o k = true -> elapsed h2 <= ten_min ->
    elapsed h2 + elapsed h3 <= six_h ->
    tracked (run (h1 ++ o :: h2 ++ MarkActive k :: h3)) k = true.
Proof. exact never_early_used. Qed.
Print Assumptions C08_never_early_used.

(* Never late: whatever survives a sweep was registered (while untracked) at most 10 min
   ago, or at most 6 h ago with a connection since. *)
Theorem C08_never_late :
  forall h k, tracked (run (h ++ [Sweep])) k = true ->
    exists h1 o h2, h = h1 ++ o :: h2 /\ starts o k = true /\ tracked (run h1) k = false /\
      (elapsed h2 <= ten_min \/ (In (MarkActive k) h2 /\ elapsed h2 <= six_h)).
Proof. exact never_late. Qed.
Print Assumptions C08_never_late.

(* removeRegistration never dereferences a missing record in a sequential history. *)
Theorem C08_no_panic :
  forall h, panicked (run h) = false.
Proof. exact no_panic_run. Qed.
Print Assumptions C08_no_panic.

(* The order in which Go's map iteration collects the expired indices does not matter. *)
Theorem C08_sweep_order_irrelevant :
  forall h order k, collects (run h) order ->
    registration_exists (sweep_in order (run h)) k = registration_exists (sweep (run h)) k /\
    has_timeout (sweep_in order (run h)) k = has_timeout (sweep (run h)) k /\
    panicked (sweep_in order (run h)) = false.
Proof. exact sweep_order_irrelevant_run. Qed.
Print Assumptions C08_sweep_order_irrelevant.

(* ---- further observables: validity, regCount, detector notifications ---- *)

(* A lookup returns a registration iff it was validated during its current life
   (gvalid: a function of the history alone). *)
Theorem C08_valid_refines_spec :
  forall h k, valid (run h) k = gvalid h k.
Proof. exact valid_ghost. Qed.
Print Assumptions C08_valid_refines_spec.

Theorem C08_matches_refines_spec :
  forall h k, matches (run h) k = gvalid h k.
Proof. exact matches_ghost. Qed.
Print Assumptions C08_matches_refines_spec.

(* regCount of a tracked registration = 1 + the Track/TrackNX operations on it since its life
   began (gcount: a function of the history alone); 0 when untracked. *)
Theorem C08_regcount_refines_spec :
  forall h k, regcount (xrun h) k = gcount h k.
Proof. exact regcount_ghost. Qed.
Print Assumptions C08_regcount_refines_spec.

Theorem C08_regcount_positive_iff_alive :
  forall h k, 0 < gcount h k <-> ghost h k <> None.
Proof. exact gcount_positive. Qed.
Print Assumptions C08_regcount_positive_iff_alive.

(* The detector notifications an operation causes are those the history prescribes:
   New exactly when a not-yet-validated registration is validated, Update exactly when a
   live registration carries a connection. *)
Theorem C08_notifications_refine_spec :
  forall h o, match o with Sweep => True | _ => emits (run h) o = gemits h o end.
Proof. exact emits_ghost. Qed.
Print Assumptions C08_notifications_refine_spec.

(* At most one announcement per life: an announced registration is validated, and a
   validated registration is never announced again (validity ends only with the life). *)
Theorem C08_announced_once_per_life :
  forall h o k, (In (EvNew k) (emits (run h) o) -> gvalid (h ++ [o]) k = true) /\
                (gvalid h k = true -> ~ In (EvNew k) (emits (run h) o)).
Proof. exact announced_once_per_life. Qed.
Print Assumptions C08_announced_once_per_life.

(* The sweep's statistics (the two results of removeOldRegistrations: expired, expired-and-valid) refine the
   specification: the indices a sweep collects are exactly the registrations whose specification life ends at this sweep
   (alive, and not kept by the rule), each once, and the second count is over those validated during that life. *)
Theorem C08_expiry_stat_refines_spec :
  forall h, let E := get_expired (run h) in
    emits (run h) Sweep =
      [EvExpired (N.of_nat (length E)) (N.of_nat (length (filter (fun key => gvalid h (key_regkey key)) E)))] /\
    NoDup E /\
    (forall key, In key E <-> exists a u, ghost h (key_regkey key) = Some (a, u) /\ kept a u = false).
Proof. exact expiry_stat_ghost. Qed.
Print Assumptions C08_expiry_stat_refines_spec.

(* ---- the connection handler above the table (C08/ModelConn.v) ----
   hrun h      : registry and open tunnels after the handler history h; a connection (HConnect c k) is what
                 handleNewTCPConn does: matched iff getRegistrations returns k, marked used AT THE MATCH, tunnel open
                 until HClose c, which does nothing to the registry
   hghost h k  : the life of k as a function of the handler history alone (age since registration, has carried a
                 connection, validated); helapsed: the time that passes                                             *)

(* A handler history amounts to the registry history htrace h: every theorem above holds for the station's histories. *)
Theorem C08_conn_is_registry_history :
  forall h, h_reg (hrun h) = run (htrace h).
Proof. exact hrun_trace. Qed.
Print Assumptions C08_conn_is_registry_history.

(* The handler and the table together refine the handler-level specification. *)
Theorem C08_conn_refines_spec :
  forall h k, tracked (h_reg (hrun h)) k = is_some (fst (hghost h k)) /\ matches (h_reg (hrun h)) k = snd (hghost h k).
Proof. exact conn_refines_spec. Qed.
Print Assumptions C08_conn_refines_spec.

(* After a sweep: tracked iff at most 10 min old, or has carried a connection and is at most 6 h old. *)
Theorem C08_conn_sweep_exact :
  forall h k, tracked (h_reg (hrun (h ++ [HReg Sweep]))) k = true <->
    exists a, hage h k = Some a /\ (a <= ten_min \/ (hcarried h k = true /\ a <= six_h)).
Proof. exact conn_sweep_exact. Qed.
Print Assumptions C08_conn_sweep_exact.

(* Never early, whatever the tunnel's duration: a registration that matched a connection when it was a old (a counted
   from its REGISTRATION) stays tracked, keeps matching reconnects and counts as "has carried a connection" for as long
   as a + the time passed since the match is at most 6 h - whether the tunnel has been closed in between or not. *)
Theorem C08_conn_open_tunnel_kept :
  forall h c k h2 a,
    matches (h_reg (hrun h)) k = true -> hage h k = Some a -> a + helapsed h2 <= six_h ->
    tracked (h_reg (hrun (h ++ HConnect c k :: h2))) k = true /\
    matches (h_reg (hrun (h ++ HConnect c k :: h2))) k = true /\
    hcarried (h ++ HConnect c k :: h2) k = true /\
    hage (h ++ HConnect c k :: h2) k = Some (a + helapsed h2).
Proof. exact open_tunnel_kept. Qed.
Print Assumptions C08_conn_open_tunnel_kept.

(* ... and not longer.  The clock the code uses is the registration's (DecoyTimeout.registrationTime is set by track and
   never touched again): unless it is registered anew in between, a matched registration survives a sweep iff its age
   SINCE REGISTRATION is at most 6 h - neither the match nor the end of the tunnel restarts the count. *)
Theorem C08_conn_lifetime_from_registration :
  forall h c k h2 a,
    matches (h_reg (hrun h)) k = true -> hage h k = Some a ->
    (forall o, In (HReg o) h2 -> starts o k = false) ->
    (tracked (h_reg (hrun (h ++ HConnect c k :: h2 ++ [HReg Sweep]))) k = true <-> a + helapsed h2 <= six_h).
Proof. exact matched_exact. Qed.
Print Assumptions C08_conn_lifetime_from_registration.

(* The end of a tunnel changes nothing: the registry does not depend on where (or whether) the closes occur. *)
Theorem C08_conn_tunnel_end_irrelevant :
  (forall h1 c h2, h_reg (hrun (h1 ++ HClose c :: h2)) = h_reg (hrun (h1 ++ h2))) /\
  (forall h, h_reg (hrun h) = h_reg (hrun (filter (fun e => negb (is_close e)) h))).
Proof. exact (conj close_irrelevant closes_irrelevant). Qed.
Print Assumptions C08_conn_tunnel_end_irrelevant.

(* Never late: what survives a sweep is at most 10 min old, or at most 6 h old and a connection for it was matched by the
   handler during its current life, a1 after its registration (handler_only: MarkActive has no caller but the handler). *)
Theorem C08_conn_never_late :
  forall h k, handler_only h -> tracked (h_reg (hrun (h ++ [HReg Sweep]))) k = true ->
    exists a, hage h k = Some a /\
      (a <= ten_min \/
       (a <= six_h /\ exists h1 c h2 a1, h = h1 ++ HConnect c k :: h2 /\ matches (h_reg (hrun h1)) k = true /\
                                         hage h1 k = Some a1 /\ a = a1 + helapsed h2)).
Proof. exact conn_never_late. Qed.
Print Assumptions C08_conn_never_late.

(* ---- fifth round: scale.  The sweep removes EVERY record older than its lifetime from a table of ANY size (s ranges over
   all well-formed tables; `run h` is one for every history h): what still has a timeout record after the sweep had it before
   and is within its lifetime, and no expired record is left. *)
Theorem C08_sweep_any_size :
  forall s, Inv s ->
    (forall key t, aget tkey_eqb key (timeouts (sweep s)) = Some t ->
       aget tkey_eqb key (timeouts s) = Some t /\ kept (now s - t_born t) (t_used t) = true) /\
    length (get_expired (sweep s)) = 0%nat.
Proof. exact (fun s I => conj (sweep_any_size s I) (sweep_any_size_count s I)). Qed.
Print Assumptions C08_sweep_any_size.

(* Refuted variant: a sweep that handles at most n expired records (a batch limit) equals the sweep on every table with at
   most n expired records - and on EVERY table with more it leaves a record that is older than its lifetime with its
   timeout record and its entry in the phantom's map (still tracked, still matching) after the sweep. *)
Theorem C08_sweep_capped_refuted :
  forall n s, Inv s ->
    ((length (get_expired s) <= n)%nat -> sweep_capped n s = sweep s) /\
    ((n < length (get_expired s))%nat ->
       exists key t, aget tkey_eqb key (timeouts (sweep_capped n s)) = Some t /\
                     kept (now (sweep_capped n s) - t_born t) (t_used t) = false /\
                     get2 (decoys (sweep_capped n s)) (fst key) (snd key) = get2 (decoys s) (fst key) (snd key) /\
                     is_some (get2 (decoys (sweep_capped n s)) (fst key) (snd key)) = true).
Proof. exact (fun n s I => conj (sweep_capped_small n s) (sweep_capped_late n s I)). Qed.
Print Assumptions C08_sweep_capped_refuted.
