(* C08 property theorems: statements + `exact lemma` only. *)
From CJ Require Import Common.Base C08.Model C08.Proofs.

Theorem C08_expired_not_matched :
  forall h k, tracked (run h) k = false -> matches (run h) k = false.
Proof. intros h k. exact (expired_not_matched_state (run h) k). Qed.
Print Assumptions C08_expired_not_matched.
