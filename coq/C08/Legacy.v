(* C08, historical note (finding #3, fixed in /repo by 1ef64f9): the table as
   it was before the fix, with decoysTimeouts indexed by IDString()+phantom -
   the transport is not part of the index.  The specification is refuted for
   that table by the history below; the same history run on the real
   RegisteredDecoys of the unfixed tree shows the same (driver corpus). *)
From CJ Require Import Common.Base C08.Model.

Definition legacy_key (k : regkey) : tkey := (k_ph k, (Min, k_secret k)).

Definition legacy_track (s : st) (k : regkey) : st :=
  match registration_exists s k with
  | Some _ => s
  | None =>
      if enabled (k_tr k) then
        {| decoys := put2 (decoys s) (k_ph k) (ident_of k) false;
           timeouts := aput tkey_eqb (legacy_key k)
                         {| t_ph := k_ph k; t_id := ident_of k; t_born := now s; t_used := false |} (timeouts s);
           now := now s; panicked := panicked s |}
      else s
  end.

Definition legacy_validate (s : st) (k : regkey) : st :=
  let s1 := legacy_track s k in
  match registration_exists s1 k with
  | None => s1
  | Some _ => set_decoys s1 (put2 (decoys s1) (k_ph k) (ident_of k) true)
  end.

Definition legacy_mark_active (s : st) (k : regkey) : st :=
  match aget tkey_eqb (legacy_key k) (timeouts s) with
  | Some t => set_timeouts s (aput tkey_eqb (legacy_key k)
                {| t_ph := t_ph t; t_id := t_id t; t_born := t_born t; t_used := true |} (timeouts s))
  | None => s
  end.

Definition legacy_step (s : st) (o : rop) : st :=
  match o with
  | Track k | TrackNX k => legacy_track s k
  | Validate k => legacy_validate s k
  | MarkActive k => legacy_mark_active s k
  | _ => step s o
  end.

Definition legacy_run (h : list rop) : st := fold_left legacy_step h init.

Definition lkA := {| k_secret := 7; k_tr := Min; k_ph := 0 |}.
Definition lkB := {| k_secret := 7; k_tr := Prefix; k_ph := 0 |}.
Definition legacy_witness : list rop :=
  [Track lkA; Validate lkA; Track lkB; Advance (660 * 1000000000); Sweep; Advance (86400 * 1000000000)].

(* sweep_exact, expired_not_matched and the count agreement all fail for the unfixed table *)
Lemma legacy_refuted :
  tracked (legacy_run (legacy_witness ++ [Sweep])) lkA = true /\
  matches (legacy_run (legacy_witness ++ [Sweep])) lkA = true /\
  age (legacy_witness ++ [Sweep]) lkA = None /\
  ntimeouts (legacy_run (legacy_witness ++ [Sweep])) = 0%nat /\
  ntracked (legacy_run (legacy_witness ++ [Sweep])) = 1%nat.
Proof. vm_compute. repeat split. Qed.

(* the fixed table on the same history *)
Lemma fixed_on_witness :
  tracked (run (legacy_witness ++ [Sweep])) lkA = false /\ ntracked (run (legacy_witness ++ [Sweep])) = 0%nat.
Proof. vm_compute. split; reflexivity. Qed.
