(* C08 lemmas, part 5: the tracked state is bounded by the registration rate. *)
From CJ Require Import Common.Base C08.Model C08.Proofs C08.Invariant C08.Sweep C08.History.
From Coq Require Import Lia ZifyN ZifyNat ZifyBool.

Lemma tkey_of_key_regkey key : tkey_of (key_regkey key) = key.
Proof. destruct key as [ph [t s]]. reflexivity. Qed.

(* every timeout record belongs to a registration that the ghost says is alive *)
Lemma timeout_alive h key : In key (keys (timeouts (run h))) ->
  exists a u, ghost h (key_regkey key) = Some (a, u).
Proof.
  intros H. destruct (refinement h) as [I V].
  apply (in_keys_aget tkey_eqb tkey_eqb_eq) in H as [t E].
  destruct (inv_rec _ I key t E) as (_ & _ & En).
  specialize (V (key_regkey key)). unfold view in V. rewrite tkey_of_key_regkey, E in V.
  change (k_tr (key_regkey key)) with (fst (snd key)) in V. rewrite En in V. eauto.
Qed.

Lemma starts_key o k : starts o k = true ->
  enabled (k_tr k) = true /\ (o = Track k \/ o = TrackNX k \/ o = Validate k \/ o = ValidateStale k).
Proof.
  destruct o; cbn; try discriminate; intros H; apply andb_true_iff in H as [H1 H2];
    apply regkey_eqb_eq in H1; subst; auto 6.
Qed.

Lemma elapsed_rev l : elapsed (rev l) = elapsed l.
Proof.
  induction l as [|x l IH]; [reflexivity|]. cbn [rev]. rewrite elapsed_app, IH.
  change (x :: l) with ([x] ++ l). rewrite elapsed_app. lia.
Qed.

Lemma in_starts_within_rev lim x l2 : forall l1 el,
  In x (starts_within_rev lim (el + elapsed l1) l2) -> In x (starts_within_rev lim el (l1 ++ l2)).
Proof.
  induction l1 as [|o l1 IH]; intros el H.
  - cbn in *. rewrite N.add_0_r in H. exact H.
  - change (elapsed (o :: l1)) with (elapsed ([o] ++ l1)) in H. rewrite elapsed_app in H.
    cbn [app]. destruct o; cbn [starts_within_rev];
      try (apply IH; change (elapsed [_]) with 0 in H; rewrite N.add_0_l in H; exact H).
    1-4: destruct (enabled (k_tr k) && (el <=? lim)); [right|];
         apply IH; change (elapsed [_]) with 0 in H; rewrite N.add_0_l in H; exact H.
    apply IH. change (elapsed [Advance ns]) with (ns + 0) in H. rewrite N.add_0_r, N.add_assoc in H. exact H.
Qed.

Lemma in_starts_within lim h1 o h2 k :
  starts o k = true -> elapsed h2 <= lim -> In (tkey_of k) (starts_within lim (h1 ++ o :: h2)).
Proof.
  intros S B. unfold starts_within. rewrite rev_app_distr. cbn [rev]. rewrite <- app_assoc. cbn [app].
  apply in_starts_within_rev. rewrite N.add_0_l, elapsed_rev.
  destruct (starts_key o k S) as [En [->|[->|[->| ->]]]]; cbn [starts_within_rev];
    rewrite En; assert (E : (elapsed h2 <=? lim) = true) by lia; rewrite E; left; reflexivity.
Qed.

Lemma kept_le_six_h a u : kept a u = true -> a <= six_h.
Proof. intros H. apply kept_spec in H. unfold ten_min, six_h in *. lia. Qed.

(* after a sweep: at most one tracked registration per registering operation of the last 6 h *)
Lemma bounded_by_rate h : (ntracked (run (h ++ [Sweep])) <= length (starts_within six_h h))%nat.
Proof.
  pose proof (run_inv (h ++ [Sweep])) as I. rewrite <- (counts_agree _ I).
  unfold ntimeouts. rewrite <- (map_length fst). fold (keys (timeouts (run (h ++ [Sweep])))).
  apply NoDup_incl_length; [apply (inv_nodup _ I)|].
  intros key H. apply timeout_alive in H as (a & u & G).
  rewrite ghost_snoc in G. cbn [gstep] in G.
  destruct (ghost h (key_regkey key)) as [[a0 u0]|] eqn:G0; [|discriminate].
  destruct (kept a0 u0) eqn:K; [|discriminate].
  destruct (ghost_some_started h _ a0 u0 G0) as (h1 & o & h2 & -> & S & _ & -> & _).
  rewrite <- (tkey_of_key_regkey key). apply in_starts_within; [exact S | apply (kept_le_six_h _ _ K)].
Qed.

(* at any time: at most one tracked registration per registering operation *)
Definition start_keys (h : list rop) : list tkey :=
  flat_map (fun o => match o with
                     | Track k | TrackNX k | Validate k | ValidateStale k => if enabled (k_tr k) then [tkey_of k] else []
                     | _ => [] end) h.

Lemma length_start_keys h : (length (start_keys h) <= length (filter is_start h))%nat.
Proof.
  induction h as [|o h IH]; [cbn; lia|]. unfold start_keys in *. cbn [flat_map filter].
  rewrite app_length. destruct o; cbn [is_start length]; try lia; destruct (enabled (k_tr k)); cbn [length]; lia.
Qed.

Lemma in_start_keys h1 o h2 k : starts o k = true -> In (tkey_of k) (start_keys (h1 ++ o :: h2)).
Proof.
  intros S. unfold start_keys. apply in_flat_map. exists o. split; [apply in_or_app; right; left; reflexivity|].
  destruct (starts_key o k S) as [En [->|[->|[->| ->]]]]; rewrite En; left; reflexivity.
Qed.

Lemma bounded h : (ntracked (run h) <= length (filter is_start h))%nat.
Proof.
  pose proof (run_inv h) as I. rewrite <- (counts_agree _ I).
  eapply Nat.le_trans; [|apply length_start_keys].
  unfold ntimeouts. rewrite <- (map_length fst). fold (keys (timeouts (run h))).
  apply NoDup_incl_length; [apply (inv_nodup _ I)|].
  intros key H. apply timeout_alive in H as (a & u & G).
  destruct (ghost_some_started h _ a u G) as (h1 & o & h2 & -> & S & _).
  rewrite <- (tkey_of_key_regkey key). apply in_start_keys. exact S.
Qed.

(* the window function counts only what it should: every element is a
   registering operation followed by at most [lim] ns *)
Lemma starts_within_rev_sound lim key : forall rh el,
  In key (starts_within_rev lim el rh) ->
  exists r1 o r2, rh = r1 ++ o :: r2 /\ starts o (key_regkey key) = true /\ el + elapsed r1 <= lim.
Proof.
  induction rh as [|o rh IH]; intros el H; [contradiction|].
  assert (SKIP : forall el', In key (starts_within_rev lim el' rh) -> el' = el + elapsed [o] ->
                 exists r1 o' r2, o :: rh = r1 ++ o' :: r2 /\ starts o' (key_regkey key) = true /\ el + elapsed r1 <= lim).
  { intros el' H' ->. destruct (IH _ H') as (r1 & o' & r2 & -> & S & B).
    exists (o :: r1), o', r2. split; [reflexivity|]. split; [exact S|].
    change (o :: r1) with ([o] ++ r1). rewrite elapsed_app. lia. }
  assert (HERE : forall k, (o = Track k \/ o = TrackNX k \/ o = Validate k \/ o = ValidateStale k) -> enabled (k_tr k) = true -> el <= lim ->
                 key = tkey_of k ->
                 exists r1 o' r2, o :: rh = r1 ++ o' :: r2 /\ starts o' (key_regkey key) = true /\ el + elapsed r1 <= lim).
  { intros k Ho En B ->. exists [], o, rh. split; [reflexivity|]. split; [|cbn; lia].
    assert (key_regkey (tkey_of k) = k) as -> by (destruct k; reflexivity).
    destruct Ho as [->|[->|[->| ->]]]; cbn; rewrite regkey_eqb_refl, En; reflexivity. }
  destruct o; cbn [starts_within_rev] in H;
    try (apply (SKIP el H); change (elapsed [_]) with 0; lia).
  1-4: destruct (enabled (k_tr k)) eqn:En; cbn [andb] in H;
       [destruct (el <=? lim) eqn:B; [destruct H as [H|H]; [apply (HERE k); auto 6; lia|]|]|];
       apply (SKIP el H); change (elapsed [_]) with 0; lia.
  apply (SKIP (el + ns) H). change (elapsed [Advance ns]) with (ns + 0). lia.
Qed.

Lemma starts_within_sound lim h key : In key (starts_within lim h) ->
  exists h1 o h2, h = h1 ++ o :: h2 /\ starts o (key_regkey key) = true /\ elapsed h2 <= lim.
Proof.
  unfold starts_within. intros H. apply starts_within_rev_sound in H as (r1 & o & r2 & E & S & B).
  exists (rev r2), o, (rev r1). split; [|split; [exact S | rewrite elapsed_rev; lia]].
  rewrite <- (rev_involutive h), E, rev_app_distr. cbn [rev]. rewrite <- app_assoc. reflexivity.
Qed.
