(* C08 lemmas, part 2: the representation invariant of the table, and the
   refinement: the timeout record of a registration is its ghost life. *)
From CJ Require Import Common.Base C08.Model C08.Proofs.
From Coq Require Import Lia ZifyN ZifyNat ZifyBool.

Lemma tkey_eq_dec (a b : tkey) : {a = b} + {a <> b}.
Proof.
  destruct (tkey_eqb a b) eqn:E; [left; apply tkey_eqb_eq; exact E|].
  right; intros ->. rewrite (eqb_refl tkey_eqb tkey_eqb_eq) in E. discriminate.
Qed.

Lemma regkey_eq_dec (a b : regkey) : {a = b} + {a <> b}.
Proof.
  destruct (tkey_eq_dec (tkey_of a) (tkey_of b)) as [H|H]; [left; apply tkey_of_inj; exact H|].
  right; intros ->. apply H; reflexivity.
Qed.

Lemma regkey_eqb_refl k : regkey_eqb k k = true.
Proof. apply regkey_eqb_eq; reflexivity. Qed.

Lemma regkey_eqb_neq a b : a <> b -> regkey_eqb a b = false.
Proof. intros H. destruct (regkey_eqb a b) eqn:E; [apply regkey_eqb_eq in E; contradiction | reflexivity]. Qed.

(* ------------------------------------------------------------ invariant *)
Record Inv (s : st) : Prop := {
  inv_wf : wf_d (decoys s);
  inv_nodup : NoDup (keys (timeouts s));
  inv_rec : forall key t, aget tkey_eqb key (timeouts s) = Some t ->
            (t_ph t, t_id t) = key /\ t_born t <= now s /\ enabled (fst (snd key)) = true;
  inv_bij : forall ph id, is_some (get2 (decoys s) ph id) = is_some (aget tkey_eqb (ph, id) (timeouts s));
  inv_nopanic : panicked s = false
}.

Lemma inv_init : Inv init.
Proof.
  constructor; cbn; try reflexivity; try (intros; discriminate).
  - split; [constructor | intros ph i []].
  - constructor.
Qed.

(* the life of registration k as the table records it *)
Definition view (s : st) (k : regkey) : life :=
  if enabled (k_tr k) then
    match aget tkey_eqb (tkey_of k) (timeouts s) with
    | Some t => Some (now s - t_born t, t_used t)
    | None => None
    end
  else None.

Lemma tracked_view s k : Inv s -> tracked s k = is_some (view s k).
Proof.
  intros I. unfold tracked, registration_exists, view. destruct (enabled (k_tr k)); [|reflexivity].
  rewrite (inv_bij s I). unfold tkey_of. destruct (aget tkey_eqb _ (timeouts s)); reflexivity.
Qed.

Lemma has_timeout_tracked s k : Inv s -> has_timeout s k = tracked s k.
Proof.
  intros I. unfold has_timeout, tracked, registration_exists.
  destruct (enabled (k_tr k)) eqn:En.
  - rewrite (inv_bij s I). reflexivity.
  - destruct (aget tkey_eqb (tkey_of k) (timeouts s)) as [t|] eqn:E; [|reflexivity].
    apply (inv_rec s I) in E as (_ & _ & E). cbn in E. congruence.
Qed.

(* ------------------------------------------------------------ track *)
Lemma track_exists s k v : registration_exists s k = Some v -> fst (track s k) = s.
Proof. intros E. unfold track. rewrite E. reflexivity. Qed.

Lemma track_disabled s k : enabled (k_tr k) = false -> fst (track s k) = s.
Proof. intros E. unfold track, registration_exists. rewrite E. reflexivity. Qed.

Lemma inv_track s k : Inv s -> Inv (fst (track s k)).
Proof.
  intros I. unfold track. destruct (registration_exists s k) eqn:E; [exact I|].
  destruct (enabled (k_tr k)) eqn:En; [|exact I]. cbn [fst].
  constructor; cbn [decoys timeouts now panicked].
  - apply wf_put2, (inv_wf s I).
  - apply (nodup_aput tkey_eqb tkey_eqb_eq), (inv_nodup s I).
  - intros key t. destruct (tkey_eq_dec (tkey_of k) key) as [<-|Hn].
    + rewrite (aget_aput_same tkey_eqb tkey_eqb_eq). intros [= <-]. cbn.
      split; [reflexivity | split; [lia | exact En]].
    + rewrite (aget_aput_other tkey_eqb tkey_eqb_eq) by exact Hn. apply (inv_rec s I).
  - intros ph id. destruct (tkey_eq_dec (tkey_of k) (ph, id)) as [Heq|Hn].
    + unfold tkey_of in Heq. inversion Heq; subst ph id.
      rewrite get2_put2_same. fold (tkey_of k). rewrite (aget_aput_same tkey_eqb tkey_eqb_eq). reflexivity.
    + rewrite get2_put2_other by (unfold tkey_of in Hn; congruence).
      rewrite (aget_aput_other tkey_eqb tkey_eqb_eq) by exact Hn. apply (inv_bij s I).
  - apply (inv_nopanic s I).
Qed.

Lemma now_track s k : now (fst (track s k)) = now s.
Proof.
  unfold track. destruct (registration_exists s k); [reflexivity|].
  destruct (enabled (k_tr k)); reflexivity.
Qed.

Lemma view_track s k k' : Inv s ->
  view (fst (track s k')) k =
  if regkey_eqb k k' && enabled (k_tr k) then match view s k with None => Some (0, false) | Some l => Some l end
  else view s k.
Proof.
  intros I. unfold view. rewrite now_track.
  destruct (enabled (k_tr k)) eqn:En; [|rewrite andb_false_r; reflexivity]. rewrite andb_true_r.
  destruct (regkey_eq_dec k k') as [<-|Hn].
  - rewrite regkey_eqb_refl. unfold track. destruct (registration_exists s k) eqn:E.
    + cbn [fst]. unfold registration_exists in E. rewrite En in E.
      assert (H := inv_bij s I (k_ph k) (ident_of k)). rewrite E in H. cbn in H. fold (tkey_of k) in H.
      destruct (aget tkey_eqb (tkey_of k) (timeouts s)); [reflexivity | discriminate].
    + rewrite En. cbn [fst timeouts]. rewrite (aget_aput_same tkey_eqb tkey_eqb_eq). cbn [t_born t_used].
      unfold registration_exists in E. rewrite En in E.
      assert (H := inv_bij s I (k_ph k) (ident_of k)). rewrite E in H. cbn in H. fold (tkey_of k) in H.
      destruct (aget tkey_eqb (tkey_of k) (timeouts s)); [discriminate|]. rewrite N.sub_diag. reflexivity.
  - rewrite (regkey_eqb_neq k k' Hn). unfold track.
    destruct (registration_exists s k'); [reflexivity|]. destruct (enabled (k_tr k')); [|reflexivity].
    cbn [fst timeouts]. rewrite (aget_aput_other tkey_eqb tkey_eqb_eq); [reflexivity|].
    intros H. apply Hn. symmetry. apply tkey_of_inj. exact H.
Qed.

(* ------------------------------------------------------------ validate *)
Lemma validate_unfold s k :
  validate s k =
  let s1 := fst (track s k) in
  match registration_exists s1 k with
  | None => s1
  | Some _ => set_decoys s1 (put2 (decoys s1) (k_ph k) (ident_of k) true)
  end.
Proof.
  unfold validate. destruct (registration_exists s k) eqn:E; [|reflexivity].
  rewrite (track_exists s k b E). reflexivity.
Qed.

Lemma inv_set_valid s k v : Inv s -> registration_exists s k = Some v ->
  Inv (set_decoys s (put2 (decoys s) (k_ph k) (ident_of k) true)).
Proof.
  intros I E. constructor; cbn [set_decoys decoys timeouts now panicked].
  - apply wf_put2, (inv_wf s I).
  - apply (inv_nodup s I).
  - apply (inv_rec s I).
  - intros ph id. destruct (tkey_eq_dec (tkey_of k) (ph, id)) as [Heq|Hn].
    + unfold tkey_of in Heq. inversion Heq; subst ph id. rewrite get2_put2_same.
      rewrite <- (inv_bij s I). unfold registration_exists in E.
      destruct (enabled (k_tr k)); [rewrite E; reflexivity | discriminate].
    + rewrite get2_put2_other by (unfold tkey_of in Hn; congruence). apply (inv_bij s I).
  - apply (inv_nopanic s I).
Qed.

Lemma inv_validate s k : Inv s -> Inv (validate s k).
Proof.
  intros I. rewrite validate_unfold. cbv zeta. pose proof (inv_track s k I) as I1.
  destruct (registration_exists (fst (track s k)) k) eqn:E; [|exact I1].
  apply (inv_set_valid _ k b I1 E).
Qed.

Lemma view_validate s k k' : view (validate s k') k = view (fst (track s k')) k.
Proof.
  rewrite validate_unfold. cbv zeta. destruct (registration_exists (fst (track s k')) k'); reflexivity.
Qed.

Lemma inv_validate_stale s k : Inv s -> Inv (validate_stale s k).
Proof.
  intros I. unfold validate_stale. destruct (registration_exists s k); [exact I | apply inv_validate; exact I].
Qed.

Lemma view_validate_stale s k k' : view (validate_stale s k') k = view (fst (track s k')) k.
Proof.
  unfold validate_stale. destruct (registration_exists s k') eqn:E.
  - rewrite (track_exists s k' b E). reflexivity.
  - apply view_validate.
Qed.

(* ------------------------------------------------------------ markActive *)
Lemma inv_mark_active s k : Inv s -> Inv (mark_active s k).
Proof.
  intros I. unfold mark_active. destruct (enabled (k_tr k)); [|exact I].
  destruct (aget tkey_eqb (tkey_of k) (timeouts s)) as [t|] eqn:E; [|exact I].
  constructor; cbn [set_timeouts decoys timeouts now panicked].
  - apply (inv_wf s I).
  - apply (nodup_aput tkey_eqb tkey_eqb_eq), (inv_nodup s I).
  - intros key t'. destruct (tkey_eq_dec (tkey_of k) key) as [<-|Hn].
    + rewrite (aget_aput_same tkey_eqb tkey_eqb_eq). intros [= <-]. cbn [t_ph t_id t_born].
      apply (inv_rec s I). exact E.
    + rewrite (aget_aput_other tkey_eqb tkey_eqb_eq) by exact Hn. apply (inv_rec s I).
  - intros ph id. rewrite (inv_bij s I). destruct (tkey_eq_dec (tkey_of k) (ph, id)) as [<-|Hn].
    + rewrite (aget_aput_same tkey_eqb tkey_eqb_eq), E. reflexivity.
    + rewrite (aget_aput_other tkey_eqb tkey_eqb_eq) by exact Hn. reflexivity.
  - apply (inv_nopanic s I).
Qed.

Lemma view_mark_active s k k' :
  view (mark_active s k') k =
  if regkey_eqb k k' then match view s k with Some (a, _) => Some (a, true) | None => None end else view s k.
Proof.
  unfold view, mark_active. destruct (regkey_eq_dec k k') as [<-|Hn].
  - rewrite regkey_eqb_refl. destruct (enabled (k_tr k)); [|reflexivity].
    destruct (aget tkey_eqb (tkey_of k) (timeouts s)) as [t|] eqn:E.
    + cbn [set_timeouts timeouts now]. rewrite (aget_aput_same tkey_eqb tkey_eqb_eq). reflexivity.
    + rewrite E. reflexivity.
  - rewrite (regkey_eqb_neq k k' Hn). destruct (enabled (k_tr k)); [|reflexivity].
    destruct (enabled (k_tr k')); [|reflexivity].
    destruct (aget tkey_eqb (tkey_of k') (timeouts s)) as [t|]; [|reflexivity].
    cbn [set_timeouts timeouts now]. rewrite (aget_aput_other tkey_eqb tkey_eqb_eq); [reflexivity|].
    intros H. apply Hn. symmetry. apply tkey_of_inj. exact H.
Qed.

(* ------------------------------------------------------------ time *)
Definition advance (s : st) (d : N) : st :=
  {| decoys := decoys s; timeouts := timeouts s; now := now s + d; panicked := panicked s |}.

Lemma inv_advance s d : Inv s -> Inv (advance s d).
Proof.
  intros I. constructor; cbn [advance decoys timeouts now panicked];
    [apply (inv_wf s I) | apply (inv_nodup s I) | | apply (inv_bij s I) | apply (inv_nopanic s I)].
  intros key t E. destruct (inv_rec s I key t E) as (H1 & H2 & H3). repeat split; auto. lia.
Qed.

Lemma view_advance s d k : Inv s ->
  view (advance s d) k = match view s k with Some (a, u) => Some (a + d, u) | None => None end.
Proof.
  intros I. unfold view. cbn [advance timeouts now]. destruct (enabled (k_tr k)); [|reflexivity].
  destruct (aget tkey_eqb (tkey_of k) (timeouts s)) as [t|] eqn:E; [|reflexivity].
  destruct (inv_rec s I _ t E) as (_ & H & _). f_equal. f_equal. lia.
Qed.
