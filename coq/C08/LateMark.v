(* C08: the connection handler with the MarkActive call placed after cj.Proxy returns (ModelConn.hstep_late)
   violates "never early": a checked witness.  The registration is validated, a connection is matched and its
   tunnel stays open, 11 minutes pass, the sweep runs.  By the specification it has carried a connection and is
   11 minutes old: it must be tracked.  The handler as it is (mark at match time) keeps it; the variant has
   forgotten it - both records - and the late mark, when the tunnel finally closes, finds nothing to mark: a
   reconnect is not recognised. *)
From CJ Require Import Common.Base C08.Model C08.ModelConn.
From Coq Require Import Lia ZifyN.

Definition kL : regkey := {| k_secret := 0; k_tr := Min; k_ph := 0 |}.
Definition eleven_min : N := 660 * 1000000000.
Definition hL : list hev := [HReg (Validate kL); HConnect 1 kL; HReg (Advance eleven_min); HReg Sweep].

Lemma late_mark_refuted :
  (* the specification *)
  hage hL kL = Some eleven_min /\ hcarried hL kL = true /\ eleven_min <= six_h /\
  (* the handler as it is *)
  tracked (h_reg (hrun hL)) kL = true /\ matches (h_reg (hrun hL)) kL = true /\
  (* the variant, while the tunnel is still open *)
  tracked (h_reg (hrun_late hL)) kL = false /\ residue (h_reg (hrun_late hL)) kL = false /\
  (* the variant, after the tunnel has closed and the late mark has been attempted *)
  tracked (h_reg (hrun_late (hL ++ [HClose 1]))) kL = false /\
  h_open (hrun_late (hL ++ [HClose 1; HConnect 2 kL])) = [].
Proof.
  repeat split; try (vm_compute; reflexivity). unfold eleven_min, six_h. lia.
Qed.

(* a tunnel that is closed before the registration is 10 minutes old hides the difference *)
Lemma late_mark_invisible_on_short_tunnels :
  let h := [HReg (Validate kL); HConnect 1 kL; HClose 1; HReg (Advance eleven_min); HReg Sweep] in
  h_reg (hrun_late h) = h_reg (hrun h).
Proof. vm_compute. reflexivity. Qed.

(* In general: on histories in which every tunnel is closed at once (no time passes, nothing happens between a
   connection and its close) the two handlers cannot be told apart - which is why no history with an abstract,
   instantaneous "connect" can expose the close-time variant. *)
Inductive closed_at_once : list hev -> Prop :=
| cao_nil : closed_at_once []
| cao_reg o h : closed_at_once h -> closed_at_once (HReg o :: h)
| cao_conn c k h : closed_at_once h -> closed_at_once (HConnect c k :: HClose c :: h).

Lemma late_agrees_when_closed_at_once h : closed_at_once h ->
  forall x y, h_reg x = h_reg y -> h_open y = [] ->
  h_reg (fold_left hstep h x) = h_reg (fold_left hstep_late h y) /\ h_open (fold_left hstep_late h y) = [].
Proof.
  induction 1 as [|o h _ IH|c k h _ IH]; intros x y E O.
  - split; assumption.
  - cbn [fold_left]. apply IH; cbn [hstep hstep_late h_reg h_open]; [rewrite E; reflexivity | exact O].
  - cbn [fold_left]. apply IH.
    + cbn [hstep hstep_late]. rewrite E. destruct (matches (h_reg y) k);
        cbn [h_reg h_open filter fst snd mark_all fold_left]; rewrite ?O; cbn [filter fst snd mark_all fold_left];
        rewrite ?N.eqb_refl; cbn [filter fst snd mark_all fold_left]; congruence.
    + cbn [hstep_late]. destruct (matches (h_reg y) k);
        cbn [h_open close_conn filter fst negb]; rewrite ?O; cbn [close_conn filter fst negb];
        rewrite ?N.eqb_refl; reflexivity.
Qed.

Lemma late_mark_invisible_when_closed_at_once h : closed_at_once h -> h_reg (hrun_late h) = h_reg (hrun h).
Proof. intros C. symmetry. apply (late_agrees_when_closed_at_once h C hinit hinit); reflexivity. Qed.
