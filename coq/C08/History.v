(* C08 lemmas, part 4: induction over histories - the table refines the ghost
   semantics; consequences. *)
From CJ Require Import Common.Base C08.Model C08.Proofs C08.Invariant C08.Sweep.
From Coq Require Import Lia ZifyN ZifyNat ZifyBool.

Lemma run_snoc h o : run (h ++ [o]) = step (run h) o.
Proof. unfold run. rewrite fold_left_app. reflexivity. Qed.

Lemma ghost_snoc h o k : ghost (h ++ [o]) k = gstep k (ghost h k) o.
Proof. unfold ghost. rewrite fold_left_app. reflexivity. Qed.

Lemma ghost_app h1 h2 k : ghost (h1 ++ h2) k = fold_left (gstep k) h2 (ghost h1 k).
Proof. unfold ghost. rewrite fold_left_app. reflexivity. Qed.

Lemma inv_step s o : Inv s -> Inv (step s o).
Proof.
  intros I. destruct o; cbn [step].
  - apply inv_track; exact I.
  - apply inv_track; exact I.
  - apply inv_validate; exact I.
  - apply inv_validate_stale; exact I.
  - apply inv_mark_active; exact I.
  - apply (inv_advance s ns I).
  - apply inv_sweep_in; [exact I | apply collects_get_expired; exact I].
  - exact I.
  - exact I.
Qed.

Lemma view_step s o k : Inv s -> view (step s o) k = gstep k (view s k) o.
Proof.
  intros I. destruct o; cbn [step gstep starts].
  - rewrite (view_track s k k0 I). destruct (regkey_eqb k k0 && enabled (k_tr k)); [|reflexivity].
    destruct (view s k); reflexivity.
  - rewrite (view_track s k k0 I). destruct (regkey_eqb k k0 && enabled (k_tr k)); [|reflexivity].
    destruct (view s k); reflexivity.
  - rewrite view_validate, (view_track s k k0 I). destruct (regkey_eqb k k0 && enabled (k_tr k)); [|reflexivity].
    destruct (view s k); reflexivity.
  - rewrite view_validate_stale, (view_track s k k0 I). destruct (regkey_eqb k k0 && enabled (k_tr k)); [|reflexivity].
    destruct (view s k); reflexivity.
  - apply view_mark_active.
  - apply (view_advance s ns k I).
  - unfold sweep. rewrite (view_sweep_in s (get_expired s) k I (collects_get_expired s I)).
    destruct (view s k) as [[a u]|]; reflexivity.
  - reflexivity.
  - reflexivity.
Qed.

(* the refinement theorem: by induction over the history *)
Lemma refinement h : Inv (run h) /\ forall k, view (run h) k = ghost h k.
Proof.
  induction h as [|o h [I V]] using rev_ind.
  - split; [exact inv_init | intros k; unfold view; cbn; destruct (enabled (k_tr k)); reflexivity].
  - rewrite run_snoc. split; [apply inv_step; exact I|].
    intros k. rewrite ghost_snoc, <- V. apply view_step; exact I.
Qed.

Lemma run_inv h : Inv (run h).
Proof. apply refinement. Qed.

Lemma tracked_ghost h k : tracked (run h) k = is_some (ghost h k).
Proof. destruct (refinement h) as [I V]. rewrite (tracked_view _ k I), V. reflexivity. Qed.

(* ------------------------------------------------------------ sweep_exact *)
Lemma kept_spec a u : kept a u = true <-> (a <= ten_min \/ (u = true /\ a <= six_h)).
Proof. unfold kept. destruct u; cbn [andb]; lia. Qed.

Lemma sweep_exact_pre h k :
  tracked (run (h ++ [Sweep])) k = true <->
  exists a, age h k = Some a /\ (a <= ten_min \/ (used h k = true /\ a <= six_h)).
Proof.
  rewrite tracked_ghost, ghost_snoc. unfold age, used. cbn [gstep].
  destruct (ghost h k) as [[a u]|].
  - destruct (kept a u) eqn:E.
    + split; [intros _; exists a; split; [reflexivity | apply kept_spec; exact E] | reflexivity].
    + split; [discriminate|]. intros [a' [[= <-] H]]. apply kept_spec in H. congruence.
  - split; [discriminate | intros [a [H _]]; discriminate].
Qed.

Lemma sweep_exact h k :
  tracked (run (h ++ [Sweep])) k = true <->
  exists a, age (h ++ [Sweep]) k = Some a /\ (a <= ten_min \/ (used h k = true /\ a <= six_h)).
Proof.
  rewrite sweep_exact_pre. unfold age, used. rewrite ghost_snoc. cbn [gstep].
  destruct (ghost h k) as [[a u]|]; [|tauto].
  destruct (kept a u) eqn:E; [tauto|]. split.
  - intros [a' [[= <-] H]]. apply kept_spec in H. congruence.
  - intros [a' [H _]]. discriminate.
Qed.

(* which side the boundary instant falls on: the code expires on "since > limit", so a
   registration whose age is exactly the limit survives the sweep; one nanosecond more and it goes *)
Lemma boundary_instant h k :
  (age h k = Some ten_min -> tracked (run (h ++ [Sweep])) k = true) /\
  (age h k = Some six_h -> used h k = true -> tracked (run (h ++ [Sweep])) k = true) /\
  (forall a, age h k = Some a -> used h k = false -> ten_min < a -> tracked (run (h ++ [Sweep])) k = false) /\
  (forall a, age h k = Some a -> six_h < a -> tracked (run (h ++ [Sweep])) k = false).
Proof.
  repeat split.
  - intros A. apply sweep_exact_pre. exists ten_min. split; [exact A | left; lia].
  - intros A U. apply sweep_exact_pre. exists six_h. split; [exact A | right; split; [exact U | lia]].
  - intros a A U L. destruct (tracked (run (h ++ [Sweep])) k) eqn:E; [|reflexivity].
    apply sweep_exact_pre in E as [a' [A' [H|[H _]]]]; rewrite A in A'; inversion A'; subst; [lia | congruence].
  - intros a A L. destruct (tracked (run (h ++ [Sweep])) k) eqn:E; [|reflexivity].
    apply sweep_exact_pre in E as [a' [A' [H|[_ H]]]]; rewrite A in A'; inversion A'; subst;
      unfold ten_min, six_h in *; lia.
Qed.

(* ------------------------------------------------------------ matching *)
Lemma lookup_valid (i : inner) id : NoDup (keys i) ->
  existsb (ident_eqb id) (map fst (filter (fun iv => snd iv) i)) = true <-> aget ident_eqb id i = Some true.
Proof.
  intros ND. rewrite existsb_exists. split.
  - intros [x [H1 H2]]. apply ident_eqb_eq in H2; subst x.
    apply in_map_iff in H1 as [[id' v] [H1 H2]]. cbn in H1; subst id'.
    apply filter_In in H2 as [H2 H3]. cbn in H3; subst v.
    apply (in_nodup_aget ident_eqb ident_eqb_eq); assumption.
  - intros H. exists id. split; [|apply ident_eqb_eq; reflexivity].
    apply in_map_iff. exists (id, true). split; [reflexivity|]. apply filter_In. split; [|reflexivity].
    apply (aget_in ident_eqb ident_eqb_eq). exact H.
Qed.

Lemma matches_iff_valid s k : Inv s -> matches s k = valid s k.
Proof.
  intros I. apply Bool.eq_true_iff_eq. unfold matches, valid, registration_exists, lookup, get2.
  destruct (enabled (k_tr k)); cbn [andb]; [|tauto].
  destruct (aget N.eqb (k_ph k) (decoys s)) as [i|] eqn:E; [|cbn; tauto].
  rewrite (lookup_valid i (ident_of k)); [|apply (wf_inner _ _ _ (inv_wf s I) E)].
  destruct (aget ident_eqb (ident_of k) i) as [[|]|]; split; congruence.
Qed.

Lemma valid_tracked s k : valid s k = true -> tracked s k = true.
Proof. unfold valid, tracked. destruct (registration_exists s k); [reflexivity | discriminate]. Qed.

(* ------------------------------------------------------------ no residue *)
Lemma no_residue s k : Inv s -> tracked s k = false -> residue s k = false.
Proof.
  intros I T. unfold residue. rewrite (inv_bij s I). fold (tkey_of k). rewrite orb_diag.
  fold (has_timeout s k). rewrite (has_timeout_tracked s k I). exact T.
Qed.

Lemma no_empty_phantom s ph : Inv s -> count s ph = 0%nat -> aget N.eqb ph (decoys s) = None.
Proof.
  intros I. unfold count. destruct (aget N.eqb ph (decoys s)) as [i|] eqn:E; [|reflexivity].
  destruct (wf_inner _ _ _ (inv_wf s I) E) as [_ H]. destruct i; [contradiction | discriminate].
Qed.

Lemma ntracked_flat s : ntracked s = length (flat (decoys s)).
Proof. unfold ntracked. rewrite length_flat. reflexivity. Qed.

Lemma in_timeout_keys s key : In key (keys (timeouts s)) <-> is_some (aget tkey_eqb key (timeouts s)) = true.
Proof.
  split.
  - intros H. apply (in_keys_aget tkey_eqb tkey_eqb_eq) in H as [v ->]. reflexivity.
  - destruct (aget tkey_eqb key (timeouts s)) eqn:E; [|discriminate]. intros _.
    apply (aget_some_in_keys tkey_eqb tkey_eqb_eq) in E. exact E.
Qed.

Lemma counts_agree s : Inv s -> ntimeouts s = ntracked s.
Proof.
  intros I. rewrite ntracked_flat. unfold ntimeouts. rewrite <- (map_length fst (timeouts s)). fold (keys (timeouts s)).
  apply Nat.le_antisymm; apply NoDup_incl_length.
  - apply (inv_nodup s I).
  - intros [ph id] H. apply (in_flat _ _ _ (inv_wf s I)). rewrite (inv_bij s I). apply in_timeout_keys. exact H.
  - apply nodup_flat, (inv_wf s I).
  - intros [ph id] H. apply in_timeout_keys. rewrite <- (inv_bij s I). apply (in_flat _ _ _ (inv_wf s I)). exact H.
Qed.

Lemma nphantoms_le s : Inv s -> (nphantoms s <= ntracked s)%nat.
Proof.
  intros I. unfold nphantoms, ntracked. destruct (inv_wf s I) as [_ W].
  induction (decoys s) as [|[ph i] d IH]; cbn; [lia|].
  assert (H : i <> []) by (apply (W ph i); left; reflexivity).
  assert (IH' : (length d <= fold_right (fun pi n => (length (snd pi) + n)%nat) 0%nat d)%nat).
  { apply IH. intros ph' i' H'. apply (W ph'). right; exact H'. }
  destruct i; [contradiction|]. cbn. lia.
Qed.

(* ------------------------------------------------------------ history facts *)
Lemma elapsed_app h1 h2 : elapsed (h1 ++ h2) = elapsed h1 + elapsed h2.
Proof.
  unfold elapsed. induction h1 as [|o h1 IH]; [reflexivity|]. cbn [app fold_right].
  destruct o; rewrite ?IH; lia.
Qed.

(* a live registration was started by an operation of the history, its age is
   the time elapsed since then, and if it is used a connection came after *)
Lemma ghost_some_started h k : forall a u, ghost h k = Some (a, u) ->
  exists h1 o h2, h = h1 ++ o :: h2 /\ starts o k = true /\ ghost h1 k = None /\
                  a = elapsed h2 /\ (u = true -> In (MarkActive k) h2).
Proof.
  induction h as [|x h IH] using rev_ind; intros a u; [discriminate|].
  rewrite ghost_snoc.
  assert (EXT : forall a0 u0, ghost h k = Some (a0, u0) -> a = a0 + elapsed [x] ->
                (u = true -> u0 = true \/ x = MarkActive k) ->
                exists h1 o h2, h ++ [x] = h1 ++ o :: h2 /\ starts o k = true /\ ghost h1 k = None /\
                                a = elapsed h2 /\ (u = true -> In (MarkActive k) h2)).
  { intros a0 u0 G Ha Hu. destruct (IH a0 u0 G) as (h1 & o & h2 & -> & S & G1 & -> & M).
    exists h1, o, (h2 ++ [x]). split; [rewrite <- app_assoc; reflexivity|]. split; [exact S|]. split; [exact G1|].
    split; [rewrite elapsed_app; exact Ha|]. intros U. apply in_or_app. destruct (Hu U) as [->| ->]; [left; auto | right; left; reflexivity]. }
  assert (NEW : forall o, ghost h k = None -> starts o k = true -> a = 0 -> u = false ->
                exists h1 o' h2, h ++ [o] = h1 ++ o' :: h2 /\ starts o' k = true /\ ghost h1 k = None /\
                                a = elapsed h2 /\ (u = true -> In (MarkActive k) h2)).
  { intros o G S -> ->. exists h, o, []. repeat split; [exact S | exact G | discriminate]. }
  destruct x; cbn [gstep].
  - destruct (starts (Track k0) k) eqn:S; [destruct (ghost h k) as [[a0 u0]|] eqn:G|].
    + intros [= -> ->]. apply (EXT a u eq_refl); [cbn; lia | auto].
    + intros [= <- <-]. apply (NEW _ eq_refl S); reflexivity.
    + intros G. apply (EXT a u G); [cbn; lia | auto].
  - destruct (starts (TrackNX k0) k) eqn:S; [destruct (ghost h k) as [[a0 u0]|] eqn:G|].
    + intros [= -> ->]. apply (EXT a u eq_refl); [cbn; lia | auto].
    + intros [= <- <-]. apply (NEW _ eq_refl S); reflexivity.
    + intros G. apply (EXT a u G); [cbn; lia | auto].
  - destruct (starts (Validate k0) k) eqn:S; [destruct (ghost h k) as [[a0 u0]|] eqn:G|].
    + intros [= -> ->]. apply (EXT a u eq_refl); [cbn; lia | auto].
    + intros [= <- <-]. apply (NEW _ eq_refl S); reflexivity.
    + intros G. apply (EXT a u G); [cbn; lia | auto].
  - destruct (starts (ValidateStale k0) k) eqn:S; [destruct (ghost h k) as [[a0 u0]|] eqn:G|].
    + intros [= -> ->]. apply (EXT a u eq_refl); [cbn; lia | auto].
    + intros [= <- <-]. apply (NEW _ eq_refl S); reflexivity.
    + intros G. apply (EXT a u G); [cbn; lia | auto].
  - destruct (regkey_eqb k k0) eqn:E.
    + apply regkey_eqb_eq in E; subst k0. destruct (ghost h k) as [[a0 u0]|] eqn:G; [|discriminate].
      intros [= -> <-]. apply (EXT a u0 eq_refl); [cbn; lia | auto].
    + intros G. apply (EXT a u G); [cbn; lia | auto].
  - destruct (ghost h k) as [[a0 u0]|] eqn:G; [|discriminate].
    intros [= <- ->]. apply (EXT a0 u eq_refl); [cbn; lia | auto].
  - destruct (ghost h k) as [[a0 u0]|] eqn:G; [|discriminate].
    destruct (kept a0 u0); [|discriminate]. intros [= -> ->]. apply (EXT a u eq_refl); [cbn; lia | auto].
  - intros G. apply (EXT a u G); [cbn; lia | auto].
  - intros G. apply (EXT a u G); [cbn; lia | auto].
Qed.

Lemma never_late h k : tracked (run (h ++ [Sweep])) k = true ->
  exists h1 o h2, h = h1 ++ o :: h2 /\ starts o k = true /\ tracked (run h1) k = false /\
    (elapsed h2 <= ten_min \/ (In (MarkActive k) h2 /\ elapsed h2 <= six_h)).
Proof.
  rewrite tracked_ghost, ghost_snoc. cbn [gstep].
  destruct (ghost h k) as [[a u]|] eqn:G; [|discriminate].
  destruct (kept a u) eqn:E; [|discriminate]. intros _.
  destruct (ghost_some_started h k a u G) as (h1 & o & h2 & -> & S & G1 & -> & M).
  exists h1, o, h2. split; [reflexivity|]. split; [exact S|]. split; [rewrite tracked_ghost, G1; reflexivity|].
  apply kept_spec in E. destruct E as [E|[U E]]; [left; exact E | right; split; [apply M; exact U | exact E]].
Qed.

(* a live registration stays live while it is within 10 min (6 h if used) *)
Lemma ghost_stays h2 : forall h0 k a0 u0, ghost h0 k = Some (a0, u0) ->
  (a0 + elapsed h2 <= ten_min \/ (u0 = true /\ a0 + elapsed h2 <= six_h)) ->
  exists u, ghost (h0 ++ h2) k = Some (a0 + elapsed h2, u) /\ (u0 = true -> u = true).
Proof.
  induction h2 as [|x h2 IH] using rev_ind; intros h0 k a0 u0 G B.
  - exists u0. rewrite app_nil_r. cbn. rewrite N.add_0_r. auto.
  - rewrite elapsed_app in B. rewrite app_assoc, ghost_snoc, elapsed_app.
    destruct (IH h0 k a0 u0 G) as (u & -> & Hu); [destruct B as [B|[B1 B2]]; [left; lia | right; split; [exact B1 | lia]]|].
    destruct x; cbn [gstep elapsed fold_right].
    1-4: exists u; split; [destruct (starts _ k); rewrite N.add_0_r; reflexivity | exact Hu].
    + destruct (regkey_eqb k k0); [exists true | exists u]; rewrite N.add_0_r; auto.
    + exists u. split; [f_equal; f_equal; lia | exact Hu].
    + exists u. split; [|exact Hu]. rewrite N.add_0_r.
      assert (K : kept (a0 + elapsed h2) u = true).
      { apply kept_spec. change (elapsed [Sweep]) with 0 in B. destruct B as [B|[B1 B2]]; [left; lia | right; split; [apply Hu; exact B1 | lia]]. }
      rewrite K. reflexivity.
    + exists u. rewrite N.add_0_r. auto.
    + exists u. rewrite N.add_0_r. auto.
Qed.

Lemma never_early h1 o h2 k :
  tracked (run h1) k = false -> starts o k = true -> elapsed h2 <= ten_min ->
  tracked (run (h1 ++ o :: h2)) k = true.
Proof.
  rewrite !tracked_ghost. intros G S B.
  assert (G1 : ghost (h1 ++ [o]) k = Some (0, false)).
  { rewrite ghost_snoc. destruct (ghost h1 k); [discriminate|]. destruct o; cbn [gstep]; try discriminate; rewrite S; reflexivity. }
  change (h1 ++ o :: h2) with (h1 ++ [o] ++ h2). rewrite app_assoc.
  destruct (ghost_stays h2 (h1 ++ [o]) k 0 false G1) as (u & -> & _); [left; lia | reflexivity].
Qed.

Lemma never_early_used h1 o h2 h3 k :
  tracked (run h1) k = false -> starts o k = true -> elapsed h2 <= ten_min ->
  elapsed h2 + elapsed h3 <= six_h ->
  tracked (run (h1 ++ o :: h2 ++ MarkActive k :: h3)) k = true.
Proof.
  rewrite !tracked_ghost. intros G S B1 B2.
  assert (G1 : ghost (h1 ++ [o]) k = Some (0, false)).
  { rewrite ghost_snoc. destruct (ghost h1 k); [discriminate|]. destruct o; cbn [gstep]; try discriminate; rewrite S; reflexivity. }
  destruct (ghost_stays h2 (h1 ++ [o]) k 0 false G1) as (u & G2 & _); [left; lia|].
  assert (G3 : ghost ((h1 ++ [o]) ++ h2 ++ [MarkActive k]) k = Some (elapsed h2, true)).
  { rewrite app_assoc, ghost_snoc, G2. cbn [gstep]. rewrite regkey_eqb_refl. reflexivity. }
  destruct (ghost_stays h3 _ k _ true G3) as (u' & G4 & _); [right; split; [reflexivity | lia]|].
  replace (h1 ++ o :: h2 ++ MarkActive k :: h3) with (((h1 ++ [o]) ++ h2 ++ [MarkActive k]) ++ h3).
  - rewrite G4. reflexivity.
  - rewrite <- !app_assoc. cbn. reflexivity.
Qed.

(* ------------------------------------------------------------ Go's map order *)
Lemma sweep_order_irrelevant s order k : Inv s -> collects s order ->
  registration_exists (sweep_in order s) k = registration_exists (sweep s) k /\
  has_timeout (sweep_in order s) k = has_timeout (sweep s) k /\
  panicked (sweep_in order s) = false.
Proof.
  intros I C. destruct (sweep_in_spec s order I C) as (I1 & _ & T1 & D1).
  destruct (sweep_in_spec s (get_expired s) I (collects_get_expired s I)) as (_ & _ & T2 & D2).
  unfold sweep, registration_exists, has_timeout. rewrite T1, T2, D1, D2.
  repeat split. apply (inv_nopanic _ I1).
Qed.

(* ------------------------------------------------------------ the statements over run h *)
Lemma expired_not_matched_run h k : tracked (run h) k = false -> matches (run h) k = false.
Proof. exact (expired_not_matched_state (run h) k). Qed.

Lemma matches_iff_valid_run h k :
  matches (run h) k = valid (run h) k /\ (valid (run h) k = true -> tracked (run h) k = true).
Proof. split; [exact (matches_iff_valid (run h) k (run_inv h)) | exact (valid_tracked (run h) k)]. Qed.

Lemma forgotten_entirely_run h k : tracked (run h) k = false -> residue (run h) k = false.
Proof. exact (no_residue (run h) k (run_inv h)). Qed.

Lemma no_residue_counts_run h :
  ntimeouts (run h) = ntracked (run h) /\ (nphantoms (run h) <= ntracked (run h))%nat /\
  forall ph, count (run h) ph = 0%nat -> aget N.eqb ph (decoys (run h)) = None.
Proof.
  split; [exact (counts_agree (run h) (run_inv h))|].
  split; [exact (nphantoms_le (run h) (run_inv h)) | intros ph; exact (no_empty_phantom (run h) ph (run_inv h))].
Qed.

Lemma no_panic_run h : panicked (run h) = false.
Proof. exact (inv_nopanic (run h) (run_inv h)). Qed.

Lemma sweep_order_irrelevant_run h order k : collects (run h) order ->
  registration_exists (sweep_in order (run h)) k = registration_exists (sweep (run h)) k /\
  has_timeout (sweep_in order (run h)) k = has_timeout (sweep (run h)) k /\
  panicked (sweep_in order (run h)) = false.
Proof. exact (sweep_order_irrelevant (run h) order k (run_inv h)). Qed.
