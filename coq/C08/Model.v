(* C08 model: the RegisteredDecoys table of pkg/station/lib/registration.go as a
   sequential state machine, and - independently of it - the per-registration
   ghost semantics of a history ("how old is this registration, has it carried
   a connection").  Definitions only; everything is executable. *)
From CJ Require Export Common.Base.

(* ------------------------------------------------------------------ keys *)

(* Transports known to the station.  [Other] stands for any transport type
   that has not been added with AddTransport (r.transports[d.Transport] fails). *)
Inductive tr := Min | Obfs4 | Prefix | Dtls | Other.

Definition enabled (t : tr) : bool := match t with Other => false | _ => true end.

Definition tr_eqb (a b : tr) : bool :=
  match a, b with
  | Min, Min | Obfs4, Obfs4 | Prefix, Prefix | Dtls, Dtls | Other, Other => true
  | _, _ => false
  end.

(* A registration as the outside world names it: shared secret, transport and
   phantom address (the phantom is an arbitrary index here: one secret may be
   registered on several phantoms, e.g. its IPv4 and its IPv6 one, and several
   secrets may share a phantom). *)
Record regkey := { k_secret : N; k_tr : tr; k_ph : N }.

(* Transport.GetIdentifier: an HMAC of the shared secret under a per-transport
   label (obfs4: keys derived from the secret).  Modelled as the injective pair
   (transport, secret); injectivity on the generated alphabet is re-checked by
   the driver on every run. *)
Definition ident := (tr * N)%type.
Definition ident_of (k : regkey) : ident := (k_tr k, k_secret k).
Definition ident_eqb (a b : ident) : bool := tr_eqb (fst a) (fst b) && (snd a =? snd b).

(* timeoutKey(phantomAddr, identifier): the index of decoysTimeouts.  The
   separator cannot occur in an address, so the string is the pair. *)
Definition tkey := (N * ident)%type.
Definition tkey_of (k : regkey) : tkey := (k_ph k, ident_of k).
Definition tkey_eqb (a b : tkey) : bool := (fst a =? fst b) && ident_eqb (snd a) (snd b).

Definition regkey_eqb (a b : regkey) : bool := tkey_eqb (tkey_of a) (tkey_of b).

(* ------------------------------------------------------------ Go maps *)
(* A Go map as an association list.  [aput] and [adel] are total and keep the
   list duplicate-free (delete = drop every binding of the key). *)
Section AMap.
  Context {K V : Type} (eqb : K -> K -> bool).

  Fixpoint aget (k : K) (m : list (K * V)) : option V :=
    match m with
    | [] => None
    | (k', v) :: r => if eqb k k' then Some v else aget k r
    end.

  Fixpoint adel (k : K) (m : list (K * V)) : list (K * V) :=
    match m with
    | [] => []
    | (k', v) :: r => if eqb k k' then adel k r else (k', v) :: adel k r
    end.

  Definition aput (k : K) (v : V) (m : list (K * V)) : list (K * V) := (k, v) :: adel k m.
End AMap.

Definition is_some {A} (o : option A) : bool := match o with Some _ => true | None => false end.

(* ------------------------------------------------------------ the table *)

(* DecoyTimeout: decoy, identifier, registrationTime, status *)
Record trec := { t_ph : N; t_id : ident; t_born : N; t_used : bool }.

(* decoys : map[phantom] map[identifier] *DecoyRegistration; of the
   registration object only the Valid flag matters here. *)
Definition inner := list (ident * bool).
Definition dmap := list (N * inner).

Record st := {
  decoys : dmap;
  timeouts : list (tkey * trec);       (* decoysTimeouts *)
  now : N;                             (* the clock, nanoseconds *)
  panicked : bool                      (* a nil dereference happened *)
}.

Definition init : st := {| decoys := []; timeouts := []; now := 0; panicked := false |}.

Definition timeout_unused : N := 600 * 1000000000.       (* defaultUnusedTimeout = 10 min *)
Definition timeout_active : N := 21600 * 1000000000.     (* defaultActiveTimeout =  6 h   *)

Definition get2 (d : dmap) (ph : N) (id : ident) : option bool :=
  match aget N.eqb ph d with
  | Some i => aget ident_eqb id i
  | None => None
  end.

(* r.decoys[ph], the nil map when missing *)
Definition inner_of (d : dmap) (ph : N) : inner :=
  match aget N.eqb ph d with Some i => i | None => [] end.

(* r.decoys[ph][id] = v, creating the inner map when missing *)
Definition put2 (d : dmap) (ph : N) (id : ident) (v : bool) : dmap :=
  aput N.eqb ph (aput ident_eqb id v (inner_of d ph)) d.

(* delete(r.decoys[ph], id); if len(r.decoys[ph]) == 0 { delete(r.decoys, ph) } *)
Definition del2 (d : dmap) (ph : N) (id : ident) : dmap :=
  match adel ident_eqb id (inner_of d ph) with
  | [] => adel N.eqb ph d
  | i' => aput N.eqb ph i' d
  end.

(* registrationExists *)
Definition registration_exists (s : st) (k : regkey) : option bool :=
  if enabled (k_tr k) then get2 (decoys s) (k_ph k) (ident_of k) else None.

Definition set_decoys (s : st) (d : dmap) : st :=
  {| decoys := d; timeouts := timeouts s; now := now s; panicked := panicked s |}.
Definition set_timeouts (s : st) (t : list (tkey * trec)) : st :=
  {| decoys := decoys s; timeouts := t; now := now s; panicked := panicked s |}.

(* track: (new state, error) *)
Definition track (s : st) (k : regkey) : st * bool :=
  match registration_exists s k with
  | Some _ => (s, false)                          (* duplicate: regCount++ only *)
  | None =>
      if enabled (k_tr k) then
        let ph := k_ph k in let id := ident_of k in
        ({| decoys := put2 (decoys s) ph id false;
            timeouts := aput tkey_eqb (tkey_of k)
                          {| t_ph := ph; t_id := id; t_born := now s; t_used := false |} (timeouts s);
            now := now s; panicked := panicked s |}, false)
      else (s, true)                              (* unknown transport *)
  end.

(* register (AddRegistration): track if unknown, then mark valid *)
Definition validate (s : st) (k : regkey) : st :=
  let s1 := match registration_exists s k with Some _ => s | None => fst (track s k) end in
  match registration_exists s1 k with
  | None => s1                                    (* error returned, logged *)
  | Some _ => set_decoys s1 (put2 (decoys s1) (k_ph k) (ident_of k) true)
  end.

(* register called with an object that is NOT the tracked one (its own entry was swept while it was
   still being ingested, or it is a duplicate): "if reg != d { return nil }" - only an untracked
   registration is tracked and marked valid *)
Definition validate_stale (s : st) (k : regkey) : st :=
  match registration_exists s k with Some _ => s | None => validate s k end.

(* markActive *)
Definition mark_active (s : st) (k : regkey) : st :=
  if enabled (k_tr k) then
    match aget tkey_eqb (tkey_of k) (timeouts s) with
    | Some t => set_timeouts s (aput tkey_eqb (tkey_of k)
                  {| t_ph := t_ph t; t_id := t_id t; t_born := t_born t; t_used := true |} (timeouts s))
    | None => s
    end
  else s.

(* the two-armed test of getExpiredRegistrations; [since] is time.Since(registrationTime) *)
Definition rec_expired (nw : N) (t : trec) : bool :=
  let since := nw - t_born t in
  if negb (t_used t) && (timeout_unused <? since) then true
  else timeout_active <? since.

Definition get_expired (s : st) : list tkey :=
  map fst (filter (fun kt => rec_expired (now s) (snd kt)) (timeouts s)).

(* removeRegistration(index) *)
Definition remove_registration (s : st) (idx : tkey) : st :=
  match aget tkey_eqb idx (timeouts s) with
  | None => {| decoys := decoys s; timeouts := timeouts s; now := now s; panicked := true |}
  | Some t =>
      match get2 (decoys s) (t_ph t) (t_id t) with
      | None => s                                 (* "return nil": nothing is deleted *)
      | Some _ => {| decoys := del2 (decoys s) (t_ph t) (t_id t);
                     timeouts := adel tkey_eqb idx (timeouts s);
                     now := now s; panicked := panicked s |}
      end
  end.

(* removeOldRegistrations: collect, then remove one by one (in the order the
   indices were collected; Go's map order is arbitrary - see sweep_in). *)
Definition sweep_in (order : list tkey) (s : st) : st := fold_left remove_registration order s.
Definition sweep (s : st) : st := sweep_in (get_expired s) s.

(* getRegistrations(phantom): identifiers of the valid registrations *)
Definition lookup (s : st) (ph : N) : list ident :=
  match aget N.eqb ph (decoys s) with
  | Some i => map fst (filter (fun iv => snd iv) i)
  | None => []
  end.

(* countRegistrations(phantom), totalRegistrations, len(decoysTimeouts), len(decoys) *)
Definition count (s : st) (ph : N) : nat :=
  match aget N.eqb ph (decoys s) with Some i => length i | None => 0%nat end.
Definition ntracked (s : st) : nat := fold_right (fun pi n => (length (snd pi) + n)%nat) 0%nat (decoys s).
Definition ntimeouts (s : st) : nat := length (timeouts s).
Definition nphantoms (s : st) : nat := length (decoys s).

(* ------------------------------------------------------------ operations *)
Inductive rop :=
| Track (k : regkey)          (* RegistrationManager.TrackRegistration *)
| TrackNX (k : regkey)        (* TrackRegIfNotExists *)
| Validate (k : regkey)       (* AddRegistration with the object that is tracked (or none is) *)
| ValidateStale (k : regkey)  (* AddRegistration with another object than the tracked one *)
| MarkActive (k : regkey)     (* MarkActive: a connection matched this registration *)
| Advance (ns : N)            (* time passes *)
| Sweep                       (* RemoveOldRegistrations *)
| Lookup (ph : N)             (* GetRegistrations *)
| Count (ph : N).             (* CountRegistrations *)

Definition step (s : st) (o : rop) : st :=
  match o with
  | Track k | TrackNX k => fst (track s k)
  | Validate k => validate s k
  | ValidateStale k => validate_stale s k
  | MarkActive k => mark_active s k
  | Advance d => {| decoys := decoys s; timeouts := timeouts s; now := now s + d; panicked := panicked s |}
  | Sweep => sweep s
  | Lookup _ | Count _ => s
  end.

Definition run (h : list rop) : st := fold_left step h init.

(* what the operation returns: (error, number) *)
Definition output (s : st) (o : rop) : bool * N :=
  match o with
  | Track k => (snd (track s k), 0)
  | TrackNX k => (snd (track s k), if is_some (registration_exists s k) then 1 else 0)
  | Lookup ph => (false, N.of_nat (length (lookup s ph)))
  | Count ph => (false, N.of_nat (count s ph))
  | _ => (false, 0)
  end.

(* observations the theorems speak about *)
Definition tracked (s : st) (k : regkey) : bool := is_some (registration_exists s k).
Definition valid (s : st) (k : regkey) : bool :=
  match registration_exists s k with Some v => v | None => false end.
(* a lookup on k's phantom returns k's identifier *)
Definition matches (s : st) (k : regkey) : bool :=
  enabled (k_tr k) && existsb (ident_eqb (ident_of k)) (lookup s (k_ph k)).
Definition has_timeout (s : st) (k : regkey) : bool := is_some (aget tkey_eqb (tkey_of k) (timeouts s)).

(* any trace of k in either map, whether or not its transport is enabled *)
Definition residue (s : st) (k : regkey) : bool :=
  is_some (get2 (decoys s) (k_ph k) (ident_of k)) || is_some (aget tkey_eqb (tkey_of k) (timeouts s)).

(* Go collects the expired indices by ranging over a map: any order, no duplicates *)
Definition collects (s : st) (order : list tkey) : Prop :=
  NoDup order /\ forall key, In key order <-> In key (get_expired s).

(* the registration a timeout index denotes *)
Definition key_regkey (key : tkey) : regkey :=
  {| k_secret := snd (snd key); k_tr := fst (snd key); k_ph := fst key |}.

(* ---------------------------------------------------- ghost semantics *)
(* The life of ONE registration as a function of the history alone: None =
   not tracked, Some (age, used).  It never mentions the table. *)
Definition ten_min : N := 600 * 1000000000.
Definition six_h : N := 21600 * 1000000000.

Definition life := option (N * bool).

(* the property's rule: kept iff age <= 10 min, or used and age <= 6 h *)
Definition kept (a : N) (u : bool) : bool := (a <=? ten_min) || (u && (a <=? six_h)).

Definition starts (o : rop) (k : regkey) : bool :=
  match o with
  | Track k' | TrackNX k' | Validate k' | ValidateStale k' => regkey_eqb k k' && enabled (k_tr k)
  | _ => false
  end.

Definition gstep (k : regkey) (l : life) (o : rop) : life :=
  match o with
  | Track _ | TrackNX _ | Validate _ | ValidateStale _ =>
      if starts o k then match l with None => Some (0, false) | Some _ => l end else l
  | MarkActive k' =>
      if regkey_eqb k k' then match l with Some (a, _) => Some (a, true) | None => None end else l
  | Advance d => match l with Some (a, u) => Some (a + d, u) | None => None end
  | Sweep => match l with Some (a, u) => if kept a u then l else None | None => None end
  | Lookup _ | Count _ => l
  end.

Definition ghost (h : list rop) (k : regkey) : life := fold_left (gstep k) h None.
Definition age (h : list rop) (k : regkey) : option N :=
  match ghost h k with Some (a, _) => Some a | None => None end.
Definition used (h : list rop) (k : regkey) : bool :=
  match ghost h k with Some (_, u) => u | None => false end.

(* time that passes during a history *)
Definition elapsed (h : list rop) : N :=
  fold_right (fun o n => match o with Advance d => d + n | _ => n end) 0 h.

(* the operations of [h] that can begin a registration's life and are followed
   by at most [lim] ns: walk the history backwards, accumulating time *)
Fixpoint starts_within_rev (lim : N) (el : N) (rh : list rop) : list tkey :=
  match rh with
  | [] => []
  | Advance d :: r => starts_within_rev lim (el + d) r
  | (Track k | TrackNX k | Validate k | ValidateStale k) :: r =>
      if enabled (k_tr k) && (el <=? lim) then tkey_of k :: starts_within_rev lim el r
      else starts_within_rev lim el r
  | _ :: r => starts_within_rev lim el r
  end.
Definition starts_within (lim : N) (h : list rop) : list tkey := starts_within_rev lim 0 (rev h).

Definition is_start (o : rop) : bool :=
  match o with Track _ | TrackNX _ | Validate _ | ValidateStale _ => true | _ => false end.

(* ------------------------------------------------ further observables *)
(* What an operation makes the table do besides changing the two maps. *)
Inductive event :=
| EvNew (k : regkey)               (* registerForDetector(reg): announced to the detector *)
| EvUpdate (k : regkey)            (* updateInDetector(reg): lifetime extended in the detector *)
| EvExpired (total nvalid : N).    (* removeOldRegistrations' results (AddExpiredRegs / Stat().ExpireReg) *)

Definition valid_at (s : st) (key : tkey) : bool :=
  match get2 (decoys s) (fst key) (snd key) with Some true => true | _ => false end.

Definition emits (s : st) (o : rop) : list event :=
  match o with
  | Validate k => if enabled (k_tr k) && negb (valid s k) then [EvNew k] else []
  | ValidateStale k => if enabled (k_tr k) && negb (tracked s k) then [EvNew k] else []
  | MarkActive k => if enabled (k_tr k) && has_timeout s k then [EvUpdate k] else []
  | Sweep => [EvExpired (N.of_nat (length (get_expired s)))
                        (N.of_nat (length (filter (valid_at s) (get_expired s))))]
  | _ => []
  end.

(* DecoyRegistration.regCount, kept beside the table: 1 when a registration is newly tracked,
   +1 for every duplicate seen by track()/TrackIfNotExists, gone with the registration. *)
Record xst := { x_base : st; x_count : list (tkey * N) }.
Definition xinit : xst := {| x_base := init; x_count := [] |}.

Definition bump (k : regkey) (s : st) (c : list (tkey * N)) : list (tkey * N) :=
  if enabled (k_tr k) then
    if tracked s k then
      aput tkey_eqb (tkey_of k) (match aget tkey_eqb (tkey_of k) c with Some n => n + 1 | None => 1 end) c
    else aput tkey_eqb (tkey_of k) 1 c
  else c.

Definition first_only (k : regkey) (s : st) (c : list (tkey * N)) : list (tkey * N) :=
  if enabled (k_tr k) && negb (tracked s k) then aput tkey_eqb (tkey_of k) 1 c else c.

Definition xstep (x : xst) (o : rop) : xst :=
  let s := x_base x in
  let s' := step s o in
  {| x_base := s';
     x_count := match o with
                | Track k | TrackNX k => bump k s (x_count x)
                | Validate k | ValidateStale k => first_only k s (x_count x)
                | Sweep => filter (fun kc => is_some (aget tkey_eqb (fst kc) (timeouts s'))) (x_count x)
                | _ => x_count x
                end |}.

Definition xrun (h : list rop) : xst := fold_left xstep h xinit.

Definition regcount (x : xst) (k : regkey) : N :=
  if tracked (x_base x) k then
    match aget tkey_eqb (tkey_of k) (x_count x) with Some n => n | None => 0 end
  else 0.

(* ghost counterparts, functions of the history alone *)
Definition gcstep (k : regkey) (lc : life * N) (o : rop) : life * N :=
  let l' := gstep k (fst lc) o in
  (l', match l' with
       | None => 0
       | Some _ =>
           match fst lc with
           | None => 1
           | Some _ => match o with
                       | Track k' | TrackNX k' => if regkey_eqb k k' then snd lc + 1 else snd lc
                       | _ => snd lc
                       end
           end
       end).
Definition gcount (h : list rop) (k : regkey) : N := snd (fold_left (gcstep k) h (None, 0)).

(* validated during the current life *)
Definition gvstep (k : regkey) (lv : life * bool) (o : rop) : life * bool :=
  let l' := gstep k (fst lv) o in
  (l', match l' with
       | None => false
       | Some _ =>
           match o with
           | Validate k' => if regkey_eqb k k' then true else match fst lv with Some _ => snd lv | None => false end
           | ValidateStale k' => match fst lv with Some _ => snd lv | None => regkey_eqb k k' end
           | _ => match fst lv with Some _ => snd lv | None => false end
           end
       end).
Definition gvalid (h : list rop) (k : regkey) : bool := snd (fold_left (gvstep k) h (None, false)).

(* the events the specification expects from operation o after history h *)
Definition gemits (h : list rop) (o : rop) : list event :=
  match o with
  | Validate k => if enabled (k_tr k) && negb (gvalid h k) then [EvNew k] else []
  | ValidateStale k => if enabled (k_tr k) && negb (is_some (ghost h k)) then [EvNew k] else []
  | MarkActive k => if is_some (ghost h k) then [EvUpdate k] else []
  | _ => []
  end.
