(* C08 lemmas, part 1: keys, association maps, the two-level decoys map. *)
From CJ Require Import Common.Base C08.Model.
From Coq Require Import Lia ZifyN ZifyNat ZifyBool.

(* ------------------------------------------------------------ key equality *)
Lemma tr_eqb_eq a b : tr_eqb a b = true <-> a = b.
Proof. destruct a, b; cbn; split; congruence. Qed.

Lemma ident_eqb_eq a b : ident_eqb a b = true <-> a = b.
Proof.
  destruct a as [t s], b as [t' s']; unfold ident_eqb; cbn.
  rewrite andb_true_iff, tr_eqb_eq, N.eqb_eq. split; [intros [-> ->]; reflexivity | intros [= -> ->]; auto].
Qed.

Lemma tkey_eqb_eq a b : tkey_eqb a b = true <-> a = b.
Proof.
  destruct a as [p i], b as [p' i']; unfold tkey_eqb; cbn.
  rewrite andb_true_iff, ident_eqb_eq, N.eqb_eq. split; [intros [-> ->]; reflexivity | intros [= -> ->]; auto].
Qed.

Lemma regkey_eqb_eq a b : regkey_eqb a b = true <-> a = b.
Proof.
  unfold regkey_eqb. rewrite tkey_eqb_eq. destruct a, b; unfold tkey_of, ident_of; cbn.
  split; [intros [= -> -> ->]; reflexivity | intros [= -> -> ->]; reflexivity].
Qed.

Lemma tkey_of_inj a b : tkey_of a = tkey_of b -> a = b.
Proof. intros H. apply regkey_eqb_eq. unfold regkey_eqb. apply tkey_eqb_eq, H. Qed.

(* ------------------------------------------------------------ association maps *)
Section AMapFacts.
  Context {K V : Type} (eqb : K -> K -> bool).
  Hypothesis eqb_eq : forall a b, eqb a b = true <-> a = b.

  Lemma eqb_refl k : eqb k k = true.
  Proof. apply eqb_eq; reflexivity. Qed.

  Lemma eqb_neq a b : a <> b -> eqb a b = false.
  Proof. intros H. destruct (eqb a b) eqn:E; [apply eqb_eq in E; contradiction | reflexivity]. Qed.

  Definition keys (m : list (K * V)) : list K := map fst m.

  Lemma aget_in k (m : list (K * V)) v : aget eqb k m = Some v -> In (k, v) m.
  Proof.
    induction m as [|[k' v'] m IH]; cbn; [discriminate|].
    destruct (eqb k k') eqn:E.
    - apply eqb_eq in E; subst. intros [= ->]. left; reflexivity.
    - intros H; right; auto.
  Qed.

  Lemma aget_none_iff k (m : list (K * V)) : aget eqb k m = None <-> ~ In k (keys m).
  Proof.
    induction m as [|[k' v'] m IH]; cbn; [tauto|].
    destruct (eqb k k') eqn:E.
    - apply eqb_eq in E; subst. split; [discriminate | intros H; exfalso; apply H; left; reflexivity].
    - rewrite IH. split.
      + intros H [H1 | H1]; [subst; rewrite eqb_refl in E; discriminate | auto].
      + intros H H1. apply H. right; exact H1.
  Qed.

  Lemma aget_some_in_keys k (m : list (K * V)) v : aget eqb k m = Some v -> In k (keys m).
  Proof. intros H. apply aget_in in H. apply (in_map fst) in H. exact H. Qed.

  Lemma in_keys_aget k (m : list (K * V)) : In k (keys m) -> exists v, aget eqb k m = Some v.
  Proof.
    intros H. destruct (aget eqb k m) eqn:E; [eauto|]. apply aget_none_iff in E. contradiction.
  Qed.

  Lemma aget_adel_same k (m : list (K * V)) : aget eqb k (adel eqb k m) = None.
  Proof.
    induction m as [|[k' v'] m IH]; cbn; [reflexivity|].
    destruct (eqb k k') eqn:E; [exact IH | cbn; rewrite E; exact IH].
  Qed.

  Lemma aget_adel_other k k' (m : list (K * V)) : k <> k' -> aget eqb k' (adel eqb k m) = aget eqb k' m.
  Proof.
    intros N. induction m as [|[k2 v2] m IH]; cbn; [reflexivity|].
    destruct (eqb k k2) eqn:E.
    - apply eqb_eq in E; subst k2. rewrite (eqb_neq k' k) by congruence. exact IH.
    - cbn. destruct (eqb k' k2); [reflexivity | exact IH].
  Qed.

  Lemma aget_aput_same k v (m : list (K * V)) : aget eqb k (aput eqb k v m) = Some v.
  Proof. unfold aput; cbn. rewrite eqb_refl. reflexivity. Qed.

  Lemma aget_aput_other k k' v (m : list (K * V)) : k <> k' -> aget eqb k' (aput eqb k v m) = aget eqb k' m.
  Proof.
    intros N. unfold aput; cbn. rewrite (eqb_neq k' k) by congruence. apply aget_adel_other; exact N.
  Qed.

  Lemma adel_absent k (m : list (K * V)) : aget eqb k m = None -> adel eqb k m = m.
  Proof.
    induction m as [|[k' v'] m IH]; cbn; [reflexivity|].
    destruct (eqb k k'); [discriminate | intros H; rewrite IH; auto].
  Qed.

  Lemma in_keys_adel k k' (m : list (K * V)) : In k' (keys (adel eqb k m)) <-> k' <> k /\ In k' (keys m).
  Proof.
    induction m as [|[k2 v2] m IH]; cbn; [tauto|].
    destruct (eqb k k2) eqn:E.
    - apply eqb_eq in E; subst k2. rewrite IH. split; [tauto|]. intros [H1 [H2|H2]]; [congruence | tauto].
    - cbn. rewrite IH. split.
      + intros [H|[H1 H2]]; [subst; split; [intros ->; rewrite eqb_refl in E; discriminate | auto] | tauto].
      + tauto.
  Qed.

  Lemma nodup_adel k (m : list (K * V)) : NoDup (keys m) -> NoDup (keys (adel eqb k m)).
  Proof.
    induction m as [|[k' v'] m IH]; cbn; [auto|].
    intros H; inversion H; subst.
    destruct (eqb k k'); [auto|]. cbn. constructor; [|auto].
    intros H1. apply in_keys_adel in H1. tauto.
  Qed.

  Lemma nodup_aput k v (m : list (K * V)) : NoDup (keys m) -> NoDup (keys (aput eqb k v m)).
  Proof.
    intros H. unfold aput; cbn. constructor; [|apply nodup_adel; exact H].
    intros H1. apply in_keys_adel in H1. tauto.
  Qed.

  Lemma in_keys_aput k k' v (m : list (K * V)) : In k' (keys (aput eqb k v m)) <-> k' = k \/ In k' (keys m).
  Proof.
    unfold aput; cbn. rewrite in_keys_adel. split.
    - intros [H|[H1 H2]]; auto.
    - intros [H|H]; [left; congruence|]. destruct (eqb k k') eqn:E; [apply eqb_eq in E; auto | right; split; [intros ->; rewrite eqb_refl in E; discriminate | auto]].
  Qed.

  Lemma length_adel_present k (m : list (K * V)) :
    NoDup (keys m) -> In k (keys m) -> S (length (adel eqb k m)) = length m.
  Proof.
    induction m as [|[k' v'] m IH]; cbn; [tauto|].
    intros H; inversion H; subst. intros [H1|H1].
    - subst k'. rewrite eqb_refl. rewrite adel_absent; [reflexivity | apply aget_none_iff; auto].
    - destruct (eqb k k') eqn:E; [apply eqb_eq in E; subst; contradiction|]. cbn. rewrite IH; auto.
  Qed.
End AMapFacts.

(* ------------------------------------------------------------ lookups see only tracked entries *)
Lemma existsb_lookup_in_keys id (i : inner) :
  existsb (ident_eqb id) (map fst (filter (fun iv => snd iv) i)) = true -> In id (keys i).
Proof.
  intros H. apply existsb_exists in H as [x [H1 H2]]. apply ident_eqb_eq in H2; subst x.
  apply in_map_iff in H1 as [[id' v] [H1 H2]]. cbn in H1; subst id'.
  apply filter_In in H2 as [H2 _]. apply (in_map fst) in H2. exact H2.
Qed.

Lemma matches_tracked s k : matches s k = true -> tracked s k = true.
Proof.
  unfold matches, tracked, registration_exists, lookup, get2.
  destruct (enabled (k_tr k)); cbn; [|discriminate].
  destruct (aget N.eqb (k_ph k) (decoys s)) as [i|]; cbn; [|discriminate].
  intros H. apply existsb_lookup_in_keys in H.
  apply (in_keys_aget ident_eqb ident_eqb_eq) in H as [v ->]. reflexivity.
Qed.

Lemma expired_not_matched_state s k : tracked s k = false -> matches s k = false.
Proof.
  intros H. destruct (matches s k) eqn:E; [|reflexivity]. apply matches_tracked in E. congruence.
Qed.

(* ------------------------------------------------------------ more map facts *)
Section AMapFacts2.
  Context {K V : Type} (eqb : K -> K -> bool).
  Hypothesis eqb_eq : forall a b, eqb a b = true <-> a = b.

  Lemma in_adel (p : K * V) k m : In p (adel eqb k m) -> In p m.
  Proof.
    induction m as [|[k' v'] m IH]; cbn; [tauto|].
    destruct (eqb k k'); cbn; [auto | intros [H|H]; auto].
  Qed.

  Lemma in_nodup_aget k v (m : list (K * V)) : NoDup (keys m) -> In (k, v) m -> aget eqb k m = Some v.
  Proof.
    induction m as [|[k' v'] m IH]; cbn; [tauto|].
    intros H; inversion H; subst. intros [H1|H1].
    - inversion H1; subst. rewrite (eqb_refl eqb eqb_eq). reflexivity.
    - destruct (eqb k k') eqn:E; [|auto].
      apply eqb_eq in E; subst k'. exfalso. apply H2. apply (in_map fst) in H1. exact H1.
  Qed.

  Lemma nodup_keys_filter (f : K * V -> bool) (m : list (K * V)) :
    NoDup (keys m) -> NoDup (keys (filter f m)).
  Proof.
    induction m as [|[k v] m IH]; cbn; [auto|].
    intros H; inversion H; subst. destruct (f (k, v)); cbn; [|auto].
    constructor; [|auto]. intros H1. apply H2.
    unfold keys in *. apply in_map_iff in H1 as [p [H1 H4]]. apply filter_In in H4 as [H4 _].
    apply in_map_iff. exists p. auto.
  Qed.
End AMapFacts2.

Lemma nodup_app {A} (l1 l2 : list A) :
  NoDup l1 -> NoDup l2 -> (forall x, In x l1 -> ~ In x l2) -> NoDup (l1 ++ l2).
Proof.
  induction l1 as [|a l1 IH]; cbn; [auto|].
  intros H1 H2 H3. inversion H1; subst. constructor.
  - rewrite in_app_iff. intros [H|H]; [contradiction | apply (H3 a); auto].
  - apply IH; auto.
Qed.

(* ------------------------------------------------------------ the two-level map *)
Definition wf_d (d : dmap) : Prop :=
  NoDup (keys d) /\ forall ph i, In (ph, i) d -> NoDup (keys i) /\ i <> [].

Local Notation Neqb_eq := N.eqb_eq.

Lemma get2_put2_same d ph id v : get2 (put2 d ph id v) ph id = Some v.
Proof.
  unfold get2, put2. rewrite (aget_aput_same N.eqb Neqb_eq).
  apply (aget_aput_same ident_eqb ident_eqb_eq).
Qed.

Lemma get2_put2_other d ph id v ph' id' :
  (ph', id') <> (ph, id) -> get2 (put2 d ph id v) ph' id' = get2 d ph' id'.
Proof.
  intros N. unfold get2, put2.
  destruct (N.eq_dec ph' ph) as [->|Hp].
  - rewrite (aget_aput_same N.eqb Neqb_eq).
    rewrite (aget_aput_other ident_eqb ident_eqb_eq) by congruence.
    unfold inner_of. destruct (aget N.eqb ph d); reflexivity.
  - rewrite (aget_aput_other N.eqb Neqb_eq) by congruence. reflexivity.
Qed.

Lemma get2_del2_same d ph id : get2 (del2 d ph id) ph id = None.
Proof.
  unfold get2, del2; cbv beta iota zeta.
  destruct (adel ident_eqb id (inner_of d ph)) as [|p i'] eqn:E; cbv beta iota zeta.
  - rewrite (aget_adel_same N.eqb). reflexivity.
  - rewrite (aget_aput_same N.eqb Neqb_eq). rewrite <- E. apply (aget_adel_same ident_eqb).
Qed.

Lemma get2_del2_other d ph id ph' id' :
  (ph', id') <> (ph, id) -> get2 (del2 d ph id) ph' id' = get2 d ph' id'.
Proof.
  intros N. unfold get2, del2; cbv beta iota zeta.
  destruct (N.eq_dec ph' ph) as [->|Hp].
  - assert (Hid : id <> id') by congruence.
    destruct (adel ident_eqb id (inner_of d ph)) as [|p i'] eqn:E; cbv beta iota zeta.
    + rewrite (aget_adel_same N.eqb). unfold inner_of in E.
      destruct (aget N.eqb ph d) as [i|]; [|reflexivity].
      rewrite <- (aget_adel_other ident_eqb ident_eqb_eq id id' i Hid). rewrite E. reflexivity.
    + rewrite (aget_aput_same N.eqb Neqb_eq). rewrite <- E.
      rewrite (aget_adel_other ident_eqb ident_eqb_eq) by exact Hid.
      unfold inner_of. destruct (aget N.eqb ph d) as [i|]; reflexivity.
  - destruct (adel ident_eqb id (inner_of d ph)) as [|p i']; cbv beta iota zeta.
    + rewrite (aget_adel_other N.eqb Neqb_eq) by congruence. reflexivity.
    + rewrite (aget_aput_other N.eqb Neqb_eq) by congruence. reflexivity.
Qed.

Lemma wf_inner d ph i : wf_d d -> aget N.eqb ph d = Some i -> NoDup (keys i) /\ i <> [].
Proof. intros [_ H] E. apply (H ph). apply (aget_in N.eqb Neqb_eq). exact E. Qed.

Lemma wf_aput d ph i : wf_d d -> NoDup (keys i) -> i <> [] -> wf_d (aput N.eqb ph i d).
Proof.
  intros [H1 H2] H3 H4. split; [apply (nodup_aput N.eqb Neqb_eq); exact H1|].
  intros ph' i' [H|H]; [inversion H; subst; auto|]. apply in_adel in H. apply (H2 ph'). exact H.
Qed.

Lemma wf_adel d ph : wf_d d -> wf_d (adel N.eqb ph d).
Proof.
  intros [H1 H2]. split; [apply (nodup_adel N.eqb Neqb_eq); exact H1|].
  intros ph' i' H. apply in_adel in H. apply (H2 ph'). exact H.
Qed.

Lemma wf_put2 d ph id v : wf_d d -> wf_d (put2 d ph id v).
Proof.
  intros W. unfold put2. apply wf_aput; [exact W | | unfold aput; discriminate].
  apply (nodup_aput ident_eqb ident_eqb_eq). unfold inner_of.
  destruct (aget N.eqb ph d) as [i|] eqn:E; [apply (wf_inner d ph i W E) | constructor].
Qed.

Lemma wf_del2 d ph id : wf_d d -> wf_d (del2 d ph id).
Proof.
  intros W. unfold del2; cbv beta iota zeta.
  destruct (adel ident_eqb id (inner_of d ph)) as [|p i'] eqn:E; cbv beta iota zeta.
  - apply wf_adel; exact W.
  - apply wf_aput; [exact W | | discriminate]. rewrite <- E.
    apply (nodup_adel ident_eqb ident_eqb_eq). unfold inner_of.
    destruct (aget N.eqb ph d) as [i|] eqn:E2; [apply (wf_inner d ph i W E2) | constructor].
Qed.

(* all (phantom, identifier) pairs of the table *)
Definition flat (d : dmap) : list tkey :=
  flat_map (fun pi => map (fun iv => (fst pi, fst iv)) (snd pi)) d.

Lemma length_flat d : length (flat d) = fold_right (fun pi n => (length (snd pi) + n)%nat) 0%nat d.
Proof.
  unfold flat. induction d as [|[ph i] d IH]; [reflexivity|].
  cbn [flat_map fold_right fst snd]. rewrite app_length, map_length. f_equal. exact IH.
Qed.

Lemma in_flat d ph id : wf_d d -> (In (ph, id) (flat d) <-> is_some (get2 d ph id) = true).
Proof.
  intros [W1 W2]. unfold flat, get2. rewrite in_flat_map. split.
  - intros [[ph' i] [H1 H2]]. cbn in H2. apply in_map_iff in H2 as [[id' v] [H2 H3]].
    cbn in H2. inversion H2; subst ph' id'.
    assert (E : aget N.eqb ph d = Some i) by (apply (in_nodup_aget N.eqb Neqb_eq); assumption).
    rewrite E.
    apply (in_map fst) in H3. cbn [fst] in H3. apply (in_keys_aget ident_eqb ident_eqb_eq) in H3 as [v' E3].
    rewrite E3. reflexivity.
  - destruct (aget N.eqb ph d) as [i|] eqn:E; [|discriminate].
    destruct (aget ident_eqb id i) as [v|] eqn:E2; [|discriminate]. intros _.
    exists (ph, i). split; [apply (aget_in N.eqb Neqb_eq); exact E|].
    cbn. apply in_map_iff. exists (id, v). split; [reflexivity|]. apply (aget_in ident_eqb ident_eqb_eq). exact E2.
Qed.

Lemma nodup_map_pair {A B} (a : A) (l : list B) : NoDup l -> NoDup (map (pair a) l).
Proof.
  induction l as [|b l IH]; cbn; intros H; [constructor|]. inversion H; subst.
  constructor; [|auto]. intros H1. apply in_map_iff in H1 as [b' [[= ->] H1]]. contradiction.
Qed.

Lemma nodup_flat d : wf_d d -> NoDup (flat d).
Proof.
  induction d as [|[ph i] d IH]; intros [W1 W2]; cbn; [constructor|].
  inversion W1; subst.
  apply nodup_app.
  - destruct (W2 ph i (or_introl eq_refl)) as [Hi _].
    assert (map (fun iv : ident * bool => (ph, fst iv)) i = map (pair ph) (keys i)) as ->.
    { unfold keys. rewrite map_map. reflexivity. }
    apply nodup_map_pair. exact Hi.
  - apply IH. split; [exact H2 | intros ph' i' H; apply (W2 ph'); right; exact H].
  - intros [ph' id'] H H'. apply in_map_iff in H as [[id2 v] [H _]]. cbn in H. inversion H; subst ph' id'.
    unfold flat in H'. apply in_flat_map in H' as [[ph2 i2] [H3 H4]]. cbn in H4.
    apply in_map_iff in H4 as [[id3 v3] [H4 _]]. cbn in H4. inversion H4; subst ph2.
    apply H1. apply (in_map fst) in H3. exact H3.
Qed.
