(* C08 lemmas, part 1: keys, association maps, the two-level decoys map. *)
From CJ Require Import Common.Base C08.Model.
From Coq Require Import Lia ZifyN ZifyNat ZifyBool.

(* ------------------------------------------------------------ key equality *)
Lemma tr_eqb_eq a b : tr_eqb a b = true <-> a = b.
Proof. destruct a, b; cbn; split; congruence. Qed.

Lemma ident_eqb_eq a b : ident_eqb a b = true <-> a = b.
Proof.
  destruct a as [t s], b as [t' s']; unfold ident_eqb; cbn.
  rewrite andb_true_iff, tr_eqb_eq, N.eqb_eq. split; [intros [-> ->]; reflexivity | intros [= -> ->]; auto].
Qed.

Lemma tkey_eqb_eq a b : tkey_eqb a b = true <-> a = b.
Proof.
  destruct a as [p i], b as [p' i']; unfold tkey_eqb; cbn.
  rewrite andb_true_iff, ident_eqb_eq, N.eqb_eq. split; [intros [-> ->]; reflexivity | intros [= -> ->]; auto].
Qed.

Lemma regkey_eqb_eq a b : regkey_eqb a b = true <-> a = b.
Proof.
  unfold regkey_eqb. rewrite tkey_eqb_eq. destruct a, b; unfold tkey_of, ident_of; cbn.
  split; [intros [= -> -> ->]; reflexivity | intros [= -> -> ->]; reflexivity].
Qed.

Lemma tkey_of_inj a b : tkey_of a = tkey_of b -> a = b.
Proof. intros H. apply regkey_eqb_eq. unfold regkey_eqb. apply tkey_eqb_eq, H. Qed.

(* ------------------------------------------------------------ association maps *)
Section AMapFacts.
  Context {K V : Type} (eqb : K -> K -> bool).
  Hypothesis eqb_eq : forall a b, eqb a b = true <-> a = b.

  Lemma eqb_refl k : eqb k k = true.
  Proof. apply eqb_eq; reflexivity. Qed.

  Lemma eqb_neq a b : a <> b -> eqb a b = false.
  Proof. intros H. destruct (eqb a b) eqn:E; [apply eqb_eq in E; contradiction | reflexivity]. Qed.

  Definition keys (m : list (K * V)) : list K := map fst m.

  Lemma aget_in k (m : list (K * V)) v : aget eqb k m = Some v -> In (k, v) m.
  Proof.
    induction m as [|[k' v'] m IH]; cbn; [discriminate|].
    destruct (eqb k k') eqn:E.
    - apply eqb_eq in E; subst. intros [= ->]. left; reflexivity.
    - intros H; right; auto.
  Qed.

  Lemma aget_none_iff k (m : list (K * V)) : aget eqb k m = None <-> ~ In k (keys m).
  Proof.
    induction m as [|[k' v'] m IH]; cbn; [tauto|].
    destruct (eqb k k') eqn:E.
    - apply eqb_eq in E; subst. split; [discriminate | intros H; exfalso; apply H; left; reflexivity].
    - rewrite IH. split.
      + intros H [H1 | H1]; [subst; rewrite eqb_refl in E; discriminate | auto].
      + intros H H1. apply H. right; exact H1.
  Qed.

  Lemma aget_some_in_keys k (m : list (K * V)) v : aget eqb k m = Some v -> In k (keys m).
  Proof. intros H. apply aget_in in H. apply (in_map fst) in H. exact H. Qed.

  Lemma in_keys_aget k (m : list (K * V)) : In k (keys m) -> exists v, aget eqb k m = Some v.
  Proof.
    intros H. destruct (aget eqb k m) eqn:E; [eauto|]. apply aget_none_iff in E. contradiction.
  Qed.

  Lemma aget_adel_same k (m : list (K * V)) : aget eqb k (adel eqb k m) = None.
  Proof.
    induction m as [|[k' v'] m IH]; cbn; [reflexivity|].
    destruct (eqb k k') eqn:E; [exact IH | cbn; rewrite E; exact IH].
  Qed.

  Lemma aget_adel_other k k' (m : list (K * V)) : k <> k' -> aget eqb k' (adel eqb k m) = aget eqb k' m.
  Proof.
    intros N. induction m as [|[k2 v2] m IH]; cbn; [reflexivity|].
    destruct (eqb k k2) eqn:E.
    - apply eqb_eq in E; subst k2. rewrite (eqb_neq k' k) by congruence. exact IH.
    - cbn. destruct (eqb k' k2); [reflexivity | exact IH].
  Qed.

  Lemma aget_aput_same k v (m : list (K * V)) : aget eqb k (aput eqb k v m) = Some v.
  Proof. unfold aput; cbn. rewrite eqb_refl. reflexivity. Qed.

  Lemma aget_aput_other k k' v (m : list (K * V)) : k <> k' -> aget eqb k' (aput eqb k v m) = aget eqb k' m.
  Proof.
    intros N. unfold aput; cbn. rewrite (eqb_neq k' k) by congruence. apply aget_adel_other; exact N.
  Qed.

  Lemma adel_absent k (m : list (K * V)) : aget eqb k m = None -> adel eqb k m = m.
  Proof.
    induction m as [|[k' v'] m IH]; cbn; [reflexivity|].
    destruct (eqb k k'); [discriminate | intros H; rewrite IH; auto].
  Qed.

  Lemma in_keys_adel k k' (m : list (K * V)) : In k' (keys (adel eqb k m)) <-> k' <> k /\ In k' (keys m).
  Proof.
    induction m as [|[k2 v2] m IH]; cbn; [tauto|].
    destruct (eqb k k2) eqn:E.
    - apply eqb_eq in E; subst k2. rewrite IH. split; [tauto|]. intros [H1 [H2|H2]]; [congruence | tauto].
    - cbn. rewrite IH. split.
      + intros [H|[H1 H2]]; [subst; split; [intros ->; rewrite eqb_refl in E; discriminate | auto] | tauto].
      + tauto.
  Qed.

  Lemma nodup_adel k (m : list (K * V)) : NoDup (keys m) -> NoDup (keys (adel eqb k m)).
  Proof.
    induction m as [|[k' v'] m IH]; cbn; [auto|].
    intros H; inversion H; subst.
    destruct (eqb k k'); [auto|]. cbn. constructor; [|auto].
    intros H1. apply in_keys_adel in H1. tauto.
  Qed.

  Lemma nodup_aput k v (m : list (K * V)) : NoDup (keys m) -> NoDup (keys (aput eqb k v m)).
  Proof.
    intros H. unfold aput; cbn. constructor; [|apply nodup_adel; exact H].
    intros H1. apply in_keys_adel in H1. tauto.
  Qed.

  Lemma in_keys_aput k k' v (m : list (K * V)) : In k' (keys (aput eqb k v m)) <-> k' = k \/ In k' (keys m).
  Proof.
    unfold aput; cbn. rewrite in_keys_adel. split.
    - intros [H|[H1 H2]]; auto.
    - intros [H|H]; [left; congruence|]. destruct (eqb k k') eqn:E; [apply eqb_eq in E; auto | right; split; [intros ->; rewrite eqb_refl in E; discriminate | auto]].
  Qed.

  Lemma length_adel_present k (m : list (K * V)) :
    NoDup (keys m) -> In k (keys m) -> S (length (adel eqb k m)) = length m.
  Proof.
    induction m as [|[k' v'] m IH]; cbn; [tauto|].
    intros H; inversion H; subst. intros [H1|H1].
    - subst k'. rewrite eqb_refl. rewrite adel_absent; [reflexivity | apply aget_none_iff; auto].
    - destruct (eqb k k') eqn:E; [apply eqb_eq in E; subst; contradiction|]. cbn. rewrite IH; auto.
  Qed.
End AMapFacts.

(* ------------------------------------------------------------ lookups see only tracked entries *)
Lemma existsb_lookup_in_keys id (i : inner) :
  existsb (ident_eqb id) (map fst (filter (fun iv => snd iv) i)) = true -> In id (keys i).
Proof.
  intros H. apply existsb_exists in H as [x [H1 H2]]. apply ident_eqb_eq in H2; subst x.
  apply in_map_iff in H1 as [[id' v] [H1 H2]]. cbn in H1; subst id'.
  apply filter_In in H2 as [H2 _]. apply (in_map fst) in H2. exact H2.
Qed.

Lemma matches_tracked s k : matches s k = true -> tracked s k = true.
Proof.
  unfold matches, tracked, registration_exists, lookup, get2.
  destruct (enabled (k_tr k)); cbn; [|discriminate].
  destruct (aget N.eqb (k_ph k) (decoys s)) as [i|]; cbn; [|discriminate].
  intros H. apply existsb_lookup_in_keys in H.
  apply (in_keys_aget ident_eqb ident_eqb_eq) in H as [v ->]. reflexivity.
Qed.

Lemma expired_not_matched_state s k : tracked s k = false -> matches s k = false.
Proof.
  intros H. destruct (matches s k) eqn:E; [|reflexivity]. apply matches_tracked in E. congruence.
Qed.
