(* C08, fifth round: the sweep at SCALE.  `sweep` removes EVERY expired record of a table of ANY size (the statements of
   Sweep.v quantify over all states satisfying Inv; restated here).  The refuted variant `sweep_capped n` collects at most
   n expired indices per sweep (a batch limit): whenever more than n records are expired at the sweep, a record older than
   its lifetime survives it - it keeps its timeout record and stays in the phantom's map, i.e. it keeps matching. *)
From CJ Require Import Common.Base C08.Model C08.Proofs C08.Invariant C08.Sweep C08.History.
From Coq Require Import Lia ZifyN ZifyNat ZifyBool.

(* --- the real rule, for tables of any size *)
Lemma sweep_any_size s : Inv s ->
  forall key t, aget tkey_eqb key (timeouts (sweep s)) = Some t ->
    aget tkey_eqb key (timeouts s) = Some t /\ kept (now s - t_born t) (t_used t) = true.
Proof.
  intros I key t H. unfold sweep in H.
  destruct (sweep_in_spec s (get_expired s) I (collects_get_expired s I)) as (_ & _ & T' & _).
  rewrite T' in H. destruct (aget tkey_eqb key (timeouts s)) as [t0|]; [|discriminate].
  destruct (rec_expired (now s) t0) eqn:E; [discriminate|]. inversion H; subst t0. split; [reflexivity|].
  rewrite rec_expired_kept in E. destruct (kept (now s - t_born t) (t_used t)); [reflexivity | discriminate].
Qed.

Lemma sweep_any_size_count s : Inv s ->
  length (get_expired (sweep s)) = 0%nat.
Proof.
  intros I. destruct (get_expired (sweep s)) as [|key r] eqn:E; [reflexivity|]. exfalso.
  assert (I' : Inv (sweep s)) by (apply inv_sweep_in; [exact I | apply collects_get_expired; exact I]).
  assert (H : In key (get_expired (sweep s))) by (rewrite E; left; reflexivity).
  apply (in_get_expired _ key I') in H as [t [H1 H2]].
  destruct (sweep_any_size s I key t H1) as [_ K].
  assert (N' : now (sweep s) = now s) by (apply (sweep_in_spec s (get_expired s) I (collects_get_expired s I))).
  rewrite rec_expired_kept, N', K in H2. discriminate.
Qed.

(* --- the refuted variant: a batch limit *)
Definition sweep_capped (n : nat) (s : st) : st := sweep_in (firstn n (get_expired s)) s.

Lemma nth_not_in_firstn {A} (d : A) : forall (l : list A) n, NoDup l -> (n < length l)%nat -> ~ In (nth n l d) (firstn n l).
Proof.
  induction l as [|x r IH]; intros n ND L; [cbn in L; lia|].
  inversion ND as [|? ? Hx ND']; subst. destruct n as [|n]; cbn; [tauto|].
  cbn in L. intros [H|H].
  - apply Hx. rewrite H. apply nth_In. lia.
  - apply (IH n ND'); [lia | exact H].
Qed.

Lemma firstn_incl {A} (l : list A) n x : In x (firstn n l) -> In x l.
Proof. intros H. rewrite <- (firstn_skipn n l). apply in_or_app. left. exact H. Qed.

Lemma nodup_firstn {A} : forall (l : list A) n, NoDup l -> NoDup (firstn n l).
Proof.
  induction l as [|x r IH]; intros n ND; [rewrite firstn_nil; constructor|].
  destruct n as [|n]; cbn; [constructor|]. inversion ND as [|? ? Hx ND']; subst.
  constructor; [|apply IH; exact ND']. intros H. apply Hx. exact (firstn_incl r n x H).
Qed.

(* below the limit nothing changes: the capped sweep IS the sweep *)
Lemma sweep_capped_small n s : (length (get_expired s) <= n)%nat -> sweep_capped n s = sweep s.
Proof. intros L. unfold sweep_capped, sweep. rewrite firstn_all2; [reflexivity | exact L]. Qed.

(* above it: never-late is violated - some record older than its lifetime keeps its timeout record AND its entry in the
   phantom's map (so it is still tracked and still matches connections) after the sweep *)
Lemma sweep_capped_late n s : Inv s -> (n < length (get_expired s))%nat ->
  exists key t, aget tkey_eqb key (timeouts (sweep_capped n s)) = Some t /\
                kept (now (sweep_capped n s) - t_born t) (t_used t) = false /\
                get2 (decoys (sweep_capped n s)) (fst key) (snd key) = get2 (decoys s) (fst key) (snd key) /\
                is_some (get2 (decoys (sweep_capped n s)) (fst key) (snd key)) = true.
Proof.
  intros I L. set (l := get_expired s) in *. set (key := nth n l (0, (Min, 0))).
  assert (ND : NoDup l) by (apply nodup_get_expired; exact I).
  assert (Hin : In key l) by (apply nth_In; exact L).
  assert (Hnot : memb key (firstn n l) = false).
  { destruct (memb key (firstn n l)) eqn:E; [|reflexivity]. apply memb_in in E.
    exfalso. exact (nth_not_in_firstn _ l n ND L E). }
  apply (in_get_expired s key I) in Hin as [t [H1 H2]].
  assert (P : forall k', In k' (firstn n l) -> is_some (aget tkey_eqb k' (timeouts s)) = true).
  { intros k' H. apply firstn_incl in H. apply (in_get_expired s k' I) in H as [t' [-> _]]. reflexivity. }
  destruct (remove_all (firstn n l) s I (nodup_firstn l n ND) P) as (_ & N' & T' & D').
  exists key, t. unfold sweep_capped, sweep_in. fold l. rewrite T', Hnot, N'. split; [exact H1|]. split.
  - rewrite rec_expired_kept in H2. destruct (kept (now s - t_born t) (t_used t)); [discriminate | reflexivity].
  - destruct key as [ph id]. cbn [fst snd]. rewrite D', Hnot. split; [reflexivity|].
    rewrite (inv_bij s I), H1. reflexivity.
Qed.

(* --- a large synthetic table: N registrations tracked and validated at time 0 on `nph` phantoms, `used` marked, `adv` ns pass, one sweep *)
Definition bulk_key (nph i : N) : regkey := {| k_secret := i; k_tr := Min; k_ph := i mod nph |}.
Definition bulk_tracks (nph : N) (from n : nat) : list rop :=
  flat_map (fun i => [Track (bulk_key nph (N.of_nat i)); Validate (bulk_key nph (N.of_nat i))]) (seq from n).
Definition bulk_hist (nph : N) (n : nat) (used : list N) (adv1 : N) (young : nat) (adv2 : N) : list rop :=
  bulk_tracks nph 0 n ++ map (fun i => MarkActive (bulk_key nph i)) used ++ [Advance adv1]
  ++ bulk_tracks nph n young ++ [Advance adv2].
(* the ids still tracked *)
Definition bulk_survivors (nph : N) (total : nat) (s : st) : list N :=
  filter (fun i => tracked s (bulk_key nph i) && matches s (bulk_key nph i) && has_timeout s (bulk_key nph i))
         (map N.of_nat (seq 0 total)).
Definition bulk_after (sw : st -> st) nph n used adv1 young adv2 : list N * (nat * nat) :=
  let s := sw (run (bulk_hist nph n used adv1 young adv2)) in
  (bulk_survivors nph (n + young) s, (ntracked s, ntimeouts s)).

(* case type for the correspondence: ((((((nph, n), used), adv1), young), adv2), (survivors, (ntracked, ntimeouts))) *)
Definition bulk_case := (N * nat * list N * N * nat * N * (list N * (nat * nat)))%type.
Definition list_N_eqb (a b : list N) : bool := (length a =? length b)%nat && forallb (fun p => fst p =? snd p) (combine a b).
Definition bulk_chk (c : bulk_case) : bool :=
  let '(nph, n, used, adv1, young, adv2, (sv, (nt, nto))) := c in
  let '(sv', (nt', nto')) := bulk_after sweep nph n used adv1 young adv2 in
  list_N_eqb sv sv' && (nt =? nt')%nat && (nto =? nto')%nat.

Definition eleven_min : N := 660 * 1000000000.
Example bulk_600_swept : bulk_after sweep 7 600 [3; 77] eleven_min 5 0 = ([3; 77; 600; 601; 602; 603; 604], (7, 7)%nat).
Proof. vm_compute. reflexivity. Qed.
Example bulk_600_capped_256 :
  let '(sv, (nt, nto)) := bulk_after (sweep_capped 256) 7 600 [3; 77] eleven_min 5 0 in
  (length sv, nt, nto) = (349, 349, 349)%nat.
Proof. vm_compute. reflexivity. Qed.
