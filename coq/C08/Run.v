(* C08: evaluation of the model on recorded histories (correspondence check).
   A case is the history, the alphabet that was observed after every operation
   and, per operation, what the real RegisteredDecoys showed. *)
From CJ Require Import Common.Base C08.Model.

Record obs := {
  o_err : bool;                          (* the call returned an error *)
  o_ret : N;                             (* tracknx: already tracked; lookup/count: size *)
  o_tracked : list (regkey * bool);      (* alphabet keys for which RegistrationExists, with Valid *)
  o_matched : list regkey;               (* alphabet keys returned by GetRegistrations on their phantom *)
  o_counts : list N;                     (* CountRegistrations per alphabet phantom *)
  o_total : N;                           (* TotalRegistrations *)
  o_ntimeouts : N;                       (* len(decoysTimeouts) *)
  o_nphantoms : N                        (* len(decoys) *)
}.

Record case := {
  c_keys : list regkey;
  c_phantoms : list N;
  c_unused_ns : N;                       (* r.timeoutUnused as dumped from the running code *)
  c_active_ns : N;
  c_hist : list (rop * obs)
}.

Definition mem_key (k : regkey) (l : list regkey) : bool := existsb (regkey_eqb k) l.
Fixpoint find_tracked (k : regkey) (l : list (regkey * bool)) : option bool :=
  match l with
  | [] => None
  | (k', v) :: r => if regkey_eqb k k' then Some v else find_tracked k r
  end.

Definition opt_bool_eqb (a b : option bool) : bool := option_eqb Bool.eqb a b.

Definition check_obs (c : case) (s0 : st) (o : rop) (ob : obs) : bool :=
  let s := step s0 o in
  let '(e, r) := output s0 o in
  Bool.eqb e (o_err ob) && (r =? o_ret ob)
  && negb (panicked s)
  && forallb (fun k => opt_bool_eqb (registration_exists s k) (find_tracked k (o_tracked ob))) (c_keys c)
  && (N.of_nat (length (o_tracked ob)) =? N.of_nat (length (filter (tracked s) (c_keys c))))
  && forallb (fun k => Bool.eqb (matches s k) (mem_key k (o_matched ob))) (c_keys c)
  && (N.of_nat (length (o_matched ob)) =? N.of_nat (length (filter (matches s) (c_keys c))))
  && list_eqb N.eqb (map (fun p => N.of_nat (count s p)) (c_phantoms c)) (o_counts ob)
  && (N.of_nat (ntracked s) =? o_total ob)
  && (N.of_nat (ntimeouts s) =? o_ntimeouts ob)
  && (N.of_nat (nphantoms s) =? o_nphantoms ob).

Fixpoint check_hist (c : case) (s : st) (h : list (rop * obs)) : bool :=
  match h with
  | [] => true
  | (o, ob) :: r => check_obs c s o ob && check_hist c (step s o) r
  end.

Definition chk_model (c : case) : bool :=
  (c_unused_ns c =? timeout_unused) && (c_active_ns c =? timeout_active)
  && check_hist c init (c_hist c).

(* the ghost semantics (the specification itself, no table) evaluated next to the
   real observations: after every operation the implementation tracks exactly the
   alphabet registrations whose ghost life is Some, and matches exactly those that
   were validated during that life *)
Definition gst := list (regkey * (life * bool)).        (* per alphabet key: life, validated *)

Definition gst_step (g : gst) (o : rop) : gst :=
  map (fun kv : regkey * (life * bool) =>
         let '(k, (l, v)) := kv in
         let l' := gstep k l o in
         let v' := match l' with
                   | None => false
                   | Some _ => match o with
                               | Validate k' => if regkey_eqb k k' then true else match l with Some _ => v | None => false end
                               | ValidateStale k' => match l with Some _ => v | None => regkey_eqb k k' end
                               | _ => match l with Some _ => v | None => false end
                               end
                   end in
         (k, (l', v'))) g.

Definition check_spec_obs (g : gst) (ob : obs) : bool :=
  forallb (fun kv : regkey * (life * bool) =>
             let '(k, (l, v)) := kv in
             Bool.eqb (is_some l) (is_some (find_tracked k (o_tracked ob)))
             && Bool.eqb (is_some l && v) (mem_key k (o_matched ob))) g.

Fixpoint check_hist_spec (g : gst) (h : list (rop * obs)) : bool :=
  match h with
  | [] => true
  | (o, ob) :: r => let g' := gst_step g o in check_spec_obs g' ob && check_hist_spec g' r
  end.

Definition chk_spec (c : case) : bool :=
  check_hist_spec (map (fun k => (k, (None, false))) (c_keys c)) (c_hist c).

Definition chk (c : case) : bool := chk_model c && chk_spec c.

(* diagnostics: index of the first operation whose observation differs from the model / from the ghost *)
Fixpoint first_bad (c : case) (s : st) (i : nat) (h : list (rop * obs)) : option nat :=
  match h with
  | [] => None
  | (o, ob) :: r => if check_obs c s o ob then first_bad c (step s o) (S i) r else Some i
  end.
Fixpoint first_bad_spec (g : gst) (i : nat) (h : list (rop * obs)) : option nat :=
  match h with
  | [] => None
  | (o, ob) :: r => let g' := gst_step g o in
                    if check_spec_obs g' ob then first_bad_spec g' (S i) r else Some i
  end.
Definition where_bad (c : case) : option nat * option nat :=
  (first_bad c init 0 (c_hist c),
   first_bad_spec (map (fun k => (k, (None, false))) (c_keys c)) 0 (c_hist c)).
