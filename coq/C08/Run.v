(* C08: evaluation of the model on recorded histories (correspondence check).
   A case is the history, the alphabet that was observed after every operation
   and, per operation, what the real RegisteredDecoys showed. *)
From CJ Require Import Common.Base C08.Model.

Record obs := {
  o_err : bool;                          (* the call returned an error *)
  o_ret : N;                             (* tracknx: already tracked; lookup/count: size *)
  o_tracked : list (regkey * (bool * N));(* alphabet keys for which RegistrationExists, with Valid and regCount *)
  o_matched : list regkey;               (* alphabet keys returned by GetRegistrations on their phantom *)
  o_counts : list N;                     (* CountRegistrations per alphabet phantom *)
  o_total : N;                           (* TotalRegistrations *)
  o_ntimeouts : N;                       (* len(decoysTimeouts) *)
  o_nphantoms : N;                       (* len(decoys) *)
  o_new : list regkey;                   (* registerForDetector calls during the operation *)
  o_upd : list regkey;                   (* updateInDetector calls during the operation *)
  o_expvalid : N;                        (* decrease of RegistrationStats.activeRegistrations *)
  o_statdelta : N                        (* decrease of Stat().activeRegistrations *)
}.

Record case := {
  c_keys : list regkey;
  c_phantoms : list N;
  c_unused_ns : N;                       (* r.timeoutUnused as dumped from the running code *)
  c_active_ns : N;
  c_hist : list (rop * obs)
}.

Definition mem_key (k : regkey) (l : list regkey) : bool := existsb (regkey_eqb k) l.
Fixpoint find_tracked (k : regkey) (l : list (regkey * (bool * N))) : option (bool * N) :=
  match l with
  | [] => None
  | (k', v) :: r => if regkey_eqb k k' then Some v else find_tracked k r
  end.

Definition news (l : list event) : list regkey :=
  flat_map (fun e => match e with EvNew k => [k] | _ => [] end) l.
Definition upds (l : list event) : list regkey :=
  flat_map (fun e => match e with EvUpdate k => [k] | _ => [] end) l.
Definition expvalid (l : list event) : N :=
  fold_right (fun e n => match e with EvExpired _ v => v + n | _ => n end) 0 l.

Definition check_obs (c : case) (x0 : xst) (o : rop) (ob : obs) : bool :=
  let s0 := x_base x0 in
  let x := xstep x0 o in
  let s := x_base x in
  let '(e, r) := output s0 o in
  let ev := emits s0 o in
  Bool.eqb e (o_err ob) && (r =? o_ret ob)
  && negb (panicked s)
  && forallb (fun k => match registration_exists s k, find_tracked k (o_tracked ob) with
                       | None, None => true
                       | Some v, Some (v', n) => Bool.eqb v v' && (regcount x k =? n)
                       | _, _ => false
                       end) (c_keys c)
  && (N.of_nat (length (o_tracked ob)) =? N.of_nat (length (filter (tracked s) (c_keys c))))
  && forallb (fun k => Bool.eqb (matches s k) (mem_key k (o_matched ob))) (c_keys c)
  && (N.of_nat (length (o_matched ob)) =? N.of_nat (length (filter (matches s) (c_keys c))))
  && list_eqb N.eqb (map (fun p => N.of_nat (count s p)) (c_phantoms c)) (o_counts ob)
  && (N.of_nat (ntracked s) =? o_total ob)
  && (N.of_nat (ntimeouts s) =? o_ntimeouts ob)
  && (N.of_nat (nphantoms s) =? o_nphantoms ob)
  && list_eqb regkey_eqb (news ev) (o_new ob)
  && list_eqb regkey_eqb (upds ev) (o_upd ob)
  && (expvalid ev =? o_expvalid ob) && (expvalid ev =? o_statdelta ob).

Fixpoint check_hist (c : case) (x : xst) (h : list (rop * obs)) : bool :=
  match h with
  | [] => true
  | (o, ob) :: r => check_obs c x o ob && check_hist c (xstep x o) r
  end.

Definition chk_model (c : case) : bool :=
  (c_unused_ns c =? timeout_unused) && (c_active_ns c =? timeout_active)
  && check_hist c xinit (c_hist c).

(* The ghost semantics (the specification itself, no table) evaluated next to the real
   observations: after every operation the implementation tracks exactly the alphabet
   registrations whose ghost life is Some, matches exactly those validated during that life,
   shows the ghost's regCount, and has sent exactly the notifications the history prescribes. *)
Record gk := { g_key : regkey; g_life : life; g_valid : bool; g_count : N }.

Definition gk_step (o : rop) (g : gk) : gk :=
  {| g_key := g_key g;
     g_life := gstep (g_key g) (g_life g) o;
     g_valid := snd (gvstep (g_key g) (g_life g, g_valid g) o);
     g_count := snd (gcstep (g_key g) (g_life g, g_count g) o) |}.

Definition g_find (k : regkey) (gs : list gk) : option gk := find (fun g => regkey_eqb k (g_key g)) gs.

(* gemits, from the per-key ghost states of the alphabet *)
Definition g_emits (gs : list gk) (o : rop) : list regkey * list regkey :=
  match o with
  | Validate k => (match g_find k gs with
                   | Some g => if enabled (k_tr k) && negb (g_valid g) then [k] else []
                   | None => [] end, [])
  | ValidateStale k => (match g_find k gs with
                        | Some g => if enabled (k_tr k) && negb (is_some (g_life g)) then [k] else []
                        | None => [] end, [])
  | MarkActive k => ([], match g_find k gs with
                         | Some g => if is_some (g_life g) then [k] else []
                         | None => [] end)
  | _ => ([], [])
  end.

Definition check_spec_obs (gs0 gs : list gk) (o : rop) (ob : obs) : bool :=
  forallb (fun g =>
             match g_life g, find_tracked (g_key g) (o_tracked ob) with
             | None, None => true
             | Some _, Some (v, n) => Bool.eqb (g_valid g) v && (g_count g =? n)
             | _, _ => false
             end
             && Bool.eqb (is_some (g_life g) && g_valid g) (mem_key (g_key g) (o_matched ob))) gs
  && (let '(nw, up) := g_emits gs0 o in
      list_eqb regkey_eqb nw (o_new ob) && list_eqb regkey_eqb up (o_upd ob)).

Fixpoint check_hist_spec (gs : list gk) (h : list (rop * obs)) : bool :=
  match h with
  | [] => true
  | (o, ob) :: r => let gs' := map (gk_step o) gs in check_spec_obs gs gs' o ob && check_hist_spec gs' r
  end.

Definition ginit (c : case) : list gk :=
  map (fun k => {| g_key := k; g_life := None; g_valid := false; g_count := 0 |}) (c_keys c).

Definition chk_spec (c : case) : bool := check_hist_spec (ginit c) (c_hist c).

Definition chk (c : case) : bool := chk_model c && chk_spec c.

(* diagnostics: index of the first operation whose observation differs from the model / from the ghost *)
Fixpoint first_bad (c : case) (x : xst) (i : nat) (h : list (rop * obs)) : option nat :=
  match h with
  | [] => None
  | (o, ob) :: r => if check_obs c x o ob then first_bad c (xstep x o) (S i) r else Some i
  end.
Fixpoint first_bad_spec (gs : list gk) (i : nat) (h : list (rop * obs)) : option nat :=
  match h with
  | [] => None
  | (o, ob) :: r => let gs' := map (gk_step o) gs in
                    if check_spec_obs gs gs' o ob then first_bad_spec gs' (S i) r else Some i
  end.
Definition where_bad (c : case) : option nat * option nat :=
  (first_bad c xinit 0 (c_hist c), first_bad_spec (ginit c) 0 (c_hist c)).
