(* C08 lemmas, part 6: further observables - validity, regCount, detector
   notifications - refine ghost functions of the history. *)
From CJ Require Import Common.Base C08.Model C08.Proofs C08.Invariant C08.Sweep C08.History.
From Coq Require Import Lia ZifyN ZifyNat ZifyBool.

(* ------------------------------------------------------------ the first components are the ghost *)
Lemma gc_fst h k : fst (fold_left (gcstep k) h (None, 0)) = ghost h k.
Proof.
  induction h as [|o h IH] using rev_ind; [reflexivity|].
  rewrite fold_left_app, ghost_snoc. cbn [fold_left]. unfold gcstep at 1. cbn [fst]. rewrite IH. reflexivity.
Qed.

Lemma gv_fst h k : fst (fold_left (gvstep k) h (None, false)) = ghost h k.
Proof.
  induction h as [|o h IH] using rev_ind; [reflexivity|].
  rewrite fold_left_app, ghost_snoc. cbn [fold_left]. unfold gvstep at 1. cbn [fst]. rewrite IH. reflexivity.
Qed.

Lemma gcount_snoc h o k : gcount (h ++ [o]) k = snd (gcstep k (ghost h k, gcount h k) o).
Proof.
  unfold gcount. rewrite fold_left_app. cbn [fold_left].
  rewrite <- (gc_fst h k). destruct (fold_left (gcstep k) h (None, 0)); reflexivity.
Qed.

Lemma gvalid_snoc h o k : gvalid (h ++ [o]) k = snd (gvstep k (ghost h k, gvalid h k) o).
Proof.
  unfold gvalid. rewrite fold_left_app. cbn [fold_left].
  rewrite <- (gv_fst h k). destruct (fold_left (gvstep k) h (None, false)); reflexivity.
Qed.

(* a transport that is not enabled never has a life *)
Lemma ghost_disabled h k : enabled (k_tr k) = false -> ghost h k = None.
Proof.
  intros E. pose proof (tracked_ghost h k) as T. unfold tracked, registration_exists in T. rewrite E in T.
  destruct (ghost h k); [discriminate | reflexivity].
Qed.

(* ------------------------------------------------------------ validity *)
Lemma valid_untracked s k : tracked s k = false -> valid s k = false.
Proof. unfold tracked, valid. destruct (registration_exists s k); [discriminate | reflexivity]. Qed.

Lemma valid_track s k k' : valid (fst (track s k')) k = valid s k.
Proof.
  unfold track. destruct (registration_exists s k') eqn:E; [reflexivity|].
  destruct (enabled (k_tr k')) eqn:En; [|reflexivity]. cbn [fst].
  unfold valid, registration_exists in *. cbn [decoys]. destruct (enabled (k_tr k)); [|reflexivity].
  destruct (tkey_eq_dec (tkey_of k') (tkey_of k)) as [Heq|Hn].
  - apply tkey_of_inj in Heq; subst k'. rewrite get2_put2_same. rewrite En in E. rewrite E. reflexivity.
  - rewrite get2_put2_other; [reflexivity|]. unfold tkey_of in Hn. congruence.
Qed.

Lemma valid_validate s k k' :
  valid (validate s k') k = if regkey_eqb k k' && enabled (k_tr k) then true else valid s k.
Proof.
  rewrite validate_unfold. cbv zeta.
  destruct (regkey_eq_dec k k') as [<-|Hn].
  - rewrite regkey_eqb_refl. cbn [andb]. destruct (enabled (k_tr k)) eqn:En.
    + assert (T : exists v, registration_exists (fst (track s k)) k = Some v).
      { unfold track. destruct (registration_exists s k) eqn:E; [cbn [fst]; eauto|]. rewrite En. cbn [fst].
        unfold registration_exists. cbn [decoys]. rewrite En, get2_put2_same. eauto. }
      destruct T as [v T]. rewrite T. unfold valid, registration_exists. cbn [set_decoys decoys].
      rewrite En, get2_put2_same. reflexivity.
    + rewrite (track_disabled s k En). unfold valid, registration_exists. rewrite En. reflexivity.
  - rewrite (regkey_eqb_neq k k' Hn). cbn [andb].
    destruct (registration_exists (fst (track s k')) k') eqn:E; [|apply valid_track].
    rewrite <- (valid_track s k k'). unfold valid, registration_exists. cbn [set_decoys decoys].
    destruct (enabled (k_tr k)); [|reflexivity].
    rewrite get2_put2_other; [reflexivity|]. intros H. apply Hn. apply tkey_of_inj. unfold tkey_of. congruence.
Qed.

Lemma valid_mark_active s k k' : valid (mark_active s k') k = valid s k.
Proof.
  unfold mark_active. destruct (enabled (k_tr k')); [|reflexivity].
  destruct (aget tkey_eqb (tkey_of k') (timeouts s)); reflexivity.
Qed.

Lemma valid_sweep s k : Inv s -> valid (sweep s) k = if tracked (sweep s) k then valid s k else false.
Proof.
  intros I. destruct (tracked (sweep s) k) eqn:T.
  - apply (valid_sweep_in s (get_expired s) k I (collects_get_expired s I) T).
  - apply valid_untracked. exact T.
Qed.

Lemma valid_step h o k :
  valid (run (h ++ [o])) k = snd (gvstep k (ghost h k, valid (run h) k) o).
Proof.
  pose proof (tracked_ghost (h ++ [o]) k) as T'. pose proof (tracked_ghost h k) as T.
  rewrite ghost_snoc in T'. rewrite run_snoc in *. unfold gvstep. cbn [fst snd].
  pose proof (run_inv h) as I. set (s := run h) in *.
  destruct (gstep k (ghost h k) o) as [l'|] eqn:G.
  2: { apply valid_untracked. exact T'. }
  destruct o; cbn [step].
  - rewrite valid_track. destruct (ghost h k); [reflexivity | apply valid_untracked; exact T].
  - rewrite valid_track. destruct (ghost h k); [reflexivity | apply valid_untracked; exact T].
  - rewrite valid_validate. destruct (regkey_eq_dec k k0) as [<-|Hn].
    + rewrite regkey_eqb_refl. cbn [andb]. destruct (enabled (k_tr k)) eqn:En; [reflexivity|].
      rewrite (ghost_disabled h k En) in G. cbn in G. rewrite regkey_eqb_refl, En in G. discriminate.
    + rewrite (regkey_eqb_neq k k0 Hn). cbn [andb]. destruct (ghost h k); [reflexivity | apply valid_untracked; exact T].
  - unfold validate_stale. destruct (registration_exists s k0) eqn:E.
    + destruct (ghost h k) eqn:Gh; [reflexivity|]. rewrite (valid_untracked s k T).
      destruct (regkey_eq_dec k k0) as [<-|Hn]; [|rewrite (regkey_eqb_neq k k0 Hn); reflexivity].
      unfold tracked in T. rewrite E in T. discriminate.
    + rewrite valid_validate. destruct (regkey_eq_dec k k0) as [<-|Hn].
      * rewrite regkey_eqb_refl. cbn [andb]. destruct (enabled (k_tr k)) eqn:En.
        -- destruct (ghost h k); [|reflexivity]. unfold tracked in T. rewrite E in T. discriminate.
        -- rewrite (ghost_disabled h k En) in G. cbn in G. rewrite regkey_eqb_refl, En in G. discriminate.
      * rewrite (regkey_eqb_neq k k0 Hn). cbn [andb]. destruct (ghost h k); [reflexivity | apply valid_untracked; exact T].
  - rewrite valid_mark_active. destruct (ghost h k); [reflexivity | apply valid_untracked; exact T].
  - destruct (ghost h k); [reflexivity | apply valid_untracked; exact T].
  - rewrite (valid_sweep s k I). cbn [step] in T'. rewrite T'. cbn.
    destruct (ghost h k); [reflexivity | apply valid_untracked; exact T].
  - destruct (ghost h k); [reflexivity | apply valid_untracked; exact T].
  - destruct (ghost h k); [reflexivity | apply valid_untracked; exact T].
Qed.

Lemma valid_ghost h k : valid (run h) k = gvalid h k.
Proof.
  induction h as [|o h IH] using rev_ind.
  - unfold valid, registration_exists. cbn. destruct (enabled (k_tr k)); reflexivity.
  - rewrite valid_step, gvalid_snoc, IH. reflexivity.
Qed.

Lemma matches_ghost h k : matches (run h) k = gvalid h k.
Proof. rewrite (matches_iff_valid _ k (run_inv h)). apply valid_ghost. Qed.

(* ------------------------------------------------------------ notifications *)
Lemma emits_ghost h o : match o with Sweep => True | _ => emits (run h) o = gemits h o end.
Proof.
  destruct o; cbn [emits gemits]; auto.
  - rewrite valid_ghost. reflexivity.
  - rewrite tracked_ghost. reflexivity.
  - rewrite (has_timeout_tracked _ k (run_inv h)), tracked_ghost.
    destruct (enabled (k_tr k)) eqn:En; [reflexivity|]. rewrite (ghost_disabled h k En). reflexivity.
Qed.

(* a registration is announced to the detector at most once per life: after an
   announcement it stays validated until its life ends *)
Lemma announced_then_valid h o k : In (EvNew k) (emits (run h) o) -> gvalid (h ++ [o]) k = true.
Proof.
  intros H. rewrite <- valid_ghost, run_snoc.
  destruct o; cbn [emits] in H; try contradiction.
  - destruct (enabled (k_tr k0) && negb (valid (run h) k0)) eqn:E; [|contradiction].
    destruct H as [[= ->]|[]]. apply andb_true_iff in E as [En _]. cbn [step].
    rewrite valid_validate, regkey_eqb_refl, En. reflexivity.
  - destruct (enabled (k_tr k0) && negb (tracked (run h) k0)) eqn:E; [|contradiction].
    destruct H as [[= ->]|[]]. apply andb_true_iff in E as [En T]. cbn [step]. unfold validate_stale.
    unfold tracked in T. destruct (registration_exists (run h) k); [discriminate|].
    rewrite valid_validate, regkey_eqb_refl, En. reflexivity.
  - destruct (enabled (k_tr k0) && has_timeout (run h) k0); [destruct H as [H|[]]; discriminate | contradiction].
  - destruct H as [H|[]]; discriminate.
Qed.

Lemma valid_not_announced h o k : gvalid h k = true -> ~ In (EvNew k) (emits (run h) o).
Proof.
  intros V H. rewrite <- valid_ghost in V.
  destruct o; cbn [emits] in H; try contradiction.
  - destruct (enabled (k_tr k0) && negb (valid (run h) k0)) eqn:E; [|contradiction].
    destruct H as [[= ->]|[]]. rewrite V in E. rewrite andb_false_r in E. discriminate.
  - destruct (enabled (k_tr k0) && negb (tracked (run h) k0)) eqn:E; [|contradiction].
    destruct H as [[= ->]|[]]. rewrite (valid_tracked _ _ V) in E. rewrite andb_false_r in E. discriminate.
  - destruct (enabled (k_tr k0) && has_timeout (run h) k0); [destruct H as [H|[]]; discriminate | contradiction].
  - destruct H as [H|[]]; discriminate.
Qed.

Lemma announced_once_per_life h o k :
  (In (EvNew k) (emits (run h) o) -> gvalid (h ++ [o]) k = true) /\
  (gvalid h k = true -> ~ In (EvNew k) (emits (run h) o)).
Proof. split; [apply announced_then_valid | apply valid_not_announced]. Qed.

(* ------------------------------------------------------------ regCount *)
Lemma xrun_snoc h o : xrun (h ++ [o]) = xstep (xrun h) o.
Proof. unfold xrun. rewrite fold_left_app. reflexivity. Qed.

Lemma xrun_base h : x_base (xrun h) = run h.
Proof.
  induction h as [|o h IH] using rev_ind; [reflexivity|].
  rewrite xrun_snoc, run_snoc. unfold xstep. cbn [x_base]. rewrite IH. reflexivity.
Qed.

Lemma aget_filter_keys {V} (p : tkey -> bool) key (m : list (tkey * V)) :
  aget tkey_eqb key (filter (fun kc => p (fst kc)) m) = if p key then aget tkey_eqb key m else None.
Proof.
  induction m as [|[k' v] m IH]; cbn [filter aget fst]; [destruct (p key); reflexivity|].
  destruct (p k') eqn:P; cbn [aget]; destruct (tkey_eqb key k') eqn:E; auto.
  - apply tkey_eqb_eq in E; subst k'. rewrite P. reflexivity.
  - apply tkey_eqb_eq in E; subst k'. rewrite IH, P. reflexivity.
Qed.

Lemma regcount_step h o k :
  regcount (xrun (h ++ [o])) k = snd (gcstep k (ghost h k, regcount (xrun h) k) o).
Proof.
  pose proof (tracked_ghost (h ++ [o]) k) as T'. pose proof (tracked_ghost h k) as T.
  rewrite ghost_snoc in T'. rewrite xrun_snoc. unfold regcount, xstep. cbn [x_base x_count].
  rewrite xrun_base, <- run_snoc, T', T. unfold gcstep. cbn [fst snd].
  destruct (gstep k (ghost h k) o) as [l'|] eqn:G; cbn [is_some]; [|reflexivity].
  set (c := x_count (xrun h)).
  destruct o.
  - unfold bump. destruct (regkey_eq_dec k k0) as [<-|Hn].
    + rewrite regkey_eqb_refl. destruct (enabled (k_tr k)) eqn:En.
      * rewrite T. destruct (ghost h k); cbn [is_some]; rewrite (aget_aput_same tkey_eqb tkey_eqb_eq);
          [destruct (aget tkey_eqb (tkey_of k) c); lia | reflexivity].
      * rewrite (ghost_disabled h k En) in G. cbn in G. rewrite regkey_eqb_refl, En in G. discriminate.
    + rewrite (regkey_eqb_neq k k0 Hn).
      assert (A : forall n (c0 : list (tkey * N)), aget tkey_eqb (tkey_of k) (aput tkey_eqb (tkey_of k0) n c0) = aget tkey_eqb (tkey_of k) c0).
      { intros. apply (aget_aput_other tkey_eqb tkey_eqb_eq). intros H. apply Hn. symmetry. apply tkey_of_inj, H. }
      assert (L : ghost h k <> None).
      { intros L. rewrite L in G. cbn in G. rewrite (regkey_eqb_neq k k0 Hn) in G. discriminate. }
      destruct (ghost h k); [|congruence]. cbn [is_some].
      destruct (enabled (k_tr k0)); [|reflexivity]. destruct (tracked (run h) k0); rewrite A; reflexivity.
  - unfold bump. destruct (regkey_eq_dec k k0) as [<-|Hn].
    + rewrite regkey_eqb_refl. destruct (enabled (k_tr k)) eqn:En.
      * rewrite T. destruct (ghost h k); cbn [is_some]; rewrite (aget_aput_same tkey_eqb tkey_eqb_eq);
          [destruct (aget tkey_eqb (tkey_of k) c); lia | reflexivity].
      * rewrite (ghost_disabled h k En) in G. cbn in G. rewrite regkey_eqb_refl, En in G. discriminate.
    + rewrite (regkey_eqb_neq k k0 Hn).
      assert (A : forall n (c0 : list (tkey * N)), aget tkey_eqb (tkey_of k) (aput tkey_eqb (tkey_of k0) n c0) = aget tkey_eqb (tkey_of k) c0).
      { intros. apply (aget_aput_other tkey_eqb tkey_eqb_eq). intros H. apply Hn. symmetry. apply tkey_of_inj, H. }
      assert (L : ghost h k <> None).
      { intros L. rewrite L in G. cbn in G. rewrite (regkey_eqb_neq k k0 Hn) in G. discriminate. }
      destruct (ghost h k); [|congruence]. cbn [is_some].
      destruct (enabled (k_tr k0)); [|reflexivity]. destruct (tracked (run h) k0); rewrite A; reflexivity.
  - unfold first_only. destruct (regkey_eq_dec k k0) as [<-|Hn].
    + rewrite T. destruct (ghost h k); cbn [is_some negb]; [rewrite andb_false_r; reflexivity|].
      destruct (enabled (k_tr k)) eqn:En; cbn [andb]; [rewrite (aget_aput_same tkey_eqb tkey_eqb_eq); reflexivity|].
      cbn in G. rewrite regkey_eqb_refl, En in G. discriminate.
    + assert (L : ghost h k <> None).
      { intros L. rewrite L in G. cbn in G. rewrite (regkey_eqb_neq k k0 Hn) in G. discriminate. }
      destruct (ghost h k); [|congruence]. cbn [is_some].
      destruct (enabled (k_tr k0) && negb (tracked (run h) k0)); [|reflexivity].
      rewrite (aget_aput_other tkey_eqb tkey_eqb_eq); [reflexivity|]. intros H. apply Hn. symmetry. apply tkey_of_inj, H.
  - unfold first_only. destruct (regkey_eq_dec k k0) as [<-|Hn].
    + rewrite T. destruct (ghost h k); cbn [is_some negb]; [rewrite andb_false_r; reflexivity|].
      destruct (enabled (k_tr k)) eqn:En; cbn [andb]; [rewrite (aget_aput_same tkey_eqb tkey_eqb_eq); reflexivity|].
      cbn in G. rewrite regkey_eqb_refl, En in G. discriminate.
    + assert (L : ghost h k <> None).
      { intros L. rewrite L in G. cbn in G. rewrite (regkey_eqb_neq k k0 Hn) in G. discriminate. }
      destruct (ghost h k); [|congruence]. cbn [is_some].
      destruct (enabled (k_tr k0) && negb (tracked (run h) k0)); [|reflexivity].
      rewrite (aget_aput_other tkey_eqb tkey_eqb_eq); [reflexivity|]. intros H. apply Hn. symmetry. apply tkey_of_inj, H.
  - destruct (ghost h k) as [[a u]|]; [reflexivity|]. cbn in G. destruct (regkey_eqb k k0); discriminate.
  - destruct (ghost h k) as [[a u]|]; [reflexivity | discriminate].
  - destruct (ghost h k) as [[a u]|] eqn:Gh; [|discriminate]. cbn [is_some].
    rewrite (aget_filter_keys (fun key => is_some (aget tkey_eqb key (timeouts (run (h ++ [Sweep])))))).
    fold (has_timeout (run (h ++ [Sweep])) k).
    rewrite (has_timeout_tracked _ k (run_inv (h ++ [Sweep]))), T'. reflexivity.
  - destruct (ghost h k); [reflexivity | discriminate].
  - destruct (ghost h k); [reflexivity | discriminate].
Qed.

Lemma regcount_ghost h k : regcount (xrun h) k = gcount h k.
Proof.
  induction h as [|o h IH] using rev_ind.
  - unfold regcount. cbn. destruct (tracked init k); reflexivity.
  - rewrite regcount_step, gcount_snoc, IH. reflexivity.
Qed.

(* plain reading of the ghost count: a life starts at 1, every further Track/TrackNX adds 1 *)
Lemma gcount_positive h k : (0 < gcount h k) <-> ghost h k <> None.
Proof.
  induction h as [|o h IH] using rev_ind; [cbn; split; [lia | congruence]|].
  rewrite gcount_snoc, ghost_snoc. unfold gcstep. cbn [fst snd].
  destruct (gstep k (ghost h k) o) eqn:G; [|split; [lia | congruence]].
  split; [congruence|]. intros _. destruct (ghost h k) eqn:Gh; [|lia].
  assert (P : 0 < gcount h k) by (apply IH; congruence).
  destruct o; try exact P; destruct (regkey_eqb k k0); lia.
Qed.
