(* C08 lemmas, part 8: the sweep's statistics (removeOldRegistrations' two results, which feed AddExpiredRegs and
   Stat().ExpireReg) refine the specification: the set of indices a sweep collects is exactly the set of registrations
   whose specification life ends at this sweep, each once; the "valid" count is over those that were validated. *)
From CJ Require Import Common.Base C08.Model C08.Proofs C08.Invariant C08.Sweep C08.History C08.Counters.
From Coq Require Import Lia ZifyN ZifyNat ZifyBool.

Lemma tkey_of_key_regkey key : tkey_of (key_regkey key) = key.
Proof. destruct key as [ph [t s]]. reflexivity. Qed.

Lemma expired_set_exact h key :
  In key (get_expired (run h)) <->
  exists a u, ghost h (key_regkey key) = Some (a, u) /\ kept a u = false.
Proof.
  destruct (refinement h) as [I V]. rewrite (in_get_expired (run h) key I), <- V.
  unfold view. rewrite tkey_of_key_regkey. split.
  - intros [t [E R]]. destruct (inv_rec (run h) I key t E) as (_ & _ & En).
    change (k_tr (key_regkey key)) with (fst (snd key)). rewrite En, E.
    exists (now (run h) - t_born t), (t_used t). split; [reflexivity|].
    rewrite rec_expired_kept in R. destruct (kept _ _); [discriminate | reflexivity].
  - intros (a & u & G & K). destruct (enabled (k_tr (key_regkey key))); [|discriminate].
    destruct (aget tkey_eqb key (timeouts (run h))) as [t|]; [|discriminate].
    exists t. split; [reflexivity|]. injection G as <- <-. rewrite rec_expired_kept, K. reflexivity.
Qed.

Lemma valid_at_gvalid h key : In key (get_expired (run h)) -> valid_at (run h) key = gvalid h (key_regkey key).
Proof.
  intros H. rewrite <- valid_ghost. destruct (refinement h) as [I _].
  apply (in_get_expired (run h) key I) in H as [t [E _]]. destruct (inv_rec (run h) I key t E) as (_ & _ & En).
  unfold valid_at, valid, registration_exists. change (k_tr (key_regkey key)) with (fst (snd key)). rewrite En.
  destruct key as [ph [tr s]]. unfold key_regkey, ident_of. cbn [k_ph k_tr k_secret fst snd].
  destruct (get2 (decoys (run h)) ph (tr, s)) as [[|]|]; reflexivity.
Qed.

Lemma expiry_stat_ghost h :
  let E := get_expired (run h) in
  emits (run h) Sweep =
    [EvExpired (N.of_nat (length E)) (N.of_nat (length (filter (fun key => gvalid h (key_regkey key)) E)))] /\
  NoDup E /\
  (forall key, In key E <-> exists a u, ghost h (key_regkey key) = Some (a, u) /\ kept a u = false).
Proof.
  cbv zeta. split; [|split].
  - cbn [emits]. f_equal. f_equal. f_equal. f_equal. apply filter_ext_in. intros key H. apply valid_at_gvalid. exact H.
  - apply nodup_get_expired, run_inv.
  - intros key. apply expired_set_exact.
Qed.
