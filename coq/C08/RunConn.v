(* C08: evaluation of the handler-level model on recorded handler histories (correspondence check of the
   connection lane).  A case is a history of registry operations, connections that went through the real
   handleNewTCPConn and tunnel closes, with what the real RegistrationManager showed after every event. *)
From CJ Require Import Common.Base C08.Model C08.ModelConn C08.Run.

Record cobs := {
  co_base : obs;              (* the observables of the registry lane (C08/Run.v) *)
  co_recognised : bool;       (* connect: the handler found the registration and relayed (the covert's echo came back) *)
  co_used : list regkey;      (* alphabet keys whose timeout record is marked used *)
  co_open : N                 (* handler invocations that have not returned *)
}.

Record ccase := {
  cc_keys : list regkey;
  cc_phantoms : list N;
  cc_unused_ns : N;
  cc_active_ns : N;
  cc_hist : list (hev * cobs)
}.

Definition as_case (c : ccase) : case :=
  {| c_keys := cc_keys c; c_phantoms := cc_phantoms c; c_unused_ns := cc_unused_ns c;
     c_active_ns := cc_active_ns c; c_hist := [] |}.

(* the handler over the extended state (regCount side map): the event as the registry operation it performs;
   an event that leaves the registry alone is the empty time step *)
Definition lower (s : st) (e : hev) : rop :=
  match e with
  | HReg o => o
  | HConnect _ k => if matches s k then MarkActive k else Advance 0
  | HClose _ => Advance 0
  end.

Record cxst := { cx_x : xst; cx_open : list (N * regkey) }.
Definition cxinit : cxst := {| cx_x := xinit; cx_open := [] |}.

Definition cxstep (x : cxst) (e : hev) : cxst :=
  {| cx_x := xstep (cx_x x) (lower (x_base (cx_x x)) e);
     cx_open := h_open (hstep {| h_reg := x_base (cx_x x); h_open := cx_open x |} e) |}.

Definition is_used (s : st) (k : regkey) : bool :=
  match aget tkey_eqb (tkey_of k) (timeouts s) with Some t => t_used t | None => false end.

Definition check_cobs (c : ccase) (x0 : cxst) (e : hev) (ob : cobs) : bool :=
  let s0 := x_base (cx_x x0) in
  let x := cxstep x0 e in
  let s := x_base (cx_x x) in
  check_obs (as_case c) (cx_x x0) (lower s0 e) (co_base ob)
  && Bool.eqb (co_recognised ob) (match e with HConnect _ k => matches s0 k | _ => false end)
  && forallb (fun k => Bool.eqb (is_used s k) (mem_key k (co_used ob))) (cc_keys c)
  && (N.of_nat (length (co_used ob)) =? N.of_nat (length (filter (is_used s) (cc_keys c))))
  && (N.of_nat (length (cx_open x)) =? co_open ob).

Fixpoint check_chist (c : ccase) (x : cxst) (h : list (hev * cobs)) : bool :=
  match h with
  | [] => true
  | (e, ob) :: r => check_cobs c x e ob && check_chist c (cxstep x e) r
  end.

Definition chk_cmodel (c : ccase) : bool :=
  (cc_unused_ns c =? timeout_unused) && (cc_active_ns c =? timeout_active)
  && check_chist c cxinit (cc_hist c).

(* the handler-level specification (hgstep: no table) next to the real observations: after every event the
   implementation tracks exactly the registrations whose life is running, matches exactly the validated ones,
   has marked used exactly those that have carried a connection, and a connection is recognised iff its
   registration is alive and validated when it arrives *)
Record hk := { hk_key : regkey; hk_lv : hlife }.

Definition hk_find (k : regkey) (gs : list hk) : option hk := find (fun g => regkey_eqb k (hk_key g)) gs.

Definition check_cspec_obs (gs0 gs : list hk) (e : hev) (ob : cobs) : bool :=
  forallb (fun g =>
             let '(l, v) := hk_lv g in
             Bool.eqb (is_some l) (is_some (find_tracked (hk_key g) (o_tracked (co_base ob))))
             && Bool.eqb (is_some l && v) (mem_key (hk_key g) (o_matched (co_base ob)))
             && Bool.eqb (match l with Some (_, u) => u | None => false end) (mem_key (hk_key g) (co_used ob))) gs
  && Bool.eqb (co_recognised ob)
       (match e with
        | HConnect _ k => match hk_find k gs0 with Some g => is_some (fst (hk_lv g)) && snd (hk_lv g) | None => false end
        | _ => false
        end).

Fixpoint check_chist_spec (gs : list hk) (h : list (hev * cobs)) : bool :=
  match h with
  | [] => true
  | (e, ob) :: r =>
      let gs' := map (fun g => {| hk_key := hk_key g; hk_lv := hgstep (hk_key g) (hk_lv g) e |}) gs in
      check_cspec_obs gs gs' e ob && check_chist_spec gs' r
  end.

Definition chk_cspec (c : ccase) : bool :=
  check_chist_spec (map (fun k => {| hk_key := k; hk_lv := (None, false) |}) (cc_keys c)) (cc_hist c).

Definition chk_conn (c : ccase) : bool := chk_cmodel c && chk_cspec c.

(* diagnostics *)
Fixpoint first_cbad (c : ccase) (x : cxst) (i : nat) (h : list (hev * cobs)) : option nat :=
  match h with
  | [] => None
  | (e, ob) :: r => if check_cobs c x e ob then first_cbad c (cxstep x e) (S i) r else Some i
  end.
Fixpoint first_cbad_spec (gs : list hk) (i : nat) (h : list (hev * cobs)) : option nat :=
  match h with
  | [] => None
  | (e, ob) :: r =>
      let gs' := map (fun g => {| hk_key := hk_key g; hk_lv := hgstep (hk_key g) (hk_lv g) e |}) gs in
      if check_cspec_obs gs gs' e ob then first_cbad_spec gs' (S i) r else Some i
  end.
Definition where_cbad (c : ccase) : option nat * option nat :=
  (first_cbad c cxinit 0 (cc_hist c),
   first_cbad_spec (map (fun k => {| hk_key := k; hk_lv := (None, false) |}) (cc_keys c)) 0 (cc_hist c)).
