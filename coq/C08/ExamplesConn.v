(* C08: non-vacuity of the handler-level theorems (C08/Props.v, the theorems named C08_conn_...). *)
From CJ Require Import Common.Base C08.Model C08.ModelConn C08.Conn.
From Coq Require Import Lia ZifyN.

Definition k1 : regkey := {| k_secret := 1; k_tr := Min; k_ph := 0 |}.
Definition k2 : regkey := {| k_secret := 2; k_tr := Prefix; k_ph := 0 |}.
Definition minute : N := 60 * 1000000000.

(* before the connection: two registrations, one validated; 5 minutes old *)
Definition h_before : list hev :=
  [HReg (Validate k1); HReg (Track k2); HReg (Advance (5 * minute)); HReg Sweep].
(* after it: the tunnel is never closed; sweeps at 11 min, 3 h, 5 h 59 min; a second connection; a duplicate *)
Definition h_after : list hev :=
  [HReg (Advance (6 * minute)); HReg Sweep; HReg (Advance (169 * minute)); HReg Sweep; HConnect 8 k1;
   HReg (Track k1); HReg (Advance (179 * minute)); HReg Sweep].

Example ex_hyp_match : matches (h_reg (hrun h_before)) k1 = true /\ hage h_before k1 = Some (5 * minute).
Proof. vm_compute. auto. Qed.

Example ex_hyp_bound : 5 * minute + helapsed h_after <= six_h.
Proof. vm_compute. discriminate. Qed.

(* open_tunnel_kept applies: 5 h 59 min old, tunnel 7 still open, tracked and matching *)
Example ex_open_tunnel_kept :
  tracked (h_reg (hrun (h_before ++ HConnect 7 k1 :: h_after))) k1 = true /\
  h_open (hrun (h_before ++ HConnect 7 k1 :: h_after)) = [(8, k1); (7, k1)] /\
  tracked (h_reg (hrun (h_before ++ HConnect 7 k1 :: h_after))) k2 = false.
Proof. vm_compute. auto. Qed.

(* matched_exact, both sides of the bound: 2 more minutes and the sweep removes it, open tunnels or not *)
Example ex_matched_exact_removed :
  tracked (h_reg (hrun (h_before ++ HConnect 7 k1 :: (h_after ++ [HReg (Advance (2 * minute))]) ++ [HReg Sweep]))) k1 = false /\
  6 * 60 * minute < 5 * minute + helapsed (h_after ++ [HReg (Advance (2 * minute))]).
Proof. vm_compute. auto. Qed.

Example ex_no_restart : forall o, In (HReg o) h_after -> starts o k2 = false.
Proof. intros o H. cbn in H. repeat (destruct H as [H|H]; [inversion H; reflexivity|]). contradiction. Qed.

(* conn_never_late: the witness split is the connection itself *)
Example ex_handler_only : handler_only (h_before ++ HConnect 7 k1 :: h_after).
Proof. intros k H. cbn in H. repeat (destruct H as [H|H]; [discriminate|]). contradiction. Qed.

(* the trace: the handler history as a registry history *)
Example ex_trace :
  htrace (h_before ++ [HConnect 7 k1; HConnect 9 k2; HClose 7]) =
  [Validate k1; Track k2; Advance (5 * minute); Sweep; MarkActive k1].
Proof. vm_compute. reflexivity. Qed.
