(* C09: evaluation of the model on recorded schedules (correspondence check). *)
From CJ Require Import Common.Base C09.Model.
From Coq Require Import Arith PeanoNat.
Local Open Scope nat_scope.

(* ---------------- part A: controlled schedules ---------------- *)

(* (tracked object, valid, regcount, covert resolved, timeout record present, used) *)
Definition snapT := (option nat * bool * nat * bool * bool * bool)%type.

Definition snap (c : cfg) (k : nat) : snapT :=
  let '(o, v, n, r) := match decoys c k with
                       | Some o => (Some o, o_valid (objs c o), o_regcount (objs c o), o_resolved (objs c o))
                       | None => (None, false, 0, false)
                       end in
  let '(p, u) := match timeouts c k with Some t => (true, t_used t) | None => (false, false) end in
  (o, v, n, r, p, u).

Definition onat_eqb (a b : option nat) : bool := option_eqb Nat.eqb a b.

Definition snap_eqb (a b : snapT) : bool :=
  let '(o1, v1, n1, r1, p1, u1) := a in let '(o2, v2, n2, r2, p2, u2) := b in
  onat_eqb o1 o2 && Bool.eqb v1 v2 && Nat.eqb n1 n2 &&
  (* the covert of an untracked key is not observable *)
  (match o1 with Some _ => Bool.eqb r1 r2 | None => true end) && Bool.eqb p1 p2 && Bool.eqb u1 u2.

(* visible events: (kind, key, object, resolved); kind 0 announce, 1 update, 2 seen by a handler *)
Definition vis := (nat * nat * nat * bool)%type.
Definition vis_of (e : event) : option vis :=
  match e with
  | EAnn k o r => Some (0, k, o, r)
  | EUpd k => Some (1, k, 0, false)
  | ESeen k o r => Some (2, k, o, r)
  | _ => None
  end.
Fixpoint vis_list (l : list event) : list vis :=
  match l with
  | [] => []
  | e :: r => match vis_of e with Some v => v :: vis_list r | None => vis_list r end
  end.
Definition vis_eqb (a b : vis) : bool :=
  let '(k1, a1, b1, r1) := a in let '(k2, a2, b2, r2) := b in
  Nat.eqb k1 k2 && Nat.eqb a1 a2 && Nat.eqb b1 b2 && Bool.eqb r1 r2.

Definition point_of (th : thread) : nat :=
  match th with
  | TWorker _ W0 => 0 | TWorker _ W1 => 1 | TWorker _ W2 => 2 | TWorker _ W3 => 3 | TWorker _ W4 => 4
  | TWorker _ WEnd => 5
  | TSweeper (S0 _) => 8 | TSweeper (S1 _ _) => 6 | TSweeper (S2 _ _) => 7 | TSweeper SEnd => 5
  | THandler _ H0 => 0 | THandler _ (H1 _) => 9 | THandler _ HEnd => 5
  | TReload _ false => 0 | TReload _ true => 5
  | TNone => 10
  end.

(* one recorded step: the action, where the thread parked afterwards (10 = it had
   already finished, 11 = ageing, 12 = it panicked), the table as seen after the
   step for every key of the case, the visible events of the step *)
Definition ostep := (act * nat * list snapT * list vis)%type.

Definition step_ok (split share : bool) (ks : list nat) (c : cfg) (s : ostep) : cfg * bool :=
  let '(a, pt, snaps, evs) := s in
  let c' := step split share c a in
  let new := rev (firstn (length (trace c') - length (trace c)) (trace c')) in
  let pt_ok := match a with
               | Age _ _ => true
               | Run t _ =>
                   if thread_ended (thr c t) then Nat.eqb pt 10
                   else if panicked c' && negb (panicked c) then Nat.eqb pt 12
                   else Nat.eqb pt (point_of (thr c' t))
               end in
  (c', pt_ok && list_eqb snap_eqb (map (snap c') ks) snaps && list_eqb vis_eqb (vis_list new) evs).

Fixpoint steps_ok (split share : bool) (ks : list nat) (c : cfg) (l : list ostep) : cfg * bool :=
  match l with
  | [] => (c, true)
  | s :: r => let '(c', ok) := step_ok split share ks c s in
              if ok then steps_ok split share ks c' r else (c', false)
  end.

Definition count_shares (tr : list event) : nat :=
  length (filter (fun e => match e with EShare _ => true | _ => false end) tr).

(* (split, share, threads, keys, steps, (dup, err, blocked, adds, active), shares) *)
Definition ocase := (bool * bool * list thread * list nat * list ostep * (nat * nat * nat * nat * Z) * nat)%type.

Definition chk (oc : ocase) : bool :=
  let '(split, share, ths, ks, steps, st, sh) := oc in
  let '(d, e, b, a, act) := st in
  let '(c, ok) := steps_ok split share ks (init ths) steps in
  ok && negb (bad c) &&
  (* error / blocklist counters are recorded but not compared: how rejections are accounted is not
     what this property is about *)
  Nat.eqb (n_dup c) d && Nat.eqb (n_adds c) a &&
  Z.eqb (Z.of_nat (n_adds c) - Z.of_nat (n_expvalid c)) act &&
  Nat.eqb (count_shares (trace c)) sh.

(* index of the first step that disagrees (for the report) *)
Fixpoint first_bad (split share : bool) (ks : list nat) (c : cfg) (l : list ostep) (i : nat) : option nat :=
  match l with
  | [] => None
  | s :: r => let '(c', ok) := step_ok split share ks c s in
              if ok then first_bad split share ks c' r (S i) else Some i
  end.

(* ---------------- part B: the distributor ---------------- *)

(* (fixed, nw, cap, work, actions, (received, enqueued, dropped, buffered, taken)) *)
Definition pcase := (bool * nat * nat * nat * list pact * (nat * nat * nat * nat * nat))%type.

Definition busy_count (nw : nat) (p : pcfg) : nat :=
  length (filter (fun i => match p_w p i with PBusy _ => true | _ => false end) (seq 0 nw)).

(* the paced schedule of the driver offers every thread a step after every message; disabled ones are skipped *)
Definition prun_skip (fixed : bool) (nw cap work : nat) (p : pcfg) (l : list pact) : pcfg :=
  fold_left (fun p a => match pstep fixed nw cap work p a with Some p' => p' | None => p end) l p.

Definition pchk (pc : pcase) : bool :=
  let '(fixed, nw, cap, work, acts, obs) := pc in
  let '(r, e, d, b, t) := obs in
  match Some (prun_skip fixed nw cap work (pinit fixed) acts) with
  | None => false
  | Some p => Nat.eqb (p_received p) r && Nat.eqb (p_enqueued p) e && Nat.eqb (p_dropped p) d &&
              Nat.eqb (p_buf p) b && Nat.eqb (busy_count nw p) t
  end.

(* ---------------- compact case encoding ----------------
   A recorded schedule is shipped as one byte string (Coq elaborates a string literal much faster
   than a nested tuple); every field is one byte.  The decoder is checked against a structured
   literal in Examples.v.

   case   := split share nthreads thread* nkeys nsteps step* dup err blocked adds active shares
   thread := 0 key covert tr_ok detector npol ph_blocked^npol cov_ok^npol needs live   (worker)
           | 1 n | 2 key | 3 p                                         (sweeper, handler, reload)
   step   := 0 t choice point snap^nkeys nev ev^nev  |  1 key ageidx point snap^nkeys nev ev^nev
   snap   := obj+1 (0 = untracked)  flags (1 valid, 2 resolved, 4 timeout, 8 used)  regcount
   ev     := kind key obj resolved *)

Definition bN := list N.
Definition dec (A : Type) := bN -> option (A * bN).

Definition d_nat : dec nat := fun l => match l with x :: r => Some (N.to_nat x, r) | [] => None end.
Definition d_bool : dec bool := fun l => match l with x :: r => Some (negb (x =? 0)%N, r) | [] => None end.
Definition d_bind {A B} (f : dec A) (g : A -> dec B) : dec B :=
  fun l => match f l with Some (a, r) => g a r | None => None end.
Definition d_ret {A} (a : A) : dec A := fun l => Some (a, l).
Notation "x <- f ;; g" := (d_bind f (fun x => g)) (at level 61, f at next level, right associativity).

Fixpoint d_rep {A} (n : nat) (f : dec A) : dec (list A) :=
  match n with
  | O => d_ret []
  | S k => x <- f ;; r <- d_rep k f ;; d_ret (x :: r)
  end.

Definition AGE_TABLE : list N := [299000000000; 660000000000; 25200000000000]%N.

Definition d_thread : dec thread :=
  kind <- d_nat ;;
  match kind with
  | 0 => k <- d_nat ;; cv <- d_nat ;; tr <- d_bool ;; det <- d_bool ;; np <- d_nat ;;
         pb <- d_rep np d_bool ;; co <- d_rep np d_bool ;; needs <- d_bool ;; live <- d_bool ;;
         d_ret (TWorker (mkMsg k cv tr det pb co needs live) W0)
  | 1 => n <- d_nat ;; d_ret (TSweeper (S0 n))
  | 2 => k <- d_nat ;; d_ret (THandler k H0)
  | _ => p <- d_nat ;; d_ret (TReload p false)
  end.

Definition d_snap : dec snapT :=
  o <- d_nat ;; f <- d_nat ;; n <- d_nat ;;
  d_ret (match o with 0 => None | S o' => Some o' end,
         Nat.testbit f 0, n, Nat.testbit f 1, Nat.testbit f 2, Nat.testbit f 3).

Definition d_vis : dec vis :=
  kind <- d_nat ;; k <- d_nat ;; o <- d_nat ;; r <- d_bool ;; d_ret (kind, k, o, r).

Definition d_step (nkeys : nat) : dec ostep :=
  ak <- d_nat ;; a <- d_nat ;; b <- d_nat ;; pt <- d_nat ;;
  snaps <- d_rep nkeys d_snap ;; nev <- d_nat ;; evs <- d_rep nev d_vis ;;
  d_ret (match ak with 0 => Run a b | _ => Age a (nth b AGE_TABLE 0%N) end, pt, snaps, evs).

Definition d_case : dec ocase :=
  split <- d_bool ;; share <- d_bool ;; nt <- d_nat ;; ths <- d_rep nt d_thread ;;
  nk <- d_nat ;; ns <- d_nat ;; steps <- d_rep ns (d_step nk) ;;
  du <- d_nat ;; er <- d_nat ;; bl <- d_nat ;; ad <- d_nat ;; ac <- d_nat ;; sh <- d_nat ;;
  d_ret (split, share, ths, seq 0 nk, steps, (du, er, bl, ad, Z.of_nat ac), sh).

Definition dec_case (b : bytes) : option ocase :=
  match d_case b with Some (oc, []) => Some oc | _ => None end.

Definition chkb (b : bytes) : bool :=
  match dec_case b with Some oc => chk oc | None => false end.

Definition first_badb (b : bytes) : option nat :=
  match dec_case b with
  | Some (split, share, ths, ks, steps, _, _) => first_bad split share ks (init ths) steps 0
  | None => Some 999
  end.
