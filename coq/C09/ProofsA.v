(* C09 lemmas, part A: invariants of the shared registration table under every
   schedule of any number of workers, handlers, reloads and the sweeper. *)
From CJ Require Import Common.Base C09.Model.
From Coq Require Import Arith PeanoNat Lia.
Local Open Scope nat_scope.

Lemma upd_same {A} (f : nat -> A) i v : upd f i v i = v.
Proof. unfold upd. now rewrite Nat.eqb_refl. Qed.
Lemma upd_other {A} (f : nat -> A) i j v : j <> i -> upd f i v j = f j.
Proof. unfold upd. intros H. destruct (Nat.eqb_spec j i); congruence. Qed.

(* the key of the worker that owns object o *)
Definition okey (c : cfg) (o : nat) : option nat :=
  match thr c o with TWorker m _ => Some (m_key m) | _ => None end.

(* every announcement happened while the key had no live announcement; every
   handler sighting while it had one *)
Fixpoint ann_ok (tr : list event) : Prop :=
  match tr with
  | [] => True
  | EAnn k _ _ :: r => live_ann k r = false /\ ann_ok r
  | ESeen k _ _ :: r => live_ann k r = true /\ ann_ok r
  | _ :: r => ann_ok r
  end.

Record TI (c : cfg) : Prop := mkTI {
  ti_key : forall k o, decoys c k = Some o -> okey c o = Some k;
  ti_sync : forall k, timeouts c k = None <-> decoys c k = None;
  ti_live : forall k, live_ann k (trace c) = true <->
                      exists o, decoys c k = Some o /\ o_valid (objs c o) = true;
  ti_cnt : forall k, tracks_since k (trace c) =
                     match decoys c k with Some o => o_regcount (objs c o) | None => 0 end;
  ti_ann : ann_ok (trace c);
  ti_keys : forall k, timeouts c k <> None -> In k (keys c);
  ti_nodup : NoDup (keys c)
}.

Lemma TI_init ths : TI (init ths).
Proof.
  constructor; cbn; intros; try discriminate; try tauto; auto.
  - split; [discriminate|]. intros (o & H & _). discriminate.
  - constructor.
Qed.

(* changes that touch neither the tables nor the trace nor a worker's key *)
Lemma TI_ext c c' :
  decoys c' = decoys c -> timeouts c' = timeouts c -> objs c' = objs c -> trace c' = trace c ->
  keys c' = keys c -> (forall o, okey c' o = okey c o) -> TI c -> TI c'.
Proof.
  intros Hd Ht Ho Hr Hk Hy [A B C D E F G].
  constructor; rewrite ?Hd, ?Ht, ?Ho, ?Hr, ?Hk; auto.
  intros k o H. rewrite Hy. auto.
Qed.

Lemma live_ann_other e k tr :
  (forall k' o r, e <> EAnn k' o r) -> (forall k', e <> ERemove k') -> live_ann k (e :: tr) = live_ann k tr.
Proof. intros H1 H2. destruct e; cbn; auto; [exfalso; eapply H1|exfalso; eapply H2]; reflexivity. Qed.

Lemma tracks_other e k tr :
  (forall k' o, e <> ETrack k' o) -> (forall k' o, e <> EBump k' o) -> (forall k', e <> ERemove k') ->
  tracks_since k (e :: tr) = tracks_since k tr.
Proof.
  intros H1 H2 H3. destruct e; cbn; auto; exfalso; [eapply H1|eapply H2|eapply H3]; reflexivity.
Qed.

(* ---- the primitives preserve the table invariant ---- *)

Lemma add_key_in k ks : In k (add_key k ks).
Proof.
  unfold add_key. destruct (existsb (Nat.eqb k) ks) eqn:E; [|now left].
  apply existsb_exists in E. destruct E as (x & Hx & E). apply Nat.eqb_eq in E. now subst.
Qed.
Lemma add_key_incl k k' ks : In k' ks -> In k' (add_key k ks).
Proof. unfold add_key. destruct (existsb (Nat.eqb k) ks); auto. intros; now right. Qed.
Lemma add_key_nodup k ks : NoDup ks -> NoDup (add_key k ks).
Proof.
  unfold add_key. intros H. destruct (existsb (Nat.eqb k) ks) eqn:E; auto.
  constructor; auto. intros I. assert (existsb (Nat.eqb k) ks = true); [|congruence].
  apply existsb_exists. exists k. split; auto. apply Nat.eqb_refl.
Qed.

Lemma TI_fresh_track c k w :
  TI c -> okey c w = Some k -> decoys c k = None -> TI (fresh_track c k w).
Proof.
  intros [A B C D E F G] Hw Hn. unfold fresh_track.
  constructor; cbn.
  - intros k' o. unfold upd. destruct (Nat.eqb_spec k' k).
    + intros H; inversion H; subst. exact Hw.
    + apply A.
  - intros k'. unfold upd. destruct (Nat.eqb_spec k' k); [split; discriminate|apply B].
  - intros k'. rewrite (C k'). unfold upd at 1. destruct (Nat.eqb_spec k' k).
    + subst. split.
      * intros (o & H & _). congruence.
      * intros (o & H & V). inversion H; subst. rewrite upd_same in V. discriminate.
    + split; intros (o & H & V); exists o; split; auto.
      * rewrite upd_other; auto. intros ->. specialize (A _ _ H). congruence.
      * rewrite upd_other in V; auto. intros ->. specialize (A _ _ H). congruence.
  - intros k'. unfold upd at 1. destruct (Nat.eqb_spec k' k).
    + subst. rewrite Nat.eqb_refl, upd_same. cbn. rewrite D, Hn. reflexivity.
    + destruct (Nat.eqb_spec k k'); [congruence|]. rewrite D.
      destruct (decoys c k') eqn:K; auto. rewrite upd_other; auto.
      intros ->. specialize (A _ _ K). congruence.
  - exact E.
  - intros k'. unfold upd. destruct (Nat.eqb_spec k' k).
    + subst. intros _. apply add_key_in.
    + intros H. apply add_key_incl. auto.
  - now apply add_key_nodup.
Qed.

Lemma TI_bump c k o w :
  TI c -> decoys c k = Some o -> TI (bump c k o w).
Proof.
  intros [A B C D E F G] Hk. unfold bump, set_objs.
  constructor; cbn; auto.
  - intros k'. rewrite (C k'). split; intros (o' & H & V); exists o'; split; auto.
    + unfold upd. destruct (Nat.eqb_spec o' o); subst; auto.
    + unfold upd in V. destruct (Nat.eqb_spec o' o); subst; auto.
  - intros k'. destruct (Nat.eqb_spec k k').
    + subst. rewrite Hk, upd_same. cbn. rewrite D, Hk. reflexivity.
    + rewrite D. destruct (decoys c k') eqn:K; auto. rewrite upd_other; auto.
      intros ->. pose proof (A _ _ K). pose proof (A _ _ Hk). congruence.
Qed.

Lemma TI_track c k w : TI c -> okey c w = Some k -> TI (track c k w).
Proof.
  intros T Hw. unfold track. destruct (decoys c k) eqn:K.
  - now apply TI_bump.
  - now apply TI_fresh_track.
Qed.

Lemma okey_fresh_track c k w o : okey (fresh_track c k w) o = okey c o.
Proof. reflexivity. Qed.

Lemma TI_register pinned c k w : TI c -> okey c w = Some k -> TI (register pinned c k w).
Proof.
  intros T Hw. unfold register.
  set (c1 := match decoys c k with Some _ => c | None => fresh_track c k w end).
  assert (T1 : TI c1).
  { unfold c1. destruct (decoys c k) eqn:K; auto. now apply TI_fresh_track. }
  clearbody c1. destruct (decoys c1 k) as [o|] eqn:K; auto.
  destruct (negb pinned && negb (Nat.eqb o w)); auto.
  destruct (o_valid (objs c1 o)) eqn:V; auto.
  destruct T1 as [A B C D E F G]. unfold set_objs.
  constructor; cbn; auto.
  - intros k'. destruct (Nat.eqb_spec k k').
    + subst. split; auto. intros _. exists o. split; auto. now rewrite upd_same.
    + rewrite (C k'). split; intros (o' & H & V'); exists o'; split; auto.
      * rewrite upd_other; auto. intros ->. pose proof (A _ _ H). pose proof (A _ _ K). congruence.
      * rewrite upd_other in V'; auto. intros ->. pose proof (A _ _ H). pose proof (A _ _ K). congruence.
  - intros k'. rewrite D. destruct (decoys c1 k') eqn:K'; auto.
    unfold upd. destruct (Nat.eqb_spec n o); subst; auto.
  - split; auto. destruct (live_ann k (trace c1)) eqn:L; auto.
    apply C in L. destruct L as (o' & H & V'). congruence.
Qed.

Lemma TI_add_irrelevant e c :
  (forall k' o r, e <> EAnn k' o r) -> (forall k' o r, e <> ESeen k' o r) -> (forall k', e <> ERemove k') ->
  (forall k' o, e <> ETrack k' o) -> (forall k' o, e <> EBump k' o) ->
  TI c -> TI (add_event e c).
Proof.
  intros H1 H2 H3 H4 H5 [A B C D E F G]. constructor; unfold add_event; cbn [decoys timeouts objs trace keys thr okey]; auto.
  - intros k. rewrite live_ann_other; auto.
  - intros k. rewrite tracks_other; auto.
  - destruct e; cbn; auto; exfalso; [eapply H1|eapply H2]; reflexivity.
Qed.

Lemma TI_resolve c w : TI c -> TI (resolve c w).
Proof.
  intros T. unfold resolve. apply TI_add_irrelevant; try discriminate.
  destruct T as [A B C D E F G]. unfold set_objs. constructor; cbn; auto.
  - intros k. rewrite (C k). split; intros (o & H & V); exists o; split; auto.
    + unfold upd. destruct (Nat.eqb_spec o w); subst; auto.
    + unfold upd in V. destruct (Nat.eqb_spec o w); subst; auto.
  - intros k. rewrite D. destruct (decoys c k); auto. unfold upd. destruct (Nat.eqb_spec n w); subst; auto.
Qed.

Lemma TI_stats c d e b a x : TI c -> TI (set_stats c d e b a x).
Proof. apply TI_ext; auto. Qed.

Lemma TI_validate pinned share c w m : TI c -> okey c w = Some (m_key m) -> TI (validate pinned share c w m).
Proof.
  intros T Hw. unfold validate.
  set (c1 := if m_detector m && share then add_event (EShare w) c else c).
  assert (T1 : TI c1).
  { unfold c1. destruct (m_detector m && share); auto. apply TI_add_irrelevant; auto; discriminate. }
  assert (K1 : okey c1 w = Some (m_key m)).
  { unfold c1. destruct (m_detector m && share); auto. }
  clearbody c1.
  destruct (m_detector m && at_pol (m_ph_blocked m) (pol c)).
  - now apply TI_stats.
  - apply TI_stats. now apply TI_register.
Qed.

Lemma TI_remove_key c k : TI c -> TI (remove_key c k).
Proof.
  intros T. unfold remove_key. destruct (timeouts c k) eqn:Tk.
  2:{ revert T. apply TI_ext; auto. }
  destruct (decoys c k) as [o|] eqn:K; auto.
  set (c1 := if o_valid (objs c o) then inc_expvalid c else c).
  assert (T1 : TI c1) by (unfold c1; destruct (o_valid (objs c o)); auto; now apply TI_stats).
  assert (E1 : decoys c1 = decoys c /\ timeouts c1 = timeouts c /\ objs c1 = objs c /\ trace c1 = trace c /\ keys c1 = keys c).
  { unfold c1. destruct (o_valid (objs c o)); auto. }
  destruct E1 as (Ed & Et & Eo & Er & Ek). clearbody c1.
  destruct T1 as [A B C D E F G].
  constructor; cbn.
  - intros k' o'. unfold upd. destruct (Nat.eqb_spec k' k); [discriminate|apply A].
  - intros k'. unfold upd. destruct (Nat.eqb_spec k' k); [tauto|apply B].
  - intros k'. unfold upd. destruct (Nat.eqb_spec k k').
    + subst. rewrite Nat.eqb_refl. split; [discriminate|]. intros (o' & H & _). discriminate.
    + destruct (Nat.eqb_spec k' k); [congruence|]. apply C.
  - intros k'. unfold upd. destruct (Nat.eqb_spec k k').
    + subst. now rewrite Nat.eqb_refl.
    + destruct (Nat.eqb_spec k' k); [congruence|]. apply D.
  - exact E.
  - intros k'. unfold upd. destruct (Nat.eqb_spec k' k); [congruence|apply F].
  - exact G.
Qed.

Lemma TI_set_thr c t th :
  (match thr c t, th with
   | TWorker m _, TWorker m' _ => m = m'
   | TWorker _ _, _ => False
   | _, TWorker _ _ => False
   | _, _ => True
   end) -> TI c -> TI (set_thr c t th).
Proof.
  intros H. apply TI_ext; auto. intros o. unfold okey, set_thr; cbn. unfold upd.
  destruct (Nat.eqb_spec o t); auto. subst.
  destruct (thr c t), th; try tauto; subst; auto.
Qed.

Lemma okey_stats c d e b a x o : okey (set_stats c d e b a x) o = okey c o.
Proof. reflexivity. Qed.

(* ---- one step ---- *)

Lemma wstep_TI split share c w m pc c' pc' :
  TI c -> thr c w = TWorker m pc -> wstep split share c w m pc = (c', pc') ->
  TI c' /\ (forall o, okey c' o = okey c o).
Proof.
  intros T Hw H.
  assert (K : okey c w = Some (m_key m)) by (unfold okey; now rewrite Hw).
  destruct pc; cbn in H.
  - destruct (negb (m_tr_ok m)); [inversion H; subst; auto|].
    destruct (negb (m_detector m) && at_pol (m_ph_blocked m) (pol c)).
    { inversion H; subst. split; auto. now apply TI_stats. }
    destruct (decoys c (m_key m)) eqn:D.
    { inversion H; subst. split; auto. apply TI_stats. now apply TI_bump. }
    destruct split; inversion H; subst; auto. split; auto. now apply TI_fresh_track.
  - inversion H; subst. split.
    + now apply TI_track.
    + intros o. unfold track. destruct (decoys c (m_key m)); reflexivity.
  - destruct (at_pol (m_cov_ok m) (pol c)); inversion H; subst; split; auto.
    + now apply TI_resolve.
    + now apply TI_stats.
  - destruct (m_needs_probe m); inversion H; subst; auto. split.
    + now apply TI_validate.
    + intros o. unfold validate, register.
      destruct (m_detector m && share), (m_detector m && at_pol (m_ph_blocked m) (pol c)); cbn;
        repeat match goal with |- context [match ?x with _ => _ end] => destruct x end; reflexivity.
  - destruct (m_live m); inversion H; subst; auto. split.
    + now apply TI_validate.
    + intros o. unfold validate, register.
      destruct (m_detector m && share), (m_detector m && at_pol (m_ph_blocked m) (pol c)); cbn;
        repeat match goal with |- context [match ?x with _ => _ end] => destruct x end; reflexivity.
  - inversion H; subst; auto.
Qed.

Lemma TI_timeouts_some c k t0 t :
  timeouts c k = Some t0 -> TI c ->
  TI (set_tables c (decoys c) (upd (timeouts c) k (Some t)) (objs c) (keys c)).
Proof.
  intros Hk [A B C D E F G]. constructor; cbn; auto.
  - intros k'. unfold upd. destruct (Nat.eqb_spec k' k).
    + subst. split; [discriminate|]. intros H. apply B in H. congruence.
    + apply B.
  - intros k'. unfold upd. destruct (Nat.eqb_spec k' k).
    + subst. intros _. apply F. congruence.
    + apply F.
Qed.

Lemma hstep_TI c k pc c' pc' :
  TI c -> hstep c k pc = (c', pc') -> TI c' /\ (forall o, okey c' o = okey c o).
Proof.
  intros T H. destruct pc; cbn in H.
  - destruct (decoys c k) as [o|] eqn:K; [|inversion H; subst; auto].
    destruct (o_valid (objs c o)) eqn:V; inversion H; subst; auto. split; auto.
    destruct T as [A B C D E F G]. constructor; cbn; auto.
    split; auto. apply C. eauto.
  - destruct (timeouts c k) eqn:Tk; inversion H; subst; auto. split; auto.
    apply TI_add_irrelevant; try discriminate. eapply TI_timeouts_some; eauto.
  - inversion H; subst; auto.
Qed.

Lemma sstep_TI c ch pc c' pc' :
  TI c -> sstep c ch pc = (c', pc') -> TI c' /\ (forall o, okey c' o = okey c o).
Proof.
  intros T H. destruct pc; cbn in H.
  - inversion H; subst; auto.
  - inversion H; subst; auto.
  - destruct (existsb (Nat.eqb ch) l); inversion H; subst.
    + split; [now apply TI_remove_key|]. intros o. unfold remove_key.
      destruct (timeouts c ch); auto. destruct (decoys c ch); auto. destruct (o_valid (objs c n0)); auto.
    + split; auto. revert T. apply TI_ext; auto.
  - inversion H; subst; auto.
Qed.

Lemma step_TI split share c a : TI c -> TI (step split share c a).
Proof.
  intros T. destruct a as [t ch|k d]; cbn.
  - destruct (thr c t) eqn:Ht; auto.
    + destruct (wstep split share c t m pc) as [c' pc'] eqn:W.
      destruct (wstep_TI _ _ _ _ _ _ _ _ T Ht W) as [T' K].
      apply TI_set_thr; auto.
      (* the worker's message is immutable: wstep never writes thr *)
      assert (thr c' = thr c).
      { clear - W. destruct pc; cbn in W;
          repeat match type of W with
                 | (if ?x then _ else _) = _ => destruct x
                 | match ?x with _ => _ end = _ => destruct x
                 end; inversion W; subst; try reflexivity;
          unfold validate, register, track;
          repeat match goal with |- context [match ?x with _ => _ end] => destruct x end; reflexivity. }
      rewrite H, Ht. reflexivity.
    + destruct (sstep c ch pc) as [c' pc'] eqn:S. destruct (sstep_TI _ _ _ _ _ T S) as [T' K].
      apply TI_set_thr; auto.
      assert (thr c' = thr c).
      { clear - S. destruct pc; cbn in S; try (inversion S; subst; reflexivity).
        destruct (existsb (Nat.eqb ch) l); inversion S; subst; try reflexivity.
        unfold remove_key. destruct (timeouts c ch); auto. destruct (decoys c ch); auto.
        destruct (o_valid (objs c n0)); auto. }
      rewrite H, Ht. exact I.
    + destruct (hstep c k pc) as [c' pc'] eqn:S. destruct (hstep_TI _ _ _ _ _ T S) as [T' K].
      apply TI_set_thr; auto.
      assert (thr c' = thr c).
      { clear - S. destruct pc; cbn in S; try (inversion S; subst; reflexivity).
        - destruct (decoys c k); [|inversion S; subst; reflexivity].
          destruct (o_valid (objs c n)); inversion S; subst; reflexivity.
        - destruct (timeouts c k); inversion S; subst; reflexivity. }
      rewrite H, Ht. exact I.
    + destruct done; auto. apply TI_set_thr; cbn; [rewrite Ht; exact I|].
      revert T. apply TI_ext; auto.
  - destruct (timeouts c k) eqn:Tk; auto. eapply TI_timeouts_some; eauto.
Qed.

Lemma run_TI split share acts : forall c, TI c -> TI (run split share c acts).
Proof. induction acts; cbn; intros; auto. apply IHacts. now apply step_TI. Qed.

(* ---- pure list facts about the trace ---- *)

Lemma live_ann_app_no_remove k tr2 tr3 :
  ~ In (ERemove k) tr2 -> live_ann k tr3 = true -> live_ann k (tr2 ++ tr3) = true.
Proof.
  induction tr2 as [|e tr2 IH]; cbn; intros N L; auto.
  assert (~ In (ERemove k) tr2) by tauto. assert (e <> ERemove k) by tauto.
  destruct e; auto.
  - destruct (Nat.eqb k0 k); auto.
  - destruct (Nat.eqb_spec k0 k); subst; [congruence|auto].
Qed.

Lemma ann_ok_app tr1 tr : ann_ok (tr1 ++ tr) -> ann_ok tr.
Proof. induction tr1 as [|e tr1 IH]; cbn; auto. destruct e; tauto. Qed.

Lemma ann_ok_once tr : ann_ok tr -> once_per_lifetime tr.
Proof.
  intros H k tr1 tr2 tr3 o1 r1 o2 r2 E. subst.
  apply ann_ok_app in H. cbn in H. destruct H as [L _].
  destruct (in_dec (fun a b : event => ltac:(decide equality; try apply Nat.eq_dec; try apply Bool.bool_dec) : {a = b} + {a <> b})
                   (ERemove k) tr2) as [I|N]; auto.
  exfalso. rewrite (live_ann_app_no_remove k tr2 (EAnn k o2 r2 :: tr3) N) in L; [discriminate|].
  cbn. now rewrite Nat.eqb_refl.
Qed.

Lemma live_ann_split k tr : live_ann k tr = true ->
  exists tr3 o' r' tr4, tr = tr3 ++ EAnn k o' r' :: tr4 /\ ~ In (ERemove k) tr3.
Proof.
  induction tr as [|e tr IH]; cbn; [discriminate|]. intros L.
  assert (D : (exists o r, e = EAnn k o r) \/ e = ERemove k \/
              ((forall o r, e <> EAnn k o r) /\ e <> ERemove k)).
  { destruct e; try (right; right; split; intros; discriminate).
    - destruct (Nat.eq_dec k0 k); subst; [left; eauto|right; right; split; intros; congruence].
    - destruct (Nat.eq_dec k0 k); subst; [right; left; auto|right; right; split; intros; congruence]. }
  destruct D as [(o & r & ->)|[->|[N1 N2]]].
  - exists [], o, r, tr. split; auto.
  - rewrite Nat.eqb_refl in L. discriminate.
  - assert (L' : live_ann k tr = true).
    { destruct e; auto.
      - destruct (Nat.eqb_spec k0 k); subst; auto. exfalso. eapply N1; reflexivity.
      - destruct (Nat.eqb_spec k0 k); subst; auto; congruence. }
    destruct (IH L') as (tr3 & o' & r' & tr4 & E & N). exists (e :: tr3), o', r', tr4.
    split; [cbn; congruence|]. cbn. intros [X|X]; auto.
Qed.

Lemma ann_ok_seen tr : ann_ok tr -> seen_after_announce tr.
Proof.
  intros H k o r tr1 tr2 E. subst. apply ann_ok_app in H. cbn in H. destruct H as [L _].
  now apply live_ann_split.
Qed.

(* ---- the sweeper never dereferences a missing timeout record ---- *)

Definition sweeping (th : thread) (l : list nat) : Prop :=
  exists n, th = TSweeper (S1 l n) \/ th = TSweeper (S2 l n).

Record SI (c : cfg) : Prop := mkSI {
  si_nopanic : panicked c = false;
  si_one : one_sweeper (thr c);
  si_list : forall t l, sweeping (thr c t) l -> NoDup l /\ forall k, In k l -> timeouts c k <> None
}.

Ltac crush_match H :=
  repeat match type of H with
         | (if ?x then _ else _) = _ => destruct x eqn:?
         | match ?x with _ => _ end = _ => destruct x eqn:?
         end.

Lemma upd_keeps_some {A} (f : nat -> option A) k v k' : f k' <> None -> upd f k (Some v) k' <> None.
Proof. unfold upd. destruct (Nat.eqb k' k); congruence. Qed.

Lemma fresh_track_mono c k w :
  panicked (fresh_track c k w) = panicked c /\ thr (fresh_track c k w) = thr c /\
  forall k', timeouts c k' <> None -> timeouts (fresh_track c k w) k' <> None.
Proof. repeat split; auto. intros k'. cbn. apply upd_keeps_some. Qed.

Lemma register_mono pinned c k w :
  panicked (register pinned c k w) = panicked c /\ thr (register pinned c k w) = thr c /\
  forall k', timeouts c k' <> None -> timeouts (register pinned c k w) k' <> None.
Proof.
  unfold register. destruct (decoys c k) eqn:K.
  - rewrite K. destruct (negb pinned && negb (Nat.eqb n w)); [|destruct (o_valid (objs c n))]; repeat split; auto.
  - destruct (decoys (fresh_track c k w) k); [destruct (negb pinned && negb (Nat.eqb n w)); [|destruct (o_valid _)]|];
      repeat split; auto; intros k'; cbn; apply upd_keeps_some.
Qed.

Lemma validate_mono pinned share c w m :
  panicked (validate pinned share c w m) = panicked c /\ thr (validate pinned share c w m) = thr c /\
  forall k', timeouts c k' <> None -> timeouts (validate pinned share c w m) k' <> None.
Proof.
  unfold validate.
  set (c1 := if m_detector m && share then add_event (EShare w) c else c).
  assert (E : panicked c1 = panicked c /\ thr c1 = thr c /\ timeouts c1 = timeouts c)
    by (unfold c1; destruct (m_detector m && share); auto).
  destruct E as (E1 & E2 & E3). clearbody c1.
  destruct (m_detector m && at_pol (m_ph_blocked m) (pol c)); cbn.
  - rewrite E1, E2, E3. auto.
  - destruct (register_mono pinned c1 (m_key m) w) as (R1 & R2 & R3). rewrite R1, R2, E1, E2. repeat split; auto.
    intros k'. rewrite <- E3. apply R3.
Qed.

Lemma wstep_mono split share c w m pc c' pc' :
  wstep split share c w m pc = (c', pc') ->
  panicked c' = panicked c /\ thr c' = thr c /\ forall k, timeouts c k <> None -> timeouts c' k <> None.
Proof.
  intros H. destruct pc; cbn in H.
  - crush_match H; inversion H; subst; try (repeat split; auto; fail); apply fresh_track_mono.
  - inversion H; subst. unfold track. destruct (decoys c (m_key m)); [repeat split; auto|apply fresh_track_mono].
  - crush_match H; inversion H; subst; repeat split; auto.
  - crush_match H; inversion H; subst; auto. apply validate_mono.
  - crush_match H; inversion H; subst; auto. apply validate_mono.
  - inversion H; subst; auto.
Qed.

Lemma hstep_mono c k pc c' pc' :
  hstep c k pc = (c', pc') ->
  panicked c' = panicked c /\ thr c' = thr c /\ forall k, timeouts c k <> None -> timeouts c' k <> None.
Proof.
  intros H. destruct pc; cbn in H.
  - crush_match H; inversion H; subst; auto.
  - inversion H; subst. destruct (timeouts c k); auto. repeat split; auto. intros k'. cbn. apply upd_keeps_some.
  - inversion H; subst; auto.
Qed.

Lemma sweeping_upd_other (f : nat -> thread) t th t' l :
  t' <> t -> sweeping (upd f t th t') l -> sweeping (f t') l.
Proof. intros N. rewrite upd_other; auto. Qed.

Lemma one_sweeper_upd f t th :
  one_sweeper f -> is_sweeper (f t) = is_sweeper th -> one_sweeper (upd f t th).
Proof.
  intros O E i j. unfold upd. destruct (Nat.eqb_spec i t), (Nat.eqb_spec j t); subst; auto; intros A B.
  - apply O; auto. now rewrite E.
  - apply O; auto. now rewrite E.
Qed.

Lemma remove_nat_in k x l : In x (remove_nat k l) -> In x l.
Proof.
  induction l as [|y l IH]; cbn; auto. destruct (Nat.eqb y k); auto. intros [H|H]; auto.
Qed.
Lemma remove_nat_nodup k l : NoDup l -> NoDup (remove_nat k l) /\ ~ In k (remove_nat k l).
Proof.
  induction 1 as [|y l N ND IH]; cbn; [split; [constructor|auto]|].
  destruct (Nat.eqb_spec y k).
  - subst. split; auto.
  - destruct IH as [I1 I2]. split.
    + constructor; auto. intros X. apply remove_nat_in in X. auto.
    + intros [X|X]; auto.
Qed.

(* a step of a thread that is not the sweeper keeps every timeout record in place *)
Lemma SI_nonsweeper c c' t th :
  SI c -> is_sweeper (thr c t) = false -> is_sweeper th = false ->
  panicked c' = panicked c -> thr c' = thr c -> (forall k, timeouts c k <> None -> timeouts c' k <> None) ->
  SI (set_thr c' t th).
Proof.
  intros [P O L] N1 N2 EP ET M. constructor; cbn.
  - congruence.
  - rewrite ET. apply one_sweeper_upd; auto. congruence.
  - intros t' l S. rewrite ET in S. unfold upd in S. destruct (Nat.eqb_spec t' t).
    + subst. destruct S as (n & [S|S]); subst; discriminate.
    + destruct (L _ _ S) as [L1 L2]. split; auto.
Qed.

Lemma step_SI split share c a : TI c -> SI c -> SI (step split share c a).
Proof.
  intros T S. destruct a as [t ch|k d]; cbn.
  - destruct (thr c t) eqn:Ht; auto.
    + destruct (wstep split share c t m pc) as [c' pc'] eqn:W.
      destruct (wstep_mono _ _ _ _ _ _ _ _ W) as (A & B & C). apply SI_nonsweeper with (c := c); auto.
      now rewrite Ht.
    + (* the sweeper itself *)
      destruct S as [P O L].
      assert (U : forall t' l, t' <> t -> ~ sweeping (thr c t') l).
      { intros t' l N (n & [X|X]); apply N; apply O; rewrite ?X, ?Ht; reflexivity. }
      destruct pc; cbn.
      * (* collect *)
        rewrite P. constructor; cbn; auto.
        -- apply one_sweeper_upd; auto. now rewrite Ht.
        -- intros t' l S. unfold upd in S. destruct (Nat.eqb_spec t' t).
           ++ destruct S as (n' & [S|S]); inversion S; subst. split.
              ** apply NoDup_filter. apply (ti_nodup _ T).
              ** intros k I. apply filter_In in I. destruct I as [_ I]. destruct (timeouts c k); congruence.
           ++ exfalso. eapply U; eauto.
      * rewrite P. constructor; cbn; auto.
        -- apply one_sweeper_upd; auto. now rewrite Ht.
        -- intros t' l' S. unfold upd in S. destruct (Nat.eqb_spec t' t).
           ++ destruct (L t l) as [L1 L2]; [exists n; left; now rewrite Ht|].
              destruct l; [unfold finish_sweep in S; destruct (n <=? 1); destruct S as (n' & [S|S]); discriminate|].
              destruct S as (n' & [S|S]); inversion S; subst. split; auto.
           ++ exfalso. eapply U; eauto.
      * destruct (L t l) as [L1 L2]; [exists n; right; now rewrite Ht|].
        destruct (existsb (Nat.eqb ch) l) eqn:E.
        -- apply existsb_exists in E. destruct E as (x & Hx & E). apply Nat.eqb_eq in E. subst x.
           pose proof (L2 _ Hx) as Tk. unfold remove_key.
           destruct (timeouts c ch) eqn:Tc; [clear Tk|congruence].
           destruct (remove_nat_nodup ch l L1) as [R1 R2].
           assert (F : forall s, sweeping (TSweeper (match remove_nat ch l with [] => finish_sweep n | x :: r => S2 (x :: r) n end)) s ->
                                 s = remove_nat ch l).
           { intros s (n' & [X|X]); destruct (remove_nat ch l); unfold finish_sweep in X; try destruct (n <=? 1);
               inversion X; subst; auto. }
           destruct (decoys c ch) eqn:Dc.
           ++ set (c1 := if o_valid (objs c n0) then inc_expvalid c else c).
              assert (E1 : panicked c1 = false /\ thr c1 = thr c /\ timeouts c1 = timeouts c)
                by (unfold c1; destruct (o_valid (objs c n0)); auto).
              destruct E1 as (E1 & E2 & E3). clearbody c1. cbn. rewrite E1.
              constructor; cbn; auto.
              ** rewrite E2. apply one_sweeper_upd; auto. rewrite Ht. destruct (remove_nat ch l); auto.
              ** intros t' l' S. rewrite E2 in S. unfold upd in S. destruct (Nat.eqb_spec t' t).
                 --- apply F in S. subst l'. split; auto. intros k I. rewrite E3. unfold upd.
                     destruct (Nat.eqb_spec k ch); [subst; tauto|]. apply L2. eapply remove_nat_in; eauto.
                 --- exfalso. eapply U; eauto.
           ++ cbn. rewrite P. constructor; cbn; auto.
              ** apply one_sweeper_upd; auto. rewrite Ht. destruct (remove_nat ch l); auto.
              ** intros t' l' S. unfold upd in S. destruct (Nat.eqb_spec t' t).
                 --- apply F in S. subst l'. split; auto. intros k I. apply L2. eapply remove_nat_in; eauto.
                 --- exfalso. eapply U; eauto.
        -- cbn. rewrite P. constructor; cbn; auto.
           ++ apply one_sweeper_upd; auto. now rewrite Ht.
           ++ intros t' l' S. unfold upd in S. destruct (Nat.eqb_spec t' t).
              ** destruct S as (n' & [S|S]); inversion S; subst. split; auto.
              ** exfalso. eapply U; eauto.
      * rewrite P. constructor; cbn; auto.
        -- apply one_sweeper_upd; auto. now rewrite Ht.
        -- intros t' l' S. unfold upd in S. destruct (Nat.eqb_spec t' t).
           ++ destruct S as (n' & [S|S]); discriminate.
           ++ exfalso. eapply U; eauto.
    + destruct (hstep c k pc) as [c' pc'] eqn:H.
      destruct (hstep_mono _ _ _ _ _ H) as (A & B & C). apply SI_nonsweeper with (c := c); auto.
      now rewrite Ht.
    + destruct done; auto. apply SI_nonsweeper with (c := c); auto. now rewrite Ht.
  - destruct (timeouts c k) eqn:Tk; auto. destruct S as [P O L]. constructor; cbn; auto.
    intros t' l S. destruct (L _ _ S) as [L1 L2]. split; auto. intros k' I. apply upd_keeps_some. auto.
Qed.

Lemma SI_init ths :
  one_sweeper (fun i => nth i ths TNone) -> (forall t, sweeper_idle (nth t ths TNone) = true) -> SI (init ths).
Proof.
  intros O Idle. constructor; cbn; auto. intros t l (n & [S|S]); specialize (Idle t); rewrite S in Idle; discriminate.
Qed.

Lemma run_TI_SI split share acts : forall c, TI c -> SI c -> SI (run split share c acts).
Proof.
  induction acts; cbn; intros; auto. apply IHacts. now apply step_TI. now apply step_SI.
Qed.

(* ---- the statements used by Props.v ---- *)

Lemma announce_once_lemma : forall split share ths acts,
  once_per_lifetime (trace (run split share (init ths) acts)).
Proof. intros. apply ann_ok_once. apply ti_ann. apply run_TI. apply TI_init. Qed.

Lemma visible_lemma : forall split share ths acts,
  seen_after_announce (trace (run split share (init ths) acts)).
Proof. intros. apply ann_ok_seen. apply ti_ann. apply run_TI. apply TI_init. Qed.

Lemma regcount_lemma : forall split share ths acts k,
  let c := run split share (init ths) acts in
  tracks_since k (trace c) = match decoys c k with Some o => o_regcount (objs c o) | None => 0 end.
Proof. intros. apply ti_cnt. apply run_TI. apply TI_init. Qed.

Lemma no_panic_lemma : forall split share ths acts,
  one_sweeper (fun i => nth i ths TNone) -> (forall t, sweeper_idle (nth t ths TNone) = true) ->
  panicked (run split share (init ths) acts) = false.
Proof. intros. apply si_nopanic. apply run_TI_SI. apply TI_init. now apply SI_init. Qed.


(* ---- no thread ever waits for another: every own step of a worker, handler or reload is enabled
   and takes it strictly closer to its end ---- *)

Lemma step_progress : forall split share c t ch,
  is_sweeper (thr c t) = false -> thread_ended (thr c t) = false ->
  own_steps_left (thr (step split share c (Run t ch)) t) < own_steps_left (thr c t).
Proof.
  intros split share c t ch NS NE. cbn. destruct (thr c t) eqn:Ht; try discriminate.
  - destruct (wstep split share c t m pc) as [c' pc'] eqn:W. cbn. rewrite upd_same.
    destruct pc; cbn in W; try discriminate; crush_match W; inversion W; subst; cbn; lia.
  - destruct (hstep c k pc) as [c' pc'] eqn:H. cbn. rewrite upd_same.
    destruct pc; cbn in H; try discriminate; crush_match H; inversion H; subst; cbn; lia.
  - destruct done; [discriminate|]. cbn. rewrite upd_same. cbn. lia.
Qed.

(* what a handler saw stays valid until the key is removed: a lookup that found the registration can
   be placed after every ingest in a serial order, one that did not find it before them *)
Lemma seen_stays_valid_lemma : forall split share ths acts k o r tr1 tr2,
  let c := run split share (init ths) acts in
  trace c = tr1 ++ ESeen k o r :: tr2 -> ~ In (ERemove k) tr1 ->
  exists o', decoys c k = Some o' /\ o_valid (objs c o') = true.
Proof.
  intros split share ths acts k o r tr1 tr2 c E N.
  assert (T : TI c) by (apply run_TI, TI_init).
  apply (ti_live _ T k). rewrite E. apply live_ann_app_no_remove; auto.
  pose proof (ti_ann _ T) as A. rewrite E in A. apply ann_ok_app in A. cbn in A. cbn. tauto.
Qed.

(* ---- an Update is never the first thing the detector hears about a key ---- *)

Definition notupd (e : event) : Prop := forall k, e <> EUpd k.

Ltac grow_cands :=
  first [ exists []; split; [reflexivity|constructor]
        | eexists [_]; split; [reflexivity|repeat constructor; discriminate]
        | eexists [_; _]; split; [reflexivity|repeat constructor; discriminate]
        | eexists [_; _; _]; split; [reflexivity|repeat constructor; discriminate]
        | eexists [_; _; _; _]; split; [reflexivity|repeat constructor; discriminate] ].

Lemma register_grows pinned c k w :
  exists evs, trace (register pinned c k w) = evs ++ trace c /\ Forall notupd evs.
Proof.
  unfold register. destruct (decoys c k) eqn:K.
  - rewrite K. destruct (negb pinned && negb (Nat.eqb n w)); [|destruct (o_valid (objs c n))]; grow_cands.
  - destruct (decoys (fresh_track c k w) k); [destruct (negb pinned && negb (Nat.eqb n w)); [|destruct (o_valid _)]|];
      cbn; grow_cands.
Qed.

Lemma validate_grows pinned share c w m :
  exists evs, trace (validate pinned share c w m) = evs ++ trace c /\ Forall notupd evs.
Proof.
  unfold validate.
  set (c1 := if m_detector m && share then add_event (EShare w) c else c).
  assert (E : exists e1, trace c1 = e1 ++ trace c /\ Forall notupd e1)
    by (unfold c1; destruct (m_detector m && share); cbn; grow_cands).
  destruct E as (e1 & E1 & F1). clearbody c1.
  destruct (m_detector m && at_pol (m_ph_blocked m) (pol c)); cbn.
  - exists e1. auto.
  - destruct (register_grows pinned c1 (m_key m) w) as (e2 & E2 & F2). exists (e2 ++ e1). split.
    + rewrite E2, E1. now rewrite app_assoc.
    + apply Forall_app. auto.
Qed.

Lemma wstep_grows split share c w m pc c' pc' :
  wstep split share c w m pc = (c', pc') -> exists evs, trace c' = evs ++ trace c /\ Forall notupd evs.
Proof.
  intros H. destruct pc; cbn in H.
  - crush_match H; inversion H; subst; cbn; grow_cands.
  - inversion H; subst. unfold track. destruct (decoys c (m_key m)); cbn; grow_cands.
  - crush_match H; inversion H; subst; cbn; grow_cands.
  - crush_match H; inversion H; subst; try grow_cands. apply validate_grows.
  - crush_match H; inversion H; subst; try grow_cands. apply validate_grows.
  - inversion H; subst. grow_cands.
Qed.

Lemma sstep_grows c ch pc c' pc' :
  sstep c ch pc = (c', pc') -> thr c' = thr c /\ exists evs, trace c' = evs ++ trace c /\ Forall notupd evs.
Proof.
  intros S. destruct pc; cbn in S; try (inversion S; subst; split; auto; grow_cands).
  destruct (existsb (Nat.eqb ch) l); inversion S; subst.
  - unfold remove_key. destruct (timeouts c ch); [|split; auto; grow_cands].
    destruct (decoys c ch); [|split; auto; grow_cands].
    destruct (o_valid (objs c n0)); split; auto; cbn; grow_cands.
  - split; auto. grow_cands.
Qed.

Lemma live_ann_In k tr : live_ann k tr = true -> exists o r, In (EAnn k o r) tr.
Proof.
  induction tr as [|e tr IH]; cbn; [discriminate|]. destruct e; intros H;
    try (destruct (IH H) as (o' & r' & I); exists o', r'; now right).
  - destruct (Nat.eqb_spec k0 k).
    + subst. exists o, resolved. now left.
    + destruct (IH H) as (o' & r' & I). exists o', r'. now right.
  - destruct (Nat.eqb_spec k0 k); [discriminate|]. destruct (IH H) as (o' & r' & I). exists o', r'. now right.
Qed.

Fixpoint upd_ok (tr : list event) : Prop :=
  match tr with
  | [] => True
  | EUpd k :: r => (exists o x, In (EAnn k o x) r) /\ upd_ok r
  | _ :: r => upd_ok r
  end.

Definition UI (c : cfg) : Prop :=
  (forall t k o, thr c t = THandler k (H1 o) -> exists o' r, In (EAnn k o' r) (trace c)) /\ upd_ok (trace c).

Lemma upd_ok_app evs tr : Forall notupd evs -> upd_ok tr -> upd_ok (evs ++ tr).
Proof.
  induction 1 as [|e evs N _ IH]; cbn; intros U; auto.
  specialize (IH U). destruct e; auto. exfalso. eapply N; reflexivity.
Qed.

Lemma UI_other c c' t th evs :
  thr c' = thr c -> trace c' = evs ++ trace c -> Forall notupd evs ->
  (forall k o, th <> THandler k (H1 o)) -> UI c -> UI (set_thr c' t th).
Proof.
  intros Eth E F N [U1 U2]. split; cbn.
  - intros t' k o H. unfold upd in H. destruct (Nat.eqb_spec t' t); [exfalso; eapply N; eauto|].
    rewrite Eth in H. destruct (U1 _ _ _ H) as (o' & r & I). exists o', r. rewrite E. apply in_or_app. now right.
  - rewrite E. now apply upd_ok_app.
Qed.

Lemma step_UI split share c a : TI c -> UI c -> UI (step split share c a).
Proof.
  intros T U. destruct a as [t ch|k d]; cbn.
  2:{ destruct (timeouts c k); auto. }
  destruct (thr c t) eqn:Ht; auto.
  - destruct (wstep split share c t m pc) as [c' pc'] eqn:W.
    destruct (wstep_mono _ _ _ _ _ _ _ _ W) as (_ & Eth & _).
    destruct (wstep_grows _ _ _ _ _ _ _ _ W) as (evs & E & F).
    eapply UI_other; eauto. discriminate.
  - destruct (sstep c ch pc) as [c' pc'] eqn:S.
    destruct (sstep_grows _ _ _ _ _ S) as (Eth & evs & E & F).
    eapply UI_other; eauto. discriminate.
  - destruct U as [U1 U2]. destruct pc; cbn.
    + destruct (decoys c k) as [o|] eqn:Hd.
      * destruct (o_valid (objs c o)) eqn:V.
        -- assert (L : live_ann k (trace c) = true) by (apply (ti_live _ T k); eauto).
           destruct (live_ann_In _ _ L) as (o' & r & I).
           split; cbn; auto.
           intros t' k' o0 H. unfold upd in H. destruct (Nat.eqb_spec t' t).
           ++ inversion H; subst. exists o', r. now right.
           ++ destruct (U1 _ _ _ H) as (o1 & r1 & I1). exists o1, r1. now right.
        -- apply (UI_other c c t _ []); auto; try discriminate. split; auto.
      * apply (UI_other c c t _ []); auto; try discriminate. split; auto.
    + destruct (U1 _ _ _ Ht) as (o' & r & I).
      destruct (timeouts c k).
      * split; cbn.
        -- intros t' k' o0 H. unfold upd in H. destruct (Nat.eqb_spec t' t); [discriminate|].
           destruct (U1 _ _ _ H) as (o1 & r1 & I1). exists o1, r1. now right.
        -- split; eauto.
      * apply (UI_other c c t _ []); auto; try discriminate. split; auto.
    + apply (UI_other c c t _ []); auto; try discriminate. split; auto.
  - destruct done; auto. apply (UI_other c (set_pol c p) t _ []); auto. discriminate.
Qed.

Lemma upd_ok_suffix tr1 tr : upd_ok (tr1 ++ tr) -> upd_ok tr.
Proof. induction tr1 as [|e tr1 IH]; cbn; auto. destruct e; tauto. Qed.

Lemma update_after_new_lemma : forall split share ths acts,
  (forall t, handler_fresh (nth t ths TNone) = true) ->
  forall k tr1 tr2, trace (run split share (init ths) acts) = tr1 ++ EUpd k :: tr2 ->
  exists o r, In (EAnn k o r) tr2.
Proof.
  intros split share ths acts F.
  assert (G : forall acts c, TI c -> UI c -> UI (run split share c acts)).
  { induction acts0 as [|a l IH]; cbn; intros; auto. apply IH; [now apply step_TI|now apply step_UI]. }
  assert (U0 : UI (init ths)).
  { split; cbn; auto. intros t k o H. specialize (F t). rewrite H in F. discriminate. }
  destruct (G acts _ (TI_init ths) U0) as [_ U]. intros k tr1 tr2 E. rewrite E in U.
  apply upd_ok_suffix in U. cbn in U. tauto.
Qed.
