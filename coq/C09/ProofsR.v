(* C09 — reload as an operation of the history: every read section of an ingest evaluates ONE
   policy in full (the one in force); the decision of an ingest is that of four policies with
   non-decreasing versions inside its span; it is the decision of a single policy (the run is
   serializable with the reloads as operations) whenever the policies in force during its span
   agree section by section on its message -- in particular when no reload lands inside the span. *)
From CJ Require Import Common.Base C09.Model C09.ModelR.
From Coq Require Import Arith PeanoNat NArith Bool Lia.
Local Open Scope nat_scope.

(* ---- the version counter is the number of reloads of the schedule ---- *)

Lemma rstep_ver split pols c a :
  r_ver (rstep split pols c a) = match a with RReload => S (r_ver c) | RStep _ => r_ver c end.
Proof.
  destruct a as [w|]; cbn; [|reflexivity].
  destruct (r_thr c w) as [m pc vs|]; [|reflexivity].
  destruct (rwstep split (pols (r_ver c)) (r_ver c) m pc vs); reflexivity.
Qed.

Lemma rrun_ver split pols acts : forall c,
  r_ver (rrun split pols c acts) = r_ver c + count_reloads acts.
Proof.
  induction acts as [|a r IH]; intro c; cbn [rrun fold_left count_reloads].
  - lia.
  - change (fold_left (rstep split pols) r (rstep split pols c a)) with (rrun split pols (rstep split pols c a) r).
    rewrite IH, rstep_ver. destruct a; cbn [count_reloads]; lia.
Qed.

Lemma rrun_app split pols c l1 l2 :
  rrun split pols c (l1 ++ l2) = rrun split pols (rrun split pols c l1) l2.
Proof. unfold rrun. apply fold_left_app. Qed.

(* A read section evaluates the policy in force: policy number n, complete, where n is the number
   of reloads that precede the section in the schedule. *)
Lemma section_reads_policy_in_force split pols ms s1 w m pc vs :
  let c1 := rrun split pols (rinit ms) s1 in
  r_thr c1 w = RW m pc vs ->
  let n := count_reloads s1 in
  r_thr (rstep split pols c1 (RStep w)) w =
    RW m (fst (rwstep split (pols n) n m pc vs)) (snd (rwstep split (pols n) n m pc vs)).
Proof.
  intros c1 H n.
  assert (Hv : r_ver c1 = n) by (unfold c1, n; rewrite rrun_ver; reflexivity).
  cbn [rstep]. rewrite H, Hv.
  destruct (rwstep split (pols n) n m pc vs) as [pc' vs'] eqn:E. cbn [r_thr fst snd].
  unfold upd. rewrite Nat.eqb_refl. reflexivity.
Qed.

(* ---- the invariant of a worker ---- *)

Definition good (pols : nat -> pol) (ver : nat) (m : rmsg) (pc : rpc) (vs : list nat) : Prop :=
  match pc with
  | R0 => vs = []
  | RDom => exists v0, vs = [v0] /\ v0 <= ver /\ kdec KEarly (pols v0) m = false
  | RAddr => exists v0 v1, vs = [v1; v0] /\ v0 <= v1 /\ v1 <= ver /\
                           kdec KEarly (pols v0) m = false /\ kdec KDom (pols v1) m = false
  | RAddr2 _ => False
  | RLate => exists v0 v1 v2, vs = [v2; v1; v0] /\ v0 <= v1 /\ v1 <= v2 /\ v2 <= ver /\
                              kdec KEarly (pols v0) m = false /\ kdec KDom (pols v1) m = false /\
                              kdec KAddr (pols v2) m = false
  | REnd acc => exists v0 v1 v2 v3, v0 <= v1 /\ v1 <= v2 /\ v2 <= v3 /\ v3 <= ver /\
                                    last vs 0 = v0 /\ hd 0 vs = v3 /\ acc = mixed pols m v0 v1 v2 v3
  end.

Lemma good_mono pols ver ver' m pc vs : ver <= ver' -> good pols ver m pc vs -> good pols ver' m pc vs.
Proof.
  intros L. destruct pc; cbn [good]; auto.
  - intros (v0 & ? & ? & ?). exists v0. repeat split; auto; lia.
  - intros (v0 & v1 & ? & ? & ? & ? & ?). exists v0, v1. repeat split; auto; lia.
  - intros (v0 & v1 & v2 & ? & ? & ? & ? & ? & ? & ?). exists v0, v1, v2. repeat split; auto; lia.
  - intros (v0 & v1 & v2 & v3 & ? & ? & ? & ? & ? & ? & ?). exists v0, v1, v2, v3. repeat split; auto; lia.
Qed.

Lemma good_step pols v m pc vs pc' vs' :
  good pols v m pc vs -> rwstep false (pols v) v m pc vs = (pc', vs') -> good pols v m pc' vs'.
Proof.
  destruct pc; cbn [good rwstep]; intros G E.
  - (* R0 *) subst vs. destruct (kdec KEarly (pols v) m) eqn:K; inversion E; subst; cbn [good].
    + exists v, v, v, v. repeat split; auto. unfold mixed. rewrite K. reflexivity.
    + exists v. repeat split; auto.
  - (* RDom *) destruct G as (v0 & -> & L0 & K0).
    destruct (kdec KDom (pols v) m) eqn:K; inversion E; subst; cbn [good].
    + exists v0, v, v, v. repeat split; auto. unfold mixed. rewrite K0, K. reflexivity.
    + exists v0, v. repeat split; auto.
  - (* RAddr *) destruct G as (v0 & v1 & -> & L0 & L1 & K0 & K1).
    destruct (kdec KAddr (pols v) m) eqn:K; inversion E; subst; cbn [good].
    + exists v0, v1, v, v. repeat split; auto. unfold mixed. rewrite K0, K1, K. reflexivity.
    + exists v0, v1, v. repeat split; auto.
  - (* RAddr2 *) contradiction.
  - (* RLate *) destruct G as (v0 & v1 & v2 & -> & L0 & L1 & L2 & K0 & K1 & K2).
    inversion E; subst; cbn [good].
    exists v0, v1, v2, v. repeat split; auto. unfold mixed. rewrite K0, K1, K2. reflexivity.
  - (* REnd *) inversion E; subst. exact G.
Qed.

Definition rinv (pols : nat -> pol) (c : rcfg) : Prop :=
  forall w m pc vs, r_thr c w = RW m pc vs -> good pols (r_ver c) m pc vs.

Lemma rinv_init pols ms : rinv pols (rinit ms).
Proof.
  intros w m pc vs. cbn [rinit r_thr]. destruct (nth_error ms w); [|discriminate].
  intro H; inversion H; subst. reflexivity.
Qed.

Lemma rinv_step pols c a : rinv pols c -> rinv pols (rstep false pols c a).
Proof.
  intros I. destruct a as [w|].
  - cbn [rstep]. destruct (r_thr c w) as [m pc vs|] eqn:T; [|exact I].
    destruct (rwstep false (pols (r_ver c)) (r_ver c) m pc vs) as [pc' vs'] eqn:E.
    intros w' m' pc'' vs''. cbn [r_thr r_ver]. unfold upd. destruct (Nat.eqb w' w) eqn:Q.
    + intro H; inversion H; subst. eapply good_step; [apply (I w _ _ _ T)|exact E].
    + apply I.
  - intros w m pc vs. cbn [rstep r_thr r_ver]. intro H.
    eapply good_mono; [|apply (I w _ _ _ H)]. lia.
Qed.

Lemma rinv_run pols acts : forall c, rinv pols c -> rinv pols (rrun false pols c acts).
Proof.
  induction acts as [|a r IH]; intros c I; [exact I|].
  apply (IH (rstep false pols c a)). apply rinv_step, I.
Qed.

(* ---- the theorems ---- *)

(* Whatever the schedule of any number of workers and reloads: the decision of a finished ingest is
   that of four policies, one per read section, each in force in full when its section ran, with
   non-decreasing versions between the first and the last version the ingest read. *)
Lemma ingest_decision_lemma : forall pols ms acts w m acc vs,
  let c := rrun false pols (rinit ms) acts in
  r_thr c w = RW m (REnd acc) vs ->
  exists v0 v1 v2 v3, v0 <= v1 /\ v1 <= v2 /\ v2 <= v3 /\ v3 <= count_reloads acts /\
                      last vs 0 = v0 /\ hd 0 vs = v3 /\ acc = mixed pols m v0 v1 v2 v3.
Proof.
  intros pols ms acts w m acc vs c H.
  pose proof (rinv_run pols acts _ (rinv_init pols ms) w _ _ _ H) as G.
  cbn [good] in G. unfold c in *. rewrite rrun_ver in G. cbn [rinit r_ver] in G. exact G.
Qed.

Lemma agree_on_true p q m :
  agree_on p q m = true -> forall k, kdec k q m = kdec k p m.
Proof.
  unfold agree_on. rewrite !andb_true_iff. intros (((A & B) & C) & D) k.
  apply eqb_prop in A, B, C, D. destruct k; auto.
Qed.

(* Serializability with the reloads as operations: if the policies in force during the span of an
   ingest (from the first to the last version it read) agree section by section on its message,
   its decision is the decision of EACH of them in full: the ingest can be placed before or after
   every reload of its span. *)
Lemma ingest_serial_lemma : forall pols ms acts w m acc vs,
  let c := rrun false pols (rinit ms) acts in
  r_thr c w = RW m (REnd acc) vs ->
  (forall v, last vs 0 <= v <= hd 0 vs -> agree_on (pols (last vs 0)) (pols v) m = true) ->
  forall v, last vs 0 <= v <= hd 0 vs -> acc = ingest_dec (pols v) m.
Proof.
  intros pols ms acts w m acc vs c H A v Rv.
  destruct (ingest_decision_lemma pols ms acts w m acc vs H)
    as (v0 & v1 & v2 & v3 & L0 & L1 & L2 & L3 & E0 & E3 & ->).
  rewrite E0, E3 in *.
  assert (K : forall k u, v0 <= u <= v3 -> kdec k (pols u) m = kdec k (pols v) m).
  { intros k u Ru. rewrite (agree_on_true _ _ _ (A u Ru) k), (agree_on_true _ _ _ (A v Rv) k). reflexivity. }
  unfold mixed, ingest_dec.
  rewrite (K KEarly v0), (K KDom v1), (K KAddr v2), (K KLate v3) by lia. reflexivity.
Qed.

(* ... in particular an ingest whose span contains no reload is judged by the one policy in force. *)
Lemma ingest_no_reload_in_span_lemma : forall pols ms acts w m acc vs,
  let c := rrun false pols (rinit ms) acts in
  r_thr c w = RW m (REnd acc) vs -> last vs 0 = hd 0 vs -> acc = ingest_dec (pols (hd 0 vs)) m.
Proof.
  intros pols ms acts w m acc vs c H E.
  apply (ingest_serial_lemma pols ms acts w m acc vs H).
  - intros v Rv. assert (v = last vs 0) by lia. subst v.
    unfold agree_on. rewrite !eqb_reflx. reflexivity.
  - lia.
Qed.

(* The covert address check alone (the section the allowlist switch and the lists belong to): for
   every schedule, the check of worker w that runs after n reloads lets the ingest continue iff
   policy n, complete, does not refuse the address. *)
Lemma covert_addr_one_policy_lemma : forall pols ms s1 w m vs,
  let c1 := rrun false pols (rinit ms) s1 in
  r_thr c1 w = RW m RAddr vs ->
  let n := count_reloads s1 in
  r_thr (rstep false pols c1 (RStep w)) w =
    RW m (if addr_blocked (p_sw (pols n)) (p_allow (pols n)) (p_block (pols n)) (r_addr m) then REnd false else RLate) (n :: vs).
Proof.
  intros pols ms s1 w m vs c1 H n.
  pose proof (section_reads_policy_in_force false pols ms s1 w m RAddr vs H) as S.
  cbn [rwstep fst snd kdec] in S. exact S.
Qed.

(* the serial run: worker w after exactly n reloads decides ingest_dec (pols n) *)
Lemma rinit_thr ms w m : nth_error ms w = Some m -> r_thr (rinit ms) w = RW m R0 [].
Proof. intro H. cbn [rinit r_thr]. rewrite H. reflexivity. Qed.

Lemma run_reloads split pols n : forall c,
  rrun split pols c (repeat RReload n) = mkR (r_ver c + n) (r_thr c).
Proof.
  induction n as [|n IH]; intro c; cbn [repeat rrun fold_left].
  - destruct c; cbn. f_equal. lia.
  - change (fold_left (rstep split pols) (repeat RReload n) (rstep split pols c RReload))
      with (rrun split pols (rstep split pols c RReload) (repeat RReload n)).
    rewrite IH. cbn [rstep r_ver r_thr]. f_equal. lia.
Qed.

Fixpoint witer (P : pol) (v : nat) (m : rmsg) (k : nat) (st : rpc * list nat) : rpc * list nat :=
  match k with
  | 0 => st
  | S k' => witer P v m k' (rwstep false P v m (fst st) (snd st))
  end.

Lemma run_own_steps pols w m k : forall c pc vs,
  r_thr c w = RW m pc vs ->
  r_thr (rrun false pols c (repeat (RStep w) k)) w =
    RW m (fst (witer (pols (r_ver c)) (r_ver c) m k (pc, vs))) (snd (witer (pols (r_ver c)) (r_ver c) m k (pc, vs))).
Proof.
  induction k as [|k IH]; intros c pc vs H; cbn [repeat rrun fold_left witer fst snd].
  - exact H.
  - change (fold_left (rstep false pols) (repeat (RStep w) k) (rstep false pols c (RStep w)))
      with (rrun false pols (rstep false pols c (RStep w)) (repeat (RStep w) k)).
    destruct (rwstep false (pols (r_ver c)) (r_ver c) m pc vs) as [pc' vs'] eqn:E.
    assert (S1 : r_thr (rstep false pols c (RStep w)) w = RW m pc' vs').
    { cbn [rstep]. rewrite H, E. cbn [r_thr]. unfold upd. rewrite Nat.eqb_refl. reflexivity. }
    assert (V1 : r_ver (rstep false pols c (RStep w)) = r_ver c) by (rewrite rstep_ver; reflexivity).
    rewrite (IH _ _ _ S1), V1. reflexivity.
Qed.

Lemma witer4 P v m :
  fst (witer P v m 4 (R0, [])) = REnd (ingest_dec P m).
Proof.
  unfold ingest_dec. cbn [witer rwstep fst snd].
  destruct (kdec KEarly P m); cbn [witer rwstep fst snd negb andb]; [reflexivity|].
  destruct (kdec KDom P m); cbn [witer rwstep fst snd negb andb]; [reflexivity|].
  destruct (kdec KAddr P m); cbn [witer rwstep fst snd negb andb]; reflexivity.
Qed.

Lemma serial_at_decides pols ms n w m :
  nth_error ms w = Some m ->
  exists vs, r_thr (rrun false pols (rinit ms) (serial_at n w)) w = RW m (REnd (ingest_dec (pols n) m)) vs.
Proof.
  intro H. unfold serial_at. rewrite rrun_app, run_reloads. cbn [rinit r_ver]. rewrite Nat.add_0_l.
  eexists. erewrite run_own_steps by (cbn [r_thr]; apply rinit_thr, H).
  cbn [r_ver]. rewrite witer4. reflexivity.
Qed.

(* The statement in terms of runs: under the agreement hypothesis the concurrent run gives worker w
   the decision that the SERIAL run "w after v reloads" gives it, for every v of its span. *)
Lemma ingest_equals_serial_run_lemma : forall pols ms acts w m acc vs,
  nth_error ms w = Some m ->
  r_thr (rrun false pols (rinit ms) acts) w = RW m (REnd acc) vs ->
  (forall v, last vs 0 <= v <= hd 0 vs -> agree_on (pols (last vs 0)) (pols v) m = true) ->
  forall v, last vs 0 <= v <= hd 0 vs ->
  exists vs', r_thr (rrun false pols (rinit ms) (serial_at v w)) w = RW m (REnd acc) vs'.
Proof.
  intros pols ms acts w m acc vs Hm H A v Rv.
  rewrite (ingest_serial_lemma pols ms acts w m acc vs H A v Rv).
  apply serial_at_decides, Hm.
Qed.

(* link to Model.v: the table LTS's W2 test on the abstracted message is the two covert sections
   under one version, W0 / validate the phantom sections *)
Lemma abs_msg_covert pols n key m v : v < n ->
  at_pol (m_cov_ok (abs_msg pols n key m)) v = negb (kdec KDom (pols v) m) && negb (kdec KAddr (pols v) m).
Proof.
  intro L. unfold at_pol, abs_msg. cbn [m_cov_ok].
  rewrite (nth_indep _ false (covert_ok (pols 0) m)) by (rewrite map_length, seq_length; exact L).
  rewrite (map_nth (fun v => covert_ok (pols v) m) (seq 0 n) 0 v) at 1.
  rewrite seq_nth by exact L. reflexivity.
Qed.

Lemma abs_msg_phantom pols n key m v : v < n ->
  (negb (m_detector (abs_msg pols n key m)) && at_pol (m_ph_blocked (abs_msg pols n key m)) v = kdec KEarly (pols v) m) /\
  (m_detector (abs_msg pols n key m) && at_pol (m_ph_blocked (abs_msg pols n key m)) v = kdec KLate (pols v) m).
Proof.
  intro L. unfold at_pol, abs_msg. cbn [m_ph_blocked m_detector].
  rewrite (nth_indep _ false (ph_blocked (pols 0) m)) by (rewrite map_length, seq_length; exact L).
  rewrite (map_nth (fun v => ph_blocked (pols v) m) (seq 0 n) 0 v).
  rewrite seq_nth by exact L. split; reflexivity.
Qed.
