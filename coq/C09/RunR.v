(* C09 — reload lane: comparison of the model with what the real pipeline did.
   A case: the configurations the run reloaded between, one probe registration, what the real
   policy functions answered for it under each configuration alone (phantom blocklisted, domain
   blocklisted, address blocklisted), whether the real ingest accepted it under each configuration
   alone, and which outcomes were seen while the configuration was being reloaded. *)
From CJ Require Import Common.Base C09.Model C09.ModelR.
From Coq Require Import Arith PeanoNat NArith Bool.
Local Open Scope nat_scope.

Definition rcase := (list pol * rmsg * list (bool * bool * bool) * list bool * bool * bool)%type.

Definition parts_ok (m : rmsg) (p : pol) (x : bool * bool * bool) : bool :=
  let '(phb, dom, ad) := x in
  Bool.eqb phb (in_list (p_phb p) (r_ph m)) && Bool.eqb dom (kdec KDom p m) && Bool.eqb ad (kdec KAddr p m).

Fixpoint forallb2 {A B} (f : A -> B -> bool) (l : list A) (r : list B) : bool :=
  match l, r with
  | [], [] => true
  | a :: l', b :: r' => f a b && forallb2 f l' r'
  | _, _ => false
  end.

Definition mixedp (a b c d : pol) (m : rmsg) : bool :=
  negb (kdec KEarly a m) && negb (kdec KDom b m) && negb (kdec KAddr c m) && negb (kdec KLate d m).

(* the outcomes C09_ingest_decision_monotone_policies allows when the configurations alternate *)
Definition allowed (confs : list pol) (m : rmsg) : list bool :=
  flat_map (fun a => flat_map (fun b => flat_map (fun c => map (fun d => mixedp a b c d m) confs) confs) confs) confs.

Definition rchk (x : rcase) : bool :=
  let '(confs, m, parts, solo, acc_seen, rej_seen) := x in
  forallb2 (parts_ok m) confs parts &&
  forallb2 (fun p s => Bool.eqb s (ingest_dec p m)) confs solo &&
  (negb acc_seen || existsb (fun b => b) (allowed confs m)) &&
  (negb rej_seen || existsb negb (allowed confs m)).
