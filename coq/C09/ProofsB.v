(* C09 lemmas, part B: the distributor of HandleRegUpdates and its worker pool. *)
From CJ Require Import Common.Base C09.Model.
From Coq Require Import Arith PeanoNat Lia.
Local Open Scope nat_scope.

(* ---- received = enqueued + dropped (+ the message in hand), buffer within capacity ---- *)

Definition pinv (cap work : nat) (p : pcfg) : Prop :=
  p_received p = p_enqueued p + p_dropped p + in_hand (p_d p) /\
  p_buf p <= cap /\
  (forall i k, p_w p i = PBusy k -> k < work) /\
  (p_cancel p = false -> p_after p = 0).

Lemma upd_same {A} (f : nat -> A) i v : upd f i v i = v.
Proof. unfold upd. now rewrite Nat.eqb_refl. Qed.
Lemma upd_other {A} (f : nat -> A) i j v : j <> i -> upd f i v j = f j.
Proof. unfold upd. intros H. destruct (Nat.eqb_spec j i); congruence. Qed.

Ltac pfin I3 I4 :=
  repeat split; cbn; auto; try lia; try discriminate;
  try (intros ? ?; unfold upd; match goal with |- context [Nat.eqb ?a ?b] => destruct (Nat.eqb a b) end;
       [try discriminate|apply I3]);
  try (let C := fresh in intros C; try rewrite C; auto).

Lemma first_idle_some nw p i : first_idle nw p = Some i -> i < nw /\ p_w p i = PIdle.
Proof.
  unfold first_idle. intros H. apply find_some in H. destruct H as [I W]. apply in_seq in I.
  unfold w_idle in W. destruct (p_w p i); try discriminate. split; [lia|auto].
Qed.

Lemma pstep_inv nw cap work p a p' :
  pinv cap work p -> pstep true nw cap work p a = Some p' -> pinv cap work p'.
Proof.
  intros (I1 & I2 & I3 & I4) H. destruct a; cbn in H.
  - inversion H; subst; cbn. pfin I3 I4.
  - inversion H; subst; cbn. pfin I3 I4.
  - unfold dstep in H. destruct (p_d p) eqn:D; cbn [in_hand] in I1.
    + inversion H; subst; unfold set_d; cbn. destruct (p_cancel p); pfin I3 I4.
    + destruct (p_cancel p && (pick_ctx || (p_in p =? 0))).
      * inversion H; subst; unfold set_d; cbn. pfin I3 I4.
      * destruct (p_in p); [discriminate|]. inversion H; subst; unfold d_recv; cbn. pfin I3 I4.
    + inversion H; subst. unfold d_handoff. destruct (p_buf p <? cap) eqn:B; cbn.
      * pfin I3 I4. apply Nat.ltb_lt in B. lia.
      * destruct (if cap =? 0 then first_idle nw p else None) as [i|]; cbn; [|pfin I3 I4].
        repeat split; cbn; auto; try lia.
        intros j k. unfold upd. destruct (Nat.eqb j i); [|apply I3].
        unfold busy_of. destruct work; [discriminate|]. intros E. inversion E. lia.
    + destruct (all_workers_done nw p); [|discriminate]. inversion H; subst; unfold set_d; cbn. pfin I3 I4.
    + discriminate.
  - unfold wkstep in H. destruct (i <? nw); [|discriminate].
    destruct (p_w p i) eqn:W.
    + destruct (p_cancel p && (pick_ctx || (p_buf p =? 0))).
      * inversion H; subst; unfold set_w; cbn. pfin I3 I4.
      * destruct (p_buf p) eqn:B; [discriminate|]. inversion H; subst; unfold set_w; cbn.
        repeat split; cbn; auto; try lia.
        intros j k. unfold upd. destruct (Nat.eqb j i).
        -- unfold busy_of. destruct work; [discriminate|]. intros E. inversion E. lia.
        -- apply I3.
    + destruct left.
      * inversion H; subst; unfold set_w; cbn. pfin I3 I4.
      * inversion H; subst; unfold set_w; cbn. repeat split; cbn; auto.
        intros j k. unfold upd. destruct (Nat.eqb j i).
        -- intros E. inversion E; subst. specialize (I3 _ _ W). lia.
        -- apply I3.
    + discriminate.
Qed.

Lemma preach_inv nw cap work p : preach true nw cap work p -> pinv cap work p.
Proof.
  induction 1.
  - cbn. repeat split; cbn; auto; try lia. discriminate.
  - eapply pstep_inv; eauto.
Qed.

(* ---- the distributor never waits for a worker ---- *)

(* whether the distributor can move is decided by the input, the stop request and
   its own program counter alone -- never by what the workers are doing -- until it
   has left the loop and waits for them to finish *)
Lemma distributor_independent_of_workers nw cap work p b w :
  p_d p <> DWait ->
  (dstep true nw cap work p b = None <-> dstep true nw cap work (with_workers p w) b = None).
Proof.
  intros ND. unfold dstep, with_workers; cbn. destruct (p_d p); try tauto.
  - split; discriminate.
  - destruct (p_cancel p && (b || (p_in p =? 0))); [split; discriminate|].
    destruct (p_in p); [tauto|split; discriminate].
  - split; discriminate.
Qed.

(* with a message in hand the hand-over is always enabled; no room (full buffer, or an unbuffered
   channel with no worker waiting) means a counted drop *)
Lemma handoff_total nw cap work p b :
  p_d p = DHave ->
  exists p', dstep true nw cap work p b = Some p' /\ p_d p' = DTop /\
             (can_handoff nw cap p = false -> p_dropped p' = S (p_dropped p) /\ p_enqueued p' = p_enqueued p /\ p_buf p' = p_buf p) /\
             (can_handoff nw cap p = true -> p_enqueued p' = S (p_enqueued p) /\ p_dropped p' = p_dropped p).
Proof.
  intros D. unfold dstep. rewrite D. eexists. split; [reflexivity|]. unfold d_handoff, can_handoff.
  destruct (p_buf p <? cap); cbn; [repeat split; auto; discriminate|].
  destruct (cap =? 0); cbn; [|repeat split; auto; discriminate].
  destruct (first_idle nw p); cbn; repeat split; auto; discriminate.
Qed.

(* while running (no stop request), input available => the distributor has an enabled step *)
Lemma distributor_progress nw cap work p :
  p_cancel p = false -> p_in p > 0 -> (p_d p = DTop \/ p_d p = DSel \/ p_d p = DHave) ->
  exists p', dstep true nw cap work p false = Some p'.
Proof.
  intros C I [D|[D|D]]; unfold dstep; rewrite D.
  - eauto.
  - rewrite C. cbn. destruct (p_in p); [lia|eauto].
  - eauto.
Qed.

(* ---- bounded shutdown ---- *)

Lemma sum_upto_ext f g n : (forall i, i < n -> f i = g i) -> sum_upto f n = sum_upto g n.
Proof. induction n; cbn; intros H; auto. rewrite IHn, H; auto. Qed.

Lemma sum_upto_upd (f : nat -> ppc) i v n :
  i < n ->
  sum_upto (fun j => w_cost (upd f i v j)) n + w_cost (f i) = sum_upto (fun j => w_cost (f j)) n + w_cost v.
Proof.
  induction n; intros H; [lia|]. cbn.
  destruct (Nat.eq_dec i n).
  - subst. rewrite upd_same.
    rewrite (sum_upto_ext (fun j => w_cost (upd f n v j)) (fun j => w_cost (f j))); [lia|].
    intros j Hj. rewrite upd_other; auto. lia.
  - rewrite (upd_other f i n v); auto. assert (i < n) by lia. specialize (IHn H0). lia.
Qed.

Lemma sum_upto_bound f n b : (forall i, i < n -> f i <= b) -> sum_upto f n <= n * b.
Proof. induction n; cbn; intros H; auto. specialize (IHn (fun i Hi => H i (Nat.lt_lt_succ_r _ _ Hi))). specialize (H n (Nat.lt_succ_diag_r n)). lia. Qed.

(* once the stop request is in, every step of the pipeline's own threads strictly
   lowers p_cost; arrivals and the request itself never raise it *)
Lemma cost_decreases nw cap work p a p' :
  pinv cap work p -> p_cancel p = true -> is_pipeline a = true ->
  pstep true nw cap work p a = Some p' -> p_cost nw work p' < p_cost nw work p.
Proof.
  intros (I1 & I2 & I3 & I4) C P H. destruct a; try discriminate; cbn in H.
  - unfold dstep in H. unfold p_cost. destruct (p_d p) eqn:D.
    + inversion H; subst; unfold set_d; cbn. rewrite ?C. cbn. lia.
    + rewrite C in H. cbn in H. destruct (pick_ctx || (p_in p =? 0)).
      * inversion H; subst; unfold set_d; cbn. lia.
      * destruct (p_in p); [discriminate|]. inversion H; subst; unfold d_recv; cbn. lia.
    + inversion H; subst. unfold d_handoff. destruct (p_buf p <? cap); cbn; [lia|].
      destruct (if cap =? 0 then first_idle nw p else None) as [i|] eqn:FI; cbn; [|lia].
      destruct (cap =? 0); [|discriminate]. destruct (first_idle_some _ _ _ FI) as [L W].
      pose proof (sum_upto_upd (p_w p) i (busy_of work) nw L) as E. rewrite W in E. cbn [w_cost] in E.
      unfold busy_of in *. destruct work; cbn in *; lia.
    + destruct (all_workers_done nw p); [|discriminate]. inversion H; subst; unfold set_d; cbn. lia.
    + discriminate.
  - unfold wkstep in H. destruct (i <? nw) eqn:L; [|discriminate]. apply Nat.ltb_lt in L.
    unfold p_cost. destruct (p_w p i) eqn:W.
    + rewrite C in H. cbn in H. destruct (pick_ctx || (p_buf p =? 0)).
      * inversion H; subst; unfold set_w; cbn.
        pose proof (sum_upto_upd (p_w p) i PDone nw L) as E. rewrite W in E. cbn in E. lia.
      * destruct (p_buf p) eqn:B; [discriminate|]. inversion H; subst; unfold set_w; cbn.
        pose proof (sum_upto_upd (p_w p) i (busy_of work) nw L) as E.
        rewrite W in E. cbn [w_cost] in E. unfold busy_of in *. destruct work; cbn in *; lia.
    + destruct left.
      * inversion H; subst; unfold set_w; cbn.
        pose proof (sum_upto_upd (p_w p) i PIdle nw L) as E. rewrite W in E. cbn in E. lia.
      * inversion H; subst; unfold set_w; cbn.
        pose proof (sum_upto_upd (p_w p) i (PBusy left) nw L) as E. rewrite W in E. cbn in E. lia.
    + discriminate.
Qed.

Lemma cost_env nw cap work p a p' :
  is_pipeline a = false -> pstep true nw cap work p a = Some p' ->
  p_cost nw work p' = p_cost nw work p /\ (p_cancel p = true -> p_cancel p' = true).
Proof.
  intros P H. destruct a; try discriminate; cbn in H; inversion H; subst; unfold p_cost; cbn; auto.
Qed.

Lemma cancel_sticky nw cap work p a p' :
  pstep true nw cap work p a = Some p' -> p_cancel p = true -> p_cancel p' = true.
Proof.
  intros H C. destruct a; cbn in H.
  - inversion H; subst; auto.
  - inversion H; subst; auto.
  - unfold dstep in H. destruct (p_d p).
    + inversion H; subst; auto.
    + destruct (p_cancel p && (pick_ctx || (p_in p =? 0))); [inversion H; subst; auto|].
      destruct (p_in p); [discriminate|]. inversion H; subst; auto.
    + inversion H; subst. unfold d_handoff. destruct (p_buf p <? cap); auto.
      destruct (if cap =? 0 then first_idle nw p else None); auto.
    + destruct (all_workers_done nw p); [|discriminate]. inversion H; subst; auto.
    + discriminate.
  - unfold wkstep in H. destruct (i <? nw); [|discriminate]. destruct (p_w p i).
    + destruct (p_cancel p && (pick_ctx || (p_buf p =? 0))); [inversion H; subst; auto|].
      destruct (p_buf p); [discriminate|]. inversion H; subst; auto.
    + destruct left; inversion H; subst; auto.
    + discriminate.
Qed.

Lemma cost_bound nw cap work p : pinv cap work p -> p_cost nw work p <= shutdown_bound nw cap work.
Proof.
  intros (I1 & I2 & I3 & I4). unfold p_cost, shutdown_bound.
  assert (d_cost (p_d p) <= 4) by (destruct (p_d p); cbn; lia).
  assert (d_pending (p_d p) <= 1) by (destruct (p_d p); cbn; lia).
  assert (sum_upto (fun i => w_cost (p_w p i)) nw <= nw * (work + 2)).
  { apply sum_upto_bound. intros i _. destruct (p_w p i) eqn:W; cbn; try lia. specialize (I3 _ _ W). lia. }
  assert ((work + 1) * (p_buf p + d_pending (p_d p)) <= (work + 1) * (cap + 1)) by (apply Nat.mul_le_mono_l; lia).
  lia.
Qed.

Lemma shutdown_steps_bounded nw cap work : forall l p p',
  pinv cap work p -> p_cancel p = true ->
  prun true nw cap work p l = Some p' ->
  pipeline_steps l + p_cost nw work p' <= p_cost nw work p.
Proof.
  induction l as [|a l IH]; intros p p' I C H; cbn in H.
  - inversion H; subst. cbn. lia.
  - destruct (pstep true nw cap work p a) as [q|] eqn:S; [|discriminate].
    pose proof (pstep_inv _ _ _ _ _ _ I S) as Iq.
    pose proof (cancel_sticky _ _ _ _ _ _ S C) as Cq.
    specialize (IH _ _ Iq Cq H). unfold pipeline_steps in *. cbn.
    destruct (is_pipeline a) eqn:P; cbn.
    + pose proof (cost_decreases _ _ _ _ _ _ I C P S). lia.
    + destruct (cost_env _ _ _ _ _ _ P S) as [E _]. lia.
Qed.

(* no deadlock on the way down: while HandleRegUpdates has not returned, one of its threads can move *)
Lemma all_done_false nw p : all_workers_done nw p = false -> exists i, i < nw /\ p_w p i <> PDone.
Proof.
  unfold all_workers_done. intros H.
  assert (exists i, In i (seq 0 nw) /\ match p_w p i with PDone => true | _ => false end = false) as (i & Hi & E).
  { induction (seq 0 nw); cbn in H; [discriminate|].
    destruct (match p_w p a with PDone => true | _ => false end) eqn:E.
    - destruct (IHl H) as (i & Hi & E'). exists i. split; [now right|auto].
    - exists a. split; [now left|auto]. }
  exists i. apply in_seq in Hi. split; [lia|]. intros W. rewrite W in E. discriminate.
Qed.

Lemma shutdown_progress nw cap work p :
  p_cancel p = true -> p_d p <> DDone ->
  exists a p', is_pipeline a = true /\ pstep true nw cap work p a = Some p'.
Proof.
  intros C ND. destruct (p_d p) eqn:D; try congruence.
  - exists (PDistr true). eexists. split; auto. cbn. unfold dstep. rewrite D. eauto.
  - exists (PDistr true). eexists. split; auto. cbn. unfold dstep. rewrite D, C. cbn. eauto.
  - exists (PDistr true). eexists. split; auto. cbn. unfold dstep. rewrite D. eauto.
  - destruct (all_workers_done nw p) eqn:A.
    + exists (PDistr true). eexists. split; auto. cbn. unfold dstep. rewrite D, A. eauto.
    + destruct (all_done_false _ _ A) as (i & L & W). exists (PWork i true).
      cbn. unfold wkstep. apply Nat.ltb_lt in L. rewrite L.
      destruct (p_w p i) eqn:E; try congruence.
      * rewrite C. cbn. eauto.
      * destruct left; eauto.
Qed.

(* at most one registration is taken from the input after the stop request *)
Lemma after_cancel_le_1 nw cap work p :
  preach true nw cap work p ->
  p_after p <= 1 /\ (p_after p = 1 -> p_d p <> DSel) /\ (p_after p = 1 -> p_cancel p = true).
Proof.
  induction 1.
  - cbn. repeat split; try lia; discriminate.
  - destruct IHpreach as (A1 & A2 & A3). destruct a; cbn in H0.
    + inversion H0; subst; cbn. auto.
    + inversion H0; subst; cbn. auto.
    + unfold dstep in H0. destruct (p_d p) eqn:D.
      * inversion H0; subst; unfold set_d; cbn. repeat split; auto.
        intros E. specialize (A3 E). rewrite A3. discriminate.
      * destruct (p_cancel p && (pick_ctx || (p_in p =? 0))).
        -- inversion H0; subst; unfold set_d; cbn. repeat split; auto. discriminate.
        -- destruct (p_in p); [discriminate|]. inversion H0; subst; unfold d_recv; cbn.
           destruct (p_cancel p) eqn:C.
           ++ assert (p_after p = 0) by (destruct (p_after p) as [|[|]]; auto; [exfalso; apply A2; auto|lia]).
              repeat split; auto; try lia; try discriminate.
           ++ repeat split; auto. discriminate.
      * inversion H0; subst. unfold d_handoff. destruct (p_buf p <? cap); [|destruct (if cap =? 0 then first_idle nw p else None)];
          cbn; repeat split; auto; discriminate.
      * destruct (all_workers_done nw p); [|discriminate]. inversion H0; subst; unfold set_d; cbn.
        repeat split; auto; discriminate.
      * discriminate.
    + unfold wkstep in H0. destruct (i <? nw); [|discriminate]. destruct (p_w p i).
      * destruct (p_cancel p && (pick_ctx || (p_buf p =? 0))); [inversion H0; subst; unfold set_w; cbn; auto|].
        destruct (p_buf p); [discriminate|]. inversion H0; subst; unfold set_w; cbn; auto.
      * destruct left; inversion H0; subst; unfold set_w; cbn; auto.
      * discriminate.
Qed.

Lemma preach_prun fixed nw cap work : forall l p p',
  preach fixed nw cap work p -> prun fixed nw cap work p l = Some p' -> preach fixed nw cap work p'.
Proof.
  induction l as [|a l IH]; cbn; intros p p' R H.
  - now inversion H; subst.
  - destruct (pstep fixed nw cap work p a) eqn:S; [|discriminate]. eapply IH; [|exact H]. econstructor; eauto.
Qed.

(* ---- the statements used by Props.v ---- *)

Lemma distributor_never_blocks_lemma : forall nw cap work p,
  preach true nw cap work p ->
  (* every received registration is accounted for: handed over, dropped and counted, or still in hand *)
  p_received p = p_enqueued p + p_dropped p + in_hand (p_d p) /\
  p_buf p <= cap /\
  (* until it has left its loop, whether the distributor can move never depends on the workers *)
  (forall b w, p_d p <> DWait ->
     (dstep true nw cap work p b = None <-> dstep true nw cap work (with_workers p w) b = None)) /\
  (* with input available and no stop request it can always move *)
  (p_cancel p = false -> p_in p > 0 -> p_d p <> DWait -> p_d p <> DDone ->
     exists p', dstep true nw cap work p false = Some p') /\
  (* the hand-over itself never waits: a full buffer is a counted drop *)
  (p_d p = DHave -> forall b, exists p', dstep true nw cap work p b = Some p' /\ p_d p' = DTop /\
  (can_handoff nw cap p = false -> p_dropped p' = S (p_dropped p) /\ p_enqueued p' = p_enqueued p /\ p_buf p' = p_buf p) /\
  (can_handoff nw cap p = true -> p_enqueued p' = S (p_enqueued p) /\ p_dropped p' = p_dropped p)).
Proof.
  intros nw cap work p R. destruct (preach_inv _ _ _ _ R) as (I1 & I2 & _ & _).
  split; [auto|]. split; [auto|]. split.
  - intros b w ND. now apply distributor_independent_of_workers.
  - split.
    + intros C I N1 N2. apply distributor_progress; auto. destruct (p_d p); auto; congruence.
    + intros D b. now apply handoff_total.
Qed.

Lemma shutdown_bounded_lemma : forall nw cap work p,
  preach true nw cap work p -> p_cancel p = true ->
  (* whatever keeps arriving, the threads of the pipeline take a bounded number of steps ... *)
  (forall l p', prun true nw cap work p l = Some p' -> pipeline_steps l <= shutdown_bound nw cap work) /\
  (* ... and as long as HandleRegUpdates has not returned one of them can take a step *)
  (forall l p', prun true nw cap work p l = Some p' -> p_d p' <> DDone ->
     exists a p'', is_pipeline a = true /\ pstep true nw cap work p' a = Some p'') /\
  (* at most one registration is taken from the input after the stop request *)
  p_after p <= 1.
Proof.
  intros nw cap work p R C. pose proof (preach_inv _ _ _ _ R) as I. split; [|split].
  - intros l p' H. pose proof (shutdown_steps_bounded _ _ _ _ _ _ I C H). pose proof (cost_bound nw _ _ _ I). lia.
  - intros l p' H ND. apply shutdown_progress; auto.
    clear R I. revert p C H. induction l as [|a l IH]; intros p C H; cbn in H.
    + inversion H; subst; auto.
    + destruct (pstep true nw cap work p a) eqn:S; [|discriminate]. eapply IH; [|exact H]. eapply cancel_sticky; eauto.
  - apply (after_cancel_le_1 _ _ _ _ R).
Qed.
