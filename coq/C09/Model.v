(* C09 — the registration ingest pipeline as a labelled transition system over
   atomic sections (the code between a lock acquire and its release, or between
   two schedule points), with an explicit scheduler.  Definitions only.

   Part A: workers (ingestRegistration), the expiry sweeper
           (removeOldRegistrations), connection handlers (getRegistrations /
           markActive) and configuration reload over the shared registration
           table.
   Part B: the distributor of HandleRegUpdates and its worker pool
           (overload, shutdown). *)
From CJ Require Import Common.Base.
From Coq Require Import Arith PeanoNat.
Local Open Scope nat_scope.

(* ================================================================== Part A *)

(* What a worker's behaviour depends on.  [m_ph_blocked]/[m_cov_ok] are indexed
   by the policy version in force when the worker reads the policy. *)
Record msg := mkMsg {
  m_key : nat;            (* (phantom, transport identifier) *)
  m_covert : nat;         (* the covert address it asks for *)
  m_tr_ok : bool;         (* complete and transport enabled *)
  m_detector : bool;      (* RegistrationSource = Detector *)
  m_ph_blocked : list bool;
  m_cov_ok : list bool;
  m_needs_probe : bool;   (* not prescanned and IPv4 phantom *)
  m_live : bool           (* what the liveness tester answers *)
}.

Definition at_pol (l : list bool) (p : nat) : bool := nth p l false.

Inductive wpc := W0 | W1 | W2 | W3 | W4 | WEnd.
Inductive spc := S0 (n : nat) | S1 (l : list nat) (n : nat) | S2 (l : list nat) (n : nat) | SEnd.
Inductive hpc := H0 | H1 (o : nat) | HEnd.

Inductive thread :=
| TWorker (m : msg) (pc : wpc)
| TSweeper (pc : spc)
| THandler (k : nat) (pc : hpc)
| TReload (p : nat) (done : bool)
| TNone.

(* The registration object of worker [w] is object [w]. *)
Record obj := mkObj { o_valid : bool; o_regcount : nat; o_resolved : bool }.
Definition obj0 := mkObj false 0 false.
Record tmo := mkTmo { t_age : N; t_used : bool }.

Inductive event :=
| ETrack (k o : nat)
| EBump (k w : nat)
| ECov (w : nat)
| EAnn (k o : nat) (resolved : bool)
| EUpd (k : nat)
| ESeen (k o : nat) (resolved : bool)
| ERemove (k : nat)
| EShare (w : nat).

Record cfg := mkCfg {
  thr : nat -> thread;
  decoys : nat -> option nat;
  timeouts : nat -> option tmo;
  objs : nat -> obj;
  keys : list nat;          (* every key that was ever tracked (domain of the maps) *)
  pol : nat;
  trace : list event;       (* newest first *)
  n_dup : nat; n_err : nat; n_blocked : nat; n_adds : nat; n_expvalid : nat;
  panicked : bool;
  bad : bool                (* the schedule asked for a removal the sweeper had not collected *)
}.

Definition upd {A} (f : nat -> A) (i : nat) (v : A) : nat -> A :=
  fun j => if Nat.eqb j i then v else f j.

Definition set_thr c t th := mkCfg (upd (thr c) t th) (decoys c) (timeouts c) (objs c) (keys c) (pol c) (trace c)
  (n_dup c) (n_err c) (n_blocked c) (n_adds c) (n_expvalid c) (panicked c) (bad c).
Definition set_tables c d t o ks := mkCfg (thr c) d t o ks (pol c) (trace c)
  (n_dup c) (n_err c) (n_blocked c) (n_adds c) (n_expvalid c) (panicked c) (bad c).
Definition set_pol c p := mkCfg (thr c) (decoys c) (timeouts c) (objs c) (keys c) p (trace c)
  (n_dup c) (n_err c) (n_blocked c) (n_adds c) (n_expvalid c) (panicked c) (bad c).
Definition add_event e c := mkCfg (thr c) (decoys c) (timeouts c) (objs c) (keys c) (pol c) (e :: trace c)
  (n_dup c) (n_err c) (n_blocked c) (n_adds c) (n_expvalid c) (panicked c) (bad c).
Definition set_stats c d e b a x := mkCfg (thr c) (decoys c) (timeouts c) (objs c) (keys c) (pol c) (trace c)
  d e b a x (panicked c) (bad c).
Definition inc_dup c := set_stats c (S (n_dup c)) (n_err c) (n_blocked c) (n_adds c) (n_expvalid c).
Definition inc_err c := set_stats c (n_dup c) (S (n_err c)) (n_blocked c) (n_adds c) (n_expvalid c).
Definition inc_blocked c := set_stats c (n_dup c) (n_err c) (S (n_blocked c)) (n_adds c) (n_expvalid c).
Definition inc_adds c := set_stats c (n_dup c) (n_err c) (n_blocked c) (S (n_adds c)) (n_expvalid c).
Definition inc_expvalid c := set_stats c (n_dup c) (n_err c) (n_blocked c) (n_adds c) (S (n_expvalid c)).
Definition set_panicked c := mkCfg (thr c) (decoys c) (timeouts c) (objs c) (keys c) (pol c) (trace c)
  (n_dup c) (n_err c) (n_blocked c) (n_adds c) (n_expvalid c) true (bad c).
Definition set_bad c := mkCfg (thr c) (decoys c) (timeouts c) (objs c) (keys c) (pol c) (trace c)
  (n_dup c) (n_err c) (n_blocked c) (n_adds c) (n_expvalid c) (panicked c) true.
Definition set_objs c o := set_tables c (decoys c) (timeouts c) o (keys c).

Definition add_key (k : nat) (ks : list nat) : list nat :=
  if existsb (Nat.eqb k) ks then ks else k :: ks.

(* RegisteredDecoys.track on a key that is not in the table *)
Definition fresh_track (c : cfg) (k w : nat) : cfg :=
  add_event (ETrack k w)
    (set_tables c (upd (decoys c) k (Some w))
                  (upd (timeouts c) k (Some (mkTmo 0%N false)))
                  (upd (objs c) w (mkObj false 1 (o_resolved (objs c w))))
                  (add_key k (keys c))).

(* ... on a key that is: only the counter of the tracked object moves *)
Definition bump (c : cfg) (k o w : nat) : cfg :=
  add_event (EBump k w)
    (set_objs c (upd (objs c) o (mkObj (o_valid (objs c o)) (S (o_regcount (objs c o))) (o_resolved (objs c o))))).

Definition track (c : cfg) (k w : nat) : cfg :=
  match decoys c k with Some o => bump c k o w | None => fresh_track c k w end.

(* RegisteredDecoys.register: (re-)track if unknown, then set Valid and announce unless already
   valid.  Only the caller's own object is validated ([pinned = true]: the code before that fix
   validated whatever object was tracked under the key). *)
Definition register (pinned : bool) (c : cfg) (k w : nat) : cfg :=
  let c1 := match decoys c k with Some _ => c | None => fresh_track c k w end in
  match decoys c1 k with
  | Some o =>
      if negb pinned && negb (Nat.eqb o w) then c1
      else if o_valid (objs c1 o) then c1
      else add_event (EAnn k o (o_resolved (objs c1 o)))
             (set_objs c1 (upd (objs c1) o (mkObj true (o_regcount (objs c1 o)) (o_resolved (objs c1 o)))))
  | None => c1
  end.

(* the tail of ingestRegistration after the liveness probe *)
Definition validate (pinned share : bool) (c : cfg) (w : nat) (m : msg) : cfg :=
  let c1 := if m_detector m && share then add_event (EShare w) c else c in
  if m_detector m && at_pol (m_ph_blocked m) (pol c) then inc_blocked c1
  else inc_adds (register pinned c1 (m_key m) w).

Definition resolve (c : cfg) (w : nat) : cfg :=
  add_event (ECov w)
    (set_objs c (upd (objs c) w (mkObj (o_valid (objs c w)) (o_regcount (objs c w)) true))).

(* [split = true] is the code as pinned (exists-check and track are two critical
   sections with a schedule point in between, register validates any tracked
   object); [split = false] is the code with TrackRegIfNotExists and register
   validating only the caller's object. *)
Definition wstep (split share : bool) (c : cfg) (w : nat) (m : msg) (pc : wpc) : cfg * wpc :=
  match pc with
  | W0 =>
      if negb (m_tr_ok m) then (c, WEnd)
      else if negb (m_detector m) && at_pol (m_ph_blocked m) (pol c) then (inc_blocked c, WEnd)
      else match decoys c (m_key m) with
           | Some o => (inc_dup (bump c (m_key m) o w), WEnd)
           | None => if split then (c, W1) else (fresh_track c (m_key m) w, W2)
           end
  | W1 => (track c (m_key m) w, W2)
  | W2 => if at_pol (m_cov_ok m) (pol c) then (resolve c w, W3) else (inc_err c, WEnd)
  | W3 => if m_needs_probe m then (c, W4) else (validate split share c w m, WEnd)
  | W4 => if m_live m then (c, WEnd) else (validate split share c w m, WEnd)
  | WEnd => (c, WEnd)
  end.

Definition T_UNUSED : N := 600000000000%N.      (* 10 min in ns *)
Definition T_ACTIVE : N := 21600000000000%N.    (* 6 h *)

Definition expired (t : tmo) : bool :=
  (negb (t_used t) && (T_UNUSED <? t_age t)%N) || (T_ACTIVE <? t_age t)%N.

Definition collect (c : cfg) : list nat :=
  filter (fun k => match timeouts c k with Some t => expired t | None => false end) (keys c).

Definition finish_sweep (n : nat) : spc := if n <=? 1 then SEnd else S0 (n - 1).

(* RegisteredDecoys.removeRegistration(index): dereferences the timeout record *)
Definition remove_key (c : cfg) (k : nat) : cfg :=
  match timeouts c k with
  | None => set_panicked c
  | Some _ =>
      match decoys c k with
      | None => c
      | Some o =>
          let c1 := if o_valid (objs c o) then inc_expvalid c else c in
          add_event (ERemove k) (set_tables c1 (upd (decoys c1) k None) (upd (timeouts c1) k None) (objs c1) (keys c1))
      end
  end.

Fixpoint remove_nat (k : nat) (l : list nat) : list nat :=
  match l with
  | [] => []
  | x :: r => if Nat.eqb x k then r else x :: remove_nat k r
  end.

Definition sstep (c : cfg) (choice : nat) (pc : spc) : cfg * spc :=
  match pc with
  | S0 n => (c, S1 (collect c) n)
  | S1 l n => (c, match l with [] => finish_sweep n | _ => S2 l n end)
  | S2 l n =>
      if existsb (Nat.eqb choice) l then
        (remove_key c choice, match remove_nat choice l with [] => finish_sweep n | l' => S2 l' n end)
      else (set_bad c, S2 l n)
  | SEnd => (c, SEnd)
  end.

Definition hstep (c : cfg) (k : nat) (pc : hpc) : cfg * hpc :=
  match pc with
  | H0 => match decoys c k with
          | Some o => if o_valid (objs c o)
                      then (add_event (ESeen k o (o_resolved (objs c o))) c, H1 o)
                      else (c, HEnd)
          | None => (c, HEnd)
          end
  | H1 _ => (match timeouts c k with
             | Some t => add_event (EUpd k)
                           (set_tables c (decoys c) (upd (timeouts c) k (Some (mkTmo (t_age t) true))) (objs c) (keys c))
             | None => c
             end, HEnd)
  | HEnd => (c, HEnd)
  end.

Inductive act := Run (t choice : nat) | Age (k : nat) (d : N).

Definition step (split share : bool) (c : cfg) (a : act) : cfg :=
  match a with
  | Age k d =>
      match timeouts c k with
      | Some t => set_tables c (decoys c) (upd (timeouts c) k (Some (mkTmo (t_age t + d)%N (t_used t)))) (objs c) (keys c)
      | None => c
      end
  | Run t ch =>
      match thr c t with
      | TWorker m pc => let '(c', pc') := wstep split share c t m pc in set_thr c' t (TWorker m pc')
      | TSweeper pc => let '(c', pc') := sstep c ch pc in
                       set_thr c' t (TSweeper (if panicked c' then SEnd else pc'))
      | THandler k pc => let '(c', pc') := hstep c k pc in set_thr c' t (THandler k pc')
      | TReload p d => if d then c else set_thr (set_pol c p) t (TReload p true)
      | TNone => c
      end
  end.

Definition run (split share : bool) (c : cfg) (acts : list act) : cfg := fold_left (step split share) acts c.

Definition init (ths : list thread) : cfg :=
  mkCfg (fun i => nth i ths TNone) (fun _ => None) (fun _ => None) (fun _ => obj0) [] 0 [] 0 0 0 0 0 false false.

Definition workers (ms : list msg) : list thread := map (fun m => TWorker m W0) ms.

(* ---- observation functions ---- *)

Definition thread_ended (th : thread) : bool :=
  match th with
  | TWorker _ WEnd | TSweeper SEnd | THandler _ HEnd | TReload _ true | TNone => true
  | _ => false
  end.

(* live_ann k tr: an announcement of key k happened since k was last removed *)
Fixpoint live_ann (k : nat) (tr : list event) : bool :=
  match tr with
  | [] => false
  | EAnn k' _ _ :: r => if Nat.eqb k' k then true else live_ann k r
  | ERemove k' :: r => if Nat.eqb k' k then false else live_ann k r
  | _ :: r => live_ann k r
  end.

(* number of track sections executed for key k since it was last removed *)
Fixpoint tracks_since (k : nat) (tr : list event) : nat :=
  match tr with
  | [] => 0
  | ETrack k' _ :: r => if Nat.eqb k' k then S (tracks_since k r) else tracks_since k r
  | EBump k' _ :: r => if Nat.eqb k' k then S (tracks_since k r) else tracks_since k r
  | ERemove k' :: r => if Nat.eqb k' k then 0 else tracks_since k r
  | _ :: r => tracks_since k r
  end.

Definition is_sweeper (th : thread) : bool := match th with TSweeper _ => true | _ => false end.
Definition is_worker (th : thread) : bool := match th with TWorker _ _ => true | _ => false end.
Definition is_reload (th : thread) : bool := match th with TReload _ _ => true | _ => false end.

(* ---- serial execution and the closed form (workers only, policy fixed) ---- *)

(* every worker in turn, each run to completion: four steps suffice without split *)
Definition serial_sched (n : nat) : list act :=
  flat_map (fun i => [Run i 0; Run i 0; Run i 0; Run i 0]) (seq 0 n).

Definition serial (share : bool) (ms : list msg) : cfg :=
  run false share (init (workers ms)) (serial_sched (length ms)).

Definition terminal (n : nat) (c : cfg) : Prop :=
  forall t, t < n -> thread_ended (thr c t) = true.

(* the message of worker t *)
Definition msg_of (c : cfg) (t : nat) : option msg :=
  match thr c t with TWorker m _ => Some m | _ => None end.

(* final view of key k: tracked?, valid, covert resolved, covert value of the tracked object, count *)
Definition view (c : cfg) (k : nat) : option (bool * bool * nat * nat) :=
  match decoys c k with
  | None => None
  | Some o => match msg_of c o with
              | Some m => Some (o_valid (objs c o), o_resolved (objs c o), m_covert m, o_regcount (objs c o))
              | None => Some (o_valid (objs c o), o_resolved (objs c o), 0, o_regcount (objs c o))
              end
  end.

(* announcements as (key, covert value, resolved) *)
Fixpoint announcements (c : cfg) (tr : list event) : list (nat * nat * bool) :=
  match tr with
  | [] => []
  | EAnn k o r :: tl =>
      (k, match msg_of c o with Some m => m_covert m | None => 0 end, r) :: announcements c tl
  | _ :: tl => announcements c tl
  end.

Definition ann_eqb (a b : nat * nat * bool) : bool :=
  let '(k1, c1, r1) := a in let '(k2, c2, r2) := b in Nat.eqb k1 k2 && Nat.eqb c1 c2 && Bool.eqb r1 r2.
Definition count_ann (a : nat * nat * bool) (l : list (nat * nat * bool)) : nat :=
  length (filter (ann_eqb a) l).

(* admission of a message under policy 0 *)
Definition passes (m : msg) : bool :=
  m_tr_ok m && negb (negb (m_detector m) && at_pol (m_ph_blocked m) 0).
Definition admitted (m : msg) : bool :=
  at_pol (m_cov_ok m) 0 && (negb (m_needs_probe m) || negb (m_live m)) &&
  negb (m_detector m && at_pol (m_ph_blocked m) 0).

(* ================================================================== Part B *)
(* HandleRegUpdates: one distributor, [nw] workers, a buffer of capacity [cap].
   The environment pushes messages into the input channel and may cancel.
   A worker's ingest of one message is abstracted to [work] steps that need no
   other thread (the liveness tester answers eventually; C09 part A is about
   what those steps do).  [fixed = false] is the loop as pinned. *)

Inductive dpc :=
| DTop                  (* fixed loop only: about to test ctx.Err() *)
| DSel                  (* waiting for input (pinned: range regChan; fixed: select with ctx.Done()) *)
| DHave                 (* has taken a message: about to hand it over or drop it *)
| DWait                 (* loop left, in wg.Wait() *)
| DDone.

Inductive ppc := PIdle | PBusy (left : nat) | PDone.

Record pcfg := mkP {
  p_in : nat;               (* messages waiting in the input channel *)
  p_buf : nat;              (* messages in the shallow buffer *)
  p_cancel : bool;
  p_d : dpc;
  p_w : nat -> ppc;
  p_received : nat; p_enqueued : nat; p_dropped : nat;
  p_after : nat             (* messages taken from the input after cancellation *)
}.

Inductive pact :=
| PArrive                   (* environment: a registration arrives *)
| PCancel                   (* environment: stop request *)
| PDistr (pick_ctx : bool)  (* the distributor moves; [pick_ctx] resolves a select with several ready cases *)
| PWork (i : nat) (pick_ctx : bool).

Definition set_w p i v := mkP (p_in p) (p_buf p) (p_cancel p) (p_d p) (upd (p_w p) i v)
  (p_received p) (p_enqueued p) (p_dropped p) (p_after p).
Definition set_d p d := mkP (p_in p) (p_buf p) (p_cancel p) d (p_w p)
  (p_received p) (p_enqueued p) (p_dropped p) (p_after p).

Definition all_workers_done (nw : nat) (p : pcfg) : bool :=
  forallb (fun i => match p_w p i with PDone => true | _ => false end) (seq 0 nw).

(* take one message from the input *)
Definition d_recv (p : pcfg) (n : nat) : pcfg :=
  mkP n (p_buf p) (p_cancel p) DHave (p_w p) (S (p_received p)) (p_enqueued p) (p_dropped p)
      (if p_cancel p then S (p_after p) else p_after p).
(* non-blocking hand-off `select { case shallowBuffer <- msg: ; default: drop }`: into the buffer if
   there is room; on an unbuffered channel (capacity 0, i.e. fewer than 10 workers) directly to a
   worker that is waiting in its select; else drop and count *)
Definition w_idle (p : pcfg) (i : nat) : bool := match p_w p i with PIdle => true | _ => false end.
Definition first_idle (nw : nat) (p : pcfg) : option nat := find (w_idle p) (seq 0 nw).
Definition busy_of (work : nat) : ppc := match work with 0 => PIdle | S k => PBusy k end.
Definition can_handoff (nw cap : nat) (p : pcfg) : bool :=
  (p_buf p <? cap) || ((cap =? 0) && match first_idle nw p with Some _ => true | None => false end).
Definition d_handoff (nw cap work : nat) (p : pcfg) (next : dpc) : pcfg :=
  if p_buf p <? cap
  then mkP (p_in p) (S (p_buf p)) (p_cancel p) next (p_w p) (p_received p) (S (p_enqueued p)) (p_dropped p) (p_after p)
  else match (if cap =? 0 then first_idle nw p else None) with
       | Some i => mkP (p_in p) (p_buf p) (p_cancel p) next (upd (p_w p) i (busy_of work))
                       (p_received p) (S (p_enqueued p)) (p_dropped p) (p_after p)
       | None => mkP (p_in p) (p_buf p) (p_cancel p) next (p_w p) (p_received p) (p_enqueued p) (S (p_dropped p)) (p_after p)
       end.

(* Some p' if the action is enabled *)
Definition dstep (fixed : bool) (nw cap work : nat) (p : pcfg) (pick : bool) : option pcfg :=
  match p_d p with
  | DTop => (* if ctx.Err() != nil { break } *)
      Some (set_d p (if p_cancel p then DWait else DSel))
  | DSel =>
      if fixed then
        (* select { case <-ctx.Done(): break; case msg := <-regChan: } *)
        if p_cancel p && (pick || (p_in p =? 0)) then Some (set_d p DWait)
        else match p_in p with 0 => None | S n => Some (d_recv p n) end
      else
        (* for msg := range regChan: only a message wakes the loop *)
        match p_in p with 0 => None | S n => Some (d_recv p n) end
  | DHave =>
      if fixed then
        (* select { case shallowBuffer <- msg: ; default: drop } *)
        Some (d_handoff nw cap work p DTop)
      else
        (* select { case <-ctx.Done(): break; case shallowBuffer <- msg: ; default: drop }
           -- a random choice among the ready cases *)
        if p_cancel p && (pick || negb (p_buf p <? cap)) then Some (set_d p DWait)
        else Some (d_handoff nw cap work p DSel)
  | DWait => if all_workers_done nw p then Some (set_d p DDone) else None
  | DDone => None
  end.

Definition wkstep (nw work : nat) (p : pcfg) (i : nat) (pick : bool) : option pcfg :=
  if i <? nw then
    match p_w p i with
    | PIdle =>
        (* select { case <-ctx.Done(): return; case msg := <-regChan: ... } *)
        if p_cancel p && (pick || (p_buf p =? 0)) then Some (set_w p i PDone)
        else match p_buf p with
             | 0 => None
             | S b => Some (set_w (mkP (p_in p) b (p_cancel p) (p_d p) (p_w p) (p_received p) (p_enqueued p) (p_dropped p) (p_after p))
                              i (busy_of work))
             end
    | PBusy 0 => Some (set_w p i PIdle)
    | PBusy (S k) => Some (set_w p i (PBusy k))
    | PDone => None
    end
  else None.

Definition pstep (fixed : bool) (nw cap work : nat) (p : pcfg) (a : pact) : option pcfg :=
  match a with
  | PArrive => Some (mkP (S (p_in p)) (p_buf p) (p_cancel p) (p_d p) (p_w p) (p_received p) (p_enqueued p) (p_dropped p) (p_after p))
  | PCancel => Some (mkP (p_in p) (p_buf p) true (p_d p) (p_w p) (p_received p) (p_enqueued p) (p_dropped p) (p_after p))
  | PDistr pick => dstep fixed nw cap work p pick
  | PWork i pick => wkstep nw work p i pick
  end.

Definition pinit (fixed : bool) : pcfg :=
  mkP 0 0 false (if fixed then DTop else DSel) (fun _ => PIdle) 0 0 0 0.

Inductive preach (fixed : bool) (nw cap work : nat) : pcfg -> Prop :=
| pr0 : preach fixed nw cap work (pinit fixed)
| pr1 p a p' : preach fixed nw cap work p -> pstep fixed nw cap work p a = Some p' -> preach fixed nw cap work p'.

(* a step of the pipeline itself (not of the environment) *)
Definition is_pipeline (a : pact) : bool := match a with PDistr _ | PWork _ _ => true | _ => false end.

Fixpoint prun (fixed : bool) (nw cap work : nat) (p : pcfg) (l : list pact) : option pcfg :=
  match l with
  | [] => Some p
  | a :: r => match pstep fixed nw cap work p a with Some p' => prun fixed nw cap work p' r | None => None end
  end.

(* cost, in steps of the pipeline's own threads, of winding down from p once cancelled *)
Definition d_cost (d : dpc) : nat :=
  match d with DSel => 4 | DHave => 3 | DTop => 2 | DWait => 1 | DDone => 0 end.
Definition d_pending (d : dpc) : nat := match d with DSel | DHave => 1 | _ => 0 end.
Definition w_cost (w : ppc) : nat := match w with PIdle => 1 | PBusy k => k + 2 | PDone => 0 end.
Fixpoint sum_upto (f : nat -> nat) (n : nat) : nat :=
  match n with 0 => 0 | S k => sum_upto f k + f k end.
Definition p_cost (nw work : nat) (p : pcfg) : nat :=
  d_cost (p_d p) + sum_upto (fun i => w_cost (p_w p i)) nw + (work + 1) * (p_buf p + d_pending (p_d p)).
Definition shutdown_bound (nw cap work : nat) : nat :=
  4 + nw * (work + 2) + (work + 1) * (cap + 1).

Definition in_hand (d : dpc) : nat := match d with DHave => 1 | _ => 0 end.
Definition with_workers (p : pcfg) (w : nat -> ppc) : pcfg :=
  mkP (p_in p) (p_buf p) (p_cancel p) (p_d p) w (p_received p) (p_enqueued p) (p_dropped p) (p_after p).
(* number of steps of the pipeline's own threads in an action list *)
Definition pipeline_steps (l : list pact) : nat := length (filter is_pipeline l).

(* ---- statements about traces (part A) ---- *)

(* between two announcements of a key lies its removal *)
Definition once_per_lifetime (tr : list event) : Prop :=
  forall k tr1 tr2 tr3 o1 r1 o2 r2,
    tr = tr1 ++ EAnn k o1 r1 :: tr2 ++ EAnn k o2 r2 :: tr3 -> In (ERemove k) tr2.

(* every sighting by a handler has an announcement of that key before it with no removal in between *)
Definition seen_after_announce (tr : list event) : Prop :=
  forall k o r tr1 tr2, tr = tr1 ++ ESeen k o r :: tr2 ->
    exists tr3 o' r' tr4, tr2 = tr3 ++ EAnn k o' r' :: tr4 /\ ~ In (ERemove k) tr3.

Definition one_sweeper (f : nat -> thread) : Prop :=
  forall i j, is_sweeper (f i) = true -> is_sweeper (f j) = true -> i = j.

(* a sweeper that has not collected anything yet (every thread starts like that) *)
Definition sweeper_idle (th : thread) : bool :=
  match th with TSweeper (S1 _ _) | TSweeper (S2 _ _) => false | _ => true end.

(* ---- the serial specification of ingest (used by the serializability theorem) ---- *)

(* worker ids in the order of their track sections, newest first *)
Fixpoint ttids (tr : list event) : list nat :=
  match tr with
  | [] => []
  | ETrack _ w :: r => w :: ttids r
  | EBump _ w :: r => w :: ttids r
  | _ :: r => ttids r
  end.

Definition dmsg : msg := mkMsg 0 0 false false [] [] false false.
Definition mof (ms : list msg) (t : nat) : msg := nth t ms dmsg.
Definition cov0 (m : msg) : bool := at_pol (m_cov_ok m) 0.

(* what a station that handles one registration after the other does: the first registration of a
   key owns it, later ones are counted as duplicates *)
Definition sstate := nat -> option (msg * nat).
Definition spec_step (s : sstate) (m : msg) : sstate :=
  match s (m_key m) with
  | Some (om, cnt) => upd s (m_key m) (Some (om, S cnt))
  | None => upd s (m_key m) (Some (m, 1))
  end.
(* messages newest first *)
Fixpoint spec_nf (l : list msg) : sstate :=
  match l with [] => fun _ => None | m :: r => spec_step (spec_nf r) m end.
Definition spec_view (s : sstate) (k : nat) : option (bool * bool * nat * nat) :=
  match s k with
  | Some (om, cnt) => Some (admitted om, cov0 om, m_covert om, cnt)
  | None => None
  end.

(* a worker that has not started (or has finished): every worker starts like that *)
Definition worker_fresh (th : thread) : bool :=
  match th with TWorker _ W0 | TWorker _ WEnd => true | TWorker _ _ => false | _ => true end.

(* whatever a handler is handed, and whatever is announced, had its covert address checked against
   the policy and resolved by its own ingest beforehand *)
Definition covert_checked_before (tr : list event) : Prop :=
  (forall k o r tr1 tr2, tr = tr1 ++ ESeen k o r :: tr2 -> r = true /\ In (ECov o) tr2) /\
  (forall k o r tr1 tr2, tr = tr1 ++ EAnn k o r :: tr2 -> r = true /\ In (ECov o) tr2).

(* an upper bound on the number of own steps a thread still takes (sweeper: see C09_no_panic_in_sweep) *)
Definition own_steps_left (th : thread) : nat :=
  match th with
  | TWorker _ W0 => 5 | TWorker _ W1 => 4 | TWorker _ W2 => 3 | TWorker _ W3 => 2 | TWorker _ W4 => 1
  | TWorker _ WEnd => 0
  | THandler _ H0 => 2 | THandler _ (H1 _) => 1 | THandler _ HEnd => 0
  | TReload _ false => 1 | TReload _ true => 0
  | _ => 0
  end.

(* a handler that has not looked anything up yet (every handler starts like that) *)
Definition handler_fresh (th : thread) : bool := match th with THandler _ (H1 _) => false | _ => true end.
