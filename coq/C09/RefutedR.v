(* C09 — reload as an operation: what is FALSE.
   (1) the variant whose covert address check reads the allowlist switch and the list in two read
       sections (the class of seeded change C09h): a reload between them gives the ingest a decision
       that neither configuration gives, although the two configurations agree section by section;
   (2) the code as pinned, whole-ingest statement: an ingest evaluates the policy in several read
       sections; with a reload between two of them it can be accepted although every policy of the
       history, taken in full, refuses it (open known finding reload-serial:cross-section/...). *)
From CJ Require Import Common.Base C09.Model C09.ModelR C09.ProofsR.
From Coq Require Import Arith PeanoNat NArith Bool Lia.
Local Open Scope nat_scope.

Definition net10 := mkCidr 32 167772160 8.          (* 10.0.0.0/8 *)
Definition net192 := mkCidr 32 3221225984 24.       (* 192.0.2.0/24 *)
Definition ph64 := mkCidr 128 42540766411282592856903984951653826560 64.   (* 2001:db8::/64 *)
Definition ip10 := mkIp 32 167838211.               (* 10.1.2.3 *)
Definition ip192 := mkIp 32 3221226061.             (* 192.0.2.77 *)
Definition ph := mkIp 128 42540766411282592856903984951653826577. (* 2001:db8::11 *)

Definition polBlock := mkPol false [] [net10] [] [].          (* blocklist only *)
Definition polAllow := mkPol true [net192] [] [] [].          (* allowlist *)
Definition polDom := mkPol false [] [] [7] [].                (* a domain pattern that matches host 7 *)
Definition polPh := mkPol false [] [] [] [ph64].              (* phantom blocklist *)

Definition flip (a b : pol) (v : nat) : pol := if Nat.even v then a else b.

Definition m10 := mkRmsg 7 ip10 ph false.
Definition m192 := mkRmsg 8 ip192 ph true.

Definition acc_of (c : rcfg) (w : nat) : option bool :=
  match r_thr c w with RW _ (REnd a) _ => Some a | _ => None end.

(* (1a) blocklist -> allowlist: both refuse 10.1.2.3 in the address section and agree in every
   section; switch read before the reload, list after it: accepted *)
Lemma split_read_accepts_what_both_refuse :
  agree_on polBlock polAllow m10 = true /\
  ingest_dec polBlock m10 = false /\ ingest_dec polAllow m10 = false /\
  acc_of (rrun true (flip polBlock polAllow) (rinit [m10])
               [RStep 0; RStep 0; RStep 0; RReload; RStep 0; RStep 0]) 0 = Some true.
Proof. vm_compute. repeat split. Qed.

(* (1b) allowlist -> blocklist: both accept 192.0.2.77; refused *)
Lemma split_read_refuses_what_both_accept :
  agree_on polAllow polBlock m192 = true /\
  ingest_dec polAllow m192 = true /\ ingest_dec polBlock m192 = true /\
  acc_of (rrun true (flip polAllow polBlock) (rinit [m192])
               [RStep 0; RStep 0; RStep 0; RReload; RStep 0; RStep 0]) 0 = Some false.
Proof. vm_compute. repeat split. Qed.

(* the serializability statement of ProofsR.ingest_serial_lemma is false for the split variant *)
Lemma split_variant_not_serializable :
  ~ (forall pols ms acts w m acc vs,
       r_thr (rrun true pols (rinit ms) acts) w = RW m (REnd acc) vs ->
       (forall v, agree_on (pols 0) (pols v) m = true) ->
       exists v, acc = ingest_dec (pols v) m).
Proof.
  intro H.
  destruct (H (flip polBlock polAllow) [m10] [RStep 0; RStep 0; RStep 0; RReload; RStep 0; RStep 0] 0 m10 true
              [1; 1; 0; 0; 0] eq_refl) as (v & E).
  - intro v. unfold flip. destruct (Nat.even v); vm_compute; reflexivity.
  - unfold flip in E. destruct (Nat.even v); vm_compute in E; discriminate.
Qed.

(* (2) the code as pinned.  The full statement: the decision of every ingest is the decision of ONE
   policy of the history in full. *)
Definition C09_ingest_one_policy_full_statement : Prop :=
  forall pols ms acts w m acc vs,
    r_thr (rrun false pols (rinit ms) acts) w = RW m (REnd acc) vs ->
    exists v, v <= count_reloads acts /\ acc = ingest_dec (pols v) m.

(* domain section under the subnet blocklist configuration, address section under the domain pattern one *)
Lemma cross_section_domain_address :
  ingest_dec polBlock m10 = false /\ ingest_dec polDom m10 = false /\
  acc_of (rrun false (flip polBlock polDom) (rinit [m10])
               [RStep 0; RStep 0; RReload; RStep 0; RStep 0]) 0 = Some true.
Proof. vm_compute. repeat split. Qed.

(* covert sections under the phantom blocklist configuration, late phantom section under the covert one *)
Definition m10d := mkRmsg 7 ip10 ph true.
Lemma cross_section_covert_phantom :
  ingest_dec polPh m10d = false /\ ingest_dec polBlock m10d = false /\
  acc_of (rrun false (flip polPh polBlock) (rinit [m10d])
               [RStep 0; RStep 0; RStep 0; RReload; RStep 0]) 0 = Some true.
Proof. vm_compute. repeat split. Qed.

Lemma ingest_one_policy_full_statement_refuted : ~ C09_ingest_one_policy_full_statement.
Proof.
  intro H.
  destruct (H (flip polBlock polDom) [m10] [RStep 0; RStep 0; RReload; RStep 0; RStep 0] 0 m10 true
              [1; 1; 0; 0] eq_refl) as (v & _ & E).
  unfold flip in E. destruct (Nat.even v); vm_compute in E; discriminate.
Qed.
