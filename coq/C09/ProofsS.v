(* C09 lemmas, part A continued: concurrent ingests are serializable.
   Closed-form argument: every reachable state of the workers-only system is
   described by the serial specification [spec_nf] applied to the messages in
   the order of their track sections; the serial run is one such state. *)
From CJ Require Import Common.Base C09.Model C09.ProofsA.
From Coq Require Import Arith PeanoNat Lia Permutation.
Local Open Scope nat_scope.

Arguments cov0 : simpl never.
Arguments admitted : simpl never.
Arguments passes : simpl never.

Definition wfact (ms : list msg) (c : cfg) (t : nat) (pc : wpc) : Prop :=
  let m := mof ms t in
  match pc with
  | W0 => ~ In t (ttids (trace c)) /\ o_resolved (objs c t) = false
  | W1 => False
  | W2 => decoys c (m_key m) = Some t /\ o_valid (objs c t) = false /\ o_resolved (objs c t) = false
  | W3 => decoys c (m_key m) = Some t /\ o_valid (objs c t) = false /\ o_resolved (objs c t) = true /\
          cov0 m = true
  | W4 => decoys c (m_key m) = Some t /\ o_valid (objs c t) = false /\ o_resolved (objs c t) = true /\
          cov0 m = true /\ m_needs_probe m = true
  | WEnd => decoys c (m_key m) = Some t ->
            o_valid (objs c t) = admitted m /\ o_resolved (objs c t) = cov0 m
  end.

Arguments wfact : simpl never.

Definition spec_of (ms : list msg) (c : cfg) : sstate := spec_nf (map (mof ms) (ttids (trace c))).
Arguments spec_of : simpl never.

Record CF (ms : list msg) (c : cfg) : Prop := mkCF {
  cf_thr : forall t, t < length ms ->
     exists pc, thr c t = TWorker (mof ms t) pc /\ wfact ms c t pc /\
                (pc <> W0 -> passes (mof ms t) = true -> In t (ttids (trace c)));
  cf_none : forall t, length ms <= t -> thr c t = TNone;
  cf_pol : pol c = 0;
  cf_norem : forall k, ~ In (ERemove k) (trace c);
  cf_spec : forall k, match decoys c k with
                      | None => spec_of ms c k = None
                      | Some o => o < length ms /\ In o (ttids (trace c)) /\ m_key (mof ms o) = k /\
                                  spec_of ms c k = Some (mof ms o, o_regcount (objs c o))
                      end;
  cf_nodup : NoDup (ttids (trace c));
  cf_tids : forall t, In t (ttids (trace c)) -> t < length ms /\ passes (mof ms t) = true;
  cf_ann : forall k o r, In (EAnn k o r) (trace c) -> decoys c k = Some o /\ r = true
}.

Lemma nth_workers ms t : nth t (workers ms) TNone = if t <? length ms then TWorker (mof ms t) W0 else TNone.
Proof.
  unfold workers, mof. destruct (Nat.ltb_spec t (length ms)).
  - rewrite (nth_indep _ TNone (TWorker dmsg W0)) by (now rewrite map_length).
    now rewrite (map_nth (fun m => TWorker m W0)).
  - apply nth_overflow. now rewrite map_length.
Qed.

Lemma CF_init ms : CF ms (init (workers ms)).
Proof.
  constructor; cbn; auto.
  - intros t L. exists W0. rewrite nth_workers. apply Nat.ltb_lt in L. rewrite L. repeat split; auto; try congruence.
  - intros t L. rewrite nth_workers. apply Nat.ltb_ge in L. now rewrite L.
  - constructor.
  - intros t [].
  - intros k o r [].
Qed.

(* valid / resolved of an object other than the one written *)
Lemma wfact_frame ms c c' t pc :
  (In t (ttids (trace c')) <-> In t (ttids (trace c))) ->
  decoys c' (m_key (mof ms t)) = decoys c (m_key (mof ms t)) ->
  o_valid (objs c' t) = o_valid (objs c t) -> o_resolved (objs c' t) = o_resolved (objs c t) ->
  wfact ms c t pc -> wfact ms c' t pc.
Proof.
  intros Hi Hd Hv Hr. unfold wfact. destruct pc; cbn; rewrite ?Hd, ?Hv, ?Hr; auto. intros [A B]. split; auto. tauto.
Qed.

(* ---- effects of a worker step ---- *)

(* E1: the step writes at most the flags of the worker's own object; the trace gains no track or
   remove event, and only announcements of tracked objects with a resolved covert *)
Definition notrack (e : event) : Prop :=
  match e with ETrack _ _ | EBump _ _ | ERemove _ => False | _ => True end.

Lemma ttids_notrack evs tr : Forall notrack evs -> ttids (evs ++ tr) = ttids tr.
Proof. induction 1 as [|e evs Qe _ IH]; cbn; auto. destruct e; cbn in *; tauto. Qed.

Lemma CF_own ms c c' t pc pc' evs :
  CF ms c -> t < length ms -> thr c t = TWorker (mof ms t) pc -> pc <> W0 \/ passes (mof ms t) = false ->
  thr c' = thr c -> decoys c' = decoys c -> pol c' = pol c ->
  (forall t', t' <> t -> objs c' t' = objs c t') -> o_regcount (objs c' t) = o_regcount (objs c t) ->
  trace c' = evs ++ trace c -> Forall notrack evs ->
  (forall k o r, In (EAnn k o r) evs -> decoys c k = Some o /\ r = true) ->
  wfact ms c' t pc' -> pc' <> W0 ->
  CF ms (set_thr c' t (TWorker (mof ms t) pc')).
Proof.
  intros [A B C D E F G H] Lt Ht Hp Eth Ed Ep Eo Er Etr Q QA W NW.
  assert (TT : ttids (trace c') = ttids (trace c)) by (rewrite Etr; now apply ttids_notrack).
  constructor; cbn; rewrite ?Eth, ?Ed, ?Ep, ?TT; auto.
  - intros t' L'. unfold upd. destruct (Nat.eqb_spec t' t).
    + subst. exists pc'. split; [reflexivity|split].
      * revert W. apply wfact_frame; cbn; rewrite ?TT, ?Ed; tauto.
      * intros _ P. destruct Hp as [Hp|Hp]; [|congruence].
        destruct (A t Lt) as (pc0 & T0 & _ & I0). rewrite Ht in T0. inversion T0; subst. auto.
    + destruct (A t' L') as (pc0 & T0 & W0' & I0). exists pc0. split; [auto|split; [|auto]].
      revert W0'. apply wfact_frame; cbn; rewrite ?TT, ?Ed, ?Eo; auto; tauto.
  - intros t' L'. unfold upd. destruct (Nat.eqb_spec t' t); [lia|auto].
  - intros k I. rewrite Etr in I. apply in_app_or in I. destruct I as [I|I]; [|eapply D; eauto].
    rewrite Forall_forall in Q. apply Q in I. exact I.
  - intros k. specialize (E k). unfold spec_of in *. cbn. rewrite ?TT, ?Ed.
    destruct (decoys c k) as [o|]; auto. destruct (Nat.eq_dec o t); [subst; now rewrite Er|now rewrite Eo].
  - intros k o r I. rewrite Etr in I. apply in_app_or in I. destruct I as [I|I]; auto.
Qed.

Lemma objs_upd_other c t v t' : t' <> t -> upd (objs c) t v t' = objs c t'.
Proof. intros. now apply upd_other. Qed.

(* E2: a duplicate is counted on the tracked object *)
Lemma CF_bump ms c t o :
  CF ms c -> t < length ms -> thr c t = TWorker (mof ms t) W0 -> passes (mof ms t) = true ->
  decoys c (m_key (mof ms t)) = Some o ->
  CF ms (set_thr (inc_dup (bump c (m_key (mof ms t)) o t)) t (TWorker (mof ms t) WEnd)).
Proof.
  intros [A B C D E F G H] Lt Ht P Hd.
  destruct (A t Lt) as (pc0 & T0 & W0' & _). rewrite Ht in T0. inversion T0; subst pc0. clear T0.
  destruct W0' as [NI _].
  pose proof (E (m_key (mof ms t))) as Ek. rewrite Hd in Ek. destruct Ek as (Lo & Io & Ko & So).
  assert (Not : o <> t) by (intros ->; auto).
  constructor; cbn; auto.
  - intros t' L'. unfold upd at 1. destruct (Nat.eqb_spec t' t).
    + subst. exists WEnd. split; [reflexivity|split].
      * unfold wfact. cbn. rewrite Hd. intros X. inversion X. congruence.
      * intros _ _. now left.
    + destruct (A t' L') as (pc0 & T0 & W0' & I0). exists pc0. split; [auto|split].
      * revert W0'. apply wfact_frame; cbn; auto.
        -- split; [intros [X|X]; [congruence|auto]|intros X; now right].
        -- unfold upd. destruct (Nat.eqb_spec t' o); subst; auto.
        -- unfold upd. destruct (Nat.eqb_spec t' o); subst; auto.
      * intros N P'. right. auto.
  - intros t' L'. unfold upd. destruct (Nat.eqb_spec t' t); [lia|auto].
  - intros k [X|X]; [discriminate|eapply D; eauto].
  - intros k. unfold spec_of. cbn. fold (spec_of ms c). unfold spec_step. rewrite So.
    destruct (Nat.eq_dec k (m_key (mof ms t))).
    + subst k. rewrite Hd. rewrite upd_same. repeat split; auto. now rewrite upd_same.
    + specialize (E k). rewrite (upd_other _ _ k); auto.
      destruct (decoys c k) as [o'|]; auto. destruct E as (E1 & E2 & E3 & E4).
      repeat split; auto. rewrite upd_other; auto. intros ->. congruence.
  - constructor; auto.
  - intros t' [X|X]; [subst; auto|auto].
  - intros k o' r [X|X]; [discriminate|auto].
Qed.

(* E3: the first ingest of a key tracks its own object *)
Lemma CF_fresh ms c t :
  CF ms c -> t < length ms -> thr c t = TWorker (mof ms t) W0 -> passes (mof ms t) = true ->
  decoys c (m_key (mof ms t)) = None ->
  CF ms (set_thr (fresh_track c (m_key (mof ms t)) t) t (TWorker (mof ms t) W2)).
Proof.
  intros [A B C D E F G H] Lt Ht P Hd.
  destruct (A t Lt) as (pc0 & T0 & W0' & _). rewrite Ht in T0. inversion T0; subst pc0. clear T0.
  destruct W0' as [NI R0].
  pose proof (E (m_key (mof ms t))) as Ek. rewrite Hd in Ek.
  constructor; cbn; auto.
  - intros t' L'. unfold upd at 1. destruct (Nat.eqb_spec t' t).
    + subst. exists W2. split; [reflexivity|split].
      * unfold wfact. cbn. rewrite !upd_same. auto.
      * intros _ _. now left.
    + destruct (A t' L') as (pc0 & T0 & W0' & I0). exists pc0. split; [auto|split].
      * assert (KK : m_key (mof ms t') = m_key (mof ms t) -> pc0 = W0 \/ pc0 = WEnd).
        { intros KE. unfold wfact in W0'. rewrite KE, Hd in W0'. destruct pc0; auto; try tauto; destruct W0'; discriminate. }
        unfold wfact in *. cbn. rewrite !(upd_other _ _ t'); auto.
        destruct (Nat.eq_dec (m_key (mof ms t')) (m_key (mof ms t))) as [KE|KN].
        -- destruct (KK KE) as [->| ->].
           ++ destruct W0' as [W1 W2']. split; auto. intros [X|X]; [congruence|auto].
           ++ rewrite KE, upd_same. intros X. inversion X. congruence.
        -- rewrite (upd_other _ _ (m_key (mof ms t'))); auto.
           destruct pc0; auto. destruct W0' as [W1 W2']. split; auto. intros [X|X]; [congruence|auto].
      * intros N P'. right. auto.
  - intros t' L'. unfold upd. destruct (Nat.eqb_spec t' t); [lia|auto].
  - intros k [X|X]; [discriminate|eapply D; eauto].
  - intros k. unfold spec_of. cbn. fold (spec_of ms c). unfold spec_step. rewrite Ek.
    destruct (Nat.eq_dec k (m_key (mof ms t))).
    + subst k. rewrite !upd_same. cbn. repeat split; auto.
    + specialize (E k). rewrite !(upd_other _ _ k); auto.
      destruct (decoys c k) as [o'|]; auto. destruct E as (E1 & E2 & E3 & E4).
      repeat split; auto. rewrite upd_other; auto. intros ->. auto.
  - constructor; auto.
  - intros t' [X|X]; [subst; auto|auto].
  - intros k o' r [X|X]; [discriminate|]. unfold upd. destruct (Nat.eqb_spec k (m_key (mof ms t))); auto.
    subst. destruct (H _ _ _ X). congruence.
Qed.

Lemma CF_ext ms c c' :
  thr c' = thr c -> decoys c' = decoys c -> objs c' = objs c -> pol c' = pol c -> trace c' = trace c ->
  CF ms c -> CF ms c'.
Proof.
  intros Et Ed Eo Ep Er [A B C D E F G H].
  constructor; unfold spec_of, wfact in *; rewrite ?Et, ?Ed, ?Eo, ?Ep, ?Er; auto.
Qed.

Lemma owner_not_W0 ms c t :
  CF ms c -> ~ In t (ttids (trace c)) -> decoys c (m_key (mof ms t)) <> Some t.
Proof.
  intros CFc NI X. pose proof (cf_spec _ _ CFc (m_key (mof ms t))) as E. rewrite X in E. tauto.
Qed.

Lemma validate_CF share ms c t pc :
  CF ms c -> t < length ms -> thr c t = TWorker (mof ms t) pc -> pc <> W0 ->
  decoys c (m_key (mof ms t)) = Some t -> o_valid (objs c t) = false -> o_resolved (objs c t) = true ->
  cov0 (mof ms t) = true -> (m_needs_probe (mof ms t) = false \/ m_live (mof ms t) = false) ->
  CF ms (set_thr (validate false share c t (mof ms t)) t (TWorker (mof ms t) WEnd)).
Proof.
  intros CFc Lt Ht NW Hd Hv Hr Hc Hn. set (m := mof ms t) in *.
  unfold validate. rewrite (cf_pol _ _ CFc).
  set (c1 := if m_detector m && share then add_event (EShare t) c else c).
  assert (E1 : thr c1 = thr c /\ decoys c1 = decoys c /\ objs c1 = objs c /\ pol c1 = pol c /\
               exists ev, trace c1 = ev ++ trace c /\ Forall notrack ev /\ forall k o r, ~ In (EAnn k o r) ev).
  { unfold c1. destruct (m_detector m && share); cbn; repeat split; auto.
    - exists [EShare t]. repeat split; auto. constructor; cbn; auto. intros k o r [X|[]]. discriminate.
    - exists []. repeat split; auto. }
  destruct E1 as (Et & Ed & Eo & Ep & ev & Er & Q & NA). clearbody c1.
  destruct (m_detector m && at_pol (m_ph_blocked m) 0) eqn:B.
  - apply CF_own with (c := c) (pc := pc) (evs := ev); cbn; auto; try (rewrite Eo; auto; fail).
    + intros k o r I. exfalso. eapply NA; eauto.
    + unfold wfact. fold m. cbn. rewrite Ed, Eo. intros _. rewrite Hv, Hr, Hc. split; auto.
      unfold admitted. fold m. rewrite B. cbn. now rewrite Bool.andb_false_r.
    + discriminate.
  - assert (RG : register false c1 (m_key m) t =
                 add_event (EAnn (m_key m) t (o_resolved (objs c t)))
                   (set_objs c1 (upd (objs c1) t (mkObj true (o_regcount (objs c1 t)) (o_resolved (objs c1 t)))))).
    { unfold register. rewrite Ed, Hd. cbn. rewrite ?Ed, ?Hd, ?Eo, ?Hv, ?Nat.eqb_refl. cbn. rewrite ?Eo. reflexivity. }
    rewrite RG.
    apply CF_own with (c := c) (pc := pc) (evs := EAnn (m_key m) t (o_resolved (objs c t)) :: ev); cbn; auto.
    + intros t' N. rewrite upd_other; auto. now rewrite Eo.
    + rewrite upd_same. cbn. now rewrite Eo.
    + now rewrite Er.
    + constructor; cbn; auto.
    + intros k o r [X|X]; [inversion X; subst; auto|exfalso; eapply NA; eauto].
    + unfold wfact. fold m. cbn. rewrite upd_same. cbn. intros _. rewrite Eo, Hr, Hc. split; auto.
      unfold admitted. fold m. unfold cov0 in Hc. rewrite Hc, B. cbn.
      destruct Hn as [-> | ->]; cbn; auto. now rewrite Bool.orb_true_r.
    + discriminate.
Qed.

Lemma CF_skip ms c c' t pc pc' :
  CF ms c -> t < length ms -> thr c t = TWorker (mof ms t) pc -> pc <> W0 \/ passes (mof ms t) = false ->
  thr c' = thr c -> decoys c' = decoys c -> objs c' = objs c -> pol c' = pol c -> trace c' = trace c ->
  wfact ms c' t pc' -> pc' <> W0 ->
  CF ms (set_thr c' t (TWorker (mof ms t) pc')).
Proof.
  intros. apply CF_own with (c := c) (pc := pc) (evs := []); auto.
  - intros. now rewrite H5.
  - now rewrite H5.
  - intros k o r [].
Qed.

Lemma step_CF share ms c a : CF ms c -> CF ms (step false share c a).
Proof.
  intros CFc. destruct a as [t ch|k d]; cbn.
  2:{ destruct (timeouts c k); auto. revert CFc. apply CF_ext; auto. }
  destruct (Nat.lt_ge_cases t (length ms)) as [Lt|Ge].
  2:{ now rewrite (cf_none _ _ CFc t Ge). }
  destruct (cf_thr _ _ CFc t Lt) as (pc & Ht & W & I). rewrite Ht. set (m := mof ms t) in *.
  pose proof (cf_pol _ _ CFc) as P0.
  destruct pc; cbn.
  - (* W0 *)
    destruct W as [NI R0].
    assert (WE : forall c', decoys c' = decoys c -> objs c' = objs c -> wfact ms c' t WEnd).
    { intros c' Ed Eo. unfold wfact. fold m. rewrite Ed. intros X. exfalso. eapply owner_not_W0; eauto. }
    destruct (m_tr_ok m) eqn:TR; cbn.
    2:{ apply CF_skip with (c := c) (pc := W0); auto; try discriminate.
        right. unfold passes. fold m. now rewrite TR. }
    rewrite P0. destruct (negb (m_detector m) && at_pol (m_ph_blocked m) 0) eqn:BL.
    { apply CF_skip with (c := c) (pc := W0); auto; try discriminate.
      right. unfold passes. fold m. rewrite TR, BL. reflexivity. }
    assert (PS : passes m = true) by (unfold passes; now rewrite TR, BL).
    destruct (decoys c (m_key m)) eqn:Hd.
    + now apply CF_bump.
    + now apply CF_fresh.
  - destruct W.
  - (* W2 *)
    destruct W as (Hd & Hv & Hr). rewrite P0. fold (cov0 m). destruct (cov0 m) eqn:CV.
    + apply CF_own with (c := c) (pc := W2) (evs := [ECov t]); cbn; auto; try discriminate.
      * left; discriminate.
      * intros t' N. now rewrite upd_other.
      * now rewrite upd_same.
      * constructor; cbn; auto.
      * intros k o r [X|[]]. discriminate.
      * unfold wfact. fold m. cbn. rewrite upd_same. cbn. auto.
    + apply CF_skip with (c := c) (pc := W2); cbn; auto; try discriminate.
      * left; discriminate.
      * unfold wfact. cbn. intros _. unfold m in *. rewrite Hv, Hr, CV. split; auto.
        unfold admitted. unfold cov0 in CV. now rewrite CV.
  - (* W3 *)
    destruct W as (Hd & Hv & Hr & Hc). destruct (m_needs_probe m) eqn:NP.
    + apply CF_skip with (c := c) (pc := W3); cbn; auto; try discriminate.
      * left; discriminate.
      * unfold wfact. fold m. cbn. auto.
    + apply validate_CF with (pc := W3); auto. discriminate.
  - (* W4 *)
    destruct W as (Hd & Hv & Hr & Hc & NP). destruct (m_live m) eqn:LV.
    + apply CF_skip with (c := c) (pc := W4); cbn; auto; try discriminate.
      * left; discriminate.
      * unfold wfact. cbn. intros _. unfold m in *. rewrite Hv, Hr, Hc. split; auto.
        unfold admitted. rewrite NP, LV. cbn. now rewrite Bool.andb_false_r.
    + apply validate_CF with (pc := W4); auto. discriminate.
  - (* WEnd *)
    apply CF_skip with (c := c) (pc := WEnd); cbn; auto; try discriminate. left; discriminate.
Qed.

Lemma run_CF share ms acts : forall c, CF ms c -> CF ms (run false share c acts).
Proof. induction acts; cbn; intros; auto. apply IHacts. now apply step_CF. Qed.

(* ---- terminal states are described by the serial specification ---- *)

Lemma terminal_pc ms c t :
  CF ms c -> terminal (length ms) c -> t < length ms ->
  thr c t = TWorker (mof ms t) WEnd /\ wfact ms c t WEnd.
Proof.
  intros CFc T L. destruct (cf_thr _ _ CFc t L) as (pc & Ht & W & _).
  specialize (T t L). rewrite Ht in T. destruct pc; try discriminate. auto.
Qed.

Lemma view_spec ms c :
  CF ms c -> terminal (length ms) c -> forall k, view c k = spec_view (spec_of ms c) k.
Proof.
  intros CFc T k. unfold view, spec_view. pose proof (cf_spec _ _ CFc k) as E.
  destruct (decoys c k) as [o|] eqn:Hd; [|now rewrite E].
  destruct E as (Lo & Io & Ko & So). rewrite So.
  destruct (terminal_pc _ _ _ CFc T Lo) as [Ht W]. unfold msg_of. rewrite Ht.
  unfold wfact in W. rewrite Ko, Hd in W. destruct (W eq_refl) as [-> ->]. reflexivity.
Qed.

(* ---- the announcements are determined by the final view ---- *)

Definition covert_of (c : cfg) (o : nat) : nat := match msg_of c o with Some m => m_covert m | None => 0 end.

Lemma announcements_cons c e tr :
  announcements c (e :: tr) =
  match e with EAnn k o r => (k, covert_of c o, r) :: announcements c tr | _ => announcements c tr end.
Proof. destruct e; reflexivity. Qed.

Lemma ann_count_tracked c k cv r o : forall tr,
  (forall k' o' r', In (EAnn k' o' r') tr -> decoys c k' = Some o' /\ r' = true) ->
  (forall k', ~ In (ERemove k') tr) -> ann_ok tr -> decoys c k = Some o ->
  count_ann (k, cv, r) (announcements c tr) =
  if live_ann k tr then (if Nat.eqb cv (covert_of c o) && Bool.eqb r true then 1 else 0) else 0.
Proof.
  induction tr as [|e tr IH]; intros HA HR OK Hd; [reflexivity|].
  assert (HA' : forall k' o' r', In (EAnn k' o' r') tr -> decoys c k' = Some o' /\ r' = true)
    by (intros; apply HA; now right).
  assert (HR' : forall k', ~ In (ERemove k') tr) by (intros k' X; apply (HR k'); now right).
  rewrite announcements_cons. destruct e; cbn [live_ann]; try (apply IH; auto; cbn in OK; tauto).
  - (* EAnn *)
    cbn in OK. destruct OK as [LF OK]. unfold count_ann in *. cbn [filter ann_eqb].
    destruct (HA k0 o0 resolved (or_introl eq_refl)) as [D0 ->].
    destruct (Nat.eqb_spec k0 k).
    + subst k0. rewrite Nat.eqb_refl. rewrite D0 in Hd. inversion Hd; subst o0.
      specialize (IH HA' HR' OK D0). rewrite LF in IH. cbn [andb].
      destruct (Nat.eqb cv (covert_of c o) && Bool.eqb r true); cbn [length]; now rewrite IH.
    + assert (Nat.eqb k k0 = false) as -> by (apply Nat.eqb_neq; congruence). cbn [andb]. apply IH; auto.
  - exfalso. apply (HR k0). now left.
Qed.

Lemma ann_count_untracked c k cv r : forall tr,
  (forall k' o' r', In (EAnn k' o' r') tr -> decoys c k' = Some o' /\ r' = true) ->
  decoys c k = None -> count_ann (k, cv, r) (announcements c tr) = 0.
Proof.
  induction tr as [|e tr IH]; intros HA Hd; [reflexivity|].
  assert (HA' : forall k' o' r', In (EAnn k' o' r') tr -> decoys c k' = Some o' /\ r' = true)
    by (intros; apply HA; now right).
  rewrite announcements_cons. destruct e; auto.
  unfold count_ann in *. cbn [filter ann_eqb]. destruct (HA k0 o resolved (or_introl eq_refl)) as [D0 _].
  destruct (Nat.eqb_spec k k0); [subst; congruence|]. cbn [andb]. auto.
Qed.

Lemma ann_from_view ms c k cv r :
  TI c -> CF ms c ->
  count_ann (k, cv, r) (announcements c (trace c)) =
  match view c k with
  | Some (true, _, cv', _) => if Nat.eqb cv cv' && Bool.eqb r true then 1 else 0
  | _ => 0
  end.
Proof.
  intros T CFc. unfold view. destruct (decoys c k) as [o|] eqn:Hd.
  - rewrite (ann_count_tracked c k cv r o (trace c) (cf_ann _ _ CFc) (cf_norem _ _ CFc) (ti_ann _ T) Hd).
    pose proof (ti_live _ T k) as L.
    assert (VV : live_ann k (trace c) = o_valid (objs c o)).
    { destruct (live_ann k (trace c)) eqn:LA.
      - destruct (proj1 L eq_refl) as (o' & D' & V'). congruence.
      - destruct (o_valid (objs c o)) eqn:V; auto. apply L. eauto. }
    rewrite VV. unfold covert_of. destruct (msg_of c o); destruct (o_valid (objs c o)); reflexivity.
  - apply ann_count_untracked; auto. apply (cf_ann _ _ CFc).
Qed.

(* ---- the serial run ---- *)

Definition dist (pc : wpc) : nat :=
  match pc with W0 => 4 | W1 => 4 | W2 => 3 | W3 => 2 | W4 => 1 | WEnd => 0 end.

Lemma wstep_dist share c w m pc c' pc' :
  wstep false share c w m pc = (c', pc') -> dist pc' <= pred (dist pc).
Proof.
  intros H. destruct pc; cbn in H; crush_match H; inversion H; subst; cbn; lia.
Qed.

Lemma ttids_add_event e c : ttids (trace (add_event e c)) = ttids [e] ++ ttids (trace c).
Proof. destruct e; reflexivity. Qed.

Lemma fresh_track_ttids c k w : ttids (trace (fresh_track c k w)) = [w] ++ ttids (trace c).
Proof. reflexivity. Qed.

Lemma register_ttids pinned c k w :
  exists l, ttids (trace (register pinned c k w)) = l ++ ttids (trace c) /\ Forall (eq w) l.
Proof.
  unfold register. destruct (decoys c k) eqn:K.
  - rewrite K. destruct (negb pinned && negb (Nat.eqb n w)); [|destruct (o_valid (objs c n))]; exists []; split; auto.
  - destruct (decoys (fresh_track c k w) k); [destruct (negb pinned && negb (Nat.eqb n w)); [|destruct (o_valid _)]|];
      exists [w]; split; auto.
Qed.

Lemma wstep_ttids split share c w m pc c' pc' :
  wstep split share c w m pc = (c', pc') ->
  exists l, ttids (trace c') = l ++ ttids (trace c) /\ Forall (eq w) l.
Proof.
  assert (V : exists l, ttids (trace (validate split share c w m)) = l ++ ttids (trace c) /\ Forall (eq w) l).
  { unfold validate. set (c1 := if m_detector m && share then add_event (EShare w) c else c).
    assert (E : ttids (trace c1) = ttids (trace c)) by (unfold c1; destruct (m_detector m && share); reflexivity).
    clearbody c1. destruct (m_detector m && at_pol (m_ph_blocked m) (pol c)).
    - exists []. split; auto.
    - destruct (register_ttids split c1 (m_key m) w) as (l & L1 & L2). exists l. cbn. rewrite L1, E. auto. }
  intros H. destruct pc; cbn in H.
  - crush_match H; inversion H; subst; try (exists []; split; auto; fail); exists [w]; split; auto.
  - inversion H; subst. unfold track. destruct (decoys c (m_key m)); exists [w]; split; auto.
  - crush_match H; inversion H; subst; exists []; split; auto.
  - crush_match H; inversion H; subst; auto. exists []; split; auto.
  - crush_match H; inversion H; subst; auto. exists []; split; auto.
  - inversion H; subst. exists []; split; auto.
Qed.

(* one step of worker t in a workers-only configuration *)
Lemma step_shape share ms c t ch pc :
  thr c t = TWorker (mof ms t) pc ->
  let c' := step false share c (Run t ch) in
  exists pc' l, thr c' t = TWorker (mof ms t) pc' /\ dist pc' <= pred (dist pc) /\
                (forall t', t' <> t -> thr c' t' = thr c t') /\
                ttids (trace c') = l ++ ttids (trace c) /\ Forall (eq t) l.
Proof.
  intros Ht. cbn. rewrite Ht. destruct (wstep false share c t (mof ms t) pc) as [c1 pc1] eqn:W.
  destruct (wstep_mono _ _ _ _ _ _ _ _ W) as (_ & Eth & _).
  destruct (wstep_ttids _ _ _ _ _ _ _ _ W) as (l & L1 & L2).
  exists pc1, l. cbn. rewrite upd_same. repeat split; auto.
  - eapply wstep_dist; eauto.
  - intros t' N. rewrite upd_other; auto. now rewrite Eth.
Qed.

Definition four (t : nat) : list act := [Run t 0; Run t 0; Run t 0; Run t 0].

Lemma run_four share ms c t pc :
  thr c t = TWorker (mof ms t) pc ->
  let c' := run false share c (four t) in
  exists l, thr c' t = TWorker (mof ms t) WEnd /\ (forall t', t' <> t -> thr c' t' = thr c t') /\
            ttids (trace c') = l ++ ttids (trace c) /\ Forall (eq t) l.
Proof.
  intros H0. unfold four, run. cbn [fold_left].
  destruct (step_shape share ms c t 0 pc H0) as (p1 & l1 & H1 & D1 & O1 & T1 & F1).
  set (c1 := step false share c (Run t 0)) in *.
  destruct (step_shape share ms c1 t 0 p1 H1) as (p2 & l2 & H2 & D2 & O2 & T2 & F2).
  set (c2 := step false share c1 (Run t 0)) in *.
  destruct (step_shape share ms c2 t 0 p2 H2) as (p3 & l3 & H3 & D3 & O3 & T3 & F3).
  set (c3 := step false share c2 (Run t 0)) in *.
  destruct (step_shape share ms c3 t 0 p3 H3) as (p4 & l4 & H4 & D4 & O4 & T4 & F4).
  set (c4 := step false share c3 (Run t 0)) in *.
  exists (l4 ++ l3 ++ l2 ++ l1). repeat split.
  - assert (dist pc <= 4) by (destruct pc; cbn; lia).
    assert (dist p4 = 0) by lia. destruct p4; cbn in *; try lia. exact H4.
  - intros t' N. rewrite O4, O3, O2, O1; auto.
  - rewrite T4, T3, T2, T1. now rewrite !app_assoc.
  - repeat (apply Forall_app; split); auto.
Qed.

Definition serial_upto (i : nat) : list act := flat_map four (seq 0 i).

Lemma serial_upto_S i : serial_upto (S i) = serial_upto i ++ four i.
Proof. unfold serial_upto. rewrite seq_S, flat_map_app. cbn. reflexivity. Qed.

Lemma run_app split share c l1 l2 : run split share c (l1 ++ l2) = run split share (run split share c l1) l2.
Proof. apply fold_left_app. Qed.

Definition passes_t (ms : list msg) (t : nat) : bool := passes (mof ms t).

Lemma all_eq_nodup (t : nat) l : Forall (eq t) l -> NoDup l -> l = [] \/ l = [t].
Proof.
  intros F N. destruct l as [|a [|b l]]; auto.
  - inversion F; subst. auto.
  - exfalso. inversion F; subst. inversion H2; subst. inversion N; subst. apply H1. now left.
Qed.

Lemma nodup_app_l {A} (l r : list A) : NoDup (l ++ r) -> NoDup l.
Proof.
  induction l as [|a l IH]; cbn; intros H; [constructor|]. inversion H; subst. constructor; auto.
  intros X. apply H2. apply in_or_app. now left.
Qed.

Lemma serial_prefix share ms i :
  i <= length ms ->
  let c := run false share (init (workers ms)) (serial_upto i) in
  (forall t, t < i -> thr c t = TWorker (mof ms t) WEnd) /\
  ttids (trace c) = rev (filter (passes_t ms) (seq 0 i)).
Proof.
  induction i as [|i IH]; intros Li.
  - cbn. split; [intros; lia|reflexivity].
  - destruct IH as [IH1 IH2]; [lia|]. cbv zeta. rewrite serial_upto_S, run_app.
    set (c := run false share (init (workers ms)) (serial_upto i)) in *.
    assert (CFc : CF ms c) by (apply run_CF, CF_init).
    destruct (cf_thr _ _ CFc i Li) as (pc & Ht & _ & _).
    destruct (run_four share ms c i pc Ht) as (l & E1 & E2 & E3 & E4).
    set (c' := run false share c (four i)) in *.
    assert (CFc' : CF ms c') by (apply run_CF; auto).
    split.
    + intros t Lt. destruct (Nat.eq_dec t i); [subst; auto|]. rewrite E2; auto. apply IH1. lia.
    + rewrite E3, IH2, seq_S, filter_app, rev_app_distr. cbn [filter seq plus]. f_equal.
      assert (NI : ~ In i (ttids (trace c))).
      { rewrite IH2. rewrite <- in_rev. intros X. apply filter_In in X. destruct X as [X _]. apply in_seq in X. lia. }
      pose proof (cf_nodup _ _ CFc') as ND. rewrite E3 in ND.
      destruct (all_eq_nodup i l E4 (nodup_app_l _ _ ND)) as [-> | ->].
      * unfold passes_t. destruct (passes (mof ms i)) eqn:P; auto. exfalso.
        destruct (cf_thr _ _ CFc' i Li) as (pc' & Ht' & _ & I'). rewrite E1 in Ht'. inversion Ht'; subst pc'.
        apply NI. specialize (I' ltac:(discriminate) P). now rewrite E3 in I'.
      * unfold passes_t. destruct (cf_tids _ _ CFc' i) as [_ P]; [rewrite E3; now left|]. now rewrite P.
Qed.

(* ---- assembling the serial order ---- *)

Lemma map_mof_seq l : map (mof l) (seq 0 (length l)) = l.
Proof.
  unfold mof. induction l as [|a l IH]; cbn; auto. f_equal.
  rewrite <- seq_shift, map_map. exact IH.
Qed.

Lemma filter_map_comm {A B} (f : A -> B) (p : B -> bool) l :
  filter p (map f l) = map f (filter (fun x => p (f x)) l).
Proof. induction l as [|a l IH]; cbn; auto. destruct (p (f a)); cbn; now rewrite IH. Qed.

Lemma map_filter_passes l : map (mof l) (filter (passes_t l) (seq 0 (length l))) = filter passes l.
Proof. unfold passes_t. rewrite <- (filter_map_comm (mof l) passes). now rewrite map_mof_seq. Qed.

Lemma partition_perm {A} (p : A -> bool) l : Permutation l (filter p l ++ filter (fun x => negb (p x)) l).
Proof.
  induction l as [|a l IH]; cbn; auto. destruct (p a); cbn.
  - now constructor.
  - apply Permutation_cons_app. exact IH.
Qed.

Lemma filter_all {A} (p : A -> bool) l : (forall x, In x l -> p x = true) -> filter p l = l.
Proof. induction l as [|a l IH]; cbn; intros H; auto. rewrite (H a) by now left. f_equal. apply IH. intros; apply H; now right. Qed.
Lemma filter_none {A} (p : A -> bool) l : (forall x, In x l -> p x = false) -> filter p l = [].
Proof. induction l as [|a l IH]; cbn; intros H; auto. rewrite (H a) by now left. apply IH. intros; apply H; now right. Qed.

Lemma serial_terminal share ms :
  let c := serial share ms in
  CF ms c /\ TI c /\ terminal (length ms) c /\
  ttids (trace c) = rev (filter (passes_t ms) (seq 0 (length ms))).
Proof.
  cbv zeta. unfold serial. change (serial_sched (length ms)) with (serial_upto (length ms)).
  destruct (serial_prefix share ms (length ms) (le_n _)) as [A B]. split; [|split; [|split]]; auto.
  - apply run_CF, CF_init.
  - apply run_TI, TI_init.
  - intros t L. now rewrite (A t L).
Qed.

Lemma serializable_lemma : forall share ms acts,
  let c := run false share (init (workers ms)) acts in
  terminal (length ms) c ->
  exists ms', Permutation ms ms' /\
              (forall k, view c k = view (serial share ms') k) /\
              (forall a, count_ann a (announcements c (trace c)) =
                         count_ann a (announcements (serial share ms') (trace (serial share ms')))).
Proof.
  intros share ms acts c T.
  assert (CFc : CF ms c) by (apply run_CF, CF_init).
  assert (TIc : TI c) by (apply run_TI, TI_init).
  set (n := length ms) in *. set (sg := ttids (trace c)).
  set (Fl := filter (fun t => negb (passes_t ms t)) (seq 0 n)).
  set (perm := rev sg ++ Fl). set (ms' := map (mof ms) perm).
  (* the tids that tracked are exactly the workers that pass the pre-checks *)
  assert (P1 : Permutation (filter (passes_t ms) (seq 0 n)) (rev sg)).
  { apply NoDup_Permutation.
    - apply NoDup_filter, seq_NoDup.
    - apply NoDup_rev, (cf_nodup _ _ CFc).
    - intros t. rewrite <- in_rev, filter_In, in_seq. split.
      + intros [L P]. destruct (terminal_pc _ _ _ CFc T (proj2 L)) as [Ht _].
        destruct (cf_thr _ _ CFc t (proj2 L)) as (pc & Ht' & _ & I). rewrite Ht in Ht'. inversion Ht'; subst pc.
        apply I; auto. discriminate.
      + intros I. destruct (cf_tids _ _ CFc t I) as [L P]. split; auto. cbn. split; [lia|exact L]. }
  assert (P2 : Permutation (seq 0 n) perm).
  { unfold perm. etransitivity; [apply (partition_perm (passes_t ms))|]. now apply Permutation_app_tail. }
  assert (PM : Permutation ms ms').
  { unfold ms'. rewrite <- (map_mof_seq ms) at 1. now apply Permutation_map. }
  exists ms'. split; [exact PM|].
  destruct (serial_terminal share ms') as (CFs & TIs & Ts & Os). set (cs := serial share ms') in *.
  (* the serial run tracks the same messages in the same order *)
  assert (SP : spec_of ms' cs = spec_of ms c).
  { unfold spec_of. f_equal. rewrite Os, map_rev, map_filter_passes. unfold ms', perm.
    rewrite map_app, filter_app.
    rewrite (filter_all passes (map (mof ms) (rev sg))).
    - rewrite (filter_none passes (map (mof ms) Fl)).
      + rewrite app_nil_r, map_rev, rev_involutive. reflexivity.
      + intros x I. apply in_map_iff in I. destruct I as (t & <- & I). unfold Fl in I. apply filter_In in I.
        destruct I as [_ I]. unfold passes_t in I. now destruct (passes (mof ms t)).
    - intros x I. apply in_map_iff in I. destruct I as (t & <- & I). apply in_rev in I.
      apply (cf_tids _ _ CFc t I). }
  assert (V : forall k, view c k = view cs k).
  { intros k. rewrite (view_spec ms c CFc T k), (view_spec ms' cs CFs Ts k). now rewrite SP. }
  split; [exact V|].
  intros [[k cv] r]. rewrite (ann_from_view ms c k cv r TIc CFc), (ann_from_view ms' cs k cv r TIs CFs).
  now rewrite V.
Qed.

(* what the serial run computes, in closed form: the first passing message of a key owns it *)
Lemma serial_spec_lemma : forall share ms k,
  view (serial share ms) k = spec_view (spec_nf (rev (filter passes ms))) k.
Proof.
  intros share ms k. destruct (serial_terminal share ms) as (CFs & _ & Ts & Os).
  rewrite (view_spec ms _ CFs Ts k). unfold spec_of. now rewrite Os, map_rev, map_filter_passes.
Qed.
