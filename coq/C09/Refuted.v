(* C09: the same statements are FALSE for the model of the code as it was pinned ([split = true]:
   exists-check and track in separate critical sections, register validating whatever object is
   tracked; [fixed = false]: the distributor ranging over its input).  The witnesses below were
   replayed on the real code (they are the schedules of the findings recorded as fixed in
   known_findings.json); they stay here because they show that the hypotheses and the fixes are
   necessary, and they are what a regression would look like. *)
From CJ Require Import Common.Base C09.Model C09.ProofsB.
From Coq Require Import Arith PeanoNat Lia Permutation.
Local Open Scope nat_scope.

Definition m_bad  : msg := mkMsg 0 10 true true  [false] [false] true false.
Definition m_good : msg := mkMsg 0 11 true false [false] [true]  true false.

(* both workers pass the exists-check before either tracks; m_bad's object is tracked, m_good's
   worker validates it; a handler is then handed an object whose covert was never checked *)
Definition race : list act :=
  [Run 0 0; Run 1 0; Run 0 0; Run 1 0; Run 1 0; Run 1 0; Run 1 0; Run 2 0; Run 0 0; Run 0 0].
Definition c_race : cfg := run true false (init [TWorker m_bad W0; TWorker m_good W0; THandler 0 H0]) race.

Theorem pinned_visible_unchecked_refuted :
  exists acts, In (ESeen 0 0 false) (trace (run true false (init [TWorker m_bad W0; TWorker m_good W0; THandler 0 H0]) acts)).
Proof. exists race. vm_compute. auto. Qed.

(* ... and the final table is not the outcome of any serial order of the two ingests *)
Definition c_race2 : cfg := run true false (init (workers [m_bad; m_good])) race.
Theorem pinned_serializable_refuted :
  terminal 2 c_race2 /\
  forall ms', Permutation [m_bad; m_good] ms' -> view c_race2 0 <> view (serial false ms') 0.
Proof.
  split.
  - intros t H. destruct t as [|[|t]]; try (vm_compute; reflexivity). lia.
  - intros ms' P. apply Permutation_length_2_inv in P. destruct P as [-> | ->]; vm_compute; discriminate.
Qed.

(* with the fixes the same schedule is harmless *)
Example fixed_same_schedule :
  view (run false false (init (workers [m_bad; m_good])) race) 0 = view (serial false [m_bad; m_good]) 0.
Proof. vm_compute. reflexivity. Qed.

(* two sweeps running concurrently: the second dereferences a timeout record the first removed *)
Definition m_other : msg := mkMsg 1 12 true false [false] [true] false false.
Theorem two_sweepers_panic :
  exists acts, panicked (run false false (init [TWorker m_other W0; TSweeper (S0 1); TSweeper (S0 1)]) acts) = true.
Proof.
  exists [Run 0 0; Age 1 660000000000%N; Run 1 0; Run 2 0; Run 1 0; Run 2 0; Run 1 1; Run 2 1].
  vm_compute. reflexivity.
Qed.

(* ---------------- distributor as pinned ---------------- *)

(* stop request with an idle input: every worker has returned, the distributor waits for a message
   that never comes, HandleRegUpdates has not returned and nothing of the pipeline can move *)
Theorem pinned_shutdown_idle_refuted :
  exists p, preach false 1 1 0 p /\ p_cancel p = true /\ p_d p <> DDone /\
            forall a, is_pipeline a = true -> pstep false 1 1 0 p a = None.
Proof.
  destruct (prun false 1 1 0 (pinit false) [PCancel; PWork 0 true]) as [p|] eqn:E; [|discriminate E].
  exists p. split; [eapply preach_prun; [constructor|exact E]|].
  vm_compute in E. inversion E; subst. split; [reflexivity|]. split; [discriminate|].
  - intros a H. destruct a; try discriminate; cbn.
    + reflexivity.
    + unfold wkstep. destruct i; cbn; auto.
Qed.

(* stop request with a busy input: for every n there is a run in which the distributor takes n
   more registrations after the request *)
Definition pump : list pact := [PArrive; PDistr false; PDistr false; PWork 0 false].
Fixpoint pumps (n : nat) : list pact := match n with 0 => [] | S k => pump ++ pumps k end.

Lemma pump_once p :
  p_cancel p = true -> p_d p = DSel -> p_buf p = 0 -> p_in p = 0 -> p_w p 0 = PIdle ->
  exists p', prun false 1 1 0 p pump = Some p' /\
             p_cancel p' = true /\ p_d p' = DSel /\ p_buf p' = 0 /\ p_in p' = 0 /\ p_w p' 0 = PIdle /\
             p_after p' = S (p_after p).
Proof.
  destruct p as [i b c d w r e dr a]. cbn. intros -> -> -> -> W.
  unfold pump, prun, pstep, dstep, wkstep, d_recv, d_handoff, set_w, set_d, busy_of. cbn. rewrite W. cbn.
  eexists. split; [reflexivity|]. cbn. repeat split; auto.
Qed.

Lemma prun_app fixed nw cap work l1 : forall l2 p,
  prun fixed nw cap work p (l1 ++ l2) =
  match prun fixed nw cap work p l1 with Some q => prun fixed nw cap work q l2 | None => None end.
Proof.
  induction l1 as [|a l1 IH]; intros l2 p; cbn; auto.
  destruct (pstep fixed nw cap work p a); auto.
Qed.

Lemma pumps_run : forall n p,
  p_cancel p = true -> p_d p = DSel -> p_buf p = 0 -> p_in p = 0 -> p_w p 0 = PIdle ->
  exists p', prun false 1 1 0 p (pumps n) = Some p' /\ p_after p' = n + p_after p.
Proof.
  induction n as [|n IH]; intros p C D B I W; cbn [pumps].
  - exists p. split; auto.
  - destruct (pump_once p C D B I W) as (q & R & C' & D' & B' & I' & W' & A').
    destruct (IH q C' D' B' I' W') as (p' & R' & A''). exists p'. split; [|lia].
    now rewrite prun_app, R.
Qed.

Theorem pinned_shutdown_busy_refuted :
  forall n, exists p, prun false 1 1 0 (pinit false) (PCancel :: pumps n) = Some p /\ p_after p = n.
Proof.
  intros n. cbn [prun pstep].
  destruct (pumps_run n (mkP 0 0 true DSel (fun _ => PIdle) 0 0 0 0)) as (p & R & A); auto.
  exists p. split; [exact R|]. cbn in A. lia.
Qed.
