(* C09 — serializability of the table LTS (Model.v) with configuration reloads among the threads.
   Reloads that do not change how the policy judges the registrations in flight (every policy
   installed gives each message the decisions of policy 0) can be erased from the run: the final
   table and the announcements are those of the ingests alone, hence of a serial order. *)
From CJ Require Import Common.Base C09.Model C09.ProofsA C09.ProofsS.
From Coq Require Import Arith PeanoNat Lia Permutation.
Local Open Scope nat_scope.

Arguments at_pol : simpl never.

(* [c'] with another thread map and policy *)
Definition graft (c' : cfg) (T : nat -> thread) (p : nat) : cfg :=
  mkCfg T (decoys c') (timeouts c') (objs c') (keys c') p (trace c') (n_dup c') (n_err c') (n_blocked c')
        (n_adds c') (n_expvalid c') (panicked c') (bad c').

Definition agree_at (m : msg) (p q : nat) : Prop :=
  at_pol (m_ph_blocked m) p = at_pol (m_ph_blocked m) q /\ at_pol (m_cov_ok m) p = at_pol (m_cov_ok m) q.

Lemma g_add_event e c T p : add_event e (graft c T p) = graft (add_event e c) T p.
Proof. reflexivity. Qed.
Lemma g_inc_dup c T p : inc_dup (graft c T p) = graft (inc_dup c) T p.
Proof. reflexivity. Qed.
Lemma g_inc_err c T p : inc_err (graft c T p) = graft (inc_err c) T p.
Proof. reflexivity. Qed.
Lemma g_inc_blocked c T p : inc_blocked (graft c T p) = graft (inc_blocked c) T p.
Proof. reflexivity. Qed.
Lemma g_inc_adds c T p : inc_adds (graft c T p) = graft (inc_adds c) T p.
Proof. reflexivity. Qed.
Lemma g_fresh_track c T p k w : fresh_track (graft c T p) k w = graft (fresh_track c k w) T p.
Proof. reflexivity. Qed.
Lemma g_bump c T p k o w : bump (graft c T p) k o w = graft (bump c k o w) T p.
Proof. reflexivity. Qed.
Lemma g_resolve c T p w : resolve (graft c T p) w = graft (resolve c w) T p.
Proof. reflexivity. Qed.

Lemma g_register pinned c T p k w : register pinned (graft c T p) k w = graft (register pinned c k w) T p.
Proof.
  unfold register. change (decoys (graft c T p) k) with (decoys c k).
  destruct (decoys c k) as [o|] eqn:D.
  - change (decoys (graft c T p) k) with (decoys c k). rewrite D.
    change (objs (graft c T p)) with (objs c).
    destruct (negb pinned && negb (o =? w)); [reflexivity|].
    destruct (o_valid (objs c o)); reflexivity.
  - rewrite g_fresh_track.
    change (decoys (graft (fresh_track c k w) T p) k) with (decoys (fresh_track c k w) k).
    destruct (decoys (fresh_track c k w) k) as [o|]; [|reflexivity].
    change (objs (graft (fresh_track c k w) T p)) with (objs (fresh_track c k w)).
    destruct (negb pinned && negb (o =? w)); [reflexivity|].
    destruct (o_valid (objs (fresh_track c k w) o)); reflexivity.
Qed.

Lemma g_validate pinned share c T p q w m :
  at_pol (m_ph_blocked m) p = at_pol (m_ph_blocked m) q -> pol c = q ->
  validate pinned share (graft c T p) w m = graft (validate pinned share c w m) T p.
Proof.
  intros A Q. unfold validate. change (pol (graft c T p)) with p. rewrite Q, A.
  destruct (m_detector m && share); destruct (m_detector m && at_pol (m_ph_blocked m) q);
    rewrite ?g_add_event, ?g_inc_blocked, ?g_register, ?g_inc_adds; reflexivity.
Qed.

Lemma wstep_graft share c T p w m pc :
  agree_at m p (pol c) ->
  wstep false share (graft c T p) w m pc =
  (graft (fst (wstep false share c w m pc)) T p, snd (wstep false share c w m pc)).
Proof.
  intros [A B]. destruct pc; cbn [wstep].
  - (* W0 *) change (pol (graft c T p)) with p. change (decoys (graft c T p)) with (decoys c). rewrite A.
    destruct (negb (m_tr_ok m)); [reflexivity|].
    destruct (negb (m_detector m) && at_pol (m_ph_blocked m) (pol c)); [reflexivity|].
    destruct (decoys c (m_key m)); reflexivity.
  - (* W1 *) unfold track. change (decoys (graft c T p)) with (decoys c). destruct (decoys c (m_key m)); reflexivity.
  - (* W2 *) change (pol (graft c T p)) with p. rewrite B. destruct (at_pol (m_cov_ok m) (pol c)); reflexivity.
  - (* W3 *) destruct (m_needs_probe m); [reflexivity|]. rewrite (g_validate false share c T p (pol c)); auto.
  - (* W4 *) destruct (m_live m); [reflexivity|]. rewrite (g_validate false share c T p (pol c)); auto.
  - reflexivity.
Qed.

(* wstep never writes the thread map or the policy *)
Lemma register_frame pinned c k w : thr (register pinned c k w) = thr c /\ pol (register pinned c k w) = pol c.
Proof.
  unfold register. destruct (decoys c k) as [o|] eqn:D.
  - rewrite D. destruct (negb pinned && negb (o =? w)); [split; reflexivity|].
    destruct (o_valid (objs c o)); split; reflexivity.
  - destruct (decoys (fresh_track c k w) k) as [o|]; [|split; reflexivity].
    destruct (negb pinned && negb (o =? w)); [split; reflexivity|].
    destruct (o_valid (objs (fresh_track c k w) o)); split; reflexivity.
Qed.

Lemma validate_frame pinned share c w m :
  thr (validate pinned share c w m) = thr c /\ pol (validate pinned share c w m) = pol c.
Proof.
  unfold validate. destruct (m_detector m && share); destruct (m_detector m && at_pol (m_ph_blocked m) (pol c));
    try (split; reflexivity).
  - destruct (register_frame pinned (add_event (EShare w) c) (m_key m) w) as [A B]. split; cbn [inc_adds set_stats thr pol]; [exact A|exact B].
  - destruct (register_frame pinned c (m_key m) w) as [A B]. split; cbn [inc_adds set_stats thr pol]; [exact A|exact B].
Qed.

Lemma wstep_frame share c w m pc :
  thr (fst (wstep false share c w m pc)) = thr c /\ pol (fst (wstep false share c w m pc)) = pol c.
Proof.
  destruct pc; cbn [wstep].
  - destruct (negb (m_tr_ok m)); [split; reflexivity|].
    destruct (negb (m_detector m) && at_pol (m_ph_blocked m) (pol c)); [split; reflexivity|].
    destruct (decoys c (m_key m)); split; reflexivity.
  - unfold track. destruct (decoys c (m_key m)); split; reflexivity.
  - destruct (at_pol (m_cov_ok m) (pol c)); split; reflexivity.
  - destruct (m_needs_probe m); [split; reflexivity|]. apply validate_frame.
  - destruct (m_live m); [split; reflexivity|]. apply validate_frame.
  - split; reflexivity.
Qed.

Section Sim.
Variable share : bool.
Variable ms : list msg.
Let n := length ms.

(* a policy that judges every message of [ms] as policy 0 does *)
Definition pol_ok (p : nat) : Prop := forall t, t < n -> agree_at (mof ms t) p 0.

Record Sim (c c' : cfg) : Prop := mkSim {
  sim_core : c = graft c' (thr c) (pol c);
  sim_low : forall t, t < n -> thr c t = thr c' t /\ exists pc, thr c' t = TWorker (mof ms t) pc;
  sim_high : forall t, n <= t -> thr c' t = TNone /\
                                 (thr c t = TNone \/ exists p d, thr c t = TReload p d /\ pol_ok p);
  sim_pol : pol_ok (pol c);
  sim_pol0 : pol c' = 0
}.

Lemma graft_graft c T p T' p' : graft (graft c T p) T' p' = graft c T' p'.
Proof. reflexivity. Qed.

Lemma sim_step c c' a : Sim c c' -> Sim (step false share c a) (step false share c' a).
Proof.
  intros [Hc Hl Hh Hp H0].
  destruct a as [t ch|k d].
  - (* Run *)
    destruct (Nat.lt_ge_cases t n) as [L|G].
    + destruct (Hl t L) as [E (pc & Ew)].
      assert (Et : thr c t = TWorker (mof ms t) pc) by (rewrite E; exact Ew).
      assert (AG : agree_at (mof ms t) (pol c) (pol c')) by (rewrite H0; apply Hp, L).
      pose proof (wstep_graft share c' (thr c) (pol c) t (mof ms t) pc AG) as W.
      destruct (wstep_frame share c' t (mof ms t) pc) as [Ft Fp].
      set (c2 := fst (wstep false share c' t (mof ms t) pc)) in *.
      set (pc2 := snd (wstep false share c' t (mof ms t) pc)) in *.
      assert (S1 : step false share c (Run t ch) = graft c2 (upd (thr c) t (TWorker (mof ms t) pc2)) (pol c)).
      { cbn [step]. rewrite Et. rewrite Hc at 1. rewrite W. reflexivity. }
      assert (S2 : step false share c' (Run t ch) = set_thr c2 t (TWorker (mof ms t) pc2)).
      { cbn [step]. rewrite Ew. unfold c2, pc2. destruct (wstep false share c' t (mof ms t) pc); reflexivity. }
      rewrite S1, S2. constructor.
      * reflexivity.
      * intros t' L'. cbn [graft thr set_thr]. rewrite Ft. unfold upd. destruct (Nat.eqb t' t) eqn:Q.
        -- split; [reflexivity|]. apply Nat.eqb_eq in Q. subst t'. eexists; reflexivity.
        -- apply Hl, L'.
      * intros t' G'. cbn [graft thr set_thr]. rewrite Ft. unfold upd.
        assert (Q : Nat.eqb t' t = false) by (apply Nat.eqb_neq; lia). rewrite Q. apply Hh, G'.
      * exact Hp.
      * cbn [set_thr pol]. rewrite Fp. exact H0.
    + destruct (Hh t G) as [N R].
      assert (S2 : step false share c' (Run t ch) = c') by (cbn [step]; rewrite N; reflexivity).
      rewrite S2.
      destruct R as [R|(p' & d & R & OK)].
      * assert (S1 : step false share c (Run t ch) = c) by (cbn [step]; rewrite R; reflexivity).
        rewrite S1. constructor; auto.
      * destruct d.
        -- assert (S1 : step false share c (Run t ch) = c) by (cbn [step]; rewrite R; reflexivity).
           rewrite S1. constructor; auto.
        -- assert (S1 : step false share c (Run t ch) = graft c' (upd (thr c) t (TReload p' true)) p').
           { cbn [step]. rewrite R. rewrite Hc. reflexivity. }
           rewrite S1. constructor.
           ++ reflexivity.
           ++ intros t' L'. cbn [graft thr]. unfold upd.
              assert (Q : Nat.eqb t' t = false) by (apply Nat.eqb_neq; lia). rewrite Q. apply Hl, L'.
           ++ intros t' G'. cbn [graft thr]. unfold upd. destruct (Nat.eqb t' t) eqn:Q.
              ** split; [apply Hh, G'|]. right. exists p', true. split; auto.
              ** apply Hh, G'.
           ++ exact OK.
           ++ exact H0.
  - (* Age *)
    assert (S1 : step false share c (Age k d) = graft (step false share c' (Age k d)) (thr c) (pol c)).
    { rewrite Hc at 1. cbn [step]. change (timeouts (graft c' (thr c) (pol c)) k) with (timeouts c' k).
      destruct (timeouts c' k); reflexivity. }
    rewrite S1.
    assert (F : thr (step false share c' (Age k d)) = thr c' /\ pol (step false share c' (Age k d)) = pol c').
    { cbn [step]. destruct (timeouts c' k); split; reflexivity. }
    destruct F as [Ft Fp]. constructor.
    + reflexivity.
    + intros t L. cbn [graft thr]. rewrite Ft. apply Hl, L.
    + intros t G. cbn [graft thr]. rewrite Ft. apply Hh, G.
    + exact Hp.
    + rewrite Fp. exact H0.
Qed.

Lemma sim_run acts : forall c c', Sim c c' -> Sim (run false share c acts) (run false share c' acts).
Proof.
  induction acts as [|a r IH]; intros c c' S; [exact S|].
  apply (IH (step false share c a) (step false share c' a)), sim_step, S.
Qed.

Lemma sim_msg_of c c' : Sim c c' -> forall o, msg_of c o = msg_of c' o.
Proof.
  intros S o. unfold msg_of. destruct (Nat.lt_ge_cases o n) as [L|G].
  - destruct (sim_low _ _ S o L) as [E _]. rewrite E. reflexivity.
  - destruct (sim_high _ _ S o G) as [N R]. rewrite N. destruct R as [R|(p & d & R & _)]; rewrite R; reflexivity.
Qed.

Lemma announcements_ext c c' tr : (forall o, msg_of c o = msg_of c' o) -> announcements c tr = announcements c' tr.
Proof.
  intro E. induction tr as [|e r IH]; [reflexivity|]. destruct e; cbn [announcements]; try exact IH.
  rewrite E, IH. reflexivity.
Qed.

Lemma sim_view c c' : Sim c c' -> forall k, view c k = view c' k.
Proof.
  intros S k. pose proof (sim_core _ _ S) as Hc. unfold view.
  assert (D : decoys c = decoys c') by (rewrite Hc; reflexivity).
  assert (O : objs c = objs c') by (rewrite Hc; reflexivity).
  rewrite D. destruct (decoys c' k) as [o|]; [|reflexivity].
  rewrite (sim_msg_of _ _ S o), O. reflexivity.
Qed.

Lemma sim_trace c c' : Sim c c' -> trace c = trace c'.
Proof. intros S. rewrite (sim_core _ _ S). reflexivity. Qed.

Lemma sim_terminal c c' : Sim c c' -> terminal n c -> terminal n c'.
Proof. intros S Tm t L. destruct (sim_low _ _ S t L) as [E _]. rewrite <- E. apply Tm, L. Qed.

End Sim.

Definition reloads_ok (ms : list msg) (rls : list thread) : Prop :=
  forall th, In th rls -> exists p d, th = TReload p d /\ pol_ok ms p.

Lemma pol_ok_0 ms : pol_ok ms 0.
Proof. intros t L. split; reflexivity. Qed.

Lemma sim_init ms rls : reloads_ok ms rls -> Sim ms (init (workers ms ++ rls)) (init (workers ms)).
Proof.
  intros R. constructor.
  - reflexivity.
  - intros t L. cbn [init thr]. rewrite app_nth1 by (unfold workers; rewrite map_length; exact L).
    split; [reflexivity|]. rewrite nth_workers. apply Nat.ltb_lt in L. rewrite L. eexists; reflexivity.
  - intros t G. cbn [init thr]. split.
    + rewrite nth_workers. apply Nat.ltb_ge in G. rewrite G. reflexivity.
    + rewrite app_nth2 by (unfold workers; rewrite map_length; exact G).
      unfold workers. rewrite map_length.
      destruct (Nat.lt_ge_cases (t - length ms) (length rls)) as [L|G'].
      * right. apply (R (nth (t - length ms) rls TNone)). apply nth_In, L.
      * left. apply nth_overflow, G'.
  - apply pol_ok_0.
  - reflexivity.
Qed.

(* Serializability with reloads among the threads: any number of workers and of reloads, every
   schedule; the reloads install policies that judge the messages in flight as the initial policy does. *)
Lemma serializable_with_reloads_lemma : forall share ms rls acts,
  reloads_ok ms rls ->
  let c := run false share (init (workers ms ++ rls)) acts in
  terminal (length ms) c ->
  exists ms', Permutation ms ms' /\
              (forall k, view c k = view (serial share ms') k) /\
              (forall a, count_ann a (announcements c (trace c)) =
                         count_ann a (announcements (serial share ms') (trace (serial share ms')))).
Proof.
  intros share ms rls acts R c Tm.
  pose proof (sim_run share ms acts _ _ (sim_init ms rls R)) as S. fold c in S.
  set (c' := run false share (init (workers ms)) acts) in *.
  destruct (serializable_lemma share ms acts (sim_terminal ms c c' S Tm)) as (ms' & P & V & A).
  exists ms'. split; [exact P|]. split.
  - intro k. rewrite (sim_view ms c c' S k). apply V.
  - intro a. rewrite (sim_trace ms c c' S), (announcements_ext c c' _ (sim_msg_of ms c c' S)). apply A.
Qed.
