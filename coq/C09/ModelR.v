(* C09 — configuration reload as an OPERATION of the concurrent history.

   Model.v treats the policy as a version number and a message as the list of its decisions per
   version.  This file opens that up: a policy is what RegConfig holds behind policyLock (the covert
   allowlist switch, the covert allowlist and blocklist, the covert domain patterns, the phantom
   blocklist), a reload (RegistrationManager.OnReload) is ONE write section that replaces all of it,
   and an ingest worker evaluates the policy in the read sections the code has:

     R0     ValidateRegistration: IsBlocklistedPhantom            (sources other than the detector)
     RDom   ParseOrResolveBlocklisted: isBlocklistedCovertDomain
     RAddr  ParseOrResolveBlocklisted: isBlocklistedCovertAddr    (ONE read section: it takes the
            allowlist switch and the list it selects together)
     RLate  ingestRegistration: IsBlocklistedPhantom              (detector source, after the probe)

   [split = true] is the variant in which the covert address check reads the switch in one read
   section and the list in another ([RAddr2]); it is only used for the refutation.
   The table sections of the ingest (Model.v) are stutter steps of this projection.  Definitions only. *)
From CJ Require Import Common.Base C09.Model.
From Coq Require Import Arith PeanoNat NArith Bool.
Local Open Scope nat_scope.

(* an address: its width in bits (32 / 128) and value; a subnet: width, prefix value, prefix length *)
Record ipaddr := mkIp { a_w : N; a_v : N }.
Record cidr := mkCidr { c_w : N; c_pfx : N; c_len : N }.

(* net.IPNet.Contains: same family and equal under the mask *)
Definition contains (c : cidr) (a : ipaddr) : bool :=
  (c_w c =? a_w a)%N && (N.shiftr (a_v a) (c_w c - c_len c) =? N.shiftr (c_pfx c) (c_w c - c_len c))%N.

Definition in_list (l : list cidr) (a : ipaddr) : bool := existsb (fun c => contains c a) l.

(* everything OnReload swaps under policyLock; [p_dom]: the hosts (by identifier) the domain patterns match *)
Record pol := mkPol {
  p_sw : bool;               (* enableCovertAllowlist *)
  p_allow : list cidr;       (* covertAllowlistSubnets *)
  p_block : list cidr;       (* covertBlocklistSubnets *)
  p_dom : list nat;          (* covertBlocklistDomains *)
  p_phb : list cidr          (* phantomBlocklist *)
}.

(* ParseBlocklists sets the switch iff the allowlist is not empty *)
Definition parsed (p : pol) : bool := Bool.eqb (p_sw p) (negb (match p_allow p with [] => true | _ => false end)).

Record rmsg := mkRmsg { r_host : nat; r_addr : ipaddr; r_ph : ipaddr; r_det : bool }.

(* isBlocklistedCovertAddr on a switch and two lists *)
Definition addr_blocked (sw : bool) (allow block : list cidr) (a : ipaddr) : bool :=
  if sw then negb (in_list allow a) else in_list block a.

Inductive kind := KEarly | KDom | KAddr | KLate.

(* the decision of one policy section under one policy (true = the registration is refused there) *)
Definition kdec (k : kind) (p : pol) (m : rmsg) : bool :=
  match k with
  | KEarly => negb (r_det m) && in_list (p_phb p) (r_ph m)
  | KDom => existsb (Nat.eqb (r_host m)) (p_dom p)
  | KAddr => addr_blocked (p_sw p) (p_allow p) (p_block p) (r_addr m)
  | KLate => r_det m && in_list (p_phb p) (r_ph m)
  end.

(* the decision of a whole ingest under ONE policy: what a serial execution produces *)
Definition ingest_dec (p : pol) (m : rmsg) : bool :=
  negb (kdec KEarly p m) && negb (kdec KDom p m) && negb (kdec KAddr p m) && negb (kdec KLate p m).

(* ... and under four policies, one per section *)
Definition mixed (pols : nat -> pol) (m : rmsg) (v0 v1 v2 v3 : nat) : bool :=
  negb (kdec KEarly (pols v0) m) && negb (kdec KDom (pols v1) m) &&
  negb (kdec KAddr (pols v2) m) && negb (kdec KLate (pols v3) m).

Inductive rpc := R0 | RDom | RAddr | RAddr2 (sw : bool) | RLate | REnd (acc : bool).

(* a worker: its message, where it is, and (ghost) the policy versions its sections read, newest first *)
Inductive rthread := RW (m : rmsg) (pc : rpc) (vs : list nat) | RNone.

(* [r_ver]: number of reloads completed; the policy in force is [pols (r_ver c)] *)
Record rcfg := mkR { r_ver : nat; r_thr : nat -> rthread }.

Inductive ract := RStep (w : nat) | RReload.

(* one read section of a worker under the policy [P] in force (version [v]) *)
Definition rwstep (split : bool) (P : pol) (v : nat) (m : rmsg) (pc : rpc) (vs : list nat) : rpc * list nat :=
  match pc with
  | R0 => (if kdec KEarly P m then REnd false else RDom, v :: vs)
  | RDom => (if kdec KDom P m then REnd false else RAddr, v :: vs)
  | RAddr => if split then (RAddr2 (p_sw P), v :: vs)
             else (if kdec KAddr P m then REnd false else RLate, v :: vs)
  | RAddr2 sw => (if addr_blocked sw (p_allow P) (p_block P) (r_addr m) then REnd false else RLate, v :: vs)
  | RLate => (REnd (negb (kdec KLate P m)), v :: vs)
  | REnd a => (REnd a, vs)
  end.

(* a reload is one write section: afterwards the next policy is in force, in full *)
Definition rstep (split : bool) (pols : nat -> pol) (c : rcfg) (a : ract) : rcfg :=
  match a with
  | RReload => mkR (S (r_ver c)) (r_thr c)
  | RStep w =>
      match r_thr c w with
      | RW m pc vs => let '(pc', vs') := rwstep split (pols (r_ver c)) (r_ver c) m pc vs in
                      mkR (r_ver c) (upd (r_thr c) w (RW m pc' vs'))
      | RNone => c
      end
  end.

Definition rrun (split : bool) (pols : nat -> pol) (c : rcfg) (acts : list ract) : rcfg :=
  fold_left (rstep split pols) acts c.

(* any number of workers, one per message *)
Definition rinit (ms : list rmsg) : rcfg :=
  mkR 0 (fun i => match nth_error ms i with Some m => RW m R0 [] | None => RNone end).

Fixpoint count_reloads (acts : list ract) : nat :=
  match acts with
  | [] => 0
  | RReload :: r => S (count_reloads r)
  | RStep _ :: r => count_reloads r
  end.

(* two policies that give the same decision in every section of the ingest of [m] *)
Definition agree_on (p q : pol) (m : rmsg) : bool :=
  Bool.eqb (kdec KEarly p m) (kdec KEarly q m) && Bool.eqb (kdec KDom p m) (kdec KDom q m) &&
  Bool.eqb (kdec KAddr p m) (kdec KAddr q m) && Bool.eqb (kdec KLate p m) (kdec KLate q m).

(* the serial schedule "ingest of worker w entirely after [n] reloads" *)
Definition serial_at (n w : nat) : list ract := repeat RReload n ++ repeat (RStep w) 4.

(* ---- link to Model.v: the message of the table LTS that stands for [m] under policies 0..n-1.
   Model.v's W2 is ParseOrResolveBlocklisted as one step (its two read sections with no reload in
   between); W0 / validate carry the two phantom sections. *)
Definition covert_ok (p : pol) (m : rmsg) : bool := negb (kdec KDom p m) && negb (kdec KAddr p m).
Definition ph_blocked (p : pol) (m : rmsg) : bool := in_list (p_phb p) (r_ph m).
Definition abs_msg (pols : nat -> pol) (n : nat) (key : nat) (m : rmsg) : msg :=
  mkMsg key (r_host m) true (r_det m)
        (map (fun v => ph_blocked (pols v) m) (seq 0 n))
        (map (fun v => covert_ok (pols v) m) (seq 0 n))
        false false.
