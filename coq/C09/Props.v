(* C09 property theorems: statements + `exact lemma` only. *)
From CJ Require Import Common.Base C09.Model C09.ProofsA C09.ProofsV C09.ProofsS C09.ProofsB C09.ModelR C09.ProofsR C09.ProofsSR.
From Coq Require Import Arith PeanoNat Permutation.
Local Open Scope nat_scope.

(* Whatever the schedule of any number of workers, handlers, reloads and sweeps, and whatever ages the
   registrations reach: between two announcements of one key to the detector lies its removal. *)
Theorem C09_announce_at_most_once_per_lifetime : forall split share ths acts,
  once_per_lifetime (trace (run split share (init ths) acts)).
Proof. exact announce_once_lemma. Qed.
Print Assumptions C09_announce_at_most_once_per_lifetime.

(* A connection handler is only ever handed a registration that was validated and announced, and
   not removed since. *)
Theorem C09_visible_only_after_validate : forall split share ths acts,
  seen_after_announce (trace (run split share (init ths) acts)).
Proof. exact visible_lemma. Qed.
Print Assumptions C09_visible_only_after_validate.

(* ... and it stays valid (and tracked) until the sweeper removes the key: lookups are consistent with
   a serial order in which those that found the registration come after its ingest. *)
Theorem C09_seen_stays_valid : forall split share ths acts k o r tr1 tr2,
  let c := run split share (init ths) acts in
  trace c = tr1 ++ ESeen k o r :: tr2 -> ~ In (ERemove k) tr1 ->
  exists o', decoys c k = Some o' /\ o_valid (objs c o') = true.
Proof. exact seen_stays_valid_lemma. Qed.
Print Assumptions C09_seen_stays_valid.

(* The detector never hears Update for a key before a New for it: together with the two theorems above,
   the announcement trace of a key is New, then Updates, then its removal, then possibly New again.
   (An activation looked up in one lifetime and executed after the key was swept and re-tracked lands
   in the next lifetime; the statement is about the order of the first New.) *)
Theorem C09_update_after_new : forall split share ths acts,
  (forall t, handler_fresh (nth t ths TNone) = true) ->
  forall k tr1 tr2, trace (run split share (init ths) acts) = tr1 ++ EUpd k :: tr2 ->
  exists o r, In (EAnn k o r) tr2.
Proof. exact update_after_new_lemma. Qed.
Print Assumptions C09_update_after_new.

(* ... and, for the code with TrackRegIfNotExists, what the handler is handed (and what is announced)
   had its own covert address checked and resolved by its own ingest first -- sweeper, reloads and
   ageing included. *)
Theorem C09_visible_covert_checked : forall share ths acts,
  (forall t, worker_fresh (nth t ths TNone) = true) ->
  covert_checked_before (trace (run false share (init ths) acts)).
Proof. exact covert_checked_lemma. Qed.
Print Assumptions C09_visible_covert_checked.

(* No update is lost: the counter of a tracked registration is the number of ingests of its key
   since it was (re-)tracked. *)
Theorem C09_no_lost_regcount : forall split share ths acts k,
  let c := run split share (init ths) acts in
  tracks_since k (trace c) = match decoys c k with Some o => o_regcount (objs c o) | None => 0 end.
Proof. exact regcount_lemma. Qed.
Print Assumptions C09_no_lost_regcount.

(* Nothing deadlocks: a worker, handler or reload never waits for another thread -- whenever it is
   scheduled it takes a step that brings it strictly closer to its end (at most 5 own steps). *)
Theorem C09_no_thread_waits : forall split share c t ch,
  is_sweeper (thr c t) = false -> thread_ended (thr c t) = false ->
  own_steps_left (thr (step split share c (Run t ch)) t) < own_steps_left (thr c t).
Proof. exact step_progress. Qed.
Print Assumptions C09_no_thread_waits.

(* With one sweeper (as the station runs it) the removal step never dereferences a missing record. *)
Theorem C09_no_panic_in_sweep : forall split share ths acts,
  one_sweeper (fun i => nth i ths TNone) -> (forall t, sweeper_idle (nth t ths TNone) = true) ->
  panicked (run split share (init ths) acts) = false.
Proof. exact no_panic_lemma. Qed.
Print Assumptions C09_no_panic_in_sweep.

(* Serializability: for any number of workers and every schedule, once all ingests have finished the
   table (validity, covert, count of every tracked registration) and the multiset of announcements
   are those of the same ingests run one after the other in some order. *)
Theorem C09_serializable : forall share ms acts,
  let c := run false share (init (workers ms)) acts in
  terminal (length ms) c ->
  exists ms', Permutation ms ms' /\
              (forall k, view c k = view (serial share ms') k) /\
              (forall a, count_ann a (announcements c (trace c)) =
                         count_ann a (announcements (serial share ms') (trace (serial share ms')))).
Proof. exact serializable_lemma. Qed.
Print Assumptions C09_serializable.

(* ... and the serial run is the obvious specification: the first admissible message of a key owns
   it, it is valid iff it is admitted, later ones are counted. *)
Theorem C09_serial_is_spec : forall share ms k,
  view (serial share ms) k = spec_view (spec_nf (rev (filter passes ms))) k.
Proof. exact serial_spec_lemma. Qed.
Print Assumptions C09_serial_is_spec.

(* Overload: excess registrations are dropped and counted; the receiver never waits for a worker.
   For every buffer capacity, 0 included (fewer than 10 workers: unbuffered channel, hand-off only to a
   worker that is waiting, else a counted drop). *)
Theorem C09_distributor_never_blocks : forall nw cap work p,
  preach true nw cap work p ->
  p_received p = p_enqueued p + p_dropped p + in_hand (p_d p) /\
  p_buf p <= cap /\
  (forall b w, p_d p <> DWait ->
     (dstep true nw cap work p b = None <-> dstep true nw cap work (with_workers p w) b = None)) /\
  (p_cancel p = false -> p_in p > 0 -> p_d p <> DWait -> p_d p <> DDone ->
     exists p', dstep true nw cap work p false = Some p') /\
  (p_d p = DHave -> forall b, exists p', dstep true nw cap work p b = Some p' /\ p_d p' = DTop /\
     (can_handoff nw cap p = false -> p_dropped p' = S (p_dropped p) /\ p_enqueued p' = p_enqueued p /\ p_buf p' = p_buf p) /\
     (can_handoff nw cap p = true -> p_enqueued p' = S (p_enqueued p) /\ p_dropped p' = p_dropped p)).
Proof. exact distributor_never_blocks_lemma. Qed.
Print Assumptions C09_distributor_never_blocks.

(* Shutdown: after the stop request the pipeline winds down within a bounded number of its own
   steps whether or not registrations keep arriving, without deadlock, taking at most one more
   registration from the input. *)
Theorem C09_shutdown_bounded : forall nw cap work p,
  preach true nw cap work p -> p_cancel p = true ->
  (forall l p', prun true nw cap work p l = Some p' -> pipeline_steps l <= shutdown_bound nw cap work) /\
  (forall l p', prun true nw cap work p l = Some p' -> p_d p' <> DDone ->
     exists a p'', is_pipeline a = true /\ pstep true nw cap work p' a = Some p'') /\
  p_after p <= 1.
Proof. exact shutdown_bounded_lemma. Qed.
Print Assumptions C09_shutdown_bounded.

(* ---- configuration reload as an operation of the history (ModelR.v): any initial policy, any
   sequence of reloads (each ONE write section), any number of workers, every schedule ---- *)

(* Every policy read section of an ingest evaluates the policy in force, in full: policy number n,
   where n is the number of reloads that precede the section in the schedule. *)
Theorem C09_policy_section_reads_policy_in_force : forall split pols ms s1 w m pc vs,
  let c1 := rrun split pols (rinit ms) s1 in
  r_thr c1 w = RW m pc vs ->
  let n := count_reloads s1 in
  r_thr (rstep split pols c1 (RStep w)) w =
    RW m (fst (rwstep split (pols n) n m pc vs)) (snd (rwstep split (pols n) n m pc vs)).
Proof. exact section_reads_policy_in_force. Qed.
Print Assumptions C09_policy_section_reads_policy_in_force.

(* The covert address check (allowlist switch and lists, one read section) lets the ingest go on iff
   the policy before-or-after each reload IN FULL does: never the switch of one configuration with
   the list of another. *)
Theorem C09_covert_check_one_policy_in_full : forall pols ms s1 w m vs,
  let c1 := rrun false pols (rinit ms) s1 in
  r_thr c1 w = RW m RAddr vs ->
  let n := count_reloads s1 in
  r_thr (rstep false pols c1 (RStep w)) w =
    RW m (if addr_blocked (p_sw (pols n)) (p_allow (pols n)) (p_block (pols n)) (r_addr m) then REnd false else RLate) (n :: vs).
Proof. exact covert_addr_one_policy_lemma. Qed.
Print Assumptions C09_covert_check_one_policy_in_full.

(* The decision of a finished ingest is that of four policies, one per read section, each complete,
   with non-decreasing versions between the first and the last one the ingest read. *)
Theorem C09_ingest_decision_monotone_policies : forall pols ms acts w m acc vs,
  let c := rrun false pols (rinit ms) acts in
  r_thr c w = RW m (REnd acc) vs ->
  exists v0 v1 v2 v3, v0 <= v1 /\ v1 <= v2 /\ v2 <= v3 /\ v3 <= count_reloads acts /\
                      last vs 0 = v0 /\ hd 0 vs = v3 /\ acc = mixed pols m v0 v1 v2 v3.
Proof. exact ingest_decision_lemma. Qed.
Print Assumptions C09_ingest_decision_monotone_policies.

(* Serializable with the reloads as operations (partial: see RefutedR.C09_ingest_one_policy_full_statement,
   false for the code as pinned when the policies of the span disagree in different sections): if the
   policies in force during the span of an ingest agree section by section on its registration, its
   decision is the decision of each of them in full -- before or after every reload of the span. *)
Theorem C09_ingest_reload_serializable_partial : forall pols ms acts w m acc vs,
  let c := rrun false pols (rinit ms) acts in
  r_thr c w = RW m (REnd acc) vs ->
  (forall v, last vs 0 <= v <= hd 0 vs -> agree_on (pols (last vs 0)) (pols v) m = true) ->
  forall v, last vs 0 <= v <= hd 0 vs -> acc = ingest_dec (pols v) m.
Proof. exact ingest_serial_lemma. Qed.
Print Assumptions C09_ingest_reload_serializable_partial.

(* ... in particular an ingest with no reload inside its span is judged by the one policy in force. *)
Theorem C09_ingest_no_reload_in_span : forall pols ms acts w m acc vs,
  let c := rrun false pols (rinit ms) acts in
  r_thr c w = RW m (REnd acc) vs -> last vs 0 = hd 0 vs -> acc = ingest_dec (pols (hd 0 vs)) m.
Proof. exact ingest_no_reload_in_span_lemma. Qed.
Print Assumptions C09_ingest_no_reload_in_span.

(* ... and, as runs: the concurrent run gives the worker the decision of the SERIAL run "this ingest
   after exactly v reloads", for every v of its span. *)
Theorem C09_ingest_equals_serial_run : forall pols ms acts w m acc vs,
  nth_error ms w = Some m ->
  r_thr (rrun false pols (rinit ms) acts) w = RW m (REnd acc) vs ->
  (forall v, last vs 0 <= v <= hd 0 vs -> agree_on (pols (last vs 0)) (pols v) m = true) ->
  forall v, last vs 0 <= v <= hd 0 vs ->
  exists vs', r_thr (rrun false pols (rinit ms) (serial_at v w)) w = RW m (REnd acc) vs'.
Proof. exact ingest_equals_serial_run_lemma. Qed.
Print Assumptions C09_ingest_equals_serial_run.

(* The table LTS of Model.v with reloads among the threads: any number of workers and of reloads,
   every schedule (ageing included).  Reloads whose policies judge the registrations in flight as the
   initial policy does leave the run serializable: final table and announcements are those of the
   ingests run one after the other in some order (the reloads can be placed anywhere in it). *)
Theorem C09_serializable_with_reloads : forall share ms rls acts,
  reloads_ok ms rls ->
  let c := run false share (init (workers ms ++ rls)) acts in
  terminal (length ms) c ->
  exists ms', Permutation ms ms' /\
              (forall k, view c k = view (serial share ms') k) /\
              (forall a, count_ann a (announcements c (trace c)) =
                         count_ann a (announcements (serial share ms') (trace (serial share ms')))).
Proof. exact serializable_with_reloads_lemma. Qed.
Print Assumptions C09_serializable_with_reloads.
