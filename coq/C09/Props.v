(* C09 property theorems: statements + `exact lemma` only. *)
From CJ Require Import Common.Base C09.Model C09.ProofsB.
From Coq Require Import Arith PeanoNat.
Local Open Scope nat_scope.

(* Overload: excess registrations are dropped and counted; the receiver never waits for a worker. *)
Theorem C09_distributor_never_blocks : forall nw cap work p,
  preach true nw cap work p ->
  p_received p = p_enqueued p + p_dropped p + in_hand (p_d p) /\
  p_buf p <= cap /\
  (forall b w, p_d p <> DWait ->
     (dstep true nw cap p b = None <-> dstep true nw cap (with_workers p w) b = None)) /\
  (p_cancel p = false -> p_in p > 0 -> p_d p <> DWait -> p_d p <> DDone ->
     exists p', dstep true nw cap p false = Some p') /\
  (p_d p = DHave -> forall b, exists p', dstep true nw cap p b = Some p' /\ p_d p' = DTop /\
     (p_buf p <? cap = false -> p_dropped p' = S (p_dropped p) /\ p_buf p' = p_buf p) /\
     (p_buf p <? cap = true -> p_enqueued p' = S (p_enqueued p) /\ p_buf p' = S (p_buf p))).
Proof. exact distributor_never_blocks_lemma. Qed.
Print Assumptions C09_distributor_never_blocks.

(* Shutdown: after the stop request the pipeline winds down within a bounded number of its own
   steps whether or not registrations keep arriving, without deadlock, taking at most one more
   registration from the input. *)
Theorem C09_shutdown_bounded : forall nw cap work p,
  preach true nw cap work p -> p_cancel p = true ->
  (forall l p', prun true nw cap work p l = Some p' -> pipeline_steps l <= shutdown_bound nw cap work) /\
  (forall l p', prun true nw cap work p l = Some p' -> p_d p' <> DDone ->
     exists a p'', is_pipeline a = true /\ pstep true nw cap work p' a = Some p'') /\
  p_after p <= 1.
Proof. exact shutdown_bounded_lemma. Qed.
Print Assumptions C09_shutdown_bounded.
