(* C09 — reload as an operation: non-vacuity.  Three workers and two reloads; worker 0 straddles
   both reloads with policies that agree on its registration (hypothesis of
   C09_ingest_reload_serializable_partial met with a span of three versions), worker 1 runs
   between the reloads, worker 2 is judged differently by the policies and ends after the last one. *)
From CJ Require Import Common.Base C09.Model C09.ModelR C09.ProofsR C09.RefutedR.
From Coq Require Import Arith PeanoNat NArith Bool Lia.
Local Open Scope nat_scope.

Definition ip8 := mkIp 32 134744072.                (* 8.8.8.8 *)
Definition m8 := mkRmsg 9 ip8 ph false.
Definition pols3 (v : nat) : pol := match v with 0 => polBlock | 1 => polAllow | _ => polBlock end.
Definition ex_sched : list ract :=
  [RStep 0; RStep 2; RReload; RStep 0; RStep 1; RStep 1; RStep 1; RStep 1; RStep 2; RStep 0; RReload; RStep 0; RStep 2; RStep 2].
Definition ex_c := rrun false pols3 (rinit [m10; m192; m8]) ex_sched.

Example ex_outcomes :
  acc_of ex_c 0 = Some false /\ acc_of ex_c 1 = Some true /\ acc_of ex_c 2 = Some true /\ r_ver ex_c = 2.
Proof. vm_compute. repeat split. Qed.

Example ex_w0_span : exists vs, r_thr ex_c 0 = RW m10 (REnd false) vs /\ last vs 0 = 0 /\ hd 0 vs = 1.
Proof. eexists. vm_compute. repeat split. Qed.

Example ex_w0_hyp : forall v, 0 <= v <= 1 -> agree_on (pols3 0) (pols3 v) m10 = true.
Proof. intros v R. assert (v = 0 \/ v = 1) as [-> | ->] by lia; vm_compute; reflexivity. Qed.

(* worker 2 is judged differently by the policies: accepted under the blocklist, refused under the allowlist *)
Example ex_w2_differs : ingest_dec (pols3 0) m8 = true /\ ingest_dec (pols3 1) m8 = false.
Proof. vm_compute. split; reflexivity. Qed.

(* the parsed-configuration shape (switch iff the allowlist is not empty) holds for the witnesses *)
Example ex_parsed : forallb parsed [polBlock; polAllow; polDom; polPh] = true.
Proof. reflexivity. Qed.

(* contains = net.IPNet.Contains on the boundary of 10.0.0.0/8 and across families *)
Example ex_contains :
  contains net10 (mkIp 32 167772160) = true /\ contains net10 (mkIp 32 184549375) = true /\
  contains net10 (mkIp 32 184549376) = false /\ contains net10 (mkIp 128 167838211) = false /\
  contains ph64 ph = true /\ contains (mkCidr 32 0 0) ip8 = true.
Proof. vm_compute. repeat split. Qed.

(* non-vacuity of C09_serializable_with_reloads: two workers of one key and two reloads whose
   policies (1: allowlist, 2: blocklist) judge both messages as policy 0 does; the reloads land
   between the workers' sections; terminal *)
From CJ Require Import C09.ProofsS C09.ProofsSR.
Definition tm1 := mkMsg 0 1 true true [false; false; false] [true; true; true] false false.
Definition tm2 := mkMsg 0 2 true false [false; false; false] [false; false; false] false false.
Definition t_rls := [TReload 1 false; TReload 2 false].
Example ex_reloads_ok : reloads_ok [tm1; tm2] t_rls.
Proof.
  intros th [<-|[<-|[]]]; eexists _, _; (split; [reflexivity|]);
    intros t L; (destruct t as [|[|t]]; [| |cbn in L; lia]); split; reflexivity.
Qed.
Definition t_acts := [Run 0 0; Run 2 0; Run 1 0; Run 0 0; Run 3 0; Run 0 0; Run 0 0; Run 1 0; Run 1 0; Run 1 0].
Example ex_reloads_terminal :
  let c := run false false (init (workers [tm1; tm2] ++ t_rls)) t_acts in
  thread_ended (thr c 0) = true /\ thread_ended (thr c 1) = true /\ Model.pol c = 2 /\
  view c 0 = Some (true, true, 1, 2).
Proof. vm_compute. repeat split. Qed.
