(* C09 lemmas, part A continued: with TrackRegIfNotExists and register validating only the caller's
   object, whatever a handler sees (and whatever is announced) has had its covert address checked
   and resolved by its own ingest -- for every schedule, sweeper and reloads included. *)
From CJ Require Import Common.Base C09.Model C09.ProofsA.
From Coq Require Import Arith PeanoNat Lia.
Local Open Scope nat_scope.

Fixpoint checked_tr (tr : list event) : Prop :=
  match tr with
  | [] => True
  | ESeen _ o r :: rest => r = true /\ In (ECov o) rest /\ checked_tr rest
  | EAnn _ o r :: rest => r = true /\ In (ECov o) rest /\ checked_tr rest
  | _ :: rest => checked_tr rest
  end.

Record VI (c : cfg) : Prop := mkVI {
  vi_valid : forall o, o_valid (objs c o) = true -> o_resolved (objs c o) = true;
  vi_res : forall o, o_resolved (objs c o) = true -> In (ECov o) (trace c);
  vi_pc : forall w m pc, thr c w = TWorker m pc -> pc = W3 \/ pc = W4 -> o_resolved (objs c w) = true;
  vi_tr : checked_tr (trace c)
}.

Lemma VI_init ths : (forall t, worker_fresh (nth t ths TNone) = true) -> VI (init ths).
Proof.
  intros F. constructor; cbn; try discriminate; auto.
  intros w m pc H [-> | ->]; specialize (F w); rewrite H in F; discriminate.
Qed.

Definition plain (e : event) : Prop :=
  match e with ESeen _ _ _ | EAnn _ _ _ => False | _ => True end.

Lemma checked_plain e tr : plain e -> checked_tr tr -> checked_tr (e :: tr).
Proof. destruct e; cbn; tauto. Qed.

(* a change that keeps the flags of every object and adds plain events *)
Lemma VI_flags c c' :
  thr c' = thr c ->
  (forall o, o_valid (objs c' o) = o_valid (objs c o) /\ o_resolved (objs c' o) = o_resolved (objs c o)) ->
  (exists evs, trace c' = evs ++ trace c /\ Forall plain evs) ->
  VI c -> VI c'.
Proof.
  intros Et Eo (evs & Er & P) [A B C D]. constructor.
  - intros o. destruct (Eo o) as [-> ->]. auto.
  - intros o. destruct (Eo o) as [_ ->]. intros H. rewrite Er. apply in_or_app. right. auto.
  - intros w m pc. rewrite Et. destruct (Eo w) as [_ ->]. apply C.
  - rewrite Er. clear Er. induction P as [|e evs Pe _ IH]; cbn; auto. now apply checked_plain.
Qed.

Lemma VI_set_thr_same c t th :
  (forall m pc, th = TWorker m pc -> pc = W3 \/ pc = W4 -> o_resolved (objs c t) = true) ->
  VI c -> VI (set_thr c t th).
Proof.
  intros H [A B C D]. constructor; cbn; auto.
  intros w m pc. unfold upd. destruct (Nat.eqb_spec w t); [subst; intros E; eapply H; eauto|apply C].
Qed.

Lemma VI_fresh_track c k w : VI c -> VI (fresh_track c k w).
Proof.
  intros [A B C D]. constructor; cbn.
  - intros o. unfold upd. destruct (Nat.eqb_spec o w); [discriminate|apply A].
  - intros o. unfold upd. destruct (Nat.eqb_spec o w); cbn; [subst; intros; right; auto|intros; right; auto].
  - intros w' m pc H E. unfold upd. destruct (Nat.eqb_spec w' w); cbn; [subst|]; eapply C; eauto.
  - exact D.
Qed.

Lemma VI_bump c k o w : VI c -> VI (bump c k o w).
Proof.
  apply VI_flags; auto.
  - intros o'. cbn. unfold upd. destruct (Nat.eqb_spec o' o); subst; auto.
  - exists [EBump k w]. split; auto. constructor; cbn; auto.
Qed.

Lemma VI_resolve c w : VI c -> VI (resolve c w).
Proof.
  intros [A B C D]. constructor; cbn.
  - intros o. unfold upd. destruct (Nat.eqb_spec o w); cbn; auto.
  - intros o. unfold upd. destruct (Nat.eqb_spec o w); cbn; [subst; auto|intros; right; auto].
  - intros w' m pc H E. unfold upd. destruct (Nat.eqb_spec w' w); cbn; auto. eapply C; eauto.
  - exact D.
Qed.

Lemma VI_stats c d e b a x : VI c -> VI (set_stats c d e b a x).
Proof. apply VI_flags; auto. exists []. split; auto. Qed.

Lemma VI_register c k w : VI c -> o_resolved (objs c w) = true -> VI (register false c k w).
Proof.
  intros V R. unfold register.
  set (c1 := match decoys c k with Some _ => c | None => fresh_track c k w end).
  assert (V1 : VI c1) by (unfold c1; destruct (decoys c k); auto; now apply VI_fresh_track).
  assert (R1 : o_resolved (objs c1 w) = true).
  { unfold c1. destruct (decoys c k); auto. cbn. now rewrite upd_same. }
  clearbody c1. destruct (decoys c1 k) as [o|]; auto. cbn [negb andb].
  destruct (Nat.eqb_spec o w); cbn [negb]; auto. subst o.
  destruct (o_valid (objs c1 w)) eqn:Vw; auto.
  destruct V1 as [A B C D]. constructor; cbn.
  - intros o. unfold upd. destruct (Nat.eqb_spec o w); cbn; [subst; auto|apply A].
  - intros o. unfold upd. destruct (Nat.eqb_spec o w); cbn; [subst; intros; right; auto|intros; right; auto].
  - intros w' m pc H E. unfold upd. destruct (Nat.eqb_spec w' w); cbn; [subst; auto|eapply C; eauto].
  - rewrite R1. repeat split; auto.
Qed.

Lemma VI_validate share c w m : VI c -> o_resolved (objs c w) = true -> VI (validate false share c w m).
Proof.
  intros V R. unfold validate.
  set (c1 := if m_detector m && share then add_event (EShare w) c else c).
  assert (V1 : VI c1).
  { unfold c1. destruct (m_detector m && share); auto. revert V. apply VI_flags; auto.
    exists [EShare w]. split; auto. constructor; cbn; auto. }
  assert (R1 : o_resolved (objs c1 w) = true) by (unfold c1; destruct (m_detector m && share); auto).
  clearbody c1. destruct (m_detector m && at_pol (m_ph_blocked m) (pol c)).
  - now apply VI_stats.
  - apply VI_stats. now apply VI_register.
Qed.

Lemma step_VI share c a : VI c -> VI (step false share c a).
Proof.
  intros V. destruct a as [t ch|k d]; cbn.
  2:{ destruct (timeouts c k); auto. revert V. apply VI_flags; auto. exists []. split; auto. }
  destruct (thr c t) eqn:Ht; auto.
  - (* worker *)
    destruct pc; cbn.
    + destruct (negb (m_tr_ok m)). { apply VI_set_thr_same; auto. intros ? ? E [-> | ->]; discriminate. }
      destruct (negb (m_detector m) && at_pol (m_ph_blocked m) (pol c)).
      { apply VI_set_thr_same; [intros ? ? E [-> | ->]; discriminate|]. now apply VI_stats. }
      destruct (decoys c (m_key m)).
      * apply VI_set_thr_same; [intros ? ? E [-> | ->]; discriminate|]. apply VI_stats. now apply VI_bump.
      * apply VI_set_thr_same; [intros ? ? E [-> | ->]; discriminate|]. now apply VI_fresh_track.
    + apply VI_set_thr_same; [intros ? ? E [-> | ->]; discriminate|]. unfold track.
      destruct (decoys c (m_key m)); [now apply VI_bump|now apply VI_fresh_track].
    + destruct (at_pol (m_cov_ok m) (pol c)).
      * apply VI_set_thr_same; [|now apply VI_resolve]. intros. cbn. now rewrite upd_same.
      * apply VI_set_thr_same; [intros ? ? E [-> | ->]; discriminate|]. now apply VI_stats.
    + pose proof (vi_pc _ V _ _ _ Ht (or_introl eq_refl)) as R.
      destruct (m_needs_probe m).
      * apply VI_set_thr_same; auto.
      * apply VI_set_thr_same; [intros ? ? E [-> | ->]; discriminate|]. now apply VI_validate.
    + pose proof (vi_pc _ V _ _ _ Ht (or_intror eq_refl)) as R.
      destruct (m_live m).
      * apply VI_set_thr_same; [intros ? ? E [-> | ->]; discriminate|auto].
      * apply VI_set_thr_same; [intros ? ? E [-> | ->]; discriminate|]. now apply VI_validate.
    + apply VI_set_thr_same; [intros ? ? E [-> | ->]; discriminate|auto].
  - (* sweeper *)
    destruct (sstep c ch pc) as [c' pc'] eqn:S.
    apply VI_set_thr_same; [discriminate|].
    destruct pc; cbn in S; try (inversion S; subst; exact V).
    destruct (existsb (Nat.eqb ch) l); inversion S; subst.
    + unfold remove_key. destruct (timeouts c ch).
      * destruct (decoys c ch); auto. revert V. apply VI_flags.
        -- destruct (o_valid (objs c n0)); auto.
        -- intros o. destruct (o_valid (objs c n0)); auto.
        -- exists [ERemove ch]. split; [destruct (o_valid (objs c n0)); auto|]. constructor; cbn; auto.
      * revert V. apply VI_flags; auto. exists []. split; auto.
    + revert V. apply VI_flags; auto. exists []. split; auto.
  - (* handler *)
    destruct (hstep c k pc) as [c' pc'] eqn:H.
    apply VI_set_thr_same; [discriminate|].
    destruct pc; cbn in H.
    + destruct (decoys c k) as [o|]; [|inversion H; subst; exact V].
      destruct (o_valid (objs c o)) eqn:Vo; inversion H; subst; auto.
      destruct V as [A B C D]. constructor; cbn.
      * exact A.
      * intros o' R. right. auto.
      * exact C.
      * pose proof (A _ Vo) as R. rewrite R. repeat split; auto.
    + inversion H; subst. destruct (timeouts c k); auto. revert V. apply VI_flags; auto.
      exists [EUpd k]. split; auto. constructor; cbn; auto.
    + inversion H; subst; exact V.
  - destruct done; auto. apply VI_set_thr_same; [discriminate|]. revert V. apply VI_flags; auto.
    exists []. split; auto.
Qed.

Lemma run_VI share acts : forall c, VI c -> VI (run false share c acts).
Proof. induction acts; cbn; intros; auto. apply IHacts. now apply step_VI. Qed.

Lemma checked_app tr1 tr : checked_tr (tr1 ++ tr) -> checked_tr tr.
Proof. induction tr1 as [|e tr1 IH]; cbn; auto. destruct e; tauto. Qed.

Lemma covert_checked_lemma : forall share ths acts,
  (forall t, worker_fresh (nth t ths TNone) = true) ->
  covert_checked_before (trace (run false share (init ths) acts)).
Proof.
  intros share ths acts F. pose proof (vi_tr _ (run_VI share acts _ (VI_init ths F))) as H.
  split; intros k o r tr1 tr2 E; rewrite E in H; apply checked_app in H; cbn in H; tauto.
Qed.
