(* C09 non-vacuity: concrete configurations and schedules that meet the hypotheses of the theorems
   in Props.v and exercise the interesting paths (evaluated by the kernel). *)
From CJ Require Import Common.Base C09.Model C09.ProofsB.
From Coq Require Import Arith PeanoNat Lia.
Local Open Scope nat_scope.

(* two registrations with the same key: the first asks for a covert that the policy rejects, the
   second for an acceptable one; a third one with another key *)
Definition m_bad  : msg := mkMsg 0 10 true true  [false] [false] true false.
Definition m_good : msg := mkMsg 0 11 true false [false] [true]  true false.
Definition m_other : msg := mkMsg 1 12 true false [false] [true] false false.

(* an interleaving in which the worker of m_good tracks first, m_bad arrives in between *)
Definition sched1 : list act :=
  [Run 1 0; Run 0 0; Run 2 0; Run 1 0; Run 2 0; Run 1 0; Run 2 0; Run 1 0; Run 0 0].

Definition c1 : cfg := run false true (init (workers [m_bad; m_good; m_other])) sched1.

(* hypotheses of C09_serializable: the run is terminal ... *)
Example ex_terminal : terminal 3 c1.
Proof. intros t H. destruct t as [|[|[|t]]]; try (vm_compute; reflexivity). lia. Qed.

(* ... and not trivial: key 0 is owned by m_good (covert 11), valid, counted twice; key 1 valid *)
Example ex_view0 : view c1 0 = Some (true, true, 11, 2).
Proof. vm_compute. reflexivity. Qed.
Example ex_view1 : view c1 1 = Some (true, true, 12, 1).
Proof. vm_compute. reflexivity. Qed.
Example ex_announcements : announcements c1 (trace c1) = [(0, 11, true); (1, 12, true)].
Proof. vm_compute. reflexivity. Qed.
(* the serial order [m_good; m_bad; m_other] gives the same *)
Example ex_serial : view (serial true [m_good; m_bad; m_other]) 0 = Some (true, true, 11, 2).
Proof. vm_compute. reflexivity. Qed.
(* whereas the other order is a different (also legal) outcome: the rejected covert owns the key *)
Example ex_serial' : view (serial true [m_bad; m_good; m_other]) 0 = Some (false, false, 10, 2).
Proof. vm_compute. reflexivity. Qed.

(* workers, a handler, a reload and a sweeper that runs two sweeps; ageing makes key 0 expire, it
   is tracked and announced again afterwards: two announcements with a removal in between, and a
   handler sighting in each lifetime *)
Definition ths2 : list thread :=
  [TWorker m_good W0; TWorker m_good W0; TSweeper (S0 2); THandler 0 H0; THandler 0 H0; TReload 0 false].
Definition sched2 : list act :=
  [Run 0 0; Run 0 0; Run 0 0; Run 0 0;            (* first lifetime: tracked, probed, announced *)
   Run 3 0; Run 3 0;                              (* seen and activated *)
   Run 5 0;
   Age 0 25200000000000%N;                        (* 7 h *)
   Run 2 0; Run 2 0; Run 2 0;                     (* collect, log, remove key 0 *)
   Run 1 0; Run 1 0; Run 1 0; Run 1 0;            (* second lifetime *)
   Run 4 0;
   Run 2 0; Run 2 0].                             (* second sweep: nothing expired *)
Definition c2 : cfg := run false false (init ths2) sched2.

Example ex_two_lifetimes :
  trace c2 = [ESeen 0 1 true; EAnn 0 1 true; ECov 1; ETrack 0 1; ERemove 0;
              EUpd 0; ESeen 0 0 true; EAnn 0 0 true; ECov 0; ETrack 0 0].
Proof. vm_compute. reflexivity. Qed.
Example ex_sweeper_hyp : one_sweeper (fun i => nth i ths2 TNone) /\ (forall t, sweeper_idle (nth t ths2 TNone) = true).
Proof.
  split.
  - assert (H : forall i, is_sweeper (nth i ths2 TNone) = true -> i = 2).
    { intros i. do 6 (destruct i as [|i]; cbn; try discriminate; auto). destruct i; discriminate. }
    intros i j A B. now rewrite (H i A), (H j B).
  - intros t. do 6 (destruct t as [|t]; [reflexivity|]). destruct t; reflexivity.
Qed.
Example ex_fresh_hyp : forall t, worker_fresh (nth t ths2 TNone) = true.
Proof. intros t. do 6 (destruct t as [|t]; [reflexivity|]). destruct t; reflexivity. Qed.
Example ex_sweep_counted : n_expvalid c2 = 1 /\ panicked c2 = false /\ thr c2 2 = TSweeper SEnd.
Proof. vm_compute. repeat split. Qed.
Example ex_regcount : tracks_since 0 (trace c2) = 1 /\ decoys c2 0 = Some 1 /\ o_regcount (objs c2 1) = 1.
Proof. vm_compute. repeat split. Qed.

(* a registration that expires while its ingest is in flight and is received again: the second
   object is validated by its own ingest only (worker 0 finds object 1 tracked and leaves it) *)
Definition sched3 : list act :=
  [Run 0 0; Age 0 660000000000%N; Run 2 0; Run 2 0; Run 2 0;   (* tracked, 11 min pass, swept *)
   Run 1 0;                                                    (* received again: object 1 tracked *)
   Run 0 0; Run 0 0; Run 0 0;                                  (* worker 0 completes its ingest *)
   Run 3 0].                                                   (* a handler looks the key up *)
Definition c3 : cfg := run false false (init ths2) sched3.
Example ex_swept_in_flight : decoys c3 0 = Some 1 /\ o_valid (objs c3 1) = false /\ thr c3 3 = THandler 0 HEnd.
Proof. vm_compute. repeat split. Qed.

(* ---------------- part B ---------------- *)

(* overload: 2 workers, buffer of 1, five registrations while the workers are busy *)
Definition pacts1 : list pact :=
  [PArrive; PArrive; PArrive; PArrive; PArrive;
   PDistr false; PDistr false; PDistr false; PWork 0 false;
   PDistr false; PDistr false; PDistr false; PWork 1 false;
   PDistr false; PDistr false; PDistr false;
   PDistr false; PDistr false; PDistr false;
   PDistr false; PDistr false; PDistr false].
Example ex_overload :
  match prun true 2 1 50 (pinit true) pacts1 with
  | Some p => (p_received p, p_enqueued p, p_dropped p, p_buf p) = (5, 3, 2, 1)
  | None => False
  end.
Proof. vm_compute. reflexivity. Qed.

(* a reachable state with the stop request in (hypothesis of C09_shutdown_bounded), registrations
   still arriving; the pipeline then winds down in 9 of its own steps (bound: 4 + 2*52 + 51*2) *)
Definition pacts2 : list pact := pacts1 ++ [PCancel; PArrive; PArrive].
Definition pwind : list pact :=
  [PDistr false; PArrive; PWork 0 true; PArrive; PWork 1 true; PDistr false].
Example ex_cancelled :
  exists p, preach true 2 1 0 p /\ p_cancel p = true /\
            exists p', prun true 2 1 0 p pwind = Some p' /\ p_d p' = DDone /\ pipeline_steps pwind = 4.
Proof.
  destruct (prun true 2 1 0 (pinit true) pacts2) as [p|] eqn:E; [|vm_compute in E; discriminate E].
  exists p. split; [eapply preach_prun; [constructor|exact E]|].
  destruct (prun true 2 1 0 p pwind) as [p'|] eqn:E2.
  - assert (C : p_cancel p = true /\ p_d p' = DDone).
    { assert (X : match prun true 2 1 0 (pinit true) pacts2 with
                  | Some q => match prun true 2 1 0 q pwind with
                              | Some q' => p_cancel q = true /\ p_d q' = DDone
                              | None => False end
                  | None => False end) by (vm_compute; auto).
      rewrite E, E2 in X. exact X. }
    destruct C as [C1 C2]. split; [exact C1|]. exists p'. split; [reflexivity|]. split; [exact C2|]. vm_compute. reflexivity.
  - exfalso.
    assert (X : match prun true 2 1 0 (pinit true) pacts2 with
                | Some q => prun true 2 1 0 q pwind <> None
                | None => False end) by (vm_compute; discriminate).
    rewrite E in X. auto.
Qed.

(* an unbuffered hand-off (2 workers, capacity 0): two registrations go straight to the waiting
   workers, the next three are dropped and counted, and the receiver has taken all five *)
Example ex_overload_cap0 :
  match prun true 2 0 50 (pinit true)
          (PArrive :: PArrive :: PArrive :: PArrive :: PArrive ::
           flat_map (fun _ => [PDistr false; PDistr false; PDistr false]) (seq 0 5)) with
  | Some p => (p_received p, p_enqueued p, p_dropped p, p_buf p, p_in p) = (5, 2, 3, 0, 0)
  | None => False
  end.
Proof. vm_compute. reflexivity. Qed.

(* the stop request may come before any worker has run: cancellation as the very first action is a
   reachable state of the model (hypothesis of C09_shutdown_bounded), and the pipeline winds down *)
Example ex_cancel_first :
  exists p, preach true 3 1 5 p /\ p_cancel p = true /\ p_received p = 0 /\
            exists p', prun true 3 1 5 p [PDistr false; PWork 0 false; PWork 1 false; PWork 2 false; PDistr false] = Some p' /\
                       p_d p' = DDone.
Proof.
  destruct (prun true 3 1 5 (pinit true) [PCancel]) as [p|] eqn:E; [|discriminate E].
  exists p. split; [eapply preach_prun; [constructor|exact E]|].
  vm_compute in E. inversion E; subst. split; [reflexivity|]. split; [reflexivity|].
  eexists. split; [vm_compute; reflexivity|reflexivity].
Qed.

(* ---------------- the case decoder of Run.v agrees with a structured literal ---------------- *)
From CJ Require Import C09.Run.
Example ex_decoder :
  dec_case [0; 1; 2;   0; 0; 1; 1; 0; 2; 0; 1; 1; 0; 1; 0;   2; 0;   1; 2;
            0; 0; 255; 2;  1; 4; 1;  0;
            1; 0; 1; 11;   1; 4; 1;  1;  2; 0; 0; 1;
            3; 0; 1; 4; 4; 0]%N
  = Some (false, true,
          [TWorker (mkMsg 0 1 true false [false; true] [true; false] true false) W0; THandler 0 H0],
          [0], [(Run 0 255, 2, [(Some 0, false, 1, false, true, false)], []);
                (Age 0 660000000000%N, 11, [(Some 0, false, 1, false, true, false)], [(2, 0, 0, true)])],
          (3, 0, 1, 4, 4%Z), 0).
Proof. vm_compute. reflexivity. Qed.
