(* C18 lemmas, part 1: association maps, the two caches, well-formedness. *)
From CJ Require Import Common.Base C18.Model.
From Coq Require Import Lia ZifyN ZifyNat ZifyBool.
Ltac splits := repeat match goal with |- _ /\ _ => split end.

(* ---------- association maps ---------- *)
Lemma afind_adel_same k m : afind k (adel k m) = None.
Proof.
  induction m as [|[k' t] r IH]; cbn; auto.
  destruct (k =? k') eqn:E; auto. cbn. rewrite E. auto.
Qed.

Lemma afind_adel_other k k' m : k <> k' -> afind k (adel k' m) = afind k m.
Proof.
  intros Hn. induction m as [|[k2 t] r IH]; cbn; auto.
  destruct (k' =? k2) eqn:E.
  - apply N.eqb_eq in E. subst. destruct (k =? k2) eqn:E2; auto. apply N.eqb_eq in E2. congruence.
  - cbn. rewrite IH. auto.
Qed.

Lemma afind_adel_some k k' m t : afind k (adel k' m) = Some t -> k <> k' /\ afind k m = Some t.
Proof.
  intros H. destruct (N.eq_dec k k') as [->|Hn].
  - rewrite afind_adel_same in H. discriminate.
  - rewrite afind_adel_other in H by auto. auto.
Qed.

Lemma afind_some_in k m t : afind k m = Some t -> In (k, t) m.
Proof.
  induction m as [|[k' t'] r IH]; cbn; [discriminate|].
  destruct (k =? k') eqn:E.
  - apply N.eqb_eq in E. intros [= ->]. subst. auto.
  - auto.
Qed.

Lemma afind_none_notin k m : afind k m = None <-> ~ In k (akeys m).
Proof.
  induction m as [|[k' t'] r IH]; cbn; [tauto|].
  destruct (k =? k') eqn:E.
  - apply N.eqb_eq in E. subst. split; [discriminate|]. intros H. exfalso. auto.
  - apply N.eqb_neq in E. rewrite IH. split; intros H; [intros [H1|H1]; [congruence|auto]|auto].
Qed.

Lemma in_afind k t m : NoDup (akeys m) -> In (k, t) m -> afind k m = Some t.
Proof.
  induction m as [|[k' t'] r IH]; cbn; [tauto|].
  intros Hnd. inversion Hnd as [|? ? Hni Hnd']; subst.
  intros [H|H].
  - inversion H; subst. rewrite N.eqb_refl. auto.
  - destruct (k =? k') eqn:E.
    + apply N.eqb_eq in E. subst. exfalso. apply Hni. apply (in_map fst) in H. exact H.
    + auto.
Qed.

Lemma akeys_adel_incl k m : incl (akeys (adel k m)) (akeys m).
Proof.
  induction m as [|[k' t] r IH]; cbn; [apply incl_refl|].
  destruct (k =? k'); cbn.
  - apply incl_tl. auto.
  - apply incl_cons; [left; auto|apply incl_tl; auto].
Qed.

Lemma akeys_adel_notin k m : ~ In k (akeys (adel k m)).
Proof. apply afind_none_notin. apply afind_adel_same. Qed.

Lemma akeys_adel_in x k m : In x (akeys (adel k m)) <-> In x (akeys m) /\ x <> k.
Proof.
  induction m as [|[k' t] r IH]; cbn; [tauto|].
  destruct (k =? k') eqn:E; cbn.
  - apply N.eqb_eq in E. subst. rewrite IH. split; [tauto|]. intros [[H|H] Hn]; [congruence|tauto].
  - apply N.eqb_neq in E. rewrite IH. split.
    + intros [H|H]; [subst; split; auto; congruence|tauto].
    + tauto.
Qed.

Lemma nodup_adel k m : NoDup (akeys m) -> NoDup (akeys (adel k m)).
Proof.
  induction m as [|[k' t] r IH]; cbn; auto.
  intros Hnd. inversion Hnd as [|? ? Hni Hnd']; subst.
  destruct (k =? k'); cbn; auto.
  constructor; auto. intros H. apply Hni. apply (akeys_adel_incl k r). auto.
Qed.

Lemma nodup_aset k t m : NoDup (akeys m) -> NoDup (akeys (aset k t m)).
Proof.
  intros H. unfold aset. cbn. constructor; [apply akeys_adel_notin|apply nodup_adel; auto].
Qed.

Lemma afind_aset k t m k' : afind k' (aset k t m) = if k' =? k then Some t else afind k' m.
Proof.
  unfold aset. cbn. destruct (k' =? k) eqn:E; auto.
  apply N.eqb_neq in E. apply afind_adel_other. auto.
Qed.

Lemma akeys_filter_incl f (m : amap) : incl (akeys (filter f m)) (akeys m).
Proof.
  induction m as [|e r IH]; cbn; [apply incl_refl|].
  destruct (f e); cbn.
  - apply incl_cons; [left; auto|apply incl_tl; auto].
  - apply incl_tl. auto.
Qed.

Lemma nodup_filter f (m : amap) : NoDup (akeys m) -> NoDup (akeys (filter f m)).
Proof.
  induction m as [|e r IH]; cbn; auto.
  intros Hnd. inversion Hnd as [|? ? Hni Hnd']; subst.
  destruct (f e); cbn; auto.
  constructor; auto. intros H. apply Hni. apply (akeys_filter_incl f r). auto.
Qed.

Lemma afind_filter_some f (m : amap) k t :
  NoDup (akeys m) -> afind k (filter f m) = Some t -> afind k m = Some t /\ f (k, t) = true.
Proof.
  intros Hnd H. apply afind_some_in in H. apply filter_In in H. destruct H as [H1 H2].
  split; auto. apply in_afind; auto.
Qed.

Lemma afind_filter_keep f (m : amap) k t :
  afind k m = Some t -> f (k, t) = true -> afind k (filter f m) = Some t.
Proof.
  induction m as [|[k' t'] r IH]; cbn; [discriminate|].
  destruct (k =? k') eqn:E.
  - apply N.eqb_eq in E. subst. intros [= ->] Hf. rewrite Hf. cbn. rewrite N.eqb_refl. auto.
  - intros H Hf. destruct (f (k', t')); cbn; [rewrite E|]; auto.
Qed.

(* ---------- mapCache ---------- *)
Lemma nodup_m_add k t m : NoDup (akeys m) -> NoDup (akeys (m_add k t m)).
Proof.
  intros H. unfold m_add. destruct (afind k m) eqn:E; auto.
  cbn. constructor; auto. apply afind_none_notin. auto.
Qed.

Lemma afind_m_add k t m k' :
  afind k' (m_add k t m) =
  if k' =? k then (match afind k m with Some t0 => Some t0 | None => Some t end) else afind k' m.
Proof.
  unfold m_add. destruct (afind k m) eqn:E.
  - destruct (k' =? k) eqn:E2; auto. apply N.eqb_eq in E2. subst. auto.
  - cbn. destruct (k' =? k); auto.
Qed.

(* ---------- recency list ---------- *)
Lemma mem_in k l : mem k l = true <-> In k l.
Proof.
  unfold mem. rewrite existsb_exists. split.
  - intros [x [H1 H2]]. apply N.eqb_eq in H2. subst. auto.
  - intros H. exists k. split; auto. apply N.eqb_refl.
Qed.

Lemma mem_false k l : mem k l = false <-> ~ In k l.
Proof. rewrite <- mem_in. destruct (mem k l); split; congruence. Qed.

Lemma lremove_in x k l : In x (lremove k l) <-> In x l /\ x <> k.
Proof.
  induction l as [|y r IH]; cbn; [tauto|].
  destruct (k =? y) eqn:E.
  - apply N.eqb_eq in E. subst. rewrite IH. split; [tauto|]. intros [[H|H] Hn]; [congruence|tauto].
  - apply N.eqb_neq in E. cbn. rewrite IH. split.
    + intros [H|H]; [subst; split; auto; congruence|tauto].
    + tauto.
Qed.

Lemma nodup_lremove k l : NoDup l -> NoDup (lremove k l).
Proof.
  induction l as [|y r IH]; cbn; auto.
  intros Hnd. inversion Hnd as [|? ? Hni Hnd']; subst.
  destruct (k =? y); auto. constructor; auto.
  intros H. apply lremove_in in H. tauto.
Qed.

Lemma lremove_length_in k l : NoDup l -> In k l -> S (length (lremove k l)) = length l.
Proof.
  induction l as [|y r IH]; cbn; [tauto|].
  intros Hnd. inversion Hnd as [|? ? Hni Hnd']; subst.
  destruct (k =? y) eqn:E.
  - apply N.eqb_eq in E. subst. intros _. f_equal.
    clear IH Hnd Hnd'. induction r as [|z r IH]; cbn; auto.
    destruct (y =? z) eqn:E.
    + apply N.eqb_eq in E. subst. exfalso. apply Hni. left. auto.
    + cbn. f_equal. apply IH. intros H. apply Hni. right. auto.
  - apply N.eqb_neq in E. intros [H|H]; [congruence|]. cbn. f_equal. auto.
Qed.

Lemma lremove_notin k l : ~ In k l -> lremove k l = l.
Proof.
  induction l as [|y r IH]; cbn; auto.
  intros H. destruct (k =? y) eqn:E.
  - apply N.eqb_eq in E. subst. exfalso. auto.
  - f_equal. auto.
Qed.

Lemma removelast_last (l : list N) d : l <> [] -> l = removelast l ++ [last l d].
Proof. intros H. apply app_removelast_last. auto. Qed.

Lemma nodup_app_l {A} (a b : list A) : NoDup (a ++ b) -> NoDup a.
Proof.
  induction a as [|x a IH]; cbn; [constructor|].
  intros H. inversion H; subst. constructor; auto. intros Hi. apply H2. apply in_or_app. auto.
Qed.

Lemma nodup_app_last_notin (a : list N) x : NoDup (a ++ [x]) -> ~ In x a.
Proof.
  induction a as [|y a IH]; cbn; auto.
  intros H. inversion H; subst. intros [Hy|Hy].
  - subst. apply H2. apply in_or_app. right. left. auto.
  - apply IH; auto.
Qed.

(* what lru_touch does, as a specification *)
Lemma lru_touch_spec k l cap l' ev :
  NoDup l -> N.of_nat (length l) <= cap -> 1 <= cap ->
  lru_touch k l cap = (l', ev) ->
  NoDup l' /\ N.of_nat (length l') <= cap /\ In k l' /\
  (forall x, In x l' -> x = k \/ In x l) /\
  (forall x, In x l -> In x l' \/ ev = Some x) /\
  (forall e, ev = Some e -> ~ In e l' /\ In e l /\ e <> k /\ ~ In k l) /\
  (In k l -> ev = None).
Proof.
  intros Hnd Hlen Hcap. unfold lru_touch. destruct (mem k l) eqn:Em.
  - apply mem_in in Em. intros [= <- <-].
    assert (Hr := lremove_length_in k l Hnd Em).
    split; [|split; [|split; [|split; [|split; [|split]]]]].
    + constructor; [intros H; apply lremove_in in H; tauto|apply nodup_lremove; auto].
    + cbn [length]. lia.
    + left; auto.
    + intros x [H|H]; [auto|apply lremove_in in H; tauto].
    + intros x H. left. destruct (N.eq_dec x k); [left; auto|right; apply lremove_in; auto].
    + discriminate.
    + auto.
  - apply mem_false in Em.
    destruct (cap <? N.of_nat (length (k :: l))) eqn:Ec.
    + remember (removelast (k :: l)) as rl eqn:Hrl. remember (last (k :: l) 0) as la eqn:Hla0.
      intros [= <- <-].
      assert (Hne : k :: l <> []) by discriminate.
      pose proof (removelast_last (k :: l) 0 Hne) as Hsplit. rewrite <- Hrl, <- Hla0 in Hsplit.
      assert (Hnd2 : NoDup (k :: l)) by (constructor; auto).
      assert (Hl : l <> []). { intros ->. cbn in Ec. lia. }
      assert (Hlen2 : length (k :: l) = S (length rl)).
      { rewrite Hsplit at 1. rewrite app_length. cbn. lia. }
      assert (Hk : In k rl).
      { destruct l as [|y r]; [congruence|]. subst rl. cbn. left. auto. }
      rewrite Hsplit in Hnd2.
      assert (Hla : ~ In la rl) by (apply nodup_app_last_notin; auto).
      assert (Hin : forall x, In x (k :: l) <-> In x rl \/ x = la).
      { intros x. rewrite Hsplit at 1. rewrite in_app_iff. cbn. intuition. }
      assert (Hlal : In la l /\ la <> k).
      { assert (In la (k :: l)) by (apply Hin; auto).
        assert (la <> k) by (intros ->; contradiction).
        destruct H; [congruence|auto]. }
      split; [|split; [|split; [|split; [|split; [|split]]]]].
      * apply nodup_app_l in Hnd2. auto.
      * cbn [length] in Hlen2. lia.
      * auto.
      * intros x Hx. assert (In x (k :: l)) by (apply Hin; auto). cbn in H. intuition.
      * intros x Hx. assert (In x rl \/ x = la) by (apply Hin; right; auto).
        destruct H; [auto|right; congruence].
      * intros e [= <-]. tauto.
      * intros; contradiction.
    + intros [= <- <-].
      split; [|split; [|split; [|split; [|split; [|split]]]]].
      * constructor; auto.
      * lia.
      * left; auto.
      * intros x [H|H]; auto.
      * intros x H. left. right. auto.
      * discriminate.
      * auto.
Qed.

Lemma lru_remove_spec k l l' ev :
  NoDup l -> lru_remove k l = (l', ev) ->
  NoDup l' /\ (length l' <= length l)%nat /\
  (forall x, In x l' <-> In x l /\ (ev = Some k -> x <> k)) /\
  (ev = Some k \/ ev = None) /\ (ev = None -> ~ In k l) /\ (ev = Some k -> In k l /\ ~ In k l').
Proof.
  intros Hnd. unfold lru_remove. destruct (mem k l) eqn:Em.
  - apply mem_in in Em. intros [= <- <-].
    pose proof (lremove_length_in k l Hnd Em).
    splits; auto.
    + apply nodup_lremove; auto.
    + lia.
    + intros x. rewrite lremove_in. split; [intros [H1 H2]; auto|intros [H1 H2]; auto].
    + discriminate.
    + intros _. split; auto. intros H1. apply lremove_in in H1. tauto.
  - apply mem_false in Em. intros [= <- <-]. splits; auto.
    + intros x. split; [intros H; split; auto; discriminate|tauto].
    + discriminate.
Qed.

(* ---------- well-formed caches ---------- *)
Definition wf_lru (c : lru) : Prop :=
  NoDup (akeys (lmap c)) /\ NoDup (llist c) /\
  (forall k, In k (akeys (lmap c)) <-> In k (llist c)) /\
  N.of_nat (length (llist c)) <= lcap c /\ 1 <= lcap c.

Definition wf_cache (c : cache) : Prop :=
  match c with CMap _ m => NoDup (akeys m) | CLru _ l => wf_lru l end.

Lemma in_akeys_afind k m : In k (akeys m) <-> exists t, afind k m = Some t.
Proof.
  split.
  - intros H. destruct (afind k m) eqn:E; eauto. apply afind_none_notin in E. contradiction.
  - intros [t H]. destruct (in_dec N.eq_dec k (akeys m)); auto.
    apply afind_none_notin in n. congruence.
Qed.

Lemma wf_lru_len c : wf_lru c -> N.of_nat (length (lmap c)) <= lcap c.
Proof.
  intros (H1 & H2 & H3 & H4 & H5).
  assert (length (akeys (lmap c)) <= length (llist c))%nat.
  { apply NoDup_incl_length; auto. intros x Hx. apply H3. auto. }
  unfold akeys in H. rewrite map_length in H. lia.
Qed.

Lemma l_add_wf k t c c' ev : wf_lru c -> l_add k t c = (c', ev) ->
  wf_lru c' /\ lcap c' = lcap c /\
  (forall k' t', afind k' (lmap c') = Some t' ->
      (k' = k /\ t' = t) \/ (k' <> k /\ afind k' (lmap c) = Some t')) /\
  afind k (lmap c') = Some t /\
  (forall e, In e ev -> afind e (lmap c') = None /\ e <> k) /\
  (forall k', k' <> k -> ~ In k' ev -> afind k' (lmap c') = afind k' (lmap c)) /\
  (In k (akeys (lmap c)) -> ev = []).
Proof.
  intros (H1 & H2 & H3 & H4 & H5). unfold l_add.
  destruct (lru_touch k (llist c) (lcap c)) as [l' e] eqn:Et. intros [= <- <-].
  destruct (lru_touch_spec _ _ _ _ _ H2 H4 H5 Et) as (T1 & T2 & T3 & T4 & T5 & T6 & T7).
  cbn [lmap llist lcap].
  assert (Hfind : forall k', afind k' (on_evict e (aset k t (lmap c))) =
                   if (match e with Some x => k' =? x | None => false end) then None
                   else if k' =? k then Some t else afind k' (lmap c)).
  { intros k'. destruct e as [x|]; cbn [on_evict].
    - destruct (k' =? x) eqn:E.
      + apply N.eqb_eq in E. subst. apply afind_adel_same.
      + apply N.eqb_neq in E. rewrite afind_adel_other by auto. apply afind_aset.
    - apply afind_aset. }
  repeat split.
  - destruct e as [x|]; cbn [on_evict]; [apply nodup_adel|]; apply nodup_aset; auto.
  - auto.
  - intros Hk. apply in_akeys_afind in Hk. destruct Hk as [t' Hk]. rewrite Hfind in Hk.
    destruct e as [x|].
    + destruct (k0 =? x) eqn:E; [discriminate|]. apply N.eqb_neq in E.
      destruct (k0 =? k) eqn:E2; [apply N.eqb_eq in E2; subst; auto|].
      assert (In k0 (llist c)). { apply H3. apply in_akeys_afind. eauto. }
      destruct (T5 _ H); auto. congruence.
    + destruct (k0 =? k) eqn:E2; [apply N.eqb_eq in E2; subst; auto|].
      assert (In k0 (llist c)). { apply H3. apply in_akeys_afind. eauto. }
      destruct (T5 _ H); auto. congruence.
  - intros Hk. apply in_akeys_afind. rewrite Hfind.
    destruct e as [x|].
    + destruct (T6 x eq_refl) as (E1 & E2 & E3 & E4).
      destruct (k0 =? x) eqn:E; [apply N.eqb_eq in E; subst; contradiction|].
      destruct (k0 =? k) eqn:E5; eauto.
      apply N.eqb_neq in E5. destruct (T4 _ Hk); [congruence|].
      apply in_akeys_afind. apply H3. auto.
    + destruct (k0 =? k) eqn:E5; eauto.
      apply N.eqb_neq in E5. destruct (T4 _ Hk); [congruence|].
      apply in_akeys_afind. apply H3. auto.
  - auto.
  - auto.
  - intros k' t'. rewrite Hfind.
    destruct (match e with Some x => k' =? x | None => false end); [discriminate|].
    destruct (k' =? k) eqn:E.
    + apply N.eqb_eq in E. intros [= <-]. auto.
    + apply N.eqb_neq in E. auto.
  - rewrite Hfind. destruct e as [x|]; [|rewrite N.eqb_refl; auto].
    destruct (T6 x eq_refl) as (E1 & E2 & E3 & E4).
    destruct (k =? x) eqn:E; [apply N.eqb_eq in E; congruence|]. rewrite N.eqb_refl. auto.
  - destruct e as [x|]; cbn in H; [|contradiction]. destruct H; [subst|contradiction].
    rewrite Hfind. rewrite N.eqb_refl. auto.
  - destruct e as [x|]; cbn in H; [|contradiction]. destruct H; [subst|contradiction].
    destruct (T6 e0 eq_refl) as (E1 & E2 & E3 & E4). auto.
  - intros k' Hk Hne. rewrite Hfind. destruct e as [x|].
    + destruct (k' =? x) eqn:E; [apply N.eqb_eq in E; subst; exfalso; apply Hne; left; auto|].
      apply N.eqb_neq in Hk. rewrite Hk. auto.
    + apply N.eqb_neq in Hk. rewrite Hk. auto.
  - intros Hk. apply H3 in Hk. rewrite (T7 Hk). auto.
Qed.

Lemma l_lookup_wf now ttl k c b c' ev : wf_lru c -> l_lookup now ttl k c = (b, c', ev) ->
  wf_lru c' /\ lcap c' = lcap c /\ lmap c' = lmap c /\ ev = [] /\
  (b = true <-> exists t, afind k (lmap c) = Some t /\ fresh now t ttl = true) /\
  (b = false -> c' = c).
Proof.
  intros Hwf. pose proof Hwf as (H1 & H2 & H3 & H4 & H5). unfold l_lookup.
  destruct (afind k (lmap c)) as [t|] eqn:Ef.
  - destruct (fresh now t ttl) eqn:Efr.
    + destruct (lru_touch k (llist c) (lcap c)) as [l' e] eqn:Et. intros [= <- <- <-].
      destruct (lru_touch_spec _ _ _ _ _ H2 H4 H5 Et) as (T1 & T2 & T3 & T4 & T5 & T6 & T7).
      assert (Hk : In k (llist c)). { apply H3. apply in_akeys_afind. eauto. }
      rewrite (T7 Hk) in *. cbn [on_evict ev_list lmap llist lcap].
      repeat split; auto.
      * intros Hx. apply H3 in Hx. destruct (T5 _ Hx); [auto|discriminate].
      * intros Hx. apply H3. destruct (T4 _ Hx); [subst; auto|auto].
      * eauto.
      * discriminate.
    + intros [= <- <- <-]. splits; auto.
      split; [discriminate|]. intros (t' & [= <-] & Hf). congruence.
  - intros [= <- <- <-]. splits; auto.
    split; [discriminate|]. intros (t' & Hd & _). discriminate.
Qed.

Lemma l_remove_all_wf ks : forall c c' ev, wf_lru c -> l_remove_all ks c = (c', ev) ->
  wf_lru c' /\ lcap c' = lcap c /\
  (forall k t, afind k (lmap c') = Some t -> afind k (lmap c) = Some t /\ ~ In k ks) /\
  (forall k, ~ In k ks -> afind k (lmap c') = afind k (lmap c)) /\
  (forall e, In e ev -> afind e (lmap c') = None /\ In e ks).
Proof.
  induction ks as [|k r IH]; cbn [l_remove_all]; intros c c' ev Hwf.
  - intros [= <- <-]. splits; auto; intros e [].
  - pose proof Hwf as (H1 & H2 & H3 & H4 & H5).
    destruct (lru_remove k (llist c)) as [l' e] eqn:Er.
    destruct (l_remove_all r _) as [c2 evs] eqn:Erec. intros [= <- <-].
    destruct (lru_remove_spec _ _ _ _ H2 Er) as (R1 & R2 & R3 & R4 & R5 & R6).
    assert (Hwf2 : wf_lru (mkLru (on_evict e (lmap c)) l' (lcap c))).
    { unfold wf_lru; cbn [lmap llist lcap]. repeat split; auto.
      - destruct e; cbn; [apply nodup_adel|]; auto.
      - intros Hx. apply R3. destruct R4 as [->| ->]; cbn in Hx.
        + apply akeys_adel_in in Hx. destruct Hx. split; [apply H3; auto|auto].
        + split; [apply H3; auto|discriminate].
      - intros Hx. apply R3 in Hx. destruct Hx as [Hx1 Hx2]. destruct R4 as [->| ->]; cbn.
        + apply akeys_adel_in. split; [apply H3; auto|auto].
        + apply H3; auto.
      - lia. }
    destruct (IH _ _ _ Hwf2 Erec) as (I1 & I2 & I3 & I4 & I5). cbn [lmap llist lcap] in *.
    assert (Hkgone : afind k (on_evict e (lmap c)) = None).
    { destruct R4 as [->| ->]; cbn; [apply afind_adel_same|].
      apply afind_none_notin. intros Hx. apply H3 in Hx. apply R5; auto. }
    splits; auto.
    + intros k0 t H. destruct (I3 _ _ H) as [Ha Hb]. split.
      * destruct e; cbn in Ha; [apply afind_adel_some in Ha; tauto|auto].
      * intros [<-|Hin]; [congruence|contradiction].
    + intros k0 Hk0. rewrite I4 by (intros Hx; apply Hk0; right; auto).
      destruct e as [x|]; cbn; auto. destruct R4 as [[= ->]|]; [|discriminate].
      apply afind_adel_other. intros ->. apply Hk0. left. auto.
    + intros e0 H. apply in_app_or in H. destruct H as [H|H].
      * destruct e as [x|]; cbn in H; [|contradiction]. destruct H as [<-|[]].
        destruct R4 as [R4|R4]; [|discriminate]. injection R4 as ->.
        split; [|left; auto].
        destruct (afind k (lmap c2)) eqn:E; auto. apply I3 in E. destruct E as [E _]. cbn in E. rewrite afind_adel_same in E. discriminate.
      * destruct (I5 _ H). split; auto. right; auto.
Qed.

Lemma l_expired_in now ttl m k : NoDup (akeys m) ->
  (In k (l_expired now ttl m) <-> exists t, afind k m = Some t /\ overdue now t ttl = true).
Proof.
  intros Hnd. unfold l_expired, akeys. rewrite in_map_iff. split.
  - intros [[k' t] [Hk Hin]]. cbn in Hk. subst. apply filter_In in Hin. destruct Hin as [Hin Ho].
    exists t. split; auto. apply in_afind; auto.
  - intros [t [Hf Ho]]. exists (k, t). split; auto. apply filter_In. split; auto.
    apply afind_some_in; auto.
Qed.

(* ---------- the cache interface ---------- *)
Lemma c_lookup_spec now k c b c' ev : wf_cache c -> c_lookup now k c = (b, c', ev) ->
  wf_cache c' /\ c_ttl c' = c_ttl c /\ c_map c' = c_map c /\ ev = [] /\
  (b = true <-> exists t, c_find k c = Some t /\ fresh now t (c_ttl c) = true) /\
  (b = false -> c' = c) /\
  (match c, c' with CMap _ _, CMap _ _ => True | CLru _ l, CLru _ l' => lcap l' = lcap l | _, _ => False end).
Proof.
  destruct c as [ttl m|ttl l]; cbn [c_lookup wf_cache].
  - intros Hwf [= <- <- <-]. cbn. splits; auto.
    unfold m_lookup, c_find. cbn. split.
    + destruct (afind k m); [eauto|discriminate].
    + intros (t & -> & Hf). auto.
  - intros Hwf. destruct (l_lookup now ttl k l) as [[b0 l'] ev0] eqn:El. intros [= <- <- <-].
    destruct (l_lookup_wf _ _ _ _ _ _ _ Hwf El) as (L1 & L2 & L3 & L4 & L5 & L6).
    cbn. splits; auto. intros Hb. rewrite (L6 Hb). auto.
Qed.

Lemma c_add_spec now k c c' ev : wf_cache c -> c_add now k c = (c', ev) ->
  wf_cache c' /\ c_ttl c' = c_ttl c /\
  (forall k' t, c_find k' c' = Some t ->
      (k' = k /\ (t = now \/ c_find k c = Some t)) \/ (k' <> k /\ c_find k' c = Some t)) /\
  (exists t, c_find k c' = Some t) /\
  (c_find k c = None -> c_find k c' = Some now) /\
  (forall e, In e ev -> c_find e c' = None /\ e <> k) /\
  (forall k', k' <> k -> ~ In k' ev -> c_find k' c' = c_find k' c) /\
  (match c, c' with CMap _ _, CMap _ _ => True | CLru _ l, CLru _ l' => lcap l' = lcap l | _, _ => False end).
Proof.
  destruct c as [ttl m|ttl l]; cbn [c_add wf_cache].
  - intros Hwf [= <- <-]. cbn. unfold c_find. cbn. splits.
    + apply nodup_m_add; auto.
    + auto.
    + intros k' t. rewrite afind_m_add. destruct (k' =? k) eqn:E.
      * apply N.eqb_eq in E. subst. destruct (afind k m) eqn:E2; intros [= <-]; auto.
      * apply N.eqb_neq in E. auto.
    + rewrite afind_m_add, N.eqb_refl. destruct (afind k m); eauto.
    + intros Hn. rewrite afind_m_add, N.eqb_refl, Hn. auto.
    + intros e [].
    + intros k' Hk _. rewrite afind_m_add. apply N.eqb_neq in Hk. rewrite Hk. auto.
    + auto.
  - intros Hwf. destruct (l_add k now l) as [l' ev0] eqn:El. intros [= <- <-].
    destruct (l_add_wf _ _ _ _ _ Hwf El) as (A1 & A2 & A3 & A4 & A5 & A6 & A7).
    cbn. unfold c_find. cbn. splits; auto.
    + intros k' t Hf. destruct (A3 _ _ Hf) as [[-> ->]|[Hn Hf2]]; auto.
    + eauto.
Qed.

Lemma c_clear_spec now c c' ev : wf_cache c -> c_clear now c = (c', ev) ->
  wf_cache c' /\ c_ttl c' = c_ttl c /\
  (forall k t, c_find k c' = Some t -> c_find k c = Some t /\ overdue now t (c_ttl c) = false) /\
  (forall k t, c_find k c = Some t -> overdue now t (c_ttl c) = false -> c_find k c' = Some t) /\
  (forall e, In e ev -> c_find e c' = None) /\
  (match c, c' with CMap _ _, CMap _ _ => True | CLru _ l, CLru _ l' => lcap l' = lcap l | _, _ => False end).
Proof.
  destruct c as [ttl m|ttl l]; cbn [c_clear wf_cache].
  - intros Hwf [= <- <-]. cbn. unfold c_find, m_clear. cbn. splits.
    + apply nodup_filter; auto.
    + auto.
    + intros k t H. apply afind_filter_some in H; auto. destruct H as [H1 H2]. cbn in H2.
      split; auto. destruct (overdue now t ttl); auto.
    + intros k t Hf Ho. apply afind_filter_keep; auto. cbn. rewrite Ho. auto.
    + intros e [].
    + auto.
  - intros Hwf. unfold l_clear. destruct (l_remove_all _ l) as [l' ev0] eqn:El. intros [= <- <-].
    destruct (l_remove_all_wf _ _ _ _ Hwf El) as (R1 & R2 & R3 & R4 & R5).
    pose proof Hwf as (H1 & _).
    cbn. unfold c_find. cbn. splits; auto.
    + intros k t H. destruct (R3 _ _ H) as [Ha Hb]. split; auto.
      destruct (overdue now t ttl) eqn:Eo; auto. exfalso. apply Hb.
      apply l_expired_in; eauto.
    + intros k t Hf Ho. rewrite R4; auto. intros Hin. apply l_expired_in in Hin; auto.
      destruct Hin as (t' & Hf' & Ho'). congruence.
    + intros e He. apply R5; auto.
Qed.

Lemma wf_cache_len c : wf_cache c ->
  match c with CLru _ l => c_len c <= lcap l | CMap _ _ => True end.
Proof. destruct c; cbn; auto. intros H. unfold c_len. cbn. apply wf_lru_len; auto. Qed.
