(* C18 non-vacuity: concrete histories meeting each theorem's hypotheses, boundary
   behaviour, and the observations recorded in notes/C18.md. *)
From CJ Require Import Common.Base C18.Model C18.Proofs C18.Proofs2 C18.ModelAgree C18.Agree C18.ModelConc C18.Conc.

Definition cfg_map : cfg := mkCfg (Some 3%Z) 0 (Some 2%Z) 0.        (* both sides unbounded maps *)
Definition cfg_lru : cfg := mkCfg (Some 3%Z) 2 (Some 2%Z) 1.        (* LRU 2 / LRU 1 *)
Definition cfg_15  : cfg := mkCfg (Some 3%Z) 0 (Some 2%Z) 2.        (* candidate #15: live unbounded, non-live capacity 2 *)

(* served_only_fresh: a verdict is served at age 2 < 3 ... *)
Example served_hyp :
  outs cfg_map ([Query 0 true 0; Adv 2] ++ [Query 0 false 0]) = outs cfg_map [Query 0 true 0; Adv 2] ++ [Cached true]
  /\ last_measured (trace cfg_map [Query 0 true 0; Adv 2]) 0 = Some (true, 2).
Proof. vm_compute. auto. Qed.
(* ... and at age 3 = lifetime it is not (Lookup uses >=): the host is probed again and may have flipped *)
Example boundary_probed :
  outs cfg_map [Query 0 true 0; Adv 3; Query 0 false 2; Query 0 true 0] =
  [Probed true 0; NoOut; Probed false 2; Cached false].
Proof. vm_compute. auto. Qed.
(* ClearExpired uses >: at age = lifetime the (unservable) entry is still stored, one tick later it is gone *)
Example clear_boundary :
  map (fun s => size true s) [after cfg_map [Query 0 true 0; Adv 3; ClearExpired]; after cfg_map [Query 0 true 0; Adv 4; ClearExpired]] = [1; 0].
Proof. vm_compute. auto. Qed.

(* stale_is_probed: no measurement at all, and a stale one *)
Example stale_hyp :
  last_measured (trace cfg_map []) 5 = None /\
  last_measured (trace cfg_map [Query 5 false 0; Adv 2]) 5 = Some (false, 2) /\ dur cfg_map false = Some 2%Z.
Proof. vm_compute. auto. Qed.

(* lru_bounded is tight, eviction happens, and the evicted address is probed again *)
Example eviction :
  let h := [Query 0 true 0; Query 1 true 0; Query 2 true 0] in
  size true (after cfg_lru h) = 2 /\
  evicted_from true (snd (step_ev (after cfg_lru [Query 0 true 0; Query 1 true 0]) (Query 2 true 0))) = [0] /\
  outs cfg_lru (h ++ [Query 0 true 0]) = [Probed true 0; Probed true 0; Probed true 0; Probed true 0] /\
  outs cfg_lru (h ++ [Query 2 false 0]) = [Probed true 0; Probed true 0; Probed true 0; Cached true].
Proof. vm_compute. auto. Qed.
(* recency is refreshed by a fresh lookup: 0 is touched, so 1 is the one evicted *)
Example recency_refresh :
  outs cfg_lru [Query 0 true 0; Query 1 true 0; Query 0 true 0; Query 2 true 0; Query 0 true 0; Query 1 true 0] =
  [Probed true 0; Probed true 0; Cached true; Probed true 0; Cached true; Probed true 0].
Proof. vm_compute. auto. Qed.
(* ClearExpired on the LRU evicts through the callback *)
Example clear_evicts :
  evicted_from false (snd (step_ev (after cfg_lru [Query 7 false 0; Adv 3]) ClearExpired)) = [7].
Proof. vm_compute. auto. Qed.

(* capacity_respected_by_config on the configuration of candidate #15: the non-live side is an LRU of size 2 *)
Example cfg15_bounded :
  size false (after cfg_15 [Query 0 false 0; Query 1 false 0; Query 2 false 0; Query 3 false 0]) = 2 /\
  size true (after cfg_15 [Query 0 true 0; Query 1 true 0; Query 2 true 0; Query 3 true 0]) = 4.
Proof. vm_compute. auto. Qed.
(* the pinned Init (kind of the non-live cache chosen by the LIVE capacity) would have been unbounded here *)
Definition init_cache_pinned_nonlive (c : cfg) : option cache :=
  match dur_nonlive c with
  | None => None
  | Some ttl => Some (if (cap_live c =? 0)%Z then CMap ttl [] else new_lru ttl (cap_nonlive c))
  end.
Example pinned_init_unbounded :
  let s0 := mkSt (init_cache (dur_live cfg_15) (cap_live cfg_15)) (init_cache_pinned_nonlive cfg_15) 0 0 in
  size false (fst (run s0 [Query 0 false 0; Query 1 false 0; Query 2 false 0; Query 3 false 0])) = 4.
Proof. vm_compute. auto. Qed.

(* verdict flips: live -> expires -> measured non-live -> served non-live while the stale live entry is still stored *)
Example flip :
  outs cfg_map [Query 0 true 0; Adv 3; Query 0 false 0; Query 0 true 0; Adv 2; Query 0 true 3] =
  [Probed true 0; NoOut; Probed false 0; Cached false; NoOut; Probed true 3].
Proof. vm_compute. auto. Qed.

(* OBSERVATION (not a violation of C18): the map cache never overwrites, so once an entry has expired and
   until ClearExpiredCache runs -- which nothing in the station calls -- every query of that address probes
   again; the LRU cache re-caches. *)
Definition cfg_lru_big : cfg := mkCfg (Some 3%Z) 9 (Some 2%Z) 9.
Example map_never_recaches :
  outs cfg_map     [Query 0 true 0; Adv 3; Query 0 true 0; Query 0 true 0; Query 0 true 0] =
  [Probed true 0; NoOut; Probed true 0; Probed true 0; Probed true 0] /\
  outs cfg_lru_big [Query 0 true 0; Adv 3; Query 0 true 0; Query 0 true 0; Query 0 true 0] =
  [Probed true 0; NoOut; Probed true 0; Cached true; Cached true].
Proof. vm_compute. auto. Qed.

(* map_lru_agree_below_capacity: a history meeting its hypotheses, with hits, misses, expiry and clean-up *)
Definition agree_h := [KAdd 1; KLookup 1; KAdd 2; KAdv 2; KLookup 2; KAdv 1; KLookup 1; KAdv 1; KClear; KLookup 1; KAdd 1; KLookup 1].
Example agree_hyp :
  adds_absent 0 (CMap 3 []) agree_h = true /\ N.of_nat (length (nodup N.eq_dec (added_keys agree_h))) <= 2 /\
  krun 0 (CMap 3 []) agree_h =
  [(false, 1); (true, 1); (false, 2); (false, 2); (true, 2); (false, 2); (false, 2); (false, 2); (false, 0); (false, 0); (false, 1); (true, 1)].
Proof. vm_compute. repeat split; auto; discriminate. Qed.
(* both hypotheses are needed *)
Example agree_needs_absent :
  let h := [KAdd 1; KAdv 3; KAdd 1; KLookup 1] in
  adds_absent 0 (CMap 3 []) h = false /\ krun 0 (CMap 3 []) h <> krun 0 (CLru 3 (mkLru [] [] 5)) h.
Proof. vm_compute. split; auto; discriminate. Qed.
Example agree_needs_capacity :
  let h := [KAdd 1; KAdd 2; KLookup 1] in
  adds_absent 0 (CMap 3 []) h = true /\ krun 0 (CMap 3 []) h <> krun 0 (CLru 3 (mkLru [] [] 1)) h.
Proof. vm_compute. split; auto; discriminate. Qed.

(* lru_bounded_concurrent is tight: with capacity 1 and two adders the map transiently holds 2 = 1 + 1 keys,
   and 1 again once the callback has run *)
Example conc_tight :
  let c0 := cinit 1 [[CAdd 1]; [CAdd 2]] in
  map (fun sch => let '(s, ths) := crun c0 sch in (length (sh_keys s), in_flight ths))
      [[0; 0; 1]; [0; 0; 1; 1]; [0; 0; 1; 1; 1]; [0; 1; 0; 1; 1]]%nat =
  [(2, 1); (2, 1); (1, 0); (1, 0)]%nat.
Proof. vm_compute. auto. Qed.
(* an interleaving after which a key sits in the recency list without a map entry and both freshly
   added verdicts are gone (a wasted slot and two extra probes later -- never a leak, never a wrong verdict) *)
Example conc_ghost_slot :
  let '(s, ths) := crun (cinit 1 [[CAdd 1]; [CAdd 2]; [CAdd 1]]) [0; 0; 1; 1; 2; 2; 1; 2]%nat in
  (sh_keys s, sh_list s, in_flight ths) = ([], [1], 0%nat).
Proof. vm_compute. auto. Qed.

(* the bound and no_leak_concurrent DEPEND on the order of Add's sections (map write first, then
   lru.Add).  With the order swapped -- lru.Add(k) (+ callback), then ipCache[k] = elem -- two adders and
   capacity 1 reach a quiescent state with 2 verdicts stored, one of them unknown to the recency list:
   it can never be evicted or cleared (both go through the list) and Lookup still serves it. *)
Definition sw_lru_add (k : N) (s : shared) : shared * option N :=
  let '(l', ev) := lru_touch k (sh_list s) (sh_cap s) in (mkSh (sh_keys s) l' (sh_cap s), ev).
Definition sw_callback (ev : option N) (s : shared) : shared :=
  match ev with Some e => mkSh (lremove e (sh_keys s)) (sh_list s) (sh_cap s) | None => s end.
Definition sw_map_write (k : N) (s : shared) : shared := mkSh (kadd k (sh_keys s)) (sh_list s) (sh_cap s).
Example swapped_order_leaks :
  let s0 := mkSh [] [] 1 in
  let '(s1, evA) := sw_lru_add 1 s0 in            (* A: lru.Add(1) *)
  let s2 := sw_callback evA s1 in
  let '(s3, evB) := sw_lru_add 2 s2 in            (* B: lru.Add(2) evicts 1 ... *)
  let s4 := sw_callback evB s3 in                 (* ... the callback finds nothing to delete *)
  let s5 := sw_map_write 2 s4 in                  (* B: ipCache[2] = elem *)
  let s6 := sw_map_write 1 s5 in                  (* A: ipCache[1] = elem  -- too late *)
  evB = Some 1 /\ sh_keys s6 = [1; 2] /\ sh_list s6 = [2] /\ (sh_cap s6 < N.of_nat (length (sh_keys s6))).
Proof. vm_compute. repeat split; reflexivity. Qed.
(* the same six sections in the REAL order (map write before lru.Add) end within the bound *)
Example real_order_same_schedule :
  let '(s, ths) := crun (cinit 1 [[CAdd 1]; [CAdd 2]]) [0; 1; 0; 1; 1; 0]%nat in
  (length (sh_keys s) <= 1)%nat /\ in_flight ths = 0%nat /\ (forall x, In x (sh_keys s) -> In x (sh_list s)).
Proof. vm_compute. split; [constructor|split; [reflexivity|intros x [<-|[]]; left; reflexivity]]. Qed.
