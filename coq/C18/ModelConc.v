(* C18 model, concurrent part: one lruCache shared by any number of goroutines.
   A thread is a list of cache operations; every operation is a sequence of
   ATOMIC SECTIONS, exactly the critical sections of the code:
     Add k       [lc.m: ipCache[k] = elem] ; [lru lock: lru.Add(k)] ; [lc.m: delete(ipCache, evicted)]?
     Lookup k    [lc.m (read): k in ipCache and fresh?] ; if so [lru lock: lru.Add(k)] ; [lc.m: delete evicted]?
     ClearExpired  [lc.m (read): collect expired keys] ; for each: [lru lock: lru.Remove(key)] ; [lc.m: delete key]?
   (hashicorp/golang-lru v1.0.2 runs the eviction callback after releasing its
   lock, so list update and callback are separate sections; a library version
   that runs it inside the lock is the special case of schedules that never
   interleave the two.)  Freshness depends on the clock, not on the schedule:
   it is part of the operation (any value), as is the list ClearExpired read.
   Only key sets matter for the bound; timestamps are dropped. Definitions only. *)
From CJ Require Export Common.Base C18.Model.

Record shared := mkSh { sh_keys : list N; sh_list : list N; sh_cap : N }.

Inductive cop := CAdd (k : N) | CLookup (k : N) (is_fresh : bool) | CClear (ks : list N).

Inductive pc :=
| Idle
| AddMapped (k : N)                    (* ipCache[k] written, lru.Add(k) still to come *)
| LookRead (k : N)                     (* fresh entry seen, lru.Add(k) still to come *)
| Clearing (ks : list N)               (* keys still to be passed to lru.Remove *)
| Callback (e : N) (rest : list N).    (* list updated, delete(ipCache, e) still to come; rest: ClearExpired's remaining keys *)

Record thread := mkTh { t_pc : pc; t_prog : list cop }.

Definition kadd (k : N) (l : list N) : list N := if mem k l then l else k :: l.

Definition after_lru (ev : option N) (rest : list N) : pc :=
  match ev with Some e => Callback e rest | None => match rest with [] => Idle | _ => Clearing rest end end.

(* one atomic section of thread t; None = the thread has terminated *)
Definition tstep (s : shared) (t : thread) : option (shared * thread) :=
  match t_pc t with
  | Idle =>
      match t_prog t with
      | [] => None
      | CAdd k :: r => Some (mkSh (kadd k (sh_keys s)) (sh_list s) (sh_cap s), mkTh (AddMapped k) r)
      | CLookup k f :: r => Some (s, mkTh (if mem k (sh_keys s) && f then LookRead k else Idle) r)
      | CClear ks :: r => Some (s, mkTh (match ks with [] => Idle | _ => Clearing ks end) r)
      end
  | AddMapped k | LookRead k =>
      let '(l', ev) := lru_touch k (sh_list s) (sh_cap s) in
      Some (mkSh (sh_keys s) l' (sh_cap s), mkTh (after_lru ev []) (t_prog t))
  | Clearing [] => Some (s, mkTh Idle (t_prog t))
  | Clearing (k :: rest) =>
      let '(l', ev) := lru_remove k (sh_list s) in
      Some (mkSh (sh_keys s) l' (sh_cap s), mkTh (after_lru ev rest) (t_prog t))
  | Callback e rest =>
      Some (mkSh (lremove e (sh_keys s)) (sh_list s) (sh_cap s),
            mkTh (match rest with [] => Idle | _ => Clearing rest end) (t_prog t))
  end.

Definition config := (shared * list thread)%type.

(* thread number i takes one step (nothing happens if i is out of range or the thread is done) *)
Definition cstep (c : config) (i : nat) : config :=
  let '(s, ths) := c in
  match nth_error ths i with
  | None => c
  | Some t => match tstep s t with
              | None => c
              | Some (s', t') => (s', firstn i ths ++ t' :: skipn (S i) ths)
              end
  end.

Definition crun (c : config) (sched : list nat) : config := fold_left cstep sched c.

Definition cinit (cp : N) (progs : list (list cop)) : config :=
  (mkSh [] [] cp, map (mkTh Idle) progs).

(* keys a thread is "carrying": written to the map but not yet in the list, or
   removed from the list but not yet deleted from the map *)
Definition pending (t : thread) : list N :=
  match t_pc t with AddMapped k => [k] | Callback e _ => [e] | _ => [] end.
Definition in_flight (ths : list thread) : nat := length (flat_map pending ths).
Definition quiescent (ths : list thread) : Prop := forall t, In t ths -> t_pc t = Idle.

(* which lock the NEXT atomic section of a thread takes: the verdict-map lock (lruCache.m) or the
   lock of the recency list (lru.Cache.lock).  Part of the model that the correspondence run observes:
   while the map lock is held elsewhere, an operation whose first section is a map section cannot have
   touched the recency list. *)
Inductive lockid := LMap | LLru.
Definition section_lock (t : thread) : option lockid :=
  match t_pc t with
  | Idle => match t_prog t with [] => None | _ => Some LMap end     (* Add: map write; Lookup / ClearExpired: map read *)
  | AddMapped _ | LookRead _ => Some LLru
  | Clearing [] => None
  | Clearing (_ :: _) => Some LLru
  | Callback _ _ => Some LMap
  end.
