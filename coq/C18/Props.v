(* C18 property theorems: statements + `exact lemma` only.
   cfg = liveness configuration, h = history of Query / Adv / ClearExpired,
   trace c h = the observable (op, output) list, after c h = the tester state. *)
From CJ Require Import Common.Base C18.Model C18.Proofs C18.Proofs2 C18.ModelAgree C18.Agree C18.ModelConc C18.Conc C18.ConcSeq C18.ModelToml.

(* A verdict comes from a cache only if the address was measured less than the
   configured lifetime ago, and it is the verdict of that (most recent) measurement.
   last_measured is a function of the observable trace alone. *)
Theorem C18_served_only_fresh :
  forall c h a pl pe v,
    outs c (h ++ [Query a pl pe]) = outs c h ++ [Cached v] ->
    exists g ttl, last_measured (trace c h) a = Some (v, g) /\ dur c v = Some ttl /\ (Z.of_N g < ttl)%Z.
Proof. exact served_only_fresh_outs. Qed.
Print Assumptions C18_served_only_fresh.

(* A query either probes (exactly once, returning the probe's verdict and error,
   precisely when neither cache holds a fresh entry) or is served (no probe). *)
Theorem C18_probe_iff_miss :
  forall c h a pl pe,
    let s := after c h in let '(s', x) := step s (Query a pl pe) in
    (x = Probed pl pe /\ s_probes s' = s_probes s + 1 /\ ~ fresh_on true s a /\ ~ fresh_on false s a) \/
    (exists v, x = Cached v /\ s_probes s' = s_probes s /\ fresh_on v s a).
Proof. exact probe_iff_miss. Qed.
Print Assumptions C18_probe_iff_miss.

(* otherwise the phantom is probed again: no measurement younger than the lifetime => probe *)
Theorem C18_stale_is_probed :
  forall c h a pl pe,
    (forall v g ttl, last_measured (trace c h) a = Some (v, g) -> dur c v = Some ttl -> (ttl <= Z.of_N g)%Z) ->
    snd (step (after c h) (Query a pl pe)) = Probed pl pe.
Proof. exact stale_is_probed. Qed.
Print Assumptions C18_stale_is_probed.

Theorem C18_probe_calls_are_probed_outputs :
  forall c h, s_probes (after c h) = N.of_nat (length (filter is_probed (trace c h))).
Proof. exact probes_count. Qed.
Print Assumptions C18_probe_calls_are_probed_outputs.

(* |entries| <= capacity after every operation of every history (non-zero
   capacity: n > 0 -> n, n < 0 -> defaultSizeLRU) *)
Theorem C18_lru_bounded :
  forall c h v, cap c v <> 0%Z -> size v (after c h) <= lru_size (cap c v).
Proof. exact lru_bounded. Qed.
Print Assumptions C18_lru_bounded.

(* a configured capacity of either side bounds that side's cache *)
Theorem C18_capacity_respected_by_config :
  forall c h v, (0 < cap c v)%Z -> (Z.of_N (size v (after c h)) <= cap c v)%Z.
Proof. exact capacity_respected_by_config. Qed.
Print Assumptions C18_capacity_respected_by_config.

Theorem C18_capacity_gives_lru :
  forall c h v ca, cap c v <> 0%Z -> side v (after c h) = Some ca ->
    exists ttl l, ca = CLru ttl l /\ lcap l = lru_size (cap c v).
Proof. exact capacity_gives_lru. Qed.
Print Assumptions C18_capacity_gives_lru.

(* after the eviction callback ran on k (capacity eviction or ClearExpired) in
   step o, no later query of k is answered from that cache unless k has been
   measured again with that verdict in between *)
Theorem C18_evicted_never_served :
  forall c h1 o h2 v k pl pe,
    let s0 := after c h1 in
    In k (evicted_from v (snd (step_ev s0 o))) ->
    let s1 := fst (step s0 o) in
    existsb (measures v k) (snd (run s1 h2)) = false ->
    snd (step (fst (run s1 h2)) (Query k pl pe)) <> Cached v.
Proof. exact evicted_never_served. Qed.
Print Assumptions C18_evicted_never_served.

Theorem C18_expired_never_served :
  forall c h v k pl pe t ttl,
    ofind k (side v (after c h)) = Some (t, ttl) -> fresh (s_now (after c h)) t ttl = false ->
    snd (step (after c h) (Query k pl pe)) <> Cached v.
Proof. exact expired_never_served. Qed.
Print Assumptions C18_expired_never_served.

Theorem C18_clear_removes_exactly_overdue :
  forall c h v k x,
    let s := after c h in let s' := fst (step s ClearExpired) in
    ofind k (side v s') = Some x <-> (ofind k (side v s) = Some x /\ overdue (s_now s) (fst x) (snd x) = false).
Proof. exact clear_removes_overdue. Qed.
Print Assumptions C18_clear_removes_exactly_overdue.

(* the two caches never both hold a fresh verdict for an address, so the order
   of the two lookups is immaterial *)
Theorem C18_never_both_fresh :
  forall c h a, ~ (fresh_on true (after c h) a /\ fresh_on false (after c h) a).
Proof. exact never_both_fresh. Qed.
Print Assumptions C18_never_both_fresh.

(* below capacity the LRU cache and the map cache give the same answers and sizes through the
   cache interface, provided Add is only called for keys that are absent (Examples.v shows that
   both hypotheses are necessary; the tester does NOT keep the second one after an entry expired) *)
Theorem C18_map_lru_agree_below_capacity :
  forall ttl cp h, 1 <= cp ->
    N.of_nat (length (nodup N.eq_dec (added_keys h))) <= cp ->
    adds_absent 0 (CMap ttl []) h = true ->
    krun 0 (CMap ttl []) h = krun 0 (CLru ttl (mkLru [] [] cp)) h.
Proof. exact map_lru_agree_below_capacity. Qed.
Print Assumptions C18_map_lru_agree_below_capacity.

(* any number of goroutines, any programs of Add / Lookup / ClearExpired, any schedule of their
   atomic sections: |entries| <= capacity + operations in flight, and <= capacity at quiescence *)
Theorem C18_lru_bounded_concurrent :
  forall cp progs sched, 1 <= cp ->
    let '(s, ths) := crun (cinit cp progs) sched in
    N.of_nat (length (sh_keys s)) <= cp + N.of_nat (in_flight ths) /\
    (in_flight ths <= length progs)%nat /\
    (quiescent ths -> N.of_nat (length (sh_keys s)) <= cp).
Proof. exact lru_bounded_concurrent. Qed.
Print Assumptions C18_lru_bounded_concurrent.

(* (both concurrent theorems depend on the ORDER of Add's sections -- verdict map first, recency list second,
   ModelConc.tstep / section_lock -- which the correspondence run observes on the real code; with the order
   swapped the statement is false: Examples.swapped_order_leaks) *)
Theorem C18_no_leak_concurrent :
  forall cp progs sched, 1 <= cp ->
    let '(s, ths) := crun (cinit cp progs) sched in
    forall x, In x (sh_keys s) -> In x (sh_list s) \/ In x (flat_map pending ths).
Proof. exact no_leak_concurrent. Qed.
Print Assumptions C18_no_leak_concurrent.

(* the concurrent model run by ONE thread is the sequential lruCache of Model.v (key set, recency
   list, capacity): Add, Lookup and ClearExpired take the same shared state to the same shared state *)
Theorem C18_concurrent_model_is_sequential_when_alone :
  forall s c, matches s c -> wf_lru c ->
    (forall k t, let '(s', ths) := solo s [CAdd k] 3 in
                 matches s' (fst (l_add k t c)) /\ ths = [mkTh Idle []]) /\
    (forall now ttl k, let '(s', ths) := solo s [CLookup k (fresh_bit now ttl k c)] 3 in
                 matches s' (snd (fst (l_lookup now ttl k c))) /\ ths = [mkTh Idle []]) /\
    (forall now ttl, let ks := l_expired now ttl (lmap c) in
                 let '(s', ths) := solo s [CClear ks] (1 + 2 * length ks) in
                 matches s' (fst (l_clear now ttl c)) /\ ths = [mkTh Idle []]).
Proof.
  intros s c HM HW. split; [|split].
  - intros k t. exact (solo_add s c k t HM HW).
  - intros now ttl k. exact (solo_lookup s c now ttl k HM HW).
  - intros now ttl. exact (solo_clear s c now ttl HM HW).
Qed.
Print Assumptions C18_concurrent_model_is_sequential_when_alone.

(* ---- fifth round: configuration that arrives through TOML decoding (ModelToml.v) ----
   d = the station TOML as the map key name -> written value; decode d = liveness.Config as the
   struct tags fill it; written_dur / written_cap d v = the value written under the DOCUMENTED key
   of side v (cache_expiration_time, cache_capacity | cache_expiration_nonlive, cache_capacity_nonlive). *)
Theorem C18_toml_decode_fieldwise :
  forall d v, dur (decode d) v = written_dur d v /\ cap (decode d) v = written_cap d v.
Proof. exact decode_fieldwise. Qed.
Print Assumptions C18_toml_decode_fieldwise.

Theorem C18_toml_tester_is_tester_of_written_values :
  forall d, init_caches (decode d) =
    mkSt (init_cache (written_dur d true) (written_cap d true))
         (init_cache (written_dur d false) (written_cap d false)) 0 0.
Proof. exact decode_tester. Qed.
Print Assumptions C18_toml_tester_is_tester_of_written_values.

(* the cache of side v never exceeds the capacity written under that side's own key *)
Theorem C18_toml_capacity_respected :
  forall d h v, (0 < written_cap d v)%Z -> (Z.of_N (size v (after (decode d) h)) <= written_cap d v)%Z.
Proof. exact toml_capacity_respected. Qed.
Print Assumptions C18_toml_capacity_respected.

Theorem C18_toml_lru_bounded :
  forall d h v, written_cap d v <> 0%Z -> size v (after (decode d) h) <= lru_size (written_cap d v).
Proof. exact toml_lru_bounded. Qed.
Print Assumptions C18_toml_lru_bounded.

(* a verdict v is served only while younger than the lifetime written under v's own key *)
Theorem C18_toml_served_only_fresh :
  forall d h a pl pe v,
    outs (decode d) (h ++ [Query a pl pe]) = outs (decode d) h ++ [Cached v] ->
    exists g ttl, last_measured (trace (decode d) h) a = Some (v, g) /\
                  written_dur d v = Some ttl /\ (Z.of_N g < ttl)%Z.
Proof. exact toml_served_only_fresh. Qed.
Print Assumptions C18_toml_served_only_fresh.

(* no lifetime written for a side => that side caches nothing *)
Theorem C18_toml_unset_duration_no_cache :
  forall d h v, written_dur d v = None -> size v (after (decode d) h) = 0.
Proof. exact toml_unset_duration_no_cache. Qed.
Print Assumptions C18_toml_unset_duration_no_cache.

(* refuted variants: with the tags of the two capacities (the two lifetimes) exchanged the statements fail *)
Theorem C18_toml_swapped_caps_refuted :
  (0 < written_cap w_caps false)%Z /\
  (Z.of_N (size false (after (decode_swapped_caps w_caps) w_caps_h)) > written_cap w_caps false)%Z /\
  snd (step (after (decode_swapped_caps w_caps) w_caps_h) (Query 0 false 0)) = Cached false /\
  snd (step (after (decode w_caps) w_caps_h) (Query 0 false 0)) = Probed false 0.
Proof. exact swapped_caps_break_bound. Qed.
Print Assumptions C18_toml_swapped_caps_refuted.

Theorem C18_toml_swapped_durs_refuted :
  written_dur w_durs false = Some 2%Z /\
  last_measured (trace (decode_swapped_durs w_durs) w_durs_h) 0 = Some (false, 3) /\
  snd (step (after (decode_swapped_durs w_durs) w_durs_h) (Query 0 false 0)) = Cached false /\
  snd (step (after (decode w_durs) w_durs_h) (Query 0 false 0)) = Probed false 0.
Proof. exact swapped_durs_serve_stale. Qed.
Print Assumptions C18_toml_swapped_durs_refuted.
