(* C18 lemmas, part 2: the tester, its invariant, and the sequential theorems. *)
From CJ Require Import Common.Base C18.Model C18.Proofs.
From Coq Require Import Lia ZifyN ZifyNat ZifyBool.
Ltac splits := repeat match goal with |- _ /\ _ => split end.

(* entry of an address on one side: (cachedTime, lifetime of that cache) *)
Definition ofind (k : N) (oc : option cache) : option (N * Z) :=
  match oc with
  | Some ca => match c_find k ca with Some t => Some (t, c_ttl ca) | None => None end
  | None => None
  end.

Definition lru_size (cp : Z) : N := if (cp <=? 0)%Z then defaultSizeLRU else Z.to_N cp.

Definition wf_side (c : cfg) (v : bool) (oc : option cache) : Prop :=
  match oc with
  | None => dur c v = None
  | Some ca => wf_cache ca /\ dur c v = Some (c_ttl ca) /\
               match ca with
               | CMap _ _ => cap c v = 0%Z
               | CLru _ l => cap c v <> 0%Z /\ lcap l = lru_size (cap c v)
               end
  end.

(* ---------- option-level specifications ---------- *)
Lemma o_lookup_spec c v now k oc b oc' ev : wf_side c v oc -> o_lookup now k oc = (b, oc', ev) ->
  wf_side c v oc' /\ ev = [] /\
  (forall k' x, ofind k' oc' = Some x -> ofind k' oc = Some x) /\
  (forall k', ofind k' oc' = ofind k' oc) /\
  (b = true <-> exists t ttl, ofind k oc = Some (t, ttl) /\ fresh now t ttl = true) /\
  (b = false -> oc' = oc).
Proof.
  destruct oc as [ca|]; cbn [o_lookup wf_side].
  - intros (W1 & W2 & W3). destruct (c_lookup now k ca) as [[b0 ca'] ev0] eqn:El. intros [= <- <- <-].
    destruct (c_lookup_spec _ _ _ _ _ _ W1 El) as (L1 & L2 & L3 & L4 & L5 & L6 & L7).
    assert (Hof : forall k', ofind k' (Some ca') = ofind k' (Some ca)).
    { intros k'. unfold ofind, c_find. rewrite L3, L2. auto. }
    splits; auto.
    + cbn. splits; auto; [congruence|].
      destruct ca, ca'; try contradiction; auto. destruct W3. split; auto. congruence.
    + intros k' x. rewrite Hof. auto.
    + rewrite L5. unfold ofind. split.
      * intros (t & Hf & Hfr). rewrite Hf. eauto.
      * intros (t & ttl & Hf & Hfr). destruct (c_find k ca) eqn:E; [|discriminate].
        inversion Hf; subst. eauto.
    + intros Hb. rewrite (L6 Hb). auto.
  - intros Hw [= <- <- <-]. splits; auto. split; [discriminate|].
    intros (t & ttl & Hf & _). discriminate.
Qed.

Lemma o_add_spec c v now k oc oc' ev : wf_side c v oc -> o_add now k oc = (oc', ev) ->
  wf_side c v oc' /\
  (forall k' x, ofind k' oc' = Some x ->
      (k' = k /\ (fst x = now \/ ofind k oc = Some x)) \/ (k' <> k /\ ofind k' oc = Some x)) /\
  (forall e, In e ev -> ofind e oc' = None /\ e <> k) /\
  (forall k', k' <> k -> ~ In k' ev -> ofind k' oc' = ofind k' oc) /\
  (oc <> None -> ofind k oc' <> None) /\
  (oc <> None -> ofind k oc = None -> exists ttl, ofind k oc' = Some (now, ttl)).
Proof.
  destruct oc as [ca|]; cbn [o_add wf_side].
  - intros (W1 & W2 & W3). destruct (c_add now k ca) as [ca' ev0] eqn:Ea. intros [= <- <-].
    destruct (c_add_spec _ _ _ _ _ W1 Ea) as (A1 & A2 & A3 & A4 & A5 & A6 & A7 & A8).
    splits.
    + cbn. splits; auto; [congruence|].
      destruct ca, ca'; try contradiction; auto. destruct W3. split; auto. congruence.
    + intros k' [t ttl]. unfold ofind. destruct (c_find k' ca') eqn:E; [|discriminate].
      intros [= <- <-]. destruct (A3 _ _ E) as [[-> [->|Hf]]|[Hn Hf]]; cbn.
      * left. auto.
      * left. split; auto. right. rewrite Hf, A2. auto.
      * right. split; auto. rewrite Hf, A2. auto.
    + intros e He. destruct (A6 _ He) as [H1 H2]. split; auto. unfold ofind. rewrite H1. auto.
    + intros k' H1 H2. unfold ofind. rewrite A7, A2; auto.
    + intros _. unfold ofind. destruct A4 as [t ->]. discriminate.
    + intros _. unfold ofind. destruct (c_find k ca) eqn:E; [discriminate|]. intros _.
      rewrite (A5 eq_refl). eauto.
  - intros Hw [= <- <-]. splits; auto; try (intros; contradiction); try discriminate.
Qed.

Lemma o_clear_spec c v now oc oc' ev : wf_side c v oc -> o_clear now oc = (oc', ev) ->
  wf_side c v oc' /\
  (forall k' x, ofind k' oc' = Some x -> ofind k' oc = Some x /\ overdue now (fst x) (snd x) = false) /\
  (forall k' x, ofind k' oc = Some x -> overdue now (fst x) (snd x) = false -> ofind k' oc' = Some x) /\
  (forall e, In e ev -> ofind e oc' = None).
Proof.
  destruct oc as [ca|]; cbn [o_clear wf_side].
  - intros (W1 & W2 & W3). destruct (c_clear now ca) as [ca' ev0] eqn:Ea. intros [= <- <-].
    destruct (c_clear_spec _ _ _ _ W1 Ea) as (A1 & A2 & A3 & A4 & A5 & A6).
    splits.
    + cbn. splits; auto; [congruence|].
      destruct ca, ca'; try contradiction; auto. destruct W3. split; auto. congruence.
    + intros k' [t ttl]. unfold ofind. destruct (c_find k' ca') eqn:E; [|discriminate].
      intros [= <- <-]. destruct (A3 _ _ E) as [H1 H2]. rewrite H1, A2. cbn. auto.
    + intros k' [t ttl]. unfold ofind. destruct (c_find k' ca) eqn:E; [|discriminate].
      intros [= <- <-]. cbn. intros Ho. rewrite (A4 _ _ E Ho), A2. auto.
    + intros e He. unfold ofind. rewrite (A5 _ He). auto.
  - intros Hw [= <- <-]. splits; auto; try (intros; contradiction); try discriminate.
Qed.

(* ---------- ghost function ---------- *)
Lemma lm_snoc tr e a : last_measured (tr ++ [e]) a = lm_step a (last_measured tr a) e.
Proof. unfold last_measured. rewrite fold_left_app. auto. Qed.

Lemma run_snoc h : forall s o,
  run s (h ++ [o]) =
  (fst (step (fst (run s h)) o), snd (run s h) ++ [(o, snd (step (fst (run s h)) o))]).
Proof.
  induction h as [|o' h IH]; intros s o; cbn [run app].
  - cbn [fst snd app]. destruct (step s o) as [s1 x]. auto.
  - destruct (step s o') as [s1 x]. rewrite IH. destruct (run s1 h) as [s2 tr]. cbn [fst snd app]. auto.
Qed.

Lemma run_app h1 : forall s h2,
  run s (h1 ++ h2) = (fst (run (fst (run s h1)) h2), snd (run s h1) ++ snd (run (fst (run s h1)) h2)).
Proof.
  induction h1 as [|o h1 IH]; intros s h2; cbn [run app].
  - cbn [fst snd app]. destruct (run s h2); auto.
  - destruct (step s o) as [s1 x]. rewrite IH. destruct (run s1 h1) as [s2 tr]. cbn [fst snd app]. auto.
Qed.

(* ---------- invariant ---------- *)
Definition entries_ok (v : bool) (oc : option cache) (now : N) (tr : list (lop * lout)) : Prop :=
  forall k t ttl, ofind k oc = Some (t, ttl) ->
    t <= now /\ (fresh now t ttl = true -> last_measured tr k = Some (v, now - t)).

Definition Inv (c : cfg) (s : st) (tr : list (lop * lout)) : Prop :=
  wf_side c true (s_live s) /\ wf_side c false (s_nonlive s) /\
  entries_ok true (s_live s) (s_now s) tr /\ entries_ok false (s_nonlive s) (s_now s) tr.

Lemma fresh_mono now d t ttl : fresh (now + d) t ttl = true -> t <= now -> fresh now t ttl = true.
Proof. unfold fresh, age. lia. Qed.

Lemma init_cache_wf c v : wf_side c v (init_cache (dur c v) (cap c v)).
Proof.
  unfold init_cache. destruct (dur c v) as [ttl|] eqn:E; cbn; auto.
  destruct (cap c v =? 0)%Z eqn:Ec; cbn.
  - splits; auto; [constructor|lia].
  - splits; auto.
    + unfold wf_lru; cbn. splits; try constructor; try tauto.
      * unfold defaultSizeLRU. destruct (cap c v <=? 0)%Z eqn:E2; lia.
      * unfold defaultSizeLRU. destruct (cap c v <=? 0)%Z eqn:E2; lia.
    + lia.
Qed.

Lemma Inv_init c : Inv c (init_caches c) [].
Proof.
  unfold Inv, init_caches; cbn. splits.
  - apply (init_cache_wf c true).
  - apply (init_cache_wf c false).
  - intros k t ttl. unfold init_cache. destruct (dur_live c); cbn; [|discriminate].
    destruct (cap_live c =? 0)%Z; cbn; discriminate.
  - intros k t ttl. unfold init_cache. destruct (dur_nonlive c); cbn; [|discriminate].
    destruct (cap_nonlive c =? 0)%Z; cbn; discriminate.
Qed.

(* shape of a Query step *)
Inductive qcase (s : st) (a : N) (pl : bool) (pe : N) (s' : st) (x : lout) (e : evs) : Prop :=
| QLive l' : o_lookup (s_now s) a (s_live s) = (true, l', []) ->
    s' = mkSt l' (s_nonlive s) (s_now s) (s_probes s) -> x = Cached true -> e = ([], []) -> qcase s a pl pe s' x e
| QNon : o_lookup (s_now s) a (s_live s) = (false, s_live s, []) ->
    forall n', o_lookup (s_now s) a (s_nonlive s) = (true, n', []) ->
    s' = mkSt (s_live s) n' (s_now s) (s_probes s) -> x = Cached false -> e = ([], []) -> qcase s a pl pe s' x e
| QProbeL : o_lookup (s_now s) a (s_live s) = (false, s_live s, []) ->
    o_lookup (s_now s) a (s_nonlive s) = (false, s_nonlive s, []) ->
    pl = true -> forall l'' e3, o_add (s_now s) a (s_live s) = (l'', e3) ->
    s' = mkSt l'' (s_nonlive s) (s_now s) (s_probes s + 1) -> x = Probed pl pe -> e = (e3, []) -> qcase s a pl pe s' x e
| QProbeN : o_lookup (s_now s) a (s_live s) = (false, s_live s, []) ->
    o_lookup (s_now s) a (s_nonlive s) = (false, s_nonlive s, []) ->
    pl = false -> forall n'' e3, o_add (s_now s) a (s_nonlive s) = (n'', e3) ->
    s' = mkSt (s_live s) n'' (s_now s) (s_probes s + 1) -> x = Probed pl pe -> e = ([], e3) -> qcase s a pl pe s' x e.

Lemma query_cases c s a pl pe s' x e :
  wf_side c true (s_live s) -> wf_side c false (s_nonlive s) ->
  step_ev s (Query a pl pe) = (s', x, e) -> qcase s a pl pe s' x e.
Proof.
  intros W1 W2. cbn [step_ev].
  destruct (o_lookup (s_now s) a (s_live s)) as [[hl l'] e1] eqn:E1.
  destruct (o_lookup_spec _ _ _ _ _ _ _ _ W1 E1) as (_ & -> & _ & _ & _ & L6).
  destruct hl.
  - intros [= <- <- <-]. eapply QLive; eauto.
  - rewrite (L6 eq_refl) in *.
    destruct (o_lookup (s_now s) a (s_nonlive s)) as [[hn n'] e2] eqn:E2.
    destruct (o_lookup_spec _ _ _ _ _ _ _ _ W2 E2) as (_ & -> & _ & _ & _ & M6).
    destruct hn.
    + intros [= <- <- <-]. eapply QNon; eauto.
    + rewrite (M6 eq_refl) in *. destruct pl.
      * destruct (o_add (s_now s) a (s_live s)) as [l'' e3] eqn:E3. intros [= <- <- <-].
        eapply QProbeL; eauto.
      * destruct (o_add (s_now s) a (s_nonlive s)) as [n'' e3] eqn:E3. intros [= <- <- <-].
        eapply QProbeN; eauto.
Qed.

Lemma step_ev_step s o s' x e : step_ev s o = (s', x, e) -> step s o = (s', x).
Proof. unfold step. intros ->. auto. Qed.

Lemma step_step_ev s o s' x : step s o = (s', x) -> exists e, step_ev s o = (s', x, e).
Proof. unfold step. destruct (step_ev s o) as [[s1 x1] e]. cbn. intros [= <- <-]. eauto. Qed.

Lemma miss_not_fresh now k oc b oc' ev c v : wf_side c v oc ->
  o_lookup now k oc = (b, oc', ev) -> b = false ->
  forall t ttl, ofind k oc = Some (t, ttl) -> fresh now t ttl = false.
Proof.
  intros W E Hb t ttl Hf. destruct (o_lookup_spec _ _ _ _ _ _ _ _ W E) as (_ & _ & _ & _ & L5 & _).
  destruct (fresh now t ttl) eqn:Efr; auto. subst b.
  assert (false = true) by (apply L5; eauto). discriminate.
Qed.

Lemma Inv_step c s tr o s' x : Inv c s tr -> step s o = (s', x) -> Inv c s' (tr ++ [(o, x)]).
Proof.
  intros (W1 & W2 & E1 & E2) Hs. destruct (step_step_ev _ _ _ _ Hs) as [e Hse]. clear Hs.
  destruct o as [a pl pe|d|].
  - (* Query *)
    destruct (query_cases _ _ _ _ _ _ _ _ W1 W2 Hse) as
      [l' Hl -> -> _|Hl n' Hn -> -> _|Hl Hn -> l'' e3 Ha -> -> _|Hl Hn -> n'' e3 Ha -> -> _]; cbn [s_live s_nonlive s_now].
    + destruct (o_lookup_spec _ _ _ _ _ _ _ _ W1 Hl) as (L1 & _ & L3 & _).
      unfold Inv; cbn. splits; auto.
      * intros k t ttl Hf. apply L3 in Hf. destruct (E1 _ _ _ Hf). split; auto.
        rewrite lm_snoc. cbn. auto.
      * intros k t ttl Hf. destruct (E2 _ _ _ Hf). split; auto. rewrite lm_snoc. cbn. auto.
    + destruct (o_lookup_spec _ _ _ _ _ _ _ _ W2 Hn) as (L1 & _ & L3 & _).
      unfold Inv; cbn. splits; auto.
      * intros k t ttl Hf. destruct (E1 _ _ _ Hf). split; auto. rewrite lm_snoc. cbn. auto.
      * intros k t ttl Hf. apply L3 in Hf. destruct (E2 _ _ _ Hf). split; auto.
        rewrite lm_snoc. cbn. auto.
    + destruct (o_add_spec _ _ _ _ _ _ _ W1 Ha) as (A1 & A2 & _).
      unfold Inv; cbn. splits; auto.
      * intros k t ttl Hf. rewrite lm_snoc. cbn [lm_step].
        destruct (A2 _ _ Hf) as [[-> [Hnow|Hold]]|[Hne Hold]]; cbn in *.
        -- subst t. rewrite N.eqb_refl. split; [lia|]. intros _. f_equal. f_equal. lia.
        -- destruct (E1 _ _ _ Hold). split; auto.
           rewrite (miss_not_fresh _ _ _ _ _ _ _ _ W1 Hl eq_refl _ _ Hold). discriminate.
        -- destruct (E1 _ _ _ Hold). split; auto.
           destruct (a =? k) eqn:E; [apply N.eqb_eq in E; congruence|auto].
      * intros k t ttl Hf. rewrite lm_snoc. cbn [lm_step]. destruct (E2 _ _ _ Hf). split; auto.
        destruct (a =? k) eqn:E; auto. apply N.eqb_eq in E. subst k.
        rewrite (miss_not_fresh _ _ _ _ _ _ _ _ W2 Hn eq_refl _ _ Hf). discriminate.
    + destruct (o_add_spec _ _ _ _ _ _ _ W2 Ha) as (A1 & A2 & _).
      unfold Inv; cbn. splits; auto.
      * intros k t ttl Hf. rewrite lm_snoc. cbn [lm_step]. destruct (E1 _ _ _ Hf). split; auto.
        destruct (a =? k) eqn:E; auto. apply N.eqb_eq in E. subst k.
        rewrite (miss_not_fresh _ _ _ _ _ _ _ _ W1 Hl eq_refl _ _ Hf). discriminate.
      * intros k t ttl Hf. rewrite lm_snoc. cbn [lm_step].
        destruct (A2 _ _ Hf) as [[-> [Hnow|Hold]]|[Hne Hold]]; cbn in *.
        -- subst t. rewrite N.eqb_refl. split; [lia|]. intros _. f_equal. f_equal. lia.
        -- destruct (E2 _ _ _ Hold). split; auto.
           rewrite (miss_not_fresh _ _ _ _ _ _ _ _ W2 Hn eq_refl _ _ Hold). discriminate.
        -- destruct (E2 _ _ _ Hold). split; auto.
           destruct (a =? k) eqn:E; [apply N.eqb_eq in E; congruence|auto].
  - (* Adv *)
    cbn in Hse. injection Hse as <- <- _. unfold Inv; cbn. splits; auto.
    + intros k t ttl Hf. destruct (E1 _ _ _ Hf) as [Hle Hfr]. split; [lia|].
      intros Hfr2. rewrite lm_snoc. cbn. rewrite (Hfr (fresh_mono _ _ _ _ Hfr2 Hle)).
      f_equal. f_equal. lia.
    + intros k t ttl Hf. destruct (E2 _ _ _ Hf) as [Hle Hfr]. split; [lia|].
      intros Hfr2. rewrite lm_snoc. cbn. rewrite (Hfr (fresh_mono _ _ _ _ Hfr2 Hle)).
      f_equal. f_equal. lia.
  - (* ClearExpired *)
    cbn in Hse.
    destruct (o_clear (s_now s) (s_live s)) as [l' e1] eqn:C1.
    destruct (o_clear (s_now s) (s_nonlive s)) as [n' e2] eqn:C2.
    injection Hse as <- <- _.
    destruct (o_clear_spec _ _ _ _ _ _ W1 C1) as (A1 & A2 & _).
    destruct (o_clear_spec _ _ _ _ _ _ W2 C2) as (B1 & B2 & _).
    unfold Inv; cbn. splits; auto.
    + intros k t ttl Hf. apply A2 in Hf. destruct Hf as [Hf _]. destruct (E1 _ _ _ Hf). split; auto.
      rewrite lm_snoc. cbn. auto.
    + intros k t ttl Hf. apply B2 in Hf. destruct Hf as [Hf _]. destruct (E2 _ _ _ Hf). split; auto.
      rewrite lm_snoc. cbn. auto.
Qed.

Lemma Inv_run c h : forall s tr, Inv c s tr -> Inv c (fst (run s h)) (tr ++ snd (run s h)).
Proof.
  induction h as [|o h IH]; intros s tr HI; cbn [run].
  - cbn. rewrite app_nil_r. auto.
  - destruct (step s o) as [s1 x] eqn:Es. pose proof (Inv_step _ _ _ _ _ _ HI Es) as HI1.
    specialize (IH _ _ HI1). destruct (run s1 h) as [s2 tr2]. cbn in *.
    rewrite <- app_assoc in IH. auto.
Qed.

Lemma Inv_after c h : Inv c (after c h) (trace c h).
Proof. apply (Inv_run c h _ [] (Inv_init c)). Qed.

(* ---------- T1 served_only_fresh ---------- *)
Lemma served_only_fresh_inv c s tr a pl pe v :
  Inv c s tr -> snd (step s (Query a pl pe)) = Cached v ->
  exists g ttl, last_measured tr a = Some (v, g) /\ dur c v = Some ttl /\ (Z.of_N g < ttl)%Z.
Proof.
  intros (W1 & W2 & E1 & E2) Hx.
  destruct (step s (Query a pl pe)) as [s' x] eqn:Hs. cbn in Hx. subst x.
  destruct (step_step_ev _ _ _ _ Hs) as [e Hse].
  destruct (query_cases _ _ _ _ _ _ _ _ W1 W2 Hse) as
      [l' Hl _ Hx _|Hl n' Hn _ Hx _|Hl Hn _ l'' e3 Ha _ Hx _|Hl Hn _ n'' e3 Ha _ Hx _]; try discriminate.
  - injection Hx as Hv; subst v.
    destruct (o_lookup_spec _ _ _ _ _ _ _ _ W1 Hl) as (_ & _ & _ & _ & L5 & _).
    destruct L5 as [L5 _]. destruct (L5 eq_refl) as (t & ttl & Hf & Hfr).
    destruct (E1 _ _ _ Hf) as [Hle Hlm]. exists (s_now s - t), ttl. splits; auto.
    + destruct (s_live s) as [ca|]; [|discriminate]. cbn in Hf. destruct W1 as (_ & W & _).
      destruct (c_find a ca); [|discriminate]. inversion Hf; subst. auto.
    + unfold fresh, age in Hfr. lia.
  - injection Hx as Hv; subst v.
    destruct (o_lookup_spec _ _ _ _ _ _ _ _ W2 Hn) as (_ & _ & _ & _ & L5 & _).
    destruct L5 as [L5 _]. destruct (L5 eq_refl) as (t & ttl & Hf & Hfr).
    destruct (E2 _ _ _ Hf) as [Hle Hlm]. exists (s_now s - t), ttl. splits; auto.
    + destruct (s_nonlive s) as [ca|]; [|discriminate]. cbn in Hf. destruct W2 as (_ & W & _).
      destruct (c_find a ca); [|discriminate]. inversion Hf; subst. auto.
    + unfold fresh, age in Hfr. lia.
Qed.

Lemma served_only_fresh c h a pl pe v :
  snd (step (after c h) (Query a pl pe)) = Cached v ->
  exists g ttl, last_measured (trace c h) a = Some (v, g) /\ dur c v = Some ttl /\ (Z.of_N g < ttl)%Z.
Proof. apply served_only_fresh_inv. apply Inv_after. Qed.

(* the same, in the shape of DESIGN.md Appendix A (outputs of h ++ [q]) *)
Lemma served_only_fresh_outs c h a pl pe v :
  outs c (h ++ [Query a pl pe]) = outs c h ++ [Cached v] ->
  exists g ttl, last_measured (trace c h) a = Some (v, g) /\ dur c v = Some ttl /\ (Z.of_N g < ttl)%Z.
Proof.
  unfold outs, trace. rewrite run_snoc. cbn [snd]. rewrite map_app. cbn [map snd].
  intros H. apply app_inv_head in H. injection H as H. eapply served_only_fresh. eauto.
Qed.

(* ---------- T2 probe_iff_miss ---------- *)
Definition fresh_on (v : bool) (s : st) (a : N) : Prop :=
  exists t ttl, ofind a (side v s) = Some (t, ttl) /\ fresh (s_now s) t ttl = true.

Lemma query_out_shape c s tr a pl pe : Inv c s tr ->
  let '(s', x) := step s (Query a pl pe) in
  (x = Probed pl pe /\ s_probes s' = s_probes s + 1 /\ ~ fresh_on true s a /\ ~ fresh_on false s a) \/
  (exists v, x = Cached v /\ s_probes s' = s_probes s /\ fresh_on v s a).
Proof.
  intros (W1 & W2 & E1 & E2). destruct (step s (Query a pl pe)) as [s' x] eqn:Hs.
  destruct (step_step_ev _ _ _ _ Hs) as [e Hse].
  assert (Hmiss : forall v oc b oc' ev, wf_side c v oc -> o_lookup (s_now s) a oc = (b, oc', ev) -> b = false ->
            ~ (exists t ttl, ofind a oc = Some (t, ttl) /\ fresh (s_now s) t ttl = true)).
  { intros v oc b oc' ev W El Hb (t & ttl & Hf & Hfr).
    rewrite (miss_not_fresh _ _ _ _ _ _ _ _ W El Hb _ _ Hf) in Hfr. discriminate. }
  destruct (query_cases _ _ _ _ _ _ _ _ W1 W2 Hse) as
      [l' Hl -> -> _|Hl n' Hn -> -> _|Hl Hn -> l'' e3 Ha -> -> _|Hl Hn -> n'' e3 Ha -> -> _]; cbn.
  - right. exists true. splits; auto.
    destruct (o_lookup_spec _ _ _ _ _ _ _ _ W1 Hl) as (_ & _ & _ & _ & L5 & _). apply L5; auto.
  - right. exists false. splits; auto.
    destruct (o_lookup_spec _ _ _ _ _ _ _ _ W2 Hn) as (_ & _ & _ & _ & L5 & _). apply L5; auto.
  - left. splits; auto; unfold fresh_on; cbn; eapply Hmiss; eauto.
  - left. splits; auto; unfold fresh_on; cbn; eapply Hmiss; eauto.
Qed.

Lemma probe_iff_miss c h a pl pe :
  let s := after c h in let '(s', x) := step s (Query a pl pe) in
  (x = Probed pl pe /\ s_probes s' = s_probes s + 1 /\ ~ fresh_on true s a /\ ~ fresh_on false s a) \/
  (exists v, x = Cached v /\ s_probes s' = s_probes s /\ fresh_on v s a).
Proof. cbn zeta. apply (query_out_shape c _ (trace c h)). apply Inv_after. Qed.

(* trace-level converse of T1: no fresh last measurement => the phantom is probed again *)
Lemma stale_is_probed c h a pl pe :
  (forall v g ttl, last_measured (trace c h) a = Some (v, g) -> dur c v = Some ttl -> (ttl <= Z.of_N g)%Z) ->
  snd (step (after c h) (Query a pl pe)) = Probed pl pe.
Proof.
  intros Hst. pose proof (probe_iff_miss c h a pl pe) as H. cbn zeta in H.
  destruct (step (after c h) (Query a pl pe)) as [s' x] eqn:Hs. cbn.
  destruct H as [(Hx & _)|(v & Hx & _)]; auto.
  assert (Hc : snd (step (after c h) (Query a pl pe)) = Cached v) by (rewrite Hs; auto).
  destruct (served_only_fresh _ _ _ _ _ _ Hc) as (g & ttl & Hlm & Hd & Hlt).
  specialize (Hst _ _ _ Hlm Hd). lia.
Qed.

(* the probe counter counts exactly the Probed outputs *)
Definition is_probed (e : lop * lout) : bool := match snd e with Probed _ _ => true | _ => false end.
Lemma probes_count_inv c h : forall s tr, Inv c s tr ->
  s_probes (fst (run s h)) = s_probes s + N.of_nat (length (filter is_probed (snd (run s h)))).
Proof.
  induction h as [|o h IH]; intros s tr HI; cbn [run].
  - cbn. lia.
  - destruct (step s o) as [s1 x] eqn:Es. pose proof (Inv_step _ _ _ _ _ _ HI Es) as HI1.
    specialize (IH _ _ HI1). destruct (run s1 h) as [s2 tr2]. cbn [fst snd] in *. rewrite IH.
    cbn [filter]. unfold is_probed at 2. cbn [snd].
    destruct o as [a pl pe|d|].
    + pose proof (query_out_shape c s tr a pl pe HI) as H. rewrite Es in H.
      destruct H as [(-> & Hp & _)|(v & -> & Hp & _)]; rewrite Hp; cbn [length]; lia.
    + cbn in Es. injection Es as <- <-. cbn. lia.
    + cbn in Es. unfold step in Es. cbn in Es.
      destruct (o_clear (s_now s) (s_live s)); destruct (o_clear (s_now s) (s_nonlive s)).
      cbn in Es. injection Es as <- <-. cbn. lia.
Qed.

Lemma probes_count c h :
  s_probes (after c h) = N.of_nat (length (filter is_probed (trace c h))).
Proof. unfold after, trace. rewrite (probes_count_inv c h _ [] (Inv_init c)). cbn. lia. Qed.

(* ---------- T3 bounds ---------- *)
Lemma side_bounded c s tr v : Inv c s tr -> cap c v <> 0%Z -> size v s <= lru_size (cap c v).
Proof.
  intros (W1 & W2 & _) Hc. unfold size.
  assert (W : wf_side c v (side v s)) by (destruct v; auto).
  destruct (side v s) as [ca|]; [|unfold lru_size, defaultSizeLRU; destruct (cap c v <=? 0)%Z; lia].
  destruct W as (Wf & _ & Wk). pose proof (wf_cache_len _ Wf) as Hl.
  destruct ca; [congruence|]. destruct Wk as [_ <-]. auto.
Qed.

Lemma lru_bounded c h v : cap c v <> 0%Z -> size v (after c h) <= lru_size (cap c v).
Proof. apply (side_bounded c _ (trace c h)). apply Inv_after. Qed.

Lemma capacity_respected_by_config c h v :
  (0 < cap c v)%Z -> (Z.of_N (size v (after c h)) <= cap c v)%Z.
Proof.
  intros H. assert (Hc : cap c v <> 0%Z) by lia. pose proof (lru_bounded c h v Hc) as Hb.
  unfold lru_size in Hb. destruct (cap c v <=? 0)%Z eqn:E; lia.
Qed.

(* every cache holding entries under a capacity is an LRU of exactly that size; a
   configured capacity never yields the unbounded map *)
Lemma capacity_gives_lru c h v ca :
  cap c v <> 0%Z -> side v (after c h) = Some ca ->
  exists ttl l, ca = CLru ttl l /\ lcap l = lru_size (cap c v).
Proof.
  intros Hc Hs. destruct (Inv_after c h) as (W1 & W2 & _).
  assert (W : wf_side c v (side v (after c h))) by (destruct v; auto).
  rewrite Hs in W. destruct W as (_ & _ & Wk). destruct ca; [congruence|]. destruct Wk. eauto.
Qed.

(* ---------- T4 evicted or expired entries are never served ---------- *)
Definition absent (v : bool) (s : st) (k : N) : Prop := ofind k (side v s) = None.
Definition evicted_from (v : bool) (e : evs) : list N := if v then fst e else snd e.

Lemma evicted_absent c s tr o s' x e v k : Inv c s tr -> step_ev s o = (s', x, e) ->
  In k (evicted_from v e) -> absent v s' k.
Proof.
  intros (W1 & W2 & _) Hse Hin. destruct o as [a pl pe|d|].
  - destruct (query_cases _ _ _ _ _ _ _ _ W1 W2 Hse) as
      [l' Hl -> -> ->|Hl n' Hn -> -> ->|Hl Hn -> l'' e3 Ha -> -> ->|Hl Hn -> n'' e3 Ha -> -> ->];
      destruct v; cbn in Hin; try contradiction; unfold absent; cbn.
    + destruct (o_add_spec _ _ _ _ _ _ _ W1 Ha) as (_ & _ & A3 & _). apply A3; auto.
    + destruct (o_add_spec _ _ _ _ _ _ _ W2 Ha) as (_ & _ & A3 & _). apply A3; auto.
  - cbn in Hse. injection Hse as <- <- <-. destruct v; cbn in Hin; contradiction.
  - cbn in Hse.
    destruct (o_clear (s_now s) (s_live s)) as [l' e1] eqn:C1.
    destruct (o_clear (s_now s) (s_nonlive s)) as [n' e2] eqn:C2.
    injection Hse as <- <- <-.
    destruct (o_clear_spec _ _ _ _ _ _ W1 C1) as (_ & _ & _ & A4).
    destruct (o_clear_spec _ _ _ _ _ _ W2 C2) as (_ & _ & _ & B4).
    destruct v; cbn in Hin; unfold absent; cbn; auto.
Qed.

Definition measures (v : bool) (k : N) (e : lop * lout) : bool :=
  match e with
  | (Query a _ _, Probed v' _) => (a =? k) && Bool.eqb v v'
  | _ => false
  end.

Lemma absent_step c s tr o s' x v k : Inv c s tr -> step s o = (s', x) ->
  absent v s k -> measures v k (o, x) = false -> absent v s' k.
Proof.
  intros (W1 & W2 & _) Hs Hab Hm. destruct (step_step_ev _ _ _ _ Hs) as [e Hse]. clear Hs.
  unfold absent in *.
  assert (Hnone : forall oc oc', (forall k' y, ofind k' oc' = Some y -> ofind k' oc = Some y) ->
                   ofind k oc = None -> ofind k oc' = None).
  { intros oc oc' Hsub Hn. destruct (ofind k oc') eqn:E; auto. apply Hsub in E. congruence. }
  destruct o as [a pl pe|d|].
  - destruct (query_cases _ _ _ _ _ _ _ _ W1 W2 Hse) as
      [l' Hl -> -> _|Hl n' Hn -> -> _|Hl Hn -> l'' e3 Ha -> -> _|Hl Hn -> n'' e3 Ha -> -> _].
    + destruct (o_lookup_spec _ _ _ _ _ _ _ _ W1 Hl) as (_ & _ & L3 & _).
      destruct v; cbn in *; auto. eapply Hnone; eauto.
    + destruct (o_lookup_spec _ _ _ _ _ _ _ _ W2 Hn) as (_ & _ & L3 & _).
      destruct v; cbn in *; auto. eapply Hnone; eauto.
    + destruct v; cbn in *; auto.
      destruct (o_add_spec _ _ _ _ _ _ _ W1 Ha) as (_ & A2 & _).
      destruct (ofind k l'') eqn:E; auto. destruct (A2 _ _ E) as [[-> _]|[_ Hf]]; [|congruence].
      rewrite N.eqb_refl in Hm. discriminate.
    + destruct v; cbn in *; auto.
      destruct (o_add_spec _ _ _ _ _ _ _ W2 Ha) as (_ & A2 & _).
      destruct (ofind k n'') eqn:E; auto. destruct (A2 _ _ E) as [[-> _]|[_ Hf]]; [|congruence].
      rewrite N.eqb_refl in Hm. discriminate.
  - cbn in Hse. injection Hse as <- <- _. destruct v; cbn in *; auto.
  - cbn in Hse.
    destruct (o_clear (s_now s) (s_live s)) as [l' e1] eqn:C1.
    destruct (o_clear (s_now s) (s_nonlive s)) as [n' e2] eqn:C2.
    injection Hse as <- <- _.
    destruct (o_clear_spec _ _ _ _ _ _ W1 C1) as (_ & A2 & _).
    destruct (o_clear_spec _ _ _ _ _ _ W2 C2) as (_ & B2 & _).
    destruct v; cbn in *.
    + destruct (ofind k l') eqn:E; auto. apply A2 in E. destruct E. congruence.
    + destruct (ofind k n') eqn:E; auto. apply B2 in E. destruct E. congruence.
Qed.

Lemma absent_run c v k h : forall s tr, Inv c s tr -> absent v s k ->
  existsb (measures v k) (snd (run s h)) = false -> absent v (fst (run s h)) k.
Proof.
  induction h as [|o h IH]; intros s tr HI Hab; cbn [run].
  - auto.
  - destruct (step s o) as [s1 x] eqn:Es. pose proof (Inv_step _ _ _ _ _ _ HI Es) as HI1.
    specialize (IH _ _ HI1). destruct (run s1 h) as [s2 tr2]. cbn [fst snd existsb] in *.
    intros Hm. apply Bool.orb_false_iff in Hm. destruct Hm as [Hm1 Hm2].
    apply IH; auto. eapply (absent_step c s tr o s1 x); eauto.
Qed.

Lemma absent_not_served c s tr v k pl pe : Inv c s tr -> absent v s k ->
  snd (step s (Query k pl pe)) <> Cached v.
Proof.
  intros HI Hab Hx. pose proof (query_out_shape c s tr k pl pe HI) as H.
  destruct (step s (Query k pl pe)) as [s' x]. cbn in Hx. subst x.
  destruct H as [(Hd & _)|(v' & Hv & _ & (t & ttl & Hf & _))]; [discriminate|].
  injection Hv as <-. unfold absent in Hab. congruence.
Qed.

(* once the eviction callback (capacity eviction or ClearExpired) has run on an
   address, no later query is answered from that cache until the address has
   been measured again with that verdict *)
Lemma evicted_never_served c h1 o h2 v k pl pe :
  let s0 := after c h1 in
  In k (evicted_from v (snd (step_ev s0 o))) ->
  let s1 := fst (step s0 o) in
  existsb (measures v k) (snd (run s1 h2)) = false ->
  snd (step (fst (run s1 h2)) (Query k pl pe)) <> Cached v.
Proof.
  cbn zeta. intros Hin Hm.
  pose proof (Inv_after c h1) as HI0.
  destruct (step_ev (after c h1) o) as [[s1 x] e] eqn:Hse. cbn in Hin.
  pose proof (step_ev_step _ _ _ _ _ Hse) as Hs. rewrite Hs in *. cbn [fst] in *.
  pose proof (Inv_step _ _ _ _ _ _ HI0 Hs) as HI1.
  pose proof (evicted_absent _ _ _ _ _ _ _ _ _ HI0 Hse Hin) as Hab.
  pose proof (absent_run c v k h2 _ _ HI1 Hab Hm) as Hab2.
  pose proof (Inv_run c h2 _ _ HI1) as HI2.
  eapply absent_not_served; eauto.
Qed.

(* an entry whose age reached the lifetime is not served (Lookup uses >=) *)
Lemma expired_never_served c h v k pl pe t ttl :
  ofind k (side v (after c h)) = Some (t, ttl) -> fresh (s_now (after c h)) t ttl = false ->
  snd (step (after c h) (Query k pl pe)) <> Cached v.
Proof.
  intros Hf Hfr Hx. pose proof (probe_iff_miss c h k pl pe) as H. cbn zeta in H.
  destruct (step (after c h) (Query k pl pe)) as [s' x]. cbn in Hx. subst x.
  destruct H as [(Hd & _)|(v' & Hv & _ & (t' & ttl' & Hf' & Hfr'))]; [discriminate|].
  injection Hv as <-. congruence.
Qed.

(* ClearExpired removes exactly the entries strictly older than the lifetime *)
Lemma clear_removes_overdue c h v k x :
  let s := after c h in let s' := fst (step s ClearExpired) in
  ofind k (side v s') = Some x <-> (ofind k (side v s) = Some x /\ overdue (s_now s) (fst x) (snd x) = false).
Proof.
  cbn zeta. destruct (Inv_after c h) as (W1 & W2 & _). unfold step. cbn [step_ev].
  destruct (o_clear (s_now (after c h)) (s_live (after c h))) as [l' e1] eqn:C1.
  destruct (o_clear (s_now (after c h)) (s_nonlive (after c h))) as [n' e2] eqn:C2.
  destruct (o_clear_spec _ _ _ _ _ _ W1 C1) as (_ & A2 & A3 & _).
  destruct (o_clear_spec _ _ _ _ _ _ W2 C2) as (_ & B2 & B3 & _).
  destruct v; cbn; split; intros H; try (apply A2; auto); try (apply B2; auto);
    destruct H; [apply A3|apply B3]; auto.
Qed.

(* the two caches never both hold a fresh verdict: the lookup order is immaterial *)
Lemma never_both_fresh c h a : ~ (fresh_on true (after c h) a /\ fresh_on false (after c h) a).
Proof.
  destruct (Inv_after c h) as (_ & _ & E1 & E2).
  intros [(t1 & l1 & F1 & R1) (t2 & l2 & F2 & R2)]. cbn in F1, F2.
  destruct (E1 _ _ _ F1) as [_ H1]. destruct (E2 _ _ _ F2) as [_ H2].
  rewrite (H1 R1) in H2. specialize (H2 R2). discriminate.
Qed.
