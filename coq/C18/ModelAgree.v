(* C18 model: the two implementations of the `cache` interface driven directly
   (Lookup / Add / ClearExpired / clock advance). Definitions only. *)
From CJ Require Export Common.Base C18.Model.

Inductive kop := KLookup (k : N) | KAdd (k : N) | KClear | KAdv (d : N).

(* result of one interface call: Lookup's answer (false for the others) and Len() afterwards *)
Definition kstep (now : N) (c : cache) (o : kop) : N * cache * (bool * N) :=
  match o with
  | KLookup k => let '(b, c', _) := c_lookup now k c in (now, c', (b, c_len c'))
  | KAdd k => let '(c', _) := c_add now k c in (now, c', (false, c_len c'))
  | KClear => let '(c', _) := c_clear now c in (now, c', (false, c_len c'))
  | KAdv d => (now + d, c, (false, c_len c))
  end.

Fixpoint krun (now : N) (c : cache) (h : list kop) : list (bool * N) :=
  match h with
  | [] => []
  | o :: r => let '(now', c', x) := kstep now c o in x :: krun now' c' r
  end.

Definition added_keys (h : list kop) : list N :=
  flat_map (fun o => match o with KAdd k => [k] | _ => [] end) h.

(* the tester only calls Add after a lookup missed; for the comparison we need the
   stronger discipline "Add only for keys that are not in the cache at all"
   (evaluated on the run of cache c) *)
Fixpoint adds_absent (now : N) (c : cache) (h : list kop) : bool :=
  match h with
  | [] => true
  | o :: r =>
      (match o with KAdd k => match c_find k c with None => true | Some _ => false end | _ => true end) &&
      let '(now', c', _) := kstep now c o in adds_absent now' c' r
  end.
