(* C18, fifth round: the configuration as it ARRIVES -- the station TOML (lib.Config embeds
   *RegConfig embeds *liveness.Config; BurntSushi/toml decodes by key name) -- and the decoding
   step key name -> field.  The table of key names below is the specification (documented in
   cmd/application/app_config.toml): cache_expiration_time / cache_capacity speak about the LIVE
   cache, cache_expiration_nonlive / cache_capacity_nonlive about the NOT-LIVE cache. *)
From CJ Require Import Common.Base C18.Model C18.Proofs C18.Proofs2.
Require Import Coq.Strings.String.
Local Open Scope string_scope.
Local Open Scope list_scope.

(* a value as written: a duration string (already through time.ParseDuration; None = "") or an integer *)
Inductive tval := TDur (d : option Z) | TInt (z : Z).
(* the document: key name -> value (TOML forbids duplicate keys; the first binding is the only one) *)
Definition toml := list (string * tval).

Fixpoint tget (k : string) (d : toml) : option tval :=
  match d with
  | [] => None
  | (k', x) :: r => if String.eqb k k' then Some x else tget k r
  end.
(* absent key = Go zero value ("" / 0) *)
Definition get_dur (k : string) (d : toml) : option Z :=
  match tget k d with Some (TDur x) => x | _ => None end.
Definition get_int (k : string) (d : toml) : Z :=
  match tget k d with Some (TInt z) => z | _ => 0%Z end.

(* the documented key of each side (true = live) *)
Definition key_dur (v : bool) : string := if v then "cache_expiration_time" else "cache_expiration_nonlive".
Definition key_cap (v : bool) : string := if v then "cache_capacity" else "cache_capacity_nonlive".
Definition written_dur (d : toml) (v : bool) : option Z := get_dur (key_dur v) d.
Definition written_cap (d : toml) (v : bool) : Z := get_int (key_cap v) d.

(* the decoding step: struct tags of liveness.Config *)
Definition decode (d : toml) : cfg :=
  mkCfg (get_dur "cache_expiration_time" d) (get_int "cache_capacity" d)
        (get_dur "cache_expiration_nonlive" d) (get_int "cache_capacity_nonlive" d).

(* refuted variants: tags of the two capacities / the two lifetimes exchanged *)
Definition decode_swapped_caps (d : toml) : cfg :=
  mkCfg (get_dur "cache_expiration_time" d) (get_int "cache_capacity_nonlive" d)
        (get_dur "cache_expiration_nonlive" d) (get_int "cache_capacity" d).
Definition decode_swapped_durs (d : toml) : cfg :=
  mkCfg (get_dur "cache_expiration_nonlive" d) (get_int "cache_capacity" d)
        (get_dur "cache_expiration_time" d) (get_int "cache_capacity_nonlive" d).

(* ---- the decoded configuration carries, field by field, the value written under the field's own key ---- *)
Lemma decode_fieldwise d v :
  dur (decode d) v = written_dur d v /\ cap (decode d) v = written_cap d v.
Proof. destruct v; split; reflexivity. Qed.

(* the tester built from a decoded configuration is the tester of the written values *)
Lemma decode_tester d :
  init_caches (decode d) =
  mkSt (init_cache (written_dur d true) (written_cap d true))
       (init_cache (written_dur d false) (written_cap d false)) 0 0.
Proof. reflexivity. Qed.

(* hence the bound and staleness theorems hold with the WRITTEN values *)
Lemma toml_lru_bounded d h v :
  written_cap d v <> 0%Z -> size v (after (decode d) h) <= lru_size (written_cap d v).
Proof.
  intros H. destruct (decode_fieldwise d v) as [_ Hc]. rewrite <- Hc in *. now apply lru_bounded.
Qed.

Lemma toml_capacity_respected d h v :
  (0 < written_cap d v)%Z -> (Z.of_N (size v (after (decode d) h)) <= written_cap d v)%Z.
Proof.
  intros H. destruct (decode_fieldwise d v) as [_ Hc]. rewrite <- Hc in *. now apply capacity_respected_by_config.
Qed.

Lemma toml_unset_duration_no_cache d h v :
  written_dur d v = None -> size v (after (decode d) h) = 0.
Proof.
  intros H. destruct (decode_fieldwise d v) as [Hd _]. rewrite <- Hd in H. clear Hd.
  assert (G : forall hh s, side v s = None -> side v (fst (run s hh)) = None).
  { induction hh as [|o hh IH]; intros s Hs; [exact Hs|]. cbn [run].
    destruct (step s o) as [s1 x] eqn:E. specialize (IH s1).
    destruct (run s1 hh) as [s2 tr] eqn:E2. cbn [fst] in *. apply IH.
    unfold step in E. destruct o as [a pl pe|n|]; cbn in E.
    - destruct v; cbn [side] in *; rewrite Hs in E; cbn in E.
      + destruct (o_lookup (s_now s) a (s_nonlive s)) as [[hn n'] e2] eqn:En. destruct hn; [inversion E; reflexivity|].
        destruct pl; cbn in E; [inversion E; reflexivity|].
        destruct (o_add (s_now s) a n') as [n'' e3]. inversion E; reflexivity.
      + destruct (o_lookup (s_now s) a (s_live s)) as [[hl l'] e1] eqn:El. destruct hl; [inversion E; reflexivity|].
        cbn in E. destruct pl.
        * destruct (o_add (s_now s) a l') as [l'' e3]. inversion E; reflexivity.
        * cbn in E. inversion E; reflexivity.
    - inversion E. destruct v; exact Hs.
    - destruct v; cbn [side] in *; rewrite Hs in E; cbn in E.
      + destruct (o_clear (s_now s) (s_nonlive s)) as [n' e2]. inversion E; reflexivity.
      + destruct (o_clear (s_now s) (s_live s)) as [l' e1]. inversion E; reflexivity. }
  unfold size, after. rewrite G; [reflexivity|]. destruct v; cbn [side init_caches s_live s_nonlive dur] in *; rewrite H; reflexivity.
Qed.

Lemma toml_served_only_fresh d h a pl pe v :
  outs (decode d) (h ++ [Query a pl pe]) = outs (decode d) h ++ [Cached v] ->
  exists g ttl, last_measured (trace (decode d) h) a = Some (v, g) /\
                written_dur d v = Some ttl /\ (Z.of_N g < ttl)%Z.
Proof.
  intros H. destruct (served_only_fresh_outs _ _ _ _ _ _ H) as (g & ttl & H1 & H2 & H3).
  exists g, ttl. destruct (decode_fieldwise d v) as [Hd _]. rewrite <- Hd. auto.
Qed.

(* ---- the same statements are FALSE for the swapped decodings (witnesses) ---- *)
Definition w_caps : toml :=
  [("cache_expiration_time", TDur (Some 3%Z)); ("cache_capacity", TInt 0%Z);
   ("cache_expiration_nonlive", TDur (Some 2%Z)); ("cache_capacity_nonlive", TInt 2%Z)].
Definition w_caps_h : list lop := [Query 0 false 0; Query 1 false 0; Query 2 false 0].
Lemma swapped_caps_break_bound :
  (0 < written_cap w_caps false)%Z /\
  (Z.of_N (size false (after (decode_swapped_caps w_caps) w_caps_h)) > written_cap w_caps false)%Z /\
  (* ... and the verdict the bound should have evicted is still served *)
  snd (step (after (decode_swapped_caps w_caps) w_caps_h) (Query 0 false 0)) = Cached false /\
  snd (step (after (decode w_caps) w_caps_h) (Query 0 false 0)) = Probed false 0.
Proof. vm_compute. repeat split; congruence. Qed.

Definition w_durs : toml :=
  [("cache_expiration_time", TDur (Some 5%Z)); ("cache_expiration_nonlive", TDur (Some 2%Z))].
Definition w_durs_h : list lop := [Query 0 false 0; Adv 3].
Lemma swapped_durs_serve_stale :
  written_dur w_durs false = Some 2%Z /\
  last_measured (trace (decode_swapped_durs w_durs) w_durs_h) 0 = Some (false, 3) /\
  snd (step (after (decode_swapped_durs w_durs) w_durs_h) (Query 0 false 0)) = Cached false /\
  snd (step (after (decode w_durs) w_durs_h) (Query 0 false 0)) = Probed false 0.
Proof. vm_compute. repeat split; congruence. Qed.
